"""C11 — encoding never corrupts memory, hits undefined behaviour or hangs.

LEVEL "other": this family cannot prove memory safety of the encoder.

PROVED (Lean, Props/C11.lean, for ALL sizes/inputs; tied to the code by the unit correspondence below):
  (a) pad_spec / pad_least: `set_param_based_on_input` padding arithmetic for every picture size the translated validator
      accepts (accepted_cfg_size links to C12's generated `setParameterAccepts`);
  (b) recon_sizes_fit: the three `n_filled_len` increments of `recon_output` fit the buffer allocated by
      `svt_output_recon_buffer_header_creator`, every accepted size / bit depth, no integer wrap;
  (c) bitstream buffers: two constants, unchecked copies (`stop_encode_unchecked`, `append_tiles_in_bounds_iff`), and the NEGATIVE
      theorem `bitbuf_not_bounded` — replayed on the real encoder (1280x720 10-bit noise, qp 0, one frame);
  (d) copy_api_from_app out-of-bounds before / without validation (re-export of C12) — replayed on the real API under ASan/UBSan;
  (e) liveness pieces re-exported from C24 / C23 / C03.
EXERCISED ONLY (implementation oracle): the real encoder, ASan + UBSan (recoverable, alignment check off) Debug build, over a
  FIXED committed matrix of extreme accepted configurations x sizes x contents; VERIF_SEED varies the content seed only.
  Oracle per run: sanitizer report whose first library frame is in Source/ (kind + function), abort / signal, watchdog, error
  packet, ERR line of the harness.  Every distinct (function, kind) is a defect of the tree: `chk.violation(..., key="C11-<function>-<kind>")`;
  keys listed in known_findings.txt print KNOWN-FINDING, anything else is a VIOLATION with the exact arguments as replay.
  UBSan arithmetic kinds (shift, signed-overflow) at a site that is not individually listed go to the family key
  `C11-ubsan-arith-unlisted-site` (the left-shift-of-negative idiom is used in hundreds of places; which ones a given content
  reaches is data dependent).
"""
import os
import re
import subprocess
import threading
import time
from . import common as C

LEVEL = "other"
MODULE = "SvtVerif.Props.C11"
FLAVOUR = "asanenc"
# ASan + UBSan.  Differences from the standard "asan" flavour, both forced by the code as it is:
#  * -fno-sanitize=alignment: svt_memcpy_small (Source/Lib/Common/Codec/EbUtility.c:34, ASM_SSE2/EbPictureOperators_Intrinsic_SSE2.c:228) loads/stores through
#    misaligned double* (_mm_load_sd/_mm_store_sd on byte pointers); the alignment check aborts before any picture is processed
#    (recorded as finding candidate C11-svt_memcpy_small-misaligned by the probe below, compile-time text check);
#  * UBSan is RECOVERABLE: the first inter picture executes `x << n` on negative / overflowing ints in motion estimation
#    (EbMotionEstimation.c:39, :480); non-recoverable UBSan would end every run there and hide everything behind it.
C.FLAVOURS[FLAVOUR] = ("Debug", "-D%s -Wno-error -O1 -g -fsanitize=address,undefined -fno-sanitize=alignment "
                                "-fno-omit-frame-pointer" % C.GUARD,
                       ["-DCMAKE_EXE_LINKER_FLAGS=-fsanitize=address,undefined"])

MARK = "--- replay args (harness/c11_enc.c, flavour %s) ---"
GENERIC_COPY = re.compile(r"^(svt_memcpy|svt_memset|svt_memmove|eb_memcpy|memcpy|memset|memmove|__interceptor|__asan|__sanitizer|__ubsan)")
ARITH_KINDS = ("shift", "signed-overflow")
FAMILY_KEY = "C11-ubsan-arith-unlisted-site"

UB_KINDS = [("out of bounds", "index-out-of-bounds"), ("left shift", "shift"), ("right shift", "shift"), ("shift exponent", "shift"),
            ("signed integer overflow", "signed-overflow"), ("null pointer", "null-pointer"), ("division by zero", "div-by-zero"),
            ("not a valid value", "invalid-value"), ("misaligned", "misaligned"), ("pointer index expression", "pointer-overflow"),
            ("applying", "pointer-overflow"), ("negation of", "signed-overflow"), ("outside the range", "float-cast-overflow"),
            ("insufficient space", "object-size"), ("variable length array", "vla-bound"), ("unreachable", "unreachable")]


# ----------------------------------------------------------------------------- the fixed matrix
def _m(label, **kw):
    a = {"w": 64, "h": 64, "n": 3, "bd": 8, "content": 0, "recon": 0, "decode": 0}
    for k, v in kw.items():
        a[k.replace("cfg_", "cfg.")] = v
    return (label, a)


# content: 0 noise, 1 flat, 2 gradient, 3 extreme checker, 4 moving texture, 5 screen-like, 6 all max, 7 all min
QUICK_MATRIX = [
    _m("64x64-noise-qp0-recon", cfg_qp=0, recon=1),
    _m("64x64-max-qp63-10bit", content=6, bd=10, cfg_qp=63),
    _m("64x256-tall-noise-qp51", h=256, cfg_qp=51),
    _m("66x70-nonmult8-noise-qp20-recon", w=66, h=70, cfg_qp=20, recon=1),
    _m("74x90-nonmult8-texture-10bit-qp0-recon", w=74, h=90, content=4, bd=10, cfg_qp=0, recon=1),
    _m("128x64-min-preset0-qp30", w=128, n=4, content=7, cfg_enc_mode=0, cfg_qp=30),
    _m("128x128-noise-tiles2x2-qp10", w=128, h=128, cfg_tile_columns=1, cfg_tile_rows=1, cfg_qp=10),
    _m("96x64-screen-scm1-qp40", w=96, content=5, cfg_screen_content_mode=1, cfg_qp=40),
    _m("64x64-noise-lp1-qp51", cfg_logical_processors=1, cfg_qp=51),
    _m("70x130-portrait-checker-preset4-qp35-recon", w=70, h=130, content=3, cfg_enc_mode=4, cfg_qp=35, recon=1),
    _m("64x64-flat-10bit-filmgrain-qp51", content=1, bd=10, cfg_qp=51, cfg_film_grain_denoise_strength=10),
    _m("192x64-texture-vbr", w=192, n=4, content=4, cfg_rate_control_mode=1, cfg_target_bit_rate=200000),
]
THOROUGH_EXTRA = [
    _m("128x64-gradient-superres-qp30", w=128, content=2, cfg_superres_mode=1, cfg_superres_denom=12, cfg_qp=30),
    _m("128x64-min-preset2-qp30", w=128, content=7, cfg_enc_mode=2, cfg_qp=30),
    _m("64x64-max-preset6-qp51", content=6, cfg_enc_mode=6, cfg_qp=51),
    _m("4096x64-wide-noise-qp51", w=4096, n=2, cfg_qp=51),
    _m("64x2160-tall-noise-qp51", h=2160, n=2, cfg_qp=51),
    _m("130x66-nonmult8-noise-10bit-qp10-recon", w=130, h=66, bd=10, cfg_qp=10, recon=1),
    _m("318x182-nonmult8-texture-qp25-recon", w=318, h=182, content=4, cfg_qp=25, recon=1),
    _m("64x64-noise-qp63", cfg_qp=63),
    _m("64x64-min-qp0-10bit", content=7, bd=10, cfg_qp=0),
    _m("64x64-checker-qp0", content=3, cfg_qp=0),
    _m("256x256-noise-tiles4x4-qp30-lp2", w=256, h=256, cfg_tile_columns=2, cfg_tile_rows=2, cfg_qp=30, cfg_logical_processors=2),
    _m("128x128-texture-preset1-10bit-qp20", w=128, h=128, content=4, bd=10, cfg_enc_mode=1, cfg_qp=20),
    _m("128x128-texture-preset3-qp45", w=128, h=128, content=4, cfg_enc_mode=3, cfg_qp=45),
    _m("128x128-noise-preset5-qp5", w=128, h=128, cfg_enc_mode=5, cfg_qp=5),
    _m("128x128-screen-preset7-qp35-scm1", w=128, h=128, content=5, cfg_enc_mode=7, cfg_qp=35, cfg_screen_content_mode=1),
    _m("64x64-gradient-levels0-qp30", content=2, cfg_hierarchical_levels=0, cfg_qp=30, n=5),
    _m("64x64-gradient-levels3-lad0-qp30", content=2, cfg_hierarchical_levels=3, cfg_look_ahead_distance=0, cfg_qp=30, n=6),
    _m("64x64-noise-intra-only-qp15", cfg_intra_period_length=0, cfg_qp=15, n=4),
    _m("96x96-texture-cbr-10bit", w=96, h=96, n=4, content=4, bd=10, cfg_rate_control_mode=2, cfg_target_bit_rate=150000),
    _m("64x64-noise-16bit-pipeline-qp30", cfg_is_16bit_pipeline=1, cfg_qp=30),
]


# ----------------------------------------------------------------------------- running the real encoder
def enc_exe(flavour):
    import sys
    sys.path.insert(0, os.path.join(C.VERIF, "xlate"))
    import cfgfields
    hdr = os.path.join(C.gen_src_dir(), "cfg_fields.h")
    txt = cfgfields.xmacro_header()
    if not os.path.exists(hdr) or open(hdr).read() != txt:
        open(hdr, "w").write(txt)
    extra = ["-I" + C.gen_src_dir(), "-I" + os.path.join(C.VERIF, "harness")]
    if flavour == FLAVOUR:
        extra.append("-fsanitize=address,undefined")
    return C.compile_harness("c11_enc_" + flavour, [os.path.join(C.VERIF, "harness", "c11_enc.c")],
                             libs=["libSvtAv1Enc.a", "libSvtAv1Dec.a"], flavour=flavour, extra=extra)


_ALONE = threading.Lock()


def run_enc(args, flavour, watchdog):
    """One encode in its own process. A watchdog hit is repeated once, alone, with 4x the budget (DESIGN R6)."""
    r = _run_enc_once(args, flavour, watchdog)
    if r["hung"]:
        with _ALONE:
            r2 = _run_enc_once(args, flavour, watchdog * 4)
        r2["retried"] = True
        return r2
    return r


def _run_enc_once(args, flavour, watchdog):
    exe = enc_exe(flavour)
    a = dict(args)
    a["watchdog"] = watchdog
    argv = [exe] + ["%s=%s" % (k, v) for k, v in a.items()]
    env = dict(os.environ)
    env["ASAN_OPTIONS"] = "detect_leaks=0:abort_on_error=0:halt_on_error=1:allocator_may_return_null=1"
    env["UBSAN_OPTIONS"] = "print_stacktrace=1"
    t0 = time.time()
    try:
        p = subprocess.run(argv, stdout=subprocess.PIPE, stderr=subprocess.PIPE, timeout=watchdog + 120, env=env)
        out, err, rc = p.stdout.decode("utf-8", "replace"), p.stderr.decode("utf-8", "replace"), p.returncode
    except subprocess.TimeoutExpired as ex:
        out = (ex.stdout or b"").decode("utf-8", "replace")
        err, rc = (ex.stderr or b"").decode("utf-8", "replace") + "\n[harness wall-clock timeout]", 124
    r = C.parse_e2e(out)
    r["rc"], r["stderr"], r["argv"], r["wall"] = rc, err, " ".join(argv[1:]), time.time() - t0
    r["hung"] = rc in (3, 124) or r["TIMEOUT"]
    return r


# ----------------------------------------------------------------------------- sanitizer report parsing
FRAME = re.compile(r"^\s*#(\d+) 0x[0-9a-f]+ in (\S+) (\S+?)(?::(\d+))?(?::\d+)?\s*$")
FRAME2 = re.compile(r"^\s*#(\d+) 0x[0-9a-f]+ in (\S+)")


def split_reports(err):
    """-> list of {head, kind, rw, frames:[(func, file, line)], where}"""
    reps, cur = [], None
    for l in err.split("\n"):
        s = l.strip()
        m = re.match(r"^(\S+?):(\d+):(\d+): runtime error: (.*)$", s)
        if m:
            msg = m.group(4)
            cur = {"head": s, "san": "ubsan", "kind": next((k for pat, k in UB_KINDS if pat in msg), "ub"), "rw": "",
                   "frames": [], "where": "%s:%s" % (m.group(1), m.group(2)), "msg": msg}
            reps.append(cur)
            continue
        m = re.search(r"ERROR: AddressSanitizer: (\S+)", s)
        if m:
            cur = {"head": s, "san": "asan", "kind": m.group(1), "rw": "", "frames": [], "where": "", "msg": s}
            reps.append(cur)
            continue
        if cur is None:
            continue
        if s.startswith("READ of size") or s.startswith("WRITE of size"):
            if not cur["rw"]:
                cur["rw"] = s.split()[0].lower()
            continue
        if s.startswith("#"):
            if cur.get("closed"):
                continue
            m = FRAME.match(s)
            if m:
                cur["frames"].append((m.group(2), m.group(3), m.group(4) or ""))
            else:
                m = FRAME2.match(s)
                if m:
                    cur["frames"].append((m.group(2), "", ""))
            continue
        if cur["frames"] and (s == "" or s.startswith("0x") or s.startswith("SUMMARY") or "is located" in s or s.startswith("allocated by")
                              or s.startswith("freed by") or s.startswith("previously allocated")):
            cur["closed"] = True      # only the first stack of an ASan report is the faulting access
    return reps


def classify(rep):
    """-> (key, kind, function, in_library) ; function = first frame below the generic copy helpers that lies in Source/"""
    lib = [(f, p, ln) for f, p, ln in rep["frames"] if "/Source/" in p]
    fn = None
    for f, p, ln in lib:
        if GENERIC_COPY.match(f):
            continue
        fn = f
        break
    if fn is None and lib:
        fn = lib[0][0]
    in_lib = fn is not None
    if rep["san"] == "ubsan" and not rep["frames"]:
        # no stack (should not happen with print_stacktrace=1): fall back to the source file of the report
        in_lib = "/Source/" in rep["where"]
        fn = os.path.basename(rep["where"].split(":")[0])
    kind = rep["kind"] + ("-" + rep["rw"] if rep["rw"] else "")
    return "C11-%s-%s" % (fn, kind), kind, fn, in_lib


# ----------------------------------------------------------------------------- unit correspondence (a)(b)(c)
def recon_stmt_header():
    """Extract the three `sample_total_count = ...;` statements of recon_output() from the current tree."""
    src = open(os.path.join(C.REPO, "Source/Lib/Encoder/Codec/EbEncDecProcess.c")).read()
    m = re.search(r"\nvoid recon_output\(.*?\n}\n", src, re.S)
    if not m:
        raise C.BuildError("recon_output not found in EbEncDecProcess.c")
    body = m.group(0)
    stmts = re.findall(r"sample_total_count\s*=\s*[^;]*;", body)
    checks = len(re.findall(r"CHECK_REPORT_ERROR\(\(output_recon_ptr->n_filled_len \+ sample_total_count <=\s*output_recon_ptr->n_alloc_len\)", body))
    incs = len(re.findall(r"output_recon_ptr->n_filled_len \+= sample_total_count;", body))
    if len(stmts) != 3 or checks != 3 or incs != 3:
        raise C.BuildError("recon_output no longer has the shape the C11 model transcribes: %d size statements, %d checks, %d increments"
                           % (len(stmts), checks, incs))
    lines = ["/* generated by checks/c11.py from EbEncDecProcess.c:recon_output */"]
    for name, s in zip("YUV", stmts):
        lines.append("#define RECON_STMT_%s %s" % (name, " ".join(s.rstrip(";").split())))
    return "\n".join(lines) + "\n"


def units_exe():
    d = os.path.join(C.gen_src_dir(), "c11")
    os.makedirs(d, exist_ok=True)
    hdr = os.path.join(d, "c11_recon_stmts.h")
    txt = recon_stmt_header()
    if not os.path.exists(hdr) or open(hdr).read() != txt:
        open(hdr, "w").write(txt)
    return C.compile_harness("c11_units", [os.path.join(C.VERIF, "harness", "c11_units.c")], libs=["libSvtAv1Enc.a"], flavour="rel",
                             extra=["-I" + d, "-DC11_STMTS_%s" % C.hashlib.sha256(txt.encode()).hexdigest()[:12]])


def unit_ops(chk):
    r = chk.rng
    ws = list(range(64, 4097, 2))
    hs = list(range(64, 2161, 2))
    pairs = set()
    for w in ws:                                   # every accepted width
        pairs.add((w, r.choice([64, 66, 70, 1080, 2158, 2160])))
    for h in hs:                                   # every accepted height
        pairs.add((r.choice([64, 66, 70, 1920, 4094, 4096]), h))
    for w in (64, 66, 4090, 4094, 4096):
        for h in (64, 66, 2154, 2158, 2160):
            pairs.add((w, h))
    nrand = 1500 if chk.tier == "quick" else 40000
    for _ in range(nrand):
        pairs.add((r.choice(ws), r.choice(hs)))
    ops = []
    for w, h in sorted(pairs):
        ops.append("pad %d %d" % (w, h))
        ops.append("recon %d %d %d" % (w, h, r.choice([8, 10])))
        ops.append("bitbuf %d %d %d" % (w, h, r.choice([1, 1, 2, 4, 6, 8, 16, 64])))
    # sizes the validator rejects: the code is still the code (model and real must agree; no oracle)
    for w, h in ((62, 64), (65530, 64), (65534, 65534), (8, 8), (4098, 2162), (65, 67)):
        ops.append("pad %d %d" % (w, h))
        ops.append("bitbuf %d %d 1" % (w, h))
    return ops


def unit_oracle(op, line):
    """The property's own statement evaluated on the REAL code's output for an accepted size; returns None or a message."""
    ws, o = op.split(), line.split()
    w, h = int(ws[1]), int(ws[2])
    if not (64 <= w <= 4096 and 64 <= h <= 2160 and w % 2 == 0 and h % 2 == 0):
        return None
    v = [int(x) for x in o[1:]]
    if ws[0] == "pad":
        lw, lh, pr, pb, cw, chh = v
        ok = (lw % 8 == 0 and w <= lw < w + 8 and pr == lw - w and lh % 8 == 0 and h <= lh < h + 8 and pb == lh - h
              and cw * 2 == lw and chh * 2 == lh)
        return None if ok else "padding is not the least multiple of 8 / chroma is not half of luma"
    if ws[0] == "recon":
        alloc, f1, f2, f3, ok = v
        bps = 2 if int(ws[3]) > 8 else 1
        good = ok == 1 and f1 <= alloc and f2 <= alloc and f3 <= alloc and f3 == w * h * 3 // 2 * bps and f1 == w * h * bps
        return None if good else "recon_output would write %d bytes into a buffer of %d (or not the visible picture size)" % (f3, alloc)
    return None


# ----------------------------------------------------------------------------- the check
def run(chk, only=None):
    t_start = time.time()
    findings = {}        # key -> {count, text, args}

    def note(key, text, argv, flavour=FLAVOUR):
        f = findings.setdefault(key, {"count": 0, "text": text, "argv": argv, "flavour": flavour})
        f["count"] += 1

    # ---- 1. proofs
    pr = chk.proofs(MODULE, trusted_extra=[
        "Model/Padding.lean, Model/ReconSize.lean, Model/BitBuf.lean: hand transcriptions (line references inside) of set_param_based_on_input, "
        "svt_output_recon_buffer_header_creator, recon_output's size arithmetic, picture_copy_kernel's extent, EB_OUTPUTSTREAMBUFFERSIZE_MACRO and the two "
        "unchecked copies; tied to the code by harness/c11_units.c (real functions from libSvtAv1Enc.a; recon_output's three size statements compiled from "
        "their extracted source text) on every accepted width and every accepted height",
        "accepted_cfg_size rests on C12's generated model of copy_api_from_app + verify_settings (xlate/config.py)",
        "(d),(e) are re-exports: their models and trusted bases are those of C12, C24, C23, C03",
        "recon_ptr->max_width/height = padded size (EbEncHandle.c:1083-1084, 1183-1184) is read off the code, not proved; the real RECON sizes of the "
        "e2e runs are compared with the model's total"])
    # ---- 2. unit correspondence
    model_err = None
    unit_fail, unit_oracle_fail = [], []
    nunits = 0
    if only is None:
        ops = unit_ops(chk)
        text = "\n".join(ops) + "\n"
        exe = units_exe()
        rc, cout = C.sh([exe], input=text.encode(), timeout=1200)
        clines = [l for l in cout.split("\n") if l.strip()]
        mlines = None
        try:
            mlines = [l for l in C.run_model("c11", text).split("\n") if l.strip()]
        except (RuntimeError, C.BuildError) as e:
            model_err = str(e)[-1500:]
        if rc != 0 or len(clines) != len(ops):
            unit_fail.append(("harness", "c11_units: rc=%s, %d lines for %d ops: %s" % (rc, len(clines), len(ops), cout[-400:]), ""))
        else:
            nunits = len(ops)
            for i, op in enumerate(ops):
                if clines[i].startswith("ERR") or (mlines is not None and i < len(mlines) and mlines[i] != clines[i]):
                    unit_fail.append((op, clines[i], mlines[i] if mlines and i < len(mlines) else "?"))
                msg = unit_oracle(op, clines[i]) if not clines[i].startswith("ERR") else None
                if msg:
                    unit_oracle_fail.append((op, clines[i], msg))
        chk.cov["unit_ops"] = nunits
        chk.sample({"unit op": ops[7], "real": clines[7] if len(clines) > 7 else None})
    # ---- 3. the matrix under ASan/UBSan
    matrix = list(QUICK_MATRIX) + (list(THOROUGH_EXTRA) if chk.tier == "thorough" else [])
    cases = []
    nseeds = 1 if chk.tier == "quick" else 2
    for label, a in matrix:
        for k in range(nseeds):
            b = dict(a)
            b["seed"] = chk.seed * 1000 + 17 * k + len(cases)
            cases.append((label, b))
    if only is not None:
        cases = only
    wd = 900 if chk.tier == "quick" else 2400
    enc_exe(FLAVOUR)          # build once before the parallel runs
    t0 = time.time()
    results = C.run_parallel(lambda c: (c, run_enc(c[1], c[2] if len(c) > 2 else FLAVOUR, wd)), cases, workers=4)
    chk.cov["matrix_run_s"] = round(time.time() - t0, 1)
    kinds_seen, ended = {}, {"complete": 0, "sanitizer-abort": 0, "hang": 0, "crash": 0, "rejected": 0}
    unlisted_arith = set()
    known_keys = set(k["key"] for k in chk.known)
    recon_mismatch = []
    outside_lib = {}
    for (case, r) in results:
        label, a = case[0], case[1]
        flav = case[2] if len(case) > 2 else FLAVOUR
        reps = split_reports(r["stderr"])
        accepted = r["SETPARAM"] == 0
        asan_hit = False
        for rp in reps:
            key, kind, fn, in_lib = classify(rp)
            if not in_lib:
                outside_lib[kind] = outside_lib.get(kind, 0) + 1
                if rp["san"] == "asan":
                    asan_hit = True
                    harness_fn = [f for f, p, ln in rp["frames"] if "harness/" in p]
                    if not r["ERR"]:       # e.g. an error packet with p_buffer = NULL is reported through the ERR line below
                        note("C11-harness-%s" % kind, "ASan report outside the library (%s): %s" % (harness_fn[:2], rp["head"][:160]), r["argv"], flav)
                continue
            if rp["san"] == "asan":
                asan_hit = True
            kinds_seen[kind] = kinds_seen.get(kind, 0) + 1
            top = ["%s (%s:%s)" % (f, os.path.basename(p), ln) for f, p, ln in rp["frames"] if "/Source/" in p][:4]
            text = "%s%s | %s | %s" % ("" if accepted or r["SETPARAM"] is None else "[configuration REJECTED by set_parameter] ", rp["head"][:220], kind, " < ".join(top))
            if kind in ARITH_KINDS and key not in known_keys:
                unlisted_arith.add("%s %s" % (key, rp["where"].split("/Source/")[-1]))
                note(FAMILY_KEY, "UBSan %s at a site not listed individually, e.g. %s" % (kind, text), r["argv"], flav)
            else:
                note(key, text, r["argv"], flav)
        # end of run
        if r["hung"]:
            ended["hang"] += 1
            note("C11-hang-%s" % label, "no completion within the watchdog (%d s, then %d s alone): packets so far %d of %s" %
                 (wd, wd * 4, len(r["PKT"]), a.get("n")), r["argv"], flav)
        elif asan_hit:
            ended["sanitizer-abort"] += 1
        elif r["rc"] != 0:
            ended["crash"] += 1
            tail = [l for l in r["stderr"].split("\n") if l.strip()][-2:]
            note("C11-crash-%s" % label, "process ended with status %s without a sanitizer report: %s" % (r["rc"], tail), r["argv"], flav)
        elif r["SETPARAM"] not in (0, None):
            ended["rejected"] += 1
            if not label.startswith("probe"):
                note("C11-matrix-rejected-%s" % label, "matrix configuration rejected by set_parameter (%x): the matrix must hold accepted configurations" % r["SETPARAM"], r["argv"], flav)
        else:
            ended["complete"] += 1
            n = int(a.get("n", 0))
            if r["END"] is None or len(r["PKT"]) != n:
                note("C11-incomplete-%s" % label, "encode ended with %d packets for %d pictures (END %s)" % (len(r["PKT"]), n, r["END"]), r["argv"], flav)
        for e in r["ERR"]:
            m = re.match(r"error-packet flags=(\w+)", e)
            if m:
                note("C11-error-packet-%s" % m.group(1), "the encoder delivered an error packet, flags %s" % m.group(1), r["argv"], flav)
            elif e.startswith("get_packet") or e.startswith("get_recon") or e.startswith("send_picture") or e.startswith("enc_"):
                note("C11-api-error-%s" % e.split()[0], "API call returned an error during a plain encode: %s" % e, r["argv"], flav)
        # recon sizes of the real run == the model's total (ties recon_ptr->max_width = padded width)
        if r["RECON"] and not r["hung"]:
            exp = int(a["w"]) * int(a["h"]) * 3 // 2 * (2 if int(a.get("bd", 8)) > 8 else 1)
            bad = [x for x in r["RECON"] if x["size"] != exp]
            if bad:
                recon_mismatch.append("%s: recon n_filled_len %d, model %d" % (r["argv"], bad[0]["size"], exp))
    chk.cov["matrix_cases"] = len(cases)
    chk.cov["matrix_endings"] = ended
    chk.cov["sanitizer_kinds_in_library"] = kinds_seen
    chk.cov["sanitizer_reports_outside_library_ignored"] = outside_lib
    chk.cov["ubsan_arith_unlisted_sites"] = sorted(unlisted_arith)[:200]
    # ---- 4. dedicated probes
    if only is None:
        probe_copy_api(chk, note, wd)
        probe_bitbuf(chk, note, wd)
        probe_alignment(chk, note)
    # ---- 5. coverage / explanation
    chk.cov["evaluations"] = nunits + len(cases)
    sizes = {}
    for c in cases[:400]:
        a = c[1]
        k = "%sx%s" % (a.get("w"), a.get("h"))
        sizes[k] = sizes.get(k, 0) + 1
    chk.cov["matrix_sizes"] = sizes
    chk.cov["matrix_labels"] = [c[0] for c in cases][:80]
    chk.cov["distinct_nontrivial"] = len(set((c[0]) for c in cases)) + nunits // 3
    chk.cov["rule"] = ("distinct_nontrivial = distinct matrix rows encoded under ASan/UBSan (each a different size/content/quantizer/preset/bit-depth/tool "
                       "combination) + distinct picture sizes on which the real padding / recon-size / buffer-size code was compared with the model "
                       "(every accepted width and every accepted height at least once); evaluations = unit operations + encodes")
    chk.cov["findings_seen"] = {k: v["count"] for k, v in sorted(findings.items())}
    chk.cov["explanation"] = (
        "Proved for all inputs (Lean): padding arithmetic (pad_spec, pad_least) for every accepted size; the recon output buffer holds the three planes "
        "recon_output writes (recon_sizes_fit, recon_copy_within_increment); the bitstream buffers are two constants, both copies into them are unchecked "
        "and overflow exactly when the coded size exceeds them (stop_encode_unchecked, append_tiles_in_bounds_iff), and the raw picture alone exceeds them for "
        "accepted configurations (bitbuf_not_bounded) — so 'no out-of-bounds access' is FALSE for the pinned code and is listed as a finding; "
        "copy_api_from_app writes out of bounds for accepted configurations (accepted_yet_out_of_bounds); liveness pieces re-exported from C24/C23/C03. "
        "NOT proved: memory safety / absence of UB / termination of the encoder as a whole — mode decision, motion estimation, transforms, filters, rate "
        "control, entropy coding are only exercised on a fixed matrix of %d configurations under ASan+UBSan; a finite matrix cannot show absence of defects." % len(matrix))
    chk.assumptions += ["UBSan alignment check disabled (svt_memcpy_small stores through misaligned double*: aborts before the first picture)",
                        "UBSan recoverable (the shift idiom on negative ints is executed by the first inter picture); ASan halts the run at its first report",
                        "features recorded as broken by C03 are kept out of the matrix: hierarchical_levels=5, enable_overlays=1, lp=1 + tpl_la + short IDR periods, "
                        "long streams with recon_enabled=1",
                        "decoding the produced stream is C01/C08/C10's business: decode=0 here"]
    for (case, r) in results[:4]:
        chk.sample({"label": case[0], "args": r["argv"], "packets": len(r["PKT"]), "rc": r["rc"], "wall_s": round(r["wall"], 1),
                    "reports": len(split_reports(r["stderr"]))})
    chk.cov["wall_s_parts"] = {"total": round(time.time() - t_start, 1)}

    # ---- 6. verdict
    real_bad = False
    for key in sorted(findings):
        f = findings[key]
        txt = ("C11 violated by the real encoder: %s\n%s\nruns showing it in this check run: %d\nreplay: bin/check C11 --replay <this file>\n%s\n%s\n" %
               (key, f["text"], f["count"], MARK % f["flavour"], f["argv"]))
        if chk.violation(txt, tag=re.sub(r"[^A-Za-z0-9_]", "_", key)[:60], key=key):
            real_bad = True
    if unit_oracle_fail:
        op, line, msg = unit_oracle_fail[0]
        chk.violation("the REAL padding / recon-size code violates the property's statement on an accepted size\nop: %s\nreal: %s\n%s\nfailing ops: %d\n" %
                      (op, line, msg, len(unit_oracle_fail)), tag="unit")
        real_bad = True
    if recon_mismatch:
        chk.violation("recon buffers of a real encode do not have the size the model proves sufficient\n%s\n" % "\n".join(recon_mismatch[:5]), tag="reconsize")
        real_bad = True
    if not pr.ok:
        chk.violation("proof obligations do not check:\n%s\nforbidden tokens: %s\n" %
                      ("\n".join("%s: %s" % kv for kv in pr.failed.items()), pr.forbidden), tag="proof", found_input=False)
    if model_err:
        chk.violation("svtmodel c11 failed: %s\n" % model_err, tag="model", found_input=False)
    if unit_fail and not unit_oracle_fail:
        op, c, m = unit_fail[0]
        chk.violation("model and real code disagree on %d unit operations (the real outputs satisfy the property's statement)\nop: %s\nreal:  %s\nmodel: %s\n" %
                      (len(unit_fail), op, c, m), tag="corr", found_input=False)
    chk.cov["correspondence_failures"] = len(unit_fail)


# ----------------------------------------------------------------------------- probes
def probe_copy_api(chk, note, wd):
    """(d) F4 on the real API under ASan/UBSan."""
    out = {}
    for label, extra in (("accepted-hme-off-count-1000", {"cfg.enable_hme_flag": 0, "cfg.number_hme_search_region_in_width": 1000}),
                         ("rejected-count-3", {"cfg.number_hme_search_region_in_width": 3})):
        a = {"w": 64, "h": 64, "n": 0, "recon": 0, "decode": 0, "seed": 1}
        a.update(extra)
        r = run_enc(a, FLAVOUR, wd)
        reps = [rp for rp in split_reports(r["stderr"]) if any(f == "copy_api_from_app" for f, p, ln in rp["frames"])]
        out[label] = {"setparam": r["SETPARAM"], "rc": r["rc"], "reports": sorted(set(classify(rp)[0] for rp in reps))}
        for rp in reps:
            key, kind, fn, in_lib = classify(rp)
            note(key, "%s | %s | configuration %s by svt_av1_enc_set_parameter (Lean: C11.%s)" %
                 (rp["head"][:200], kind, "reached the copy loop and was still being copied when the sanitizer stopped the process" if r["SETPARAM"] is None
                  else "ACCEPTED" if r["SETPARAM"] == 0 else "rejected AFTER the write",
                  "accepted_yet_out_of_bounds" if "1000" in label else "copy_out_of_bounds_witness"), r["argv"])
    chk.cov["probe_copy_api"] = out


def probe_bitbuf(chk, note, wd):
    """(c) F8: 1280x720 10-bit noise, qp 0, one frame; Release library in the quick tier (heap corruption shows as abort / signal or as a
    packet larger than the buffer it was assembled in), ASan library in the thorough tier (the first overflowing copy itself)."""
    a = {"w": 1280, "h": 720, "n": 1, "bd": 10, "content": 0, "recon": 0, "decode": 0, "cfg.qp": 0, "cfg.enc_mode": 8,
         "cfg.hierarchical_levels": 0, "seed": chk.seed * 7 + 3}
    try:
        buf = int(C.run_model("c11", "bitbuf 1280 720 1\n").split()[1])
    except Exception:
        buf = 2000000
    out = {"model_bufSize": buf}
    r = run_enc(a, "rel", 600)
    big = [p["size"] for p in r["PKT"] if p["size"] > buf]
    out["rel"] = {"rc": r["rc"], "packets": [p["size"] for p in r["PKT"]], "stderr_tail": [l for l in r["stderr"].split("\n") if l.strip()][-1:]}
    if (r["rc"] not in (0,) and not r["hung"]) or big:
        note("C11-F8-bitstream-buffer-overflow",
             "1280x720 10-bit noise at qp 0: %s; per-picture bitstream buffer is %d bytes (Lean: C11.bitbuf_not_bounded, stop_encode_unchecked)" %
             ("coded frame of %d bytes" % big[0] if big else "process ended with status %s (%s)" % (r["rc"], out["rel"]["stderr_tail"]), buf), r["argv"], "rel")
    elif r["hung"]:
        note("C11-hang-probe-bitbuf", "watchdog", r["argv"], "rel")
    if chk.tier == "thorough":
        r = run_enc(a, FLAVOUR, 3600)
        reps = [rp for rp in split_reports(r["stderr"]) if rp["san"] == "asan"]
        out["asan"] = {"rc": r["rc"], "reports": [classify(rp)[0] for rp in reps]}
        for rp in reps:
            key, kind, fn, in_lib = classify(rp)
            top = ["%s (%s:%s)" % (f, os.path.basename(p), ln) for f, p, ln in rp["frames"] if "/Source/" in p][:4]
            note(key, "%s | %s | %s | 1280x720 10-bit noise qp 0, buffer %d bytes" % (rp["head"][:200], kind, " < ".join(top), buf), r["argv"])
    chk.cov["probe_bitbuf"] = out


def probe_alignment(chk, note):
    """The misaligned-access UB that forces -fno-sanitize=alignment, recorded from the source text (observing it at run time needs
    a third library build: the standard `asan` flavour): svt_memcpy_small copies an 8-byte piece with _mm_load_sd/_mm_store_sd through
    (double*) casts of arbitrary byte pointers."""
    hits = []
    for rel in ("Source/Lib/Common/Codec/EbUtility.c", "Source/Lib/Common/ASM_SSE2/EbPictureOperators_Intrinsic_SSE2.c"):
        p = os.path.join(C.REPO, rel)
        if not os.path.exists(p):
            continue
        src = open(p).read()
        m = re.search(r"\nsvt_memcpy_small\s*\([^)]*\)\s*{.*?\n}", src, re.S)
        if m and re.search(r"_mm_(load|store)_sd\s*\(\s*\(\s*(const\s+)?double\s*\*\s*\)", m.group(0)):
            hits.append("%s:%d" % (rel, src.count("\n", 0, m.start()) + 2))
    chk.cov["probe_alignment_sites"] = hits
    if hits:
        note("C11-svt_memcpy_small-misaligned",
             "svt_memcpy_small (%s) copies an 8-byte piece with _mm_store_sd((double*)(void*)(dst + i), _mm_load_sd((const double*)(const void*)(src + i))) on "
             "arbitrary byte pointers: access through a misaligned double* is undefined behaviour (UBSan alignment: 'load of misaligned address ... for type "
             "const double'); with the standard asan flavour (non-recoverable UBSan) every encode, and svt_av1_dec_init, abort there before the first picture" %
             ", ".join(hits), "(source text; run any encode with the 'asan' flavour of checks/common.py)", "asan")


def replay(chk, path):
    flav, argv = FLAVOUR, None
    lines = open(path).read().split("\n")
    for i, l in enumerate(lines):
        m = re.match(r"--- replay args \(harness/c11_enc.c, flavour (\w+)\) ---", l.strip())
        if m and i + 1 < len(lines):
            flav, argv = m.group(1), lines[i + 1].strip()
    if not argv or "=" not in argv:
        run(chk)
        return
    a = {}
    for t in argv.split():
        if "=" in t:
            k, v = t.split("=", 1)
            if k != "watchdog":
                a[k] = v
    if flav not in C.FLAVOURS:
        flav = FLAVOUR
    run(chk, only=[("replay", a, flav)])
