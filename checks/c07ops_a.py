"""C07a op-line generator for `svtmodel simd`/`simda` (lean/Driver/SimdA.lean) and harness/simd_ops_a.c.

gen_ops(rng, tier) -> list of op lines (protocol: see the header of harness/simd_ops_a.c).
  * I ops: every intrinsic of Model/Simd.lean used by the two kernels, all lanes at the boundary values, per-lane
    distinct patterns (so a lane permutation error is visible) and seeded random values;
  * H ops: the load/store helpers with several strides (including overlapping ones);
  * K ops: each kernel, BOTH variants on identical buffers (consecutive lines: c then simd), every width of the table x
    heights x strides x value patterns.  Only points of the valid domain (Props/C07a.lean validDomainResid /
    validDomainAvg) are generated, so the check may require output(c) == output(simd) for every pair.
kernel_pairs(ops) -> list of (index_c, index_simd) of the K lines that must produce identical output.
"""

B8 = [0x00, 0x01, 0x7F, 0x80, 0xFF]
B16 = [0x0000, 0x0001, 0x7FFF, 0x8000, 0xFFFF, 0x00FF, 0x0100, 0xFF00]


def hx(bs):
    return "".join("%02x" % (b & 255) for b in bs) if len(bs) else "-"


def rnd_bytes(rng, n):
    out = []
    while len(out) < n:
        v = rng.next()
        for k in range(8):
            out.append((v >> (8 * k)) & 255)
    return out[:n]


def w16(vals):
    out = []
    for v in vals:
        out += [v & 255, (v >> 8) & 255]
    return out


def reg_patterns(rng, n, nrand):
    """byte patterns for an n-byte register"""
    pats = [[b] * n for b in B8]
    pats.append(list(range(n)))                         # lane index
    pats.append([0xF0 + (i % 16) for i in range(n)])
    pats.append([(0x80 + 7 * i) & 255 for i in range(n)])
    pats.append([B8[i % 5] for i in range(n)])
    pats.append([B8[(i // 2) % 5] for i in range(n)])
    for v in B16:
        pats.append(w16([v] * (n // 2)))
    pats.append(w16([B16[i % 8] for i in range(n // 2)]))
    for _ in range(nrand):
        pats.append(rnd_bytes(rng, n))
    return pats


def gen_intrinsics(rng, tier):
    ops = []
    nr = 6 if tier == "quick" else 600
    # binary ops: all pairs of the deterministic patterns (boundary x boundary in every lane) + random pairs
    for name, n in (("sub_epi16", 16), ("sub_epi16", 32), ("avg_epu8", 16), ("unpacklo_epi8_256", 32),
                    ("unpackhi_epi8_256", 32)):
        pats = reg_patterns(rng, n, 0)
        for a in pats:
            for b in pats:
                if tier == "quick" and not (a is b or rng.chance(1, 5)):
                    continue
                ops.append("I %s %s %s" % (name, hx(a), hx(b)))
        # every boundary pair in every lane position (lane-wise cross product laid out along the register)
        if name in ("sub_epi16",):
            cross = [(x, y) for x in B16 for y in B16]
            for off in range(0, len(cross), n // 2):
                chunk = cross[off:off + n // 2]
                chunk += [(0, 0)] * (n // 2 - len(chunk))
                ops.append("I %s %s %s" % (name, hx(w16([c[0] for c in chunk])), hx(w16([c[1] for c in chunk]))))
        if name == "avg_epu8":
            cross = [(x, y) for x in B8 + [0x02, 0xFE] for y in B8 + [0x02, 0xFE]]
            for off in range(0, len(cross), n):
                chunk = cross[off:off + n]
                chunk += [(0, 0)] * (n - len(chunk))
                ops.append("I %s %s %s" % (name, hx([c[0] for c in chunk]), hx([c[1] for c in chunk])))
        for _ in range(nr * 4):
            ops.append("I %s %s %s" % (name, hx(rnd_bytes(rng, n)), hx(rnd_bytes(rng, n))))
    # permute4x64: every immediate on a lane-index register + 0xD8 on all patterns
    for imm in range(256):
        if tier == "quick" and imm % 3 and imm != 0xD8:
            continue
        ops.append("I permute4x64_epi64 %d %s" % (imm, hx(list(range(32)))))
        ops.append("I permute4x64_epi64 %d %s" % (imm, hx(rnd_bytes(rng, 32))))
    for a in reg_patterns(rng, 32, nr):
        ops.append("I permute4x64_epi64 %d %s" % (0xD8, hx(a)))
        ops.append("I castsi256_si128 %s" % hx(a))
        for imm in (0, 1, 2, 3, 255):
            ops.append("I extracti128_si256 %d %s" % (imm, hx(a)))
        ops.append("I store16 16 %s" % hx(a))
    ops.append("I setzero_256")
    pats16 = reg_patterns(rng, 16, nr)
    for i, a in enumerate(pats16):
        b = pats16[(i * 7 + 3) % len(pats16)]
        ops.append("I setr_m128i %s %s" % (hx(a), hx(b)))
        for imm in (0, 1, 2, 3, 5, 255):
            ops.append("I insert_epi32 %d %s %s" % (imm, hx(a), hx(b[4:8])))
        ops.append("I insert_epi32 1 %s %s" % (hx(a), hx([0x00, 0x00, 0x00, 0x80])))
        ops.append("I insert_epi32 1 %s %s" % (hx(a), hx([0xFF, 0xFF, 0xFF, 0x7F])))
        ops.append("I loadh_pd %s %s" % (hx(a), hx(b[8:16])))
        for nb in (4, 8, 16):
            ops.append("I load %d %s" % (nb, hx(a[:nb])))
            ops.append("I store8 %d %s" % (nb, hx(a)))
        ops.append("I store16 4 %s" % hx(a))
        ops.append("I store16 8 %s" % hx(a))
        ops.append("I storeh16 %s" % hx(a))
    for a in reg_patterns(rng, 32, nr):
        ops.append("I load 32 %s" % hx(a))
    return ops


def gen_helpers(rng, tier):
    ops = []
    nr = 4 if tier == "quick" else 100
    for stride in (0, 1, 3, 4, 5, 7, 8, 9, 15, 16, 17, 31, 32, 33, 64, 100, 250):
        for k in range(nr):
            def buf(n):
                return list((i * 3 + k) & 255 for i in range(n)) if k == 0 else rnd_bytes(rng, n)
            ops.append("H load_u8_4x4 %d %s" % (stride, hx(buf(3 * stride + 4))))
            ops.append("H load_u8_8x4 %d %s" % (stride, hx(buf(3 * stride + 8))))
            ops.append("H loadu_u8_16x2 %d %s" % (stride, hx(buf(stride + 16))))
            ops.append("H store_s16_4x2 %d %s" % (stride, hx(buf(16))))
            ops.append("H storeu_s16_8x2 %d %s" % (stride, hx(buf(32))))
    return ops


def fill(rng, n, pat, which):
    """value patterns for the two input buffers (which = 0: input/src0, 1: pred/src1)"""
    if pat == "zero":
        return [0] * n
    if pat == "max":
        return [255] * n
    if pat == "hi_lo":
        return [255] * n if which == 0 else [0] * n
    if pat == "lo_hi":
        return [0] * n if which == 0 else [255] * n
    if pat == "alt":
        return [(255 if (i + which) % 2 else 0) for i in range(n)]
    if pat == "ramp":
        return [((i * (1 + 2 * which)) + 100 * which) & 255 for i in range(n)]
    if pat == "bound":
        return [B8[(i // (1 + 4 * which)) % 5] for i in range(n)]
    if pat == "odd":          # rounding: sums that are odd
        return [(2 * i + which) & 255 for i in range(n)]
    return rnd_bytes(rng, n)


PATS = ["zero", "max", "hi_lo", "lo_hi", "alt", "ramp", "bound", "odd", "rand"]


def strides_for(rng, w):
    return [w, w + 1, w + 3 + 2 * rng.below(8), 2 * w + 1 + 2 * rng.below(4), 300 + rng.below(200)]


def pick_cases(rng, tier, w, h):
    """(stride kind index, pattern) list for one (w, h).  Executing the Lean model of a kernel costs about
    area * (stride * h) * 40 ns per op (functional memory: every element read walks all the stores), so the number of
    cases shrinks with the block area; the bulk of the lines are small blocks."""
    area = w * max(h, 1)
    others = [p for p in PATS if p not in ("bound", "rand")]
    if tier == "quick":
        if area >= 1024:
            return [(rng.below(2), "rand")]
        if area > 256:
            return [(0, "bound"), (1, "rand"), (2 + rng.below(3), rng.choice(others + ["rand"]))]
        cases = [(0, "bound"), (0, "rand"), (1, "bound"), (1, "rand")]
        for _ in range(2):
            cases.append((rng.below(5), rng.choice(others)))
        cases.append((2 + rng.below(3), "rand"))
        return cases
    if area > 4096:
        return [(0, "rand")]
    if area > 1024:
        return [(0, "rand"), (1 + rng.below(2), "bound")]
    if area > 256:
        return [(0, "bound"), (0, "rand"), (1, "rand"), (1, rng.choice(others)), (2 + rng.below(2), "rand"), (4, "rand")]
    return [(si, p) for si in (0, 1, 2 + rng.below(2), 4) for p in PATS + ["rand"] * 2]


def gen_resid(rng, tier):
    ops = []
    if tier == "quick":
        heights = {4: [4, 8, 16, 32], 8: [4, 8, 16, 32], 16: [2, 4, 6, 16], 32: [1, 2, 3, 8, 16], 64: [1, 2, 5, 16, 64],
                   128: [1, 2, 3, 8, 32]}
    else:
        heights = {4: [4, 8, 12, 16, 20, 32, 64, 128], 8: [4, 8, 12, 16, 20, 32, 64, 128], 16: [2, 4, 6, 8, 10, 16, 30, 64],
                   32: [1, 2, 3, 4, 5, 8, 16, 32, 64], 64: [1, 2, 3, 4, 7, 16, 64], 128: [1, 2, 3, 5, 8, 32]}
    for w in (4, 8, 16, 32, 64, 128):
        for h in heights[w]:
            for si, pat in pick_cases(rng, tier, w, h):
                st = strides_for(rng, w)
                rs = st[si]
                is_ = rng.choice(st) if si else w
                ps = rng.choice(st) if si else w
                # overlapping residual rows are inside the proved domain for every width but 8 (rs >= 8 there);
                # the input strides may be anything (including 0 and < w)
                if pat == "rand" and rng.chance(1, 4):
                    is_ = rng.below(w + 1)
                if pat == "rand" and rng.chance(1, 4):
                    ps = rng.below(w + 1)
                if pat == "rand" and si and rng.chance(1, 4):
                    rs = rng.below(w) if w != 8 else 8
                if rs * h > 4096 and rs > w + 1:
                    rs = w + 1
                a = fill(rng, is_ * (h - 1) + w, pat, 0)
                b = fill(rng, ps * (h - 1) + w, pat, 1)
                for v in ("c", "avx2"):
                    ops.append("K resid8 %s %d %d %d %d %d %s %s" % (v, w, h, is_, ps, rs, hx(a), hx(b)))
    return ops


def gen_avg(rng, tier):
    ops = []
    if tier == "quick":
        widths = [4, 8, 16, 20, 24, 28, 32, 36, 40, 44, 48, 60, 64, 72, 100, 128, 140]
    else:
        widths = [4, 8, 16, 20, 24, 28, 32, 36, 40, 44, 48, 52, 56, 60, 64, 68, 72, 76, 96, 100, 120, 124, 128, 132,
                  140, 256]
    for w in widths:
        if tier == "quick":
            hs = [0, 2, 4, 8, 16] if w in (4, 8) else ([0, 1, 2, 3, 8, 17] if w <= 64 else [0, 1, 2, 3, 5])
        elif w in (4, 8):
            hs = [0, 2, 4, 6, 8, 16, 32, 64, 128]
        else:
            hs = [0, 1, 2, 3, 4, 5, 8, 16, 17, 32, 64] if w <= 64 else [1, 2, 3, 8, 16]
        for h in hs:
            cases = pick_cases(rng, tier, w, h)
            if tier == "quick":
                cases = cases[:5]
            for si, pat in cases:
                st = strides_for(rng, w)
                ds = st[si]
                st0 = rng.choice(st) if si else w
                st1 = rng.choice(st) if si else w
                if pat == "rand" and rng.chance(1, 4):
                    st0 = rng.below(w + 1)
                if pat == "rand" and rng.chance(1, 4):
                    st1 = rng.below(w + 1)
                if pat == "rand" and si and rng.chance(1, 4):
                    ds = rng.below(w)          # overlapping destination rows: inside the proved domain
                if ds * h > 4096 and ds > w + 1:
                    ds = w + 1
                hh = max(h, 1)
                a = fill(rng, st0 * (hh - 1) + w, pat, 0)
                b = fill(rng, st1 * (hh - 1) + w, pat, 1)
                for v in ("c", "sse2"):
                    ops.append("K avg %s %d %d %d %d %d %s %s" % (v, w, h, st0, st1, ds, hx(a), hx(b)))
    return ops


def gen_avg1(rng, tier):
    ops = []
    reps = 3 if tier == "quick" else 40
    for w in (4, 8, 12, 16, 32, 64):
        for pat in PATS:
            for _ in range(reps if pat == "rand" else 1):
                a = fill(rng, w, pat, 0)
                b = fill(rng, w, pat, 1)
                for v in ("c", "sse2"):
                    ops.append("K avg1 %s %d %s %s" % (v, w, hx(a), hx(b)))
    return ops


def gen_ops(rng, tier):
    ops = []
    ops += gen_intrinsics(rng, tier)
    ops += gen_helpers(rng, tier)
    ops += gen_resid(rng, tier)
    ops += gen_avg(rng, tier)
    ops += gen_avg1(rng, tier)
    return ops


def kernel_pairs(ops):
    """indices (i, i+1) of consecutive K lines that differ only in the variant: outputs must be identical"""
    out = []
    i = 0
    while i + 1 < len(ops):
        a, b = ops[i].split(" "), ops[i + 1].split(" ")
        if a[0] == "K" and b[0] == "K" and a[1] == b[1] and a[2] == "c" and b[2] != "c" and a[3:] == b[3:]:
            out.append((i, i + 1))
            i += 2
        else:
            i += 1
    return out


if __name__ == "__main__":
    import sys
    import os
    sys.path.insert(0, os.environ.get("VERIF_CHECKS", "/verif/checks"))
    import common as C
    tier = sys.argv[1] if len(sys.argv) > 1 else "quick"
    seed = int(sys.argv[2]) if len(sys.argv) > 2 else 1
    for l in gen_ops(C.Rng(seed), tier):
        print(l)
