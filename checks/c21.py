"""C21 — the encoder's output depends only on the visible samples of each submitted picture.

(1) Lean proofs (Props/C21.lean): the copy-in of a plane (copy_frame_buffer row loop / un_pack2d, pad_input_picture,
    generate_padding) leaves the edge-replicated visible picture in every cell of the padded region, for every size,
    stride, padding content and previous buffer content; whole-buffer equality under the exact spill bound; the exact
    in-bounds condition of the copy and its boundary witnesses; frame-level transcription for the API's descriptors.
(2) Correspondence: harness/copyin.c runs the REAL set_param_based_on_input, allocate_frame_buffer, copy_frame_buffer
    (static functions: source text extracted from EbEncHandle.c) and pad_input_pictures on generated pictures; the six
    whole internal allocations are compared (size + FNV-1a hash, hex dump on mismatch) with `svtmodel copyin`.
    Boundary witnesses (write past the internal buffer, read past the caller's buffer) run under the ASan build:
    ASan must report exactly when the model's `ok` flag is false.
(3) Property oracle on the implementation: (unit) groups of pictures with the same visible samples but different
    strides / stride-padding bytes / upper bits of 10-bit samples must give identical whole internal buffers from
    the REAL code; (e2e) the same clip encoded by the REAL encoder with different strides, dirty stride padding and
    the caller's buffers scribbled + made inaccessible (guard pages: harness option guard=1) right after
    svt_av1_enc_send_picture must give byte-identical packets and recon; any access to a caller plane after send, or
    past its end, faults and is reported (use-after-send = violation).  When an `asan` build of the library is cached
    the same is tried under ASan.
"""
import os
import random
import re
import subprocess
import sys
from . import common as C

sys.path.insert(0, os.path.join(C.VERIF, "xlate"))
sys.path.insert(0, os.path.join(C.VERIF, "harness"))
LEVEL = "proof"
MODULE = "SvtVerif.Props.C21"
KEY_OVERREAD = "C21-last-row-overread"


# ----------------------------------------------------------------------------- unit level: generators
def pad8(n):
    return (8 - n % 8) % 8


def luma_limit(w, h, sb):
    """largest uint16 luma stride for which copy_frame_buffer stays inside the internal luma allocation
    (theorem copy_in_bounds_luma): S*68 + 68 + (h-1)*S + ss <= S*(H8 + 68 + sb + 4)"""
    S = w + pad8(w) + 136
    return S * (h + pad8(h) + 68 + sb + 4) - (S * 68 + 68 + (h - 1) * S)


def make_plane(rnd, vis, w, h, stride, bd, padmode, hibits=False, tight=False):
    """vis: list of h rows of w sample values.  Returns hex of the caller plane (rows of `stride` cells)."""
    maxv = (1 << (16 if bd > 8 else 8)) - 1
    out = bytearray()
    for y in range(h):
        row = list(vis[y])
        if hibits:                                   # 10-bit: garbage in bits 10..15 of the visible samples
            row = [v | (rnd.getrandbits(6) << 10) for v in row]
        if not (tight and y == h - 1):
            n = stride - w
            if padmode == 0:
                row += [0] * n
            elif padmode == 1:
                row += [maxv] * n
            else:
                row += [rnd.getrandbits(16 if bd > 8 else 8) for _ in range(n)]
        if bd > 8:
            for v in row:
                out.append(v & 255)
                out.append(v >> 8)
        else:
            out += bytes(row)
    return out.hex()


def make_vis(rnd, w, h, bd, mode):
    top = (1 << bd) - 1
    if mode == 0:
        return [[rnd.getrandbits(bd) for _ in range(w)] for _ in range(h)]
    if mode == 1:
        return [[top] * w for _ in range(h)]
    if mode == 2:
        return [[0] * w for _ in range(h)]
    if mode == 3:     # distinct edges: every border sample different from its neighbours
        return [[(x * 7 + y * 13) & top for x in range(w)] for y in range(h)]
    return [[(top if ((x >> 1) + (y >> 1)) & 1 else 0) for x in range(w)] for y in range(h)]


def gen_groups(chk, ngroups, big=0):
    """-> list of groups; group = dict(desc, lines=[op line, ...]) of pictures with the SAME visible samples."""
    r = chk.rng
    groups = []
    fixed = [(8, 64, 64, 64), (8, 70, 66, 128), (10, 64, 64, 64), (10, 74, 70, 128), (8, 66, 120, 64), (8, 200, 64, 128),
             (10, 132, 74, 64), (8, 72, 88, 64)]
    for gi in range(ngroups):
        if gi < len(fixed):
            bd, w, h, sb = fixed[gi]
        else:
            bd = r.choice([8, 8, 10])
            w = 64 + 2 * r.below(70 if gi >= big else 300)
            h = 64 + 2 * r.below(40 if gi >= big else 150)
            sb = r.choice([64, 128])
        rnd = random.Random(r.next())
        fill = r.below(256)
        mode = r.choice([0, 0, 0, 1, 2, 3, 4])
        vy = make_vis(rnd, w, h, bd, mode)
        vb = make_vis(rnd, w // 2, h // 2, bd, mode)
        vr = make_vis(rnd, w // 2, h // 2, bd, mode)
        lines, metas = [], []
        nvar = 3
        for v in range(nvar):
            if v == 0:
                ey = eb = er = 0
                padmode = 0
            else:
                ey, eb, er = r.range(0, 64), r.range(0, 64), r.range(0, 64)
                if v == 1 and r.chance(1, 3):
                    ey = eb = er = 64
                padmode = r.choice([1, 2, 2, 2])
            hib = bd > 8 and v == 2
            ys, cbs, crs = w + ey, w // 2 + eb, w // 2 + er
            lines.append("IN %d %d %d %d %d %d %d %d %s %s %s" % (
                bd, w, h, sb, fill, ys, cbs, crs,
                make_plane(rnd, vy, w, h, ys, bd, padmode, hib), make_plane(rnd, vb, w // 2, h // 2, cbs, bd, padmode, hib),
                make_plane(rnd, vr, w // 2, h // 2, crs, bd, padmode, hib)))
            metas.append((bd, w, h, sb, ey, eb, er, padmode, int(hib)))
        groups.append({"desc": "bd=%d w=%d h=%d sb=%d fill=%d content=%d" % (bd, w, h, sb, fill, mode), "lines": lines, "metas": metas})
    return groups


def build_unit(asan=False):
    """asan=True: the harness translation unit (which contains the extracted copy_frame_buffer) is ASan-instrumented and ASan's
    malloc / memcpy / memset interceptors are active for the (uninstrumented) release library; run with flags=c so that
    svt_memcpy is the libc memcpy."""
    import copyin_extract
    inc = copyin_extract.write_inc(os.path.join(C.CACHE, "gen_src"))
    extra = ["-I" + inc, "-DNDEBUG"] + (["-fsanitize=address", "-fno-omit-frame-pointer"] if asan else [])
    return C.compile_harness("copyin_asan" if asan else "copyin_rel", [os.path.join(C.VERIF, "harness", "copyin.c")],
                             libs=["libSvtAv1Enc.a"], flavour="rel", extra=extra)


def run_unit(exe, text, args=(), timeout=1800, env=None):
    e = dict(os.environ)
    e["ASAN_OPTIONS"] = "detect_leaks=0:abort_on_error=0:halt_on_error=1"
    if env:
        e.update(env)
    try:
        p = subprocess.run([exe] + list(args), input=text.encode(), stdout=subprocess.PIPE, stderr=subprocess.PIPE, timeout=timeout, env=e)
        return p.returncode, p.stdout.decode("utf-8", "replace"), p.stderr.decode("utf-8", "replace")
    except subprocess.TimeoutExpired:
        return 124, "", "[timeout]"


def result_lines(out):
    return [l for l in out.split("\n") if l.startswith("sz=") or l.startswith("ok=") or l.startswith("ERR") or l.startswith("bad-op")]


def strip_ok(line):
    m = re.match(r"ok=(\d+) (.*)$", line)
    return (m.group(1), m.group(2)) if m else (None, line)


def first_diff(exe, line):
    """dump both sides for one op and report the first differing cell"""
    dl = "IND" + line[2:]
    rc, cout, _ = run_unit(exe, dl + "\n")
    try:
        mout = C.run_model("copyin", dl + "\n")
    except (RuntimeError, C.BuildError) as e:
        return "model failed: %s" % str(e)[-300:]
    cp = {l.split()[0]: (l.split() + [""])[1] for l in cout.split("\n") if re.match(r"P\d ", l)}
    mp = {l.split()[0]: (l.split() + [""])[1] for l in mout.split("\n") if re.match(r"P\d ", l)}
    names = ["y", "cb", "cr", "bit_inc_y", "bit_inc_cb", "bit_inc_cr"]
    for k in range(6):
        a, b = cp.get("P%d" % k, ""), mp.get("P%d" % k, "")
        if a != b:
            n = min(len(a), len(b)) // 2
            for i in range(n):
                if a[2 * i:2 * i + 2] != b[2 * i:2 * i + 2]:
                    return "plane %s cell %d: real=%s model=%s (sizes %d/%d)" % (names[k], i, a[2 * i:2 * i + 2], b[2 * i:2 * i + 2], len(a) // 2, len(b) // 2)
            return "plane %s sizes differ: real=%d model=%d" % (names[k], len(a) // 2, len(b) // 2)
    return "no differing cell found in dump"


# ----------------------------------------------------------------------------- boundary witnesses (ASan)
def witness_ops(chk, thorough):
    """-> list of (name, op line, expected model ok string prefix for y plane (True = in bounds), in_quantifier)"""
    rnd = random.Random(chk.rng.next())
    ops = []

    def pl(w, h, stride, bd, tight=False):
        vis = make_vis(rnd, w, h, bd, 0)
        return make_plane(rnd, vis, w, h, stride, bd, 2, tight=tight)

    lim = luma_limit(64, 64, 64)      # 13732
    for name, ys in (("luma stride = largest that fits the internal buffer", lim), ("luma stride = limit + 1: write past the internal luma buffer", lim + 1)):
        ops.append((name, "IN 8 64 64 64 7 %d 32 32 %s %s %s" % (ys, pl(64, 64, ys, 8), pl(32, 32, 32, 8), pl(32, 32, 32, 8)), ys <= lim, False))
    w, h = (70, 66)
    ops.append(("caller planes allocated tightly, (h-1)*stride + w bytes, stride = w + 5: last-row over-read",
                "IN 8 %d %d 64 9 %d %d %d %s %s %s" % (w, h, w + 5, w // 2, w // 2, pl(w, h, w + 5, 8, True), pl(w // 2, h // 2, w // 2, 8), pl(w // 2, h // 2, w // 2, 8)),
                False, True))
    ops.append(("tight allocation with stride = w: exact fit", "IN 8 %d %d 64 9 %d %d %d %s %s %s" % (
        w, h, w, w // 2, w // 2, pl(w, h, w, 8, True), pl(w // 2, h // 2, w // 2, 8, True), pl(w // 2, h // 2, w // 2, 8, True)), True, True))
    ops.append(("10-bit, tight allocation, stride = w + 9: un_pack2d reads only w samples per row",
                "IN 10 %d %d 64 9 %d %d %d %s %s %s" % (w, h, w + 9, w // 2 + 3, w // 2 + 1, pl(w, h, w + 9, 10, True),
                                                         pl(w // 2, h // 2, w // 2 + 3, 10, True), pl(w // 2, h // 2, w // 2 + 1, 10, True)), True, True))
    if thorough:
        cw = 64 // 2
        ops.append(("chroma stride past the internal Cb buffer",
                    "IN 8 64 64 64 7 64 %d 32 %s %s %s" % (6900, pl(64, 64, 64, 8), pl(cw, cw, 6900, 8), pl(cw, cw, 32, 8)), False, False))
    return ops


def run_witnesses(chk, thorough):
    res = {"ran": 0, "agree": 0, "cases": []}
    problems = []
    try:
        exe = build_unit(asan=True)
    except C.BuildError as e:
        return res, [("asan harness build failed", str(e)[-400:])], []
    confirmed = []
    for name, op, expect_ok, inq in witness_ops(chk, thorough):
        rc, out, err = run_unit(exe, op + "\n", args=["flags=c"], timeout=600)
        asan = "AddressSanitizer" in err
        kind = ""
        m = re.search(r"ERROR: AddressSanitizer: (\S+).*?\n(READ|WRITE) of size", err, re.S)
        if m:
            kind = "%s %s" % (m.group(1), m.group(2))
        where = ""
        m2 = re.search(r"#\d+ 0x[0-9a-f]+ in (copy_frame_buffer|un_pack2d|svt_enc_msb_un_pack2_d|pad_input_picture|generate_padding)\b", err)
        if m2:
            where = m2.group(1)
        try:
            mo = C.run_model("copyin", op + "\n").strip().split("\n")[-1]
        except (RuntimeError, C.BuildError) as e:
            mo = "model-failed %s" % str(e)[-200:]
        okbits, _ = strip_ok(mo)
        model_ok = okbits is not None and "0" not in okbits
        res["ran"] += 1
        case = {"case": name, "model_ok": okbits, "asan_report": kind or ("none" if not asan else "other"), "in": where}
        res["cases"].append(case)
        if model_ok != expect_ok:
            problems.append(("model ok flag differs from the closed form of copy_in_bounds", "%s: model ok=%s expected in-bounds=%s" % (name, okbits, expect_ok)))
        if asan == (not model_ok):
            res["agree"] += 1
        else:
            problems.append(("ASan report and model `ok` disagree", "%s: model ok=%s, ASan %s (rc=%d) %s" % (name, okbits, kind or "silent", rc, err[-300:] if asan else "")))
        if asan:
            confirmed.append((name, kind, where, inq, op))
    if thorough:
        # excluded point of the theorems (strides < 65536): y_stride = 65536 + w is truncated to w by copy_frame_buffer
        rnd = random.Random(chk.rng.next())
        w = h = 64
        vy = make_vis(rnd, w, h, 8, 0)
        cpl = make_plane(rnd, make_vis(rnd, 32, 32, 8, 0), 32, 32, 32, 8, 0)
        opa = "IN 8 64 64 64 3 %d 32 32 %s %s %s" % (65536 + w, make_plane(rnd, vy, w, h, 65536 + w, 8, 2), cpl, cpl)
        opb = "IN 8 64 64 64 3 %d 32 32 %s %s %s" % (w, make_plane(rnd, vy, w, h, w, 8, 0), cpl, cpl)
        try:
            uexe = build_unit()
            rc, out, err = run_unit(uexe, opa + "\n" + opb + "\n")
            cl = result_lines(out)
            ml = [strip_ok(l)[1] for l in result_lines(C.run_model("copyin", opa + "\n" + opb + "\n"))]
            res["ran"] += 2
            if len(cl) == 2 and cl == ml:
                res["agree"] += 2
            else:
                problems.append(("stride-truncation case: model and real code disagree", "real=%s model=%s" % (cl, ml)))
            res["cases"].append({"case": "y_stride = 65536 + 64 (rows really 65600 bytes apart) vs y_stride = 64, same visible samples",
                                 "real_buffers_equal": len(cl) == 2 and cl[0] == cl[1]})
            if len(cl) == 2 and cl[0] != cl[1]:
                confirmed.append(("y_stride >= 65536 is truncated to 16 bits (uint16_t source_luma_stride): rows are read from the wrong addresses, "
                                  "the internal picture is not the submitted one", "wrong picture, no memory fault", "copy_frame_buffer", False, ""))
        except (RuntimeError, C.BuildError) as e:
            problems.append(("stride-truncation case failed to run", str(e)[-300:]))
    return res, problems, confirmed


# ----------------------------------------------------------------------------- e2e
def e2e_cases(chk):
    r = chk.rng
    if chk.tier == "quick":
        shapes = [dict(w=136, h=72, n=6, bd=8, content=4, lp=4, mode=8), dict(w=128, h=128, n=5, bd=10, content=0, lp=4, mode=8),
                  dict(w=70, h=66, n=4, bd=8, content=0, lp=1, mode=8)]
    else:
        shapes = [dict(w=136, h=72, n=8, bd=8, content=4, lp=4, mode=8), dict(w=128, h=128, n=6, bd=10, content=0, lp=4, mode=8),
                  dict(w=70, h=66, n=6, bd=8, content=0, lp=1, mode=8), dict(w=200, h=120, n=10, bd=8, content=2, lp=4, mode=4),
                  dict(w=192, h=136, n=9, bd=10, content=4, lp=4, mode=4), dict(w=322, h=182, n=6, bd=8, content=5, lp=4, mode=8),
                  dict(w=74, h=90, n=5, bd=10, content=3, lp=1, mode=8), dict(w=640, h=360, n=5, bd=8, content=4, lp=4, mode=8)]
        for _ in range(6):
            w = 128 + 2 * r.below(120)
            shapes.append(dict(w=w, h=64 + 2 * r.below(80), n=r.range(3, 9), bd=r.choice([8, 8, 10]), content=r.choice([0, 2, 3, 4, 5]),
                               lp=4, mode=r.choice([4, 8, 8])))
    cases = []
    for i, s in enumerate(shapes):
        base = {"w": s["w"], "h": s["h"], "n": s["n"], "bd": s["bd"], "content": s["content"], "seed": chk.seed * 100 + i, "decode": 0,
                "recon": 1, "watchdog": 600, "cfg.enc_mode": s["mode"], "cfg.logical_processors": s["lp"],
                "cfg.enable_tpl_la": 0}      # TPL off: with it the encoder is not run-to-run deterministic at lp >= 2 (finding C04-tpl-nondeterministic-lp2plus)
        variants = [dict(base, stride_extra=r.range(1, 64), padfill=-1, padseed=r.range(1, 1 << 20)),
                    dict(base, stride_extra=64, padfill=r.choice([255, 1, 128]), scribble=1, guard=1),
                    dict(base, scribble=1),
                    dict(base, stride_extra=2 * r.range(1, 32), padfill=-1, padseed=r.range(1, 1 << 20), scribble=1, guard=1),
                    dict(base, stride_extra=0, tight=1, guard=1),
                    dict(base, stride_extra=2 * r.range(1, 32), padfill=-1, padseed=r.range(1, 1 << 20), tight=1, guard=1)]
        if chk.tier == "quick" and i:
            variants = variants[:3] + variants[5:]
        cases.append((base, variants))
    return cases


def describe(a):
    return " ".join("%s=%s" % kv for kv in a.items())


def guard_fault(r):
    for l in r["raw"].split("\n"):
        if l.startswith("GUARDFAULT") or l.startswith("SEGV"):
            return l.strip()
    return None


def e2e_bad(r):
    if r["crashed"] or r["hung"] or r["SETPARAM"] != 0 or not r["PKT"] or r["ERR"]:
        return "rc=%s hung=%s setparam=%s packets=%d err=%s stderr=%s" % (r["rc"], r["hung"], r["SETPARAM"], len(r["PKT"]), r["ERR"][:2], r["stderr"][-200:])
    return None


def asan_summary(err):
    m = re.search(r"ERROR: AddressSanitizer: (\S+)", err)
    if not m:
        return None
    kind = m.group(1)
    acc = re.search(r"\n(READ|WRITE) of size (\d+)", err)
    frames = re.findall(r"#\d+ 0x[0-9a-f]+ in (\S+)", err)[:6]
    return {"kind": kind, "access": "%s %s" % (acc.group(1), acc.group(2)) if acc else "", "frames": frames}


def run_e2e_part(chk, only=None):
    out = {"violations": [], "known": [], "problems": [], "encodes": 0, "compared": 0, "hist": {}, "guard_faults": []}
    C.e2e_exe("rel")
    cases = only if only is not None else e2e_cases(chk)
    flat = []
    for ci, (base, variants) in enumerate(cases):
        flat.append((ci, -1, base))
        for vi, v in enumerate(variants):
            flat.append((ci, vi, v))
    results = C.run_parallel(lambda t: C.run_e2e(t[2], timeout=900), flat, workers=4)
    out["encodes"] += len(flat)
    by = {}
    for (ci, vi, a), r in zip(flat, results):
        by[(ci, vi)] = (a, r)
    for ci, (base, variants) in enumerate(cases):
        ab, rb = by[(ci, -1)]
        bad = e2e_bad(rb)
        if bad:
            out["problems"].append(("baseline encode unusable", describe(ab), bad))
            continue
        sb = C.e2e_signature(rb)
        for vi, v in enumerate(variants):
            av, rv = by[(ci, vi)]
            out["compared"] += 1
            for k in ("stride_extra", "scribble", "tight", "guard"):
                if av.get(k):
                    out["hist"][k] = out["hist"].get(k, 0) + 1
            if av.get("padfill", 0) == -1:
                out["hist"]["random_pad"] = out["hist"].get("random_pad", 0) + 1
            gf = guard_fault(rv)
            if gf:
                out["guard_faults"].append({"encode": describe(av), "fault": gf})
                if av.get("tight") and "kind=past-end" in gf:
                    ss = (av["w"] if "plane=0" in gf else av["w"] // 2) + (av.get("stride_extra", 0) if "plane=0" in gf else av.get("stride_extra", 0) // 2)
                    out["known"].append((KEY_OVERREAD,
                        "the REAL encoder reads past the end of a caller plane that holds exactly the picture\n%s\nencode: %s\n"
                        "copy_frame_buffer copies y_stride (cb_stride, cr_stride) bytes from every row including the last one (EbEncHandle.c l.3494-3514): "
                        "a plane of (rows-1)*stride + width bytes (here stride = %d) is read up to stride - width bytes past its end; "
                        "svt_av1_enc_send_picture accepts the call. Theorem C21.copy_in_bounds gives the exact condition (h * stride <= allocation), "
                        "C21.copy_read_overrun_witness the boundary.\n" % (gf, describe(av), ss)))
                else:
                    out["violations"].append((ab, av, "the encoder touched caller picture memory it must not touch: %s" % gf))
                continue
            bad = e2e_bad(rv)
            if bad:
                out["violations"].append((ab, av, "variant encode failed where the baseline succeeded: %s" % bad))
                continue
            sv = C.e2e_signature(rv)
            if sv != sb:
                # rule out run-to-run nondeterminism of the baseline itself before blaming the stride / scribble
                r2 = C.run_e2e(ab, timeout=900)
                if C.e2e_signature(r2) != sb:
                    out["problems"].append(("baseline encode is not reproducible run to run (C04/C05 territory); comparison skipped", describe(ab), ""))
                    continue
                npk = sum(1 for p, q in zip(rb["PKT"], rv["PKT"]) if (p["size"], p["crc"]) != (q["size"], q["crc"]))
                out["violations"].append((ab, av, "packets / recon differ from the baseline encode of the same visible samples "
                                                  "(%d of %d packets differ, packet counts %d / %d)" % (npk, len(rb["PKT"]), len(rb["PKT"]), len(rv["PKT"]))))
    return out


def run_e2e_asan(chk):
    """ASan build of the REAL encoder: use-after-free / over-read of the caller's buffers."""
    out = {"runs": [], "violations": [], "known": [], "problems": [], "note": None}
    if not os.path.exists(os.path.join(C.CACHE, "build", "asan-%s" % C.repo_hash(), "OK")):
        out["note"] = "no cached `asan` build of the library for this tree: ASan e2e runs skipped (guard-page runs cover use-after-send / over-read)"
        return out
    try:
        C.e2e_exe("asan")
    except C.BuildError as e:
        out["problems"].append(("asan build failed", str(e)[-400:], ""))
        return out
    r = chk.rng
    base = {"w": 64, "h": 64, "n": 3, "bd": 8, "content": 4, "seed": chk.seed * 100 + 77, "decode": 0, "recon": 0, "watchdog": 1500,
            "cfg.enc_mode": 8, "cfg.logical_processors": 1}
    runs = [("scribble+free after send, dirty stride padding", dict(base, stride_extra=r.range(1, 64), padfill=-1, padseed=5, scribble=1)),
            ("tight caller allocation, stride = w + 6", dict(base, stride_extra=6, padfill=-1, padseed=6, tight=1))]
    if chk.tier != "quick":
        runs += [("10-bit scribble+free, dirty stride padding", dict(base, bd=10, w=72, h=66, stride_extra=r.range(1, 64), padfill=-1, padseed=8, scribble=1)),
                 ("10-bit tight caller allocation", dict(base, bd=10, w=72, h=66, stride_extra=10, padfill=-1, padseed=9, tight=1)),
                 ("tight allocation with stride = w (exact fit)", dict(base, w=72, h=66, stride_extra=0, tight=1, scribble=1))]
    results = C.run_parallel(lambda t: C.run_e2e(t[1], flavour="asan", timeout=1800), runs, workers=2)
    for (name, a), res in zip(runs, results):
        s = asan_summary(res["stderr"])
        out["runs"].append({"case": name, "rc": res["rc"], "packets": len(res["PKT"]), "asan": s})
        if s is None:
            if "runtime error:" in res["stderr"] and "misaligned address" in res["stderr"]:
                out["note"] = ("the `asan` flavour also enables -fsanitize=undefined -fno-sanitize-recover: every encode aborts in svt_memcpy_small "
                               "(_mm_load_sd/_mm_store_sd on unaligned addresses, EbPictureOperators_Intrinsic_SSE2.c l.243 / EbUtility.c l.48) before any "
                               "picture is processed; ASan e2e verdict unavailable, guard-page runs used instead")
            elif res["hung"] or res["crashed"] or not res["PKT"]:
                out["problems"].append(("asan encode did not complete", describe(a), "rc=%s %s" % (res["rc"], res["stderr"][-300:])))
            continue
        text = ("ASan report from the REAL encoder on the caller's picture memory\ncase: %s\nencode: %s\nflavour: asan\n%s %s\nstack: %s\n" %
                (name, describe(a), s["kind"], s["access"], " <- ".join(s["frames"])))
        if a.get("tight") and s["kind"] == "heap-buffer-overflow" and "READ" in s["access"] and any("copy_frame_buffer" in f or "copy_input_buffer" in f or "memcpy" in f for f in s["frames"]):
            out["known"].append((KEY_OVERREAD, text +
                                 "copy_frame_buffer copies y_stride (cb_stride, cr_stride) bytes from every row including the last one: a caller plane that holds "
                                 "exactly the picture, (rows-1)*stride + width bytes, is read up to stride - width bytes past its end (EbEncHandle.c l.3494-3514); "
                                 "svt_av1_enc_send_picture accepts the call.\n"))
        else:
            out["violations"].append((a, text))
    return out


# ----------------------------------------------------------------------------- main
def run(chk, only_ops=None, only_e2e=None):
    thorough = chk.tier == "thorough"
    pr = chk.proofs(MODULE, trusted_extra=[
        "harness/copyin.c: the REAL set_param_based_on_input, allocate_frame_buffer + copy_frame_buffer (static; source text extracted from "
        "EbEncHandle.c by xlate/extract.py), svt_picture_buffer_desc_ctor, un_pack2d (C and SIMD dispatch) and pad_input_pictures from "
        "libSvtAv1Enc.a, run on generated pictures; all six internal allocations compared with `svtmodel copyin` (size + FNV-1a 64, hex dump on mismatch)",
        "harness/enc_e2e.c: the real encoder; packets and recon of stride / dirty-padding / scribble+free variants compared byte for byte (rel and ASan builds)"])
    # ---- unit correspondence + unit oracle
    corr_fail, oracle_fail, unit_problems = [], [], []
    n_lines = 0
    distinct = set()
    hist = {"bd": {}, "w_mod8": {}, "h_mod8": {}, "sb": {}, "stride_extra_luma": {}, "padmode": {}}
    model_ok_bad = []
    if only_e2e is None:
        groups = [{"desc": "replay", "lines": only_ops, "metas": []}] if only_ops else gen_groups(chk, 14 if not thorough else 150, big=0 if not thorough else 12)
        exe = None
        try:
            exe = build_unit()
        except C.BuildError as e:
            unit_problems.append(("unit harness failed to build", str(e)[-600:]))
        if exe:
            text = "".join(l + "\n" for g in groups for l in g["lines"])
            rc1, cout, cerr = run_unit(exe, text)
            rc2, cout_c, _ = run_unit(exe, text, args=["flags=c"])
            cl, cl_c = result_lines(cout), result_lines(cout_c)
            ml = None
            merr = None
            if pr.build_ok:
                try:
                    ml = result_lines(C.run_model("copyin", text))
                except (RuntimeError, C.BuildError) as e:
                    merr = str(e)[-800:]
            n_lines = sum(len(g["lines"]) for g in groups)
            if len(cl) != n_lines or len(cl_c) != n_lines:
                unit_problems.append(("real-code harness produced %d / %d result lines for %d ops (rc=%d/%d)" % (len(cl), len(cl_c), n_lines, rc1, rc2), cerr[-400:]))
            else:
                i = 0
                for g in groups:
                    first = None
                    for k, line in enumerate(g["lines"]):
                        c, c2 = cl[i], cl_c[i]
                        if c != c2:
                            corr_fail.append((g["desc"], line, "SIMD dispatch and C kernels give different internal buffers: %s vs %s" % (c, c2)))
                        if ml is not None:
                            if i < len(ml):
                                okb, rest = strip_ok(ml[i])
                                if rest != c:
                                    corr_fail.append((g["desc"], line, None))
                                if okb is not None and "0" in okb:
                                    model_ok_bad.append((g["desc"], okb))
                            else:
                                corr_fail.append((g["desc"], line, "model printed no line"))
                        if first is None:
                            first = c
                        elif c != first and not only_ops:
                            oracle_fail.append((g, k, first, c))
                        if k < len(g["metas"]):
                            bd, w, h, sb, ey, eb, er, padmode, hib = g["metas"][k]
                            if ey or eb or er or w % 8 or h % 8:
                                distinct.add((bd, w, h, sb, ey, eb, er, hib))
                            for key, val in (("bd", bd), ("w_mod8", w % 8), ("h_mod8", h % 8), ("sb", sb), ("stride_extra_luma", ey // 16 * 16), ("padmode", padmode)):
                                hist[key][str(val)] = hist[key].get(str(val), 0) + 1
                        i += 1
                if ml is None and pr.build_ok:
                    unit_problems.append(("svtmodel copyin failed", merr or ""))
            for g in groups[:3]:
                if g["metas"]:
                    chk.sample({"group": g["desc"], "variants(bd,w,h,sb,extraY,extraCb,extraCr,padmode,hibits)": g["metas"],
                                "real": cl[0][:90] if cl else None})
    # ---- boundary witnesses under ASan
    wit, wit_problems, confirmed = ({"ran": 0}, [], [])
    if only_ops is None and only_e2e is None:
        wit, wit_problems, confirmed = run_witnesses(chk, thorough)
    # ---- e2e
    e2e = {"violations": [], "known": [], "problems": [], "encodes": 0, "compared": 0, "hist": {}, "guard_faults": []}
    asan = {"runs": [], "violations": [], "known": [], "problems": [], "note": None}
    if only_ops is None:
        e2e = run_e2e_part(chk, only=only_e2e)
        if only_e2e is None:
            asan = run_e2e_asan(chk)

    # ---- coverage
    chk.cov["evaluations"] = n_lines + e2e["compared"] + wit.get("ran", 0) + len(asan["runs"])
    chk.cov["unit_ops"] = n_lines
    chk.cov["distinct_nontrivial"] = len(distinct)
    chk.cov["rule"] = ("distinct_nontrivial = number of distinct (bit depth, w, h, superblock size, luma/Cb/Cr stride excess, dirty-upper-bits) tuples among the "
                       "unit ops in which some stride exceeds the width or a dimension is not a multiple of 8; every op runs the REAL copy-in (SIMD dispatch and "
                       "C kernels) and the Lean model and all six whole allocations are compared; every group of 3 ops shares its visible samples and must give "
                       "identical real buffers; e2e: each variant encode (stride 1..64 extra, random/constant stride padding, scribble+free, tight allocation) "
                       "must equal the baseline encode byte for byte")
    chk.cov["unit_input_histogram"] = hist
    chk.cov["e2e_encodes"] = e2e["encodes"]
    chk.cov["e2e_variants_compared"] = e2e["compared"]
    chk.cov["e2e_variant_histogram"] = e2e["hist"]
    chk.cov["asan_unit_witnesses"] = wit
    chk.cov["asan_e2e_runs"] = asan["runs"]
    chk.cov["asan_e2e_note"] = asan["note"]
    chk.cov["e2e_guard_faults"] = e2e["guard_faults"][:6]
    chk.cov["disagreements_checked"] = n_lines
    if confirmed:
        chk.cov["excluded_points_confirmed_on_real_code"] = [
            {"case": n, "asan": k, "in": wh, "inside_property_quantifier": inq} for n, k, wh, inq, _ in confirmed]
    chk.assumptions += [
        "4:2:0, even width/height >= 64 (verify_settings), strides below 65536 (copy_frame_buffer truncates them to uint16: theorem stride_truncated_to_16_bits)",
        "compressed 10-bit input branch not modelled (unreachable: verify_settings rejects compressed_ten_bit_format != 0)",
        "un_pack2d modelled by its C reference; the SIMD twin is compared with it on every unit op",
        "stages after pad_input_pictures read the internal picture only (exercised e2e, not proved)"]
    for p in unit_problems + wit_problems + [(a, b + " " + c) for a, b, c in e2e["problems"] + asan["problems"]]:
        chk.cov.setdefault("problems", []).append("%s: %s" % p)

    # ---- verdict
    found = False
    for key, text in (e2e["known"][:1] + asan["known"][:1])[:1]:
        if chk.violation(text + "replay: bin/check C21 --replay <this file>\n", tag="overread", key=key):
            found = True
    if oracle_fail:
        g, k, first, c = oracle_fail[0]
        chk.violation("C21 violated by the REAL copy-in: pictures with identical visible samples give different internal buffers\n"
                      "group: %s\nvariant 0: %s\n  -> %s\nvariant %d: %s\n  -> %s\nfailing groups in this run: %d\nreplay: bin/check C21 --replay <this file>\n"
                      "unit-op: %s\nunit-op: %s\n" % (g["desc"], g["metas"][0] if g["metas"] else "", first, k, g["metas"][k] if g["metas"] else "", c,
                                                      len(set(id(x[0]) for x in oracle_fail)), g["lines"][0], g["lines"][k]), tag="unit")
        found = True
    for ab, av, what in e2e["violations"][:1]:
        chk.violation("C21 violated by the REAL encoder: %s\nencode-base: %s\nencode-variant: %s\nfailing variants in this run: %d\n"
                      "replay: bin/check C21 --replay <this file>\n" % (what, describe(ab), describe(av), len(e2e["violations"])), tag="e2e")
        found = True
    for a, text in asan["violations"][:1]:
        chk.violation("C21 violated under ASan: the encoder touches caller memory it must not\n" + text, tag="asan")
        found = True
    if not found:
        if not pr.ok:
            chk.violation("proof obligations do not check:\n%s\nforbidden tokens: %s\nno input found on which the implementation violates the property "
                          "(%d unit ops, %d e2e variants)\n" % ("\n".join("%s: %s" % kv for kv in pr.failed.items()), pr.forbidden, n_lines, e2e["compared"]),
                          tag="proof", found_input=False)
        if corr_fail:
            desc, line, what = corr_fail[0]
            if what is None:
                what = first_diff(build_unit(), line)
            chk.violation("Lean copy-in model and the REAL code disagree (model validation failed); the real buffers satisfy the C21 oracle\n"
                          "group: %s\nfirst difference: %s\ndisagreeing ops: %d of %d\nunit-op: %s\n" % (desc, what, len(corr_fail), n_lines, line),
                          tag="corr", found_input=False)
        if model_ok_bad:
            chk.violation("the model flags an out-of-bounds access on an in-range op: %s\n" % (model_ok_bad[:3],), tag="ok", found_input=False)
        probs = unit_problems + wit_problems
        if probs:
            chk.violation("correspondence machinery problem: %s\n" % (probs[:3],), tag="harness", found_input=False)
        if e2e["problems"] and e2e["compared"] == 0 and only_ops is None:
            chk.violation("no usable e2e comparison: %s\n" % (e2e["problems"][:3],), tag="e2e", found_input=False)


def _parse_args(s):
    a = {}
    for tok in s.split():
        k, v = tok.split("=", 1)
        a[k] = int(v) if v.lstrip("-").isdigit() else v
    return a


def replay(chk, path):
    ops, base, var, asan_enc = [], None, None, None
    flav = None
    for line in open(path):
        if line.startswith("unit-op: "):
            ops.append(line[len("unit-op: "):].strip())
        elif line.startswith("encode-base: "):
            base = _parse_args(line[len("encode-base: "):])
        elif line.startswith("encode-variant: "):
            var = _parse_args(line[len("encode-variant: "):])
        elif line.startswith("encode: "):
            asan_enc = _parse_args(line[len("encode: "):])
        elif line.startswith("flavour: "):
            flav = line.split()[1]
    if ops:
        # the ops of a failing group share their visible samples: re-evaluate oracle + correspondence on them
        chk.proofs(MODULE)
        exe = build_unit()
        text = "".join(o + "\n" for o in ops)
        rc, cout, _ = run_unit(exe, text)
        cl = result_lines(cout)
        ml = [strip_ok(l)[1] for l in result_lines(C.run_model("copyin", text))]
        chk.cov["evaluations"] = len(ops)
        chk.cov["distinct_nontrivial"] = len(ops)
        chk.cov["rule"] = "replayed unit ops"
        if len(set(cl)) > 1:
            chk.violation("C21 violated by the REAL copy-in (replay): identical visible samples, different internal buffers\n%s\n%s\n" %
                          ("\n".join(cl), "".join("unit-op: %s\n" % o for o in ops)), tag="unit")
        elif cl != ml:
            chk.violation("model and real code disagree on the replayed ops\nreal: %s\nmodel: %s\n%s" % (cl, ml, "".join("unit-op: %s\n" % o for o in ops)),
                          tag="corr", found_input=False)
    elif base and var:
        run(chk, only_e2e=[(base, [var])])
    elif asan_enc:
        chk.proofs(MODULE)
        flav = flav or ("rel" if asan_enc.get("guard") else "asan")
        C.e2e_exe(flav)
        res = C.run_e2e(asan_enc, flavour=flav, timeout=1800)
        s = asan_summary(res["stderr"])
        gf = guard_fault(res)
        chk.cov["evaluations"] = 1
        chk.cov["distinct_nontrivial"] = 1
        chk.cov["rule"] = "replayed encode (guard pages / ASan)"
        chk.sample({"encode": describe(asan_enc), "guard_fault": gf, "asan": s, "rc": res["rc"], "packets": len(res["PKT"])})
        if gf:
            key = KEY_OVERREAD if asan_enc.get("tight") and "kind=past-end" in gf else None
            chk.violation("the REAL encoder touched caller picture memory it must not touch (replay)\n%s\nencode: %s\n" % (gf, describe(asan_enc)),
                          tag="overread" if key else "guard", key=key)
        elif s:
            text = "ASan report (replay)\nencode: %s\nflavour: %s\n%s %s\nstack: %s\n" % (describe(asan_enc), flav, s["kind"], s["access"], " <- ".join(s["frames"]))
            key = KEY_OVERREAD if asan_enc.get("tight") and s["kind"] == "heap-buffer-overflow" and "READ" in s["access"] else None
            chk.violation(text, tag="asan", key=key)
    else:
        run(chk)
