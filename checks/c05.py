"""C05 — encoder output independent of thread count / pinning.

(1) TRANSLATE `load_default_buffer_configuration_settings` + `set_parent_pcs` (EbEncHandle.c) into Lean (xlate/bufcfg.py) and
    scan Source/Lib/Encoder for every access to a core-dependent member; `lake build SvtVerif.Props.C05` proves: only the
    members of `parallelGeometry` depend on core_count (semantic non-interference, all values), logical_processors /
    target_socket enter only through `coreCount`, unpin is not read, range facts for every core count, and that every
    access elsewhere is in the reviewed allow-list (H-noread made checkable).
(2) Correspondence: the REAL function (harness/bufcfg.c: EbEncHandle.c as its own translation unit, get_num_processors' sysconf
    and num_groups injected) against `svtmodel bufcfg` on a grid of inputs, every written member compared; the non-interference
    statement and the range facts are also evaluated directly on the REAL outputs.
(3) The property's own oracle on the REAL encoder: each configuration is encoded for logical_processors in {1,2,3,4,8,16}
    (x unpin x target_socket); packets + recon must be byte-identical (C.e2e_signature).  A difference is re-encoded to tell a
    dependence on the thread settings from nondeterminism at fixed settings.  Separate, labelled families: the documented
    lp-1-only feature `pic_based_rate_est` (finding C05-pic-based-rate-est-lp1) and rate control on (C05-rate-control-thread-dependent).
"""
import os
import re
import subprocess
import sys
import time
from concurrent.futures import ThreadPoolExecutor
from . import common as C

sys.path.insert(0, os.path.join(C.VERIF, "xlate"))
LEVEL = "proof"
MODULE = "SvtVerif.Props.C05"
KEY_PBRE = "C05-pic-based-rate-est-lp1"
KEY_NONDET = "C05-nondeterministic-at-fixed-threads"
KEY_RC = "C05-rate-control-thread-dependent"
LPS = [1, 2, 3, 4, 8, 16]
COMBOS = [(1, -1), (0, -1), (0, 0), (1, 0)]      # (unpin, target_socket); (1, 0) is accepted with a warning (unpin forced to 0)
TRUSTED = [
    "xlate/bufcfg.py + cfun.py: clang-14 JSON AST -> Lean (symbolic execution of load_default_buffer_configuration_settings into SSA definitions whose "
    "parameters are exactly what they mention; set_parent_pcs by cfun.translate_function); refuses unknown nodes; cmake's definitions for the file are passed to clang",
    "the cut of the function at the last assignment to `core_count` (checked by the translator: nothing else computed before it is live after it)",
    "source scan for accesses `->m` / `.m` (comments and literals stripped, enclosing function by brace matching): textual, does not follow copies of a member into other structures",
    "Props/C05.lean allowList: human classification of each (file, function, member) access",
    "harness/bufcfg.c: EbEncHandle.c compiled as the harness' own translation unit; only sysconf(_SC_NPROCESSORS_ONLN) and the static num_groups are injected",
    "harness/enc_e2e.c: the real encoder; identical synthetic input for every run of a configuration",
]


# ------------------------------------------------------------------------------------------------ translation / harness
def regenerate():
    import bufcfg
    import cfun
    try:
        info = bufcfg.main(os.path.join(C.LEAN, "SvtVerif/Gen/BufCfg.lean"))
        hdr = os.path.join(C.gen_src_dir(), "bufcfg_fields.h")
        txt = bufcfg.harness_header(info)
        if not os.path.exists(hdr) or open(hdr).read() != txt:
            open(hdr, "w").write(txt)
        return info, ""
    except cfun.Unsupported as e:
        return None, str(e)


def harness_exe():
    import bufcfg
    bd = C.ensure_lib("rel")
    return C.compile_harness("bufcfg", [os.path.join(C.VERIF, "harness", "bufcfg.c")], libs=["libSvtAv1Enc.a"],
                             extra=["-DNDEBUG", "-I" + C.gen_src_dir(), "-I" + os.path.join(bd, "Source/Lib/Common/Codec"),
                                    "-I" + os.path.join(C.REPO, "Source/Lib/Encoder/Globals")] + ["-D" + d for d in bufcfg.CMAKE_DEFINES])


def kv(line):
    return dict(t.split("=", 1) for t in line.split() if "=" in t)


SIZES = [(64, 64, 0), (96, 64, 0), (64, 256, 0), (128, 128, 0), (176, 144, 0), (352, 288, 1), (640, 360, 1), (640, 480, 1), (864, 480, 2),
         (1280, 720, 3), (1920, 1080, 4), (2560, 1440, 5), (3840, 2160, 5), (4096, 2176, 5), (7680, 4320, 6), (8192, 4352, 6), (65535, 65535, 6),
         (64, 65535, 3), (65535, 64, 3)]
HOSTS = [(1, 1), (2, 1), (3, 1), (4, 1), (8, 1), (16, 1), (16, 2), (3, 2), (48, 1), (64, 2), (96, 2), (128, 1), (224, 2), (256, 4), (448, 2)]
LP_VALUES = list(range(0, 65)) + [96, 127, 128, 129, 223, 224, 225, 448, 1000, 65535, 4294967295]


def rest_of_inputs(r, wide):
    """every input other than the four that select the core count"""
    w, h, res = r.choice(SIZES)
    if r.chance(1, 4):
        res = r.range(0, 6)              # the resolution class is an independent member; also exercise mismatching classes
    hl = r.choice([0, 1, 2, 3, 4, 5]) if not wide else r.choice([0, 1, 2, 3, 4, 5, 5, 6, 8, 10])
    d = dict(max_input_luma_width=w, max_input_luma_height=h, input_resolution=res,
             static_config_super_block_size=r.choice([64, 128]) if not wide else r.choice([64, 128, 0, 32]),
             static_config_hierarchical_levels=hl,
             static_config_frame_rate=r.choice([0, 1, 23, 24, 25, 30, 50, 60, 120, 121, 240, 1000, 1001, 24 << 16, 30 << 16, 60 << 16, 120 << 16, 240 << 16,
                                                (30 << 16) + 5, 500 << 16]),
             static_config_look_ahead_distance=r.choice([0, 1, 2, 15, 16, 17, 31, 32, 33, 60, 119, 120]) if not wide else r.choice([0, 17, 120, 121, 250, 1000]),
             static_config_tile_rows=r.choice([0, 0, 1, 2, 3, 4, 5, 6]),
             static_config_enable_overlays=r.choice([0, 0, 1]),
             static_config_tf_level=r.choice([-1, 0, 1, 2]),
             static_config_scene_change_detection=r.choice([0, 1]),
             static_config_intra_period_length=r.choice([-2, -1, 0, 1, 2, 7, 15, 16, 30, 31, 32, 63, 119, 255]) if not wide
             else r.choice([-2, -1, 0, 31, 255, 256, 65535, 2147483646]),
             static_config_enable_tpl_la=r.choice([0, 1]),
             static_config_use_cpu_flags=r.choice([0, 1, 511, 53247, 0xFFFFFFFF, (1 << 64) - 1]))
    return d


def gen_cases(chk, host):
    """-> list of (line, group id).  A group = identical inputs except lpCount/numGroups/logical_processors/target_socket."""
    r = chk.rng
    cases = []
    quick = chk.tier == "quick"
    ngroups = 260 if quick else 2600
    per_group = 18 if quick else 28
    real_host = (int(host["nproc"]), max(1, int(host["num_groups"])))
    gid = 0
    # (a) every logical_processors value on the real host's processor counts and on the listed hosts, target_socket -1/0/1
    for lp in LP_VALUES:
        rest = rest_of_inputs(r, False)
        for (np_, ng) in ([real_host] + ([(16, 2), (48, 1), (224, 2)] if quick else HOSTS)):
            for sock in (-1, 0, 1):
                d = dict(rest, static_config_logical_processors=lp, static_config_target_socket=sock)
                cases.append(("CASE %d %d " % (np_, ng) + " ".join("%s=%d" % x for x in d.items()), gid))
        gid += 1
    # (b) seeded groups: one draw of the other inputs, many processor settings
    for g in range(ngroups):
        rest = rest_of_inputs(r, wide=(g % 7 == 6))
        for _ in range(per_group):
            np_, ng = r.choice(HOSTS + [real_host])
            lp = r.choice(LP_VALUES) if r.chance(2, 3) else r.choice([0, 1, 2, 3, 4, 8, 16])
            d = dict(rest, static_config_logical_processors=lp, static_config_target_socket=r.choice([-1, -1, 0, 1]))
            cases.append(("CASE %d %d " % (np_, ng) + " ".join("%s=%d" % x for x in d.items()), gid))
        gid += 1
    return cases


def in_accepted_domain(d):
    g = lambda k: int(d.get(k, 0))
    return (64 <= g("max_input_luma_width") <= 65535 and 64 <= g("max_input_luma_height") <= 65535 and 0 <= g("static_config_hierarchical_levels") <= 5
            and 0 <= g("static_config_look_ahead_distance") <= 120 and 0 <= g("static_config_tile_rows") <= 6
            and g("static_config_super_block_size") in (64, 128))


# ------------------------------------------------------------------------------------------------ end-to-end sweep
def e2e_configs(chk):
    """-> list of dict(name, family, args, runs=[(lp, unpin, sock)])"""
    r = chk.rng
    quick = chk.tier == "quick"
    base = [
        ("tiny-m8", dict(w=64, h=64, n=5, bd=8, content=4, **{"cfg.enc_mode": 8, "cfg.hierarchical_levels": 2})),
        ("3x2sb-m4", dict(w=192, h=128, n=5, bd=8, content=4, **{"cfg.enc_mode": 4, "cfg.hierarchical_levels": 2})),
        ("10bit-tiles-m6", dict(w=128, h=128, n=5, bd=10, content=2, **{"cfg.enc_mode": 6, "cfg.hierarchical_levels": 1, "cfg.tile_columns": 1})),
        ("1sb-wide-m8", dict(w=64, h=256, n=4, bd=8, content=0, **{"cfg.enc_mode": 8, "cfg.hierarchical_levels": 1})),
        # pictures at least 608 wide and 352 high: the ME / TF / CDEF segment grids of load_default_buffer_configuration_settings are 1x1 below
        # that size for EVERY core count, so smaller pictures cannot show a leak of that part of the parallel geometry into coding
        # (seeded changes C05-1: CDEF strength search at segment borders, 10-bit; C05-2: per-thread temporal-filter state)
        ("multiseg-8bit-m8", dict(w=640, h=384, n=6, bd=8, content=4, **{"cfg.enc_mode": 8, "cfg.hierarchical_levels": 2})),
        ("multiseg-10bit-m8", dict(w=640, h=384, n=5, bd=10, content=4, **{"cfg.enc_mode": 8, "cfg.hierarchical_levels": 2})),
    ]
    if not quick:
        base += [
            ("cif-m5", dict(w=352, h=288, n=9, bd=8, content=4, **{"cfg.enc_mode": 5, "cfg.hierarchical_levels": 3})),
            ("m7-tilerows", dict(w=256, h=256, n=8, bd=8, content=4, **{"cfg.enc_mode": 7, "cfg.hierarchical_levels": 2, "cfg.tile_rows": 1})),
            ("m4-10bit", dict(w=192, h=192, n=6, bd=10, content=4, **{"cfg.enc_mode": 4, "cfg.hierarchical_levels": 2})),
            ("m8-noise-lad", dict(w=320, h=192, n=12, bd=8, content=0, **{"cfg.enc_mode": 8, "cfg.hierarchical_levels": 3, "cfg.look_ahead_distance": 8})),
            ("m6-sc", dict(w=256, h=144, n=8, bd=8, content=5, **{"cfg.enc_mode": 6, "cfg.hierarchical_levels": 2, "cfg.screen_content_mode": 1})),
            ("m5-ipp", dict(w=160, h=96, n=10, bd=8, content=4, **{"cfg.enc_mode": 5, "cfg.hierarchical_levels": 0})),
            ("m4-tiles2x2", dict(w=256, h=256, n=5, bd=8, content=2, **{"cfg.enc_mode": 4, "cfg.hierarchical_levels": 1, "cfg.tile_columns": 1, "cfg.tile_rows": 1})),
        ]
        sizes = [(64, 64), (128, 64), (192, 128), (72, 88), (96, 80), (128, 128), (160, 96), (136, 72), (80, 120), (256, 128), (64, 192), (320, 240)]
        for i in range(8):
            w, h = r.choice(sizes)
            a = dict(w=w, h=h, n=r.range(3, 10), bd=r.choice([8, 8, 10]), content=r.choice([0, 2, 4, 4, 5]))
            a["cfg.enc_mode"] = r.choice([4, 5, 6, 7, 8])
            a["cfg.hierarchical_levels"] = r.range(0, 3)
            if r.chance(1, 3) and w >= 128:
                a["cfg.tile_columns"] = r.range(0, 1)
                a["cfg.tile_rows"] = r.range(0, 1)
            if r.chance(1, 3):
                a["cfg.intra_period_length"] = r.range(1, 8)
            if r.chance(1, 4):
                a["cfg.qp"] = r.range(15, 60)
            base.append(("rand%d" % i, a))
    cfgs = []
    for i, (name, a) in enumerate(base):
        a = dict(a)
        a.update(recon=1, decode=0, seed=chk.seed * 1000 + i, watchdog=900)
        if quick or i % 4 != 1:
            k = r.below(len(COMBOS))
            runs = [(lp,) + COMBOS[(k + j) % len(COMBOS)] for j, lp in enumerate(LPS)]
        else:
            runs = [(lp,) + cb for lp in LPS for cb in COMBOS]          # full cross
        if not quick and i % 4 == 0:
            runs.append((0, 1, -1))                                     # the default: all processors
        cfgs.append(dict(name=name, family="main", args=a, runs=runs))
    # the documented lp-1-only feature: separate, labelled family
    pb = [("pbre-3x2sb-m4", dict(w=192, h=128, n=4, bd=8, content=4, **{"cfg.enc_mode": 4, "cfg.hierarchical_levels": 2, "cfg.pic_based_rate_est": 1}))]
    if not quick:
        pb += [("pbre-cif-m5", dict(w=352, h=288, n=5, bd=8, content=4, **{"cfg.enc_mode": 5, "cfg.hierarchical_levels": 2, "cfg.pic_based_rate_est": 1})),
               ("pbre-m8-intra", dict(w=256, h=192, n=4, bd=8, content=0, **{"cfg.enc_mode": 8, "cfg.hierarchical_levels": 1, "cfg.pic_based_rate_est": 1}))]
    for i, (name, a) in enumerate(pb):
        a = dict(a)
        a.update(recon=1, decode=0, seed=chk.seed * 1000 + 500 + i, watchdog=900)
        lps = [1, 2, 4] if quick else [1, 2, 3, 4, 16]
        cfgs.append(dict(name=name, family="pic_based_rate_est", args=a, runs=[(lp, 1, -1) for lp in lps]))
    # rate control on (VBR / CVBR): QP decisions use feedback from pictures already packetized, which depends on how many pictures
    # are in flight; separate, labelled family
    rc = [("vbr-m8", dict(w=192, h=128, n=8 if quick else 12, bd=8, content=4, **{"cfg.enc_mode": 8, "cfg.hierarchical_levels": 3, "cfg.rate_control_mode": 1,
                                                                                 "cfg.target_bit_rate": 300000, "cfg.intra_period_length": 15}))]
    if not quick:
        rc += [("cvbr-m6", dict(w=160, h=96, n=12, bd=8, content=4, **{"cfg.enc_mode": 6, "cfg.hierarchical_levels": 2, "cfg.rate_control_mode": 2,
                                                                      "cfg.target_bit_rate": 200000, "cfg.intra_period_length": 15}))]
    for i, (name, a) in enumerate(rc):
        a = dict(a)
        a.update(recon=1, decode=0, seed=chk.seed * 1000 + 600 + i, watchdog=900)
        lps = [1, 2, 4] if quick else [1, 2, 3, 4, 8, 16]
        cfgs.append(dict(name=name, family="rate_control", args=a, runs=[(lp, 1, -1) for lp in lps]))
    return cfgs


def run_args(cfg, run):
    lp, unpin, sock = run
    a = dict(cfg["args"])
    a["cfg.logical_processors"] = lp
    a["cfg.unpin"] = unpin
    a["cfg.target_socket"] = sock
    return a


def describe(a):
    return " ".join("%s=%s" % (k, v) for k, v in a.items())


def encode(a):
    t0 = time.time()
    r = C.run_e2e(a, timeout=1500)
    if r["hung"] or r["crashed"]:
        r2 = C.run_e2e(a, timeout=1500)            # once more: the machine is shared, a watchdog expiry alone is not evidence
        if not (r2["hung"] or r2["crashed"]):
            r = r2
    r["wall"] = time.time() - t0
    return r


def classify_difference(c, a_run, ra, b_run, rb, repeats=3):
    """A difference between two thread settings was seen once.  Encode each setting `repeats` more times:
    -> ("deterministic", text) every repeat of a setting reproduces its first output and the two settings differ: thread-count dependence;
       ("nondeterministic", text) some setting does not reproduce its own output: the encoder is not deterministic at FIXED thread settings
       (a C04 matter that C05's statement presupposes)."""
    with ThreadPoolExecutor(max_workers=4) as ex:
        fa = [ex.submit(encode, run_args(c, a_run)) for _ in range(repeats)]
        fb = [ex.submit(encode, run_args(c, b_run)) for _ in range(repeats)]
        sa = [C.e2e_signature(f.result()) for f in fa]
        sb = [C.e2e_signature(f.result()) for f in fb]
    a0, b0 = C.e2e_signature(ra), C.e2e_signature(rb)
    na, nb = sum(1 for x in sa if x != a0), sum(1 for x in sb if x != b0)
    text = "re-encoded %d times each: setting a reproduced its output %d/%d times, setting b %d/%d times" % (repeats, repeats - na, repeats, repeats - nb, repeats)
    return ("deterministic" if na == 0 and nb == 0 else "nondeterministic"), text


def usable(r):
    return not r["crashed"] and not r["hung"] and r["SETPARAM"] == 0 and len(r["PKT"]) > 0 and not r["ERR"]


def first_difference(ra, rb):
    for i, (p, q) in enumerate(zip(ra["PKT"], rb["PKT"])):
        if (p["pts"], p["flags"], p["size"], p["crc"]) != (q["pts"], q["flags"], q["size"], q["crc"]):
            return "packet %d: pts %s/%s size %s/%s crc %s/%s" % (i, p["pts"], q["pts"], p["size"], q["size"], p["crc"], q["crc"])
    if len(ra["PKT"]) != len(rb["PKT"]):
        return "packet counts %d/%d" % (len(ra["PKT"]), len(rb["PKT"]))
    sa, sb = sorted((x["pts"], x["crc"]) for x in ra["RECON"]), sorted((x["pts"], x["crc"]) for x in rb["RECON"])
    for x, y in zip(sa, sb):
        if x != y:
            return "recon pts %s: crc %s/%s (packets identical)" % (x[0], x[1], y[1])
    return "recon counts %d/%d" % (len(sa), len(sb))


# ------------------------------------------------------------------------------------------------ the check
def run(chk, only=None):
    # ---- 0. start the real encodes in the background (they dominate the wall time)
    cfgs = only if only is not None else e2e_configs(chk)
    jobs = [(ci, ri) for ci, c in enumerate(cfgs) for ri in range(len(c["runs"]))]
    # largest thread counts first: they are the slowest
    jobs.sort(key=lambda j: -cfgs[j[0]]["runs"][j[1]][0])
    C.e2e_exe()
    pool = ThreadPoolExecutor(max_workers=3 if chk.tier == "quick" else 4)
    futs = {j: pool.submit(encode, run_args(cfgs[j[0]], cfgs[j[0]]["runs"][j[1]])) for j in jobs}

    # ---- 1. translate + proofs
    info, terr = regenerate()
    pr = chk.proofs(MODULE, trusted_extra=TRUSTED) if info else None
    model_ok = bool(info) and pr.build_ok
    if info:
        chk.cov["translator"] = {"members_read": len(info["inputs"]), "members_written": len(info["out"]), "core_dependent": len(info["core_dep"]),
                                 "generated_definitions": info["ndefs"], "files_scanned": info["files_scanned"], "accesses_listed": len(info["accesses"])}

    # ---- 2. correspondence on the configuration function
    corr_bad, ni_bad, range_bad = [], [], []
    ncases = 0
    distinct = set()
    hist = {"core_count": {}, "hosts": {}, "accepted_domain": 0, "outside_domain": 0}
    host = {}
    if info or only is None:
        try:
            exe = harness_exe()
            p = subprocess.run([exe], input=b"HOST\n", stdout=subprocess.PIPE, stderr=subprocess.DEVNULL, timeout=120)
            host = kv(p.stdout.decode().split("\n")[0])
            cases = gen_cases(chk, host) if only is None else []
            lines = [c for c, _ in cases]
            p = subprocess.run([exe], input=("\n".join(lines) + "\n").encode(), stdout=subprocess.PIPE, stderr=subprocess.DEVNULL, timeout=3600)
            cout = [l for l in p.stdout.decode().split("\n") if l.startswith("R ") or l == "bad-op"]
            if p.returncode != 0 or len(cout) != len(lines):
                raise C.BuildError("harness/bufcfg produced %d lines for %d cases (rc=%d)" % (len(cout), len(lines), p.returncode))
            mout = None
            if model_ok and lines:
                mlines = [l + " env_cpu_flags_to_use=%s" % host["cpu_flags_to_use"] for l in lines]
                mout = [l for l in C.run_model("bufcfg", "\n".join(mlines) + "\n").split("\n") if l]
                cores = [l for l in C.run_model("bufcfg", "\n".join("CORE" + l[4:] for l in lines) + "\n").split("\n") if l]
            ncases = len(lines)
            geometry = geometry_names()
            groups = {}
            for i, ((line, gid), c) in enumerate(zip(cases, cout)):
                distinct.add(c)
                if mout is not None:
                    if i >= len(mout) or mout[i] != c:
                        m = mout[i] if i < len(mout) else "<missing>"
                        km, kc = kv(m), kv(c)
                        diff = [(k, kc.get(k), km.get(k)) for k in kc if kc.get(k) != km.get(k)]
                        corr_bad.append((line, diff[:6] or [("line", c[:80], m[:80])]))
                    cc = kv(cores[i]).get("core") if i < len(cores) else None
                    hist["core_count"][cc] = hist["core_count"].get(cc, 0) + 1
                ws = line.split()
                hist["hosts"]["%s/%s" % (ws[1], ws[2])] = hist["hosts"].get("%s/%s" % (ws[1], ws[2]), 0) + 1
                d = kv(line)
                o = kv(c)
                # the theorems' statements, evaluated on the REAL outputs
                if o.get("ret") == "0":
                    groups.setdefault(gid, []).append((line, o))
                    if in_accepted_domain(d):
                        hist["accepted_domain"] += 1
                        for k, v in o.items():
                            if ("segment" in k or "tile_group" in k or k.endswith("process_init_count")) and int(v) < 1:
                                range_bad.append((line, "%s=%s" % (k, v)))
                        if int(o["reference_picture_buffer_init_count"]) < 18:
                            range_bad.append((line, "reference_picture_buffer_init_count=%s < min_ref" % o["reference_picture_buffer_init_count"]))
                    else:
                        hist["outside_domain"] += 1
                elif in_accepted_domain(d) and 0 <= int(d.get("static_config_frame_rate", 0)) < 2 ** 32:
                    range_bad.append((line, "returned %s for an accepted configuration" % o.get("ret")))
            for gid, members in groups.items():
                l0, o0 = members[0]
                for l1, o1 in members[1:]:
                    for k in o0:
                        if k not in geometry and k != "ret" and o0[k] != o1.get(k):
                            ni_bad.append((l0, l1, k, o0[k], o1.get(k)))
            chk.cov["noninterference_groups_on_real_outputs"] = len(groups)
        except (RuntimeError, subprocess.TimeoutExpired) as e:
            if isinstance(e, C.BuildError):
                raise
            corr_bad.append(("run", [("error", str(e)[-600:], "")]))

    # ---- 3. collect the encodes, evaluate the oracle
    results = {j: f.result() for j, f in futs.items()}
    pool.shutdown()
    e2e_viol, e2e_known, e2e_rc, unusable = [], [], [], []
    nruns = nconf_ok = 0
    sigs = set()
    walls = []
    for ci, c in enumerate(cfgs):
        rs = [(c["runs"][ri], results[(ci, ri)]) for ri in range(len(c["runs"]))]
        nruns += len(rs)
        walls += [r["wall"] for _, r in rs]
        bad = [(run_, r) for run_, r in rs if not usable(r)]
        good = [(run_, r) for run_, r in rs if usable(r)]
        if bad and good:
            # produced output for some thread counts and not for others: that IS a dependence on the thread count
            run_, r = bad[0]
            e2e_viol.append((c, good[0][0], good[0][1], run_, r, "no usable output (rc=%s hung=%s crashed=%s setparam=%s err=%s) while another "
                             "thread setting encodes normally" % (r["rc"], r["hung"], r["crashed"], r["SETPARAM"], r["ERR"][:2])))
            continue
        if not good:
            unusable.append((c["name"], "rc=%s setparam=%s err=%s" % (rs[0][1]["rc"], rs[0][1]["SETPARAM"], rs[0][1]["ERR"][:2])))
            continue
        for _run, r in good:
            sigs.add(C.e2e_signature(r))
        if c["family"] == "pic_based_rate_est":
            one = [x for x in good if x[0][0] == 1]
            many = [x for x in good if x[0][0] != 1]
            ref = many[0] if many else None
            for x in many[1:]:
                if C.e2e_signature(x[1]) != C.e2e_signature(ref[1]):
                    e2e_viol.append((c, ref[0], ref[1], x[0], x[1], first_difference(ref[1], x[1])))
            if one and ref and C.e2e_signature(one[0][1]) != C.e2e_signature(ref[1]):
                e2e_known.append((c, one[0][0], one[0][1], ref[0], ref[1], first_difference(one[0][1], ref[1])))
            elif one and ref:
                nconf_ok += 1
            continue
        ref = good[0]
        same = True
        for x in good[1:]:
            if C.e2e_signature(x[1]) != C.e2e_signature(ref[1]):
                same = False
                (e2e_rc if c["family"] == "rate_control" else e2e_viol).append((c, ref[0], ref[1], x[0], x[1], first_difference(ref[1], x[1])))
                break
        nconf_ok += same

    # ---- 4. coverage
    chk.cov["evaluations"] = nruns + ncases
    chk.cov["e2e_encodes"] = nruns
    chk.cov["e2e_configurations"] = len(cfgs)
    chk.cov["e2e_configurations_identical_across_threads"] = nconf_ok
    chk.cov["e2e_matrix"] = [{"name": c["name"], "family": c["family"], "args": describe({k: v for k, v in c["args"].items() if k not in ("recon", "decode", "watchdog")}),
                              "runs(lp,unpin,socket)": ["%d,%d,%d" % r for r in c["runs"]]} for c in cfgs]
    chk.cov["e2e_wall_s"] = {"max": round(max(walls), 1) if walls else 0, "sum": round(sum(walls), 1)}
    chk.cov["bufcfg_cases"] = ncases
    chk.cov["bufcfg_host"] = host
    chk.cov["distinct_nontrivial"] = len(distinct) + len(sigs)
    chk.cov["rule"] = ("distinct_nontrivial = distinct output vectors of the REAL load_default_buffer_configuration_settings over the case grid (%d) + distinct "
                       "(packets, recon) signatures among the real encodes (%d). bufcfg cases: every logical_processors value 0..64 and boundary values x hosts "
                       "(nproc, num_groups) x target_socket on seeded draws of the other 14 members read, plus seeded groups that fix those members and vary only the "
                       "processor settings; each case runs through the REAL function and the generated Lean model, all written members compared. Encodes: every "
                       "configuration at logical_processors 1,2,3,4,8,16 with unpin/target_socket rotated (thorough: full cross on a quarter of them), byte-compared."
                       % (len(distinct), len(sigs)))
    chk.cov["bufcfg_histogram"] = {"core_count": dict(sorted(hist["core_count"].items(), key=lambda x: int(x[0]) if x[0] and x[0].lstrip("-").isdigit() else -1)[:40]),
                                   "hosts(nproc/num_groups)": hist["hosts"], "accepted_domain": hist["accepted_domain"], "outside_domain": hist["outside_domain"]}
    chk.cov["disagreements_checked"] = ncases
    chk.cov["programs"] = 1
    if unusable:
        chk.cov["e2e_configurations_not_usable"] = unusable[:8]
    if cfgs and ncases:
        chk.sample({"bufcfg_case": cases[len(cases) // 2][0], "real": cout[len(cases) // 2][:300]})
    for c in cfgs[:3]:
        r0 = results[(cfgs.index(c), 0)]
        chk.sample({"encode": describe(run_args(c, c["runs"][0])), "packets": len(r0["PKT"]), "recon": len(r0["RECON"]),
                    "first_packet_crc": r0["PKT"][0]["crc"] if r0["PKT"] else None})
    chk.assumptions += [
        "H-noread: code outside the classified accesses does not consult a parallelGeometry member (textual scan; copies such as pcs->enc_dec_segments_* are "
        "followed only through the classes `segInit`/`copy`, whose grid-independence is C24/C04)",
        "coding is independent of segment grid and pool sizes: C24 (every grid) + C23 (FIFO order) + C04's H-footprint; tested here end to end, not proved",
        "Windows group logic (#ifdef _WIN32) is not translated; host has num_groups=%s so target_socket=0 selects the same processors as -1" % host.get("num_groups", "?"),
    ]

    # ---- 5. verdict
    def two_runs(c, ra_run, ra, rb_run, rb, what):
        return ("C05: output depends on the thread settings\nconfiguration %s (%s family)\n%s\nencode-a: %s\nencode-b: %s\n"
                "a: %d packets, b: %d packets\nreplay: bin/check C05 --replay <this file>   (or run the enc_e2e harness with each argument line and compare PKT/RECON lines)\n"
                % (c["name"], c["family"], what, describe(run_args(c, ra_run)), describe(run_args(c, rb_run)), len(ra["PKT"]), len(rb["PKT"])))

    for c, a_run, ra, b_run, rb, what in e2e_known:
        chk.violation(two_runs(c, a_run, ra, b_run, rb, "pic_based_rate_est=1 (documented \"only active with lp 1\"): logical_processors=1 differs from >1; " + what),
                      tag="pbre", key=KEY_PBRE)
    for c, a_run, ra, b_run, rb, what in e2e_rc[:1]:
        chk.violation(two_runs(c, a_run, ra, b_run, rb, "rate control on (rate_control_mode=%s): the packets depend on the thread settings (QP decisions use feedback "
                               "from pictures already packetized); %s\n(%d rate-control configurations differ in this run)"
                               % (c["args"].get("cfg.rate_control_mode"), what, len(e2e_rc))), tag="ratecontrol", key=KEY_RC)
    chk.cov["e2e_differing_configurations"] = [{"name": x[0]["name"], "family": x[0]["family"], "a(lp,unpin,socket)": "%d,%d,%d" % x[1],
                                                "b(lp,unpin,socket)": "%d,%d,%d" % x[3], "first_difference": x[5]} for x in e2e_viol + e2e_rc + e2e_known]
    real_violation = False
    nondet = []
    for c, a_run, ra, b_run, rb, what in e2e_viol[:4]:
        if not (usable(ra) and usable(rb)):
            kind, rep = "deterministic", "one of the two settings produced no usable output twice"
        else:
            kind, rep = classify_difference(c, a_run, ra, b_run, rb)
        if kind == "deterministic":
            chk.violation(two_runs(c, a_run, ra, b_run, rb, what + "\n" + rep + "\n(%d configurations differ in this run)" % len(e2e_viol)))
            real_violation = True
            break
        nondet.append((c, a_run, ra, b_run, rb, what + "\n" + rep))
    if nondet and not real_violation:
        c, a_run, ra, b_run, rb, what = nondet[0]
        chk.cov["nondeterministic_at_fixed_thread_settings"] = [x[0]["name"] for x in nondet]
        real_violation = chk.violation(
            two_runs(c, a_run, ra, b_run, rb, "the two outputs below differ, but the difference is NOT a function of the thread settings: the encoder does not "
                     "reproduce its own output at fixed settings (nondeterminism, property C04; C05's statement presupposes it)\n" + what),
            tag="nondet", key=KEY_NONDET)
    if ni_bad:
        l0, l1, k, v0, v1 = ni_bad[0]
        chk.violation("C05: a member outside parallelGeometry takes different values for two processor settings in the REAL "
                      "load_default_buffer_configuration_settings\nmember %s: %s vs %s\ncase-a: %s\ncase-b: %s\n(%d such pairs)\n"
                      "replay: feed both lines to the bufcfg harness\n" % (k, v0, v1, l0, l1, len(ni_bad)), tag="noninterference")
        real_violation = True
    if range_bad:
        l, what = range_bad[0]
        chk.violation("C05: a range fact stated in Props/C05.lean fails on the REAL load_default_buffer_configuration_settings\n%s\ncase: %s\n(%d such cases)\n"
                      % (what, l, len(range_bad)), tag="range")
        real_violation = True
    if not real_violation:
        if info is None:
            chk.violation("translator refused the current source: %s\nno thread setting changed the output of any of the %d configurations encoded (%d encodes)\n"
                          % (terr, len(cfgs), nruns), tag="xlate", found_input=False)
        elif not pr.ok:
            chk.violation("proof obligations no longer check on the regenerated model (a failure of geometry_reads_classified means a new access to a "
                          "core-dependent member appeared in the source):\n%s\nforbidden tokens: %s\nno thread setting changed the output of any of the %d configurations "
                          "encoded (%d encodes)\n" % ("\n".join("%s: %s" % x for x in pr.failed.items()), pr.forbidden, len(cfgs), nruns),
                          tag="proof", found_input=False)
        elif corr_bad:
            l, diff = corr_bad[0]
            chk.violation("generated model and the REAL load_default_buffer_configuration_settings disagree (translator validation failed); the real outputs "
                          "satisfy the non-interference and range statements\ncase: %s\n(member, real, model): %s\n(%d cases disagree)\n" % (l, diff, len(corr_bad)),
                          tag="corr", found_input=False)
        elif only is None and (not cfgs or nconf_ok + len(e2e_known) + len(e2e_rc) == 0):
            chk.violation("no usable encode: %s\n" % unusable[:3], tag="enc", found_input=False)


def geometry_names():
    """C names of the members in Props/C05.lean's parallelGeometry (parsed from the Lean source: the hand-written list is the single source)"""
    src = C.strip_lean_comments(open(os.path.join(C.LEAN, "SvtVerif/Props/C05.lean")).read())
    m = re.search(r"def parallelGeometry : List FieldName := \[(.*?)\]", src, re.S)
    names = set()
    for x in re.findall(r"\.(\w+)", m.group(1) if m else ""):
        mm = re.match(r"(.*)_(\d)$", x)
        names.add("%s[%s]" % (mm.group(1), mm.group(2)) if mm and "array" in x else x)
    return names


def replay(chk, path):
    """Re-run the two encodes named in the replay file and compare them."""
    lines = {}
    for line in open(path):
        for tag in ("encode-a: ", "encode-b: "):
            if line.startswith(tag):
                a = {}
                for tok in line[len(tag):].split():
                    k, v = tok.split("=", 1)
                    a[k] = int(v) if v.lstrip("-").isdigit() else v
                lines[tag] = a
    if len(lines) != 2:
        return run(chk)
    a, b = lines["encode-a: "], lines["encode-b: "]
    strip = lambda d: {k: v for k, v in d.items() if k not in ("cfg.logical_processors", "cfg.unpin", "cfg.target_socket")}
    fam = "pic_based_rate_est" if a.get("cfg.pic_based_rate_est") == 1 else "rate_control" if a.get("cfg.rate_control_mode", 0) != 0 else "main"
    cfg = dict(name="replay", family=fam, args=strip(a),
               runs=[(a["cfg.logical_processors"], a.get("cfg.unpin", 1), a.get("cfg.target_socket", -1)),
                     (b["cfg.logical_processors"], b.get("cfg.unpin", 1), b.get("cfg.target_socket", -1))])
    run(chk, only=[cfg])
