"""C01 — the encoder's reconstruction equals an independent decode of its own bitstream.

(1) Lean proofs (Props/C01.lean): the frame-level protocol — reference update / loading / output process of AV1 §7.20/§7.21
    (`Dpb.decStep`) against the encoder-side bookkeeping machine (`Dpb.encStep`): `recon_eq_decode` (refinement under the explicit
    hypotheses H-recon, H-syntax, H-key), `dec_output_order`, `dec_output_positions`, `output_is_a_reconstruction`,
    `dpb_refresh_spec`, `show_existing_key_refreshes_all`.
(2) On REAL output: a matrix of real encodes (harness/enc_e2e.c, configurations from the accepted domain) whose packets are fed
    (a) to the real SVT decoder in-process: no decoder error, decoded samples == svt_av1_get_recon samples byte for byte, matched
        by display position (k-th output picture <-> reconstruction with pts k);
    (b) to the Lean header parser (`svtmodel obu`) and the Lean DPB machine (`svtmodel dpb`): the model predicts which header
        outputs a picture and which frame that is; compared with the real decoder's output list (count, packet of each output),
        with the packets' pts and the order hints (display-position bookkeeping), and stream validity (no read of an empty slot,
        show_existing_frame only of showable frames, no picture output twice).
    This is the empirical test of H-recon / H-syntax on those inputs.
There is no third-party AV1 decoder in the sandbox: "independent decoder" = SVT's own decoder + the Lean header/DPB model.
"""
from . import common as C
from . import c01common as M

LEVEL = "other"
MODULE = "SvtVerif.Props.C01"
PID = "C01"


def replay_text(c, what, extra=""):
    return ("%s\ncase: %s\nencode: %s\nreplay: bin/check C01 --replay <this file>\n"
            "(run: harness enc_e2e with the arguments of the `encode:` line; CMP lines compare the real decoder's output with the\n"
            " encoder's reconstruction by display position)\n%s" % (what, c["label"], M.describe(c["args"]), extra))


def run(chk, only_case=None):
    pr = chk.proofs(MODULE, trusted_extra=[
        "harness/enc_e2e.c: the real encoder and, in the same process, the real SVT decoder (1 thread, 8-bit pipeline) on the packets; "
        "comparison of decoder output with svt_av1_get_recon buffers by display position (memcmp of the visible planes)",
        "Lean OBU / frame-header parser (Model/Av1Header.lean, validated against the real decoder's parser by C02) feeding Model/Dpb.lean",
        "no third-party AV1 decoder is available: the decoder is SVT's own"])
    cases = [only_case] if only_case else M.matrix(chk.tier, chk.seed)
    M.run_matrix(chk, cases, [])
    model_err = None
    try:
        M.lean_frames(cases)
        M.lean_dpb(cases)
    except (RuntimeError, C.BuildError, AssertionError, IndexError) as e:
        model_err = str(e)[-1500:]

    unknown = []            # (case, kind, text)
    known_hit = {}          # family -> [(case, kind, text)]
    known_quiet = []        # dedicated cases that did not fail
    rejected = []
    proto_bad = []
    n_cmp = n_frames = n_streams = 0
    sigs = set()
    facts_total = {}
    samples = 0
    for c in cases:
        r = c["r"]
        fam = c.get("known") or M.known_family(c["args"])
        fail = M.encode_failure(c)
        if r["SETPARAM"] not in (0, None) and not r["crashed"] and not r["hung"]:
            rejected.append(M.describe(c["args"]))
            continue
        if fail:
            kind, text = fail
            if fam and kind in M.FAMILY_KIND.get(fam, ()):
                known_hit.setdefault(fam, []).append((c, kind, text))
            else:
                unknown.append((c, kind, text))
        if c.get("intermittent_hang"):
            known_hit.setdefault(M.K_FLAKY_HANG, []).append((c, "hang", "the first run did not finish within the watchdog (%d s); an identical second run finished"
                                                             % int(c["args"].get("watchdog", M.WATCHDOG))))
        if not fail and c.get("known") and c["label"].startswith("KNOWN FINDING"):
            known_quiet.append(c["label"])
        if not c.get("usable"):
            continue
        n_streams += 1
        n_cmp += sum(1 for _, v in r["CMP"] if v == "MATCH")
        if model_err is None and c.get("frames") is not None and c.get("dpb") is not None:
            bad, facts = M.protocol_oracle(c)
            for k, v in facts.items():
                facts_total[k] = facts_total.get(k, 0) + v
            n_frames += len(c["frames"])
            sigs.add(M.stream_signature(c))
            # a crash / count problem of a known family also disturbs the protocol comparison: only report it for clean families
            if bad and not (fam and fail):
                proto_bad.append((c, bad))
            if samples < 6 and not fail:
                chk.sample({"case": c["label"], "encode": M.describe(c["args"]), "pictures_compared_equal": len(r["CMP"]),
                            "frame_headers": len(c["frames"]), "outputs_predicted_by_lean_dpb": facts["outputs"],
                            "show_existing": facts["show_existing"], "hidden_frames": facts["hidden"]})
                samples += 1

    # ---- coverage
    chk.cov["encodes"] = len(cases)
    chk.cov["encodes_decoded"] = n_streams
    chk.cov["configurations_rejected_by_set_parameter"] = rejected[:10]
    chk.cov["evaluations"] = n_cmp
    chk.cov["pictures_decoded_equal_to_recon"] = n_cmp
    chk.cov["frame_headers_through_lean_dpb"] = n_frames
    chk.cov["protocol_facts"] = facts_total
    chk.cov["distinct_nontrivial"] = len(sigs)
    chk.cov["rule"] = ("evaluations = decoder output pictures compared byte for byte with the encoder reconstruction of the same display "
                       "position and found equal; distinct_nontrivial = number of distinct stream signatures among the decoded real streams "
                       "(superblock size, bit depth, film grain, restoration/CDEF/superres switches, set of frame types, show-existing, hidden "
                       "frames, tile count, segmentation, screen-content tools, intrabc, skip mode, delta-q, lossless, global motion) as parsed "
                       "by the Lean header parser")
    chk.cov["input_distribution"] = M.histograms(cases)
    chk.cov["known_family_cases_that_did_not_fail"] = known_quiet
    chk.cov["explanation"] = (
        "LEVEL other: the frame-level protocol (which slots a frame reads and refreshes, which picture is output where) is proved in Lean "
        "for all streams (Props/C01.lean) under explicit hypotheses; the per-block arithmetic equality of encoder and decoder reconstruction "
        "(H-recon) and the header writer/parser round trip (H-syntax) are NOT proved: they are exercised on the sampled real encodes of this "
        "run only (every decoded picture compared byte for byte with svt_av1_get_recon). Recon buffers contain the film-grain-synthesised "
        "picture when film grain is on (recon_output, EbEncDecProcess.c l.463-486), so they are compared with the decoder output with grain applied.")
    chk.assumptions += [
        "no third-party AV1 decoder in the sandbox: the 'independent decoder' is SVT's own decoder (separate parse/prediction code, shared Common/ kernels) plus the Lean header/DPB model",
        "configurations: presets 2..8, 8/10-bit 4:2:0, tiles, CQP/VBR/CVBR one pass (2-pass needs a stats buffer the harness does not produce), film grain, tool switches; "
        "superres, overlays and is_16bit_pipeline=1 with 8-bit input only in their dedicated recorded-finding cases",
        "sizes up to 256x144 in the quick tier, up to 1280x720 in the thorough tier; lengths 1..40 pictures",
        "packet pts = display position (pts_base 0, step 1)"]

    # ---- verdict
    for fam, hits in known_hit.items():
        c, kind, text = hits[0]
        chk.violation(replay_text(c, "C01 violated on a real encode (%s): %s\nfamily: %s (%d case(s) in this run)" % (kind, text, fam, len(hits))),
                      tag=fam, key="C01-" + fam)
    if unknown:
        c, kind, text = unknown[0]
        others = "\n".join("also: [%s] %s :: %s" % (k, t, M.describe(x["args"])) for x, k, t in unknown[1:12])
        tail = (c["r"]["stderr"] or "")[-600:]
        chk.violation(replay_text(c, "C01 violated on a real encode (%s): %s\nfailing cases in this run: %d" % (kind, text, len(unknown)),
                                  others + "\nstderr tail: " + tail))
    if proto_bad:
        c, bad = proto_bad[0]
        chk.violation(replay_text(c, "frame-level protocol violated by a real stream (Lean header parser + Lean DPB machine vs real decoder / pts):\n"
                                  + "\n".join(bad[:10]) + "\nstreams affected: %d" % len(proto_bad)), tag="protocol")
    if not unknown and not proto_bad:
        if model_err:
            chk.violation("svtmodel obu/dpb failed on real packets: %s\nevery decoded picture still equals the reconstruction (%d pictures)\n" % (model_err, n_cmp),
                          tag="model", found_input=False)
        if not pr.ok:
            chk.violation("proof obligations do not check:\n%s\nforbidden tokens: %s\nno real encode violates the property (%d pictures compared)\n" %
                          ("\n".join("%s: %s" % kv_ for kv_ in pr.failed.items()), pr.forbidden, n_cmp), tag="proof", found_input=False)
        if n_cmp == 0:
            chk.violation("no picture could be compared (no usable encode)\n", tag="enc", found_input=False)


def replay(chk, path):
    c = M.parse_replay(path)
    if c is None:
        chk.violation("replay file has no `encode:` line: %s\n" % path, tag="replay", found_input=False)
        return
    c["args"].update(hex=1, recon=1, decode=1)
    run(chk, only_case=c)
