/- `svtmodel lifecycle` — evaluates the generated constructor / destructor tables (C15, C16).

   input lines                      output lines
   table                            one `class ...` line per generated class, then `kernels ...`, `end`
   construct <class> <k> [depth]    straight-line construction of <class> with the (k-1)-th primitive failing
                                    (k = 0: no fault): `construct <class> <k> ok= fired= crashed= heap= sites=
                                    destroy_heap= destroy_crashed=`
-/
import SvtVerif.Model.Unwind
import SvtVerif.Gen.Lifecycle
import Driver.Util

namespace Driver
open Unwind

private def b (x : Bool) : String := if x then "1" else "0"

def lifecycleTable : IO Unit := do
  let T := Lifecycle.table
  let good := goodClasses T
  let rep := reportingClasses T
  for c in List.range T.length do
    let cd := T.cls c
    let s := straight T 4 c
    let sites := (construct T noFail c s).st.cnt
    let w := match findWitness T 4 c with
      | some k => toString k
      | none => "none"
    IO.println s!"class {c} {cd.name} dctorFirst={b cd.dctorFirst} covered={b cd.covered} nullTol={b cd.nullTol} swallow={cd.swallow} hasDctor={b cd.hasDctor} inGoodSet={b (good.contains c)} inReportSet={b (rep.contains c)} events={cd.pre.length + cd.post.length} rels={cd.rels.length} sites={sites} witness={w}"
  let ke := (Lifecycle.kernels.filter (fun k => k.getEmpty > 0)).length
  IO.println s!"kernels n={Lifecycle.kernels.length} getFullFirst={(Lifecycle.kernels.filter (·.getFullFirst)).length} inShutdownList={(Lifecycle.kernels.filter (fun k => Lifecycle.shutdownList.contains k.input)).length} withGetEmpty={ke} shutdownList={Lifecycle.shutdownList.length}"
  IO.println "end"

def lifecycleConstruct (c k depth : Nat) : IO Unit := do
  let T := Lifecycle.table
  let s := straight T depth c
  let fail := if k = 0 then noFail else failAt (k - 1)
  let r := construct T fail c s
  let d := destroy T r
  IO.println s!"construct {c} {k} ok={b r.ok} fired={b r.st.fired} crashed={b r.st.crashed} heap={r.st.heap.length} sites={r.st.cnt} destroy_heap={d.heap.length} destroy_crashed={b d.crashed}"

def lifecycleMain : IO Unit := forLines fun line => do
  match words line with
  | ["table"] => lifecycleTable
  | ["construct", c, k] =>
    match c.toNat?, k.toNat? with
    | some c, some k => lifecycleConstruct c k 4
    | _, _ => IO.println "error bad-args"
  | ["construct", c, k, d] =>
    match c.toNat?, k.toNat?, d.toNat? with
    | some c, some k, some d => lifecycleConstruct c k d
    | _, _, _ => IO.println "error bad-args"
  | [] => pure ()
  | _ => IO.println "error unknown-op"

end Driver
