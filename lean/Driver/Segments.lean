import SvtVerif.Model.Segments
import Driver.Util
/- `svtmodel seg`: line protocol shared with harness/seginit.c

   init W H C R MC MR V          -> all arrays of enc_dec_segments_init + the SB loop of every segment
   replay W H C R MC MR V : ops  -> run assignStep over the op list (T<k> F<s> R<s> B<s>), print chain hash + final state
   wf W H C R MC MR              -> model only: the executable structural check (safety part / with liveness clause)
   V = 0: arrays as 64-bit FNV-style digests, V = 1: arrays in full                                         -/
namespace Driver
open Seg

def hmix (h : UInt64) (v : Nat) : UInt64 := (h ^^^ v.toUInt64) * 1099511628211
def h0 : UInt64 := 1469598103934665603
def hashList (l : List Nat) : UInt64 := l.foldl hmix h0

def showArr (v : Nat) (l : List Nat) : String :=
  if v = 0 then s!"#{(hashList l).toNat}" else "[" ++ " ".intercalate (l.map toString) ++ "]"

def rowsFlat (g : SegCtl) : List Nat := g.rows.toList.flatMap fun r => [r.starting, r.ending, r.current]

def loopFlat (g : SegCtl) (W : Nat) : List Nat × Nat :=
  let rs := (List.range g.segTtlCount).map fun s => (s, segSbs g W s)
  (rs.flatMap (fun r => [4294967295, r.1] ++ r.2.1.flatMap (fun p => [p.1, p.2])),
   rs.foldl (fun n r => n + (if r.2.2 then 1 else 0)) 0)

def segInitLine (W H C R MC MR V : Nat) : String :=
  let g := initSeg W H C R MC MR
  let (lf, run) := loopFlat g W
  s!"init {W} {H} {C} {R} {MC} {MR} : rows={g.segRowCount} bands={g.segBandCount} ttl={g.segTtlCount} " ++
  s!"sbrows={g.sbRowCount} sbbands={g.sbBandCount} maxtotal={g.maxTotalCount} | valid={showArr V g.validSb.toList} " ++
  s!"xs={showArr V g.xStart.toList} ys={showArr V g.yStart.toList} rows={showArr V (rowsFlat g)} " ++
  s!"dep={showArr V g.dep.toList} | loop={showArr V lf} runaway={run}"

def taskNat : Task → Nat
  | .mdc => 65535
  | .fb r => r

def parseOp (s : String) : Option Op :=
  match s.toList with
  | c :: rest =>
    match (String.ofList rest).toNat? with
    | some n => if c = 'T' then some (.take n) else if c = 'F' then some (.fin n)
                else if c = 'R' then some (.right n) else if c = 'B' then some (.bottom n) else none
    | none => none
  | [] => none

/-- per-step digest: the whole `cur` array, the pool, `err`, and the `dep`/`ph` cells the op can touch -/
def stepDigest (g : SegCtl) (st : ASt) (op : Op) (h : UInt64) : UInt64 :=
  let s := match op with | .take _ => 0 | .fin s => s | .right s => s | .bottom s => s
  let B := g.segBandCount
  let h := st.cur.toList.foldl hmix h
  let h := (st.pool.map taskNat).foldl hmix (hmix h 77)
  let h := hmix h st.err
  [aget st.dep (s + 1), aget st.dep (s + B), aget st.ph s, aget st.ph (s + 1), aget st.ph (s + B)].foldl hmix h

def replayOps (g : SegCtl) : List String → ASt → UInt64 → Nat → (ASt × UInt64 × Nat × String)
  | [], st, h, n => (st, h, n, "ok")
  | w :: ws, st, h, n =>
    match parseOp w with
    | none => (st, h, n, s!"bad-op:{w}")
    | some op =>
      match assignStep g st op with
      | none => (st, h, n, s!"disabled:{w}")
      | some st' => replayOps g ws st' (stepDigest g st' op h) (n + 1)

def segReplayLine (W H C R MC MR V : Nat) (ops : List String) : String :=
  let g := initSeg W H C R MC MR
  let (st, h, n, status) := replayOps g ops (initASt g) h0 0
  let quiescent := (enabledOps g st).isEmpty
  s!"run {W} {H} {C} {R} {MC} {MR} : nops={n} status={status} chain={h.toNat} err={st.err} quiescent={quiescent} | " ++
  s!"dep={showArr V st.dep.toList} cur={showArr V st.cur.toList} pool={showArr 1 (st.pool.map taskNat)} ph={showArr V st.ph.toList}"

def segMain : IO Unit := forLines fun line =>
  let ws := words line
  match ws with
  | "init" :: rest =>
    match ints rest with
    | some [w, h, c, r, mc, mr, v] =>
      IO.println (segInitLine w.toNat h.toNat c.toNat r.toNat mc.toNat mr.toNat v.toNat)
    | _ => IO.println "bad-op"
  | "wf" :: rest =>
    match ints rest with
    | some [w, h, c, r, mc, mr] =>
      let g := initSeg w.toNat h.toNat c.toNat r.toNat mc.toNat mr.toNat
      IO.println s!"wf {w} {h} {c} {r} {mc} {mr} : rows={g.segRowCount} safe={wfCheck g false} live={wfCheck g true}"
    | _ => IO.println "bad-op"
  | "replay" :: rest =>
    let pre := rest.takeWhile (· ≠ ":")
    let ops := (rest.dropWhile (· ≠ ":")).drop 1
    match ints pre with
    | some [w, h, c, r, mc, mr, v] =>
      IO.println (segReplayLine w.toNat h.toNat c.toNat r.toNat mc.toNat mr.toNat v.toNat ops)
    | _ => IO.println "bad-op"
  | _ => IO.println "bad-op"

end Driver
