import SvtVerif.Gen.Dispatch
import Driver.Util
/- `svtmodel dispatch`: one operation per line
     ALL <req> <hw>      every pointer of the build's table resolved under `maskApplied toUseMask hw req`:
                         one line `P <ptr> <fn|NULL>` per pointer, then `END <effective flags>`
     ALL512 <req> <hw>   the same for the EN_AVX512_SUPPORT=1 table (mask toUseMask512)
     SEL <flags> <ptr>   `S <fn|NULL|?>` (no masking)
     ISA <name>          `I <bit|none>`  (Dispatch.nameIsa)
     TABLE / TABLE512    `E <ptr> <c|NULL> <line> <bit>:<fn> ...` per entry (round trip of the generated table)
     MASK                `M <toUseMask> <toUseMask512> <commonMasked> <encMasked> <all mask sites recognised>` -/
namespace Driver
open _root_.Dispatch Gen.Dispatch

def fnOrNull : Option FnName → String
  | some n => n.toString
  | none => "NULL"

def printAll (tbl : List Entry) (toUse req hw : Nat) : IO Unit := do
  let f := maskApplied toUse hw req
  for e in tbl do
    IO.println s!"P {e.ptr.toString} {fnOrNull (select f e)}"
  IO.println s!"END {f}"

def printTable (tbl : List Entry) : IO Unit := do
  for e in tbl do
    let slots := " ".intercalate (e.slots.map fun s => s!"{s.1}:{s.2.toString}")
    IO.println s!"E {e.ptr.toString} {fnOrNull e.c} {e.line} {slots}"

def dispatchMain : IO Unit := forLines fun line =>
  match words line with
  | ["ALL", r, h] =>
    match r.toNat?, h.toNat? with
    | some r, some h => printAll (common ++ enc) toUseMask r h
    | _, _ => IO.println "bad-op"
  | ["ALL512", r, h] =>
    match r.toNat?, h.toNat? with
    | some r, some h => printAll (common512 ++ enc512) toUseMask512 r h
    | _, _ => IO.println "bad-op"
  | ["SEL", f, p] =>
    match f.toNat? with
    | some f =>
      match find? (common ++ enc) (FnName.ofString p) with
      | some e => IO.println s!"S {fnOrNull (select f e)}"
      | none => IO.println "S ?"
    | none => IO.println "bad-op"
  | ["ISA", n] =>
    match nameIsa (FnName.ofString n) with
    | some i => IO.println s!"I {i}"
    | none => IO.println "I none"
  | ["TABLE"] => printTable (common ++ enc)
  | ["TABLE512"] => printTable (common512 ++ enc512)
  | ["MASK"] => IO.println s!"M {toUseMask} {toUseMask512} {commonMasked} {encMasked} {maskSites.all (·.2)}"
  | _ => IO.println "bad-op"

end Driver
