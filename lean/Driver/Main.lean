import Driver.RelDist
import Driver.Config
import Driver.Reorder
import Driver.Packetize
import Driver.QpTail
import Driver.IntraPeriod
import Driver.Dpb
import Driver.RangeCoder
import Driver.Srm
import Driver.Segments
import Driver.Obu
import Driver.CopyIn
import Driver.Sse
import Driver.ApiProto
import Driver.ObuWalk
import Driver.DecWavefront
import Driver.Lifecycle
import Driver.Dispatch
import Driver.Simd
import Driver.BufCfg
import Driver.ToolGate
import Driver.C11

def main (args : List String) : IO UInt32 := do
  match args with
  | ["reldist"] => Driver.relDistMain; return 0
  | ["config"] => Driver.configMain; return 0
  | ["reorder"] => Driver.reorderMain; return 0
  | ["packetize"] => Driver.packetizeMain; return 0
  | ["qptail"] => Driver.qpTailMain; return 0
  | ["intraperiod"] => Driver.intraPeriodMain; return 0
  | ["dpb"] => Driver.dpbMain; return 0
  | ["ec"] => Driver.ecMain; return 0
  | ["srm"] => Driver.srmMain; return 0
  | ["seg"] => Driver.segMain; return 0
  | ["obu"] => Driver.obuMain; return 0
  | ["copyin"] => Driver.copyInMain; return 0
  | ["sse"] => Driver.sseMain; return 0
  | ["apiproto"] => Driver.apiProtoMain; return 0
  | ["obuwalk"] => Driver.obuWalkMain; return 0
  | ["decwf"] => Driver.decwfMain; return 0
  | ["lifecycle"] => Driver.lifecycleMain; return 0
  | ["dispatch"] => Driver.dispatchMain; return 0
  | ["simd"] => Driver.simdMain; return 0
  | ["bufcfg"] => Driver.bufCfgMain; return 0
  | ["toolgate"] => Driver.toolGateMain; return 0
  | ["c11"] => Driver.c11Main; return 0
  | _ => IO.eprintln "usage: svtmodel <subcommand>  (input on stdin, one op per line)"; return 2
