import Driver.RelDist

def main (args : List String) : IO UInt32 := do
  match args with
  | ["reldist"] => Driver.relDistMain; return 0
  | _ => IO.eprintln "usage: svtmodel <subcommand>  (input on stdin, one op per line)"; return 2
