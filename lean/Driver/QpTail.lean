import SvtVerif.Model.QpTail
import Driver.Util
/- `svtmodel qptail`: one operation per line, all numbers decimal ints.
   * `rcMode fixedOffsets qpScaling onTheFly twoPass minQp maxQp qp picQp parentPicQp intraOnly layerOffset keyOffset
      chromaLayerOffset keyChromaOffset newQindex rcPicQp`     (17 ints = `QpTail.RcIn` in field order; an optional
      leading `T` is accepted)            -> `branch base_q_idx picture_qp chroma_set chroma_delta`  (= `QpTail.RcOut`)
   * `R minQp maxQp q`                    -> `base_q_idx picture_qp`                     (`QpTail.recodeClamp`)
   * `E rcMode minQp maxQp fixedOffsets useQpFile` -> `minQp maxQp qpScaling useQpFile`  (`QpTail.effCfg`)
   * `I useQpFile inputQp qp`             -> `qp_on_the_fly picture_qp`                  (`QpTail.initPicQp`)
   * `Q i`                                -> `quantizer_to_qindex[i]` (0 when out of range)
   anything else -> `bad-op`. -/
namespace Driver
open QpTail

def qpTailLine (ws : List String) : String :=
  let tail (xs : List Int) : String :=
    match xs with
    | [a, b, c, d, e, f, g, h, i, j, k, l, m, n, o, p, q] =>
      let r := rcTail { rcMode := a, fixedOffsets := b, qpScaling := c, onTheFly := d, twoPass := e, minQp := f, maxQp := g,
                        qp := h, picQp := i, parentPicQp := j, intraOnly := k, layerOffset := l, keyOffset := m,
                        chromaLayerOffset := n, keyChromaOffset := o, newQindex := p, rcPicQp := q }
      s!"{r.branch} {r.baseQIdx} {r.pictureQp} {if r.chromaSet then 1 else 0} {r.chromaDelta}"
    | _ => "bad-op"
  match ws with
  | "T" :: rest => match ints rest with | some xs => tail xs | none => "bad-op"
  | "R" :: rest =>
    match ints rest with
    | some [mn, mx, q] => let r := recodeClamp mn mx q; s!"{r.1} {r.2}"
    | _ => "bad-op"
  | "E" :: rest =>
    match ints rest with
    | some [rc, mn, mx, fx, uq] =>
      let r := effCfg { rcMode := rc, minQp := mn, maxQp := mx, fixedOffsets := fx, useQpFile := uq }
      s!"{r.minQp} {r.maxQp} {r.qpScaling} {r.useQpFile}"
    | _ => "bad-op"
  | "I" :: rest =>
    match ints rest with
    | some [uq, iq, qp] => let r := initPicQp uq iq qp; s!"{r.1} {r.2}"
    | _ => "bad-op"
  | "Q" :: rest =>
    match ints rest with
    | some [i] => s!"{q2q i}"
    | _ => "bad-op"
  | _ => match ints ws with | some xs => tail xs | none => "bad-op"

def qpTailMain : IO Unit := forLines fun line => IO.println (qpTailLine (words line))

end Driver
