import SvtVerif.Model.Av1Header
import SvtVerif.Model.Tu
import SvtVerif.Gen.ObuSites
import Driver.Util
/- `svtmodel obu`: stateful OBU / sequence header / frame header parser over a stream of packets.

   Input lines
     RESET [anything]            new stream: forget decoder state, sequence headers, API header
     HDR <hex>                   bytes returned by svt_av1_enc_stream_header
     PKT <index> <hex>           one encoder output packet
     GM <allow_hp> <hasprev> [42 ints: PrevGmParams[1..7][0..5]] <hex>
                                 global_motion_params() of an inter frame on the given bits (parser unit test against
                                 the real read_global_motion_params) -> GM types=.. params=.. bits=..
     SITE <k> <hdrhex> <payloadhex>   `ObuSite.layoutSite` of the k-th generated framing site (Gen/ObuSites.lean) on the given
                                 header / payload bytes (`-` = empty) -> SITE k=.. name=.. consistent=.. len=.. hex=..
     SITES                       -> one `SITEINFO k=.. name=.. types=.. moving=.. consistent=..` line per generated site
   Output lines
     HDR ok=.. err=.. nobu=.. types=..            (one per HDR line) followed by SEQ lines with pkt=-1
     pkt=<i> ok=.. err=.. nobu=.. types=.. td_first=.. seqhdr=.. seqhdr_same_as_first=.. seqhdr_same_as_api=..
         shown=.. frames=.. tu=.. sizes=..        (one per PKT line; sizes = OBU payload sizes, in order)
     SEQ pkt=<i> ...                              one per sequence header OBU in the packet, in order
     FRM pkt=<i> k=<j> ...                        one per frame header (OBU_FRAME / OBU_FRAME_HEADER), in order
-/
namespace Driver
open Obu Av1

def hexVal (c : Char) : Option Nat :=
  if '0' ≤ c ∧ c ≤ '9' then some (c.toNat - '0'.toNat)
  else if 'a' ≤ c ∧ c ≤ 'f' then some (c.toNat - 'a'.toNat + 10)
  else if 'A' ≤ c ∧ c ≤ 'F' then some (c.toNat - 'A'.toNat + 10)
  else none

def parseHexBytesGo : List Char → List UInt8 → Option (List UInt8)
  | [], acc => some acc.reverse
  | [_], _ => none
  | a :: b :: rest, acc =>
    match hexVal a, hexVal b with
    | some x, some y => parseHexBytesGo rest ((16 * x + y).toUInt8 :: acc)
    | _, _ => none

def parseHexBytes (s : String) : Option (List UInt8) := parseHexBytesGo s.toList []

def commaList {α : Type} [ToString α] (xs : List α) : String := ",".intercalate (xs.map toString)

structure ObuState where
  dec : DecState := {}
  seq : Option SeqHeader := none
  firstSeq : Option Obu.Obu := none
  apiSeq : Option Obu.Obu := none
deriving Inhabited

def seqLine (pkt : Int) (s : SeqHeader) : String :=
  s!"SEQ pkt={pkt} profile={s.profile} w={s.maxFrameWidth} h={s.maxFrameHeight} sb128={s.use128x128} " ++
  s!"filter_intra={s.enableFilterIntra} intra_edge={s.enableIntraEdgeFilter} interintra={s.enableInterintraCompound} " ++
  s!"masked={s.enableMaskedCompound} warped={s.enableWarpedMotion} dual_filter={s.enableDualFilter} " ++
  s!"order_hint={s.enableOrderHint} jnt_comp={s.enableJntComp} ref_mvs={s.enableRefFrameMvs} " ++
  s!"sct={s.seqForceScreenContentTools} intmv={s.seqForceIntegerMv} order_hint_bits={s.orderHintBits} " ++
  s!"superres={s.enableSuperres} cdef={s.enableCdef} restoration={s.enableRestoration} bitdepth={s.bitDepth} " ++
  s!"mono={s.monoChrome} subx={s.subsamplingX} suby={s.subsamplingY} film_grain={s.filmGrainParamsPresent} " ++
  s!"still={s.stillPicture} reduced_still={s.reducedStillPictureHeader} " ++
  s!"wbits={s.frameWidthBits} hbits={s.frameHeightBits} frame_ids={s.frameIdNumbersPresent} " ++
  s!"timing={s.timingInfoPresent} decoder_model={s.decoderModelInfoPresent} op_cnt={s.operatingPoints.length} " ++
  s!"level0={(s.operatingPoints.headD {}).seqLevelIdx} tier0={(s.operatingPoints.headD {}).seqTier} " ++
  s!"color_desc={s.colorDescriptionPresent} color_range={s.colorRange} csp={s.chromaSamplePosition} " ++
  s!"sep_uv_dq={s.separateUvDeltaQ}"

def frmLine (pkt : Int) (k : Nat) (h : FrameHeader) : String :=
  let gmp := commaList (((List.range 7).map (fun r => (h.gmParams.getD (r + 1) gmDefault).toList)).flatten)
  s!"FRM pkt={pkt} k={k} show_existing={h.showExistingFrame} existing_idx={h.frameToShowMapIdx} " ++
  s!"frame_type={h.frameType} show_frame={h.showFrame} showable={h.showableFrame} error_res={h.errorResilientMode} " ++
  s!"order_hint={h.orderHint} refresh={h.refreshFrameFlags} ref_idx={commaList h.refFrameIdx} " ++
  s!"primary_ref={h.primaryRefFrame} base_q_idx={h.baseQIdx} w={h.frameWidth} h={h.frameHeight} " ++
  s!"use_superres={h.useSuperres} superres_denom={h.superresDenom} allow_sct={h.allowScreenContentTools} " ++
  s!"allow_intrabc={h.allowIntrabc} tile_cols_log2={h.tileColsLog2} tile_rows_log2={h.tileRowsLog2} " ++
  s!"tile_cols={h.tileCols} tile_rows={h.tileRows} uniform={h.uniformTileSpacing} " ++
  s!"lf_y0={h.lfLevel0} lf_y1={h.lfLevel1} lf_u={h.lfLevelU} lf_v={h.lfLevelV} cdef_bits={h.cdefBits} " ++
  s!"cdef_y={commaList h.cdefYStrength} cdef_uv={commaList h.cdefUvStrength} " ++
  s!"lr_y={h.lrType.getD 0 0} lr_u={h.lrType.getD 1 0} lr_v={h.lrType.getD 2 0} tx_mode_select={h.txModeSelect} " ++
  s!"ref_select={h.referenceSelect} skip_mode={h.skipModePresent} warped={h.allowWarpedMotion} " ++
  s!"switchable_motion={h.isMotionModeSwitchable} reduced_tx={h.reducedTxSet} gm={commaList h.gmType} " ++
  s!"film_grain={h.applyGrain} disable_cdf_update={h.disableCdfUpdate} seg_enabled={h.segEnabled} " ++
  s!"delta_q_present={h.deltaQPresent} " ++
  s!"upw={h.upscaledWidth} rw={h.renderWidth} rh={h.renderHeight} force_imv={h.forceIntegerMv} " ++
  s!"hp_mv={h.allowHighPrecisionMv} interp={h.interpolationFilter} ref_mvs={h.useRefFrameMvs} " ++
  s!"disable_frame_end_cdf={h.disableFrameEndUpdateCdf} ctx_tile_id={h.contextUpdateTileId} " ++
  s!"tile_size_bytes={h.tileSizeBytes} dq_ydc={h.deltaQYDc} dq_udc={h.deltaQUDc} dq_uac={h.deltaQUAc} " ++
  s!"dq_vdc={h.deltaQVDc} dq_vac={h.deltaQVAc} qm={h.usingQmatrix} qm_y={h.qmY} qm_u={h.qmU} qm_v={h.qmV} " ++
  s!"seg_update_map={h.segUpdateMap} seg_temporal={h.segTemporalUpdate} seg_update_data={h.segUpdateData} " ++
  s!"delta_q_res={h.deltaQRes} delta_lf_present={h.deltaLfPresent} delta_lf_res={h.deltaLfRes} " ++
  s!"delta_lf_multi={h.deltaLfMulti} coded_lossless={h.codedLossless} lf_sharp={h.lfSharpness} " ++
  s!"lf_delta_en={h.lfDeltaEnabled} lf_delta_upd={h.lfDeltaUpdate} cdef_damping={h.cdefDamping} " ++
  s!"lr_shift={h.lrUnitShift} lr_uv_shift={h.lrUvShift} skip_allowed={h.skipModeAllowed} " ++
  s!"fg_update={h.grainUpdateParameters} gmp={gmp} hdr_bits={h.headerBits}"

structure PktAcc where
  st : ObuState
  lines : List String := []      -- SEQ / FRM lines, reversed
  err : Option String := none
  frames : Nat := 0
  shown : Nat := 0
  seqCount : Nat := 0
  sameFirst : Bool := true
  sameApi : Bool := true

def noSpaces (s : String) : String := String.ofList (s.toList.map (fun c => if c = ' ' then '_' else c))

def PktAcc.fail (a : PktAcc) (msg : String) : PktAcc :=
  match a.err with
  | none => { a with err := some msg }
  | some _ => a

/-- Process one OBU of a packet (`pkt = -1` for the API stream header). -/
def stepObu (pkt : Int) (isApi : Bool) (a : PktAcc) (o : Obu.Obu) : PktAcc :=
  if o.obuType = OBU_SEQUENCE_HEADER then
    match parseSeqHeaderObu o with
    | .error e => a.fail s!"seqhdr:{e}"
    | .ok s =>
      let st := a.st
      let sameFirst := match st.firstSeq with | some f => decide (f = o) | none => true
      let sameApi := match st.apiSeq with | some f => decide (f = o) | none => isApi
      let st := { st with seq := some s,
                          firstSeq := if isApi then st.firstSeq else (match st.firstSeq with | some f => some f | none => some o),
                          apiSeq := if isApi then some o else st.apiSeq }
      { a with st := st, lines := seqLine pkt s :: a.lines, seqCount := a.seqCount + 1,
               sameFirst := a.sameFirst && sameFirst, sameApi := a.sameApi && sameApi }
  else if o.obuType = OBU_FRAME ∨ o.obuType = OBU_FRAME_HEADER then
    match a.st.seq with
    | none => a.fail "frame-before-sequence-header"
    | some s =>
      if a.err.isSome then { a with frames := a.frames + 1 } else
      match parseFrameHeaderObu a.st.dec s o with
      | .error e => { (a.fail s!"frmhdr:{e}") with frames := a.frames + 1 }
      | .ok (h, dec') =>
        { a with st := { a.st with dec := dec' }, lines := frmLine pkt a.frames h :: a.lines,
                 frames := a.frames + 1, shown := a.shown + (if h.showFrame = 1 then 1 else 0) }
  else a

def processObus (pkt : Int) (isApi : Bool) (st : ObuState) (bytes : List UInt8) :
    PktAcc × Nat × List Nat × Bool × List Nat :=
  match parseObus bytes with
  | .error e => ({ st := st, err := some s!"obu:{e}" }, 0, [], false, [])
  | .ok os =>
    let a := os.foldl (stepObu pkt isApi) { st := st }
    (a, os.length, os.map (·.obuType), Tu.isTemporalUnit os, os.map (·.payload.length))

def obuHexDigit (n : Nat) : Char := if n < 10 then Char.ofNat (48 + n) else Char.ofNat (87 + n)

def obuToHex (bs : List UInt8) : String :=
  String.ofList (bs.foldl (fun acc b => obuHexDigit (b.toNat % 16) :: obuHexDigit (b.toNat / 16) :: acc) []).reverse

/-- `SITE <k> <hdrhex> <payloadhex>`. -/
def siteOp (ws : List String) : String :=
  match ws with
  | [kS, hdrS, payS] =>
    let k := kS.toNat?.getD 0
    let dec := fun (s : String) => if s = "-" then some [] else parseHexBytes s
    match Gen.ObuSites.sites[k]?, dec hdrS, dec payS with
    | some s, some hdr, some pay =>
      let out := ObuSite.layoutSite s hdr pay
      s!"SITE k={k} name={s.name} consistent={if s.consistent then 1 else 0} len={out.length} hex={obuToHex out}"
    | _, _, _ => "SITE bad-op"
  | _ => "SITE bad-op"

/-- `GM <allow_hp> <hasprev> [42 ints] <hex>`: global_motion_params() of an inter frame on the given bits. -/
def gmOp (ws : List String) : String :=
  match ws with
  | hpS :: hasPrevS :: rest =>
    let hp := hpS.toNat?.getD 0
    let hasPrev := hasPrevS.toNat?.getD 0
    let nInts := if hasPrev = 1 then 42 else 0
    let ints := (rest.take nInts).map (fun s => s.toInt?.getD 0)
    match rest.drop nInts with
    | [hex] =>
      match parseHexBytes hex with
      | none => "GM bad-hex"
      | some bytes =>
        let prev : Array (Array Int) :=
          if hasPrev = 1 then
            (Array.replicate 1 gmDefault) ++ ((List.range 7).map (fun r => ((ints.drop (6 * r)).take 6).toArray)).toArray
          else Array.replicate 8 gmDefault
        let h : FrameHeader := { frameType := INTER_FRAME, allowHighPrecisionMv := hp }
        let p : P (FrameHeader × Nat) := do
          let h' ← parseGlobalMotionParams prev h
          let pos ← bitPos
          return (h', pos)
        match p { data := (bytes ++ List.replicate 8 0).toArray, pos := 0 } with
        | .error e => s!"GM err={e}"
        | .ok ((h', pos), _) =>
          let params := commaList (((List.range 7).map (fun r => (h'.gmParams.getD (r + 1) gmDefault).toList)).flatten)
          s!"GM types={commaList h'.gmType} params={params} bits={pos}"
    | _ => "GM bad-op"
  | _ => "GM bad-op"

def handleLine (st : ObuState) (line : String) : IO ObuState := do
  match words line with
  | "RESET" :: _ =>
    IO.println "reset"
    return {}
  | ["HDR", hex] =>
    match parseHexBytes hex with
    | none => IO.println "HDR ok=0 err=bad-hex nobu=0 types="; return st
    | some bytes =>
      let (a, n, types, _, _) := processObus (-1) true st bytes
      let err := match a.err with | some e => noSpaces e | none => "-"
      IO.println s!"HDR ok={if a.err.isNone then 1 else 0} err={err} nobu={n} types={commaList types} seqhdr={a.seqCount}"
      for l in a.lines.reverse do IO.println l
      return a.st
  | ["PKT", idx, hex] =>
    let i : Int := idx.toInt?.getD 0
    match parseHexBytes hex with
    | none => IO.println s!"pkt={i} ok=0 err=bad-hex nobu=0 types= td_first=0 seqhdr=0 seqhdr_same_as_first=0 seqhdr_same_as_api=0 shown=0 frames=0"; return st
    | some bytes =>
      let (a, n, types, tu, sizes) := processObus i false st bytes
      let err := match a.err with | some e => noSpaces e | none => "-"
      let tdFirst := match types with | t :: _ => t == OBU_TEMPORAL_DELIMITER | [] => false
      let b := fun (x : Bool) => if x then 1 else 0
      IO.println (s!"pkt={i} ok={b a.err.isNone} err={err} nobu={n} types={commaList types} td_first={b tdFirst} " ++
        s!"seqhdr={b (a.seqCount > 0)} seqhdr_same_as_first={b (a.seqCount > 0 && a.sameFirst)} " ++
        s!"seqhdr_same_as_api={b (a.seqCount > 0 && a.sameApi)} shown={a.shown} frames={a.frames} " ++
        s!"nseq={a.seqCount} bytes={bytes.length} tu={b tu} sizes={commaList sizes}")
      for l in a.lines.reverse do IO.println l
      return a.st
  | "GM" :: ws => IO.println (gmOp ws); return st
  | "SITE" :: ws => IO.println (siteOp ws); return st
  | ["SITES"] =>
    let b := fun (x : Bool) => if x then 1 else 0
    for (k, s) in (List.range Gen.ObuSites.sites.length).zip Gen.ObuSites.sites do
      IO.println s!"SITEINFO k={k} name={s.name} types={commaList s.obuTypes} moving={b s.reserved.isSome} consistent={b s.consistent}"
    return st
  | _ => IO.println "bad-op"; return st

def obuMain : IO Unit := do
  let h ← IO.getStdin
  let _ ← foldLines h ({} : ObuState) handleLine
  return ()

end Driver
