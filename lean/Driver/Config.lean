import SvtVerif.Gen.Config
import SvtVerif.Spec.ConfigDomain
import Driver.Util
/- `svtmodel config`
   CASE <dirty byte> name=value name[i]=value ...   -> accept=<0|1> op=<0|1> oob=<0|1> spec=<0|1> fired=<comma list of check indices>
       (accept: generated normal form; op: generated operational composition; spec: hand-written CodeDomain)
       the configuration is `initParam (fillByte dirty)` with the listed overrides, the prior SCS state is the zero state;
       members of `pred_struct[i]` are written `pred_struct_<member>[i]`, list members `pred_struct_ref_listX[i*4+j]`
   DUMP <dirty byte>                                -> one `name value` line per member of `initParam (fillByte dirty)`, then END -/
namespace Driver
open Gen.Config

def parseAssign (tok : String) : Option (String × Nat × Int) :=
  match tok.splitOn "=" with
  | [lhs, rhs] =>
    match rhs.toInt? with
    | none => none
    | some v =>
      match lhs.splitOn "[" with
      | [name] => some (name, 0, v)
      | [name, rest] => match (rest.dropEnd 1).toString.toNat? with
        | some i => some (name, i, v)
        | none => none
      | _ => none
  | _ => none

def configMain : IO Unit := forLines fun line =>
  match words line with
  | "CASE" :: d :: toks =>
    match d.toInt? with
    | none => IO.println "bad-op"
    | some dv =>
      let base := initParam (Cfg.fillByte dv)
      let r := toks.foldl (fun (acc : Option Cfg) t => acc.bind fun c =>
        (parseAssign t).bind fun (n, i, v) => c.setField n i v) (some base)
      match r with
      | none => IO.println "bad-op"
      | some c =>
        let s0 : Scs := {}
        if setParameterOob s0 c then
          -- the C copy loops would run outside the member arrays: behaviour undefined, nothing to compare
          IO.println "accept=- op=- oob=1 spec=- fired="
        else
          let fired := (List.range rejectChecks.length).filter fun i => (rejectChecks.getD i ("", fun _ _ => false)).2 s0 c
          let acc := setParameterAccepts s0 c
          let op := setParameterAcceptsOperational s0 c
          let sp := Spec.ConfigDomain.codeDomainB s0 c
          IO.println s!"accept={if acc then 1 else 0} op={if op then 1 else 0} oob=0 spec={if sp then 1 else 0} fired={",".intercalate (fired.map toString)}"
  | ["DUMP", d] =>
    match d.toInt? with
    | none => IO.println "bad-op"
    | some dv => do
      for (n, v) in (initParam (Cfg.fillByte dv)).dump do
        IO.println s!"{n} {v}"
      IO.println "END"
  | _ => IO.println "bad-op"

end Driver
