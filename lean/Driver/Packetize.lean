import SvtVerif.Model.Packetize
import Driver.Util
import Driver.MiniGop
/- `svtmodel packetize`: one stream per input line (a line starting with `MG` is a pre-assignment-buffer stream and is handled by
   Driver/MiniGop.lean, so that the C03 check needs no subcommand of its own)

     D term n  d_0 disp_0 pts_0 shown_0 hse_0 alt_0 priv_0 meta_0   d_1 disp_1 …   (n groups of 8 integers)

   D     queue depth (real code: PACKETIZATION_REORDER_QUEUE_MAX_DEPTH = 2048)
   term  terminating_picture_number (a decode_order) or -1 when the EOS picture never went through picture decision
   n     number of frames reaching packetization_kernel, listed in ARRIVAL order, each with
         d = decode_order, disp = picture_number, pts, shown = show_frame, hse = has_show_existing,
         alt = is_alt_ref, priv = application pointer (0 = NULL), meta = out_meta_data (0 = NULL)

   output, one line:

     <clobbered 0|1> <stuck> <stack_left> <validN> <maxHiddenRun> <npackets>  then per packet 8 integers
     pts dts eos showExt hasTd altFlag priv frames

   stuck       = queue entries still occupied at the end (frames never released)
   stack_left  = undisplayed frames never popped
   validN      = N if `validGop (frames sorted by decode order) N` holds, else -1
   maxHiddenRun= longest run of consecutive non-shown frames in decode order (the `T` of C03.packetize_spec)
   frames      = number of coded frames in the packet (0 for a show-existing packet)
   Malformed line -> `bad-op`. -/
namespace Driver
open Packetize

private def b2i (b : Bool) : String := if b then "1" else "0"

private def parseFrames : Nat → List Int → Option (List (Nat × Frame))
  | 0, [] => some []
  | n + 1, d :: disp :: pts :: sh :: hse :: alt :: priv :: me :: rest =>
    if d < 0 ∨ disp < 0 ∨ priv < 0 ∨ me < 0 then none else
    match parseFrames n rest with
    | some fs => some ((d.toNat, { disp := disp.toNat, pts := pts, shown := sh != 0, hse := hse != 0,
                                   alt := alt != 0, priv := priv.toNat, outMeta := me.toNat }) :: fs)
    | none => none
  | _, _ => none

private def maxRun : Nat → Nat → List Frame → Nat
  | _, best, [] => best
  | cur, best, f :: fs => if f.shown then maxRun 0 best fs else maxRun (cur + 1) (max best (cur + 1)) fs

private def validN (fs : List Frame) : Int :=
  match fs.foldl gopStep (some (0, [])) with
  | some (n, []) => if lastShown fs then n else -1
  | _ => -1

def packetizeMain : IO Unit := forLines fun line =>
  if (words line).head? == some "MG" then miniGopLine line else
  match ints (words line) with
  | some (d :: term :: n :: rest) =>
    if d ≤ 0 ∨ n < 0 then IO.println "bad-op" else
    match parseFrames n.toNat rest with
    | none => IO.println "bad-op"
    | some arr =>
      let t : Option Nat := if term < 0 then none else some term.toNat
      let q := runQ d.toNat t arr
      -- frames in decode order (for the specification-side outputs)
      let tab : Array (Option Frame) := arr.foldl (fun a x => if x.1 < a.size then a.set! x.1 (some x.2) else a)
        (Array.replicate arr.length none)
      let sorted := tab.toList.filterMap id
      let v : Int := if sorted.length = arr.length then validN sorted else -1
      let stuck := (q.slots.filter Option.isSome).length
      let pk := packets q
      let head := [b2i q.clobbered, toString stuck, toString q.out.stack.length, toString v,
                   toString (maxRun 0 0 sorted), toString pk.length]
      let body := pk.flatMap fun p => [toString p.pts, toString p.dts, b2i p.eos, b2i p.showExt, b2i p.hasTd,
                                      b2i p.altFlag, toString p.priv, toString p.frames]
      IO.println (String.intercalate " " (head ++ body))
  | _ => IO.println "bad-op"

end Driver
