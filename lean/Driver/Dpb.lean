import SvtVerif.Model.Dpb
import Driver.Util
/- `svtmodel dpb`: stateful, one operation per line.
   * `RESET`   new stream: all 8 slots empty (printed `-1`), frame counter := 0           -> `ok`
   * `F frame_type show_frame showable_frame show_existing_frame existing_idx refresh_frame_flags ref_idx0 … ref_idx6`
       frame_type 0 KEY / 1 INTER / 2 INTRA_ONLY / 3 SWITCH; `existing_idx` and `ref_idx*` in 0..7 (ignored when unused);
       the frame's payload is its running index (0,1,2,… since RESET; show-existing headers count too)
       -> `out s0 s1 … s7 r0 … r6`
       out = index of the frame that is output by this step, or `-`;  s0..s7 = frame index held by each slot AFTER the step
       (`-1` = never written);  r0..r6 = frame indices this frame reads (`refsOf`: the slots `ref_idx0..6` BEFORE the step
       for INTER/SWITCH frames; `-` for KEY/INTRA_ONLY frames and show-existing headers)
   anything else -> `bad-op`. -/
namespace Driver
open Dpb

def dpbInit : State Int := fun _ => { pic := -1, frameType := .inter, showable := false }

def fin8? (x : Int) : Option (Fin 8) := if h : 0 ≤ x ∧ x.toNat < 8 then some ⟨x.toNat, h.2⟩ else none

def dpbMain : IO Unit := do
  let h ← IO.getStdin
  let _ ← foldLines h ((dpbInit, 0) : State Int × Nat) fun st line => do
    match words line with
    | ["RESET"] => IO.println "ok"; return (dpbInit, 0)
    | "F" :: rest =>
      match ints rest with
      | some (ft :: sf :: sb :: se :: ei :: rf :: refs) =>
        match refs.mapM fin8?, fin8? ei with
        | some ridx, eidx =>
          if refs.length ≠ 7 ∨ ft < 0 ∨ ft > 3 ∨ rf < 0 ∨ (se != 0 ∧ eidx.isNone) then IO.println "bad-op"; return st else
          let (d, n) := st
          let f : Frame Int := { frameType := FrameType.ofCode ft.toNat, showFrame := sf != 0, showableFrame := sb != 0,
                                 showExisting := if se != 0 then eidx else none, refreshFlags := rf.toNat,
                                 refIdx := ridx, payload := (n : Int) }
          let R : Int → List Int → Int := fun p _ => p
          let r := decStep R d f
          let out := match r.2 with | some x => toString x | none => "-"
          let slots := (List.finRange 8).map fun j => toString (r.1 j).pic
          let rd : List String :=
            if f.showExisting.isSome ∨ f.frameType = .key ∨ f.frameType = .intraOnly then List.replicate 7 "-"
            else (refsOf d f).map toString
          IO.println (String.intercalate " " (out :: slots ++ rd))
          return (r.1, n + 1)
        | none, _ => IO.println "bad-op"; return st
      | _ => IO.println "bad-op"; return st
    | _ => IO.println "bad-op"; return st
  return ()

end Driver
