import SvtVerif.Model.Padding
import SvtVerif.Model.ReconSize
import SvtVerif.Model.BitBuf
import Driver.Util
/- `svtmodel c11`: one operation per line
     pad w h            -> pad lumaW lumaH padRight padBottom chromaW chromaH        (set_param_based_on_input, 4:2:0)
     recon w h bd       -> recon alloc filled1 filled2 filled3 checks(0/1)            (creator + recon_output on the padded sizes)
     bitbuf w h tiles   -> bitbuf bufSize tileBufSize                                 (EB_OUTPUTSTREAMBUFFERSIZE_MACRO on the padded sizes)
-/
namespace Driver
open Padding ReconSize BitBuf

def c11Main : IO Unit := forLines fun line =>
  match words line with
  | "pad" :: rest =>
    match ints rest with
    | some [w, h] =>
      let d := setParamPad w h 1 1
      IO.println s!"pad {d.lumaW} {d.lumaH} {d.padRight} {d.padBottom} {d.chromaW} {d.chromaH}"
    | _ => IO.println "bad-op"
  | "recon" :: rest =>
    match ints rest with
    | some [w, h, bd] =>
      let d := setParamPad w h 1 1
      let alloc := reconAlloc d.lumaW d.lumaH bd
      let incs := reconIncs d.lumaW d.lumaH d.padRight d.padBottom bd
      let f := filledAfter 0 incs
      IO.println s!"recon {alloc} {f.getD 0 0} {f.getD 1 0} {f.getD 2 0} {if checksPass alloc 0 incs then 1 else 0}"
    | _ => IO.println "bad-op"
  | "bitbuf" :: rest =>
    match ints rest with
    | some [w, h, t] =>
      let d := setParamPad w h 1 1
      IO.println s!"bitbuf {bufSize d.lumaW d.lumaH} {if t > 0 then tileBufSize d.lumaW d.lumaH t else 0}"
    | _ => IO.println "bad-op"
  | _ => IO.println "bad-op"

end Driver
