import SvtVerif.Model.Sse
import Driver.Util
/- `svtmodel sse`: one operation per input line, one output line per operation (model of `psnr_calculations`).

   SSE8  w h srcOrigin srcStride recOrigin recStride <hex src> <hex rec>        2 hex digits per element
   SSEW  w h srcOrigin srcStride recOrigin recStride <hex src> <hex rec>        4 hex digits per element (same loops, wide samples)
   SSE16 w h inOrigin inStride incOrigin incStride recOrigin recStride <hex msb> <hex inc> <hex16 rec>
   CONST8 w h a b srcOrigin srcStride recOrigin recStride                       src ≡ a, rec ≡ b (no buffers on the line)
        -> `<value of the uint32 field> <value of the uint64 accumulator>`
   PSNR is16 isRef tfOn width height padRight padBottom ssx ssy inOx inOy inSy inScb inScr inSbY inSbCb inSbCr recOx recOy recSy recScb recScr
        <18 hex blobs: inY inCb inCr incY incCb incCr saveY saveCb saveCr saveIncY saveIncCb saveIncCr refY refCb refCr reconY reconCb reconCr>
        (`-` = empty blob; ref*/recon* blobs have 4 hex digits per element when is16 = 1; both candidate recon pictures share the geometry)
        -> `<luma_sse> <cb_sse> <cr_sse>`   (the whole picture-level function incl. the buffer choice)
   GEN seed <the 22 integers of PSNR> fillIn fillSave fillRef fillRecon
        generated buffers (no hex): element i of buffer k (k = position in the blob list) = fill 0: mix(seed,k,i) % range, 1: 0, 2: range-1
        (range 256; 1024 for the recon buffers when is16 = 1); same generator as harness/sse.c.  -> `<luma_sse> <cb_sse> <cr_sse>`
-/
namespace Driver.SseCmd
open Sse Driver

def hexVal (c : Char) : Nat :=
  if '0' ≤ c ∧ c ≤ '9' then c.toNat - '0'.toNat
  else if 'a' ≤ c ∧ c ≤ 'f' then c.toNat - 'a'.toNat + 10
  else if 'A' ≤ c ∧ c ≤ 'F' then c.toNat - 'A'.toNat + 10
  else 0

/-- `digits` hex digits per element, most significant first. -/
def hexToArray (s : String) (digits : Nat) : Array Nat :=
  if s == "-" then #[] else
  let (out, _, _) := s.foldl (fun (st : Array Nat × Nat × Nat) c =>
    let (out, cur, k) := st
    let cur := cur * 16 + hexVal c
    if k + 1 == digits then (out.push cur, 0, 0) else (out, cur, k + 1)) (Array.mkEmpty (s.length / digits + 1), 0, 0)
  out

def bufOf (a : Array Nat) : Buf := fun i => a.getD i 0

/-- splitmix64 finaliser over (seed, buffer id, index); identical to `mix` in harness/sse.c. -/
def mix (seed k i : UInt64) : UInt64 :=
  let z := seed ^^^ (k * 0xD6E8FEB86659FD93) ^^^ (i * 0x9E3779B97F4A7C15)
  let z := (z ^^^ (z >>> 30)) * 0xBF58476D1CE4E5B9
  let z := (z ^^^ (z >>> 27)) * 0x94D049BB133111EB
  z ^^^ (z >>> 31)

def genBuf (seed : Nat) (k fill range : Nat) : Buf := fun i =>
  if fill == 0 then (mix seed.toUInt64 k.toUInt64 i.toUInt64).toNat % range else if fill == 1 then 0 else range - 1

def psnrOf (is16 isRef tfOn width height padR padB ssx ssy inOx inOy inSy inScb inScr inSbY inSbCb inSbCr
    recOx recOy recSy recScb recScr : Nat) (b : Nat → Buf) : String :=
  let inp : PicDesc := { bufY := b 0, bufCb := b 1, bufCr := b 2, bitIncY := b 3, bitIncCb := b 4, bitIncCr := b 5,
                         originX := inOx, originY := inOy, strideY := inSy, strideCb := inScb, strideCr := inScr,
                         strideBitIncY := inSbY, strideBitIncCb := inSbCb, strideBitIncCr := inSbCr,
                         width := width, height := height }
  let mk (k : Nat) : PicDesc :=
    { bufY := b k, bufCb := b (k + 1), bufCr := b (k + 2), originX := recOx, originY := recOy,
      strideY := recSy, strideCb := recScb, strideCr := recScr, width := width, height := height }
  let p : Pcs := { isUsedAsReferenceFlag := isRef != 0, temporalFilteringOn := tfOn != 0,
                   referencePicture := mk 12, reconPicture := mk 15, enhancedUnscaled := inp,
                   saveEnhanced := ⟨b 6, b 7, b 8⟩, saveEnhancedBitInc := ⟨b 9, b 10, b 11⟩ }
  let s : Scs := { is16bit := is16 != 0, ssX := ssx, ssY := ssy, maxInputPadRight := padR, maxInputPadBottom := padB }
  let (y, cb, cr) := packetFields true (psnrCalculations p s)
  s!"{y} {cb} {cr}"

def nats (ws : List String) : Option (List Nat) := ws.mapM (·.toNat?)

def sseLine (line : String) : String :=
  match words line with
  | "SSE8" :: rest =>
    match nats (rest.take 6), rest.drop 6 with
    | some [w, h, so, ss, ro, rs], [hs, hr] =>
      let v := ssePlane64 (bufOf (hexToArray hs 2)) (bufOf (hexToArray hr 2)) so ss ro rs w h
      s!"{toU32 v} {v}"
    | _, _ => "bad-op"
  | "SSEW" :: rest =>
    match nats (rest.take 6), rest.drop 6 with
    | some [w, h, so, ss, ro, rs], [hs, hr] =>
      let v := ssePlane64 (bufOf (hexToArray hs 4)) (bufOf (hexToArray hr 4)) so ss ro rs w h
      s!"{toU32 v} {v}"
    | _, _ => "bad-op"
  | "SSE16" :: rest =>
    match nats (rest.take 8), rest.drop 8 with
    | some [w, h, io, is_, bo, bs, ro, rs], [hm, hi, hr] =>
      let v := ssePlane64_16 (bufOf (hexToArray hm 2)) (bufOf (hexToArray hi 2)) (bufOf (hexToArray hr 4)) io is_ bo bs ro rs w h
      s!"{toU32 v} {v}"
    | _, _ => "bad-op"
  | "CONST8" :: rest =>
    match nats rest with
    | some [w, h, a, b, so, ss, ro, rs] =>
      let v := ssePlane64 (fun _ => a) (fun _ => b) so ss ro rs w h
      s!"{toU32 v} {v}"
    | _ => "bad-op"
  | "PSNR" :: rest =>
    match nats (rest.take 22), rest.drop 22 with
    | some [is16, isRef, tfOn, width, height, padR, padB, ssx, ssy, inOx, inOy, inSy, inScb, inScr, inSbY, inSbCb, inSbCr,
            recOx, recOy, recSy, recScb, recScr], blobs =>
      if blobs.length != 18 then "bad-op" else
      let arrs : Array (Array Nat) := (blobs.zipIdx.map fun (s, k) => hexToArray s (if k ≥ 12 && is16 != 0 then 4 else 2)).toArray
      psnrOf is16 isRef tfOn width height padR padB ssx ssy inOx inOy inSy inScb inScr inSbY inSbCb inSbCr
        recOx recOy recSy recScb recScr (fun k => bufOf (arrs.getD k #[]))
    | _, _ => "bad-op"
  | "GEN" :: seedS :: rest =>
    match seedS.toNat?, nats rest with
    | some seed, some [is16, isRef, tfOn, width, height, padR, padB, ssx, ssy, inOx, inOy, inSy, inScb, inScr, inSbY, inSbCb, inSbCr,
            recOx, recOy, recSy, recScb, recScr, fIn, fSave, fRef, fRecon] =>
      let fill (k : Nat) : Nat := if k < 6 then fIn else if k < 12 then fSave else if k < 15 then fRef else fRecon
      psnrOf is16 isRef tfOn width height padR padB ssx ssy inOx inOy inSy inScb inScr inSbY inSbCb inSbCr
        recOx recOy recSy recScb recScr (fun k => genBuf seed k (fill k) (if k ≥ 12 && is16 != 0 then 1024 else 256))
    | _, _ => "bad-op"
  | _ => "bad-op"

end Driver.SseCmd

namespace Driver

def sseMain : IO Unit := forLines fun line => IO.println (SseCmd.sseLine line)

end Driver
