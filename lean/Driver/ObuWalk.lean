import SvtVerif.Model.ObuWalk
import Driver.Obu
/- `svtmodel obuwalk`: the OBU framing walk of `svt_av1_dec_frame` (C10 model) on one buffer per line.

   Input line
     <id> <cfg> <annexb 0|1> <hex|-> <dataSize|-> <oracle|->
       cfg     four characters 0/1: safeLoad checkSub errReturn ndebug   (0000 = the pinned code, Debug build),
               optionally `:<hex>` = what the uninitialised obu_header.payload_size holds (default 0)
       hex     the readable memory (the allocation); `-` = empty
       dataSize  the `data_size` argument; `-` = length of the memory
       oracle  what the opaque payload parser of the k-th OBU did, comma separated, `-` = nothing known:
                 c<status hex>.<finished 0|1>     fell out of the switch with this status / frame_decoding_finished
                 r<code hex>                      returned this code from inside the switch
               OBUs beyond the list: c0.0
   Output line
     <id> out=<RET:<hex>|ABORT|HANG|FUEL> calls=<decode_multiple_obu calls> obus=<n> max=<highest bs.buf offset>
          maxread=<highest index+1 loaded> wrapped=<0|1> uninit=<0|1> trace=<pos@type:hdr:len:payload;...>
-/
namespace Driver
open ObuWalk

def hexDigits (n : Nat) : String := String.ofList (Nat.toDigits 16 n)

def parseHexNat (s : String) : Option Nat :=
  if s.isEmpty then none else
  s.toList.foldl (fun acc ch => match acc, hexVal ch with
    | some a, some d => some (16 * a + d)
    | _, _ => none) (some 0)

def parsePayRes (tok : String) : Option PayRes :=
  match tok.toList with
  | 'r' :: rest => (parseHexNat (String.ofList rest)).map PayRes.ret
  | 'c' :: rest =>
    match (String.ofList rest).splitOn "." with
    | [s, f] => (parseHexNat s).map (fun st => PayRes.cont st (f == "1"))
    | _ => none
  | _ => none

def parseOracle (s : String) : Option (List PayRes) :=
  if s == "-" then some [] else (s.splitOn ",").mapM parsePayRes

def parseCfg (s : String) : Option Cfg :=
  match s.splitOn ":" with
  | [f] => flags f 0
  | [f, g] => (parseHexNat g).bind (flags f)
  | _ => none
where
  flags (f : String) (g : Nat) : Option Cfg :=
    match f.toList with
    | [a, b, c, d] => some { safeLoad := a == '1', checkSub := b == '1', errReturn := c == '1', ndebug := d == '1',
                             garbage := g }
    | _ => none

def obuWalkLine (ws : List String) : Option String := do
  match ws with
  | [id, cfgS, ax, hex, dsS, orS] =>
    let cfg ← parseCfg cfgS
    let mem ← if hex == "-" then some [] else parseHexBytes hex
    let ds ← if dsS == "-" then some mem.length else dsS.toNat?
    let ol ← parseOracle orS
    let oracle : Oracle := fun k => ol.getD k (.cont 0 false)
    let r := decFrame cfg mem ds (ax == "1") oracle
    let out := match r.outcome with
      | .ret e => s!"RET:{hexDigits e}"
      | .abort => "ABORT"
      | .hang => "HANG"
      | .fuel => "FUEL"
    let tr := ";".intercalate (r.st.obus.reverse.map fun o => s!"{o.pos}@{o.obuType}:{o.hdr}:{o.len}:{o.payload}")
    let b := fun (x : Bool) => if x then "1" else "0"
    some (s!"{id} out={out} calls={r.calls} obus={r.st.obus.length} max={r.st.maxBuf} maxread={r.st.maxRead} " ++
          s!"wrapped={b r.st.wrapped} uninit={b r.st.uninit} trace={tr}")
  | _ => none

def obuWalkMain : IO Unit := forLines fun line =>
  match obuWalkLine (words line) with
  | some s => IO.println s
  | none => IO.println "bad-op"

end Driver
