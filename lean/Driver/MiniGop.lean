import SvtVerif.Model.MiniGop
import Driver.Util
/- `svtmodel packetize` (lines starting with `MG`; also available as `svtmodel minigop` if wired in Main.lean): the pre-assignment buffer of picture_decision_kernel (Model/MiniGop.lean), one stream per line

     MG levels lowDelay P period n  idr_0 cra_0 eos_0  idr_1 cra_1 eos_1 ...      (n triples, pictures in display order)

   levels   static_config.hierarchical_levels (0..5)          lowDelay  1 = EB_PRED_LOW_DELAY_P, 0 = EB_PRED_RANDOM_ACCESS
   P        static_config.intra_period_length (read by is_delayed_intra)
   period   pred_struct_ptr->pred_struct_period (read by is_delayed_intra)
   split    one mini-GOP = the whole released buffer, in buffer order (what harness/minigop_extract.py's C program does)

   output:  S k a_1 .. a_k B m b_1 .. b_m D d
            S: picture numbers handed to send_picture_out, in order; B: pictures still in the pre-assignment buffer;
            D: the picture parked in prev_delayed_intra, or -1.
   Malformed line -> `bad-op`. -/
namespace Driver
open MiniGop

private def parsePics : Nat → Nat → List Int → Option (List Pic)
  | _, 0, [] => some []
  | k, n + 1, i :: c :: e :: rest =>
    match parsePics (k + 1) n rest with
    | some ps => some ({ num := k, idr := i != 0, cra := c != 0, eos := e != 0 } :: ps)
    | none => none
  | _, _, _ => none

/-- One `MG ...` line. -/
def miniGopLine (line : String) : IO Unit :=
  match words line with
  | "MG" :: rest =>
    match ints rest with
    | some (levels :: ld :: p :: period :: n :: flags) =>
      if levels < 0 ∨ levels > 5 ∨ n < 0 ∨ n > 4096 ∨ period < 0 then IO.println "bad-op" else
      match parsePics 0 n.toNat flags with
      | none => IO.println "bad-op"
      | some ps =>
        let r := run levels.toNat (ld != 0) (isDelayedIntra p period.toNat) (fun b => [b]) ps
        let nums := fun (l : List Pic) => l.map (fun q => toString q.num)
        let d := match r.delayed with | some q => toString q.num | none => "-1"
        IO.println (String.intercalate " "
          (["S", toString r.sent.length] ++ nums r.sent ++ ["B", toString r.buf.length] ++ nums r.buf ++ ["D", d]))
    | _ => IO.println "bad-op"
  | _ => IO.println "bad-op"

def miniGopMain : IO Unit := forLines miniGopLine

end Driver
