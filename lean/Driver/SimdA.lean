import SvtVerif.Model.SimdKernelsA
import Driver.Util
/-
  `svtmodel simda` (and, combined with other handlers, `svtmodel simd`): lane-level intrinsic / kernel model on op lines.
  Same protocol as harness/simd_ops_a.c (which executes the REAL instructions / library functions).

  All hex strings are MEMORY DUMPS: two lowercase hex digits per byte, in address order (a register = its bytes, least
  significant first; an int16_t buffer = low byte then high byte of each element).  One output line per op line.

  I <name> ...   one intrinsic (registers 16 or 32 bytes)
    I sub_epi16 <a> <b>                  _mm_sub_epi16 (16-byte operands) / _mm256_sub_epi16 (32-byte operands)
    I avg_epu8 <a> <b>                   _mm_avg_epu8
    I unpacklo_epi8_256 <a> <b>          _mm256_unpacklo_epi8
    I unpackhi_epi8_256 <a> <b>          _mm256_unpackhi_epi8
    I permute4x64_epi64 <imm> <a>        _mm256_permute4x64_epi64(a, imm)
    I castsi256_si128 <a>                _mm256_castsi256_si128
    I extracti128_si256 <imm> <a>        _mm256_extracti128_si256(a, imm)
    I setr_m128i <lo> <hi>               _mm256_setr_m128i
    I setzero_256                        _mm256_setzero_si256
    I insert_epi32 <imm> <a> <v>         _mm_insert_epi32(a, *(int32_t *)v, imm)      v = 4 bytes of memory
    I loadh_pd <a> <mem>                 _mm_loadh_pd(a, (double *)mem)                mem = 8 bytes
    I load <nbytes> <mem>                4: _mm_cvtsi32_si128(*(int32_t *)mem)  8: _mm_loadl_epi64  16: _mm_loadu_si128  32: _mm256_loadu_si256
    I store8 <nbytes> <a>                4: *(uint32_t *)p = _mm_cvtsi128_si32(a)  8: _mm_storel_epi64  16: _mm_storeu_si128
                                         -> dump of a 24-byte uint8_t buffer pre-filled with a5, p = buffer + 4
    I store16 <n> <a>                    4: _mm_storel_epi64  8: _mm_storeu_si128  16: _mm256_storeu_si256 to an int16_t buffer
                                         -> dump of a 24-element int16_t buffer pre-filled with a5a5, p = buffer + 4
    I storeh16 <a>                       _mm_storeh_pd((double *)p, a) to the same kind of int16_t buffer
  H <name> ...   one load/store helper of EbMemory_AVX2.h / synonyms.h
    H load_u8_4x4 <stride> <mem>         load_u8_4x4_avx2(mem, stride)      mem has 3*stride+4 bytes
    H load_u8_8x4 <stride> <mem>         load_u8_8x4_avx2(mem, stride)      mem has 3*stride+8 bytes
    H loadu_u8_16x2 <stride> <mem>       loadu_u8_16x2_avx2(mem, stride)    mem has stride+16 bytes
    H store_s16_4x2 <stride> <a>         store_s16_4x2_sse2(a, p, stride)   -> dump of an int16_t buffer of stride+12 elements (a5a5), p = buffer + 4
    H storeu_s16_8x2 <stride> <a>        storeu_s16_8x2_avx2(a, p, stride)  -> dump of an int16_t buffer of stride+16 elements (a5a5), p = buffer + 4
  K <kernel> <variant> ...   a whole kernel
    K resid8 <c|avx2> w h is ps rs <input> <pred>
        svt_residual_kernel8bit_{c,avx2}(input, is, pred, ps, residual, rs, w, h); input/pred are memory dumps (any length,
        bytes past the end read as 0 in the model — the generator gives exactly is*(h-1)+w bytes so nothing is read past the end);
        -> dump of the int16_t buffer of N = rs*h + w + 16 elements pre-filled with a5a5, residual = buffer + 8
    K avg <c|sse2> w h st0 st1 ds <src0> <src1>
        svt_picture_average_kernel_{c,sse2_intrin}(src0, st0, src1, st1, dst, ds, w, h)
        -> dump of the uint8_t buffer of N = ds*h + w + 16 bytes pre-filled with a5, dst = buffer + 8
    K avg1 <c|sse2> w <src0> <src1>
        svt_picture_average_kernel1_line_{c,sse2_intrin}(src0, src1, dst, w)
        -> dump of the uint8_t buffer of N = w + 16 bytes pre-filled with a5, dst = buffer + 8
  Unknown ops: `simdAHandle` returns `none` (the `simda` subcommand prints `bad-op`).
-/
namespace Driver
open Simd

namespace SimdA

def hexDigit? (c : Char) : Option Nat :=
  if '0' ≤ c ∧ c ≤ '9' then some (c.toNat - '0'.toNat)
  else if 'a' ≤ c ∧ c ≤ 'f' then some (c.toNat - 'a'.toNat + 10)
  else if 'A' ≤ c ∧ c ≤ 'F' then some (c.toNat - 'A'.toNat + 10)
  else none

def parseHexAux : List Char → Array (BitVec 8) → Option (Array (BitVec 8))
  | [], acc => some acc
  | [_], _ => none
  | c :: d :: r, acc =>
    match hexDigit? c, hexDigit? d with
    | some x, some y => parseHexAux r (acc.push (BitVec.ofNat 8 (16 * x + y)))
    | _, _ => none

/-- hex memory dump → bytes (`-` = empty) -/
def parseHex (s : String) : Option (Array (BitVec 8)) :=
  if s = "-" then some #[] else parseHexAux s.toList #[]

def hexChar (n : Nat) : Char := if n < 10 then Char.ofNat (48 + n) else Char.ofNat (87 + n)

def hexByte (b : BitVec 8) : String := String.ofList [hexChar (b.toNat / 16), hexChar (b.toNat % 16)]

def hexBytes (l : List (BitVec 8)) : String := String.join (l.map hexByte)

/-- a `uint8_t` buffer holding the given bytes (reads past the end give 0) -/
def memOf (a : Array (BitVec 8)) : Mem 8 := fun i => a.getD i 0

def dump8 (m : Mem 8) (n : Nat) : String := hexBytes (loadL m 0 n)
def dump16 (m : Mem 16) (n : Nat) : String := hexBytes (unlanes16 (loadL m 0 n))

def canary8 : Mem 8 := fun _ => 0xA5#8
def canary16 : Mem 16 := fun _ => 0xA5A5#16

def regOf (s : String) (n : Nat) : Option Reg := do
  let a ← parseHex s
  if a.size = n then some a.toList else none

def reg16or32 (s : String) : Option Reg := do
  let a ← parseHex s
  if a.size = 16 ∨ a.size = 32 then some a.toList else none

end SimdA

open SimdA in
def simdAHandle (ws : List String) : Option String :=
  match ws with
  | ["I", "sub_epi16", a, b] => do
    let a ← reg16or32 a; let b ← reg16or32 b
    if a.length = b.length then some (hexBytes (sub_epi16 a b)) else none
  | ["I", "avg_epu8", a, b] => do
    let a ← regOf a 16; let b ← regOf b 16
    some (hexBytes (avg_epu8 a b))
  | ["I", "unpacklo_epi8_256", a, b] => do
    let a ← regOf a 32; let b ← regOf b 32
    some (hexBytes (mm256_unpacklo_epi8 a b))
  | ["I", "unpackhi_epi8_256", a, b] => do
    let a ← regOf a 32; let b ← regOf b 32
    some (hexBytes (mm256_unpackhi_epi8 a b))
  | ["I", "permute4x64_epi64", imm, a] => do
    let imm ← imm.toNat?; let a ← regOf a 32
    some (hexBytes (mm256_permute4x64_epi64 a imm))
  | ["I", "castsi256_si128", a] => do
    let a ← regOf a 32
    some (hexBytes (mm256_castsi256_si128 a))
  | ["I", "extracti128_si256", imm, a] => do
    let imm ← imm.toNat?; let a ← regOf a 32
    some (hexBytes (mm256_extracti128_si256 a imm))
  | ["I", "setr_m128i", lo, hi] => do
    let lo ← regOf lo 16; let hi ← regOf hi 16
    some (hexBytes (mm256_setr_m128i lo hi))
  | ["I", "setzero_256"] => some (hexBytes mm256_setzero_si256)
  | ["I", "insert_epi32", imm, a, v] => do
    let imm ← imm.toNat?; let a ← regOf a 16; let v ← regOf v 4
    some (hexBytes (mm_insert_epi32 a (loadI32 (memOf v.toArray) 0) imm))
  | ["I", "loadh_pd", a, m] => do
    let a ← regOf a 16; let m ← regOf m 8
    some (hexBytes (mm_loadh_pd a (memOf m.toArray) 0))
  | ["I", "load", n, m] => do
    let n ← n.toNat?; let m ← parseHex m
    if m.size = n ∧ (n = 4 ∨ n = 8 ∨ n = 16 ∨ n = 32) then
      some (hexBytes (loadBytes (memOf m) 0 n (if n = 32 then 32 else 16)))
    else none
  | ["I", "store8", n, a] => do
    let n ← n.toNat?; let a ← regOf a 16
    if n = 4 ∨ n = 8 ∨ n = 16 then some (dump8 (storeBytes canary8 4 a n) 24) else none
  | ["I", "store16", n, a] => do
    let n ← n.toNat?; let a ← reg16or32 a
    if (n = 4 ∧ a.length = 16) ∨ (n = 8 ∧ a.length = 16) ∨ (n = 16 ∧ a.length = 32) then
      some (dump16 (storeU16 canary16 4 a n) 24)
    else none
  | ["I", "storeh16", a] => do
    let a ← regOf a 16
    some (dump16 (storehU16 canary16 4 a) 24)
  | ["H", "load_u8_4x4", s, m] => do
    let s ← s.toNat?; let m ← parseHex m
    some (hexBytes (load_u8_4x4_avx2 (memOf m) 0 s))
  | ["H", "load_u8_8x4", s, m] => do
    let s ← s.toNat?; let m ← parseHex m
    some (hexBytes (load_u8_8x4_avx2 (memOf m) 0 s))
  | ["H", "loadu_u8_16x2", s, m] => do
    let s ← s.toNat?; let m ← parseHex m
    some (hexBytes (loadu_u8_16x2_avx2 (memOf m) 0 s))
  | ["H", "store_s16_4x2", s, a] => do
    let s ← s.toNat?; let a ← regOf a 16
    some (dump16 (store_s16_4x2_sse2 a canary16 4 s) (s + 12))
  | ["H", "storeu_s16_8x2", s, a] => do
    let s ← s.toNat?; let a ← regOf a 32
    some (dump16 (storeu_s16_8x2_avx2 a canary16 4 s) (s + 16))
  | ["K", "resid8", v, w, h, is, ps, rs, inp, pred] => do
    let w ← w.toNat?; let h ← h.toNat?; let is ← is.toNat?; let ps ← ps.toNat?; let rs ← rs.toNat?
    let inp ← parseHex inp; let pred ← parseHex pred
    let n := rs * h + w + 16
    if v = "c" then some (dump16 (resid8_c (memOf inp) is 0 (memOf pred) ps 0 canary16 rs 8 w h) n)
    else if v = "avx2" then
      -- `resid8_avx2 .. res .. = (resid8_avx2B .. ⟨res⟩ ..).get` by definition; the boxed result is computed once
      let r := resid8_avx2B (memOf inp) is 0 (memOf pred) ps 0 ⟨canary16⟩ rs 8 w h
      some (dump16 r.get n)
    else none
  | ["K", "avg", v, w, h, st0, st1, ds, s0, s1] => do
    let w ← w.toNat?; let h ← h.toNat?; let st0 ← st0.toNat?; let st1 ← st1.toNat?; let ds ← ds.toNat?
    let s0 ← parseHex s0; let s1 ← parseHex s1
    let n := ds * h + w + 16
    if v = "c" then some (dump8 (avg_c (memOf s0) st0 0 (memOf s1) st1 0 canary8 ds 8 w h) n)
    else if v = "sse2" then some (dump8 (avg_sse2 (memOf s0) st0 0 (memOf s1) st1 0 canary8 ds 8 w h) n)
    else none
  | ["K", "avg1", v, w, s0, s1] => do
    let w ← w.toNat?
    let s0 ← parseHex s0; let s1 ← parseHex s1
    if v = "c" then some (dump8 (avg1_c (memOf s0) 0 (memOf s1) 0 canary8 8 w) (w + 16))
    else if v = "sse2" then some (dump8 (avg1_sse2 (memOf s0) 0 (memOf s1) 0 canary8 8 w) (w + 16))
    else none
  | _ => none

def simdAMain : IO Unit := forLines fun line =>
  match simdAHandle (words line) with
  | some s => IO.println s
  | none => IO.println "bad-op"

end Driver
