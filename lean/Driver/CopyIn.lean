import SvtVerif.Model.CopyIn
import Driver.Util
/- `svtmodel copyin`: the copy-in model on concrete pictures.

   IN  bd w h sb fill ystride cbstride crstride <hexY> <hexCb> <hexCr>
   IND ... (same)                                   additionally dumps the planes in hex
     bd = 8: one byte (2 hex digits) per source cell; bd = 10: one uint16 (4 hex digits, little endian) per cell.
     The internal picture is built for `apiDesc w h sb bd`; plane k (0..5 = y cb cr incY incCb incCr) is pre-filled
     with `fillByte fill k i` at index i (same formula in harness/copyin.c) so that untouched cells are compared too.
   -> `ok=<6 bits> sz=<6 sizes> h=<6 fnv1a-64 hashes>` (and for IND six `P<k> <hex>` lines first)
-/
namespace Driver
namespace CopyInD
open CopyIn

def fillByte (fill k i : Nat) : Nat := (i * 131 + k * 29 + fill * 7 + i / 251) % 256

def hexVal (c : UInt8) : Nat :=
  if c ≥ 48 && c ≤ 57 then (c - 48).toNat
  else if c ≥ 97 && c ≤ 102 then (c - 87).toNat
  else if c ≥ 65 && c ≤ 70 then (c - 55).toNat
  else 0

/-- hex string -> cells of `bytesPerCell` bytes, little endian -/
def parseHexCells (s : String) (bytesPerCell : Nat) : Array Nat := Id.run do
  let b := s.toUTF8
  let ncell := b.size / (2 * bytesPerCell)
  let mut out : Array Nat := Array.mkEmpty ncell
  for c in [0:ncell] do
    let mut v := 0
    for k in [0:bytesPerCell] do
      let o := (c * bytesPerCell + k) * 2
      let byte := hexVal (b.get! o) * 16 + hexVal (b.get! (o + 1))
      v := v + byte * 256 ^ k
    out := out.push v
  return out

def fnv64 (a : Array Nat) : UInt64 := Id.run do
  let mut h : UInt64 := 0xcbf29ce484222325
  for x in a do
    h := (h ^^^ (UInt64.ofNat x)) * 0x100000001b3
  return h

def hexDigit (n : Nat) : Char := if n < 10 then Char.ofNat (48 + n) else Char.ofNat (87 + n)

def hex64 (x : UInt64) : String := Id.run do
  let mut s := ""
  for i in [0:16] do
    s := s.push (hexDigit ((x >>> (UInt64.ofNat (60 - 4 * i))).toNat % 16))
  return s

def hexBytes (a : Array Nat) : String := Id.run do
  let mut s := ""
  for x in a do
    s := (s.push (hexDigit (x / 16 % 16))).push (hexDigit (x % 16))
  return s

def mkPlane (fill k size : Nat) : Mem := { buf := Array.ofFn (n := size) (fun i => fillByte fill k i.val), ok := true }

def b01 (b : Bool) : String := if b then "1" else "0"

def copyInLine (dump : Bool) (ws : List String) : IO Unit := do
  match ws with
  | [bd, w, h, sb, fill, ys, cbs, crs, hy, hcb, hcr] =>
    match ints [bd, w, h, sb, fill, ys, cbs, crs] with
    | some [bd, w, h, sb, fill, ys, cbs, crs] =>
      let bd := bd.toNat; let w := w.toNat; let h := h.toNat; let sb := sb.toNat; let fill := fill.toNat
      let d := apiDesc w h sb bd
      let bpc := if bd > 8 then 2 else 1
      let io : IoFormat := { luma := parseHexCells hy bpc, cb := parseHexCells hcb bpc, cr := parseHexCells hcr bpc,
                             yStride := ys.toNat, cbStride := cbs.toNat, crStride := crs.toNat }
      let incL := if bd > 8 then d.lumaSize else 0
      let incC := if bd > 8 then d.chromaSize else 0
      let p : Pic := { y := mkPlane fill 0 d.lumaSize, cb := mkPlane fill 1 d.chromaSize, cr := mkPlane fill 2 d.chromaSize,
                       incY := mkPlane fill 3 incL, incCb := mkPlane fill 4 incC, incCr := mkPlane fill 5 incC }
      let r := pipelineIn d p io
      let planes := [r.y, r.cb, r.cr, r.incY, r.incCb, r.incCr]
      if dump then
        let mut k := 0
        for m in planes do
          IO.println s!"P{k} {hexBytes m.buf}"
          k := k + 1
      let oks := String.join (planes.map (fun m => b01 m.ok))
      let szs := " ".intercalate (planes.map (fun m => toString m.buf.size))
      let hs := " ".intercalate (planes.map (fun m => hex64 (fnv64 m.buf)))
      IO.println s!"ok={oks} sz={szs} h={hs}"
    | _ => IO.println "bad-op"
  | _ => IO.println "bad-op"

end CopyInD

def copyInMain : IO Unit := forLines fun line =>
  match words line with
  | "IN" :: ws => CopyInD.copyInLine false ws
  | "IND" :: ws => CopyInD.copyInLine true ws
  | _ => IO.println "bad-op"

end Driver
