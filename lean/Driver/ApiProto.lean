import SvtVerif.Model.ApiProto
import SvtVerif.Gen.ApiTables
import Driver.Util
/- `svtmodel apiproto`: one call sequence per line (ops separated by `;`, the language of harness/apiseq.c) ->
   the predicted result class of every op and the protocol state reached:
     ok | e:<apiHex> | any:<apiHex>|<apiHex>.. | mayblock | undef:null-<fn>-<ptr> | undef:order-<fn>-<what> | block:<mutex> | -
   Meta lines: `!guards` prints the NULL class of every table entry, `!locks` the balance of every path. -/
namespace Driver
open ApiProto

def apiHex (n : Nat) : String := String.ofList (Nat.toDigits 16 n)

def parseApiOp (ws : List String) : Option Op :=
  match ws with
  | ["init_handle"] => some .initHandle
  | ["init_handle_null"] => some .initHandleNull
  | ["init_handle_nullcfg"] => some .initHandleNullCfg
  | ["set_param", "valid"] => some (.setParam .valid)
  | ["set_param", "invalid"] => some (.setParam .invalid)
  | ["set_param", "invalid", _] => some (.setParam .invalid)
  | ["set_param", "null"] => some (.setParam .null)
  | ["set_param_nullh", "valid"] => some (.setParamNullH .valid)
  | ["set_param_nullh", "invalid"] => some (.setParamNullH .invalid)
  | ["set_param_nullh", "null"] => some (.setParamNullH .null)
  | ["enc_init"] => some .encInit
  | ["enc_init_nullh"] => some .encInitNullH
  | ["stream_header"] => some .streamHeader
  | ["stream_header_nullh"] => some .streamHeaderNullH
  | ["stream_header_nullout"] => some .streamHeaderNullOut
  | ["stream_header_release"] => some .streamHeaderRelease
  | ["stream_header_release_null"] => some .streamHeaderReleaseNull
  | ["send", k] => k.toNat?.map .send
  | ["send_eos"] => some .sendEos
  | ["send_null"] => some .sendNull
  | ["send_nullh"] => some .sendNullH
  | ["get_packet", "nb"] => some (.getPacket false)
  | ["get_packet", "blocking"] => some (.getPacket true)
  | ["get_packet_nullh"] => some .getPacketNullH
  | ["get_packet_nullout"] => some .getPacketNullOut
  | ["release_out_buffer"] => some .releaseOut
  | ["release_null"] => some .releaseNull
  | ["release_nullp"] => some .releaseNullP
  | ["get_recon"] => some .getRecon
  | ["get_recon_nullh"] => some .getReconNullH
  | ["get_recon_nullbuf"] => some .getReconNullBuf
  | ["get_stream_info"] => some .getStreamInfo
  | ["get_stream_info_nullh"] => some .getStreamInfoNullH
  | ["get_stream_info_nullinfo"] => some .getStreamInfoNullInfo
  | ["get_stream_info_badid"] => some .getStreamInfoBadId
  | ["eos_nal"] => some .eosNal
  | ["eos_nal_nullh"] => some .eosNalNullH
  | ["drain"] => some .drain
  | ["sleep", _] => some .sleep
  | ["deinit"] => some .deinit
  | ["deinit_nullh"] => some .deinitNullH
  | ["deinit_handle"] => some .deinitHandle
  | ["deinit_handle_nullh"] => some .deinitHandleNullH
  | ["dec_init_handle"] => some .decInitHandle
  | ["dec_init_handle_null"] => some .decInitHandleNull
  | ["dec_init_handle_nullcfg"] => some .decInitHandleNullCfg
  | ["dec_set_param", "valid"] => some (.decSetParam false)
  | ["dec_set_param", "null"] => some (.decSetParam true)
  | ["dec_set_param_nullh", "valid"] => some (.decSetParamNullH false)
  | ["dec_set_param_nullh", "null"] => some (.decSetParamNullH true)
  | ["dec_init"] => some .decInit
  | ["dec_init_nullh"] => some .decInitNullH
  | ["dec_frame"] => some .decFrame
  | ["dec_frame_nullh"] => some .decFrameNullH
  | ["dec_frame_nulldata"] => some .decFrameNullData
  | ["dec_frame_nulldata_n"] => some .decFrameNullDataN
  | ["dec_get_picture"] => some .decGetPicture
  | ["dec_get_picture_nullh"] => some .decGetPictureNullH
  | ["dec_get_picture_nullbuf"] => some .decGetPictureNullBuf
  | ["dec_get_picture_nullinfo"] => some .decGetPictureNullInfo
  | ["dec_deinit"] => some .decDeinit
  | ["dec_deinit_nullh"] => some .decDeinitNullH
  | ["dec_deinit_handle"] => some .decDeinitHandle
  | ["dec_deinit_handle_nullh"] => some .decDeinitHandleNullH
  | _ => none

def showApiRes : Res → String
  | .ok => "ok"
  | .err c => "e:" ++ apiHex c
  | .oneOf cs => "any:" ++ "/".intercalate (cs.map apiHex)
  | .mayBlock => "mayblock"
  | .undef (.null fn ptr) => s!"undef:null-{fn}-{ptr}"
  | .undef (.order fn what) => s!"undef:order-{fn}-{what}"
  | .blocked m => "block:" ++ m
  | .skipped => "-"

def showProto : ProtoState → String
  | .NoHandle => "NoHandle" | .Handle => "Handle" | .Configured => "Configured" | .Rejected => "Rejected"
  | .Inited => "Inited" | .Draining => "Draining" | .Deinit => "Deinit"

def showPhase : Phase → String
  | .noHandle => "NoHandle" | .handle => "Handle" | .inited => "Inited" | .deinited => "Deinit"

/-- protocol state before each op (encoder ops: the seven named states; decoder ops: `D:<phase>[+cfg]`) -/
def preStates (T : Tables) : St → List Op → List String
  | _, [] => []
  | s, o :: os =>
    let here := if o.isDec then "D:" ++ showPhase s.dec.phase ++ (if s.dec.cfgSet then "+cfg" else "") else showProto s.enc.proto
    let (r, s') := step T s o
    here :: (if r.continues then preStates T s' os else os.map (fun _ => "-"))

def showNullClass : NullClass → String
  | .unguarded l => s!"unguarded@{l}"
  | .ret c => "ret:" ++ apiHex c
  | .dyn => "guarded"

def showLockRun : LockRun → String
  | .done [] => "balanced"
  | .done h => "leaves:" ++ ",".intercalate h
  | .blocked m => "selfblock:" ++ m
  | .badUnlock m => "badunlock:" ++ m

def apiProtoMain : IO Unit := forLines fun line => do
  let t := line.trimAscii.toString
  let T := Gen.ApiTables.tables
  if t == "!guards" then
    for e in T.guards do
      IO.println s!"guard {e.fn} {e.ptr} derived={e.derived} paths={e.paths.length} {showNullClass (nullClass T e.fn e.ptr)}"
    IO.println "end"
  else if t == "!locks" then
    for e in T.locks do
      for p in e.paths do
        IO.println s!"lock {e.fn} events={p.evs.length} ret={match p.ret with | some c => apiHex c | none => "dyn"} {showLockRun (runLocks [] p.evs)}"
    IO.println s!"end allBalanced={allBalanced T}"
  else if t.isEmpty || t.startsWith "#" then pure ()
  else
    let parts := (t.splitOn ";").map words |>.filter (· ≠ [])
    match parts.mapM parseApiOp with
    | none => IO.println "bad-op"
    | some ops =>
      let (rs, s) := runFrom T {} ops
      IO.println (" ".intercalate (rs.map showApiRes) ++ s!" state={showProto s.enc.proto} held={",".intercalate s.held} pre={",".intercalate (preStates T {} ops)}")

end Driver
