import SvtVerif.Model.RangeCoder
import Driver.Util
/- `svtmodel ec`: same line protocol and same output text as harness/ec.c (see the header comment there):
     cdf <id> <n> <e0..e_n> | adapt 0|1 | sym <id> <s> | bool <prob> <bit> | boolq <f> <bit> | lit <nbits> <value> | done -/
namespace Driver
open RangeCoder

structure EcCase where
  tabs : Tables := []
  ops : List Op := []      -- reversed
  bad : Bool := false

def hexDigit (n : Nat) : Char := if n < 10 then Char.ofNat (48 + n) else Char.ofNat (87 + n)

def hexBytes (bs : List Nat) : String :=
  bs.foldl (fun s b => (s.push (hexDigit (b / 16))).push (hexDigit (b % 16))) ""

def joinNats (xs : List Nat) : String := xs.foldl (fun s x => s ++ " " ++ toString x) ""
def joinInts (xs : List Int) : String := xs.foldl (fun s x => s ++ " " ++ toString x) ""

/-- extend the table list so that index `id` exists -/
def setTable (tabs : Tables) (id : Nat) (cdf : List Nat) : Tables :=
  let tabs := if tabs.length ≤ id then tabs ++ List.replicate (id + 1 - tabs.length) [] else tabs
  tabs.set id cdf

def printTables (tag : String) (tabs : Tables) (id : Nat) : List String :=
  match tabs with
  | [] => []
  | t :: ts => (if t.isEmpty then [] else [s!"{tag} {id}{joinNats t}"]) ++ printTables tag ts (id + 1)

def interleave : List String → List String → List String
  | a :: as, b :: bs => a :: b :: interleave as bs
  | as, [] => as
  | [], bs => bs

def runCase (c : EcCase) : IO Unit := do
  let ops := c.ops.reverse
  -- writer, collecting tell after each op
  let (w, tellsRev) := ops.foldl (fun (p : Writer × List Int) op =>
      let w := writeOp p.1 op
      (w, encTell w.enc :: p.2)) (({ enc := encInit, tabs := c.tabs, adapt := false } : Writer), [])
  let bytes := encDone w.enc
  IO.println s!"bytes {bytes.length} {hexBytes bytes}"
  IO.println s!"tell{joinInts tellsRev.reverse} | {encTell w.enc}"
  IO.println s!"wstate {w.enc.low} {w.enc.rng} {w.enc.cnt} {w.enc.offs} {(w.enc.pre.filter (· > 255)).length}"
  let (r, vals) := readOps { dec := decInit bytes, tabs := c.tabs, adapt := false } (ops.map Op.shape)
  IO.println s!"dec{joinNats vals}"
  IO.println s!"rstate {r.dec.dif} {r.dec.rng} {r.dec.cnt} {r.dec.tellOffs} {r.dec.pos}"
  for l in interleave (printTables "wcdf" w.tabs 0) (printTables "rcdf" r.tabs 0) do
    IO.println l
  IO.println "end"

def ecStep (c : EcCase) (line : String) : IO EcCase := do
  match words line with
  | "cdf" :: rest =>
    match rest.mapM String.toNat? with
    | some (id :: n :: es) =>
      if id < 256 ∧ 2 ≤ n ∧ n ≤ 16 then
        let es := (es ++ List.replicate (n + 1) 0).take (n + 1) |>.map u16
        return { c with tabs := setTable c.tabs id es }
      else IO.println "bad-op"; return c
    | _ => IO.println "bad-op"; return c
  | ["adapt", a] => return { c with ops := Op.adapt (a != "0") :: c.ops }
  | ["sym", a, b] =>
    match a.toNat?, b.toNat? with
    | some id, some s =>
      if (c.tabs.getD id []).isEmpty then IO.println "bad-op"; return c
      else return { c with ops := Op.sym id s :: c.ops }
    | _, _ => IO.println "bad-op"; return c
  | ["bool", a, b] =>
    match a.toNat?, b.toNat? with
    | some p, some bit => return { c with ops := Op.bool (probToQ15 p) bit :: c.ops }
    | _, _ => IO.println "bad-op"; return c
  | ["boolq", a, b] =>
    match a.toNat?, b.toNat? with
    | some f, some bit => return { c with ops := Op.bool f bit :: c.ops }
    | _, _ => IO.println "bad-op"; return c
  | ["lit", a, b] =>
    match a.toNat?, b.toNat? with
    | some n, some v => return { c with ops := Op.lit n v :: c.ops }
    | _, _ => IO.println "bad-op"; return c
  | ["done"] => runCase c; return {}
  | [] => return c
  | _ => IO.println "bad-op"; return c

def ecMain : IO Unit := do
  let h ← IO.getStdin
  let _ ← foldLines h ({} : EcCase) ecStep
  return ()

end Driver
