import SvtVerif.Model.IntraPeriod
import Driver.Util
/- `svtmodel intraperiod`: stateful, one operation per line.
   * `CFG P refresh rcMode`                      starts a new stream (`intra_period_position := 0`) -> `ok`
   * `P picNum idrIn craIn sceneChange`          one picture in display order (flags as they are on arrival in
                                                 picture_decision_kernel) -> `idr cra intra frame_type pos_inc pos_after`
       idr/cra  = flags after lines 5014-5048, intra = (slice_type == I_SLICE), frame_type 0 KEY / 1 INTER / 2 INTRA_ONLY,
       pos_inc  = intra_period_position after line 4803/4808, pos_after = after the picture-0 reset (5018-5019)
   * `RUN P refresh rcMode n`                    -> `n` then, for k = 0..n-1, the frame_type of picture k of `IntraPeriod.run`
   anything else (or `P` before `CFG`) -> `bad-op`. -/
namespace Driver
open IntraPeriod

def b01 (b : Bool) : String := if b then "1" else "0"

def intraPeriodMain : IO Unit := do
  let h ← IO.getStdin
  let _ ← foldLines h (none : Option (Cfg × Nat)) fun st line => do
    match words line with
    | "CFG" :: rest =>
      match ints rest with
      | some [p, r, m] => IO.println "ok"; return some ({ P := p, refresh := r, rcMode := m }, 0)
      | _ => IO.println "bad-op"; return st
    | "P" :: rest =>
      match st, ints rest with
      | some (c, pos), some [n, i, cr, sc] =>
        if n < 0 then IO.println "bad-op"; return st else
        let r := step c pos { picNum := n.toNat, idrIn := i != 0, craIn := cr != 0, sceneChange := sc != 0 }
        IO.println s!"{b01 r.2.idr} {b01 r.2.cra} {b01 r.2.intra} {r.2.frameType} {r.2.posInc} {r.1}"
        return some (c, r.1)
      | _, _ => IO.println "bad-op"; return st
    | "RUN" :: rest =>
      match ints rest with
      | some [p, r, m, n] =>
        if n < 0 then IO.println "bad-op"; return st else
        let os := run { P := p, refresh := r, rcMode := m } n.toNat
        IO.println (String.intercalate " " (toString os.length :: os.map fun o => toString o.frameType))
        return st
      | _ => IO.println "bad-op"; return st
    | _ => IO.println "bad-op"; return st
  return ()

end Driver
