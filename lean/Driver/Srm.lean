import SvtVerif.Model.Srm
import Driver.Util
/- `svtmodel srm`: the line protocol of harness/srm_seq.c, answered by the Lean model `Srm.step`.
   API calls are sequences of atomic steps; a call that the model says would block / is outside the
   modelled domain prints `skip <why>` and leaves the state unchanged (the check removes those lines
   before the real code sees them). -/
namespace Driver
open Srm

structure SrmDrv where
  s : Option State := none
  nProd : Nat := 0
  nCons : Nat := 0
  bg : List (Side × Nat × Option Ret) := []   -- background calls: fifo, result once finished
  cb : CircBuf := CircBuf.new 1

def showList (xs : List Nat) : String := "[" ++ ",".intercalate (xs.map toString) ++ "]"

def showQueue (tag : String) (s : State) (sd : Side) (isNull : Bool) : String :=
  if isNull then s!" | {tag} none" else
  let fs := (List.range (s.nProc sd)).map fun f =>
    s!" f{f}={showList (s.items sd f)}/{s.sem sd f}/{if s.quit sd f then 1 else 0}"
  s!" | {tag} o={showList (s.objQ sd)} p={showList (s.procQ sd)}" ++ String.join fs

def showState (s : State) : String :=
  showQueue "E" s .empty false ++ showQueue "F" s .full (s.nProc .full == 0) ++
  " | L=" ++ ",".intercalate ((List.range s.nObj).map fun o => toString (s.live o)) ++
  " R=" ++ ",".intercalate ((List.range s.nObj).map fun o => if s.relEn o then "1" else "0")

def showBg (bg : List (Side × Nat × Option Ret)) : String :=
  let one (sd : Side) (c : String) : String :=
    String.join ((List.range 8).map fun f =>
      match bg.find? (fun (sd', f', _) => sd' == sd && f' == f) with
      | some (_, _, r) => s!"{c}{f}{if r.isSome then "+" else "-"}"
      | none => "")
  " B=" ++ one .empty "e" ++ one .full "f"

def showRet : Ret → String
  | .ok => "ok" | .obj o => s!"obj {o}" | .null => "null" | .shutdown => "shutdown" | .nonEmpty => "nonempty"

def resErr : Res → String
  | .ok _ _ => "ok" | .blocked => "blocked" | .badPc => "badpc" | .ub w => "ub " ++ w

/-- Run atomic steps in sequence; error string of the first step that is not `ok`. -/
def runSteps (s : State) : List Op → Except String (State × Ret)
  | [] => .ok (s, .ok)
  | [op] => match step s op with
    | .ok s' r => .ok (s', r)
    | e => .error (resErr e)
  | op :: ops => match step s op with
    | .ok s' _ => runSteps s' ops
    | e => .error (resErr e)

/-- svt_get_full_object_non_blocking (679-704). -/
def nonBlocking (s : State) (f : Nat) : Except String (State × Ret) := do
  let (s1, _) ← runSteps s [.nbReg f]
  let (s2, r) ← runSteps s1 [.peek f]
  if r = .nonEmpty then runSteps s2 [.reg .full f, .semWait .full f, .pop .full f]
  else pure (s2, .null)

/-- Let every background thread that can run, run to the end of its call. -/
def quiesce (s : State) : List (Side × Nat × Option Ret) → State × List (Side × Nat × Option Ret)
  | [] => (s, [])
  | (sd, f, some r) :: rest => let (s', rest') := quiesce s rest; (s', (sd, f, some r) :: rest')
  | (sd, f, none) :: rest =>
    match runSteps s [.semWait sd f, .pop sd f] with
    | .ok (s1, r) => let (s', rest') := quiesce s1 rest; (s', (sd, f, some r) :: rest')
    | .error _ => let (s', rest') := quiesce s rest; (s', (sd, f, none) :: rest')

def sideOf (c : String) : Side := if c == "e" then .empty else .full

def srmLine (d : SrmDrv) (line : String) : IO SrmDrv := do
  let ws := words line
  let nat? (i : Nat) : Option Nat := (ws[i]?).bind String.toNat?
  let finish (d : SrmDrv) (s : State) (r : String) : IO SrmDrv := do
    let (s', bg') := quiesce s d.bg
    IO.println (r ++ showState s' ++ showBg bg')
    return { d with s := some s', bg := bg' }
  let skip (why : String) : IO SrmDrv := do IO.println ("skip " ++ why); return d
  let atomic (d : SrmDrv) (s : State) (ops : List Op) : IO SrmDrv :=
    match runSteps s ops with
    | .ok (s', r) => finish d s' (showRet r)
    | .error e => skip e
  match ws[0]?, d.s with
  | some "cb_new", _ => match nat? 1 with
    | some c => let b := CircBuf.new c; IO.println s!"ok | h={b.head} t={b.tail} a={showList b.arr}"; return { d with cb := b }
    | none => IO.println "bad-op"; return d
  | some "cb_pb", _ | some "cb_pf", _ => match nat? 1 with
    | some x =>
      let b := if ws[0]? == some "cb_pb" then d.cb.pushBack x else d.cb.pushFront x
      IO.println s!"ok | h={b.head} t={b.tail} a={showList b.arr}"; return { d with cb := b }
    | none => IO.println "bad-op"; return d
  | some "cb_pop", _ =>
    let (x, b) := d.cb.popFront
    IO.println s!"pop {x} | h={b.head} t={b.tail} a={showList b.arr}"; return { d with cb := b }
  | some "cb_empty", _ =>
    let b := d.cb
    IO.println s!"empty {if b.isEmpty then 1 else 0} | h={b.head} t={b.tail} a={showList b.arr}"; return d
  | some "init", _ => match nat? 1, nat? 2, nat? 3 with
    | some n, some p, some c =>
      let s := Srm.init n p c
      IO.println ("init" ++ showState s ++ showBg [])
      return { d with s := some s, nProd := p, nCons := c, bg := [] }
    | _, _, _ => IO.println "bad-op"; return d
  | some op, some s =>
    let busy (sd : Side) (f : Nat) : Bool := d.bg.any fun (sd', f', r) => sd' == sd && f' == f && r.isNone
    match op, nat? 1, nat? 2 with
    | "ge", some f, _ => if busy .empty f then skip "busy" else atomic d s [.reg .empty f, .semWait .empty f, .pop .empty f]
    | "gf", some f, _ => if busy .full f then skip "busy" else atomic d s [.reg .full f, .semWait .full f, .pop .full f]
    | "gn", some f, _ => if busy .full f then skip "busy" else
      match nonBlocking s f with
      | .ok (s', r) => finish d s' (showRet r)
      | .error e => skip e
    -- a post / pushing release of an object that is not handed out would put one wrapper on two lists:
    -- the C linked lists (next_ptr) then no longer are lists; such ops are outside the modelled domain
    | "post", some o, _ => if s.loc o != .held then skip "unsafe post of an object that is not held" else atomic d s [.post o]
    | "rel", some o, _ =>
      let pushes := s.relEn o && (s.live o == 0 || s.live o == 1)
      if s.loc o != .held && pushes then skip "unsafe release of an object that is not held"
      else atomic d s [.release o]
    | "inc", some o, some k => atomic d s [.incLive o k]
    | "ren", some o, some b => atomic d s [.setRel o (b != 0)]
    | "shut", _, _ =>
      -- svt_shutdown_process (498-509): for each consumer fifo in index order: quit, then post
      if s.nProc .full == 0 then finish d s "ok" else
      atomic d s ((List.range (s.nProc .full)).flatMap fun f => [.shutQuit f, .shutPost f])
    | "bge", some f, _ | "bgf", some f, _ =>
      let sd := if op == "bge" then Side.empty else Side.full
      if d.bg.any (fun (sd', f', _) => sd' == sd && f' == f) then skip "busy" else
      match runSteps s [.reg sd f] with
      | .ok (s', _) => finish { d with bg := d.bg ++ [(sd, f, none)] } s' "bg"
      | .error e => skip e
    | "join", _, some f =>
      let sd := sideOf (ws[1]?.getD "f")
      match d.bg.find? (fun (sd', f', _) => sd' == sd && f' == f) with
      | some (_, _, some r) =>
        finish { d with bg := d.bg.filter fun (sd', f', _) => !(sd' == sd && f' == f) } s (showRet r)
      | some (_, _, none) => skip "notdone"
      | none => skip "nobg"
    | _, _, _ => IO.println "bad-op"; return d
  | _, _ => IO.println "bad-op"; return d

def srmMain : IO Unit := do
  let h ← IO.getStdin
  let out ← IO.getStdout
  let _ ← foldLines h ({} : SrmDrv) (fun d l => do let d' ← srmLine d l; out.flush; return d')
  return ()

end Driver
