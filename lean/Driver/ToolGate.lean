import SvtVerif.Model.ToolGate
import Driver.Util
/- `svtmodel toolgate`: one op per line, `k=v` tokens (configuration members by their C name with `cfg.` prefix,
   picture facts with `p.` prefix).
     SEQ anyscaled=<0|1> cfg.<member>=<v> ...          -> SEQ <sequence header bits, key names of `svtmodel obu`>
     FRM cfg.<member>=<v> ... p.<fact>=<v> ...         -> FRM <frame header bits + MD-level gates>
     TILE w=<px> h=<px> sb128=<0|1> cols=<log2> rows=<log2>  -> TILE <layout>
     BLK <flag>=<0|1> ...                              -> BLK <element>=<0|1> ...   (spec table `mayBePresent`)
     CFL cfg.disable_cfl_flag=<v> max=<block max dim> mddis=<0|1>   -> CFL disabled=<0|1>
-/
namespace Driver
open ToolGate

private def kvs (ws : List String) : List (String × String) :=
  ws.filterMap fun w => match w.splitOn "=" with
    | [k, v] => some (k, v)
    | _ => none

private def getI (m : List (String × String)) (k : String) (d : Int) : Int :=
  match m.lookup k with
  | some v => v.toInt?.getD d
  | none => d

private def getN (m : List (String × String)) (k : String) (d : Nat) : Nat := (getI m k d).toNat
private def getB (m : List (String × String)) (k : String) (d : Bool) : Bool := getI m k (if d then 1 else 0) != 0

private def getL (m : List (String × String)) (k : String) (d : List Nat) : List Nat :=
  match m.lookup k with
  | some v => (v.splitOn ",").filterMap fun x => x.toNat?
  | none => d

def cfgOf (m : List (String × String)) : Cfg :=
  let d : Cfg := {}
  { encMode := getI m "cfg.enc_mode" d.encMode
    disableDlf := getI m "cfg.disable_dlf_flag" d.disableDlf
    enableWarpedMotion := getI m "cfg.enable_warped_motion" d.enableWarpedMotion
    enableGlobalMotion := getI m "cfg.enable_global_motion" d.enableGlobalMotion
    cdefLevel := getI m "cfg.cdef_level" d.cdefLevel
    enableRestoration := getI m "cfg.enable_restoration_filtering" d.enableRestoration
    enableMfmv := getI m "cfg.enable_mfmv" d.enableMfmv
    interIntraCompound := getI m "cfg.inter_intra_compound" d.interIntraCompound
    disableCfl := getI m "cfg.disable_cfl_flag" d.disableCfl
    obmcLevel := getI m "cfg.obmc_level" d.obmcLevel
    compoundLevel := getI m "cfg.compound_level" d.compoundLevel
    filterIntraLevel := getI m "cfg.filter_intra_level" d.filterIntraLevel
    enableIntraEdgeFilter := getI m "cfg.enable_intra_edge_filter" d.enableIntraEdgeFilter
    paletteLevel := getI m "cfg.palette_level" d.paletteLevel
    tileRows := getN m "cfg.tile_rows" d.tileRows
    tileColumns := getN m "cfg.tile_columns" d.tileColumns
    screenContentMode := getI m "cfg.screen_content_mode" d.screenContentMode
    intrabcMode := getI m "cfg.intrabc_mode" d.intrabcMode
    superresMode := getI m "cfg.superres_mode" d.superresMode }

def picOf (m : List (String × String)) : Pic :=
  let ft := getN m "p.frame_type" 1
  { iSlice := ft == 0 || ft == 2
    frameType := ft
    temporalLayer := getN m "p.tl" 0
    isRef := getB m "p.is_ref" true
    errorRes := getB m "p.error_res" false
    superresScaled := getB m "p.scaled" false
    scAuto := getB m "p.sc" false
    pickLf := (getN m "p.lf_y0" 0, getN m "p.lf_y1" 0, getN m "p.lf_u" 0, getN m "p.lf_v" 0)
    pickCdefBits := getN m "p.cdef_bits" 0
    pickCdefY := getL m "p.cdef_y" [0]
    pickCdefUv := getL m "p.cdef_uv" [0]
    pickLr := (getN m "p.lr_y" 0, getN m "p.lr_u" 0, getN m "p.lr_v" 0)
    pickGm := getL m "p.gm" [0, 0, 0, 0, 0, 0, 0] }

private def b (x : Bool) : String := if x then "1" else "0"
private def csv (l : List Nat) : String := ",".intercalate (l.map toString)

def toolGateLine (line : String) : String :=
  match words line with
  | "SEQ" :: rest =>
    let m := kvs rest
    let s := seqHdr (cfgOf m) (getB m "anyscaled" false)
    s!"SEQ filter_intra={s.filterIntra} intra_edge={s.intraEdge} interintra={s.interintra} masked={s.masked} warped={s.warped} jnt_comp={s.jntComp} ref_mvs={s.refMvs} sct={s.sct} superres={s.superres} cdef={s.cdef} restoration={s.restoration}"
  | "FRM" :: rest =>
    let m := kvs rest
    let c := cfgOf m
    let p := picOf m
    let f := frameHdr c p
    let (y0, y1, u, v) := f.lf
    let (cb, cy, cuv) := f.cdef
    let (ly, lu, lv) := f.lr
    s!"FRM allow_sct={b f.allowSct} allow_intrabc={b f.allowIntrabc} lf_y0={y0} lf_y1={y1} lf_u={u} lf_v={v} cdef_bits={cb} cdef_y={csv cy} cdef_uv={csv cuv} lr_y={ly} lr_u={lu} lr_v={lv} warped={b f.warped} switchable_motion={b f.switchable} ref_mvs={b f.refMvs} gm={csv f.gm} use_superres={b f.useSuperres} palette_level={picPaletteLevel c p} md_palette={mdPaletteLevel c p 2} obmc_level={mdObmcLevel c 2} md_filter_intra={mdFilterIntraLevel c 2} md_interintra={mdInterIntraLevel c p 2} md_compound={interCompoundMode c 2} lf_mode={loopFilterMode c p} cdef_level={picCdefLevel c p} gm_level={gmLevel c p}"
  | "TILE" :: rest =>
    let m := kvs rest
    let log2Sb := if getB m "sb128" false then 5 else 4
    let miC := miOf (getN m "w" 64)
    let miR := miOf (getN m "h" 64)
    let rc := getN m "cols" 0
    let rr := getN m "rows" 0
    let t := tileInfo miC miR log2Sb rc rr
    let L := tileLimits miC miR log2Sb
    s!"TILE tile_cols_log2={t.colsLog2} tile_rows_log2={t.rowsLog2} tile_cols={t.tileCols} tile_rows={t.tileRows} col_starts={csv t.colStartsSb} row_starts={csv t.rowStartsSb} col_size={t.colSizeSb} row_size={t.rowSizeSb} sb_cols={L.sbCols} sb_rows={L.sbRows} min_cols={L.minLog2Cols} max_cols={L.maxLog2Cols} max_rows={L.maxLog2Rows} min_rows_spec={minLog2RowsSpec miC miR log2Sb rc}"
  | "BLK" :: rest =>
    let m := kvs rest
    let f : Flags :=
      { seqFilterIntra := getB m "filter_intra" false, seqInterintra := getB m "interintra" false
        seqMasked := getB m "masked" false, seqJntComp := getB m "jnt_comp" false
        allowSct := getB m "allow_sct" false, allowIntrabc := getB m "allow_intrabc" false
        switchableMotion := getB m "switchable_motion" false, allowWarped := getB m "warped" false
        seqCdef := getB m "cdef" false, codedLossless := getB m "coded_lossless" false
        lrTypeNonNone := getB m "lr" false, cdefStrengthsAllZero := getB m "cdef_zero" false }
    let e := mayBePresent f
    s!"BLK filter_intra={b (e .useFilterIntra)} palette_y={b (e .hasPaletteY)} palette_uv={b (e .hasPaletteUv)} intrabc={b (e .useIntrabc)} interintra={b (e .interintra)} obmc={b (e .motionModeObmc)} warp={b (e .motionModeWarp)} comp_group={b (e .compGroupIdx)} compound_idx={b (e .compoundIdx)} cdef_idx={b (e .cdefIdx)} cdef_applied={b (cdefApplied f)} lr_unit={b (e .lrUnit)} cfl={b (e .cflAlphas)}"
  | "CFL" :: rest =>
    let m := kvs rest
    s!"CFL disabled={b (cflDisabled (cfgOf m) (getN m "max" 8) (getB m "mddis" false))}"
  | _ => "bad-op"

def toolGateMain : IO Unit := forLines fun line => IO.println (toolGateLine line)

end Driver
