import SvtVerif.Model.Reorder
import Driver.Util
/- `svtmodel reorder`: each input line `D a0 a1 a2 …` (depth, then the arrival order of picture numbers)
   -> one output line `<clobbered 0|1> <count> o0 o1 …` = `Reorder.run D [a0, a1, …]`
   (emitted picture numbers in emission order).  `D = 0` or a negative number -> `bad-op`. -/
namespace Driver

def reorderMain : IO Unit := forLines fun line =>
  match ints (words line) with
  | some (d :: as) =>
    if d ≤ 0 ∨ as.any (· < 0) then IO.println "bad-op" else
    let r := Reorder.run d.toNat (as.map Int.toNat)
    IO.println (String.intercalate " "
      ((if r.clobbered then "1" else "0") :: toString r.out.length :: r.out.map toString))
  | _ => IO.println "bad-op"

end Driver
