/-
  `svtmodel simdb` — line protocol for the C07 part-B models (32-bit full-distortion kernels and the intrinsics they use).
  The C side is harness/simd_ops_b.c (same op lines in, same canonical lines out, executing the REAL instructions and
  the REAL library functions).

  Registers / buffers are hex strings in MEMORY BYTE ORDER (least significant byte first, two hex digits per byte):
  a `__m128i` = 32 hex digits, a `__m256i` = 64 hex digits, an `int32_t` buffer = 8 hex digits per element.

  Intrinsic ops  `I <name> [imm] <a> [<b>]`  ->  `<hex result>`
    I cvtepi32_epi64 <a128>              _mm256_cvtepi32_epi64          -> 256
    I mul_epi32 <a256> <b256>            _mm256_mul_epi32               -> 256
    I add_epi64 <a256> <b256>            _mm256_add_epi64               -> 256
    I sub_epi64 <a256> <b256>            _mm256_sub_epi64               -> 256
    I add_epi32 <a256> <b256>            _mm256_add_epi32               -> 256
    I add_epi64_128 <a128> <b128>        _mm_add_epi64                  -> 128
    I castsi256_si128 <a256>             _mm256_castsi256_si128         -> 128
    I extracti128_si256 <imm> <a256>     _mm256_extracti128_si256       -> 128   (imm 0|1)
    I shuffle_epi32 <imm> <a128>         _mm_shuffle_epi32              -> 128   (imm 0..255)
    I unpacklo_epi64 <a128> <b128>       _mm_unpacklo_epi64             -> 128
    I loadu_si128 <off> <int32 buffer>   _mm_loadu_si128((__m128i*)(buf+off))    -> 128
    I storeu_si128 <a128>                _mm_storeu_si128 into a uint64_t[2]     -> `<u64 decimal> <u64 decimal>`
  Kernel ops
    K fd32  <c|avx2> <w> <h> <cstride> <rstride> <coeff buffer> <recon buffer>   -> `<residual> <prediction>`  (uint64 decimal)
    K fdz32 <c|avx2> <w> <h> <cstride> <coeff buffer>                              -> `<[0]> <[1]>`
        svt_full_distortion_kernel32_bits_{c,avx2} / svt_full_distortion_kernel_cbf_zero32_bits_{c,avx2};
        buffers hold at least (h-1)*stride + w elements; w a positive multiple of 4, h >= 1.
        The Lean avx2 model prints `none` if it runs out of fuel (outside the domain).
  Unknown ops: `simdBHandle` returns `none` (the combined `svtmodel simd` tries the other handler).
-/
import SvtVerif.Model.SimdKernelsB
import Driver.Util

namespace Driver.SimdB
open Simd

def hexVal (c : Char) : Option Nat :=
  if '0' ≤ c ∧ c ≤ '9' then some (c.toNat - '0'.toNat)
  else if 'a' ≤ c ∧ c ≤ 'f' then some (c.toNat - 'a'.toNat + 10)
  else if 'A' ≤ c ∧ c ≤ 'F' then some (c.toNat - 'A'.toNat + 10)
  else none

def parseHexBytes (s : String) : Option Reg :=
  let rec go : List Char → List (BitVec 8) → Option Reg
    | [], acc => some acc.reverse
    | [_], _ => none
    | a :: b :: r, acc => do
      let x ← hexVal a
      let y ← hexVal b
      go r (BitVec.ofNat 8 (16 * x + y) :: acc)
  go s.toList []

def hexDigit (n : Nat) : Char := if n < 10 then Char.ofNat (48 + n) else Char.ofNat (87 + n)

def hexOfReg (r : Reg) : String :=
  String.ofList (r.flatMap fun b => [hexDigit (b.toNat / 16), hexDigit (b.toNat % 16)])

def regN (s : String) (n : Nat) : Option Reg := do
  let r ← parseHexBytes s
  if r.length = n then some r else none

/-- an int32 buffer given as hex bytes -> `Mem 32` (out-of-range reads give 0; never happens for in-domain ops) -/
def memOfHex (s : String) : Option (Mem 32) := do
  let r ← parseHexBytes s
  let a := (lanes32 r).toArray
  some fun i => a.getD i 0

def showPair (p : BitVec 64 × BitVec 64) : String := s!"{p.1.toNat} {p.2.toNat}"

end Driver.SimdB

namespace Driver
open Simd Driver.SimdB

def simdBHandle (ws : List String) : Option String :=
  match ws with
  | ["I", "cvtepi32_epi64", a] => do let a ← regN a 16; some (hexOfReg (mm256_cvtepi32_epi64 a))
  | ["I", "mul_epi32", a, b] => do let a ← regN a 32; let b ← regN b 32; some (hexOfReg (mul_epi32 a b))
  | ["I", "add_epi64", a, b] => do let a ← regN a 32; let b ← regN b 32; some (hexOfReg (add_epi64 a b))
  | ["I", "sub_epi64", a, b] => do let a ← regN a 32; let b ← regN b 32; some (hexOfReg (sub_epi64 a b))
  | ["I", "add_epi32", a, b] => do let a ← regN a 32; let b ← regN b 32; some (hexOfReg (add_epi32 a b))
  | ["I", "add_epi64_128", a, b] => do let a ← regN a 16; let b ← regN b 16; some (hexOfReg (add_epi64 a b))
  | ["I", "castsi256_si128", a] => do let a ← regN a 32; some (hexOfReg (mm256_castsi256_si128 a))
  | ["I", "extracti128_si256", imm, a] => do
      let imm ← imm.toNat?; let a ← regN a 32; some (hexOfReg (mm256_extracti128_si256 a imm))
  | ["I", "shuffle_epi32", imm, a] => do
      let imm ← imm.toNat?; let a ← regN a 16; some (hexOfReg (mm_shuffle_epi32 a imm))
  | ["I", "unpacklo_epi64", a, b] => do let a ← regN a 16; let b ← regN b 16; some (hexOfReg (mm_unpacklo_epi64 a b))
  | ["I", "loadu_si128", off, buf] => do
      let off ← off.toNat?; let m ← memOfHex buf; some (hexOfReg (loadU32 m off 4 16))
  | ["I", "storeu_si128", a] => do
      let a ← regN a 16
      let m := storeU64 (fun _ => 0) 0 a 2
      some (showPair (m 0, m 1))
  | ["K", "fd32", variant, w, h, cs, rs, cbuf, rbuf] => do
      let w ← w.toNat?; let h ← h.toNat?; let cs ← cs.toNat?; let rs ← rs.toNat?
      let c ← memOfHex cbuf; let r ← memOfHex rbuf
      match variant with
      | "c" => some (showPair (fullDist32_c c 0 cs r 0 rs w h))
      | "avx2" => some (match fullDist32_avx2 c 0 cs r 0 rs w h with | some p => showPair p | none => "none")
      | _ => none
  | ["K", "fdz32", variant, w, h, cs, cbuf] => do
      let w ← w.toNat?; let h ← h.toNat?; let cs ← cs.toNat?
      let c ← memOfHex cbuf
      match variant with
      | "c" => some (showPair (fullDistCbfZero32_c c 0 cs w h))
      | "avx2" => some (match fullDistCbfZero32_avx2 c 0 cs w h with | some p => showPair p | none => "none")
      | _ => none
  | _ => none

def simdBMain : IO Unit := forLines fun line =>
  match simdBHandle (words line) with
  | some s => IO.println s
  | none => IO.println "?"

end Driver
