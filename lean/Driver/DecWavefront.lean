import SvtVerif.Model.DecWavefront
import Driver.Util
/- `svtmodel decwf`: line protocol shared with harness/decwf.c

   replay C0 W H R0 EN N V : toks   -> replays a schedule recorded from the REAL decode_tile / decode_tile_row on the model of one
                                       tile's reconstruction wavefront; every token must be enabled (or, for the stutter tokens,
                                       disabled) in the model, and the outcomes the real code showed (row handed out, loop left)
                                       must be the model's.  Prints the same "run" line as the harness.
     tokens: P<r> | P-  pick (row handed out / none)      X<r>  parser sets sb_recon_row_parsed[r]
             G<r>  gate spin re-evaluated, still closed   E<r>  gate spin left
             S<r>:<j>  top-right spin of column j re-evaluated, still waiting
             D<r>:<j>  spin left, decode_super_block(r, j) starts        U<r>  SB done, counter stored
             F<r>  sb_recon_row_map stored                C+ | C-  decode_tile:174 true (leave) / false (loop)
   walk KIND C0 W H EN N SEED      -> model only: one seeded random maximal schedule of a stage (KIND 0 recon 1 lf 2 cdef 3 lr);
                                       evaluates the neighbour oracle on the model's own events
   fwalk TC c.. TR r.. LFW CDEFW LRW LFEN CDEFEN LREN N SEED -> model only: one seeded random maximal schedule of a whole frame;
                                       counts rows entered before the rows they read were complete
   V = 0: arrays as digests, 1: in full                                                                           -/
namespace Driver
open DecWf

def dwMix (h : UInt64) (v : Int) : UInt64 := (h ^^^ (Int.toNat (v % 18446744073709551616)).toUInt64) * 1099511628211
def dwH0 : UInt64 := 1469598103934665603
def dwShow (v : Nat) (l : List Int) : String :=
  if v = 0 then s!"#{(l.foldl dwMix dwH0).toNat}" else "[" ++ " ".intercalate (l.map toString) ++ "]"

def isEntered : Ph → Bool
  | .unpicked => false
  | .gate => false
  | _ => true

def dwRunLine (c0 W H r0 N V : Nat) (status : String) (st : WSt) : String :=
  let rows := List.range H
  let fin : List Int := rows.map fun r => if lget st.ph r == Ph.fin then 1 else 0
  let started : List Int := rows.map fun r => if isEntered (lget st.ph r) then 1 else 0
  let log : List Int := st.log.reverse.flatMap fun p => [(p.1 : Int), (p.2 : Int)]
  s!"run {c0} {W} {H} {r0} 1 {N} : status={status} next={st.next} out={st.out} | ctr={dwShow V st.ctr} " ++
  s!"fin={dwShow 1 fin} started={dwShow 1 started} log={dwShow V log}"

/-- split "12:3" / "12" -/
def twoNats (s : String) : Option (Nat × Nat) :=
  match s.splitOn ":" with
  | [a] => a.toNat?.map fun x => (x, 0)
  | [a, b] => match a.toNat?, b.toNat? with
    | some x, some y => some (x, y)
    | _, _ => none
  | _ => none

structure RSt where
  st : WSt
  parsed : List Bool

def dwTok (s : Stage) (rs : RSt) (w : String) : Except String RSt :=
  let g : Nat → Bool := fun r => lget rs.parsed r
  let run (op : Op) : Except String WSt :=
    match step s g rs.st op with
    | some st' => .ok st'
    | none => .error "disabled"
  match w.toList with
  | [] => .error "bad-op"
  | c :: rest =>
    let arg := String.ofList rest
    if c = 'P' then
      let expect : Option Nat := if rs.st.next ≠ s.H then some rs.st.next else none
      let got : Option Nat := if arg = "-" then none else arg.toNat?
      if arg ≠ "-" ∧ got.isNone then .error "bad-op"
      else if expect ≠ got then .error "mismatch"
      else (run Op.pick).map fun st' => { rs with st := st' }
    else if c = 'C' then
      let leaves := rs.st.next = s.H
      if (arg = "+") ≠ leaves then .error "mismatch"
      else (run Op.chk).map fun st' => { rs with st := st' }
    else match twoNats arg with
      | none => .error "bad-op"
      | some (r, j) =>
        if c = 'X' then
          if r < s.H ∧ lget rs.parsed r = false ∧ (r = 0 ∨ lget rs.parsed (r - 1) = true) then
            .ok { rs with parsed := lset rs.parsed r true }
          else .error "disabled"
        else if c = 'G' then
          if lget rs.st.ph r == Ph.gate ∧ (step s g rs.st (Op.enter r)).isNone then .ok rs else .error "mismatch"
        else if c = 'E' then (run (Op.enter r)).map fun st' => { rs with st := st' }
        else if c = 'S' then
          if lget rs.st.ph r == Ph.at j ∧ (step s g rs.st (Op.dec r)).isNone then .ok rs else .error "mismatch"
        else if c = 'D' then
          if lget rs.st.ph r == Ph.at j then (run (Op.dec r)).map fun st' => { rs with st := st' } else .error "mismatch"
        else if c = 'U' then (run (Op.pub r)).map fun st' => { rs with st := st' }
        else if c = 'F' then (run (Op.fin r)).map fun st' => { rs with st := st' }
        else .error "bad-op"

def dwReplay (s : Stage) : List String → Nat → RSt → RSt × String
  | [], _, rs => (rs, "ok")
  | w :: ws, i, rs =>
    match dwTok s rs w with
    | .ok rs' => dwReplay s ws (i + 1) rs'
    | .error e => (rs, s!"{e}:{w}@{i}")

/-! ## model-only random walks -/

def rngNext (s : UInt64) : UInt64 × UInt64 :=
  let s := s + 0x9E3779B97F4A7C15
  let z := s
  let z := (z ^^^ (z >>> 30)) * 0xBF58476D1CE4E5B9
  let z := (z ^^^ (z >>> 27)) * 0x94D049BB133111EB
  (s, z ^^^ (z >>> 31))

def kindOf : Nat → Kind
  | 0 => Kind.recon
  | 1 => Kind.lf
  | 2 => Kind.cdef
  | _ => Kind.lr

/-- columns of row `r` whose processing has finished, from the phase alone -/
def doneCols (s : Stage) (p : Ph) : Nat :=
  match p with
  | .at j => j
  | .busy j => j
  | .tail => if s.en ∧ 0 < s.W then s.W else 0
  | .fin => if s.en ∧ 0 < s.W then s.W else 0
  | _ => 0

/-- neighbours of `(r, j)` not finished when `dec r` is about to be taken -/
def nbrViol (s : Stage) (st : WSt) (r j : Nat) : Nat :=
  let fin (r' j' : Nat) : Bool := j' < doneCols s (lget st.ph r')
  let c (b : Bool) : Nat := if b then 1 else 0
  c (decide (1 ≤ j) && !fin r (j - 1)) +
  c (decide (1 ≤ r) && decide (1 ≤ j) && !fin (r - 1) (j - 1)) +
  c (decide (1 ≤ r) && !fin (r - 1) j) +
  c (decide (1 ≤ r) && decide (j + 1 < s.W) && !fin (r - 1) (j + 1))

def walkStage (s : Stage) : Nat → UInt64 → WSt → Nat → Nat → (WSt × Nat × Nat × Bool)
  | 0, _, st, steps, viol => (st, steps, viol, true)
  | fuel + 1, seed, st, steps, viol =>
    let ops := enabledOps s (fun _ => true) st
    if ops.isEmpty then (st, steps, viol, false)
    else
      let (seed, z) := rngNext seed
      let op := ops.getD (z.toNat % ops.length) Op.pick
      let viol := match op with
        | Op.dec r => match lget st.ph r with
          | Ph.at j => viol + nbrViol s st r j
          | _ => viol
        | _ => viol
      match step s (fun _ => true) st op with
      | some st' => walkStage s fuel seed st' (steps + 1) viol
      | none => (st, steps, viol, true)

def walkLine (k c0 W H en N seed : Nat) : String :=
  let s : Stage := { kind := kindOf k, c0 := c0, W := W, H := H, en := en ≠ 0, n := N }
  let fuel := H * (2 * W + 6) + 2 * N + 8
  let (st, steps, viol, cut) := walkStage s fuel seed.toUInt64 (initW s) 0 0
  let Wb := if s.en ∧ 0 < W then W else 0
  let expected := (List.range H).flatMap fun r => (List.range Wb).map fun j => (r, j)
  let missing := (expected.filter fun p => !st.log.contains p).length
  let twice := st.log.length - st.log.eraseDups.length
  let unfinished := ((List.range H).filter fun r => lget st.ph r != Ph.fin).length
  s!"walk {k} {c0} {W} {H} {en} {N} {seed} : steps={steps} safe_viol={viol} twice={twice} missing={missing} " ++
  s!"unfinished_rows={unfinished} runaway={cut} out={st.out}"

/-- all candidate frame ops -/
def fAllOps (F : Frame) : List FOp :=
  let tiles := (List.range F.tiles.length).flatMap fun t =>
    let T := lget F.tiles t
    (List.range T.st.H).map (fun r => FOp.parse t r) ++ (allOps T.st).map (fun op => FOp.tile t op)
  tiles ++ (allOps F.lf).map FOp.lf ++ (allOps F.cdef).map FOp.cdef ++ (allOps F.lr).map FOp.lr

structure FViol where
  lfEarly : Nat := 0        -- LF row entered before every SB of recon rows r-1..r+1 was finished
  cdefEarlyLf : Nat := 0    -- CDEF row entered before LF rows r, r+1 were complete (LF enabled)
  cdefEarlyRecon : Nat := 0 -- CDEF row entered before recon rows r, r+1 were finished
  lrEarly : Nat := 0        -- LR row entered before CDEF rows r-1, r were complete (CDEF enabled)
  cdefBeforeLfSave : Nat := 0  -- CDEF row r entered before LF row r+1 stored its map (= before it saved stripe r's boundary lines)
  lfSaveBeforeRecon : Nat := 0 -- LF row r stores its map (saves stripe r-1's lines, two of them in SB row r-2) before recon row r-2 is done

/-- reconstruction of absolute row `R` finished in every tile column -/
def reconRowDone (F : Frame) (fs : FSt) (R : Nat) : Bool :=
  (List.range F.tiles.length).all fun t =>
    let T := lget F.tiles t
    if T.r0 ≤ R ∧ R < T.r0 + T.st.H then doneCols T.st (lget (lget fs.tiles t).ph (R - T.r0)) == T.st.W else true

def stageRowComplete (s : Stage) (st : WSt) (r : Nat) : Bool :=
  if s.en ∧ 0 < s.W then doneCols s (lget st.ph r) == s.W else true

def fCheck (F : Frame) (fs : FSt) (op : FOp) (v : FViol) : FViol :=
  let b (x : Bool) : Nat := if x then 0 else 1
  match op with
  | .lf (Op.enter r) =>
    let rows := [r] ++ (if r = 0 then [] else [r - 1]) ++ (if r + 1 < F.H then [r + 1] else [])
    { v with lfEarly := v.lfEarly + b (rows.all (reconRowDone F fs)) }
  | .cdef (Op.enter r) =>
    let rows := [r] ++ (if r + 1 < F.H then [r + 1] else [])
    { v with cdefEarlyLf := v.cdefEarlyLf + b (rows.all (stageRowComplete F.lf fs.lf)),
             cdefEarlyRecon := v.cdefEarlyRecon + b (rows.all (reconRowDone F fs)),
             cdefBeforeLfSave := v.cdefBeforeLfSave + b (decide (F.H ≤ r + 1) || lget fs.lf.ph (r + 1) == Ph.fin) }
  | .lf (Op.fin r) =>
    { v with lfSaveBeforeRecon := v.lfSaveBeforeRecon + b (decide (r < 2) || reconRowDone F fs (r - 2)) }
  | .lr (Op.enter r) =>
    let rows := [r] ++ (if r = 0 then [] else [r - 1])
    { v with lrEarly := v.lrEarly + b (rows.all (stageRowComplete F.cdef fs.cdef)) }
  | _ => v

def walkFrame (F : Frame) (cands : List FOp) : Nat → UInt64 → FSt → Nat → FViol → (FSt × Nat × FViol × Bool)
  | 0, _, fs, steps, v => (fs, steps, v, true)
  | fuel + 1, seed, fs, steps, v =>
    let ops := cands.filter fun op => (fstep F fs op).isSome
    if ops.isEmpty then (fs, steps, v, false)
    else
      let (seed, z) := rngNext seed
      let op := ops.getD (z.toNat % ops.length) (FOp.lr Op.pick)
      let v := fCheck F fs op v
      match fstep F fs op with
      | some fs' => walkFrame F cands fuel seed fs' (steps + 1) v
      | none => (fs, steps, v, true)

def fwalkLine (args : List Nat) (cs rs : List Nat) (lfW cdefW lrW lfEn cdefEn lrEn N seed : Nat) : String :=
  let F := mkFrame (0 :: cs) (0 :: rs) lfW cdefW lrW (lfEn ≠ 0) (cdefEn ≠ 0) (lrEn ≠ 0) N
  let sbs := F.tiles.foldl (fun a T => a + T.st.H * (2 * T.st.W + 8) + 2 * N + 4) 0
  let fuel := sbs + F.H * (2 * (lfW + cdefW + lrW) + 30) + 8 * N + 64
  let (fs, steps, v, cut) := walkFrame F (fAllOps F) fuel seed.toUInt64 (initF F) 0 {}
  let unfinished :=
    ((List.range F.tiles.length).foldl (fun a t =>
      a + ((List.range (lget F.tiles t).st.H).filter fun r => lget (lget fs.tiles t).ph r != Ph.fin).length) 0) +
    ((List.range F.H).filter fun r => lget fs.lf.ph r != Ph.fin).length +
    ((List.range F.H).filter fun r => lget fs.cdef.ph r != Ph.fin).length +
    ((List.range F.H).filter fun r => lget fs.lr.ph r != Ph.fin).length
  let lrDone := ((List.range F.H).filter fun r => lget fs.lrMap r).length
  "fwalk " ++ " ".intercalate (args.map toString) ++
  s!" : tiles={F.tiles.length} H={F.H} steps={steps} lf_early={v.lfEarly} cdef_early_lf={v.cdefEarlyLf} " ++
  s!"cdef_early_recon={v.cdefEarlyRecon} lr_early={v.lrEarly} cdef_before_lf_save={v.cdefBeforeLfSave} " ++
  s!"lf_save_before_recon={v.lfSaveBeforeRecon} unfinished_rows={unfinished} lr_rows_done={lrDone} runaway={cut}"

def takeN (l : List Nat) (n : Nat) : Option (List Nat × List Nat) :=
  if n ≤ l.length then some (l.take n, l.drop n) else none

def decwfMain : IO Unit := forLines fun line =>
  let ws := words line
  match ws with
  | "replay" :: rest =>
    let pre := rest.takeWhile (· ≠ ":")
    let toks := (rest.dropWhile (· ≠ ":")).drop 1
    match ints pre with
    | some [c0, w, h, r0, en, n, v] =>
      let s : Stage := { kind := Kind.recon, c0 := c0.toNat, W := w.toNat, H := h.toNat, en := en ≠ 0, n := n.toNat }
      let (rs, status) := dwReplay s toks 0 { st := initW s, parsed := List.replicate h.toNat false }
      IO.println (dwRunLine c0.toNat w.toNat h.toNat r0.toNat n.toNat v.toNat status rs.st)
    | _ => IO.println "bad-op"
  | "walk" :: rest =>
    match ints rest with
    | some [k, c0, w, h, en, n, seed] =>
      IO.println (walkLine k.toNat c0.toNat w.toNat h.toNat en.toNat n.toNat seed.toNat)
    | _ => IO.println "bad-op"
  | "fwalk" :: rest =>
    match ints rest with
    | some l =>
      let a := l.map Int.toNat
      match a with
      | tc :: r1 =>
        match takeN r1 tc with
        | some (cs, tr :: r2) =>
          match takeN r2 tr with
          | some (rs, [lfW, cdefW, lrW, lfEn, cdefEn, lrEn, n, seed]) =>
            IO.println (fwalkLine a cs rs lfW cdefW lrW lfEn cdefEn lrEn n seed)
          | _ => IO.println "bad-op"
        | _ => IO.println "bad-op"
      | _ => IO.println "bad-op"
    | none => IO.println "bad-op"
  | _ => IO.println "bad-op"

end Driver
