import SvtVerif.Gen.BufCfg
import Driver.Util
/- `svtmodel bufcfg`: the generated model of load_default_buffer_configuration_settings, same line protocol as harness/bufcfg.c
     CASE <lpCount> <numGroups> k=v ...   ->   R ret=<uint32> [name=value ...]
   (k: member path below scs_ptr or `env_cpu_flags_to_use`; members not named are 0; members are printed only when the
    model does not take the early return).
     CORE <lpCount> <numGroups> k=v ...   ->   core=<coreCount> -/
namespace Driver
open Gen.BufCfg

def bufCfgParse (ws : List String) : Option (Int × Int × Inputs) := do
  match ws with
  | a :: b :: rest =>
    let lp ← parseInt? a
    let ng ← parseInt? b
    let inp ← rest.foldlM (fun (i : Inputs) (tok : String) =>
      match tok.splitOn "=" with
      | [k, v] => do
        let x ← parseInt? v
        i.setField k x
      | _ => none) ({} : Inputs)
    pure (lp, ng, inp)
  | _ => none

def bufCfgMain : IO Unit := forLines fun line =>
  match words line with
  | "CASE" :: ws =>
    match bufCfgParse ws with
    | some (lp, ng, inp) =>
      let ret := returnCode lp ng inp
      if earlyReturn lp ng inp then
        IO.println s!"R ret={ret}"
      else
        let o := bufCfg lp ng inp
        let body := String.intercalate " " (o.dump.map fun (k, v) => s!"{k}={v}")
        IO.println s!"R ret={ret} {body}"
    | none => IO.println "bad-op"
  | "CORE" :: ws =>
    match bufCfgParse ws with
    | some (lp, ng, inp) => IO.println s!"core={coreCount lp ng inp}"
    | none => IO.println "bad-op"
  | _ => IO.println "bad-op"

end Driver
