import SvtVerif.Gen.RelDist
import Driver.Util
/- `svtmodel reldist`: each input line `en bits a b` -> the five generated copies' results -/
namespace Driver
open Gen.RelDist

def relDistMain : IO Unit := forLines fun line =>
  match ints (words line) with
  | some [en, bits, a, b] =>
    IO.println s!"{relDistInterPred en bits a b} {relDistMvp en bits a b} {relDistPd en bits a b} {relDistMdc en bits a b} {relDistDec en bits a b}"
  | _ => IO.println "bad-op"

end Driver
