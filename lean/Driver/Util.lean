/- line-protocol helpers shared by all driver subcommands (core Lean only) -/
namespace Driver

def words (line : String) : List String :=
  (line.trimAscii.toString.splitOn " ").filter (· ≠ "")

def parseInt? (s : String) : Option Int := s.toInt?

def ints (ws : List String) : Option (List Int) := ws.mapM parseInt?

/-- Read all of stdin line by line, calling `f` on each non-empty line with a threaded state. -/
partial def foldLines {σ : Type} (h : IO.FS.Stream) (s : σ) (f : σ → String → IO σ) : IO σ := do
  let line ← h.getLine
  if line.isEmpty then return s
  let s' ← f s line
  foldLines h s' f

def forLines (f : String → IO Unit) : IO Unit := do
  let h ← IO.getStdin
  let _ ← foldLines h () (fun _ l => f l)
  return ()

end Driver
