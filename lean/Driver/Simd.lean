import Driver.SimdA
import Driver.SimdB
import Driver.Util
/- `svtmodel simd`: op lines of the C07 model validation (intrinsic ops `I ...`, kernel ops `K ...`).
   The protocols are documented at the top of Driver/SimdA.lean (residual / picture-average kernels and their
   intrinsics; C side harness/simd_ops_a.c) and Driver/SimdB.lean (32-bit full-distortion kernels and their
   intrinsics; C side harness/simd_ops_b.c).  An op neither handler knows prints `unknown-op`. -/
namespace Driver

def simdMain : IO Unit := forLines fun line =>
  let ws := words line
  match simdAHandle ws with
  | some o => IO.println o
  | none =>
    match simdBHandle ws with
    | some o => IO.println o
    | none => IO.println "unknown-op"

end Driver
