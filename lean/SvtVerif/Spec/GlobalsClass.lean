/-
  C17 — REVIEWED classification of every run-time writable object with static storage duration (hand-written).

  `Gen/Globals.lean` is regenerated from the object files and the LLVM IR of every translation unit on every run; this file says,
  for every global that some function writes, which class it belongs to and WHICH functions were reviewed as its writers.
  `C17.globals_classified` (Props/C17.lean) evaluates `classOf` over the regenerated table in the kernel: a new writable global,
  or a new writer of a reviewed one, makes the theorem fail until a human has looked at it.

  Rules, in order:
   1. analysed, no writer, no writer through the pointer it holds, address never leaves the analysis  =>  writeOnceConstant
      (a table that merely lacks `const`; ~130 of them).
   2. RTCD dispatch pointers: `.bss` objects of common_dsp_rtcd.c / aom_dsp_rtcd.c whose only writer is the RTCD set-up function
      => instanceDependent: set-up stores the C version and then overrides it per flag bit of THIS instance's `use_cpu_flags`
      (encoder) / the CPU's flags (decoder).  Harmless exactly if all admissible selections are extensionally equal (property C07).
   3. the table below, matched on (file, name); the global's writers (and writers through it) must be among the reviewed ones.
-/
import SvtVerif.Model.NonInterf

namespace SvtVerif.Spec.GlobalsClass
open SvtVerif.NonInterf

structure Entry where
  file : String
  name : String
  cls : Class
  writers : List String
  note : String

def fCommon (s : String) : String := "Source/Lib/Common/Codec/" ++ s
def fEnc (s : String) : String := "Source/Lib/Encoder/Codec/" ++ s
def fDec (s : String) : String := "Source/Lib/Decoder/Codec/" ++ s

def rtcdCommon : String := fCommon "common_dsp_rtcd.c"
def rtcdEnc : String := fEnc "aom_dsp_rtcd.c"

/-- every function that allocates through EB_MALLOC_DEC / EB_CREATE_* (EbDecMemInit.h: links the new entry into the global list and
    bumps the counters through the global pointers), the handle constructor, and svt_av1_dec_deinit, which walks and frees the list -/
def decAllocFns : List String :=
  ["check_add_tplmv_buf", "check_mt_support", "copy_recon", "dec_eb_recon_picture_buffer_desc_ctor", "dec_pic_mgr_init",
   "dec_system_resource_init", "init_dec_mod_ctxt", "init_lf_ctxt", "init_lr_ctxt", "init_main_frame_ctxt", "init_parse_context",
   "mvs_8x8_memory_alloc", "reallocate_parse_context_memory", "reallocate_parse_tile_data", "svt_av1_dec_deinit", "svt_dec_handle_ctor",
   "svt_destroy_mutex", "svt_destroy_semaphore", "svt_destroy_thread"]

open Class in
def table : List Entry := [
  -- ---------------------------------------------------------------- RTCD set-up
  ⟨rtcdCommon, "first_call_setup", writeOnceConstant, ["setup_common_rtcd_internal"],
    "set to EB_FALSE by every call; the racy read only enables a debug print (assert is compiled out)"⟩,
  ⟨rtcdEnc, "first_call_setup", writeOnceConstant, ["setup_rtcd_internal"], "as above"⟩,
  ⟨rtcdCommon, "svt_av1_highbd_dr_prediction_z2", instanceDependent,
    ["setup_common_rtcd_internal", "dec_init_intra_predictors_12b_internal"],
    "RTCD pointer; additionally forced to the C kernel, process-wide and for good, by any decoder instance that meets a 12-bit sequence header"⟩,
  -- ---------------------------------------------------------------- tables copied from RTCD pointers at init (same dependence on cpu flags)
  ⟨fCommon "EbInterPrediction.c", "convolve", instanceDependent, ["asm_set_convolve_asm_table"], "copies of RTCD pointers"⟩,
  ⟨fCommon "EbInterPrediction.c", "convolveHbd", instanceDependent, ["asm_set_convolve_hbd_asm_table"], "copies of RTCD pointers"⟩,
  ⟨fCommon "EbIntraPrediction.c", "dc_pred", instanceDependent, ["init_intra_predictors_internal"], "copies of RTCD pointers"⟩,
  ⟨fCommon "EbIntraPrediction.c", "dc_pred_high", instanceDependent, ["init_intra_predictors_internal"], "copies of RTCD pointers"⟩,
  ⟨fCommon "EbIntraPrediction.c", "eb_pred", instanceDependent, ["init_intra_predictors_internal"], "copies of RTCD pointers"⟩,
  ⟨fCommon "EbIntraPrediction.c", "pred_high", instanceDependent, ["init_intra_predictors_internal"], "copies of RTCD pointers"⟩,
  ⟨fCommon "EbIntraPrediction.c", "dc_pred_c", writeOnceConstant, ["init_intra_dc_predictors_c_internal"], "C kernels only"⟩,
  ⟨fCommon "EbIntraPrediction.c", "highbd_dc_pred_c", writeOnceConstant, ["init_intra_dc_predictors_c_internal"], "C kernels only"⟩,
  ⟨fEnc "av1me.c", "mefn_ptr", instanceDependent, ["init_fn_ptr"], "copies of RTCD pointers"⟩,
  ⟨fDec "EbDecLF.c", "lbd_horz_filter_tap", instanceDependent, ["set_lbd_lf_filter_tap_functions"], "copies of RTCD pointers"⟩,
  ⟨fDec "EbDecLF.c", "lbd_vert_filter_tap", instanceDependent, ["set_lbd_lf_filter_tap_functions"], "copies of RTCD pointers"⟩,
  ⟨fDec "EbDecLF.c", "hbd_horz_filter_tap", instanceDependent, ["set_hbd_lf_filter_tap_functions"], "copies of RTCD pointers"⟩,
  ⟨fDec "EbDecLF.c", "hbd_vert_filter_tap", instanceDependent, ["set_hbd_lf_filter_tap_functions"], "copies of RTCD pointers"⟩,
  -- ---------------------------------------------------------------- wedge masks (svt_av1_init_wedge_masks, every enc/dec init)
  ⟨fCommon "EbInterPrediction.c", "wedge_mask_obl", writeOnceConstant, ["init_wedge_primary_masks", "shift_copy"],
    "every byte is stored with its final value (copies of const rows); idempotent"⟩,
  ⟨fCommon "EbInterPrediction.c", "wedge_mask_buf", writeOnceConstant, [],
    "written through aom_convolve_copy_c from wedge_mask_obl, final values only; idempotent"⟩,
  ⟨fCommon "EbInterPrediction.c", "wedge_masks", transientRebuild, ["init_wedge_masks"],
    "memset(wedge_masks, 0) and then refilled: for the duration of the refill every mask pointer another instance may fetch is NULL"⟩,
  -- ---------------------------------------------------------------- block geometry (build_blk_geom(sb_size == 128), every encoder init)
  ⟨fCommon "EbUtility.c", "max_sb", instanceDependent, ["build_blk_geom"], "64 / 128 from THIS instance's super_block_size"⟩,
  ⟨fCommon "EbUtility.c", "max_depth", instanceDependent, ["build_blk_geom"], "5 / 6"⟩,
  ⟨fCommon "EbUtility.c", "max_num_active_blocks", instanceDependent, ["build_blk_geom"], "4421 / 21000-odd"⟩,
  ⟨fCommon "EbUtility.c", "blk_geom_dps", instanceDependent, ["depth_scan_all_blks", "finish_depth_scan_all_blks"], "rebuilt for this SB size"⟩,
  ⟨fCommon "EbUtility.c", "blk_geom_mds", instanceDependent, ["md_scan_all_blks", "log_redundancy_similarity"],
    "rebuilt for this SB size; log_redundancy_similarity also resets similar/redund/list sizes to 0 before recounting (transient even for equal SB sizes)"⟩,
  -- ---------------------------------------------------------------- encoder handle
  ⟨"Source/Lib/Encoder/Globals/EbEncHandle.c", "lp_group", instanceDependent,
    ["svt_av1_enc_init_handle", "init_thread_management_params", "svt_av1_enc_deinit_handle"],
    "allocated by the first init_handle, memset + refilled by every init_handle, FREED and set to NULL by every deinit_handle; read by svt_av1_enc_init when unpin == 0"⟩,
  ⟨"Source/Lib/Encoder/Globals/EbEncHandle.c", "num_groups", writeOnceConstant, ["init_thread_management_params"],
    "max physical id + 1 of /proc/cpuinfo; monotone, same for every instance"⟩,
  ⟨"Source/Lib/Encoder/Globals/EbEncHandle.c", "group_affinity", instanceDependent, ["svt_set_thread_management_parameters"],
    "CPU set from THIS instance's logical_processors / target_socket; applied by EB_CREATE_THREAD to the threads of whichever instance creates threads next (also unpin == 1 ones)"⟩,
  ⟨"Source/Lib/Encoder/Globals/EbEncHandle.c", "enc_dec_ports", instanceDependent, ["svt_av1_enc_init"],
    "process counts of THIS instance, read back by enc_dec_port_lookup later in the same svt_av1_enc_init"⟩,
  ⟨"Source/Lib/Encoder/Globals/EbEncHandle.c", "rate_control_ports", instanceDependent, ["svt_av1_enc_init"], "as enc_dec_ports"⟩,
  -- ---------------------------------------------------------------- encoder tables
  ⟨fEnc "EbModeDecision.c", "sad_per_bit16lut_8", writeOnceConstant, ["init_me_luts_bd"], "function of the index only; final values"⟩,
  ⟨fEnc "EbModeDecision.c", "sad_per_bit_lut_10", writeOnceConstant, ["init_me_luts_bd"], "function of the index only; final values"⟩,
  ⟨fEnc "EbResize.c", "seed", instanceDependent, ["lcg_rand16"], "one PRNG state for the random super-res mode of all instances"⟩,
  -- ---------------------------------------------------------------- film grain synthesis (encoder recon output and decoder output)
  ⟨fCommon "grainSynthesis.c", "random_register", instanceDependent, ["svt_av1_add_film_grain_run", "init_random_generator", "get_random_number"], "per picture, no lock"⟩,
  ⟨fCommon "grainSynthesis.c", "grain_min", instanceDependent, ["svt_av1_add_film_grain_run"], "from the bit depth of the picture being processed"⟩,
  ⟨fCommon "grainSynthesis.c", "grain_max", instanceDependent, ["svt_av1_add_film_grain_run"], "from the bit depth of the picture being processed"⟩,
  ⟨fCommon "grainSynthesis.c", "luma_subblock_size_x", instanceDependent, ["svt_av1_add_film_grain_run"], "per picture"⟩,
  ⟨fCommon "grainSynthesis.c", "luma_subblock_size_y", instanceDependent, ["svt_av1_add_film_grain_run"], "per picture"⟩,
  ⟨fCommon "grainSynthesis.c", "chroma_subblock_size_x", instanceDependent, ["svt_av1_add_film_grain_run"], "per picture (subsampling)"⟩,
  ⟨fCommon "grainSynthesis.c", "chroma_subblock_size_y", instanceDependent, ["svt_av1_add_film_grain_run"], "per picture (subsampling)"⟩,
  ⟨fCommon "grainSynthesis.c", "scaling_lut_y", instanceDependent, ["init_arrays", "init_scaling_function"], "per picture film-grain parameters"⟩,
  ⟨fCommon "grainSynthesis.c", "scaling_lut_cb", instanceDependent, ["init_arrays", "init_scaling_function"], "per picture film-grain parameters"⟩,
  ⟨fCommon "grainSynthesis.c", "scaling_lut_cr", instanceDependent, ["init_arrays", "init_scaling_function"], "per picture film-grain parameters"⟩,
  -- ---------------------------------------------------------------- decoder handle: ONE allocation list for all decoder handles
  ⟨fDec "EbDecHandle.c", "svt_dec_memory_map", instanceDependent,
    decAllocFns,
    "list head of the handle whose constructor ran last; every EB_MALLOC_DEC of every handle links into it; svt_av1_dec_deinit walks it"⟩,
  ⟨fDec "EbDecHandle.c", "svt_dec_memory_map_index", instanceDependent,
    decAllocFns,
    "points INTO the handle constructed last"⟩,
  ⟨fDec "EbDecHandle.c", "svt_dec_total_lib_memory", instanceDependent,
    decAllocFns,
    "points INTO the handle constructed last"⟩,
  ⟨fDec "EbDecHandle.c", "svt_dec_lib_malloc_count", instanceDependent,
    decAllocFns,
    "reset by every handle constructor, incremented without a lock; a statistic that nothing reads"⟩,
  ⟨fDec "EbDecHandle.c", "memory_map_start_address", instanceDependent, ["svt_dec_handle_ctor", "dec_system_resource_init"],
    "resolution-change bookkeeping of whichever handle ran last"⟩,
  ⟨fDec "EbDecHandle.c", "memory_map_end_address", instanceDependent, ["svt_dec_handle_ctor", "dec_system_resource_init"],
    "resolution-change bookkeeping of whichever handle ran last"⟩,
  -- ---------------------------------------------------------------- logging, cpu detection, verification hooks
  ⟨fCommon "EbLog.c", "g_log_level", writeOnceConstant, ["svt_log_set_level"], "from environment SVT_LOG: the same for every instance of the process"⟩,
  ⟨fCommon "EbLog.c", "g_log_file", writeOnceConstant, ["svt_log_set_log_file", "svt_log"], "from environment SVT_LOG_FILE / stderr"⟩,
  ⟨"third_party/cpuinfo/src/init.c", "init_guard", lockedCounter, ["cpuinfo_initialize"], "pthread_once control word"⟩,
  ⟨"third_party/cpuinfo/src/x86/x86_init.c", "cpuinfo_isa", writeOnceConstant, ["cpuinfo_x86_init_processor"], "CPUID, written inside pthread_once"⟩,
  ⟨fCommon "EbThreads.c", "svt_verif_perturb_state", writeOnceConstant, ["svt_verif_perturb"], "SVT_AV1_VERIF hook: from environment SVT_VERIF_PERTURB"⟩,
  ⟨fCommon "EbThreads.c", "svt_verif_perturb_seed", writeOnceConstant, ["svt_verif_perturb"], "hook: from the environment"⟩,
  ⟨fCommon "EbThreads.c", "svt_verif_perturb_pct", writeOnceConstant, ["svt_verif_perturb"], "hook: from the environment"⟩,
  ⟨fCommon "EbThreads.c", "svt_verif_perturb_max_us", writeOnceConstant, ["svt_verif_perturb"], "hook: from the environment"⟩,
  ⟨fCommon "EbThreads.c", "svt_verif_perturb_next_tid", lockedCounter, ["svt_verif_perturb"], "hook: __atomic_add_fetch only; feeds sleep lengths, never coding decisions"⟩,
  ⟨fCommon "EbThreads.c", "s", lockedCounter, ["svt_verif_perturb"], "hook: thread-local PRNG state (one copy per thread)"⟩,
  ⟨fCommon "EbMalloc.c", "env_read", writeOnceConstant, ["svt_verif_fail_here"], "SVT_AV1_VERIF hook (C16): set to 1 once"⟩,
  ⟨fCommon "EbMalloc.c", "svt_verif_fail_at", writeOnceConstant, ["svt_verif_fail_here"], "hook: from environment SVT_VERIF_FAIL_AT (0 = inert)"⟩,
  ⟨fCommon "EbMalloc.c", "svt_verif_alloc_count", lockedCounter, ["svt_verif_fail_here"],
    "hook: __sync_add_and_fetch only; compared with svt_verif_fail_at, which is 0 unless a test asks for an allocation failure"⟩,
  ⟨fCommon "EbMalloc.c", "svt_verif_fired", lockedCounter, ["svt_verif_fail_here"], "hook: __sync_add_and_fetch only; read by test harnesses"⟩,
  ⟨fCommon "EbMalloc.c", "svt_verif_fail_file", lockedCounter, ["svt_verif_fail_here"], "hook: diagnostic record written when the injected failure fires; never read by the library"⟩,
  ⟨fCommon "EbMalloc.c", "svt_verif_fail_line", lockedCounter, ["svt_verif_fail_here"], "hook: as svt_verif_fail_file"⟩,
  ⟨fDec "EbDecParseObu.c", "svt_av1_verif_obu_trace", writeOnceConstant, ["decode_multiple_obu", "svt_av1_verif_obu_read"],
    "SVT_AV1_VERIF hook: NULL unless a test harness points it at its own buffer; the library only writes through it"⟩,
  ⟨fDec "EbDecParseBlock.c", "svt_verif_toolcount", lockedCounter, ["read_cdef", "read_lr_unit", "svt_av1_verif_dec_toolcount", "svt_verif_count_block"],
    "SVT_AV1_VERIF hook (ee172ae): per-block tool-usage counters, atomic adds only; read and reset only through the accessor called by test harnesses, never by decoding code"⟩
]

def subset (xs ys : List String) : Bool := xs.all (fun x => ys.contains x)

/-- rule 1 -/
def neverWritten (g : Global) : Bool :=
  g.analysed && g.writers.isEmpty && g.derefWriters.isEmpty && g.escapes.isEmpty

/-- rule 2 -/
def isRtcdPointer (g : Global) : Bool :=
  g.sect == ".bss" && g.derefWriters.isEmpty &&
    ((g.file == rtcdCommon && g.writers == ["setup_common_rtcd_internal"]) ||
     (g.file == rtcdEnc && g.writers == ["setup_rtcd_internal"]))

def lookup (g : Global) : Option Entry := table.find? (fun e => e.name == g.name && e.file == g.file)

def classOf (g : Global) : Class :=
  if neverWritten g then .writeOnceConstant
  else if isRtcdPointer g then .instanceDependent
  else match lookup g with
    | some e => if g.analysed && subset g.writers e.writers && subset g.derefWriters e.writers then e.cls else .unclassified
    | none => .unclassified

def harmless (c : Class) : Bool := c == .writeOnceConstant || c == .lockedCounter
def harmful (c : Class) : Bool := c == .instanceDependent || c == .transientRebuild

end SvtVerif.Spec.GlobalsClass
