/-
  C06 — reviewed exceptions of the dispatch-table obligations (hand-written; every entry carries its reason).
  A registration that fails `Dispatch.slotOk` / `Dispatch.cOk` on the current tree and is NOT listed here makes
  `C06.dispatch_slot_sound` / `C06.dispatch_c_present` fail.
-/
import SvtVerif.Model.Dispatch
namespace Spec.DispatchAllow
open _root_.Dispatch

/-- SIMD-slot functions whose name carries no recognisable instruction-set suffix, reviewed by reading the source. -/
def slotAllow : List FnName := [
  -- SET_SSE2(svt_log2f, log2f_32, Log2f_ASM)  common_dsp_rtcd.c:709.  Common/ASM_SSE2/EbPictureOperators_SSE2.asm:489-493:
  -- `or r0,1 ; bsr rax,r0 ; ret` — base x86-64 instructions only, runs on every CPU the library supports.
  name! "Log2f_ASM",
  -- SET_SSE41(svt_ext_sad_calculation_32x32_64x64, .., .._sse4_intrin)  aom_dsp_rtcd.c:368.  "sse4" without "_1":
  -- Encoder/ASM_SSE4_1/EbComputeSAD_Intrinsic_SSE4_1.c:27 uses SSE2 intrinsics plus _mm_min_epu32/_mm_extract_epi32/
  -- _mm_packus_epi32/_mm_minpos_epu16/_mm_mpsadbw_epu8 = SSE4.1 only (file compiled with -msse4.1); no SSE4.2.
  name! "svt_ext_sad_calculation_32x32_64x64_sse4_intrin"
]

/-- Pointers registered without a C reference. -/
def noCAllow : List FnName := [
  -- common_dsp_rtcd.c:511-517: `if (flags & HAS_AVX2) svt_cdef_filter_block_8x8_16 = .._avx2;` (comment in the source:
  -- "No C version, use only internal in kernel svt_cdef_filter_block_avx2()").  Its only caller is
  -- Common/ASM_AVX2/cdef_block_avx2.c:880 inside svt_cdef_filter_block_avx2, which is itself selected only when
  -- HAS_AVX2 is set — proved as `C06.noC_pointer_guarded`.
  name! "svt_cdef_filter_block_8x8_16"
]

end Spec.DispatchAllow
