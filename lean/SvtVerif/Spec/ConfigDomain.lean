/-
  HAND-WRITTEN specification of the domain accepted by svt_av1_enc_set_parameter, one conjunct per validation rule
  (numbered as the rules appear in verify_settings).  Sources: Docs/svt-av1_encoder_user_guide.md (parameter tables),
  Source/API/EbSvtAv1Enc.h member comments and, where neither documents a formula (default intra period, default and
  capped look-ahead, HME area sums, the manual prediction structure), the C code of EbEncHandle.c read by hand (the
  source lines are cited at each definition).  Where code and documentation disagree the conjunct states what the CODE
  enforces and the disagreement is a named deviation (theorems `dev_*` in Props/C12.lean, DOC_DEVIATIONS in checks/c12.py).
  Nothing in this file refers to a generated rule or helper: only the generated *structures* `Cfg`, `Scs`, `PredEntry`
  (the members of the C structures) are used.  checks/c12.py enforces that textually.
-/
import SvtVerif.Gen.Config
namespace Spec.ConfigDomain
open Gen.Config

/-! ## C integer conversions (plain `Int` arithmetic; the 2^32 wrap is explicit) -/

/-- value of a `uint32_t` that holds the low 32 bits of `x` -/
def u32 (x : Int) : Int := x % 4294967296

/-- value of an `int32_t` that holds the low 32 bits of `x` (two's complement) -/
def i32 (x : Int) : Int :=
  if x % 4294967296 < 2147483648 then x % 4294967296 else x % 4294967296 - 4294967296

/-- `a << k` before it is narrowed to 32 bits: from k = 32 on no bit of `a` survives the narrowing
    (so the power is only ever built for k < 32) -/
def shl (a k : Int) : Int := if k < 32 then a * 2 ^ k.toNat else 0

/-! ## Frame rate -/

/-- The frame rate `verify_settings` sees.  EbEncHandle.c:2409-2410: when FrameRateNumerator and FrameRateDenominator
    are both non-zero the Q16 rate is `((num << 8) / den) << 8`, every step in `uint32_t` arithmetic (both shifts can
    drop high bits); otherwise it is the member FrameRate as given. -/
def frameRate (c : Cfg) : Int :=
  if c.frame_rate_numerator ≠ 0 ∧ c.frame_rate_denominator ≠ 0 then
    u32 (u32 (c.frame_rate_numerator * 256) / c.frame_rate_denominator * 256)
  else c.frame_rate

/-- Frames per second as an integer.  User guide l.150: "If the number is less than 1000, the input frame rate is an
    integer number [...], else the input number is in Q16 format" (EbEncHandle.c:1994-1996, 2038-2040). -/
def fpsOf (fr : Int) : Int := if fr < 1000 then fr else fr / 65536

/-! ## Intra period -/

/-- EbEncHandle.c:1989-2010 `compute_default_intra_period`: "Sets the default intra period the closest possible to
    1 second without breaking the minigop": with mini-GOP size m = 2^HierarchicalLevels, `lo`/`hi` are the multiples of
    m just below (or at) and just above fps; the nearer one is taken (`hi` on a tie), minus one when IntraRefreshType = 1.
    For HierarchicalLevels ≥ 31 `1 << levels` no longer fits an `int` (the shift is undefined in C); the second branch
    transcribes the function with two's-complement wrap-around at every `int` operation, division truncating (and a
    division by the resulting 0 yielding 0). -/
def defaultIntraPeriod (fr hl refresh : Int) : Int :=
  let fps := fpsOf fr
  if hl ≤ 30 then
    let m : Int := 2 ^ hl.toNat
    let lo := fps / m * m
    let hi := lo + m
    (if hi - fps > fps - lo then lo else hi) - (if refresh = 1 then 1 else 0)
  else
    let m := i32 (shl 1 hl)
    let lo := i32 (i32 (Int.tdiv fps m) * m)
    let hi := i32 (i32 (Int.tdiv (i32 (fps + m)) m) * m)
    let abs := fun (x : Int) => if i32 x < 0 then i32 (- i32 x) else i32 x
    i32 ((if abs (fps - hi) > abs (fps - lo) then lo else hi) - (if refresh = 1 then 1 else 0))

/-- The intra period `verify_settings` sees (EbEncHandle.c:2412-2413): -2 is replaced by the default. -/
def intraPeriod (c : Cfg) : Int :=
  if c.intra_period_length = -2 then defaultIntraPeriod (frameRate c) c.hierarchical_levels c.intra_refresh_type
  else c.intra_period_length

/-! ## Look-ahead distance -/

/-- `(2 << HierarchicalLevels) + 1` as a `uint32_t` (EbEncHandle.c:2025, 2041): two mini-GOPs plus one; from 31 levels on
    the shifted 2 has left the 32 bits. -/
def maxCqpLookAhead (hl : Int) : Int := (if hl < 31 then 2 ^ (hl.toNat + 1) else 0) + 1

/-- EbEncHandle.c:2021-2031 `compute_default_look_ahead` (LookAheadDistance = (uint32_t)~0 means "default"): without rate
    control, or without a non-negative intra period, two mini-GOPs + 1 (0 when enable_tpl_la = 1: TPL_LAD is 0); else the
    intra period. -/
def defaultLookAhead (rc ip tpl hl : Int) : Int :=
  if rc = 0 ∨ ip < 0 then (if tpl = 1 then 0 else maxCqpLookAhead hl) else ip

/-- EbEncHandle.c:2033-2055 `cap_look_ahead_distance`: capped by two mini-GOPs + 1 in CQP mode, by 2 seconds otherwise,
    and by MAX_LAD = 120 always. -/
def cappedLookAhead (rc lad fr hl : Int) : Int :=
  min (if rc = 0 then min lad (maxCqpLookAhead hl) else min lad (fpsOf fr * 2)) 120

/-- The look-ahead distance `verify_settings` sees (EbEncHandle.c:2417-2429): default or capped value, then forced to 0
    when enable_tpl_la is set and the encoder is in CQP mode or reads first-pass statistics. -/
def lookAhead (c : Cfg) : Int :=
  let l := if c.look_ahead_distance = 4294967295 then
      defaultLookAhead c.rate_control_mode (intraPeriod c) c.enable_tpl_la c.hierarchical_levels
    else cappedLookAhead c.rate_control_mode c.look_ahead_distance (frameRate c) c.hierarchical_levels
  if c.enable_tpl_la ≠ 0 ∧ 0 < l ∧ (c.rate_control_mode = 0 ∨ c.rc_twopass_stats_in_sz ≠ 0) then 0 else l

/-! ## HME search areas -/

/-- the sum of the first `n` cells in `uint32_t` arithmetic (EbEncHandle.c:2484-2485, 2500-2501) -/
def hmeSum (n : Int) (a : List Int) : Int := u32 (a.take n.toNat).sum

/-- an array of the sequence control set after the first `n` cells were copied from the caller's array (EbEncHandle.c:2276-2288) -/
def copied (n : Int) (src dst : List Int) : List Int := src.take n.toNat ++ dst.drop n.toNat

/-! ## Colour format -/

/-- EbEncHandle.c:2364-2368: 4:0:0 (0) is replaced by 4:2:0 (1) before validation -/
def colorFormat (c : Cfg) : Int := if c.encoder_color_format = 0 then 1 else c.encoder_color_format

/-! ## Manual prediction structure (EbEncHandle.c:2973-3016; the only description is the error texts) -/

/-- Entry number `i` (0-based; it is picture `i + 1` of the mini-GOP) of a structure of `n` entries:
    * "Invalid decode order for manual prediction structure [0 - 31]", "Invalid temporal layer index [...] [0 - 31]";
    * "all ref frames in list1 should not exceed minigop end": picture `i + 1 - ref` is at most `n`; the difference is an
      `int32_t` one, and only the first three cells are looked at (the code clears the fourth before the test, l.2980);
    * "only forward frames can be in list0": no negative cell;
    * "there should be at least one frame within minigop": some non-zero list0 cell is at most `i + 1`. -/
def validEntry (n : Int) (i : Nat) (e : PredEntry) : Prop :=
  e.decode_order < 32 ∧ e.temporal_layer_index < 32 ∧
  (∀ j, j < 3 → i32 ((i : Int) + 1 - e.ref_list1.getD j 0) ≤ n) ∧
  (∀ j, j < 4 → 0 ≤ e.ref_list0.getD j 0) ∧
  (∃ j, j < 4 ∧ 1 ≤ e.ref_list0.getD j 0 ∧ e.ref_list0.getD j 0 ≤ (i : Int) + 1)

instance (n : Int) (i : Nat) (e : PredEntry) : Decidable (validEntry n i e) := by
  unfold validEntry; infer_instance

/-- "Invalid manual prediction structure entry number [1 - 32]" (only the upper bound is tested), and every one of the
    first `n` entries is valid. -/
def validManualPredStruct (n : Int) (es : List PredEntry) : Prop :=
  n ≤ 32 ∧ ∀ i, i < n.toNat → validEntry n i (es.getD i default)

instance (n : Int) (es : List PredEntry) : Decidable (validManualPredStruct n es) := by
  unfold validManualPredStruct; infer_instance

structure CodeDomain (s : Scs) (c : Cfg) : Prop where
  /-- EncoderMode must be in the range of [0-%d] -/
  d0 : c.enc_mode ≤ 8
  /-- ExtBlockFlag must be [0-1] -/
  d1 : c.ext_block_flag ≤ 1
  /-- Source Width must be at least 64 -/
  d2 : 64 ≤ c.source_width % 65536
  /-- Source Width must be at least 64 -/
  d3 : 64 ≤ c.source_height % 65536
  /-- Pred Structure must be [2] -/
  d4 : True
  /-- Only multiple of 8 width is supported for compressed 10-bit inputs -/
  d5 : ¬ (c.source_width % 65536 % 8 ≠ 0 ∧ c.compressed_ten_bit_format = 1)
  /-- Source Width must be even for YUV_420 colorspace -/
  d6 : c.source_width % 65536 % 2 = 0
  /-- Source Height must be even for YUV_420 colorspace -/
  d7 : c.source_height % 65536 % 2 = 0
  /-- Source Width must be less than 4096 -/
  d8 : c.source_width % 65536 ≤ 4096
  /-- Source Height must be less than 2160 -/
  d9 : c.source_height % 65536 ≤ 2160
  /-- QP must be [0 - %d] -/
  d10 : c.qp ≤ 63
  /-- Hierarchical Levels supported [0-5] -/
  d11 : (if c.enable_manual_pred_struct ≠ 0 then True else c.hierarchical_levels ≤ 5)
  /-- The intra period must be [-2, 2^31-2] (user guide l.223 IntraPeriod `[-2 - 2^31-2]`; EbEncHandle.c:2571, only tested in CQP mode; -2 stands for the default intra period) -/
  d12 : c.rate_control_mode = 0 → -2 ≤ intraPeriod c ∧ intraPeriod c ≤ 2147483646
  /-- user guide l.223: `if RateControlMode >= 1 intra-period limited to [-2, 255]` (EbEncHandle.c:2576) -/
  d13 : 1 ≤ c.rate_control_mode → -2 ≤ intraPeriod c ∧ intraPeriod c ≤ 255
  /-- Invalid intra Refresh Type [1-2] -/
  d14 : 1 ≤ c.intra_refresh_type ∧ c.intra_refresh_type ≤ 2
  /-- Invalid LoopFilterDisable. LoopFilterDisable must be [0 - 1] -/
  d15 : c.disable_dlf_flag ≤ 1
  /-- invalid use_default_me_hme. use_default_me_hme must be [0 - 1] -/
  d16 : c.use_default_me_hme ≤ 1
  /-- invalid HME. HME must be [0 - 1] -/
  d17 : c.enable_hme_flag ≤ 1
  /-- invalid enable HMELevel0. HMELevel0 must be [0 - 1] -/
  d18 : c.enable_hme_level0_flag ≤ 1
  /-- invalid enable HMELevel1. HMELevel1 must be [0 - 1] -/
  d19 : c.enable_hme_level1_flag ≤ 1
  /-- invalid enable HMELevel2. HMELevel2 must be [0 - 1] -/
  d20 : c.enable_hme_level2_flag ≤ 1
  /-- Invalid search_area_width. search_area_width must be [1 - 480] -/
  d21 : c.search_area_width ≤ 480 ∧ c.search_area_width ≠ 0
  /-- Invalid search_area_height. search_area_height must be [1 - 480] -/
  d22 : c.search_area_height ≤ 480 ∧ c.search_area_height ≠ 0
  /-- Only rate control mode 0 and 1 are supported for 2-pass -/
  d23 : c.rate_control_mode ≤ 1 ∨ (c.rc_firstpass_stats_out = 0 ∧ c.rc_twopass_stats_in_buf = 0)
  /-- Invalid number_hme_search_region_in_width. number_hme_search_region_in_width must be [1 - %d] -/
  d24 : c.enable_hme_flag ≠ 0 → (c.number_hme_search_region_in_width ≤ 2 ∧ c.number_hme_search_region_in_width ≠ 0)
  /-- Invalid number_hme_search_region_in_height. number_hme_search_region_in_height must be [1 - %d] -/
  d25 : c.enable_hme_flag ≠ 0 → (c.number_hme_search_region_in_height ≤ 2 ∧ c.number_hme_search_region_in_height ≠ 0)
  /-- Invalid hme_level0_total_search_area_height. hme_level0_total_search_area_height must be [1 - 480] -/
  d26 : c.enable_hme_flag ≠ 0 → (c.hme_level0_total_search_area_height ≤ 480 ∧ c.hme_level0_total_search_area_height ≠ 0)
  /-- Invalid hme_level0_total_search_area_width. hme_level0_total_search_area_width must be [1 - 480] -/
  d27 : c.enable_hme_flag ≠ 0 → (c.hme_level0_total_search_area_width ≤ 480 ∧ c.hme_level0_total_search_area_width ≠ 0)
  /-- `Summed values of HME area does not equal the total area` (EbEncHandle.c:2649, 2478-2491): level-0 heights of the NumberHmeSearchRegionInHeight regions add up to HmeLevel0TotalSearchAreaHeight -/
  d28 : c.enable_hme_flag ≠ 0 → hmeSum c.number_hme_search_region_in_height c.hme_level0_search_area_in_height_array = c.hme_level0_total_search_area_height
  /-- EbEncHandle.c:2651: level-0 widths of the NumberHmeSearchRegionInWidth regions add up to HmeLevel0TotalSearchAreaWidth -/
  d29 : c.enable_hme_flag ≠ 0 → hmeSum c.number_hme_search_region_in_width c.hme_level0_search_area_in_width_array = c.hme_level0_total_search_area_width
  /-- `Invalid HME Total Search Area. Must be [1 - 480]` (EbEncHandle.c:2653, 2494-2509): level-1 widths -/
  d30 : c.enable_hme_flag ≠ 0 → 1 ≤ hmeSum c.number_hme_search_region_in_width c.hme_level1_search_area_in_width_array ∧ hmeSum c.number_hme_search_region_in_width c.hme_level1_search_area_in_width_array ≤ 480
  /-- EbEncHandle.c:2655: level-1 HEIGHTS, but the code sums NumberHmeSearchRegionInWIDTH cells of the array in the sequence control set, of which only NumberHmeSearchRegionInHeight were copied from the caller (EbEncHandle.c:2283-2288) -/
  d31 : c.enable_hme_flag ≠ 0 → 1 ≤ hmeSum c.number_hme_search_region_in_width (copied c.number_hme_search_region_in_height c.hme_level1_search_area_in_height_array s.static_config_hme_level1_search_area_in_height_array) ∧ hmeSum c.number_hme_search_region_in_width (copied c.number_hme_search_region_in_height c.hme_level1_search_area_in_height_array s.static_config_hme_level1_search_area_in_height_array) ≤ 480
  /-- EbEncHandle.c:2657: level-2 widths, total in [1 - 480] -/
  d32 : c.enable_hme_flag ≠ 0 → 1 ≤ hmeSum c.number_hme_search_region_in_width c.hme_level2_search_area_in_width_array ∧ hmeSum c.number_hme_search_region_in_width c.hme_level2_search_area_in_width_array ≤ 480
  /-- EbEncHandle.c:2659: level-2 HEIGHTS summed over the WIDTH region count (same quirk as for level 1) -/
  d33 : c.enable_hme_flag ≠ 0 → 1 ≤ hmeSum c.number_hme_search_region_in_width (copied c.number_hme_search_region_in_height c.hme_level2_search_area_in_height_array s.static_config_hme_level2_search_area_in_height_array) ∧ hmeSum c.number_hme_search_region_in_width (copied c.number_hme_search_region_in_height c.hme_level2_search_area_in_height_array s.static_config_hme_level2_search_area_in_height_array) ≤ 480
  /-- The maximum allowed profile value is 2 -/
  d34 : c.profile ≤ 2
  /-- user guide l.150 `[Max allowed is 240 fps]`; EbEncHandle.c:2669 compares the Q16 rate with 240 << 16 -/
  d35 : frameRate c ≤ 15728640
  /-- `The frame rate should be greater than 0 fps` (EbEncHandle.c:2674) -/
  d36 : frameRate c ≠ 0
  /-- The rate control mode must be [0 - 2] -/
  d37 : c.rate_control_mode ≤ 2
  /-- `The rate control mode 2/3 LAD must be equal to intra_period` (EbEncHandle.c:2683; user guide l.233) -/
  d38 : (c.rate_control_mode = 2 ∨ c.rate_control_mode = 3) → 0 ≤ intraPeriod c → lookAhead c = intraPeriod c
  /-- user guide l.233 LookAheadDistance `[0 - 120]`; EbEncHandle.c:2687 (tested after the defaulting/capping of copy_api_from_app) -/
  d39 : lookAhead c ≤ 120 ∨ lookAhead c = 4294967295
  /-- Log2Tile rows/cols must be [0 - 6] -/
  d40 : c.tile_rows % 4294967296 ≤ 6 ∧ c.tile_columns % 4294967296 ≤ 6
  /-- `MaxTiles is 128 and MaxTileCols is 16 (Annex A.3)` (EbEncHandle.c:2696): 2^rows * 2^cols ≤ 128 and 2^cols ≤ 16, for log2 values already in [0, 6] (d40) -/
  d41 : c.tile_columns ≤ 4 ∧ c.tile_rows + c.tile_columns ≤ 7
  /-- Invalid Unrestricted Motion Vector flag [0 - 1] -/
  d42 : c.unrestricted_motion_vector ≤ 1
  /-- Scene change detection is currently not supported -/
  d43 : c.scene_change_detection = 0
  /-- MaxQpAllowed must be [0 - %d] -/
  d44 : (if c.rate_control_mode ≠ 0 then c.max_qp_allowed ≤ 63 ∧ c.min_qp_allowed < 63 ∧ c.min_qp_allowed ≤ c.max_qp_allowed else True)
  /-- Invalid StatReport. StatReport must be [0 - 1] -/
  d45 : c.stat_report ≤ 1
  /-- Invalid HighDynamicRangeInput. HighDynamicRangeInput must be [0 - 1] -/
  d46 : c.high_dynamic_range_input ≤ 1
  /-- Invalid screen_content_mode. screen_content_mode must be [0 - 2] -/
  d47 : c.screen_content_mode ≤ 2
  /-- Invalid intraBC mode [0-3, -1 for default], your input: %i -/
  d48 : -1 ≤ c.intrabc_mode ∧ c.intrabc_mode ≤ 3
  /-- The intra BC feature is only available when screen_content_mode is set to 1 -/
  d49 : c.intrabc_mode = -1 ∨ c.screen_content_mode = 1
  /-- Invalid enable_adaptive_quantization. enable_adaptive_quantization must be [0-2] -/
  d50 : c.enable_adaptive_quantization ≤ 2
  /-- Encoder Bit Depth shall be only 8 or 10 -/
  d51 : c.encoder_bit_depth = 8 ∨ c.encoder_bit_depth = 10
  /-- The encoder bit depth shall be equal to 8 or 10 for Main/High Profile -/
  d52 : ¬ ((c.profile = 0 ∨ c.profile = 1) ∧ 10 < c.encoder_bit_depth)
  /-- Only support 420 now -/
  d53 : c.encoder_color_format = 0 ∨ c.encoder_color_format = 1
  /-- `Non 420 color format requires profile 1 or 2` (EbEncHandle.c:2771; 4:0:0 has been turned into 4:2:0 by then) -/
  d54 : c.profile = 0 → colorFormat c ≤ 1
  /-- `Profile 1 requires 4:4:4 color format` (EbEncHandle.c:2776) -/
  d55 : c.profile = 1 → colorFormat c = 3
  /-- `Profile 2 bit-depth < 10 requires 4:2:2 color format` (EbEncHandle.c:2781; the test is bit depth ≤ 10) -/
  d56 : c.profile = 2 ∧ c.encoder_bit_depth ≤ 10 → colorFormat c = 2
  /-- Compressed ten bit format is not supported in this version -/
  d57 : c.compressed_ten_bit_format = 0
  /-- Invalid Speed Control flag [0 - 1] -/
  d58 : c.speed_control_flag ≤ 1
  /-- `param '--asm' have invalid value` (EbEncHandle.c:2797; EbSvtAv1.h:319 CPU_FLAGS_INVALID = the top bit of the 64-bit flag word) -/
  d59 : c.use_cpu_flags % 18446744073709551616 < 9223372036854775808
  /-- Invalid target_socket. target_socket must be [-1 - 1] -/
  d60 : c.target_socket = -1 ∨ c.target_socket = 0 ∨ c.target_socket = 1
  /-- invalid altref-strength, should be in the range [0 - %d] -/
  d61 : c.altref_strength ≤ 6
  /-- invalid altref-nframes, should be in the range [0 - %d] -/
  d62 : c.altref_nframes ≤ 13
  /-- Invalid warped motion flag [0/1, -1], your input: %d -/
  d63 : c.enable_warped_motion = 0 ∨ c.enable_warped_motion = 1 ∨ c.enable_warped_motion = -1
  /-- Invalid global motion flag [0 - 1], your input: %d -/
  d64 : c.enable_global_motion = 0 ∨ c.enable_global_motion = 1
  /-- Invalid OBMC flag [-1, 0, 1, 2, 3], your input: %d -/
  d65 : -1 ≤ c.obmc_level ∧ c.obmc_level ≤ 3
  /-- Invalid Filter Intra flag [0 - 1], your input: %d -/
  d66 : -1 ≤ c.filter_intra_level ∧ c.filter_intra_level ≤ 1
  /-- Invalid Filter Intra flag [0/1, -1], your input: %d -/
  d67 : c.enable_intra_edge_filter = 0 ∨ c.enable_intra_edge_filter = 1 ∨ c.enable_intra_edge_filter = -1
  /-- Invalid pic_based_rate_est [0/1, -1], your input: %d -/
  d68 : 1 < c.logical_processors ∨ c.pic_based_rate_est = 0 ∨ c.pic_based_rate_est = 1 ∨ c.pic_based_rate_est = -1
  /-- `Invalid HBD mode decision flag [-1 - 2]` (EbEncHandle.c:2854; with an 8-bit encoder the member is replaced by 0 first, EbEncHandle.c:2322, i.e. not validated) -/
  d69 : 8 < c.encoder_bit_depth → -1 ≤ c.enable_hbd_mode_decision ∧ c.enable_hbd_mode_decision ≤ 2
  /-- Invalid Palette Mode [0 .. 6], your input: %i -/
  d70 : -1 ≤ c.palette_level ∧ c.palette_level ≤ 6
  /-- Invalid RDOQ parameter [-1, 0, 1], your input: %i -/
  d71 : c.rdoq_level = 0 ∨ c.rdoq_level = 1 ∨ c.rdoq_level = -1
  /-- Invalid Chroma Mode [0 - 3, -1 for auto], your input: %d -/
  d72 : -1 ≤ c.set_chroma_mode ∧ c.set_chroma_mode ≤ 3
  /-- Invalid CFL flag [0/1, -1], your input: %i -/
  d73 : c.disable_cfl_flag = 0 ∨ c.disable_cfl_flag = 1 ∨ c.disable_cfl_flag = -1
  /-- Invalid CDEF level [0 - 4, -1 for auto], your input: %d -/
  d74 : -1 ≤ c.cdef_level ∧ c.cdef_level ≤ 4
  /-- Invalid restoration flag [0 - 1, -1 for auto], your input: %d -/
  d75 : c.enable_restoration_filtering = 0 ∨ c.enable_restoration_filtering = 1 ∨ c.enable_restoration_filtering = -1
  /-- Invalid self-guided filter mode [0 - 4, -1 for auto], your input: %d -/
  d76 : -1 ≤ c.sg_filter_mode ∧ c.sg_filter_mode ≤ 4
  /-- Invalid Wiener filter mode [0 - 3, -1 for auto], your input: %d -/
  d77 : -1 ≤ c.wn_filter_mode ∧ c.wn_filter_mode ≤ 3
  /-- Invalid predictive me level [0-5, -1 for auto], your input: %d -/
  d78 : -1 ≤ c.pred_me ∧ c.pred_me ≤ 5
  /-- Invalid bipred_3x3_inject mode [0-2, -1 for auto], your input: %d -/
  d79 : -1 ≤ c.bipred_3x3_inject ∧ c.bipred_3x3_inject ≤ 2
  /-- Invalid compound level [0-2, -1 for auto], your input: %d -/
  d80 : -1 ≤ c.compound_level ∧ c.compound_level ≤ 2
  /-- Invalid Enable intra angle delta flag [0/1 or -1 for auto], your input: %d -/
  d81 : c.intra_angle_delta = 0 ∨ c.intra_angle_delta = 1 ∨ c.intra_angle_delta = -1
  /-- Invalid Inter Intra Compound flag [0/1 or -1 for auto], your input: %d -/
  d82 : c.inter_intra_compound = 0 ∨ c.inter_intra_compound = 1 ∨ c.inter_intra_compound = -1
  /-- Invalid Paeth flag [0/1 or -1 for auto], your input: %d -/
  d83 : c.enable_paeth = 0 ∨ c.enable_paeth = 1 ∨ c.enable_paeth = -1
  /-- Invalid Smooth flag [0/1 or -1 for auto], your input: %d -/
  d84 : c.enable_smooth = 0 ∨ c.enable_smooth = 1 ∨ c.enable_smooth = -1
  /-- Invalid motion field motion vector flag [0/1 or -1 for auto], your input: %d -/
  d85 : c.enable_mfmv = 0 ∨ c.enable_mfmv = 1 ∨ c.enable_mfmv = -1
  /-- Invalid enable_redundant_blk flag [0/1 or -1 for auto], your input: %d -/
  d86 : c.enable_redundant_blk = 0 ∨ c.enable_redundant_blk = 1 ∨ c.enable_redundant_blk = -1
  /-- Invalid spatial_sse_fl flag [0/1 or -1 for auto], your input: %d -/
  d87 : c.spatial_sse_full_loop_level = 0 ∨ c.spatial_sse_full_loop_level = 1 ∨ c.spatial_sse_full_loop_level = -1
  /-- Invalid over_bndry_blk flag [0/1 or -1 for auto], your input: %d -/
  d88 : c.over_bndry_blk = 0 ∨ c.over_bndry_blk = 1 ∨ c.over_bndry_blk = -1
  /-- Invalid new_nearest_comb_inject flag [0/1 or -1 for auto], your input: %d -/
  d89 : c.new_nearest_comb_inject = 0 ∨ c.new_nearest_comb_inject = 1 ∨ c.new_nearest_comb_inject = -1
  /-- Invalid nsq_table flag [0/1 or -1 for auto], your input: %d -/
  d90 : c.nsq_table = 0 ∨ c.nsq_table = 1 ∨ c.nsq_table = -1
  /-- Invalid frame_end_cdf_update flag [0/1 or -1 for auto], your input: %d -/
  d91 : c.frame_end_cdf_update = 0 ∨ c.frame_end_cdf_update = 1 ∨ c.frame_end_cdf_update = -1
  /-- manual prediction structure (EbEncHandle.c:2973-3016) -/
  d92 : c.enable_manual_pred_struct = 0 ∨ validManualPredStruct c.manual_pred_struct_entry_num c.pred_struct
  /-- invalid superres-mode %d, should be in the range [%d - %d], only SUPERRES_NONE (0), SUPERRES_FIXED ( -/
  d93 : c.superres_mode ≤ 2
  /-- superres is not supported for 2-pass -/
  d94 : c.superres_mode ≤ 0 ∨ (c.rc_twopass_stats_in_sz = 0 ∧ c.rc_firstpass_stats_out = 0)
  /-- invalid superres-qthres %d, should be in the range [%d - %d] -/
  d95 : c.superres_qthres ≤ 63
  /-- invalid superres-kf-denom %d, should be in the range [%d - %d] -/
  d96 : 8 ≤ c.superres_kf_denom ∧ c.superres_kf_denom ≤ 16
  /-- invalid superres-denom %d, should be in the range [%d - %d] -/
  d97 : 8 ≤ c.superres_denom ∧ c.superres_denom ≤ 16

/-- executable form of the same conjuncts (used by the driver to evaluate the specification on concrete inputs) -/
def codeDomainChecks : List (Scs → Cfg → Bool) := [
  fun s c => decide (c.enc_mode ≤ 8),
  fun s c => decide (c.ext_block_flag ≤ 1),
  fun s c => decide (64 ≤ c.source_width % 65536),
  fun s c => decide (64 ≤ c.source_height % 65536),
  fun s c => decide (True),
  fun s c => decide (¬ (c.source_width % 65536 % 8 ≠ 0 ∧ c.compressed_ten_bit_format = 1)),
  fun s c => decide (c.source_width % 65536 % 2 = 0),
  fun s c => decide (c.source_height % 65536 % 2 = 0),
  fun s c => decide (c.source_width % 65536 ≤ 4096),
  fun s c => decide (c.source_height % 65536 ≤ 2160),
  fun s c => decide (c.qp ≤ 63),
  fun s c => decide ((if c.enable_manual_pred_struct ≠ 0 then True else c.hierarchical_levels ≤ 5)),
  fun s c => decide (c.rate_control_mode = 0 → -2 ≤ intraPeriod c ∧ intraPeriod c ≤ 2147483646),
  fun s c => decide (1 ≤ c.rate_control_mode → -2 ≤ intraPeriod c ∧ intraPeriod c ≤ 255),
  fun s c => decide (1 ≤ c.intra_refresh_type ∧ c.intra_refresh_type ≤ 2),
  fun s c => decide (c.disable_dlf_flag ≤ 1),
  fun s c => decide (c.use_default_me_hme ≤ 1),
  fun s c => decide (c.enable_hme_flag ≤ 1),
  fun s c => decide (c.enable_hme_level0_flag ≤ 1),
  fun s c => decide (c.enable_hme_level1_flag ≤ 1),
  fun s c => decide (c.enable_hme_level2_flag ≤ 1),
  fun s c => decide (c.search_area_width ≤ 480 ∧ c.search_area_width ≠ 0),
  fun s c => decide (c.search_area_height ≤ 480 ∧ c.search_area_height ≠ 0),
  fun s c => decide (c.rate_control_mode ≤ 1 ∨ (c.rc_firstpass_stats_out = 0 ∧ c.rc_twopass_stats_in_buf = 0)),
  fun s c => decide (c.enable_hme_flag ≠ 0 → (c.number_hme_search_region_in_width ≤ 2 ∧ c.number_hme_search_region_in_width ≠ 0)),
  fun s c => decide (c.enable_hme_flag ≠ 0 → (c.number_hme_search_region_in_height ≤ 2 ∧ c.number_hme_search_region_in_height ≠ 0)),
  fun s c => decide (c.enable_hme_flag ≠ 0 → (c.hme_level0_total_search_area_height ≤ 480 ∧ c.hme_level0_total_search_area_height ≠ 0)),
  fun s c => decide (c.enable_hme_flag ≠ 0 → (c.hme_level0_total_search_area_width ≤ 480 ∧ c.hme_level0_total_search_area_width ≠ 0)),
  fun s c => decide (c.enable_hme_flag ≠ 0 → hmeSum c.number_hme_search_region_in_height c.hme_level0_search_area_in_height_array = c.hme_level0_total_search_area_height),
  fun s c => decide (c.enable_hme_flag ≠ 0 → hmeSum c.number_hme_search_region_in_width c.hme_level0_search_area_in_width_array = c.hme_level0_total_search_area_width),
  fun s c => decide (c.enable_hme_flag ≠ 0 → 1 ≤ hmeSum c.number_hme_search_region_in_width c.hme_level1_search_area_in_width_array ∧ hmeSum c.number_hme_search_region_in_width c.hme_level1_search_area_in_width_array ≤ 480),
  fun s c => decide (c.enable_hme_flag ≠ 0 → 1 ≤ hmeSum c.number_hme_search_region_in_width (copied c.number_hme_search_region_in_height c.hme_level1_search_area_in_height_array s.static_config_hme_level1_search_area_in_height_array) ∧ hmeSum c.number_hme_search_region_in_width (copied c.number_hme_search_region_in_height c.hme_level1_search_area_in_height_array s.static_config_hme_level1_search_area_in_height_array) ≤ 480),
  fun s c => decide (c.enable_hme_flag ≠ 0 → 1 ≤ hmeSum c.number_hme_search_region_in_width c.hme_level2_search_area_in_width_array ∧ hmeSum c.number_hme_search_region_in_width c.hme_level2_search_area_in_width_array ≤ 480),
  fun s c => decide (c.enable_hme_flag ≠ 0 → 1 ≤ hmeSum c.number_hme_search_region_in_width (copied c.number_hme_search_region_in_height c.hme_level2_search_area_in_height_array s.static_config_hme_level2_search_area_in_height_array) ∧ hmeSum c.number_hme_search_region_in_width (copied c.number_hme_search_region_in_height c.hme_level2_search_area_in_height_array s.static_config_hme_level2_search_area_in_height_array) ≤ 480),
  fun s c => decide (c.profile ≤ 2),
  fun s c => decide (frameRate c ≤ 15728640),
  fun s c => decide (frameRate c ≠ 0),
  fun s c => decide (c.rate_control_mode ≤ 2),
  fun s c => decide ((c.rate_control_mode = 2 ∨ c.rate_control_mode = 3) → 0 ≤ intraPeriod c → lookAhead c = intraPeriod c),
  fun s c => decide (lookAhead c ≤ 120 ∨ lookAhead c = 4294967295),
  fun s c => decide (c.tile_rows % 4294967296 ≤ 6 ∧ c.tile_columns % 4294967296 ≤ 6),
  fun s c => decide (c.tile_columns ≤ 4 ∧ c.tile_rows + c.tile_columns ≤ 7),
  fun s c => decide (c.unrestricted_motion_vector ≤ 1),
  fun s c => decide (c.scene_change_detection = 0),
  fun s c => decide ((if c.rate_control_mode ≠ 0 then c.max_qp_allowed ≤ 63 ∧ c.min_qp_allowed < 63 ∧ c.min_qp_allowed ≤ c.max_qp_allowed else True)),
  fun s c => decide (c.stat_report ≤ 1),
  fun s c => decide (c.high_dynamic_range_input ≤ 1),
  fun s c => decide (c.screen_content_mode ≤ 2),
  fun s c => decide (-1 ≤ c.intrabc_mode ∧ c.intrabc_mode ≤ 3),
  fun s c => decide (c.intrabc_mode = -1 ∨ c.screen_content_mode = 1),
  fun s c => decide (c.enable_adaptive_quantization ≤ 2),
  fun s c => decide (c.encoder_bit_depth = 8 ∨ c.encoder_bit_depth = 10),
  fun s c => decide (¬ ((c.profile = 0 ∨ c.profile = 1) ∧ 10 < c.encoder_bit_depth)),
  fun s c => decide (c.encoder_color_format = 0 ∨ c.encoder_color_format = 1),
  fun s c => decide (c.profile = 0 → colorFormat c ≤ 1),
  fun s c => decide (c.profile = 1 → colorFormat c = 3),
  fun s c => decide (c.profile = 2 ∧ c.encoder_bit_depth ≤ 10 → colorFormat c = 2),
  fun s c => decide (c.compressed_ten_bit_format = 0),
  fun s c => decide (c.speed_control_flag ≤ 1),
  fun s c => decide (c.use_cpu_flags % 18446744073709551616 < 9223372036854775808),
  fun s c => decide (c.target_socket = -1 ∨ c.target_socket = 0 ∨ c.target_socket = 1),
  fun s c => decide (c.altref_strength ≤ 6),
  fun s c => decide (c.altref_nframes ≤ 13),
  fun s c => decide (c.enable_warped_motion = 0 ∨ c.enable_warped_motion = 1 ∨ c.enable_warped_motion = -1),
  fun s c => decide (c.enable_global_motion = 0 ∨ c.enable_global_motion = 1),
  fun s c => decide (-1 ≤ c.obmc_level ∧ c.obmc_level ≤ 3),
  fun s c => decide (-1 ≤ c.filter_intra_level ∧ c.filter_intra_level ≤ 1),
  fun s c => decide (c.enable_intra_edge_filter = 0 ∨ c.enable_intra_edge_filter = 1 ∨ c.enable_intra_edge_filter = -1),
  fun s c => decide (1 < c.logical_processors ∨ c.pic_based_rate_est = 0 ∨ c.pic_based_rate_est = 1 ∨ c.pic_based_rate_est = -1),
  fun s c => decide (8 < c.encoder_bit_depth → -1 ≤ c.enable_hbd_mode_decision ∧ c.enable_hbd_mode_decision ≤ 2),
  fun s c => decide (-1 ≤ c.palette_level ∧ c.palette_level ≤ 6),
  fun s c => decide (c.rdoq_level = 0 ∨ c.rdoq_level = 1 ∨ c.rdoq_level = -1),
  fun s c => decide (-1 ≤ c.set_chroma_mode ∧ c.set_chroma_mode ≤ 3),
  fun s c => decide (c.disable_cfl_flag = 0 ∨ c.disable_cfl_flag = 1 ∨ c.disable_cfl_flag = -1),
  fun s c => decide (-1 ≤ c.cdef_level ∧ c.cdef_level ≤ 4),
  fun s c => decide (c.enable_restoration_filtering = 0 ∨ c.enable_restoration_filtering = 1 ∨ c.enable_restoration_filtering = -1),
  fun s c => decide (-1 ≤ c.sg_filter_mode ∧ c.sg_filter_mode ≤ 4),
  fun s c => decide (-1 ≤ c.wn_filter_mode ∧ c.wn_filter_mode ≤ 3),
  fun s c => decide (-1 ≤ c.pred_me ∧ c.pred_me ≤ 5),
  fun s c => decide (-1 ≤ c.bipred_3x3_inject ∧ c.bipred_3x3_inject ≤ 2),
  fun s c => decide (-1 ≤ c.compound_level ∧ c.compound_level ≤ 2),
  fun s c => decide (c.intra_angle_delta = 0 ∨ c.intra_angle_delta = 1 ∨ c.intra_angle_delta = -1),
  fun s c => decide (c.inter_intra_compound = 0 ∨ c.inter_intra_compound = 1 ∨ c.inter_intra_compound = -1),
  fun s c => decide (c.enable_paeth = 0 ∨ c.enable_paeth = 1 ∨ c.enable_paeth = -1),
  fun s c => decide (c.enable_smooth = 0 ∨ c.enable_smooth = 1 ∨ c.enable_smooth = -1),
  fun s c => decide (c.enable_mfmv = 0 ∨ c.enable_mfmv = 1 ∨ c.enable_mfmv = -1),
  fun s c => decide (c.enable_redundant_blk = 0 ∨ c.enable_redundant_blk = 1 ∨ c.enable_redundant_blk = -1),
  fun s c => decide (c.spatial_sse_full_loop_level = 0 ∨ c.spatial_sse_full_loop_level = 1 ∨ c.spatial_sse_full_loop_level = -1),
  fun s c => decide (c.over_bndry_blk = 0 ∨ c.over_bndry_blk = 1 ∨ c.over_bndry_blk = -1),
  fun s c => decide (c.new_nearest_comb_inject = 0 ∨ c.new_nearest_comb_inject = 1 ∨ c.new_nearest_comb_inject = -1),
  fun s c => decide (c.nsq_table = 0 ∨ c.nsq_table = 1 ∨ c.nsq_table = -1),
  fun s c => decide (c.frame_end_cdf_update = 0 ∨ c.frame_end_cdf_update = 1 ∨ c.frame_end_cdf_update = -1),
  fun s c => decide (c.enable_manual_pred_struct = 0 ∨ validManualPredStruct c.manual_pred_struct_entry_num c.pred_struct),
  fun s c => decide (c.superres_mode ≤ 2),
  fun s c => decide (c.superres_mode ≤ 0 ∨ (c.rc_twopass_stats_in_sz = 0 ∧ c.rc_firstpass_stats_out = 0)),
  fun s c => decide (c.superres_qthres ≤ 63),
  fun s c => decide (8 ≤ c.superres_kf_denom ∧ c.superres_kf_denom ≤ 16),
  fun s c => decide (8 ≤ c.superres_denom ∧ c.superres_denom ≤ 16)]

def codeDomainB (s : Scs) (c : Cfg) : Bool := codeDomainChecks.all (fun p => p s c)

end Spec.ConfigDomain
