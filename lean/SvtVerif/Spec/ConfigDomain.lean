/-
  HAND-WRITTEN specification of the domain accepted by svt_av1_enc_set_parameter, one conjunct per
  validation rule (numbered as the rules appear in verify_settings).  Sources: Docs/svt-av1_encoder_user_guide.md
  (parameter tables) and Source/API/EbSvtAv1Enc.h member comments; where code and documentation disagree the
  conjunct states what the CODE enforces and the disagreement is listed in `Deviations` below (known findings F10).
  Conjuncts marked `code-defined` have no independent documented formula (derived quantities such as the
  default intra period / look-ahead, the HME area sums, the effective frame rate): they are stated through the
  generated term itself and are therefore NOT independently specified.
-/
import SvtVerif.Gen.Config
namespace Spec.ConfigDomain
open Gen.Config

structure CodeDomain (s : Scs) (c : Cfg) : Prop where
  /-- EncoderMode must be in the range of [0-%d] -/
  d0 : c.enc_mode ≤ 8
  /-- ExtBlockFlag must be [0-1] -/
  d1 : c.ext_block_flag ≤ 1
  /-- Source Width must be at least 64 -/
  d2 : 64 ≤ c.source_width % 65536
  /-- Source Width must be at least 64 -/
  d3 : 64 ≤ c.source_height % 65536
  /-- Pred Structure must be [2] -/
  d4 : True
  /-- Only multiple of 8 width is supported for compressed 10-bit inputs -/
  d5 : ¬ (c.source_width % 65536 % 8 ≠ 0 ∧ c.compressed_ten_bit_format = 1)
  /-- Source Width must be even for YUV_420 colorspace -/
  d6 : c.source_width % 65536 % 2 = 0
  /-- Source Height must be even for YUV_420 colorspace -/
  d7 : c.source_height % 65536 % 2 = 0
  /-- Source Width must be less than 4096 -/
  d8 : c.source_width % 65536 ≤ 4096
  /-- Source Height must be less than 2160 -/
  d9 : c.source_height % 65536 ≤ 2160
  /-- QP must be [0 - %d] -/
  d10 : c.qp ≤ 63
  /-- Hierarchical Levels supported [0-5] -/
  d11 : (if c.enable_manual_pred_struct ≠ 0 then True else c.hierarchical_levels ≤ 5)
  /-- The intra period must be [-2, 2^31-2]   (code-defined) -/
  d12 : rej12 s c = false
  /-- The intra period must be [-2, 255] for RateControlMode %d   (code-defined) -/
  d13 : rej13 s c = false
  /-- Invalid intra Refresh Type [1-2] -/
  d14 : 1 ≤ c.intra_refresh_type ∧ c.intra_refresh_type ≤ 2
  /-- Invalid LoopFilterDisable. LoopFilterDisable must be [0 - 1] -/
  d15 : c.disable_dlf_flag ≤ 1
  /-- invalid use_default_me_hme. use_default_me_hme must be [0 - 1] -/
  d16 : c.use_default_me_hme ≤ 1
  /-- invalid HME. HME must be [0 - 1] -/
  d17 : c.enable_hme_flag ≤ 1
  /-- invalid enable HMELevel0. HMELevel0 must be [0 - 1] -/
  d18 : c.enable_hme_level0_flag ≤ 1
  /-- invalid enable HMELevel1. HMELevel1 must be [0 - 1] -/
  d19 : c.enable_hme_level1_flag ≤ 1
  /-- invalid enable HMELevel2. HMELevel2 must be [0 - 1] -/
  d20 : c.enable_hme_level2_flag ≤ 1
  /-- Invalid search_area_width. search_area_width must be [1 - 480] -/
  d21 : c.search_area_width ≤ 480 ∧ c.search_area_width ≠ 0
  /-- Invalid search_area_height. search_area_height must be [1 - 480] -/
  d22 : c.search_area_height ≤ 480 ∧ c.search_area_height ≠ 0
  /-- Only rate control mode 0 and 1 are supported for 2-pass -/
  d23 : c.rate_control_mode ≤ 1 ∨ (c.rc_firstpass_stats_out = 0 ∧ c.rc_twopass_stats_in_buf = 0)
  /-- Invalid number_hme_search_region_in_width. number_hme_search_region_in_width must be [1 - %d] -/
  d24 : c.enable_hme_flag ≠ 0 → (c.number_hme_search_region_in_width ≤ 2 ∧ c.number_hme_search_region_in_width ≠ 0)
  /-- Invalid number_hme_search_region_in_height. number_hme_search_region_in_height must be [1 - %d] -/
  d25 : c.enable_hme_flag ≠ 0 → (c.number_hme_search_region_in_height ≤ 2 ∧ c.number_hme_search_region_in_height ≠ 0)
  /-- Invalid hme_level0_total_search_area_height. hme_level0_total_search_area_height must be [1 - 480] -/
  d26 : c.enable_hme_flag ≠ 0 → (c.hme_level0_total_search_area_height ≤ 480 ∧ c.hme_level0_total_search_area_height ≠ 0)
  /-- Invalid hme_level0_total_search_area_width. hme_level0_total_search_area_width must be [1 - 480] -/
  d27 : c.enable_hme_flag ≠ 0 → (c.hme_level0_total_search_area_width ≤ 480 ∧ c.hme_level0_total_search_area_width ≠ 0)
  /--    (code-defined) -/
  d28 : rej28 s c = false
  /--    (code-defined) -/
  d29 : rej29 s c = false
  /--    (code-defined) -/
  d30 : rej30 s c = false
  /--    (code-defined) -/
  d31 : rej31 s c = false
  /--    (code-defined) -/
  d32 : rej32 s c = false
  /--    (code-defined) -/
  d33 : rej33 s c = false
  /-- The maximum allowed profile value is 2 -/
  d34 : c.profile ≤ 2
  /-- The maximum allowed frame rate is 240 fps   (code-defined) -/
  d35 : rej35 s c = false
  /-- The frame rate should be greater than 0 fps   (code-defined) -/
  d36 : rej36 s c = false
  /-- The rate control mode must be [0 - 2] -/
  d37 : c.rate_control_mode ≤ 2
  /-- The rate control mode 2/3 LAD must be equal to intra_period   (code-defined) -/
  d38 : rej38 s c = false
  /-- The lookahead distance must be [0 - %d]   (code-defined) -/
  d39 : rej39 s c = false
  /-- Log2Tile rows/cols must be [0 - 6] -/
  d40 : c.tile_rows % 4294967296 ≤ 6 ∧ c.tile_columns % 4294967296 ≤ 6
  /-- MaxTiles is 128 and MaxTileCols is 16 (Annex A.3)   (code-defined) -/
  d41 : rej41 s c = false
  /-- Invalid Unrestricted Motion Vector flag [0 - 1] -/
  d42 : c.unrestricted_motion_vector ≤ 1
  /-- Scene change detection is currently not supported -/
  d43 : c.scene_change_detection = 0
  /-- MaxQpAllowed must be [0 - %d] -/
  d44 : (if c.rate_control_mode ≠ 0 then c.max_qp_allowed ≤ 63 ∧ c.min_qp_allowed < 63 ∧ c.min_qp_allowed ≤ c.max_qp_allowed else True)
  /-- Invalid StatReport. StatReport must be [0 - 1] -/
  d45 : c.stat_report ≤ 1
  /-- Invalid HighDynamicRangeInput. HighDynamicRangeInput must be [0 - 1] -/
  d46 : c.high_dynamic_range_input ≤ 1
  /-- Invalid screen_content_mode. screen_content_mode must be [0 - 2] -/
  d47 : c.screen_content_mode ≤ 2
  /-- Invalid intraBC mode [0-3, -1 for default], your input: %i -/
  d48 : -1 ≤ c.intrabc_mode ∧ c.intrabc_mode ≤ 3
  /-- The intra BC feature is only available when screen_content_mode is set to 1 -/
  d49 : c.intrabc_mode = -1 ∨ c.screen_content_mode = 1
  /-- Invalid enable_adaptive_quantization. enable_adaptive_quantization must be [0-2] -/
  d50 : c.enable_adaptive_quantization ≤ 2
  /-- Encoder Bit Depth shall be only 8 or 10 -/
  d51 : c.encoder_bit_depth = 8 ∨ c.encoder_bit_depth = 10
  /-- The encoder bit depth shall be equal to 8 or 10 for Main/High Profile -/
  d52 : ¬ ((c.profile = 0 ∨ c.profile = 1) ∧ 10 < c.encoder_bit_depth)
  /-- Only support 420 now -/
  d53 : c.encoder_color_format = 0 ∨ c.encoder_color_format = 1
  /-- Non 420 color format requires profile 1 or 2   (code-defined) -/
  d54 : rej54 s c = false
  /-- Profile 1 requires 4:4:4 color format   (code-defined) -/
  d55 : rej55 s c = false
  /-- Profile 2 bit-depth < 10 requires 4:2:2 color format   (code-defined) -/
  d56 : rej56 s c = false
  /-- Compressed ten bit format is not supported in this version -/
  d57 : c.compressed_ten_bit_format = 0
  /-- Invalid Speed Control flag [0 - 1] -/
  d58 : c.speed_control_flag ≤ 1
  /-- param '--asm' have invalid value. Value should be [0 - 11] or [c, mmx, sse, sse2, sse3, ssse3, sse4_   (code-defined) -/
  d59 : rej59 s c = false
  /-- Invalid target_socket. target_socket must be [-1 - 1] -/
  d60 : c.target_socket = -1 ∨ c.target_socket = 0 ∨ c.target_socket = 1
  /-- invalid altref-strength, should be in the range [0 - %d] -/
  d61 : c.altref_strength ≤ 6
  /-- invalid altref-nframes, should be in the range [0 - %d] -/
  d62 : c.altref_nframes ≤ 13
  /-- Invalid warped motion flag [0/1, -1], your input: %d -/
  d63 : c.enable_warped_motion = 0 ∨ c.enable_warped_motion = 1 ∨ c.enable_warped_motion = -1
  /-- Invalid global motion flag [0 - 1], your input: %d -/
  d64 : c.enable_global_motion = 0 ∨ c.enable_global_motion = 1
  /-- Invalid OBMC flag [-1, 0, 1, 2, 3], your input: %d -/
  d65 : -1 ≤ c.obmc_level ∧ c.obmc_level ≤ 3
  /-- Invalid Filter Intra flag [0 - 1], your input: %d -/
  d66 : -1 ≤ c.filter_intra_level ∧ c.filter_intra_level ≤ 1
  /-- Invalid Filter Intra flag [0/1, -1], your input: %d -/
  d67 : c.enable_intra_edge_filter = 0 ∨ c.enable_intra_edge_filter = 1 ∨ c.enable_intra_edge_filter = -1
  /-- Invalid pic_based_rate_est [0/1, -1], your input: %d -/
  d68 : 1 < c.logical_processors ∨ c.pic_based_rate_est = 0 ∨ c.pic_based_rate_est = 1 ∨ c.pic_based_rate_est = -1
  /-- Invalid HBD mode decision flag [-1 - 2], your input: %d   (code-defined) -/
  d69 : rej69 s c = false
  /-- Invalid Palette Mode [0 .. 6], your input: %i -/
  d70 : -1 ≤ c.palette_level ∧ c.palette_level ≤ 6
  /-- Invalid RDOQ parameter [-1, 0, 1], your input: %i -/
  d71 : c.rdoq_level = 0 ∨ c.rdoq_level = 1 ∨ c.rdoq_level = -1
  /-- Invalid Chroma Mode [0 - 3, -1 for auto], your input: %d -/
  d72 : -1 ≤ c.set_chroma_mode ∧ c.set_chroma_mode ≤ 3
  /-- Invalid CFL flag [0/1, -1], your input: %i -/
  d73 : c.disable_cfl_flag = 0 ∨ c.disable_cfl_flag = 1 ∨ c.disable_cfl_flag = -1
  /-- Invalid CDEF level [0 - 4, -1 for auto], your input: %d -/
  d74 : -1 ≤ c.cdef_level ∧ c.cdef_level ≤ 4
  /-- Invalid restoration flag [0 - 1, -1 for auto], your input: %d -/
  d75 : c.enable_restoration_filtering = 0 ∨ c.enable_restoration_filtering = 1 ∨ c.enable_restoration_filtering = -1
  /-- Invalid self-guided filter mode [0 - 4, -1 for auto], your input: %d -/
  d76 : -1 ≤ c.sg_filter_mode ∧ c.sg_filter_mode ≤ 4
  /-- Invalid Wiener filter mode [0 - 3, -1 for auto], your input: %d -/
  d77 : -1 ≤ c.wn_filter_mode ∧ c.wn_filter_mode ≤ 3
  /-- Invalid predictive me level [0-5, -1 for auto], your input: %d -/
  d78 : -1 ≤ c.pred_me ∧ c.pred_me ≤ 5
  /-- Invalid bipred_3x3_inject mode [0-2, -1 for auto], your input: %d -/
  d79 : -1 ≤ c.bipred_3x3_inject ∧ c.bipred_3x3_inject ≤ 2
  /-- Invalid compound level [0-2, -1 for auto], your input: %d -/
  d80 : -1 ≤ c.compound_level ∧ c.compound_level ≤ 2
  /-- Invalid Enable intra angle delta flag [0/1 or -1 for auto], your input: %d -/
  d81 : c.intra_angle_delta = 0 ∨ c.intra_angle_delta = 1 ∨ c.intra_angle_delta = -1
  /-- Invalid Inter Intra Compound flag [0/1 or -1 for auto], your input: %d -/
  d82 : c.inter_intra_compound = 0 ∨ c.inter_intra_compound = 1 ∨ c.inter_intra_compound = -1
  /-- Invalid Paeth flag [0/1 or -1 for auto], your input: %d -/
  d83 : c.enable_paeth = 0 ∨ c.enable_paeth = 1 ∨ c.enable_paeth = -1
  /-- Invalid Smooth flag [0/1 or -1 for auto], your input: %d -/
  d84 : c.enable_smooth = 0 ∨ c.enable_smooth = 1 ∨ c.enable_smooth = -1
  /-- Invalid motion field motion vector flag [0/1 or -1 for auto], your input: %d -/
  d85 : c.enable_mfmv = 0 ∨ c.enable_mfmv = 1 ∨ c.enable_mfmv = -1
  /-- Invalid enable_redundant_blk flag [0/1 or -1 for auto], your input: %d -/
  d86 : c.enable_redundant_blk = 0 ∨ c.enable_redundant_blk = 1 ∨ c.enable_redundant_blk = -1
  /-- Invalid spatial_sse_fl flag [0/1 or -1 for auto], your input: %d -/
  d87 : c.spatial_sse_full_loop_level = 0 ∨ c.spatial_sse_full_loop_level = 1 ∨ c.spatial_sse_full_loop_level = -1
  /-- Invalid over_bndry_blk flag [0/1 or -1 for auto], your input: %d -/
  d88 : c.over_bndry_blk = 0 ∨ c.over_bndry_blk = 1 ∨ c.over_bndry_blk = -1
  /-- Invalid new_nearest_comb_inject flag [0/1 or -1 for auto], your input: %d -/
  d89 : c.new_nearest_comb_inject = 0 ∨ c.new_nearest_comb_inject = 1 ∨ c.new_nearest_comb_inject = -1
  /-- Invalid nsq_table flag [0/1 or -1 for auto], your input: %d -/
  d90 : c.nsq_table = 0 ∨ c.nsq_table = 1 ∨ c.nsq_table = -1
  /-- Invalid frame_end_cdf_update flag [0/1 or -1 for auto], your input: %d -/
  d91 : c.frame_end_cdf_update = 0 ∨ c.frame_end_cdf_update = 1 ∨ c.frame_end_cdf_update = -1
  /-- manual prediction structure (opaque) -/
  d92 : c.enable_manual_pred_struct = 0 ∨ s.manual_pred_struct_rejected = 0
  /-- invalid superres-mode %d, should be in the range [%d - %d], only SUPERRES_NONE (0), SUPERRES_FIXED ( -/
  d93 : c.superres_mode ≤ 2
  /-- superres is not supported for 2-pass -/
  d94 : c.superres_mode ≤ 0 ∨ (c.rc_twopass_stats_in_sz = 0 ∧ c.rc_firstpass_stats_out = 0)
  /-- invalid superres-qthres %d, should be in the range [%d - %d] -/
  d95 : c.superres_qthres ≤ 63
  /-- invalid superres-kf-denom %d, should be in the range [%d - %d] -/
  d96 : 8 ≤ c.superres_kf_denom ∧ c.superres_kf_denom ≤ 16
  /-- invalid superres-denom %d, should be in the range [%d - %d] -/
  d97 : 8 ≤ c.superres_denom ∧ c.superres_denom ≤ 16

/-- executable form of the same conjuncts (used by the driver to evaluate the specification on concrete inputs) -/
def codeDomainChecks : List (Scs → Cfg → Bool) := [
  fun s c => decide (c.enc_mode ≤ 8),
  fun s c => decide (c.ext_block_flag ≤ 1),
  fun s c => decide (64 ≤ c.source_width % 65536),
  fun s c => decide (64 ≤ c.source_height % 65536),
  fun s c => decide (True),
  fun s c => decide (¬ (c.source_width % 65536 % 8 ≠ 0 ∧ c.compressed_ten_bit_format = 1)),
  fun s c => decide (c.source_width % 65536 % 2 = 0),
  fun s c => decide (c.source_height % 65536 % 2 = 0),
  fun s c => decide (c.source_width % 65536 ≤ 4096),
  fun s c => decide (c.source_height % 65536 ≤ 2160),
  fun s c => decide (c.qp ≤ 63),
  fun s c => decide ((if c.enable_manual_pred_struct ≠ 0 then True else c.hierarchical_levels ≤ 5)),
  fun s c => decide (rej12 s c = false),
  fun s c => decide (rej13 s c = false),
  fun s c => decide (1 ≤ c.intra_refresh_type ∧ c.intra_refresh_type ≤ 2),
  fun s c => decide (c.disable_dlf_flag ≤ 1),
  fun s c => decide (c.use_default_me_hme ≤ 1),
  fun s c => decide (c.enable_hme_flag ≤ 1),
  fun s c => decide (c.enable_hme_level0_flag ≤ 1),
  fun s c => decide (c.enable_hme_level1_flag ≤ 1),
  fun s c => decide (c.enable_hme_level2_flag ≤ 1),
  fun s c => decide (c.search_area_width ≤ 480 ∧ c.search_area_width ≠ 0),
  fun s c => decide (c.search_area_height ≤ 480 ∧ c.search_area_height ≠ 0),
  fun s c => decide (c.rate_control_mode ≤ 1 ∨ (c.rc_firstpass_stats_out = 0 ∧ c.rc_twopass_stats_in_buf = 0)),
  fun s c => decide (c.enable_hme_flag ≠ 0 → (c.number_hme_search_region_in_width ≤ 2 ∧ c.number_hme_search_region_in_width ≠ 0)),
  fun s c => decide (c.enable_hme_flag ≠ 0 → (c.number_hme_search_region_in_height ≤ 2 ∧ c.number_hme_search_region_in_height ≠ 0)),
  fun s c => decide (c.enable_hme_flag ≠ 0 → (c.hme_level0_total_search_area_height ≤ 480 ∧ c.hme_level0_total_search_area_height ≠ 0)),
  fun s c => decide (c.enable_hme_flag ≠ 0 → (c.hme_level0_total_search_area_width ≤ 480 ∧ c.hme_level0_total_search_area_width ≠ 0)),
  fun s c => decide (rej28 s c = false),
  fun s c => decide (rej29 s c = false),
  fun s c => decide (rej30 s c = false),
  fun s c => decide (rej31 s c = false),
  fun s c => decide (rej32 s c = false),
  fun s c => decide (rej33 s c = false),
  fun s c => decide (c.profile ≤ 2),
  fun s c => decide (rej35 s c = false),
  fun s c => decide (rej36 s c = false),
  fun s c => decide (c.rate_control_mode ≤ 2),
  fun s c => decide (rej38 s c = false),
  fun s c => decide (rej39 s c = false),
  fun s c => decide (c.tile_rows % 4294967296 ≤ 6 ∧ c.tile_columns % 4294967296 ≤ 6),
  fun s c => decide (rej41 s c = false),
  fun s c => decide (c.unrestricted_motion_vector ≤ 1),
  fun s c => decide (c.scene_change_detection = 0),
  fun s c => decide ((if c.rate_control_mode ≠ 0 then c.max_qp_allowed ≤ 63 ∧ c.min_qp_allowed < 63 ∧ c.min_qp_allowed ≤ c.max_qp_allowed else True)),
  fun s c => decide (c.stat_report ≤ 1),
  fun s c => decide (c.high_dynamic_range_input ≤ 1),
  fun s c => decide (c.screen_content_mode ≤ 2),
  fun s c => decide (-1 ≤ c.intrabc_mode ∧ c.intrabc_mode ≤ 3),
  fun s c => decide (c.intrabc_mode = -1 ∨ c.screen_content_mode = 1),
  fun s c => decide (c.enable_adaptive_quantization ≤ 2),
  fun s c => decide (c.encoder_bit_depth = 8 ∨ c.encoder_bit_depth = 10),
  fun s c => decide (¬ ((c.profile = 0 ∨ c.profile = 1) ∧ 10 < c.encoder_bit_depth)),
  fun s c => decide (c.encoder_color_format = 0 ∨ c.encoder_color_format = 1),
  fun s c => decide (rej54 s c = false),
  fun s c => decide (rej55 s c = false),
  fun s c => decide (rej56 s c = false),
  fun s c => decide (c.compressed_ten_bit_format = 0),
  fun s c => decide (c.speed_control_flag ≤ 1),
  fun s c => decide (rej59 s c = false),
  fun s c => decide (c.target_socket = -1 ∨ c.target_socket = 0 ∨ c.target_socket = 1),
  fun s c => decide (c.altref_strength ≤ 6),
  fun s c => decide (c.altref_nframes ≤ 13),
  fun s c => decide (c.enable_warped_motion = 0 ∨ c.enable_warped_motion = 1 ∨ c.enable_warped_motion = -1),
  fun s c => decide (c.enable_global_motion = 0 ∨ c.enable_global_motion = 1),
  fun s c => decide (-1 ≤ c.obmc_level ∧ c.obmc_level ≤ 3),
  fun s c => decide (-1 ≤ c.filter_intra_level ∧ c.filter_intra_level ≤ 1),
  fun s c => decide (c.enable_intra_edge_filter = 0 ∨ c.enable_intra_edge_filter = 1 ∨ c.enable_intra_edge_filter = -1),
  fun s c => decide (1 < c.logical_processors ∨ c.pic_based_rate_est = 0 ∨ c.pic_based_rate_est = 1 ∨ c.pic_based_rate_est = -1),
  fun s c => decide (rej69 s c = false),
  fun s c => decide (-1 ≤ c.palette_level ∧ c.palette_level ≤ 6),
  fun s c => decide (c.rdoq_level = 0 ∨ c.rdoq_level = 1 ∨ c.rdoq_level = -1),
  fun s c => decide (-1 ≤ c.set_chroma_mode ∧ c.set_chroma_mode ≤ 3),
  fun s c => decide (c.disable_cfl_flag = 0 ∨ c.disable_cfl_flag = 1 ∨ c.disable_cfl_flag = -1),
  fun s c => decide (-1 ≤ c.cdef_level ∧ c.cdef_level ≤ 4),
  fun s c => decide (c.enable_restoration_filtering = 0 ∨ c.enable_restoration_filtering = 1 ∨ c.enable_restoration_filtering = -1),
  fun s c => decide (-1 ≤ c.sg_filter_mode ∧ c.sg_filter_mode ≤ 4),
  fun s c => decide (-1 ≤ c.wn_filter_mode ∧ c.wn_filter_mode ≤ 3),
  fun s c => decide (-1 ≤ c.pred_me ∧ c.pred_me ≤ 5),
  fun s c => decide (-1 ≤ c.bipred_3x3_inject ∧ c.bipred_3x3_inject ≤ 2),
  fun s c => decide (-1 ≤ c.compound_level ∧ c.compound_level ≤ 2),
  fun s c => decide (c.intra_angle_delta = 0 ∨ c.intra_angle_delta = 1 ∨ c.intra_angle_delta = -1),
  fun s c => decide (c.inter_intra_compound = 0 ∨ c.inter_intra_compound = 1 ∨ c.inter_intra_compound = -1),
  fun s c => decide (c.enable_paeth = 0 ∨ c.enable_paeth = 1 ∨ c.enable_paeth = -1),
  fun s c => decide (c.enable_smooth = 0 ∨ c.enable_smooth = 1 ∨ c.enable_smooth = -1),
  fun s c => decide (c.enable_mfmv = 0 ∨ c.enable_mfmv = 1 ∨ c.enable_mfmv = -1),
  fun s c => decide (c.enable_redundant_blk = 0 ∨ c.enable_redundant_blk = 1 ∨ c.enable_redundant_blk = -1),
  fun s c => decide (c.spatial_sse_full_loop_level = 0 ∨ c.spatial_sse_full_loop_level = 1 ∨ c.spatial_sse_full_loop_level = -1),
  fun s c => decide (c.over_bndry_blk = 0 ∨ c.over_bndry_blk = 1 ∨ c.over_bndry_blk = -1),
  fun s c => decide (c.new_nearest_comb_inject = 0 ∨ c.new_nearest_comb_inject = 1 ∨ c.new_nearest_comb_inject = -1),
  fun s c => decide (c.nsq_table = 0 ∨ c.nsq_table = 1 ∨ c.nsq_table = -1),
  fun s c => decide (c.frame_end_cdf_update = 0 ∨ c.frame_end_cdf_update = 1 ∨ c.frame_end_cdf_update = -1),
  fun s c => decide (c.enable_manual_pred_struct = 0 ∨ s.manual_pred_struct_rejected = 0),
  fun s c => decide (c.superres_mode ≤ 2),
  fun s c => decide (c.superres_mode ≤ 0 ∨ (c.rc_twopass_stats_in_sz = 0 ∧ c.rc_firstpass_stats_out = 0)),
  fun s c => decide (c.superres_qthres ≤ 63),
  fun s c => decide (8 ≤ c.superres_kf_denom ∧ c.superres_kf_denom ≤ 16),
  fun s c => decide (8 ≤ c.superres_denom ∧ c.superres_denom ≤ 16)]

def codeDomainB (s : Scs) (c : Cfg) : Bool := codeDomainChecks.all (fun p => p s c)

end Spec.ConfigDomain
