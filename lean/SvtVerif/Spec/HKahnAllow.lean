/-
  C27 — hypothesis H-kahn, syntactic part: the REVIEWED allow-list.

  A `Site` is (source file relative to Source/Lib, enclosing function, callee).  checks/c27.py scans the encoder
  and common libraries on every run for (a) every call of `svt_get_full_object_non_blocking` — the only primitive that
  lets code observe that a queue is empty — and (b) every read of a clock and every sleep, and writes the sites it
  found to `Gen/HKahn.lean`; `C27.hkahn_syntactic` proves by `decide` that each found site is on this list.
  A new site (e.g. a kernel that polls a queue, or a coding decision that reads the time) makes the obligation fail.

  Review notes (why each entry cannot make the OUTPUT depend on timing):
   * the two API getters are the application-facing ends of the two output queues: their emptiness test decides what
     the APPLICATION sees now, not what the library computes;
   * `collect_frames_info` / `resource_coordination_kernel`: the time stamps only feed `n_tick_count` (latency report
     in the packet header; not part of `e2e_signature`, not used by any coding decision);
   * `speed_buffer_control`: changes `enc_mode` from wall-clock measurements — only called when
     `static_config.speed_control_flag` is set (EbResourceCoordinationProcess.c:1022); the property's configurations
     have `speed_control_flag = 0` (default, EbEncHandle.c:3184) — EXCLUDED BY CONFIGURATION, not harmless;
   * EbTime.c: the definitions; EbThreads.c: `printfTime` is compiled only with PRINTF_TIME on Windows, and
     `svt_verif_perturb` is the guarded verification hook (SVT_AV1_VERIF) — inactive unless SVT_VERIF_PERTURB is set.
  Core Lean only.
-/
namespace HKahnAllow

structure Site where
  file : String
  func : String
  callee : String
deriving DecidableEq, Repr

def allowed : List Site := [
  -- (a) the non-blocking getter: API functions only
  ⟨"Encoder/Globals/EbEncHandle.c", "svt_av1_enc_get_packet", "svt_get_full_object_non_blocking"⟩,
  ⟨"Encoder/Globals/EbEncHandle.c", "svt_av1_get_recon", "svt_get_full_object_non_blocking"⟩,
  -- (b) latency stamps (reach n_tick_count only)
  ⟨"Encoder/Codec/EbPacketizationProcess.c", "collect_frames_info", "svt_av1_get_time"⟩,
  ⟨"Encoder/Codec/EbResourceCoordinationProcess.c", "resource_coordination_kernel", "svt_av1_get_time"⟩,
  -- (b) speed control: excluded by configuration (speed_control_flag = 0)
  ⟨"Encoder/Codec/EbResourceCoordinationProcess.c", "speed_buffer_control", "svt_av1_get_time"⟩,
  -- (b) definitions and guarded / compiled-out code
  ⟨"Common/Codec/EbTime.c", "svt_av1_get_time", "clock_gettime"⟩,
  ⟨"Common/Codec/EbTime.c", "svt_av1_get_time", "gettimeofday"⟩,
  ⟨"Common/Codec/EbTime.c", "svt_av1_get_time", "_ftime_s"⟩,
  ⟨"Common/Codec/EbThreads.c", "svt_verif_perturb", "usleep"⟩,
  ⟨"Common/Codec/EbThreads.c", "printfTime", "clock"⟩
]

end HKahnAllow
