/-
  Lemmas about the OBU framing walk (Model/ObuWalk.lean) used by Props/C10.lean.  Core Lean + `omega` only.
-/
import SvtVerif.Model.ObuWalk

namespace ObuWalk

/-! ### the bit reader: position bookkeeping and extent of the loads -/

/-- bits consumed since `dec_bits_init` (what `get_position` computes) -/
def Bs.bits (bs : Bs) : Nat := (bs.bufOff - bs.base - 8) * 8 + bs.bitOfst

/-- Invariant of a reader under configuration `c`:
    `bit_ofst < 32`, `buf` is `base + 8 + 4k`; as is, everything below `buf` has been loaded (`touched = bufOff`);
    with `safeLoad`, nothing at or after `data + numbytes` has been. -/
structure Bs.Inv (c : Cfg) (bs : Bs) : Prop where
  ofs   : bs.bitOfst < 32
  ge    : bs.base + 8 ≤ bs.bufOff
  al    : (bs.bufOff - bs.base) % 4 = 0
  asis  : c.safeLoad = false → bs.touched = bs.bufOff
  safe  : c.safeLoad = true → bs.touched ≤ bs.endOff
  le    : bs.touched ≤ bs.bufOff

/-- `bs'` was obtained from `bs` by consuming `n` bits -/
structure Bs.Adv (bs bs' : Bs) (n : Nat) : Prop where
  base : bs'.base = bs.base
  endO : bs'.endOff = bs.endOff
  bits : bs'.bits = bs.bits + n
  mono : bs.touched ≤ bs'.touched

theorem Bs.Adv.refl (bs : Bs) : Bs.Adv bs bs 0 := ⟨rfl, rfl, rfl, Nat.le_refl _⟩

theorem Bs.Adv.trans {a b d : Bs} {m n : Nat} (h1 : Bs.Adv a b m) (h2 : Bs.Adv b d n) : Bs.Adv a d (m + n) :=
  ⟨h2.base.trans h1.base, h2.endO.trans h1.endO, by rw [h2.bits, h1.bits]; omega, Nat.le_trans h1.mono h2.mono⟩

theorem loadWord_asis (c : Cfg) (mem : List UInt8) (e off : Nat) (h : c.safeLoad = false) :
    (loadWord c mem e off).2 = off + 4 := by
  simp [loadWord, h]

theorem loadWord_safe (c : Cfg) (mem : List UInt8) (e off : Nat) (h : c.safeLoad = true) :
    (loadWord c mem e off).2 ≤ e := by
  simp only [loadWord, h, if_true]
  split <;> omega

theorem loadWord_le (c : Cfg) (mem : List UInt8) (e off : Nat) : (loadWord c mem e off).2 ≤ off + 4 := by
  simp only [loadWord]
  split
  · simp only; split <;> omega
  · exact Nat.le_refl _

theorem bitsInit_inv (c : Cfg) (mem : List UInt8) (data nb : Nat) : (bitsInit c mem data nb).Inv c := by
  refine ⟨by simp [bitsInit], by simp [bitsInit], by simp [bitsInit], ?_, ?_, ?_⟩
  · intro h
    simp only [bitsInit, loadWord_asis c mem _ _ h]
    omega
  · intro h
    have h0 := loadWord_safe c mem (data + nb) data h
    have h1 := loadWord_safe c mem (data + nb) (data + 4) h
    simp only [bitsInit]
    omega
  · have h0 := loadWord_le c mem (data + nb) data
    have h1 := loadWord_le c mem (data + nb) (data + 4)
    simp only [bitsInit]
    omega

theorem bitsInit_bits (c : Cfg) (mem : List UInt8) (data nb : Nat) : (bitsInit c mem data nb).bits = 0 := by
  simp [bitsInit, Bs.bits]

theorem getBits_inv (c : Cfg) (mem : List UInt8) (bs : Bs) (n : Nat) (hn : n ≤ 32) (hi : bs.Inv c) :
    (getBits c mem bs n).2.Inv c ∧ Bs.Adv bs (getBits c mem bs n).2 n := by
  unfold getBits
  by_cases h0 : n = 0
  · subst h0; simp only [if_true]; exact ⟨hi, Bs.Adv.refl bs⟩
  · simp only [h0, if_false]
    have ho := hi.ofs; have hg := hi.ge; have ha := hi.al
    by_cases h32 : bs.bitOfst + n ≥ 32
    · simp only [h32, if_true]
      refine ⟨⟨by simp only; omega, by simp only; omega, by simp only; omega, ?_, ?_, ?_⟩, ⟨rfl, rfl, ?_, ?_⟩⟩
      · intro h; simp only [loadWord_asis c mem _ _ h]; have := hi.asis h; omega
      · intro h; have := loadWord_safe c mem bs.endOff bs.bufOff h; have := hi.safe h; simp only; omega
      · have := loadWord_le c mem bs.endOff bs.bufOff; have := hi.le; simp only; omega
      · simp only [Bs.bits]; omega
      · simp only; omega
    · simp only [h32, if_false]
      refine ⟨⟨by simp only; omega, hg, ha, hi.asis, hi.safe, hi.le⟩, ⟨rfl, rfl, ?_, Nat.le_refl _⟩⟩
      simp only [Bs.bits]; omega

theorem Bs.Adv.cast {a b : Bs} {m n : Nat} (h : Bs.Adv a b m) (e : m = n) : Bs.Adv a b n := e ▸ h

/-- `buf` as a function of the bits consumed: one more word is loaded for every 32 bits -/
theorem Bs.Inv.bufOff_eq {c : Cfg} {bs : Bs} (hi : bs.Inv c) : bs.bufOff = bs.base + 8 + 4 * (bs.bits / 32) := by
  have ho := hi.ofs; have hg := hi.ge; have ha := hi.al
  simp only [Bs.bits]
  omega

/-! ### `read_obu_header` -/

theorem readObuHeader_spec (c : Cfg) (mem : List UInt8) (bs : Bs) (hi : bs.Inv c) (r : Ret Hdr) (bs' : Bs)
    (hr : readObuHeader c mem bs = (r, bs')) :
    bs'.Inv c ∧
    (∀ h, r = .ok h → (h.size = 1 ∨ h.size = 2) ∧ Bs.Adv bs bs' (8 * h.size)) ∧
    (∀ e, r = .err e → ∃ n, n ≤ 16 ∧ Bs.Adv bs bs' n) := by
  have h1 := getBits_inv c mem bs 1 (by omega) hi
  have h2 := getBits_inv c mem _ 4 (by omega) h1.1
  have h3 := getBits_inv c mem _ 1 (by omega) h2.1
  have h4 := getBits_inv c mem _ 1 (by omega) h3.1
  have h5 := getBits_inv c mem _ 1 (by omega) h4.1
  have h6 := getBits_inv c mem _ 3 (by omega) h5.1
  have h7 := getBits_inv c mem _ 2 (by omega) h6.1
  have h8 := getBits_inv c mem _ 3 (by omega) h7.1
  have a2 := h1.2.trans h2.2
  have a5 := ((a2.trans h3.2).trans h4.2).trans h5.2
  have a8 := ((a5.trans h6.2).trans h7.2).trans h8.2
  simp only [readObuHeader] at hr
  split at hr
  · simp only [Prod.mk.injEq] at hr; obtain ⟨rfl, rfl⟩ := hr
    exact ⟨h1.1, fun h hh => (by cases hh), fun e _ => ⟨1, by omega, h1.2⟩⟩
  · split at hr
    · simp only [Prod.mk.injEq] at hr; obtain ⟨rfl, rfl⟩ := hr
      exact ⟨h2.1, fun h hh => (by cases hh), fun e _ => ⟨_, by omega, a2⟩⟩
    · split at hr
      · simp only [Prod.mk.injEq] at hr; obtain ⟨rfl, rfl⟩ := hr
        exact ⟨h5.1, fun h hh => (by cases hh), fun e _ => ⟨_, by omega, a5⟩⟩
      · split at hr
        · split at hr
          · simp only [Prod.mk.injEq] at hr; obtain ⟨rfl, rfl⟩ := hr
            exact ⟨h8.1, fun h hh => (by cases hh), fun e _ => ⟨_, by omega, a8⟩⟩
          · simp only [Prod.mk.injEq] at hr; obtain ⟨rfl, rfl⟩ := hr
            refine ⟨h8.1, fun h hh => ?_, fun e hh => (by cases hh)⟩
            cases hh; exact ⟨Or.inr rfl, a8.cast (by simp only)⟩
        · simp only [Prod.mk.injEq] at hr; obtain ⟨rfl, rfl⟩ := hr
          refine ⟨h5.1, fun h hh => ?_, fun e hh => (by cases hh)⟩
          cases hh; exact ⟨Or.inl rfl, a5.cast (by simp only)⟩

/-! ### `dec_get_bits_leb128`, `read_obu_size`, `read_obu_header_size` -/

theorem leb128Go_spec (c : Cfg) (mem : List UInt8) : ∀ (fuel i v len : Nat) (bs : Bs), bs.Inv c →
    (leb128Go c mem fuel i v len bs).2.2.Inv c ∧
    len ≤ (leb128Go c mem fuel i v len bs).2.1 ∧
    (leb128Go c mem fuel i v len bs).2.1 ≤ len + fuel ∧
    (1 ≤ fuel → len + 1 ≤ (leb128Go c mem fuel i v len bs).2.1) ∧
    Bs.Adv bs (leb128Go c mem fuel i v len bs).2.2 (8 * ((leb128Go c mem fuel i v len bs).2.1 - len)) := by
  intro fuel
  induction fuel with
  | zero =>
    intro i v len bs hi
    simp only [leb128Go]
    exact ⟨hi, Nat.le_refl _, by omega, by omega, (Bs.Adv.refl bs).cast (by omega)⟩
  | succ f ih =>
    intro i v len bs hi
    have hg := getBits_inv c mem bs 8 (by omega) hi
    simp only [leb128Go]
    split
    · exact ⟨hg.1, by simp only; omega, by simp only; omega, fun _ => by simp only; omega,
        hg.2.cast (by simp only; omega)⟩
    · have := ih (i + 1) (v ||| ((getBits c mem bs 8).1 &&& 0x7f) <<< (i * 7)) (len + 1) _ hg.1
      obtain ⟨h1, h2, h3, _, h5⟩ := this
      refine ⟨h1, by omega, by omega, fun _ => by omega, (hg.2.trans h5).cast (by omega)⟩

/-- `dec_get_bits_leb128` consumes between 1 and 8 whole bytes -/
theorem leb128_spec (c : Cfg) (mem : List UInt8) (bs : Bs) (hi : bs.Inv c) :
    (leb128 c mem bs).2.2.Inv c ∧ 1 ≤ (leb128 c mem bs).2.1 ∧ (leb128 c mem bs).2.1 ≤ 8 ∧
    Bs.Adv bs (leb128 c mem bs).2.2 (8 * (leb128 c mem bs).2.1) := by
  have := leb128Go_spec c mem 8 0 0 0 bs hi
  simp only [leb128]
  obtain ⟨h1, _, h3, h4, h5⟩ := this
  exact ⟨h1, by omega, by omega, h5.cast (by omega)⟩

theorem readObuSize_spec (c : Cfg) (mem : List UInt8) (bs : Bs) (hi : bs.Inv c) (r : Ret (Nat × Nat)) (bs' : Bs)
    (hr : readObuSize c mem bs = (r, bs')) :
    bs'.Inv c ∧
    (∀ v l, r = .ok (v, l) → v ≤ UINT32_MAX ∧ 1 ≤ l ∧ l ≤ 8 ∧ Bs.Adv bs bs' (8 * l)) ∧
    (∀ e, r = .err e → ∃ n, n ≤ 64 ∧ Bs.Adv bs bs' n) := by
  obtain ⟨h1, h2, h3, h4⟩ := leb128_spec c mem bs hi
  simp only [readObuSize] at hr
  split at hr
  · simp only [Prod.mk.injEq] at hr; obtain ⟨rfl, rfl⟩ := hr
    exact ⟨h1, fun v l hh => (by cases hh), fun e _ => ⟨_, by omega, h4⟩⟩
  · simp only [Prod.mk.injEq] at hr; obtain ⟨rfl, rfl⟩ := hr
    refine ⟨h1, fun v l hh => ?_, fun e hh => (by cases hh)⟩
    cases hh
    exact ⟨by omega, h2, h3, h4⟩

theorem readObuHeaderSize_spec (c : Cfg) (mem : List UInt8) (bs : Bs) (hi : bs.Inv c)
    (r : Ret (Hdr × Option (Nat × Nat))) (bs' : Bs) (hr : readObuHeaderSize c mem bs = (r, bs')) :
    bs'.Inv c ∧
    (∀ h vl, r = .ok (h, vl) → (h.size = 1 ∨ h.size = 2) ∧ lenOf vl ≤ 8 ∧
        (∀ v l, vl = some (v, l) → v ≤ UINT32_MAX ∧ 1 ≤ l) ∧ Bs.Adv bs bs' (8 * (h.size + lenOf vl))) ∧
    (∀ e, r = .err e → ∃ n, n ≤ 80 ∧ Bs.Adv bs bs' n) := by
  simp only [readObuHeaderSize] at hr
  split at hr
  · rename_i e bs1 hh
    simp only [Prod.mk.injEq] at hr; obtain ⟨rfl, rfl⟩ := hr
    obtain ⟨i1, _, he⟩ := readObuHeader_spec c mem bs hi _ _ hh
    obtain ⟨n, hn, ha⟩ := he e rfl
    exact ⟨i1, fun h vl hx => (by cases hx), fun e' _ => ⟨n, by omega, ha⟩⟩
  · rename_i h bs1 hh
    obtain ⟨i1, hok, _⟩ := readObuHeader_spec c mem bs hi _ _ hh
    obtain ⟨hs, ha⟩ := hok h rfl
    split at hr
    · split at hr
      · rename_i e bs2 hs2
        simp only [Prod.mk.injEq] at hr; obtain ⟨rfl, rfl⟩ := hr
        obtain ⟨i2, _, he⟩ := readObuSize_spec c mem bs1 i1 _ _ hs2
        obtain ⟨n, hn, ha2⟩ := he e rfl
        exact ⟨i2, fun h' vl hx => (by cases hx), fun e' _ => ⟨_, by omega, ha.trans ha2⟩⟩
      · rename_i vl bs2 hs2
        simp only [Prod.mk.injEq] at hr; obtain ⟨rfl, rfl⟩ := hr
        obtain ⟨i2, hok2, _⟩ := readObuSize_spec c mem bs1 i1 _ _ hs2
        refine ⟨i2, fun h' vl' hx => ?_, fun e hx => (by cases hx)⟩
        cases hx
        obtain ⟨v, l⟩ := vl
        obtain ⟨hv, hl1, hl8, ha2⟩ := hok2 v l rfl
        refine ⟨hs, by simp only [lenOf]; omega, fun v' l' hx => ?_, (ha.trans ha2).cast (by simp only [lenOf]; omega)⟩
        cases hx; exact ⟨hv, hl1⟩
    · simp only [Prod.mk.injEq] at hr; obtain ⟨rfl, rfl⟩ := hr
      refine ⟨i1, fun h' vl' hx => ?_, fun e hx => (by cases hx)⟩
      cases hx
      exact ⟨hs, by simp [lenOf], fun v l hx => (by cases hx), ha.cast (by simp [lenOf])⟩

/-! ### `decode_multiple_obu`: size bookkeeping -/

theorem subU64_eq {a b : Nat} (ha : a < two64) (hb : b ≤ a) : subU64 a b = a - b := by
  simp only [subU64, two64] at *
  omega

/-- `advance` when no subtraction wrapped: plain arithmetic, and `payload_size ≤ data_size` afterwards -/
theorem advance_ok (c : Cfg) (annexb : Bool) (st st' : St) (h : Hdr) (vl : Option (Nat × Nat)) (p : Nat)
    (hr : advance c annexb st h vl = .ok (st', p)) (hds : st.dataSize < two64) :
    st'.maxRead = st.maxRead ∧ st'.obus = st.obus ∧ st'.idx = st.idx ∧ st'.seen = st.seen ∧
    (st.wrapped = true → st'.wrapped = true) ∧
    (c.checkSub = true → st'.wrapped = st.wrapped) ∧
    (st'.wrapped = false →
      h.size + lenOf vl ≤ st.dataSize ∧ st'.pos = st.pos + (h.size + lenOf vl) ∧
      st'.dataSize = st.dataSize - (h.size + lenOf vl) ∧ p ≤ st'.dataSize) := by
  cases annexb <;> rcases vl with _ | ⟨v, l⟩
  all_goals
    simp only [advance, lenOf, Bool.false_and, Bool.true_and, Bool.false_eq_true, if_false, if_true] at hr ⊢
    split at hr
    · cases hr
    · rename_i hc
      split at hr
      · cases hr
      · rename_i hp
        simp only [Ret.ok.injEq, Prod.mk.injEq] at hr
        obtain ⟨rfl, rfl⟩ := hr
        refine ⟨rfl, rfl, rfl, rfl, ?_, ?_, ?_⟩
        · intro hw; simp only [hw, Bool.true_or]
        · intro hcs
          simp only [hcs, Bool.true_and, Bool.not_eq_true, Bool.or_eq_false_iff] at hc
          simp only [hc.1, hc.2, Bool.or_false]
        · intro hw
          simp only [Bool.or_eq_false_iff] at hw
          obtain ⟨⟨_, _⟩, hw3⟩ := hw
          have hw3 := Nat.le_of_not_lt (of_decide_eq_false hw3)
          rw [subU64_eq hds hw3] at hp ⊢
          exact ⟨hw3, rfl, rfl, by simp only; omega⟩

/-- bound on the loads of the framing layer for a call with `data + data_size = E`:
    as is, up to 23 bytes after the end; with `safeLoad`, nothing after the end -/
def rb (c : Cfg) (E : Nat) : Nat := if c.safeLoad then E else E + 23

theorem bitsInit_touched_le (c : Cfg) (mem : List UInt8) (d nb : Nat) :
    (bitsInit c mem d nb).touched ≤ (if c.safeLoad then d + nb else d + 8) := by
  have hi := bitsInit_inv c mem d nb
  cases hs : c.safeLoad
  · have := hi.asis hs
    simp only [Bool.false_eq_true, if_false]
    rw [this]; simp [bitsInit]
  · have := hi.safe hs
    simp only [if_true]
    exact Nat.le_trans this (by simp [bitsInit])

theorem payload_spec (c : Cfg) (mem : List UInt8) (oracle : Oracle) (rec : ObuRec) (st : St) (E : Nat)
    (hp : rec.payload ≤ st.dataSize) (hE : st.pos + st.dataSize = E) (hds : E < two64) (hm : st.maxRead ≤ rb c E) :
    (∀ e st', payload c mem oracle rec st = .inl (e, st') → st'.wrapped = st.wrapped ∧ st'.maxRead ≤ rb c E) ∧
    (∀ st' fin, payload c mem oracle rec st = .inr (st', fin) →
      st'.wrapped = st.wrapped ∧ st'.maxRead ≤ rb c E ∧ st'.pos = st.pos + rec.payload ∧
      st'.dataSize = st.dataSize - rec.payload ∧ (fin = false → st'.dataSize ≠ 0)) := by
  have h3 := bitsInit_touched_le c mem st.pos rec.payload
  have h4 := bitsInit_touched_le c mem (st.pos + rec.payload) 0
  have hs : subU64 st.dataSize rec.payload = st.dataSize - rec.payload := subU64_eq (by omega) hp
  have b3 : (bitsInit c mem st.pos rec.payload).touched ≤ rb c E := by
    simp only [rb]; split <;> simp_all <;> omega
  have b4 : (bitsInit c mem (st.pos + rec.payload) 0).touched ≤ rb c E := by
    simp only [rb]; split <;> simp_all <;> omega
  simp only [payload, St.see]
  generalize paySwitch c rec.obuType st.seen (oracle (st.idx + 1 - 1)) = ps
  rcases ps with ⟨seen, _ | (⟨status, fin⟩ | e)⟩
  · refine ⟨fun e st' hr => ?_, fun st' fin hr => (by cases hr)⟩
    simp only [Sum.inl.injEq, Prod.mk.injEq] at hr
    obtain ⟨_, rfl⟩ := hr
    exact ⟨rfl, by simp only; omega⟩
  · refine ⟨fun e st' hr => (by cases hr), fun st' fin' hr => ?_⟩
    simp only [Sum.inr.injEq, Prod.mk.injEq] at hr
    obtain ⟨rfl, rfl⟩ := hr
    split
    · refine ⟨rfl, by simp only; omega, rfl, by simp only [hs], fun hf => ?_⟩
      simp only [hs, Bool.or_eq_false_iff, beq_eq_false_iff_ne, ne_eq] at hf ⊢
      exact hf.2
    · refine ⟨rfl, by simp only; omega, rfl, by simp only [hs], fun hf => ?_⟩
      simp only [hs, Bool.or_eq_false_iff, beq_eq_false_iff_ne, ne_eq] at hf ⊢
      exact hf.2
  · refine ⟨fun e' st' hr => ?_, fun st' fin hr => (by cases hr)⟩
    simp only [Sum.inl.injEq, Prod.mk.injEq] at hr
    obtain ⟨_, rfl⟩ := hr
    exact ⟨rfl, by simp only; omega⟩

theorem reader_bound (c : Cfg) (bs : Bs) (p0 E : Nat) (hi : bs.Inv c) (hb : bs.base = p0) (hn : bs.bits ≤ 144)
    (he : bs.endOff ≤ E) (hp : p0 + 1 ≤ E) : bs.touched ≤ rb c E := by
  have h1 := hi.bufOff_eq
  have h2 := hi.le
  simp only [rb]
  split
  · rename_i hs; have := hi.safe hs; omega
  · omega

@[simp] theorem see_maxRead (st : St) (bs : Bs) : (st.see bs).maxRead = max st.maxRead bs.touched := rfl
@[simp] theorem see_pos (st : St) (bs : Bs) : (st.see bs).pos = st.pos := rfl
@[simp] theorem see_dataSize (st : St) (bs : Bs) : (st.see bs).dataSize = st.dataSize := rfl
@[simp] theorem see_wrapped (st : St) (bs : Bs) : (st.see bs).wrapped = st.wrapped := rfl
@[simp] theorem see_obus (st : St) (bs : Bs) : (st.see bs).obus = st.obus := rfl
@[simp] theorem see_idx (st : St) (bs : Bs) : (st.see bs).idx = st.idx := rfl
@[simp] theorem see_seen (st : St) (bs : Bs) : (st.see bs).seen = st.seen := rfl

/-- What one loop iteration guarantees about a state it returns with (`.inl`) -/
def RetOk (c : Cfg) (E : Nat) (st st' : St) : Prop :=
  (st'.wrapped = false → st.wrapped = false ∧ st'.maxRead ≤ rb c E) ∧
  (c.checkSub = true → st.wrapped = false → st'.wrapped = false)

/-- What one loop iteration guarantees about the state at the end of the loop body (`.inr`) -/
def ContOk (c : Cfg) (E : Nat) (st st' : St) (fin : Bool) : Prop :=
  (st'.wrapped = false → st.wrapped = false ∧ st'.maxRead ≤ rb c E ∧ st'.pos + st'.dataSize = E ∧
     st'.dataSize < st.dataSize ∧ st.pos < st'.pos ∧ (fin = false → 1 ≤ st'.dataSize)) ∧
  (c.checkSub = true → st.wrapped = false → st'.wrapped = false)

theorem dmoBody_spec (c : Cfg) (mem : List UInt8) (annexb : Bool) (oracle : Oracle) (start alen : Nat) (st : St)
    (bs1 : Bs) (p0 E : Nat) (hi : bs1.Inv c) (hb : bs1.base = p0) (hn : bs1.bits ≤ 64) (he : bs1.endOff ≤ E)
    (hp : p0 + 1 ≤ E) (hpp : p0 ≤ st.pos) (hE : E < two64) (hm : st.maxRead ≤ rb c E)
    (hw : st.wrapped = false → st.pos + st.dataSize = E) (hlt : st.dataSize < two64) :
    (∀ e st', dmoBody c mem annexb oracle start alen st bs1 = .inl (e, st') → RetOk c E st st') ∧
    (∀ st' fin, dmoBody c mem annexb oracle start alen st bs1 = .inr (st', fin) →
       ContOk c E st st' fin ∧ (st'.wrapped = false → p0 < st'.pos)) := by
  simp only [dmoBody]
  split
  · -- header / size field returned an error
    rename_i e bs2 hr
    obtain ⟨i2, _, herr⟩ := readObuHeaderSize_spec c mem bs1 hi _ _ hr
    obtain ⟨n, hn2, ha⟩ := herr e rfl
    have hb2 : bs2.touched ≤ rb c E :=
      reader_bound c bs2 p0 E i2 (ha.base.trans hb) (by rw [ha.bits]; omega) (by rw [ha.endO]; exact he) hp
    refine ⟨fun e' st' h => ?_, fun st' fin h => (by cases h)⟩
    simp only [Sum.inl.injEq, Prod.mk.injEq] at h
    obtain ⟨_, rfl⟩ := h
    exact ⟨fun hw' => ⟨hw', by simp only [see_maxRead]; omega⟩, fun _ h0 => h0⟩
  · rename_i h vl bs2 hr
    obtain ⟨i2, hok, _⟩ := readObuHeaderSize_spec c mem bs1 hi _ _ hr
    obtain ⟨hsz, hl8, _, ha⟩ := hok h vl rfl
    have hb2 : bs2.touched ≤ rb c E :=
      reader_bound c bs2 p0 E i2 (ha.base.trans hb) (by rw [ha.bits]; omega) (by rw [ha.endO]; exact he) hp
    split
    · -- `advance` returned EB_Corrupt_Frame
      refine ⟨fun e' st' h => ?_, fun st' fin h => (by cases h)⟩
      simp only [Sum.inl.injEq, Prod.mk.injEq] at h
      obtain ⟨_, rfl⟩ := h
      exact ⟨fun hw' => ⟨hw', by simp only [see_maxRead]; omega⟩, fun _ h0 => h0⟩
    · rename_i st3 pl hadv
      obtain ⟨a1, _, _, _, a5, a6, a7⟩ := advance_ok c annexb _ st3 h vl pl hadv (by simpa using hlt)
      simp only [see_maxRead, see_wrapped, see_pos, see_dataSize] at a1 a5 a6 a7
      by_cases hw3 : st3.wrapped = false
      · -- nothing wrapped: plain arithmetic from here on
        have hw0 : st.wrapped = false := by
          cases h0 : st.wrapped
          · rfl
          · rw [a5 h0] at hw3; cases hw3
        obtain ⟨b1, b2, b3, b4⟩ := a7 hw3
        have hE0 := hw hw0
        have hps := payload_spec c mem oracle
          { pos := start, obuType := h.obuType, hdr := h.size,
            len := alen + lenOf vl, payload := pl } st3 E
          (by simpa using b4) (by omega) hE (by rw [a1]; omega)
        refine ⟨fun e' st' hh => ?_, fun st' fin hh => ?_⟩
        · obtain ⟨c1, c2⟩ := hps.1 e' st' hh
          exact ⟨fun _ => ⟨hw0, c2⟩, fun _ _ => by rw [c1]; exact hw3⟩
        · obtain ⟨c1, c2, c3, c4, c5⟩ := hps.2 st' fin hh
          simp only at c3 c4
          refine ⟨⟨fun _ => ⟨hw0, c2, by omega, by omega, by omega, fun hf => ?_⟩, fun _ _ => by rw [c1]; exact hw3⟩,
                  fun _ => by omega⟩
          have := c5 hf; omega
      · -- a subtraction wrapped: nothing is claimed, except that the repaired code never gets here
        have hw3' : st3.wrapped = true := by cases h0 : st3.wrapped <;> simp_all
        have hcs : c.checkSub = true → st.wrapped = false → False := by
          intro hc h0; rw [a6 hc, h0] at hw3'; cases hw3'
        simp only [payload, St.see]
        generalize paySwitch c h.obuType st3.seen (oracle (st3.idx + 1 - 1)) = ps
        rcases ps with ⟨seen, _ | (⟨status, fin⟩ | e)⟩
        · refine ⟨fun e' st' hh => ?_, fun st' fin hh => (by cases hh)⟩
          simp only [Sum.inl.injEq, Prod.mk.injEq] at hh
          obtain ⟨_, rfl⟩ := hh
          exact ⟨fun hx => (by simp only at hx; rw [hw3'] at hx; cases hx), fun hc h0 => (hcs hc h0).elim⟩
        · refine ⟨fun e' st' hh => (by cases hh), fun st' fin' hh => ?_⟩
          simp only [Sum.inr.injEq, Prod.mk.injEq] at hh
          obtain ⟨rfl, rfl⟩ := hh
          have hx : ∀ (q : St), q.wrapped = st3.wrapped → q.wrapped = false → False := by
            intro q hq hq0; rw [hq, hw3'] at hq0; cases hq0
          refine ⟨⟨fun hq => ?_, fun hc h0 => (hcs hc h0).elim⟩, fun hq => ?_⟩
          · exfalso; revert hq; split <;> (intro hq; simp only at hq; rw [hw3'] at hq; cases hq)
          · exfalso; revert hq; split <;> (intro hq; simp only at hq; rw [hw3'] at hq; cases hq)
        · refine ⟨fun e' st' hh => ?_, fun st' fin hh => (by cases hh)⟩
          simp only [Sum.inl.injEq, Prod.mk.injEq] at hh
          obtain ⟨_, rfl⟩ := hh
          exact ⟨fun hx => (by simp only at hx; rw [hw3'] at hx; cases hx), fun hc h0 => (hcs hc h0).elim⟩

/-! ### monotonicity of `wrapped`, and `data_size` stays a `size_t` -/

theorem subU64_lt (a b : Nat) : subU64 a b < two64 := by
  simp only [subU64, two64]; omega

theorem payload_wrapped (c : Cfg) (mem : List UInt8) (oracle : Oracle) (rec : ObuRec) (st : St) :
    (∀ e st', payload c mem oracle rec st = .inl (e, st') → st'.wrapped = st.wrapped) ∧
    (∀ st' fin, payload c mem oracle rec st = .inr (st', fin) → st'.wrapped = st.wrapped ∧ st'.dataSize < two64) := by
  simp only [payload, St.see]
  generalize paySwitch c rec.obuType st.seen (oracle (st.idx + 1 - 1)) = ps
  rcases ps with ⟨seen, _ | (⟨status, fin⟩ | e)⟩
  · refine ⟨fun e st' hr => ?_, fun st' fin hr => (by cases hr)⟩
    simp only [Sum.inl.injEq, Prod.mk.injEq] at hr
    obtain ⟨_, rfl⟩ := hr; rfl
  · refine ⟨fun e st' hr => (by cases hr), fun st' fin' hr => ?_⟩
    simp only [Sum.inr.injEq, Prod.mk.injEq] at hr
    obtain ⟨rfl, rfl⟩ := hr
    split <;> exact ⟨rfl, subU64_lt _ _⟩
  · refine ⟨fun e' st' hr => ?_, fun st' fin hr => (by cases hr)⟩
    simp only [Sum.inl.injEq, Prod.mk.injEq] at hr
    obtain ⟨_, rfl⟩ := hr; rfl

theorem dmoBody_mono (c : Cfg) (mem : List UInt8) (annexb : Bool) (oracle : Oracle) (start alen : Nat) (st : St)
    (bs1 : Bs) (hlt : st.dataSize < two64) :
    (∀ e st', dmoBody c mem annexb oracle start alen st bs1 = .inl (e, st') →
       (st.wrapped = true → st'.wrapped = true)) ∧
    (∀ st' fin, dmoBody c mem annexb oracle start alen st bs1 = .inr (st', fin) →
       (st.wrapped = true → st'.wrapped = true) ∧ st'.dataSize < two64) := by
  simp only [dmoBody]
  split
  · refine ⟨fun e' st' h => ?_, fun st' fin h => (by cases h)⟩
    simp only [Sum.inl.injEq, Prod.mk.injEq] at h
    obtain ⟨_, rfl⟩ := h
    exact fun h0 => h0
  · rename_i h vl bs2 hr
    split
    · refine ⟨fun e' st' h => ?_, fun st' fin h => (by cases h)⟩
      simp only [Sum.inl.injEq, Prod.mk.injEq] at h
      obtain ⟨_, rfl⟩ := h
      exact fun h0 => h0
    · rename_i st3 pl hadv
      obtain ⟨_, _, _, _, a5, _, _⟩ := advance_ok c annexb _ st3 h vl pl hadv (by simpa using hlt)
      simp only [see_wrapped] at a5
      have hpw := payload_wrapped c mem oracle
        { pos := start, obuType := h.obuType, hdr := h.size, len := alen + lenOf vl, payload := pl } st3
      refine ⟨fun e' st' hh => ?_, fun st' fin hh => ?_⟩
      · intro h0; rw [hpw.1 e' st' hh]; exact a5 h0
      · obtain ⟨c1, c2⟩ := hpw.2 st' fin hh
        exact ⟨fun h0 => by rw [c1]; exact a5 h0, c2⟩

/-! ### one iteration of the loop of `decode_multiple_obu` -/

/-- invariant at the head of `while (!frame_decoding_finished)` for a call with `data + data_size = E` -/
def Head (c : Cfg) (E : Nat) (st : St) : Prop :=
  st.dataSize < two64 ∧
  (st.wrapped = false → st.pos + st.dataSize = E ∧ 1 ≤ st.dataSize ∧ st.maxRead ≤ rb c E)

theorem bitsInit_base (c : Cfg) (mem : List UInt8) (d nb : Nat) : (bitsInit c mem d nb).base = d := rfl
theorem bitsInit_endOff (c : Cfg) (mem : List UInt8) (d nb : Nat) : (bitsInit c mem d nb).endOff = d + nb := rfl

theorem dmoStep_mono (c : Cfg) (mem : List UInt8) (annexb : Bool) (oracle : Oracle) (st : St)
    (hlt : st.dataSize < two64) :
    (∀ e st', dmoStep c mem annexb oracle st = .inl (e, st') → (st.wrapped = true → st'.wrapped = true)) ∧
    (∀ st' fin, dmoStep c mem annexb oracle st = .inr (st', fin) →
       (st.wrapped = true → st'.wrapped = true) ∧ st'.dataSize < two64) := by
  simp only [dmoStep]
  split
  · refine ⟨fun e' st' h => ?_, fun st' fin h => (by cases h)⟩
    simp only [Sum.inl.injEq, Prod.mk.injEq] at h
    obtain ⟨_, rfl⟩ := h
    exact fun h0 => h0
  · split
    · split
      · refine ⟨fun e' st' h => ?_, fun st' fin h => (by cases h)⟩
        simp only [Sum.inl.injEq, Prod.mk.injEq] at h
        obtain ⟨_, rfl⟩ := h
        exact fun h0 => h0
      · split
        · refine ⟨fun e' st' h => ?_, fun st' fin h => (by cases h)⟩
          simp only [Sum.inl.injEq, Prod.mk.injEq] at h
          obtain ⟨_, rfl⟩ := h
          exact fun h0 => h0
        · rename_i v l bs1 hr hck
          have hm := dmoBody_mono c mem annexb oracle st.pos l
            { ((st.see (bitsInit c mem st.pos st.dataSize)).see bs1) with
                hdrPayload := some v, pos := st.pos + l, dataSize := subU64 st.dataSize l,
                wrapped := st.wrapped || decide (st.dataSize < l) } bs1 (subU64_lt _ _)
          refine ⟨fun e' st' h => ?_, fun st' fin h => ?_⟩
          · intro h0; exact hm.1 e' st' h (by simp only [h0, Bool.true_or])
          · obtain ⟨c1, c2⟩ := hm.2 st' fin h
            exact ⟨fun h0 => c1 (by simp only [h0, Bool.true_or]), c2⟩
    · have hm := dmoBody_mono c mem annexb oracle st.pos 0 (st.see (bitsInit c mem st.pos st.dataSize))
        (bitsInit c mem st.pos st.dataSize) (by simpa using hlt)
      simpa using hm

theorem dmoStep_spec (c : Cfg) (mem : List UInt8) (annexb : Bool) (oracle : Oracle) (st : St) (E : Nat)
    (hE : E < two64) (hh : Head c E st) :
    (∀ e st', dmoStep c mem annexb oracle st = .inl (e, st') → RetOk c E st st') ∧
    (∀ st' fin, dmoStep c mem annexb oracle st = .inr (st', fin) → ContOk c E st st' fin ∧ st'.dataSize < two64) := by
  obtain ⟨hlt, hhw⟩ := hh
  have hmono := dmoStep_mono c mem annexb oracle st hlt
  by_cases hw0 : st.wrapped = true
  · -- a subtraction has wrapped before: nothing is claimed any more
    refine ⟨fun e st' h => ?_, fun st' fin h => ?_⟩
    · have := hmono.1 e st' h hw0
      exact ⟨fun hx => (by rw [this] at hx; cases hx), fun _ h0 => by rw [hw0] at h0; cases h0⟩
    · obtain ⟨c1, c2⟩ := hmono.2 st' fin h
      have := c1 hw0
      exact ⟨⟨fun hx => (by rw [this] at hx; cases hx), fun _ h0 => by rw [hw0] at h0; cases h0⟩, c2⟩
  · have hw0 : st.wrapped = false := by simpa using hw0
    obtain ⟨hpe, hd1, hmr⟩ := hhw hw0
    have i0 := bitsInit_inv c mem st.pos st.dataSize
    have t0 : (bitsInit c mem st.pos st.dataSize).touched ≤ rb c E :=
      reader_bound c _ st.pos E i0 rfl (by rw [bitsInit_bits]; omega) (by rw [bitsInit_endOff]; omega) (by omega)
    simp only [dmoStep]
    split
    · refine ⟨fun e' st' h => ?_, fun st' fin h => (by cases h)⟩
      simp only [Sum.inl.injEq, Prod.mk.injEq] at h
      obtain ⟨_, rfl⟩ := h
      exact ⟨fun _ => ⟨hw0, hmr⟩, fun _ h0 => h0⟩
    · split
      · -- Annex-B
        split
        · rename_i e bs1 hr
          obtain ⟨i1, _, herr⟩ := readObuSize_spec c mem _ i0 _ _ hr
          obtain ⟨n, hn, ha⟩ := herr e rfl
          have t1 : bs1.touched ≤ rb c E :=
            reader_bound c bs1 st.pos E i1 ha.base (by rw [ha.bits, bitsInit_bits]; omega)
              (by rw [ha.endO, bitsInit_endOff]; omega) (by omega)
          refine ⟨fun e' st' h => ?_, fun st' fin h => (by cases h)⟩
          simp only [Sum.inl.injEq, Prod.mk.injEq] at h
          obtain ⟨_, rfl⟩ := h
          exact ⟨fun _ => ⟨hw0, by simp only [see_maxRead]; omega⟩, fun _ _ => by simpa using hw0⟩
        · rename_i v l bs1 hr
          obtain ⟨i1, hok, _⟩ := readObuSize_spec c mem _ i0 _ _ hr
          obtain ⟨_, hl1, hl8, ha⟩ := hok v l rfl
          have t1 : bs1.touched ≤ rb c E :=
            reader_bound c bs1 st.pos E i1 ha.base (by rw [ha.bits, bitsInit_bits]; omega)
              (by rw [ha.endO, bitsInit_endOff]; omega) (by omega)
          split
          · refine ⟨fun e' st' h => ?_, fun st' fin h => (by cases h)⟩
            simp only [Sum.inl.injEq, Prod.mk.injEq] at h
            obtain ⟨_, rfl⟩ := h
            exact ⟨fun _ => ⟨hw0, by simp only [see_maxRead]; omega⟩, fun _ _ => by simpa using hw0⟩
          · rename_i hck
            by_cases hwl : st.dataSize < l
            · -- `data_size -= length_size` wraps (only without `checkSub`)
              have hcs : c.checkSub = false := by
                cases hc : c.checkSub
                · rfl
                · exfalso; apply hck; simp only [hc, Bool.true_and, decide_eq_true_eq]; exact hwl
              have hm := dmoBody_mono c mem annexb oracle st.pos l
                { ((st.see (bitsInit c mem st.pos st.dataSize)).see bs1) with
                    hdrPayload := some v, pos := st.pos + l, dataSize := subU64 st.dataSize l,
                    wrapped := st.wrapped || decide (st.dataSize < l) } bs1 (subU64_lt _ _)
              have hwt : (st.wrapped || decide (st.dataSize < l)) = true := by
                simp only [Bool.or_eq_true, decide_eq_true_eq]; exact Or.inr hwl
              refine ⟨fun e' st' h => ?_, fun st' fin h => ?_⟩
              · have := hm.1 e' st' h hwt
                exact ⟨fun hx => (by rw [this] at hx; cases hx), fun hc _ => by rw [hcs] at hc; cases hc⟩
              · obtain ⟨c1, c2⟩ := hm.2 st' fin h
                have := c1 hwt
                exact ⟨⟨fun hx => (by rw [this] at hx; cases hx), fun hc _ => by rw [hcs] at hc; cases hc⟩, c2⟩
            · have hle : l ≤ st.dataSize := Nat.le_of_not_lt hwl
              have hsub : subU64 st.dataSize l = st.dataSize - l := subU64_eq hlt hle
              have hwf : (st.wrapped || decide (st.dataSize < l)) = false := by
                simp only [hw0, Bool.false_or, decide_eq_false_iff_not]; exact hwl
              have hb := dmoBody_spec c mem annexb oracle st.pos l
                { ((st.see (bitsInit c mem st.pos st.dataSize)).see bs1) with
                    hdrPayload := some v, pos := st.pos + l, dataSize := subU64 st.dataSize l,
                    wrapped := st.wrapped || decide (st.dataSize < l) } bs1 st.pos E i1 ha.base
                (by rw [ha.bits, bitsInit_bits]; omega) (by rw [ha.endO, bitsInit_endOff]; omega) (by omega)
                (by simp only; omega) hE (by simp only [see_maxRead]; omega)
                (fun _ => by simp only [hsub]; omega) (subU64_lt _ _)
              refine ⟨fun e' st' h => ?_, fun st' fin h => ?_⟩
              · obtain ⟨r1, r2⟩ := hb.1 e' st' h
                exact ⟨fun hx => ⟨hw0, (r1 hx).2⟩, fun hc _ => r2 hc hwf⟩
              · obtain ⟨⟨r1, r2⟩, r3⟩ := hb.2 st' fin h
                have hlt' : st'.dataSize < two64 :=
                  ((dmoBody_mono c mem annexb oracle st.pos l _ bs1 (subU64_lt _ _)).2 st' fin h).2
                refine ⟨⟨fun hx => ?_, fun hc _ => r2 hc hwf⟩, hlt'⟩
                obtain ⟨_, q2, q3, q4, q5, q6⟩ := r1 hx
                simp only [hsub] at q4 q5
                exact ⟨hw0, q2, q3, by omega, by omega, q6⟩
      · -- low-overhead format
        have hb := dmoBody_spec c mem annexb oracle st.pos 0 (st.see (bitsInit c mem st.pos st.dataSize))
          (bitsInit c mem st.pos st.dataSize) st.pos E i0 rfl (by rw [bitsInit_bits]; omega)
          (by rw [bitsInit_endOff]; omega) (by omega) (by simp) hE (by simp only [see_maxRead]; omega)
          (fun _ => by simpa using hpe) (by simpa using hlt)
        refine ⟨fun e' st' h => ?_, fun st' fin h => ?_⟩
        · obtain ⟨r1, r2⟩ := hb.1 e' st' h
          exact ⟨fun hx => ⟨hw0, (r1 hx).2⟩, fun hc _ => r2 hc (by simpa using hw0)⟩
        · obtain ⟨⟨r1, r2⟩, r3⟩ := hb.2 st' fin h
          have hlt' : st'.dataSize < two64 :=
            ((dmoBody_mono c mem annexb oracle st.pos 0 _ _ (by simpa using hlt)).2 st' fin h).2
          refine ⟨⟨fun hx => ?_, fun hc _ => r2 hc (by simpa using hw0)⟩, hlt'⟩
          obtain ⟨_, q2, q3, q4, q5, q6⟩ := r1 hx
          simp only [see_dataSize, see_pos] at q4 q5
          exact ⟨hw0, q2, q3, q4, q5, q6⟩

/-! ### what a `return` inside the loop can carry -/

/-- the C code leaves the `switch` with `return status;` only when `status != EB_ErrorNone` -/
def OracleOk (oracle : Oracle) : Prop := ∀ k e, oracle k = .ret e → e ≠ 0

theorem paySwitch_ret (c : Cfg) (t : Nat) (seen : Bool) (o : PayRes) (s' : Bool) (e : Nat)
    (h : paySwitch c t seen o = (s', some (.ret e))) : o = .ret e ∨ e = EB_Corrupt_Frame := by
  simp only [paySwitch] at h
  repeat' split at h
  all_goals simp_all

/-- a `return` is never the model's iteration bound, and never `EB_ErrorNone` -/
def GoodEnd (e : DmoEnd) : Prop := e ≠ .fuel ∧ e ≠ .ret 0

theorem corrupt_ne_zero : EB_Corrupt_Frame ≠ 0 := by decide

theorem payload_inl (c : Cfg) (mem : List UInt8) (oracle : Oracle) (rec : ObuRec) (st : St) (ho : OracleOk oracle)
    (e : DmoEnd) (st' : St) (h : payload c mem oracle rec st = .inl (e, st')) : GoodEnd e := by
  simp only [payload, St.see] at h
  split at h
  · simp only [Sum.inl.injEq, Prod.mk.injEq] at h
    obtain ⟨rfl, _⟩ := h
    exact ⟨by simp, by simp⟩
  · rename_i seen e' hps
    simp only [Sum.inl.injEq, Prod.mk.injEq] at h
    obtain ⟨rfl, _⟩ := h
    refine ⟨by simp, ?_⟩
    rcases paySwitch_ret _ _ _ _ _ _ hps with h1 | h1
    · have := ho _ _ h1
      simpa using this
    · rw [h1]; simp [corrupt_ne_zero]
  · cases h

theorem dmoBody_inl (c : Cfg) (mem : List UInt8) (annexb : Bool) (oracle : Oracle) (start alen : Nat) (st : St)
    (bs1 : Bs) (ho : OracleOk oracle) (e : DmoEnd) (st' : St)
    (h : dmoBody c mem annexb oracle start alen st bs1 = .inl (e, st')) : GoodEnd e := by
  simp only [dmoBody] at h
  split at h
  · rename_i e' bs2 hr
    simp only [Sum.inl.injEq, Prod.mk.injEq] at h
    obtain ⟨rfl, _⟩ := h
    -- the header / size readers only ever return EB_Corrupt_Frame
    have : e' = EB_Corrupt_Frame := by
      simp only [readObuHeaderSize] at hr
      split at hr
      · rename_i e0 b0 h0
        simp only [Prod.mk.injEq, Ret.err.injEq] at hr
        obtain ⟨rfl, _⟩ := hr
        simp only [readObuHeader] at h0
        repeat' split at h0
        all_goals simp_all
      · split at hr
        · split at hr
          · rename_i e0 b0 h0
            simp only [Prod.mk.injEq, Ret.err.injEq] at hr
            obtain ⟨rfl, _⟩ := hr
            simp only [readObuSize] at h0
            split at h0 <;> simp_all
          · simp at hr
        · simp at hr
    rw [this]; exact ⟨by simp, by simp [corrupt_ne_zero]⟩
  · split at h
    · rename_i e' hadv
      simp only [Sum.inl.injEq, Prod.mk.injEq] at h
      obtain ⟨rfl, _⟩ := h
      have : e' = EB_Corrupt_Frame := by
        simp only [advance] at hadv
        repeat' split at hadv
        all_goals simp_all
      rw [this]; exact ⟨by simp, by simp [corrupt_ne_zero]⟩
    · exact payload_inl c mem oracle _ _ ho e st' h

theorem dmoStep_inl (c : Cfg) (mem : List UInt8) (annexb : Bool) (oracle : Oracle) (st : St) (ho : OracleOk oracle)
    (e : DmoEnd) (st' : St) (h : dmoStep c mem annexb oracle st = .inl (e, st')) : GoodEnd e := by
  simp only [dmoStep] at h
  split at h
  · rename_i hs
    simp only [Sum.inl.injEq, Prod.mk.injEq] at h
    obtain ⟨rfl, _⟩ := h
    exact ⟨by simp, by simpa [EB_ErrorNone] using hs⟩
  · split at h
    · split at h
      · rename_i e' bs1 hr
        simp only [Sum.inl.injEq, Prod.mk.injEq] at h
        obtain ⟨rfl, _⟩ := h
        have : e' = EB_Corrupt_Frame := by
          simp only [readObuSize] at hr
          split at hr <;> simp_all
        rw [this]; exact ⟨by simp, by simp [corrupt_ne_zero]⟩
      · split at h
        · simp only [Sum.inl.injEq, Prod.mk.injEq] at h
          obtain ⟨rfl, _⟩ := h
          exact ⟨by simp, by simp [corrupt_ne_zero]⟩
        · exact dmoBody_inl c mem annexb oracle _ _ _ _ ho e st' h
    · exact dmoBody_inl c mem annexb oracle _ _ _ _ ho e st' h

/-! ### the loop of `decode_multiple_obu` -/

theorem dmoLoop_spec (c : Cfg) (mem : List UInt8) (annexb : Bool) (oracle : Oracle) (E : Nat) (hE : E < two64) :
    ∀ (fuel : Nat) (st : St), Head c E st → (st.wrapped = false → st.dataSize < fuel) →
      ((dmoLoop c mem annexb oracle fuel st).2.wrapped = false →
          st.wrapped = false ∧ (dmoLoop c mem annexb oracle fuel st).2.maxRead ≤ rb c E ∧
          (dmoLoop c mem annexb oracle fuel st).1 ≠ .fuel ∧
          (OracleOk oracle → (dmoLoop c mem annexb oracle fuel st).1 = .ret 0 →
             st.pos < (dmoLoop c mem annexb oracle fuel st).2.pos)) ∧
      (c.checkSub = true → st.wrapped = false → (dmoLoop c mem annexb oracle fuel st).2.wrapped = false) := by
  intro fuel
  induction fuel with
  | zero =>
    intro st hh hf
    simp only [dmoLoop]
    refine ⟨fun hw => ?_, fun _ h0 => h0⟩
    have := hf hw; omega
  | succ f ih =>
    intro st hh hf
    have hs := dmoStep_spec c mem annexb oracle st E hE hh
    simp only [dmoLoop]
    split
    · rename_i r hr
      obtain ⟨e, st'⟩ := r
      obtain ⟨r1, r2⟩ := hs.1 e st' hr
      refine ⟨fun hw => ?_, r2⟩
      obtain ⟨q1, q2⟩ := r1 hw
      refine ⟨q1, q2, ?_, fun ho he => ?_⟩
      · -- a `return` of the step is never the iteration bound (shown without the oracle hypothesis)
        intro hx
        simp only at hx
        subst hx
        revert hr
        simp only [dmoStep, dmoBody, payload]
        repeat' split
        all_goals simp
      · have := (dmoStep_inl c mem annexb oracle st ho e st' hr).2
        exact (this he).elim
    · rename_i st' fin hr
      obtain ⟨⟨r1, r2⟩, r3⟩ := hs.2 st' fin hr
      split
      · -- frame finished / data exhausted
        refine ⟨fun hw => ?_, r2⟩
        obtain ⟨q1, q2, q3, q4, q5, q6⟩ := r1 hw
        exact ⟨q1, q2, by simp, fun _ _ => q5⟩
      · rename_i hfin
        have hfin' : fin = false := by simpa using hfin
        have hh' : Head c E st' := ⟨r3, fun hw => by
          obtain ⟨q1, q2, q3, q4, q5, q6⟩ := r1 hw
          exact ⟨q3, q6 hfin', q2⟩⟩
        have hf' : st'.wrapped = false → st'.dataSize < f := fun hw => by
          obtain ⟨q1, q2, q3, q4, q5, q6⟩ := r1 hw
          have := hf q1; omega
        obtain ⟨i1, i2⟩ := ih st' hh' hf'
        refine ⟨fun hw => ?_, fun hc h0 => i2 hc (r2 hc h0)⟩
        obtain ⟨j1, j2, j3, j4⟩ := i1 hw
        obtain ⟨q1, q2, q3, q4, q5, q6⟩ := r1 j1
        exact ⟨q1, j2, j3, fun ho he => Nat.lt_trans q5 (j4 ho he)⟩

/-! ### `svt_av1_dec_frame` -/

/-- the state `decode_multiple_obu` starts from: `frame_size = data_end - data_start`, fresh locals -/
theorem head_of_call (c : Cfg) (E : Nat) (hE : E < two64) (st : St) (hp : ¬ st.pos ≥ E)
    (hm : st.wrapped = false → st.maxRead ≤ rb c E) :
    Head c E { st with dataSize := E - st.pos, status := 0, hdrPayload := none } :=
  ⟨by simp only; omega, fun hw => ⟨by simp only; omega, by simp only; omega, hm hw⟩⟩

theorem frameLoop_bound (c : Cfg) (mem : List UInt8) (annexb : Bool) (oracle : Oracle) (E : Nat) (hE : E < two64) :
    ∀ (fuel calls lastErr : Nat) (st : St), (st.wrapped = false → st.maxRead ≤ rb c E) →
      ((frameLoop c mem E annexb oracle fuel calls lastErr st).st.wrapped = false →
          st.wrapped = false ∧ (frameLoop c mem E annexb oracle fuel calls lastErr st).st.maxRead ≤ rb c E) ∧
      (c.checkSub = true → st.wrapped = false →
          (frameLoop c mem E annexb oracle fuel calls lastErr st).st.wrapped = false) := by
  intro fuel
  induction fuel with
  | zero => intro calls lastErr st hm; simp only [frameLoop]; exact ⟨fun hw => ⟨hw, hm hw⟩, fun _ h0 => h0⟩
  | succ f ih =>
    intro calls lastErr st hm
    simp only [frameLoop]
    split
    · exact ⟨fun hw => ⟨hw, hm hw⟩, fun _ h0 => h0⟩
    · rename_i hp
      have hh := head_of_call c E hE st hp hm
      have dl := dmoLoop_spec c mem annexb oracle E hE (dmoFuel mem.length (E - st.pos)) _ hh
        (fun _ => by simp only [dmoFuel]; omega)
      generalize dmoLoop c mem annexb oracle (dmoFuel mem.length (E - st.pos))
        { st with dataSize := E - st.pos, status := 0, hdrPayload := none } = res at dl
      obtain ⟨e1, st1⟩ := res
      obtain ⟨d1, d2⟩ := dl
      simp only at d1 d2
      have hm1 : st1.wrapped = false → st1.maxRead ≤ rb c E := fun hw => (d1 hw).2.1
      have fin : (st1.wrapped = false → st.wrapped = false ∧ st1.maxRead ≤ rb c E) ∧
          (c.checkSub = true → st.wrapped = false → st1.wrapped = false) :=
        ⟨fun hw => ⟨(d1 hw).1, (d1 hw).2.1⟩, d2⟩
      have hrec : ∀ calls' le, ((frameLoop c mem E annexb oracle f calls' le st1).st.wrapped = false →
          st.wrapped = false ∧ (frameLoop c mem E annexb oracle f calls' le st1).st.maxRead ≤ rb c E) ∧
          (c.checkSub = true → st.wrapped = false →
            (frameLoop c mem E annexb oracle f calls' le st1).st.wrapped = false) := by
        intro calls' le
        obtain ⟨i1, i2⟩ := ih calls' le st1 hm1
        exact ⟨fun hw => ⟨(d1 (i1 hw).1).1, (i1 hw).2⟩, fun hc h0 => i2 hc (d2 hc h0)⟩
      cases e1 with
      | fuel => exact fin
      | abort => exact fin
      | ret e =>
        simp only
        split
        · split
          · exact fin
          · split
            · exact fin
            · split
              · exact fin
              · exact hrec _ _
        · exact hrec _ _

theorem frameLoop_term (c : Cfg) (mem : List UInt8) (annexb : Bool) (oracle : Oracle) (E : Nat) (hE : E < two64)
    (hcfg : c.errReturn = true ∨ c.ndebug = false) (ho : OracleOk oracle) :
    ∀ (fuel calls lastErr : Nat) (st : St), (st.wrapped = false → st.maxRead ≤ rb c E) → E - st.pos < fuel →
      (frameLoop c mem E annexb oracle fuel calls lastErr st).st.wrapped = false →
      (frameLoop c mem E annexb oracle fuel calls lastErr st).outcome ≠ .fuel ∧
      (frameLoop c mem E annexb oracle fuel calls lastErr st).outcome ≠ .hang := by
  intro fuel
  induction fuel with
  | zero => intro calls lastErr st hm hf; omega
  | succ f ih =>
    intro calls lastErr st hm hf
    simp only [frameLoop]
    split
    · intro _; exact ⟨by simp, by simp⟩
    · rename_i hp
      have hh := head_of_call c E hE st hp hm
      have dl := dmoLoop_spec c mem annexb oracle E hE (dmoFuel mem.length (E - st.pos)) _ hh
        (fun _ => by simp only [dmoFuel]; omega)
      generalize dmoLoop c mem annexb oracle (dmoFuel mem.length (E - st.pos))
        { st with dataSize := E - st.pos, status := 0, hdrPayload := none } = res at dl
      obtain ⟨e1, st1⟩ := res
      obtain ⟨d1, d2⟩ := dl
      simp only at d1 d2
      have hm1 : st1.wrapped = false → st1.maxRead ≤ rb c E := fun hw => (d1 hw).2.1
      have fb := fun calls' le => (frameLoop_bound c mem annexb oracle E hE f calls' le st1 hm1).1
      cases e1 with
      | fuel => intro hw; exact ((d1 hw).2.2.1 rfl).elim
      | abort => intro _; exact ⟨by simp, by simp⟩
      | ret e =>
        simp only
        split
        · rename_i he
          split
          · intro _; exact ⟨by simp, by simp⟩
          · rename_i her
            split
            · intro _; exact ⟨by simp, by simp⟩
            · rename_i hnd
              rcases hcfg with h1 | h1
              · exact (her h1).elim
              · rw [h1] at hnd; simp at hnd
        · rename_i he
          have he0 : e = 0 := by simpa [EB_ErrorNone] using he
          intro hw
          have hw1 := (fb _ _ hw).1
          have hlt : st.pos < st1.pos := by
            have := (d1 hw1).2.2.2 ho (by rw [he0])
            simpa using this
          exact ih _ _ st1 hm1 (by omega) hw

/-! ### with the repairs: no uninitialised size is read; with NDEBUG and `errReturn`: no abort -/

theorem advance_uninit (c : Cfg) (hc : c.checkSub = true) (annexb : Bool) (st st' : St) (h : Hdr)
    (vl : Option (Nat × Nat)) (p : Nat) (hr : advance c annexb st h vl = .ok (st', p)) :
    st'.uninit = st.uninit := by
  simp only [advance, hc] at hr
  repeat' split at hr
  all_goals simp_all
  all_goals (obtain ⟨rfl, _⟩ := hr; rfl)

theorem dmoStep_uninit (c : Cfg) (hc : c.checkSub = true) (mem : List UInt8) (annexb : Bool) (oracle : Oracle)
    (st : St) (hu : st.uninit = false) :
    (∀ e st', dmoStep c mem annexb oracle st = .inl (e, st') → st'.uninit = false) ∧
    (∀ st' fin, dmoStep c mem annexb oracle st = .inr (st', fin) → st'.uninit = false) := by
  have body : ∀ (start alen : Nat) (s0 : St) (bs1 : Bs), s0.uninit = false →
      (∀ e st', dmoBody c mem annexb oracle start alen s0 bs1 = .inl (e, st') → st'.uninit = false) ∧
      (∀ st' fin, dmoBody c mem annexb oracle start alen s0 bs1 = .inr (st', fin) → st'.uninit = false) := by
    intro start alen s0 bs1 h0
    simp only [dmoBody]
    split
    · refine ⟨fun e st' h => ?_, fun st' fin h => (by cases h)⟩
      simp only [Sum.inl.injEq, Prod.mk.injEq] at h
      obtain ⟨_, rfl⟩ := h; exact h0
    · rename_i hdr vl bs2 _
      have h0' : (s0.uninit || (vl.isNone && s0.hdrPayload.isNone && !c.checkSub)) = false := by
        simp only [h0, hc, Bool.not_true, Bool.and_false, Bool.or_false]
      split
      · refine ⟨fun e st' h => ?_, fun st' fin h => (by cases h)⟩
        simp only [Sum.inl.injEq, Prod.mk.injEq] at h
        obtain ⟨_, rfl⟩ := h; exact h0'
      · rename_i st3 pl hadv
        have h3 : st3.uninit = false := by
          rw [advance_uninit c hc annexb _ st3 _ _ pl hadv]; exact h0'
        simp only [payload, St.see]
        generalize paySwitch c _ st3.seen (oracle (st3.idx + 1 - 1)) = ps
        rcases ps with ⟨seen, _ | (⟨status, fin⟩ | e)⟩
        · refine ⟨fun e st' h => ?_, fun st' fin h => (by cases h)⟩
          simp only [Sum.inl.injEq, Prod.mk.injEq] at h
          obtain ⟨_, rfl⟩ := h; exact h3
        · refine ⟨fun e st' h => (by cases h), fun st' fin' h => ?_⟩
          simp only [Sum.inr.injEq, Prod.mk.injEq] at h
          obtain ⟨rfl, _⟩ := h
          split <;> exact h3
        · refine ⟨fun e' st' h => ?_, fun st' fin h => (by cases h)⟩
          simp only [Sum.inl.injEq, Prod.mk.injEq] at h
          obtain ⟨_, rfl⟩ := h; exact h3
  simp only [dmoStep]
  split
  · refine ⟨fun e st' h => ?_, fun st' fin h => (by cases h)⟩
    simp only [Sum.inl.injEq, Prod.mk.injEq] at h
    obtain ⟨_, rfl⟩ := h; exact hu
  · split
    · split
      · refine ⟨fun e st' h => ?_, fun st' fin h => (by cases h)⟩
        simp only [Sum.inl.injEq, Prod.mk.injEq] at h
        obtain ⟨_, rfl⟩ := h; exact hu
      · split
        · refine ⟨fun e st' h => ?_, fun st' fin h => (by cases h)⟩
          simp only [Sum.inl.injEq, Prod.mk.injEq] at h
          obtain ⟨_, rfl⟩ := h; exact hu
        · exact body _ _ _ _ hu
    · exact body _ _ _ _ hu

theorem dmoLoop_uninit (c : Cfg) (hc : c.checkSub = true) (mem : List UInt8) (annexb : Bool) (oracle : Oracle) :
    ∀ (fuel : Nat) (st : St), st.uninit = false → (dmoLoop c mem annexb oracle fuel st).2.uninit = false := by
  intro fuel
  induction fuel with
  | zero => intro st hu; exact hu
  | succ f ih =>
    intro st hu
    have hs := dmoStep_uninit c hc mem annexb oracle st hu
    simp only [dmoLoop]
    split
    · rename_i r hr; obtain ⟨e, st'⟩ := r; exact hs.1 e st' hr
    · rename_i st' fin hr
      split
      · exact hs.2 st' fin hr
      · exact ih st' (hs.2 st' fin hr)

theorem frameLoop_uninit (c : Cfg) (hc : c.checkSub = true) (mem : List UInt8) (annexb : Bool) (oracle : Oracle)
    (E : Nat) : ∀ (fuel calls lastErr : Nat) (st : St), st.uninit = false →
      (frameLoop c mem E annexb oracle fuel calls lastErr st).st.uninit = false := by
  intro fuel
  induction fuel with
  | zero => intro calls lastErr st hu; exact hu
  | succ f ih =>
    intro calls lastErr st hu
    simp only [frameLoop]
    split
    · exact hu
    · have dl := dmoLoop_uninit c hc mem annexb oracle (dmoFuel mem.length (E - st.pos))
        { st with dataSize := E - st.pos, status := 0, hdrPayload := none } hu
      generalize dmoLoop c mem annexb oracle (dmoFuel mem.length (E - st.pos))
        { st with dataSize := E - st.pos, status := 0, hdrPayload := none } = res at dl
      obtain ⟨e1, st1⟩ := res
      simp only at dl
      cases e1 with
      | fuel => exact dl
      | abort => exact dl
      | ret e =>
        simp only
        repeat' split
        all_goals first | exact dl | exact ih _ _ st1 dl

/-- with NDEBUG no `assert` exists, and with `errReturn` an error is returned: the call never aborts -/
theorem paySwitch_ndebug (c : Cfg) (hn : c.ndebug = true) (t : Nat) (seen : Bool) (o : PayRes) :
    (paySwitch c t seen o).2 ≠ none := by
  simp only [paySwitch, hn, Bool.not_true, Bool.false_and]
  repeat' split
  all_goals simp_all

theorem dmoStep_noabort (c : Cfg) (hn : c.ndebug = true) (mem : List UInt8) (annexb : Bool) (oracle : Oracle)
    (st st' : St) : dmoStep c mem annexb oracle st ≠ .inl (.abort, st') := by
  have body : ∀ (start alen : Nat) (s0 : St) (bs1 : Bs),
      dmoBody c mem annexb oracle start alen s0 bs1 ≠ .inl (.abort, st') := by
    intro start alen s0 bs1
    simp only [dmoBody]
    split
    · simp
    · split
      · simp
      · rename_i st3 pl hadv
        simp only [payload, St.see]
        have := paySwitch_ndebug c hn
        generalize hps : paySwitch c _ st3.seen (oracle (st3.idx + 1 - 1)) = ps
        rcases ps with ⟨seen, _ | (⟨status, fin⟩ | e)⟩
        · rename_i hdr _ _ _ _
          exfalso; have h2 := this hdr.obuType st3.seen (oracle (st3.idx + 1 - 1)); rw [hps] at h2; exact h2 rfl
        · simp
        · simp
  simp only [dmoStep]
  split
  · simp
  · split
    · split
      · simp
      · split
        · simp
        · exact body _ _ _ _
    · exact body _ _ _ _

theorem dmoLoop_noabort (c : Cfg) (hn : c.ndebug = true) (mem : List UInt8) (annexb : Bool) (oracle : Oracle) :
    ∀ (fuel : Nat) (st : St), (dmoLoop c mem annexb oracle fuel st).1 ≠ .abort := by
  intro fuel
  induction fuel with
  | zero => intro st; simp [dmoLoop]
  | succ f ih =>
    intro st
    simp only [dmoLoop]
    split
    · rename_i r hr
      obtain ⟨e, st'⟩ := r
      intro he
      simp only at he
      subst he
      exact dmoStep_noabort c hn mem annexb oracle st st' hr
    · split
      · simp
      · exact ih _

theorem frameLoop_noabort (c : Cfg) (he : c.errReturn = true) (hn : c.ndebug = true) (mem : List UInt8)
    (annexb : Bool) (oracle : Oracle) (E : Nat) : ∀ (fuel calls lastErr : Nat) (st : St),
      (frameLoop c mem E annexb oracle fuel calls lastErr st).outcome ≠ .abort := by
  intro fuel
  induction fuel with
  | zero => intro calls lastErr st; simp [frameLoop]
  | succ f ih =>
    intro calls lastErr st
    simp only [frameLoop]
    split
    · simp
    · have dl := dmoLoop_noabort c hn mem annexb oracle (dmoFuel mem.length (E - st.pos))
        { st with dataSize := E - st.pos, status := 0, hdrPayload := none }
      generalize dmoLoop c mem annexb oracle (dmoFuel mem.length (E - st.pos))
        { st with dataSize := E - st.pos, status := 0, hdrPayload := none } = res at dl
      obtain ⟨e1, st1⟩ := res
      cases e1 with
      | fuel => simp
      | abort => exact (dl rfl).elim
      | ret e =>
        simp only
        split
        · simp
        · exact ih _ _ st1

end ObuWalk
