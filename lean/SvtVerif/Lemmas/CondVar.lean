/-
  C04 (part A) — proofs for `Model/CondVar.lean` (svt_set_cond_var / svt_wait_cond_var,
  EbThreads.c:449-495): mutual exclusion, the no-lost-wake-up invariant, deadlock characterisation, and
  the me_ready handshake (`handshake_no_lost_wakeup`).  Everything is proved for an arbitrary `role`
  assignment, any number of threads and every interleaving (induction over `Reachable`).
-/
import SvtVerif.Model.CondVar

namespace CondVar

variable {role : Nat → Role} {s s' : State} {t : Nat}

/-! ## Relational view of one action (proof device; `act_sound` ties it to the executable `act`) -/

/-- One action of the system, as a relation: the eight primitives of the two C functions plus the
spurious wake-up. -/
inductive Trans (role : Nat → Role) (s : State) : State → Prop
  | setLock {t : Nat} {v : Int} : role t = .setter v → s.pc t = .idle → s.owner = none →
      Trans role s { s with owner := some t, pc := setPc s.pc t .locked }
  | setWrite {t : Nat} {v : Int} : role t = .setter v → s.pc t = .locked →
      Trans role s { s with val := v, pc := setPc s.pc t .wrote }
  | setBcast {t : Nat} {v : Int} : role t = .setter v → s.pc t = .wrote →
      Trans role s { s with pc := bcastPc s.pc t }
  | setUnlock {t : Nat} {v : Int} : role t = .setter v → s.pc t = .bcast →
      Trans role s { s with owner := none, pc := setPc s.pc t .done }
  | waitLock {t : Nat} {i : Int} : role t = .waiter i → s.pc t = .idle → s.owner = none →
      Trans role s { s with owner := some t, pc := setPc s.pc t .testing }
  | waitSleep {t : Nat} {i : Int} : role t = .waiter i → s.pc t = .testing → s.val = i →
      Trans role s { s with owner := none, pc := setPc s.pc t .sleeping }
  | waitExit {t : Nat} {i : Int} : role t = .waiter i → s.pc t = .testing → ¬ s.val = i →
      Trans role s { s with owner := none, pc := setPc s.pc t .done }
  | waitReacq {t : Nat} {i : Int} : role t = .waiter i → s.pc t = .woken → s.owner = none →
      Trans role s { s with owner := some t, pc := setPc s.pc t .testing }
  | spur {t : Nat} {i : Int} : role t = .waiter i → s.pc t = .sleeping →
      Trans role s { s with pc := setPc s.pc t .woken }

theorem step_sound (h : step role s t = some s') : Trans role s s' := by
  unfold step at h
  split at h
  all_goals (try split at h)
  all_goals first
    | (cases h
       first
        | exact Trans.setLock (by assumption) (by assumption) (by assumption)
        | exact Trans.setWrite (by assumption) (by assumption)
        | exact Trans.setBcast (by assumption) (by assumption)
        | exact Trans.setUnlock (by assumption) (by assumption)
        | exact Trans.waitLock (by assumption) (by assumption) (by assumption)
        | exact Trans.waitSleep (by assumption) (by assumption) (by assumption)
        | exact Trans.waitExit (by assumption) (by assumption) (by assumption)
        | exact Trans.waitReacq (by assumption) (by assumption) (by assumption))
    | cases h

theorem spurious_sound (h : spurious role s t = some s') : Trans role s s' := by
  unfold spurious at h
  split at h
  · cases h
    exact Trans.spur (by assumption) (by assumption)
  · cases h

theorem act_sound {a : Act} (h : act role s a = some s') : Trans role s s' := by
  cases a with
  | run t => exact step_sound h
  | spur t => exact spurious_sound h

/-! ## Enabledness of the primitives (completeness of `step` where it matters) -/

theorem en_setter_idle {v : Int} (hr : role t = .setter v) (hp : s.pc t = .idle)
    (ho : s.owner = none) : step role s t ≠ none := by
  simp [step, hr, hp, ho]

theorem en_setter_locked {v : Int} (hr : role t = .setter v) (hp : s.pc t = .locked) :
    step role s t ≠ none := by
  simp [step, hr, hp]

theorem en_setter_wrote {v : Int} (hr : role t = .setter v) (hp : s.pc t = .wrote) :
    step role s t ≠ none := by
  simp [step, hr, hp]

theorem en_setter_bcast {v : Int} (hr : role t = .setter v) (hp : s.pc t = .bcast) :
    step role s t ≠ none := by
  simp [step, hr, hp]

theorem en_waiter_idle {i : Int} (hr : role t = .waiter i) (hp : s.pc t = .idle)
    (ho : s.owner = none) : step role s t ≠ none := by
  simp [step, hr, hp, ho]

theorem en_waiter_testing {i : Int} (hr : role t = .waiter i) (hp : s.pc t = .testing) :
    step role s t ≠ none := by
  by_cases hv : s.val = i <;> simp [step, hr, hp, hv]

theorem en_waiter_woken {i : Int} (hr : role t = .waiter i) (hp : s.pc t = .woken)
    (ho : s.owner = none) : step role s t ≠ none := by
  simp [step, hr, hp, ho]

/-! ## (A1) Mutual exclusion and role/pc consistency -/

/-- pcs at which the thread holds `m_mutex`. -/
@[reducible] def InCS (p : Pc) : Prop := p = .locked ∨ p = .wrote ∨ p = .bcast ∨ p = .testing

/-- pcs a setter can be at. -/
@[reducible] def SetterPc (p : Pc) : Prop :=
  p = .idle ∨ p = .locked ∨ p = .wrote ∨ p = .bcast ∨ p = .done

/-- pcs a waiter can be at. -/
@[reducible] def WaiterPc (p : Pc) : Prop :=
  p = .idle ∨ p = .testing ∨ p = .sleeping ∨ p = .woken ∨ p = .done

/-- Bookkeeping invariant: a thread is inside a critical section iff it is the recorded mutex owner
(hence at most one thread is), and every thread's pc belongs to its own function. -/
structure Inv1 (role : Nat → Role) (s : State) : Prop where
  excl : ∀ t, InCS (s.pc t) ↔ s.owner = some t
  setterOk : ∀ t v, role t = .setter v → SetterPc (s.pc t)
  waiterOk : ∀ t i, role t = .waiter i → WaiterPc (s.pc t)
  noneOk : ∀ t, role t = .none → s.pc t = .idle

theorem inv1_init (v0 : Int) : Inv1 role (init v0) := by
  refine ⟨fun u => ?_, fun u v _ => Or.inl rfl, fun u i _ => Or.inl rfl, fun u _ => rfl⟩
  simp [init, InCS]

set_option hygiene false in
local macro "inv1_tac" : tactic =>
  `(tactic| (refine ⟨fun u => ?_, fun u w hu => ?_, fun u j hu => ?_, fun u hu => ?_⟩ <;>
      (have e1 := hex u
       have e2 := hex t
       have e3 := hso u
       have e4 := hwo u
       have e5 := hno u
       grind)))

theorem inv1_trans (hi : Inv1 role s) (h : Trans role s s') : Inv1 role s' := by
  obtain ⟨hex, hso, hwo, hno⟩ := hi
  cases h with
  | @setLock t v hr hp ho => inv1_tac
  | @setWrite t v hr hp => inv1_tac
  | @setBcast t v hr hp => inv1_tac
  | @setUnlock t v hr hp => inv1_tac
  | @waitLock t i hr hp ho => inv1_tac
  | @waitSleep t i hr hp hv => inv1_tac
  | @waitExit t i hr hp hv => inv1_tac
  | @waitReacq t i hr hp ho => inv1_tac
  | @spur t i hr hp => inv1_tac

/-! ## (A2) The no-lost-wake-up invariant -/

/-- If a waiter sleeps although `val` already differs from its `input`, a setter is between its write
(EbThreads.c:463) and its broadcast (:464) — the wake-up is still to come. -/
def NoLost (role : Nat → Role) (s : State) : Prop :=
  ∀ w i, role w = .waiter i → s.pc w = .sleeping → s.val ≠ i →
    ∃ t v, role t = .setter v ∧ s.pc t = .wrote

set_option hygiene false in
local macro "nolost_tac" : tactic =>
  `(tactic| (intro w i hw hs hv
             have hws : s.pc w = .sleeping := by grind
             obtain ⟨t0, v0, hr0, hp0⟩ := hn w i hw hws hv
             exact ⟨t0, v0, hr0, by grind⟩))

theorem noLost_trans (hn : NoLost role s) (h : Trans role s s') : NoLost role s' := by
  cases h with
  | @setLock t v hr hp ho => nolost_tac
  | @setWrite t v hr hp =>
    intro w i hw hs hv
    exact ⟨t, v, hr, by grind⟩
  | @setBcast t v hr hp =>
    intro w i hw hs hv
    exfalso
    grind
  | @setUnlock t v hr hp => nolost_tac
  | @waitLock t i' hr hp ho => nolost_tac
  | @waitSleep t i' hr hp hv' => nolost_tac
  | @waitExit t i' hr hp hv' => nolost_tac
  | @waitReacq t i' hr hp ho => nolost_tac
  | @spur t i' hr hp => nolost_tac

theorem inv_of_reachable {v0 : Int} (h : Reachable role v0 s) : Inv1 role s ∧ NoLost role s := by
  induction h with
  | init =>
    refine ⟨inv1_init v0, ?_⟩
    intro w i _ hs _
    cases hs
  | step _ ha ih => exact ⟨inv1_trans ih.1 (act_sound ha), noLost_trans ih.2 (act_sound ha)⟩

/-- **(A1) mutex_excl.**  C: in every reachable state a thread is between `pthread_mutex_lock` and the
matching unlock / `pthread_cond_wait` release (pcs `locked|wrote|bcast|testing`) iff it is the holder of
`m_mutex`; so at most one thread is inside a critical section of `svt_set_cond_var` /
`svt_wait_cond_var`. -/
theorem mutex_excl {v0 : Int} (h : Reachable role v0 s) :
    (∀ t, InCS (s.pc t) ↔ s.owner = some t) ∧
    (∀ t u, InCS (s.pc t) → InCS (s.pc u) → t = u) := by
  have hex := (inv_of_reachable h).1.excl
  refine ⟨hex, fun t u ht hu => ?_⟩
  have h1 := (hex t).1 ht
  have h2 := (hex u).1 hu
  rw [h1] at h2
  exact Option.some.inj h2

/-- **(A2) no_lost_wakeup_inv.**  C: in every interleaving, whenever a waiter is blocked in
`pthread_cond_wait` while `cond_var->val != input`, some setter has written `val` and has not yet
executed `pthread_cond_broadcast` (and holds the mutex): the wake-up cannot have been lost. -/
theorem no_lost_wakeup_inv {v0 : Int} (h : Reachable role v0 s) {w : Nat} {i : Int}
    (hw : role w = .waiter i) (hs : s.pc w = .sleeping) (hv : s.val ≠ i) :
    ∃ t v, role t = .setter v ∧ s.pc t = .wrote ∧ s.owner = some t := by
  obtain ⟨hi, hn⟩ := inv_of_reachable h
  obtain ⟨t0, v, hr0, hp0⟩ := hn w i hw hs hv
  exact ⟨t0, v, hr0, hp0, (hi.excl t0).1 (Or.inr (Or.inl hp0))⟩

/-- **(A2')** C: when no setter sits between its write and its broadcast (in particular once every
setter has returned), a waiter whose condition `val != input` holds is not asleep: it is `idle`,
`testing`, `woken` or `done`. -/
theorem no_sleeper_when_no_pending_broadcast {v0 : Int} (h : Reachable role v0 s)
    (hnw : ∀ t v, role t = .setter v → s.pc t ≠ .wrote) {w : Nat} {i : Int}
    (hw : role w = .waiter i) (hv : s.val ≠ i) :
    s.pc w = .idle ∨ s.pc w = .testing ∨ s.pc w = .woken ∨ s.pc w = .done := by
  obtain ⟨hi, hn⟩ := inv_of_reachable h
  have hp := hi.waiterOk w i hw
  rcases hp with hp | hp | hp | hp | hp
  · exact Or.inl hp
  · exact Or.inr (Or.inl hp)
  · exfalso
    obtain ⟨t0, v, hr0, hp0⟩ := hn w i hw hp hv
    exact hnw t0 v hr0 hp0
  · exact Or.inr (Or.inr (Or.inl hp))
  · exact Or.inr (Or.inr (Or.inr hp))

/-! ## (A3) Deadlock characterisation -/

theorem stuck_shape (hi : Inv1 role s) (hn : NoLost role s) (hst : Stuck role s) :
    s.owner = none ∧ (∀ t v, role t = .setter v → s.pc t = .done) ∧
    (∀ t i, role t = .waiter i → s.pc t = .done ∨ (s.pc t = .sleeping ∧ s.val = i)) := by
  obtain ⟨hex, hso, hwo, hno⟩ := hi
  have hown : s.owner = none := by
    cases ho : s.owner with
    | none => rfl
    | some o =>
      exfalso
      have hcs : InCS (s.pc o) := (hex o).2 ho
      have hs := hst o
      cases hro : role o with
      | none =>
        have := hno o hro
        grind
      | setter v =>
        have := hso o v hro
        rcases hcs with h | h | h | h
        · exact en_setter_locked hro h hs
        · exact en_setter_wrote hro h hs
        · exact en_setter_bcast hro h hs
        · grind
      | waiter i =>
        have := hwo o i hro
        rcases hcs with h | h | h | h
        · grind
        · grind
        · grind
        · exact en_waiter_testing hro h hs
  refine ⟨hown, fun t v hr => ?_, fun t i hr => ?_⟩
  · have hp := hso t v hr
    have hs := hst t
    have hcs := hex t
    rcases hp with h | h | h | h | h
    · exact absurd hs (en_setter_idle hr h hown)
    · grind
    · grind
    · grind
    · exact h
  · have hp := hwo t i hr
    have hs := hst t
    have hcs := hex t
    rcases hp with h | h | h | h | h
    · exact absurd hs (en_waiter_idle hr h hown)
    · grind
    · refine Or.inr ⟨h, ?_⟩
      apply Classical.byContradiction
      intro hne
      obtain ⟨t0, v0, hr0, hp0⟩ := hn t i hr h hne
      have hh := (hex t0).1 (Or.inr (Or.inl hp0))
      rw [hown] at hh
      cases hh
    · exact absurd hs (en_waiter_woken hr h hown)
    · exact Or.inl h

/-- **(A3) no_deadlock.**  C: in every reachable state in which no thread can execute its next primitive,
the mutex is free, every `svt_set_cond_var` call has returned, and every `svt_wait_cond_var` call has
either returned or sleeps with `cond_var->val == input` — i.e. the only way to be stuck is to wait for
a value that nobody is going to set.  (Spurious wake-ups are not used to get unstuck.) -/
theorem no_deadlock {v0 : Int} (h : Reachable role v0 s) (hst : Stuck role s) :
    s.owner = none ∧ (∀ t v, role t = .setter v → s.pc t = .done) ∧
    (∀ t i, role t = .waiter i → s.pc t = .done ∨ (s.pc t = .sleeping ∧ s.val = i)) :=
  stuck_shape (inv_of_reachable h).1 (inv_of_reachable h).2 hst

/-- (A3), disjunctive form: some thread has an enabled step, or the state has the harmless stuck shape. -/
theorem no_deadlock' {v0 : Int} (h : Reachable role v0 s) :
    (∃ t, step role s t ≠ none) ∨
    (s.owner = none ∧ (∀ t v, role t = .setter v → s.pc t = .done) ∧
      (∀ t i, role t = .waiter i → s.pc t = .done ∨ (s.pc t = .sleeping ∧ s.val = i))) := by
  by_cases hst : ∃ t, step role s t ≠ none
  · exact Or.inl hst
  · refine Or.inr (no_deadlock h ?_)
    intro t
    apply Classical.byContradiction
    intro hne
    exact hst ⟨t, hne⟩

/-- C: the mutex holder can always execute its next primitive (nobody blocks while holding `m_mutex`,
`pthread_cond_wait` releases it). -/
theorem holder_enabled {v0 : Int} (h : Reachable role v0 s) {o : Nat} (ho : s.owner = some o) :
    step role s o ≠ none := by
  intro hs
  obtain ⟨hex, hso, hwo, hno⟩ := (inv_of_reachable h).1
  have hcs : InCS (s.pc o) := (hex o).2 ho
  cases hro : role o with
  | none =>
    have := hno o hro
    grind
  | setter v =>
    have := hso o v hro
    rcases hcs with h | h | h | h
    · exact en_setter_locked hro h hs
    · exact en_setter_wrote hro h hs
    · exact en_setter_bcast hro h hs
    · grind
  | waiter i =>
    have := hwo o i hro
    rcases hcs with h | h | h | h
    · grind
    · grind
    · grind
    · exact en_waiter_testing hro h hs

/-! ## (A4) The me_ready instance -/

theorem MeReady.setter_val {n : Nat} {v0 v1 : Int} (hm : MeReady role n v0 v1) {v : Int}
    (hr : role t = .setter v) : v = v1 ∧ t < n := by
  have h := hm.roles t
  by_cases hlt : t < n
  · rcases h.1 hlt with h1 | h1
    · rw [hr] at h1
      exact ⟨Role.setter.inj h1, hlt⟩
    · rw [hr] at h1
      cases h1
  · have h2 := h.2 (Nat.le_of_not_lt hlt)
    rw [hr] at h2
    cases h2

theorem MeReady.waiter_inp {n : Nat} {v0 v1 : Int} (hm : MeReady role n v0 v1) {i : Int}
    (hr : role t = .waiter i) : i = v0 ∧ t < n := by
  have h := hm.roles t
  by_cases hlt : t < n
  · rcases h.1 hlt with h1 | h1
    · rw [hr] at h1
      cases h1
    · rw [hr] at h1
      exact ⟨Role.waiter.inj h1, hlt⟩
  · have h2 := h.2 (Nat.le_of_not_lt hlt)
    rw [hr] at h2
    cases h2

/-- (a) `val` is `v0` or `v1`, and it is `v1` as soon as some setter is past its write. -/
structure ValInv (role : Nat → Role) (v0 v1 : Int) (s : State) : Prop where
  range : s.val = v0 ∨ s.val = v1
  after : ∀ t v, role t = .setter v → (s.pc t = .wrote ∨ s.pc t = .bcast ∨ s.pc t = .done) →
    s.val = v1

set_option hygiene false in
local macro "valinv_tac" : tactic =>
  `(tactic| exact ⟨hv.range, fun u w hu hpu => hv.after u w hu (by grind)⟩)

theorem valInv_trans {n : Nat} {v0 v1 : Int} (hm : MeReady role n v0 v1)
    (hv : ValInv role v0 v1 s) (h : Trans role s s') : ValInv role v0 v1 s' := by
  cases h with
  | @setLock t v hr hp ho => valinv_tac
  | @setWrite t v hr hp =>
    have e : v = v1 := (hm.setter_val hr).1
    exact ⟨Or.inr e, fun _ _ _ _ => e⟩
  | @setBcast t v hr hp => valinv_tac
  | @setUnlock t v hr hp => valinv_tac
  | @waitLock t i hr hp ho => valinv_tac
  | @waitSleep t i hr hp hval => valinv_tac
  | @waitExit t i hr hp hval => valinv_tac
  | @waitReacq t i hr hp ho => valinv_tac
  | @spur t i hr hp => valinv_tac

theorem valInv_of_reachable {n : Nat} {v0 v1 : Int} (hm : MeReady role n v0 v1)
    (h : Reachable role v0 s) : ValInv role v0 v1 s := by
  induction h with
  | init => exact ⟨Or.inl rfl, fun t v _ hp => by simp [init] at hp⟩
  | step _ ha ih => exact valInv_trans hm ih (act_sound ha)

/-- Once `val = v1`, it stays `v1` (every setter writes `v1`). -/
theorem val_stable {n : Nat} {v0 v1 : Int} (hm : MeReady role n v0 v1) (h : Trans role s s')
    (hv : s.val = v1) : s'.val = v1 := by
  cases h with
  | setWrite hr hp => exact (hm.setter_val hr).1
  | _ => exact hv

/-! ### The termination measure -/

theorem weight_le (p : Pc) : weight p ≤ 4 := by
  cases p <;> decide

theorem mu_le_bound (s : State) : ∀ n, mu s n ≤ 4 * n
  | 0 => Nat.le_refl _
  | n + 1 => by
    have h1 := mu_le_bound s n
    have h2 := weight_le (s.pc n)
    show mu s n + weight (s.pc n) ≤ 4 * (n + 1)
    omega

theorem mu_le_of_le (h : ∀ u, weight (s'.pc u) ≤ weight (s.pc u)) : ∀ n, mu s' n ≤ mu s n
  | 0 => Nat.le_refl _
  | n + 1 => by
    have h1 := mu_le_of_le h n
    have h2 := h n
    show mu s' n + weight (s'.pc n) ≤ mu s n + weight (s.pc n)
    omega

theorem mu_lt_of_lt (h : ∀ u, weight (s'.pc u) ≤ weight (s.pc u))
    (ht : weight (s'.pc t) < weight (s.pc t)) : ∀ n, t < n → mu s' n < mu s n
  | 0, hlt => absurd hlt (Nat.not_lt_zero _)
  | n + 1, hlt => by
    show mu s' n + weight (s'.pc n) < mu s n + weight (s.pc n)
    by_cases e : t = n
    · have h1 := mu_le_of_le h n
      rw [e] at ht
      omega
    · have h1 := mu_lt_of_lt h ht n (by omega)
      have h2 := h n
      omega

/-- Once `val = v1`, every action of every thread (including spurious wake-ups) strictly lowers the
weight of the acting thread `t < n` and raises nobody's weight. -/
theorem trans_decreases {n : Nat} {v0 v1 : Int} (hm : MeReady role n v0 v1) (hv : s.val = v1)
    (h : Trans role s s') :
    ∃ t, t < n ∧ (∀ u, weight (s'.pc u) ≤ weight (s.pc u)) ∧
      weight (s'.pc t) < weight (s.pc t) := by
  cases h with
  | @setLock t v hr hp ho =>
    exact ⟨t, (hm.setter_val hr).2, fun u => by grind [weight], by grind [weight]⟩
  | @setWrite t v hr hp =>
    exact ⟨t, (hm.setter_val hr).2, fun u => by grind [weight], by grind [weight]⟩
  | @setBcast t v hr hp =>
    exact ⟨t, (hm.setter_val hr).2, fun u => by grind [weight], by grind [weight]⟩
  | @setUnlock t v hr hp =>
    exact ⟨t, (hm.setter_val hr).2, fun u => by grind [weight], by grind [weight]⟩
  | @waitLock t i hr hp ho =>
    exact ⟨t, (hm.waiter_inp hr).2, fun u => by grind [weight], by grind [weight]⟩
  | @waitSleep t i hr hp hval =>
    exfalso
    have h1 := (hm.waiter_inp hr).1
    have h2 := hm.ne
    omega
  | @waitExit t i hr hp hval =>
    exact ⟨t, (hm.waiter_inp hr).2, fun u => by grind [weight], by grind [weight]⟩
  | @waitReacq t i hr hp ho =>
    exact ⟨t, (hm.waiter_inp hr).2, fun u => by grind [weight], by grind [weight]⟩
  | @spur t i hr hp =>
    exact ⟨t, (hm.waiter_inp hr).2, fun u => by grind [weight], by grind [weight]⟩

/-- (b), single action: once `val = v1`, EVERY action strictly decreases `mu · n` and keeps `val = v1`. -/
theorem act_decreases {n : Nat} {v0 v1 : Int} (hm : MeReady role n v0 v1) (hv : s.val = v1)
    {a : Act} (ha : act role s a = some s') : s'.val = v1 ∧ mu s' n < mu s n := by
  have htr := act_sound ha
  obtain ⟨t, htn, hle, hlt⟩ := trans_decreases hm hv htr
  exact ⟨val_stable hm htr hv, mu_lt_of_lt hle hlt n htn⟩

/-- (b), whole executions: once `val = v1`, any schedule that can be executed has length at most
`mu s n ≤ 4 * n`. -/
theorem runActs_bounded {n : Nat} {v0 v1 : Int} (hm : MeReady role n v0 v1) :
    ∀ (acts : List Act) {s s' : State}, s.val = v1 → runActs role s acts = some s' →
      s'.val = v1 ∧ acts.length + mu s' n ≤ mu s n
  | [], s, s', hv, h => by
    have e : s = s' := Option.some.inj h
    subst e
    exact ⟨hv, by simp⟩
  | a :: as, s, s', hv, h => by
    cases ha : act role s a with
    | none =>
      simp only [runActs, ha] at h
      cases h
    | some s1 =>
      simp only [runActs, ha] at h
      obtain ⟨hv1, hdec⟩ := act_decreases hm hv ha
      obtain ⟨hv', hb⟩ := runActs_bounded hm as hv1 h
      refine ⟨hv', ?_⟩
      simp only [List.length_cons]
      omega

theorem reachable_runActs {v0 : Int} : ∀ (acts : List Act) {s s' : State},
    Reachable role v0 s → runActs role s acts = some s' → Reachable role v0 s'
  | [], s, s', hr, h => by
    have e : s = s' := Option.some.inj h
    exact e ▸ hr
  | a :: as, s, s', hr, h => by
    cases ha : act role s a with
    | none =>
      simp only [runActs, ha] at h
      cases h
    | some s1 =>
      simp only [runActs, ha] at h
      exact reachable_runActs as (Reachable.step hr ha) h

/-- (c) once `val = v1`, a reachable state in which no thread has an enabled step has all `n` threads
`done`: every `svt_wait_cond_var(·, v0)` has returned. -/
theorem stuck_all_done {n : Nat} {v0 v1 : Int} (hm : MeReady role n v0 v1)
    (hr : Reachable role v0 s) (hv : s.val = v1) (hst : Stuck role s) :
    ∀ t, t < n → s.pc t = .done := by
  obtain ⟨_, hs, hw⟩ := no_deadlock hr hst
  intro t ht
  rcases (hm.roles t).1 ht with h | h
  · exact hs t v1 h
  · rcases hw t v0 h with h1 | ⟨_, h2⟩
    · exact h1
    · exfalso
      have h3 := hm.ne
      omega

/-- (d) if at least one thread calls `svt_set_cond_var`, a state without enabled step has all threads done
(so before the setter has run, the system is never stuck: the setter's `lock` is enabled when the mutex is
free, and the mutex holder always has an enabled step). -/
theorem stuck_all_done_of_setter {n : Nat} {v0 v1 : Int} (hm : MeReady role n v0 v1)
    (hr : Reachable role v0 s) (hset : ∃ t v, role t = .setter v) (hst : Stuck role s) :
    ∀ t, t < n → s.pc t = .done := by
  obtain ⟨t0, v, hr0⟩ := hset
  have hd : s.pc t0 = .done := (no_deadlock hr hst).2.1 t0 v hr0
  have hv : s.val = v1 := (valInv_of_reachable hm hr).after t0 v hr0 (Or.inr (Or.inr hd))
  exact stuck_all_done hm hr hv hst

/-- (d), progress form: with at least one setter, as long as some thread `< n` has not returned, some
thread has an enabled primitive — in every reachable state of every interleaving. -/
theorem progress {n : Nat} {v0 v1 : Int} (hm : MeReady role n v0 v1)
    (hr : Reachable role v0 s) (hset : ∃ t v, role t = .setter v)
    (hnd : ∃ t, t < n ∧ s.pc t ≠ .done) : ∃ t, step role s t ≠ none := by
  apply Classical.byContradiction
  intro hno
  have hst : Stuck role s := by
    intro t
    apply Classical.byContradiction
    intro hne
    exact hno ⟨t, hne⟩
  obtain ⟨t, htn, hp⟩ := hnd
  exact hp (stuck_all_done_of_setter hm hr hset hst t htn)

/-- **(A4) handshake_no_lost_wakeup** — the me_ready handshake (EbResourceCoordinationProcess.c:495,
EbInitialRateControlProcess.c:388, EbRateControlProcess.c:1139) for any number `n` of setter/waiter
threads, every interleaving, with spurious wake-ups, and no fairness assumption other than "some enabled
thread eventually runs":
 (a) `val ∈ {v0, v1}`, and `val = v1` as soon as (and for ever after) some setter is past its write;
 (b) from any reachable state with `val = v1` (in particular once some setter is `done`), every action of
     every thread strictly decreases `mu · n`, so every executable schedule has at most
     `mu s n ≤ 4 * n` actions;
 (c) every state reachable from there in which no thread has an enabled step has all `n` threads `done`
     — every waiter has returned, no wake-up was lost;
 (d) if there is at least one setter, no reachable state at all is stuck unless all threads are `done`. -/
theorem handshake_no_lost_wakeup {n : Nat} {v0 v1 : Int} (hm : MeReady role n v0 v1)
    (hr : Reachable role v0 s) :
    ((s.val = v0 ∨ s.val = v1) ∧
      (∀ t v, role t = .setter v → (s.pc t = .wrote ∨ s.pc t = .bcast ∨ s.pc t = .done) →
        s.val = v1)) ∧
    (s.val = v1 →
      (∀ a s', act role s a = some s' → s'.val = v1 ∧ mu s' n < mu s n) ∧
      (∀ acts s', runActs role s acts = some s' →
        s'.val = v1 ∧ acts.length + mu s' n ≤ mu s n ∧ acts.length ≤ 4 * n ∧
        (Stuck role s' → ∀ t, t < n → s'.pc t = .done))) ∧
    (s.val = v1 → Stuck role s → ∀ t, t < n → s.pc t = .done) ∧
    ((∃ t v, role t = .setter v) → Stuck role s → ∀ t, t < n → s.pc t = .done) := by
  have hvi := valInv_of_reachable hm hr
  refine ⟨⟨hvi.range, hvi.after⟩, fun hv => ⟨fun a s' ha => act_decreases hm hv ha, ?_⟩,
    fun hv hst => stuck_all_done hm hr hv hst,
    fun hset hst => stuck_all_done_of_setter hm hr hset hst⟩
  intro acts s' hrun
  obtain ⟨hv', hb⟩ := runActs_bounded hm acts hv hrun
  have hbound := mu_le_bound s n
  refine ⟨hv', hb, by omega, fun hst => ?_⟩
  exact stuck_all_done hm (reachable_runActs acts hr hrun) hv' hst

/-- Corollary in the words of the task: once some setter has returned, every waiter's wait terminates —
every schedule is finite (≤ `4 * n` actions) and can only end with all threads `done`. -/
theorem waiters_terminate_after_set {n : Nat} {v0 v1 : Int} (hm : MeReady role n v0 v1)
    (hr : Reachable role v0 s) {t0 : Nat} {v : Int} (hr0 : role t0 = .setter v)
    (hd : s.pc t0 = .done) {acts : List Act} {s' : State} (hrun : runActs role s acts = some s') :
    acts.length ≤ 4 * n ∧ (Stuck role s' → ∀ t, t < n → s'.pc t = .done) := by
  have hv : s.val = v1 := (valInv_of_reachable hm hr).after t0 v hr0 (Or.inr (Or.inr hd))
  have h := ((handshake_no_lost_wakeup hm hr).2.1 hv).2 acts s' hrun
  exact ⟨h.2.2.1, h.2.2.2⟩

/-! ## Non-vacuity (executable) -/

theorem exRole_meReady : MeReady exRole 3 0 1 := by
  refine ⟨by decide, fun t => ?_⟩
  match t with
  | 0 => exact ⟨fun _ => Or.inr rfl, fun h => by omega⟩
  | 1 => exact ⟨fun _ => Or.inl rfl, fun h => by omega⟩
  | 2 => exact ⟨fun _ => Or.inr rfl, fun h => by omega⟩
  | t + 3 => exact ⟨fun h => by omega, fun _ => rfl⟩

/-- Both waiters go to sleep (`val == 0`), the mutex is free again. -/
example : (runActs exRole (init 0) [.run 0, .run 0, .run 2, .run 2]).map (view · 3)
    = some (0, none, [.sleeping, .idle, .sleeping]) := by decide

/-- ... and in that state neither waiter has an enabled step, the setter has. -/
example : ((runActs exRole (init 0) [.run 0, .run 0, .run 2, .run 2]).bind
    (fun s => step exRole s 0)).isNone = true := by decide
example : ((runActs exRole (init 0) [.run 0, .run 0, .run 2, .run 2]).bind
    (fun s => step exRole s 1)).isSome = true := by decide

/-- The witness state of (A2): waiters asleep, `val = 1 ≠ 0`, the setter at `wrote` holding the mutex. -/
example : (runActs exRole (init 0) [.run 0, .run 0, .run 2, .run 2, .run 1, .run 1]).map (view · 3)
    = some (1, some 1, [.sleeping, .wrote, .sleeping]) := by decide

/-- The waiters sleep, the setter runs, both waiters are woken by the broadcast and finish. -/
example : (runActs exRole (init 0)
    [.run 0, .run 0, .run 2, .run 2, .run 1, .run 1, .run 1, .run 1,
     .run 0, .run 0, .run 2, .run 2]).map (view · 3)
    = some (1, none, [.done, .done, .done]) := by decide

/-- A spurious wake-up before the set: the waiter re-tests `val == 0` and sleeps again. -/
example : (runActs exRole (init 0) [.run 0, .run 0, .spur 0, .run 0, .run 0]).map (view · 3)
    = some (0, none, [.sleeping, .idle, .idle]) := by decide

/-- Setter first: the waiter never sleeps. -/
example : (runActs exRole (init 0) [.run 1, .run 1, .run 1, .run 1, .run 0, .run 0]).map (view · 3)
    = some (1, none, [.done, .done, .idle]) := by decide

/-- While the setter holds the mutex a waiter cannot lock (schedule not executable). -/
example : (runActs exRole (init 0) [.run 1, .run 0]).isNone = true := by decide

/-- A sleeping waiter that was not woken cannot proceed; a thread without role never moves. -/
example : (runActs exRole (init 0) [.run 0, .run 0, .run 0]).isNone = true := by decide
example : (runActs exRole (init 0) [.run 7]).isNone = true := by decide

end CondVar
