/-
  Theorems about the circular reorder queue model (`Model/Reorder.lean`), for streams of ANY length.
-/
import SvtVerif.Model.Reorder
import Mathlib.Tactic.Linarith

namespace Reorder

/-! ### modular arithmetic -/

/-- Two numbers in a common window of width `D` with the same residue are equal. -/
theorem eq_of_mod_eq_of_window {D h x y : Nat} (hx0 : h ≤ x) (hx1 : x < h + D)
    (hy0 : h ≤ y) (hy1 : y < h + D) (hm : x % D = y % D) : x = y := by
  rcases Nat.le_total x y with hxy | hxy
  · have h0 : (y - x) % D = 0 := Nat.sub_mod_eq_zero_of_mod_eq hm.symm
    have h1 : (y - x) % D = y - x := Nat.mod_eq_of_lt (by omega)
    omega
  · have h0 : (x - y) % D = 0 := Nat.sub_mod_eq_zero_of_mod_eq hm
    have h1 : (x - y) % D = x - y := Nat.mod_eq_of_lt (by omega)
    omega

theorem succ_mod_mod (D h : Nat) : (h % D + 1) % D = (h + 1) % D := by
  rw [Nat.add_mod h 1 D, Nat.add_mod (h % D) 1 D, Nat.mod_mod]

/-- The picture-decision style index `(pn − head.pn) + head_index` with a single wrap equals `pn % D`
    as long as the head entry sits at `head.pn % D` and `pn` is inside the window `[head.pn, head.pn + D)`.
    So both indexing styles address the same slot, for picture numbers of any size. -/
theorem windowIndex_eq (D pn headPn : Nat) (hD : 0 < D) (h1 : headPn ≤ pn) (h2 : pn < headPn + D) :
    windowIndex D (headPn % D) (pn - headPn) = pn % D := by
  have hr : headPn % D < D := Nat.mod_lt _ hD
  have hdiv := Nat.div_add_mod headPn D
  unfold windowIndex
  split
  · -- wrapped once
    have e : pn = (headPn % D + (pn - headPn) - D) + D * (headPn / D + 1) := by
      rw [Nat.mul_add, Nat.mul_one]; omega
    have hlt : headPn % D + (pn - headPn) - D < D := by omega
    conv => rhs; rw [e]
    rw [Nat.add_mul_mod_self_left, Nat.mod_eq_of_lt hlt]
  · have e : pn = (headPn % D + (pn - headPn)) + D * (headPn / D) := by omega
    have hlt : headPn % D + (pn - headPn) < D := by omega
    conv => rhs; rw [e]
    rw [Nat.add_mul_mod_self_left, Nat.mod_eq_of_lt hlt]

/-- Head advance `head == D−1 ? 0 : head+1` is `(head + 1) % D`, i.e. the head entry stays at `head.pn % D`. -/
theorem nextHead_eq (D h : Nat) (hD : 0 < D) : nextHead D (h % D) = (h + 1) % D := by
  have hr : h % D < D := Nat.mod_lt _ hD
  rw [← succ_mod_mod]
  unfold nextHead
  split
  · next he => rw [he, Nat.sub_add_cancel hD, Nat.mod_self]
  · next hne => exact (Nat.mod_eq_of_lt (by omega)).symm

/-! ### slot access -/

theorem slotAt_set {l : List (Option Nat)} {i j : Nat} {v : Option Nat} (hi : i < l.length) :
    slotAt (l.set i v) j = if i = j then v else slotAt l j := by
  unfold slotAt
  rw [List.getElem?_set]
  by_cases hij : i = j
  · subst hij; simp [hi]
  · simp [hij]

theorem slotAt_replicate (D i : Nat) : slotAt (List.replicate D none) i = none := by
  unfold slotAt
  rw [List.getElem?_replicate]
  split <;> simp_all

/-! ### the invariant -/

/-- `Inv D seen h q`: `seen` = pictures that have arrived; `h` = ghost "head picture number".
    Everything below `h` has arrived and has been emitted in order; everything that has arrived is below
    `h + D`; slot `i` holds `p` iff `p` has arrived, is not yet emitted, and `p % D = i`. -/
structure Inv (D : Nat) (seen : List Nat) (h : Nat) (q : Q) : Prop where
  len    : q.slots.length = D
  head   : q.headIdx = h % D
  out    : q.outRev = (List.range h).reverse
  clob   : q.clobbered = false
  below  : ∀ k, k < h → k ∈ seen
  window : ∀ a, a ∈ seen → a < h + D
  slot   : ∀ i p, i < D → (slotAt q.slots i = some p ↔ (p ∈ seen ∧ h ≤ p ∧ p % D = i))

theorem inv_init (D : Nat) : Inv D [] 0 (init D) where
  len := by simp [init]
  head := by simp [init]
  out := by simp [init]
  clob := rfl
  below := by intro k hk; omega
  window := by intro a ha; simp at ha
  slot := by
    intro i p _
    simp [init, slotAt_replicate]

theorem inv_insert {D : Nat} {seen : List Nat} {h : Nat} {q : Q} (hD : 0 < D) (inv : Inv D seen h q)
    {a : Nat} (hnew : a ∉ seen) (hwin : a < h + D) : Inv D (a :: seen) h (insert D q a) := by
  have hge : h ≤ a := by
    by_contra hlt
    exact hnew (inv.below a (by omega))
  have hai : a % D < D := Nat.mod_lt _ hD
  have hempty : slotAt q.slots (a % D) = none := by
    cases hs : slotAt q.slots (a % D) with
    | none => rfl
    | some p =>
      obtain ⟨hp, hp0, hpm⟩ := (inv.slot (a % D) p hai).1 hs
      have := eq_of_mod_eq_of_window hp0 (inv.window p hp) hge hwin hpm
      subst this; exact absurd hp hnew
  refine ⟨?_, inv.head, inv.out, ?_, ?_, ?_, ?_⟩
  · simp [insert, inv.len]
  · simp [insert, inv.clob, hempty]
  · intro k hk; exact List.mem_cons_of_mem _ (inv.below k hk)
  · intro b hb
    rcases List.mem_cons.1 hb with rfl | hb
    · exact hwin
    · exact inv.window b hb
  · intro i p hi
    show slotAt (q.slots.set (a % D) (some a)) i = some p ↔ _
    rw [slotAt_set (by rw [inv.len]; exact hai)]
    by_cases hij : a % D = i
    · simp only [hij, if_true, Option.some.injEq, List.mem_cons]
      constructor
      · rintro rfl; exact ⟨Or.inl rfl, hge, hij⟩
      · rintro ⟨hp | hp, hp0, hpm⟩
        · exact hp.symm
        · exact eq_of_mod_eq_of_window hge hwin hp0 (inv.window p hp) (hij.trans hpm.symm)
    · simp only [hij, if_false, List.mem_cons]
      rw [inv.slot i p hi]
      constructor
      · rintro ⟨hp, hp0, hpm⟩; exact ⟨Or.inr hp, hp0, hpm⟩
      · rintro ⟨hp | hp, hp0, hpm⟩
        · subst hp; exact absurd hpm hij
        · exact ⟨hp, hp0, hpm⟩

/-- One iteration of the drain loop when the head slot is occupied: it holds exactly picture `h`. -/
theorem inv_pop {D : Nat} {seen : List Nat} {h : Nat} {q : Q} (hD : 0 < D) (inv : Inv D seen h q)
    {p : Nat} (hs : slotAt q.slots q.headIdx = some p) :
    p = h ∧ Inv D seen (h + 1)
      { q with slots := q.slots.set q.headIdx none, headIdx := (q.headIdx + 1) % D, outRev := p :: q.outRev } := by
  have hhi : h % D < D := Nat.mod_lt _ hD
  rw [inv.head] at hs
  obtain ⟨hp, hp0, hpm⟩ := (inv.slot (h % D) p hhi).1 hs
  have hph : p = h := eq_of_mod_eq_of_window hp0 (inv.window p hp) (Nat.le_refl h) (by omega) hpm
  subst hph
  refine ⟨rfl, ⟨?_, ?_, ?_, inv.clob, ?_, ?_, ?_⟩⟩
  · simp [inv.len]
  · show (q.headIdx + 1) % D = (p + 1) % D
    rw [inv.head, succ_mod_mod]
  · show p :: q.outRev = _
    rw [inv.out, List.range_succ, List.reverse_append]; rfl
  · intro k hk
    rcases Nat.lt_succ_iff_lt_or_eq.1 hk with hk | rfl
    · exact inv.below k hk
    · exact hp
  · intro a ha; have := inv.window a ha; omega
  · intro i p' hi
    show slotAt (q.slots.set q.headIdx none) i = some p' ↔ _
    rw [inv.head, slotAt_set (by rw [inv.len]; exact hhi)]
    by_cases hij : p % D = i
    · simp only [hij, if_true]
      constructor
      · intro hc; cases hc
      · rintro ⟨hp', hp0', hpm'⟩
        have := eq_of_mod_eq_of_window (h := p) (Nat.le_refl p) (by omega) (by omega)
          (inv.window p' hp') (hij.trans hpm'.symm)
        omega
    · simp only [hij, if_false]
      rw [inv.slot i p' hi]
      constructor
      · rintro ⟨hp', hp0', hpm'⟩
        refine ⟨hp', ?_, hpm'⟩
        rcases Nat.lt_or_ge p p' with hlt | hge
        · exact hlt
        · have : p' = p := by omega
          subst this; exact absurd hpm' hij
      · rintro ⟨hp', hp0', hpm'⟩; exact ⟨hp', by omega, hpm'⟩

/-- The drain loop with `fuel` iterations either stops at an empty head slot (`h' ∉ seen`) or has used all
    its fuel (`h' = h + fuel`). -/
theorem inv_drain {D : Nat} {seen : List Nat} (hD : 0 < D) :
    ∀ (fuel : Nat) {h : Nat} {q : Q}, Inv D seen h q →
      ∃ h', h ≤ h' ∧ Inv D seen h' (drain D fuel q) ∧ (h' ∉ seen ∨ h' = h + fuel) := by
  intro fuel
  induction fuel with
  | zero => intro h q inv; exact ⟨h, Nat.le_refl _, inv, Or.inr rfl⟩
  | succ f ih =>
    intro h q inv
    unfold drain
    cases hs : slotAt q.slots q.headIdx with
    | none =>
      refine ⟨h, Nat.le_refl _, inv, Or.inl ?_⟩
      intro hmem
      have := (inv.slot (h % D) h (Nat.mod_lt _ hD)).2 ⟨hmem, Nat.le_refl _, rfl⟩
      rw [inv.head] at hs; rw [hs] at this; cases this
    | some p =>
      obtain ⟨_, inv'⟩ := inv_pop hD inv hs
      obtain ⟨h', hle, inv'', hor⟩ := ih inv'
      refine ⟨h', by omega, inv'', ?_⟩
      rcases hor with hn | he
      · exact Or.inl hn
      · exact Or.inr (by omega)

/-- One arrival (insert + drain with fuel `D`) re-establishes the invariant with the head at the least
    picture number that has not yet arrived. -/
theorem inv_step {D : Nat} {seen : List Nat} {h : Nat} {q : Q} (hD : 0 < D) (inv : Inv D seen h q)
    {a : Nat} (hnew : a ∉ seen) (hwin : a < h + D) :
    ∃ h', h ≤ h' ∧ Inv D (a :: seen) h' (step D q a) ∧ h' ∉ (a :: seen) := by
  have inv1 := inv_insert hD inv hnew hwin
  obtain ⟨h', hle, inv2, hor⟩ := inv_drain hD D inv1
  refine ⟨h', hle, inv2, ?_⟩
  rcases hor with hn | he
  · exact hn
  · intro hmem
    have := inv1.window h' hmem
    omega

/-! ### the window predicate -/

theorem windowedFrom_cons {D : Nat} {seen : List Nat} {a : Nat} {rest : List Nat} :
    windowedFrom D seen (a :: rest) = true ↔
      (∀ k, k + D ≤ a → k ∈ seen) ∧ windowedFrom D (a :: seen) rest = true := by
  simp only [windowedFrom, Bool.and_eq_true, List.all_eq_true, List.mem_range, decide_eq_true_eq]
  constructor
  · rintro ⟨h1, h2⟩; exact ⟨fun k hk => h1 k (by omega), h2⟩
  · rintro ⟨h1, h2⟩; exact ⟨fun k hk => h1 k (by omega), h2⟩

/-- The bounded-quantifier form used in `windowedFrom` says exactly "`a` is less than the least
    not-yet-arrived picture number plus `D`". -/
theorem windowed_head_iff {D : Nat} {seen : List Nat} {h a : Nat}
    (hbelow : ∀ k, k < h → k ∈ seen) (hhead : h ∉ seen) :
    (∀ k, k + D ≤ a → k ∈ seen) ↔ a < h + D := by
  constructor
  · intro hall
    by_contra hge
    exact hhead (hall h (by omega))
  · intro hlt k hk
    exact hbelow k (by omega)

/-! ### main theorem -/

theorem run_loop {D : Nat} (hD : 0 < D) :
    ∀ (rest seen : List Nat) (h : Nat) (q : Q), Inv D seen h q → h ∉ seen →
      rest.Nodup → (∀ a, a ∈ rest → a ∉ seen) → windowedFrom D seen rest = true →
      ∃ h', Inv D (rest.reverse ++ seen) h' (rest.foldl (step D) q) ∧ h' ∉ (rest.reverse ++ seen) := by
  intro rest
  induction rest with
  | nil => intro seen h q inv hh _ _ _; exact ⟨h, by simpa using inv, by simpa using hh⟩
  | cons a rest ih =>
    intro seen h q inv hh hnd hdisj hw
    obtain ⟨hwa, hwr⟩ := windowedFrom_cons.1 hw
    have hnew : a ∉ seen := hdisj a List.mem_cons_self
    have hwin : a < h + D := (windowed_head_iff inv.below hh).1 hwa
    obtain ⟨h1, _, inv1, hh1⟩ := inv_step hD inv hnew hwin
    have hnd' := List.nodup_cons.1 hnd
    obtain ⟨h', inv', hh'⟩ := ih (a :: seen) h1 (step D q a) inv1 hh1 hnd'.2
      (by
        intro b hb hmem
        rcases List.mem_cons.1 hmem with rfl | hmem
        · exact hnd'.1 hb
        · exact hdisj b (List.mem_cons_of_mem _ hb) hmem)
      hwr
    refine ⟨h', ?_, ?_⟩
    · simpa [List.foldl_cons, List.reverse_cons, List.append_assoc] using inv'
    · simpa [List.reverse_cons, List.append_assoc] using hh'

/-- **Circular reorder queue, any stream length.**  If the arrivals are a permutation of `0..n−1` and no
    arrival is `D` or more ahead of the least picture number not yet arrived, then the queue indexed by
    `pn % D` emits `0, 1, …, n−1` in order and never writes into a slot that is still occupied.
    `n` is arbitrary (in particular `n ≫ D`: the queue wraps around any number of times). -/
theorem run_inorder (D : Nat) (hD : 0 < D) (arrivals : List Nat) (n : Nat)
    (hperm : arrivals.Perm (List.range n)) (hwin : Windowed D arrivals) :
    (run D arrivals).out = List.range n ∧ (run D arrivals).clobbered = false := by
  have hnd : arrivals.Nodup := (List.Perm.nodup_iff hperm).2 List.nodup_range
  obtain ⟨h', inv, hh⟩ := run_loop hD arrivals [] 0 (init D) (inv_init D) (by simp) hnd (by simp) hwin
  simp only [List.append_nil] at inv hh
  have hmem : ∀ k, k ∈ arrivals.reverse ↔ k < n := by
    intro k; rw [List.mem_reverse, hperm.mem_iff, List.mem_range]
  have hn : h' = n := by
    have h1 : ¬ h' < n := fun hlt => hh ((hmem h').2 hlt)
    have h2 : ¬ n < h' := fun hlt => by
      have := (hmem n).1 (inv.below n hlt); omega
    omega
  subst hn
  constructor
  · show (runQ D arrivals).outRev.reverse = _
    unfold runQ; rw [inv.out, List.reverse_reverse]
  · exact inv.clob

/-! ### non-vacuity and the excluded point -/

/-- Non-vacuity: depth 4, 10 pictures (the queue wraps twice), out-of-order arrivals inside the window. -/
example : Windowed 4 [1, 0, 3, 2, 5, 4, 7, 6, 9, 8] ∧
    (run 4 [1, 0, 3, 2, 5, 4, 7, 6, 9, 8]) = { out := List.range 10, clobbered := false } := by decide

/-- The window hypothesis is needed (1): with depth 4, picture 5 arriving while pictures 0 and 1 are still
    pending is written into slot 1; when picture 1 then arrives it overwrites picture 5 (`clobbered`, the C
    code has no occupancy test at the insert), and picture 5 is lost for good: the output stops at
    `[0,1,2,3,4]` although all 6 pictures arrived. -/
theorem clobber_when_window_violated :
    ¬ Windowed 4 [5, 1, 0, 2, 3, 4] ∧
    run 4 [5, 1, 0, 2, 3, 4] = { out := [0, 1, 2, 3, 4], clobbered := true } := by decide

/-- The window hypothesis is needed (2): picture 4 arriving while picture 0 is pending lands in the head
    slot and is emitted at once (the drain tests only "head slot occupied", as `count_frames_in_next_tu`
    tests only `output_stream_wrapper_ptr != NULL`): order is broken without any clobbering. -/
theorem misorder_when_window_violated :
    ¬ Windowed 4 [4, 0, 1, 2, 3] ∧
    run 4 [4, 0, 1, 2, 3] = { out := [4, 1, 2, 3, 0], clobbered := false } := by decide

end Reorder
