/-
  C27 — `svt_get_full_object_non_blocking` (EbSystemResourceManager.c:679-704) on top of the C23 model
  `Model/Srm.lean` and its invariant (`Lemmas/Srm.lean`).  The call is the op sequence
      nbReg f  (684: svt_release_process)        → pc nbPeek
      peek f   (687-696: peek under the lockout mutex) → `.null` (701: *wrapper = NULL, pc idle)   or `.nonEmpty` (pc nbCall)
      then, only after `.nonEmpty` (699: svt_get_full_object): reg .full f ; semWait .full f ; pop .full f
  interleaved arbitrarily with the steps of all other threads.
-/
import SvtVerif.Lemmas.Srm

namespace Srm
set_option linter.unusedVariables false
set_option linter.unusedSimpArgs false

/-! ## what the assignation loop leaves alone -/

theorem assign_pc (sd : Side) (s : State) : (assign sd s).pc = s.pc := by
  apply assign_preserves (fun t => t.pc = s.pc) sd _ s rfl
  intro a b hab he
  obtain ⟨o, os, p, ps, _, _, rfl⟩ := assignStep_some he
  exact hab

theorem assign_quit (sd : Side) (s : State) : (assign sd s).quit = s.quit := by
  apply assign_preserves (fun t => t.quit = s.quit) sd _ s rfl
  intro a b hab he
  obtain ⟨o, os, p, ps, _, _, rfl⟩ := assignStep_some he
  exact hab

theorem assign_nProc (sd : Side) (s : State) : (assign sd s).nProc = s.nProc := by
  apply assign_preserves (fun t => t.nProc = s.nProc) sd _ s rfl
  intro a b hab he
  obtain ⟨o, os, p, ps, _, _, rfl⟩ := assignStep_some he
  exact hab

theorem assign_posted (sd : Side) (s : State) : (assign sd s).posted = s.posted := by
  apply assign_preserves (fun t => t.posted = s.posted) sd _ s rfl
  intro a b hab he
  obtain ⟨o, os, p, ps, _, _, rfl⟩ := assignStep_some he
  exact hab

theorem assign_taken (sd : Side) (s : State) : (assign sd s).taken = s.taken := by
  apply assign_preserves (fun t => t.taken = s.taken) sd _ s rfl
  intro a b hab he
  obtain ⟨o, os, p, ps, _, _, rfl⟩ := assignStep_some he
  exact hab

/-- one loop iteration only ever appends to a fifo -/
theorem assignStep_items_ne {sd d : Side} {f : Nat} {a b : State} (he : assignStep sd a = some b)
    (h : a.items d f ≠ []) : b.items d f ≠ [] := by
  obtain ⟨o, os, p, ps, _, _, rfl⟩ := assignStep_some he
  show upd2 a.items sd p (a.items sd p ++ [o]) d f ≠ []
  unfold upd2
  split
  · simp
  · exact h

theorem assignN_items_ne (sd d : Side) (f : Nat) (n : Nat) (s : State) (h : s.items d f ≠ []) :
    (assignN sd n s).items d f ≠ [] :=
  assignN_preserves (fun t => t.items d f ≠ []) sd (fun a b hab he => assignStep_items_ne he hab) n s h

theorem assign_items_ne (sd d : Side) (f : Nat) (s : State) (h : s.items d f ≠ []) :
    (assign sd s).items d f ≠ [] :=
  assignN_items_ne sd d f _ s h

theorem assign_procQ_len (sd d : Side) (s : State) : ((assign sd s).procQ d).length ≤ (s.procQ d).length := by
  apply assign_preserves (fun t => (t.procQ d).length ≤ (s.procQ d).length) sd _ s (Nat.le_refl _)
  intro a b hab he
  obtain ⟨o, os, p, ps, _, hp, rfl⟩ := assignStep_some he
  show (upd1 a.procQ sd ps d).length ≤ _
  unfold upd1
  split
  · rename_i hd
    subst hd
    rw [hp] at hab
    simp only [List.length_cons] at hab
    omega
  · exact hab

/-! ## the process ring never holds more registrations than it has slots -/

/-- `idempotent_registration` (invariant form): in every reachable state — whatever mixture of blocking gets and
    non-blocking polls, however many polls in a row found the fifo empty — each process ring holds at most
    `process_total_count` entries. -/
theorem procQ_le_nProc {s : State} (h : Reachable s) : ∀ sd, (s.procQ sd).length ≤ s.nProc sd := by
  induction h with
  | init n p c => intro sd; simp [init]
  | step hr hw hs ih =>
    rename_i s s' op r
    have ht := step_Tr hs
    have hreg : ∀ (sd d : Side) (f : Nat) (pq : List Nat) (t : State),
        pushProc (s.procQ sd) (s.nProc sd) f = some pq → t.procQ = upd1 s.procQ sd pq → t.nProc = s.nProc →
        ((assign sd t).procQ d).length ≤ (assign sd t).nProc d := by
      intro sd d f pq t hp htp htn
      rw [assign_nProc, htn]
      refine Nat.le_trans (assign_procQ_len sd d t) ?_
      rw [htp]
      unfold upd1
      split
      · rename_i hd
        subst hd
        unfold pushProc at hp
        split at hp
        · injection hp with hp; subst hp; simp only [List.length_cons]; omega
        · split at hp
          · rename_i h1; injection hp with hp; subst hp; simp only [List.length_cons, List.length_nil]; omega
          · cases hp
      · exact ih d
    have hkeep : ∀ (sd d : Side) (t : State), t.procQ = s.procQ → t.nProc = s.nProc →
        ((assign sd t).procQ d).length ≤ (assign sd t).nProc d := by
      intro sd d t htp htn
      rw [assign_nProc, htn]
      refine Nat.le_trans (assign_procQ_len sd d t) ?_
      rw [htp]; exact ih d
    intro d
    cases ht
    case reg sd f pq hf hpc hp => exact hreg sd d f pq _ hp rfl rfl
    case nbReg f pq hf hpc hp => exact hreg .full d f pq _ hp rfl rfl
    case post o h1 h2 h3 => exact hkeep .full d _ rfl rfl
    case relPush o h1 h2 h3 h4 => exact hkeep .empty d _ rfl rfl
    all_goals exact ih d

/-! ## a poll performs no semaphore wait unless the fifo is non-empty -/

/-- the registration step of a poll (line 684) never blocks: it contains no semaphore wait -/
theorem nbReg_not_blocked (s : State) (f : Nat) : step s (.nbReg f) ≠ .blocked := by
  simp only [step, register]
  repeat' split
  all_goals simp

/-- the peek step of a poll (lines 687-701) never blocks -/
theorem peek_not_blocked (s : State) (f : Nat) : step s (.peek f) ≠ .blocked := by
  simp only [step]
  repeat' split
  all_goals simp

/-- a step blocks only at a semaphore with count zero -/
theorem semWait_blocked_iff (s : State) (sd : Side) (f : Nat) :
    step s (.semWait sd f) = .blocked ↔ (s.pc sd f = .waiting ∧ s.sem sd f = 0) := by
  by_cases hp : s.pc sd f = .waiting
  · by_cases h0 : s.sem sd f = 0
    · simp [step, hp, h0]
    · simp [step, hp, h0]
  · simp [step, hp]

/-- steps of OTHER threads never empty fifo `f` of side `d`: only `pop d f` removes an item -/
theorem Tr_items_ne {s s' : State} {op : Op} {r : Ret} (ht : Tr s op s' r) (d : Side) (f : Nat)
    (hop : op ≠ .pop d f) (h : s.items d f ≠ []) : s'.items d f ≠ [] := by
  cases ht
  case reg sd g pq hf hpc hp => exact assign_items_ne _ _ _ _ h
  case nbReg g pq hf hpc hp => exact assign_items_ne _ _ _ _ h
  case post o h1 h2 h3 => exact assign_items_ne _ _ _ _ h
  case relPush o h1 h2 h3 h4 => exact assign_items_ne _ _ _ _ h
  case popEmpty g o rest hpc hi =>
    show upd2 s.items .empty g rest d f ≠ []
    unfold upd2
    split
    · rename_i hc; exfalso; apply hop; rw [hc.1, hc.2]
    · exact h
  case popFull g o rest hpc hq hi =>
    show upd2 s.items .full g rest d f ≠ []
    unfold upd2
    split
    · rename_i hc; exfalso; apply hop; rw [hc.1, hc.2]
    · exact h
  all_goals exact h

/-- steps of other threads do not move the program counter of fifo `f`'s thread -/
theorem Tr_pc_other {s s' : State} {op : Op} {r : Ret} (ht : Tr s op s' r) (d : Side) (f : Nat)
    (h1 : op ≠ .reg d f) (h2 : op ≠ .nbReg f ∨ d ≠ .full) (h3 : op ≠ .peek f ∨ d ≠ .full)
    (h4 : op ≠ .semWait d f) (h5 : op ≠ .pop d f) : s'.pc d f = s.pc d f := by
  cases ht
  case reg sd g pq hf hpc hp =>
    rw [assign_pc]; show upd2 s.pc sd g .waiting d f = _
    unfold upd2; split
    · rename_i hc; exfalso; apply h1; rw [hc.1, hc.2]
    · rfl
  case nbReg g pq hf hpc hp =>
    rw [assign_pc]; show upd2 s.pc .full g .nbPeek d f = _
    unfold upd2; split
    · rename_i hc; exfalso; rcases h2 with h2 | h2
      · apply h2; rw [hc.2]
      · exact h2 hc.1
    · rfl
  case peekSome g hpc hq hi =>
    show upd2 s.pc .full g .nbCall d f = _
    unfold upd2; split
    · rename_i hc; exfalso; rcases h3 with h3 | h3
      · apply h3; rw [hc.2]
      · exact h3 hc.1
    · rfl
  case peekNone g hpc hn =>
    show upd2 s.pc .full g .idle d f = _
    unfold upd2; split
    · rename_i hc; exfalso; rcases h3 with h3 | h3
      · apply h3; rw [hc.2]
      · exact h3 hc.1
    · rfl
  case semWait sd g hpc hs =>
    show upd2 s.pc sd g .popping d f = _
    unfold upd2; split
    · rename_i hc; exfalso; apply h4; rw [hc.1, hc.2]
    · rfl
  case popShut g hpc hq =>
    show upd2 s.pc .full g .idle d f = _
    unfold upd2; split
    · rename_i hc; exfalso; apply h5; rw [hc.1, hc.2]
    · rfl
  case popEmpty g o rest hpc hi =>
    show upd2 s.pc .empty g .idle d f = _
    unfold upd2; split
    · rename_i hc; exfalso; apply h5; rw [hc.1, hc.2]
    · rfl
  case popFull g o rest hpc hq hi =>
    show upd2 s.pc .full g .idle d f = _
    unfold upd2; split
    · rename_i hc; exfalso; apply h5; rw [hc.1, hc.2]
    · rfl
  case post o h1 h2 h3 => rw [assign_pc]
  case relPush o h1 h2 h3 h4 => rw [assign_pc]
  all_goals rfl

/-- The blocking get issued by a poll that saw a non-empty fifo (line 699) finds a semaphore token: after its
    `svt_release_process` step the semaphore wait is enabled. -/
theorem nb_call_token {s s1 : State} {f : Nat} {r1 : Ret} (h : Reachable s) (hp : s.pc .full f = .nbCall)
    (hi : s.items .full f ≠ []) (hq : s.quit .full f = false) (h1 : step s (.reg .full f) = .ok s1 r1) :
    s1.pc .full f = .waiting ∧ s1.items .full f ≠ [] ∧ ∃ s2, step s1 (.semWait .full f) = .ok s2 .ok := by
  have hr1 : Reachable s1 := Reachable.step h (by simp [WellUsed]) h1
  have ht := step_Tr h1
  have hv := reachable_Inv hr1
  have hpc : s1.pc .full f = .waiting := by
    cases ht
    rw [assign_pc]; simp [upd2]
  have hit : s1.items .full f ≠ [] := Tr_items_ne ht .full f (by simp) hi
  have hqt : s1.quit .full f = false := by
    cases ht
    rw [assign_quit]; exact hq
  refine ⟨hpc, hit, ?_⟩
  have hb := hv.sem.bal .full f
  have hn := hv.sem.noquit .full f hqt
  have hlen : 0 < (s1.items .full f).length := List.length_pos_iff.2 hit
  have hs : s1.sem .full f ≠ 0 := by
    simp only [hpc] at hb
    simp at hb
    omega
  simp [step, hpc, hs]

/-! ## what a poll returns -/

/-- `svt_release_process` puts the caller at the FRONT of the process ring (push_front, line 519; on a full
    one-slot ring the re-registration lands on the only slot), so the assignation loop serves it first: after the
    registration step of a poll the caller's fifo is non-empty iff it already was, or a posted object was waiting
    in the full ring. -/
theorem register_items {s : State} {f : Nat} {pq rest : List Nat} (hpq : pq = f :: rest) (pc' : Pc) (nb : Bool) :
    (assign .full { s with nbUsed := nb, procQ := upd1 s.procQ .full pq, pc := upd2 s.pc .full f pc' }).items .full f ≠ [] ↔
      (s.items .full f ≠ [] ∨ s.objQ .full ≠ []) := by
  subst hpq
  cases ho : s.objQ .full with
  | nil =>
    have : assign .full { s with nbUsed := nb, procQ := upd1 s.procQ .full (f :: rest), pc := upd2 s.pc .full f pc' } =
        { s with nbUsed := nb, procQ := upd1 s.procQ .full (f :: rest), pc := upd2 s.pc .full f pc' } := by
      simp [assign, ho, assignN]
    rw [this]
    simp
  | cons o os =>
    constructor
    · intro _; right; simp
    · intro _
      unfold assign
      simp only [ho, List.length_cons]
      unfold assignN
      have he : assignStep .full { s with nbUsed := nb, procQ := upd1 s.procQ .full (f :: rest), pc := upd2 s.pc .full f pc' } =
          some { s with nbUsed := nb, pc := upd2 s.pc .full f pc',
                        objQ := upd1 s.objQ .full os, procQ := upd1 (upd1 s.procQ .full (f :: rest)) .full rest,
                        items := upd2 s.items .full f (s.items .full f ++ [o]),
                        sem := upd2 s.sem .full f (s.sem .full f + 1),
                        assigned := upd1 s.assigned .full (s.assigned .full ++ [(f, o)]),
                        loc := upd s.loc o (.fifo .full f) } := by
        simp [assignStep, ho, upd1]
      rw [he]
      apply assignN_items_ne
      simp [upd2]

end Srm
