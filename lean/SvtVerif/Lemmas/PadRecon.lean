/-
  Helper lemmas for Props/C11: closed form of the padding step, product facts for the recon sizes, tile append sums.
-/
import SvtVerif.Model.Padding
import SvtVerif.Model.ReconSize
import SvtVerif.Model.BitBuf
import Mathlib.Tactic.Linarith
import Mathlib.Tactic.Ring

namespace Lemmas.PadRecon
open CSem Padding ReconSize BitBuf

theorem wrapU16_id (x : Int) (h0 : 0 ≤ x) (h1 : x < 65536) : wrapU 16 x = x := by
  show x % (2 ^ 16 : Int) = x
  omega

theorem wrapU32_id (x : Int) (h0 : 0 ≤ x) (h1 : x < 4294967296) : wrapU 32 x = x := by
  show x % (2 ^ 32 : Int) = x
  omega

/-- closed form of one padded dimension for every 16-bit value that does not wrap -/
theorem padDim_closed (x : Int) (h0 : 0 ≤ x) (h1 : x ≤ 65528) :
    padDim x = ((8 - x % 8) % 8, x + (8 - x % 8) % 8) := by
  unfold padDim MIN_BLOCK_SIZE
  by_cases hx : x % 8 = 0
  · simp [hx]
  · have e1 : wrapU 16 (8 - x % 8) = 8 - x % 8 := wrapU16_id _ (by omega) (by omega)
    have e2 : wrapU 16 (x + (8 - x % 8)) = x + (8 - x % 8) := wrapU16_id _ (by omega) (by omega)
    have e3 : (8 - x % 8) % 8 = 8 - x % 8 := by omega
    simp only [ne_eq, hx, not_false_eq_true, ↓reduceIte, e1, e2, e3]

/-- product facts used by the recon theorem: the visible area is at most the padded area, which is at most 4096*2160,
    and the visible area of an even x even picture is a multiple of 4 -/
theorem area_facts (w h W H : Int) (hw0 : 64 ≤ w) (hwW : w ≤ W) (hW : W ≤ 4096) (hh0 : 64 ≤ h) (hhH : h ≤ H) (hH : H ≤ 2160)
    (hw2 : w % 2 = 0) (hh2 : h % 2 = 0) :
    4096 ≤ w * h ∧ w * h ≤ W * H ∧ W * H ≤ 8847360 ∧ (w * h) % 4 = 0 := by
  refine ⟨by nlinarith, by nlinarith, by nlinarith, ?_⟩
  obtain ⟨a, rfl⟩ : ∃ a, w = 2 * a := ⟨w / 2, by omega⟩
  obtain ⟨b, rfl⟩ : ∃ b, h = 2 * b := ⟨h / 2, by omega⟩
  have : 2 * a * (2 * b) = 4 * (a * b) := by ring
  rw [this]; exact Int.mul_emod_right 4 (a * b)

/-- the copy kernel's extent for a full-width copy is exactly rows x row bytes -/
theorem copyExtent_full (w h bps : Int) (hw : 0 < w) (hh : 0 < h) : copyExtent w w h bps = w * h * bps := by
  unfold copyExtent
  have : ¬ (w ≤ 0 ∨ h ≤ 0) := by omega
  simp only [this, ↓reduceIte]; ring

/-- a narrower area (super-resolution: `width ≤ max_width`) only lowers the extent -/
theorem copyExtent_le (stride aw ah bps : Int) (hs : aw ≤ stride) (hb : 0 ≤ bps) (hah : 0 ≤ ah) (hst : 0 ≤ stride) :
    copyExtent stride aw ah bps ≤ stride * ah * bps := by
  unfold copyExtent
  by_cases hc : aw ≤ 0 ∨ ah ≤ 0
  · simp only [hc, ↓reduceIte]; positivity
  · simp only [hc, ↓reduceIte]
    have h1 : aw * bps ≤ stride * bps := Int.mul_le_mul_of_nonneg_right hs hb
    nlinarith

theorem sum_nonneg' : ∀ (l : List Int), (∀ x ∈ l, 0 ≤ x) → 0 ≤ l.sum
  | [], _ => by simp
  | x :: xs, h => by
    have h1 := h x (by simp)
    have h2 := sum_nonneg' xs (fun y hy => h y (List.mem_cons_of_mem _ hy))
    simp only [List.sum_cons]; omega

/-- `appendTiles`: the final size is header + tiles + one size field for every tile but the last -/
theorem appendTiles_total (picBuf tsz : Int) : ∀ (tiles : List Int) (cur : Int), tiles ≠ [] →
    (appendTiles picBuf tsz cur tiles).1 = cur + tiles.sum + tsz * ((tiles.length : Int) - 1)
  | [], _, h => absurd rfl h
  | [t], cur, _ => by simp [appendTiles]
  | t :: u :: ts, cur, _ => by
    have ih := appendTiles_total picBuf tsz (u :: ts) (cur + tsz + t) (by simp)
    simp only [appendTiles, ih, List.sum_cons, List.length_cons]
    push_cast; ring

/-- if the tiles (all of non-negative size) do not fit, some copy of `write_frame_header_av1` leaves the buffer -/
theorem appendTiles_overflow (picBuf tsz : Int) (ht : 0 ≤ tsz) : ∀ (tiles : List Int) (cur : Int), tiles ≠ [] →
    (∀ t ∈ tiles, 0 ≤ t) → picBuf < cur + tiles.sum + tsz * ((tiles.length : Int) - 1) →
    (appendTiles picBuf tsz cur tiles).2 = false
  | [], _, h, _, _ => absurd rfl h
  | [t], cur, _, _, hov => by
    simp only [List.sum_cons, List.sum_nil, List.length_cons, List.length_nil] at hov
    simp only [appendTiles, copyInBounds, decide_eq_false_iff_not, not_and, not_le]
    intro _ _; omega
  | t :: u :: ts, cur, _, hpos, hov => by
    simp only [appendTiles, Bool.and_eq_false_iff]
    by_cases hfit : cur + tsz + t ≤ picBuf
    · right
      apply appendTiles_overflow picBuf tsz ht (u :: ts) (cur + tsz + t) (by simp)
        (fun x hx => hpos x (List.mem_cons_of_mem _ hx))
      simp only [List.sum_cons, List.length_cons] at hov ⊢
      push_cast at hov ⊢
      linarith
    · left
      simp only [copyInBounds, decide_eq_false_iff_not, not_and, not_le]
      intro _ _; omega

/-- if everything fits and sizes are non-negative every copy is in bounds -/
theorem appendTiles_fits (picBuf tsz : Int) (ht : 0 ≤ tsz) : ∀ (tiles : List Int) (cur : Int), tiles ≠ [] → 0 ≤ cur →
    (∀ t ∈ tiles, 0 ≤ t) → cur + tiles.sum + tsz * ((tiles.length : Int) - 1) ≤ picBuf →
    (appendTiles picBuf tsz cur tiles).2 = true
  | [], _, h, _, _, _ => absurd rfl h
  | [t], cur, _, hc, hpos, hfit => by
    have := hpos t (by simp)
    simp only [List.sum_cons, List.sum_nil, List.length_cons, List.length_nil] at hfit
    simp only [appendTiles, copyInBounds, decide_eq_true_eq]
    omega
  | t :: u :: ts, cur, _, hc, hpos, hfit => by
    have h0 := hpos t (by simp)
    have hrest : ∀ x ∈ u :: ts, 0 ≤ x := fun x hx => hpos x (List.mem_cons_of_mem _ hx)
    have hs : 0 ≤ (u :: ts).sum := sum_nonneg' _ hrest
    have hl : (0 : Int) ≤ tsz * (((u :: ts).length : Int) - 1) := by
      apply Int.mul_nonneg ht
      simp only [List.length_cons]; push_cast; omega
    simp only [List.sum_cons, List.length_cons] at hfit hs hl
    push_cast at hfit hl
    simp only [appendTiles, Bool.and_eq_true]
    constructor
    · simp only [copyInBounds, decide_eq_true_eq]
      refine ⟨by omega, h0, ?_⟩
      nlinarith
    · apply appendTiles_fits picBuf tsz ht (u :: ts) (cur + tsz + t) (by simp) (by omega) hrest
      simp only [List.sum_cons, List.length_cons]
      push_cast
      linarith

end Lemmas.PadRecon
