/-
  Helper lemmas for C02: LEB128 round trip, OBU header byte round trip, OBU list round trip.
-/
import SvtVerif.Model.Obu
import Mathlib.Tactic.Linarith
import Mathlib.Tactic.Ring

namespace ObuLemmas
open Leb128 Obu

/-! ### bit facts -/

theorem and7f (x : Nat) : x &&& 0x7f = x % 128 := Nat.and_two_pow_sub_one_eq_mod x 7

theorem shr7 (x : Nat) : x >>> 7 = x / 128 := by simp [Nat.shiftRight_eq_div_pow]

theorem or80 (x : Nat) (h : x < 128) : x ||| 0x80 = x + 128 := by
  have := Nat.shiftLeft_add_eq_or_of_lt (i := 7) (b := x) (by simpa using h) 1
  simp at this
  rw [Nat.or_comm]; omega

set_option maxRecDepth 4000 in
theorem byte_hi : ∀ x, x < 256 → ((x &&& 0x80 = 0) ↔ x < 128) := by decide

theorem toUInt8_toNat (n : Nat) (h : n < 256) : n.toUInt8.toNat = n := by
  simp [Nat.toUInt8]; omega

theorem or_shift (acc d shift : Nat) (h : acc < 2 ^ shift) : acc ||| (d <<< shift) = acc + d * 2 ^ shift := by
  rw [Nat.or_comm, ← Nat.shiftLeft_add_eq_or_of_lt h, Nat.shiftLeft_eq]; omega

/-! ### size -/

theorem sizeGo_pos (fuel v : Nat) : 1 ≤ sizeGo fuel v := by
  cases fuel <;> simp [sizeGo]; split <;> omega

/-- `sizeGo` never exceeds `k` when `v < 128^k`. -/
theorem sizeGo_le (fuel : Nat) : ∀ (v k : Nat), 1 ≤ k → v < 128 ^ k → sizeGo fuel v ≤ k := by
  induction fuel with
  | zero => intro v k hk _; simp [sizeGo]; omega
  | succ fuel ih =>
    intro v k hk hv
    simp only [sizeGo, shr7]
    split
    · omega
    · rename_i hne
      have hk2 : 2 ≤ k := by
        rcases Nat.lt_or_ge k 2 with h | h
        · have : k = 1 := by omega
          subst this; simp at hv; omega
        · exact h
      have : v / 128 < 128 ^ (k - 1) := by
        have : 128 ^ k = 128 ^ (k - 1) * 128 := by rw [← pow_succ]; congr 1; omega
        rw [Nat.div_lt_iff_lt_mul (by decide)]; omega
      have := ih (v / 128) (k - 1) (by omega) this
      omega

/-- With enough fuel, `v < 128 ^ size` and the size is minimal. -/
theorem sizeGo_spec (fuel : Nat) : ∀ v, v < 128 ^ (fuel + 1) →
    v < 128 ^ sizeGo fuel v ∧ (sizeGo fuel v = 1 ∨ 128 ^ (sizeGo fuel v - 1) ≤ v) := by
  induction fuel with
  | zero => intro v hv; simp [sizeGo]; simpa using hv
  | succ fuel ih =>
    intro v hv
    simp only [sizeGo, shr7]
    split
    · rename_i h0
      have : v < 128 := by
        rcases Nat.lt_or_ge v 128 with h | h
        · exact h
        · have := Nat.div_pos h (by decide : 0 < 128); omega
      simp; omega
    · rename_i hne
      have hlt : v / 128 < 128 ^ (fuel + 1) := by
        rw [Nat.div_lt_iff_lt_mul (by decide)]; rw [pow_succ] at hv; exact hv
      obtain ⟨h1, h2⟩ := ih (v / 128) hlt
      have hpos := sizeGo_pos fuel (v / 128)
      constructor
      · rw [show 1 + sizeGo fuel (v / 128) = sizeGo fuel (v / 128) + 1 by omega, pow_succ]
        have := Nat.div_add_mod v 128
        have := Nat.mod_lt v (by decide : 0 < 128)
        nlinarith
      · right
        rw [show 1 + sizeGo fuel (v / 128) - 1 = (sizeGo fuel (v / 128) - 1) + 1 by omega, pow_succ]
        rcases h2 with h2 | h2
        · rw [h2]; simp
          have : 1 ≤ v / 128 := Nat.pos_of_ne_zero hne
          have := Nat.div_mul_le_self v 128
          omega
        · have := Nat.div_mul_le_self v 128
          nlinarith

theorem encodeBytes_length (n v : Nat) : (encodeBytes n v).length = n := by
  induction n generalizing v with
  | zero => rfl
  | succ n ih => simp [encodeBytes, ih]

/-! ### LEB128 round trip -/

/-- One byte without continuation bit. -/
theorem decodeGo_single (v f shift acc : Nat) (rest : List UInt8) (hv : v < 128) (hacc : acc < 2 ^ shift) :
    decodeGo (f + 1) shift acc (encodeBytes 1 v ++ rest) = some (acc + v * 2 ^ shift, rest) := by
  have h0 : v / 128 = 0 := by omega
  have hb : (v % 128).toUInt8.toNat = v := by
    rw [toUInt8_toNat _ (by omega)]; exact Nat.mod_eq_of_lt hv
  simp only [encodeBytes, shr7, and7f, h0, ne_eq, not_true_eq_false, if_false, List.cons_append,
    List.nil_append, decodeGo, hb]
  have hz : v &&& 0x80 = 0 := (byte_hi v (by omega)).2 hv
  simp only [hz, if_true, Nat.mod_eq_of_lt hv, or_shift _ _ _ hacc]

/-- The decoder loop undoes the encoder loop, for every starting shift/accumulator. -/
theorem decodeGo_encode (fuel : Nat) : ∀ (v f shift acc : Nat) (rest : List UInt8),
    v < 128 ^ (fuel + 1) → sizeGo fuel v ≤ f → acc < 2 ^ shift →
    decodeGo f shift acc (encodeBytes (sizeGo fuel v) v ++ rest) = some (acc + v * 2 ^ shift, rest) := by
  induction fuel with
  | zero =>
    intro v f shift acc rest hv hf hacc
    have hv0 : v < 128 := by simpa using hv
    simp only [sizeGo] at hf ⊢
    obtain ⟨f', rfl⟩ : ∃ f', f = f' + 1 := ⟨f - 1, by omega⟩
    exact decodeGo_single v f' shift acc rest hv0 hacc
  | succ fuel ih =>
    intro v f shift acc rest hv hf hacc
    have hmod := Nat.mod_lt v (by decide : 0 < 128)
    simp only [sizeGo, shr7] at hf ⊢
    split at hf
    · -- single byte
      rename_i h0
      simp only [h0, if_true]
      obtain ⟨f', rfl⟩ : ∃ f', f = f' + 1 := ⟨f - 1, by omega⟩
      have hv128 : v < 128 := by
        rcases Nat.lt_or_ge v 128 with h | h
        · exact h
        · have := Nat.div_pos h (by decide : 0 < 128); omega
      exact decodeGo_single v f' shift acc rest hv128 hacc
    · rename_i hne
      simp only [hne, if_false]
      obtain ⟨f', rfl⟩ : ∃ f', f = f' + 1 := ⟨f - 1, by omega⟩
      have hpos := sizeGo_pos fuel (v / 128)
      rw [show 1 + sizeGo fuel (v / 128) = sizeGo fuel (v / 128) + 1 by omega]
      have hb : (v % 128 ||| 0x80).toUInt8.toNat = v % 128 + 128 := by
        rw [or80 _ hmod, toUInt8_toNat _ (by omega)]
      simp only [encodeBytes, shr7, and7f, ne_eq, hne, not_false_eq_true, if_true, List.cons_append,
        decodeGo, hb]
      have hnz : ¬ ((v % 128 + 128) &&& 0x80 = 0) := by
        intro h; have := (byte_hi _ (by omega)).1 h; omega
      simp only [hnz, if_false]
      have hm : (v % 128 + 128) % 128 = v % 128 := by omega
      rw [hm, or_shift _ _ _ hacc]
      have hlt : v / 128 < 128 ^ (fuel + 1) := by
        rw [Nat.div_lt_iff_lt_mul (by decide)]; rw [pow_succ] at hv; exact hv
      have hacc' : acc + v % 128 * 2 ^ shift < 2 ^ (shift + 7) := by
        rw [pow_add]; nlinarith
      rw [ih (v / 128) f' (shift + 7) _ rest hlt (by omega) hacc']
      congr 2
      have := Nat.div_add_mod v 128
      rw [pow_add]
      have e : (v / 128) * (2 ^ shift * 2 ^ 7) = (v / 128 * 128) * 2 ^ shift := by ring
      rw [e]
      have : v = v / 128 * 128 + v % 128 := by omega
      nlinarith

theorem sizeInBytes_le_8 (v : Nat) (hv : v < 2 ^ 56) : sizeInBytes v ≤ 8 := by
  apply sizeGo_le 10 v 8 (by decide)
  calc v < 2 ^ 56 := hv
    _ = 128 ^ 8 := by norm_num

theorem sizeInBytes_le_4 (v : Nat) (hv : v < 2 ^ 28) : sizeInBytes v ≤ 4 := by
  apply sizeGo_le 10 v 4 (by decide)
  calc v < 2 ^ 28 := hv
    _ = 128 ^ 4 := by norm_num

theorem decode_encode (v : Nat) (rest : List UInt8) (hv : v < 2 ^ 56) :
    decode (encodeBytes (sizeInBytes v) v ++ rest) = some (v, rest) := by
  have h := decodeGo_encode 10 v 8 0 0 rest
    (by calc v < 2 ^ 56 := hv
          _ ≤ 128 ^ 11 := by norm_num)
    (sizeInBytes_le_8 v hv) (by norm_num)
  simpa [decode, sizeInBytes] using h

/-! ### OBU header byte -/

theorem header_byte_none : ∀ t : Fin 16,
    writeObuHeader t.val 0 = [((t.val <<< 3) ||| 2).toUInt8] := by decide

theorem header_byte_ext : ∀ t : Fin 16,
    (writeObuHeader t.val 1).take 1 = [((t.val <<< 3) ||| 6).toUInt8] := by decide

/-- Parsing the fields back out of the header byte the writer produced. -/
theorem header_fields : ∀ (t : Fin 16) (e : Bool),
    let b := ((t.val <<< 3) ||| (if e then 6 else 2)).toUInt8.toNat
    b >>> 7 = 0 ∧ (b >>> 3) &&& 15 = t.val ∧ (b >>> 2) &&& 1 = (if e then 1 else 0) ∧
      (b >>> 1) &&& 1 = 1 ∧ b &&& 1 = 0 := by decide

theorem validObuType_lt (t : Nat) (h : validObuType t = true) : t < 16 := by
  simp [validObuType] at h; omega

/-! ### OBU round trip -/

theorem readObuSize_encode (n : Nat) (rest : List UInt8) (hn : n < 2 ^ 28) :
    readObuSize (encodeBytes (sizeInBytes n) n ++ rest) = some (n, rest) := by
  have hd := decode_encode n rest (by calc n < 2 ^ 28 := hn
                                        _ ≤ 2 ^ 56 := by norm_num)
  simp only [readObuSize, hd]
  have : ¬ n > 0xFFFFFFFF := by
    have : (2 : Nat) ^ 28 ≤ 0xFFFFFFFF := by norm_num
    omega
  simp [this]

/-- One OBU: the reader returns exactly the OBU that was serialized and leaves the rest untouched. -/
theorem parseObu1_serialize (o : Obu.Obu) (rest : List UInt8) (hw : o.wellFormed = true) :
    parseObu1 (serialize o ++ rest) = .ok (o, rest) := by
  obtain ⟨t, ext, payload⟩ := o
  simp only [Obu.wellFormed, Bool.and_eq_true, decide_eq_true_eq] at hw
  obtain ⟨⟨hvt, hext⟩, hlen⟩ := hw
  have ht : t < 16 := validObuType_lt t hvt
  have hsz := readObuSize_encode payload.length (payload ++ rest) hlen
  cases ext with
  | none =>
    have hb := header_byte_none ⟨t, ht⟩
    have hf := header_fields ⟨t, ht⟩ false
    simp only [Bool.false_eq_true, if_false] at hb hf
    obtain ⟨f1, f2, f3, f4, f5⟩ := hf
    simp only [serialize, headerBytes, hb, List.cons_append, List.nil_append, List.append_assoc, parseObu1,
      f1, f2, f3, f4, f5, hvt, ne_eq, not_true_eq_false, if_false, Bool.not_true, Bool.false_eq_true,
      Nat.zero_ne_one, hsz]
    simp
  | some e =>
    have hb := header_byte_ext ⟨t, ht⟩
    have hf := header_fields ⟨t, ht⟩ true
    simp only [if_true] at hb hf
    obtain ⟨f1, f2, f3, f4, f5⟩ := hf
    have he : e.toNat &&& 7 = 0 := by simpa using hext
    simp only [serialize, headerBytes, hb, List.cons_append, List.nil_append, List.append_assoc, parseObu1,
      f1, f2, f3, f4, f5, hvt, ne_eq, not_true_eq_false, if_false, Bool.not_true, Bool.false_eq_true,
      if_true, he, hsz]
    simp

theorem serialize_length_pos (o : Obu.Obu) : 1 ≤ (serialize o).length := by
  obtain ⟨t, ext, payload⟩ := o
  have := sizeGo_pos 10 payload.length
  cases ext <;> simp [serialize, headerBytes, encodeBytes_length, sizeInBytes] <;> omega

/-- The OBU loop, for any sufficient fuel. -/
theorem parseObusGo_serialize (os : List Obu.Obu) (hw : ∀ o ∈ os, o.wellFormed = true) :
    ∀ fuel, (os.flatMap serialize).length ≤ fuel → parseObusGo fuel (os.flatMap serialize) = .ok os := by
  induction os with
  | nil => intro fuel _; cases fuel <;> simp [parseObusGo]
  | cons o os ih =>
    intro fuel hf
    have hpos := serialize_length_pos o
    simp only [List.flatMap_cons, List.length_append] at hf ⊢
    obtain ⟨f', rfl⟩ : ∃ f', fuel = f' + 1 := ⟨fuel - 1, by omega⟩
    have hne : serialize o ++ os.flatMap serialize ≠ [] := by
      intro h; have := congrArg List.length h; simp only [List.length_append, List.length_nil] at this; omega
    have h1 := parseObu1_serialize o (os.flatMap serialize) (hw o (by simp))
    have h2 := ih (fun o' ho' => hw o' (by simp [ho'])) f' (by omega)
    cases hbs : serialize o ++ os.flatMap serialize with
    | nil => exact absurd hbs hne
    | cons b bs =>
      rw [hbs] at h1
      simp only [parseObusGo, h1, h2]

end ObuLemmas
