/-
  C07 part B — arithmetic meaning of the per-element terms of the 32-bit full-distortion kernels (as `Nat`/`Int`
  expressions of the int32 inputs) and the C reference loops as `Nat` sums.
-/
import SvtVerif.Lemmas.SimdB2
import Mathlib.Tactic.Ring
import Mathlib.Tactic.Linarith

namespace Simd

/-! ### specification-level terms -/

/-- `(coeff - recon)^2` as a mathematical integer (what the C reference adds, before the mod 2^64 of the accumulator) -/
def sqDiff (c r : BitVec 32) : Nat := (c.toInt - r.toInt).natAbs ^ 2
/-- what the AVX2 kernel squares: only the LOW dword of `coeff - recon`, sign-extended (`_mm256_mul_epi32`) -/
def sqDiffLow (c r : BitVec 32) : Nat := ((c.toInt - r.toInt).bmod (2 ^ 32)).natAbs ^ 2
/-- `coeff^2` -/
def sqCoef (c : BitVec 32) : Nat := c.toInt.natAbs ^ 2

/-- the C terms -/
def dsqC (c r : BitVec 32) : BitVec 64 := (sext64 c - sext64 r) * (sext64 c - sext64 r)
def sqC (c : BitVec 32) : BitVec 64 := sext64 c * sext64 c

theorem toInt32_bounds (c : BitVec 32) : -2147483648 ≤ c.toInt ∧ c.toInt < 2147483648 := by
  have h1 := BitVec.le_toInt c
  have h2 := @BitVec.toInt_lt 32 c
  norm_num at h1 h2
  exact ⟨h1, h2⟩

theorem sext64_toInt (c : BitVec 32) : (sext64 c).toInt = c.toInt :=
  BitVec.toInt_signExtend_of_le (by omega)

theorem subV_toInt (c r : BitVec 32) : (sext64 c - sext64 r).toInt = c.toInt - r.toInt := by
  have hc := toInt32_bounds c
  have hr := toInt32_bounds r
  rw [BitVec.toInt_sub, sext64_toInt, sext64_toInt, Int.bmod_def]
  norm_num
  omega

/-- toNat of a 64-bit vector in terms of toInt -/
theorem toNat_eq_toInt_emod (x : BitVec 64) : (x.toNat : Int) = x.toInt % 18446744073709551616 := by
  have := x.isLt
  rw [BitVec.toInt_eq_toNat_cond]
  split <;> omega

/-- wrap-around 64-bit square = the integer square mod 2^64 -/
theorem mul_self_toNat (x : BitVec 64) : (x * x).toNat = (x.toInt.natAbs ^ 2) % 2 ^ 64 := by
  have h := toNat_eq_toInt_emod x
  rw [BitVec.toNat_mul]
  have hN : ((2 ^ 64 : Nat) : Int) = 18446744073709551616 := by norm_num
  have e1 : ((x.toNat * x.toNat % 2 ^ 64 : Nat) : Int) = (x.toInt * x.toInt) % 18446744073709551616 := by
    rw [Int.natCast_mod, Int.natCast_mul, h, hN, ← Int.mul_emod]
  have e2 : ((x.toInt.natAbs ^ 2 % 2 ^ 64 : Nat) : Int) = (x.toInt * x.toInt) % 18446744073709551616 := by
    rw [Int.natCast_mod, Nat.pow_two, Int.natCast_mul, Int.natAbs_mul_self', hN]
  exact_mod_cast e1.trans e2.symm

theorem bmod32_eq_self {t : Int} (h1 : -2147483648 ≤ t) (h2 : t < 2147483648) : t.bmod (2 ^ 32) = t := by
  rw [Int.bmod_def]
  norm_num
  split <;> omega

theorem natAbs_sq_le {t : Int} {B : Nat} (h : t.natAbs ≤ B) : t.natAbs ^ 2 ≤ B ^ 2 := Nat.pow_le_pow_left h 2

/-- `_mm256_mul_epi32(x, x)` on one lane: the square of the sign-extended low dword, exact (no wrap) -/
theorem mulLo32_self_toNat (x : BitVec 64) : (mulLo32 x x).toNat = (x.toInt.bmod (2 ^ 32)).natAbs ^ 2 := by
  have hy : ((x.truncate 32).signExtend 64).toInt = x.toInt.bmod (2 ^ 32) := by
    rw [BitVec.toInt_signExtend_of_le (by omega), BitVec.truncate, BitVec.toInt_setWidth, toNat_eq_toInt_emod,
      Int.bmod_def, Int.bmod_def]
    norm_num
  rw [mulLo32, mul_self_toNat, hy]
  have hb : (x.toInt.bmod (2 ^ 32)).natAbs ≤ 2 ^ 31 := by
    rw [Int.bmod_def]; norm_num; split <;> omega
  have := natAbs_sq_le hb
  omega

theorem prodV_toNat (c r : BitVec 32) : (prodV c r).toNat = sqDiffLow c r := by
  rw [prodV, mulLo32_self_toNat, subV_toInt, sqDiffLow]

theorem dsqC_toNat (c r : BitVec 32) : (dsqC c r).toNat = sqDiff c r % 2 ^ 64 := by
  rw [dsqC, mul_self_toNat, subV_toInt, sqDiff]

theorem sqCoef_lt (c : BitVec 32) : sqCoef c ≤ 2 ^ 62 := by
  have hc := toInt32_bounds c
  have : c.toInt.natAbs ≤ 2 ^ 31 := by omega
  have := natAbs_sq_le this
  rw [sqCoef]; omega

theorem sqC_toNat (c : BitVec 32) : (sqC c).toNat = sqCoef c := by
  have := sqCoef_lt c
  rw [sqC, mul_self_toNat, sext64_toInt]
  rw [sqCoef] at this ⊢
  omega

theorem sqV_toNat (c : BitVec 32) : (sqV c).toNat = sqCoef c := by
  have hc := toInt32_bounds c
  rw [sqV, mulLo32_self_toNat, sext64_toInt, sqCoef, bmod32_eq_self hc.1 hc.2]

/-- the prediction terms of the two kernels are the same 64-bit value -/
theorem sqV_eq_sqC (c : BitVec 32) : sqV c = sqC c :=
  BitVec.eq_of_toNat_eq (by rw [sqV_toNat, sqC_toNat])

/-- when `coeff - recon` fits in int32 the AVX2 product is the true square -/
theorem sqDiffLow_eq_of_fits {c r : BitVec 32} (h1 : -2 ^ 31 ≤ c.toInt - r.toInt) (h2 : c.toInt - r.toInt < 2 ^ 31) :
    sqDiffLow c r = sqDiff c r := by
  rw [sqDiffLow, sqDiff, bmod32_eq_self (by omega) (by omega)]

theorem sqDiff_lt_of_fits {c r : BitVec 32} (h1 : -2 ^ 31 ≤ c.toInt - r.toInt) (h2 : c.toInt - r.toInt < 2 ^ 31) :
    sqDiff c r ≤ 2 ^ 62 := by
  have : (c.toInt - r.toInt).natAbs ≤ 2 ^ 31 := by omega
  have := natAbs_sq_le this
  rw [sqDiff]; omega

/-- a square below 2^32 comes from a difference below 2^16 -/
theorem fits_of_sqDiff_lt {c r : BitVec 32} (h : sqDiff c r < 2 ^ 32) :
    -2 ^ 31 ≤ c.toInt - r.toInt ∧ c.toInt - r.toInt < 2 ^ 31 := by
  rw [sqDiff] at h
  have : (c.toInt - r.toInt).natAbs < 2 ^ 16 := by
    by_contra hc
    have := Nat.pow_le_pow_left (Nat.le_of_not_lt hc) 2
    omega
  omega

end Simd
