/-
  C06 helper lemmas: the fold behind `Dispatch.select`, the single kernel evaluation of the table obligations.
-/
import SvtVerif.Gen.Dispatch
import SvtVerif.Spec.DispatchAllow

namespace DispatchLemmas
open _root_.Dispatch Gen.Dispatch Spec.DispatchAllow

/-- the dispatch table of the build (EN_AVX512_SUPPORT=0) and of an AVX-512 build -/
def table : List Entry := common ++ enc
def table512 : List Entry := common512 ++ enc512

theorem foldl_step_mem (f : Nat) (slots : List (Nat × FnName)) (init : Option FnName) :
    slots.foldl (step f) init = init ∨
      ∃ s ∈ slots, f.testBit s.1 = true ∧ slots.foldl (step f) init = some s.2 := by
  induction slots generalizing init with
  | nil => exact Or.inl rfl
  | cons s rest ih =>
    simp only [List.foldl_cons]
    rcases ih (step f init s) with h | ⟨t, ht, hb, hsel⟩
    · by_cases hs : f.testBit s.1 = true
      · right; exact ⟨s, List.mem_cons_self, hs, by rw [h]; simp [step, hs]⟩
      · left; rw [h]; simp [step, hs]
    · right; exact ⟨t, List.mem_cons_of_mem _ ht, hb, hsel⟩


theorem foldl_step_zero (slots : List (Nat × FnName)) (init : Option FnName) :
    slots.foldl (step 0) init = init := by
  induction slots generalizing init with
  | nil => rfl
  | cons s rest ih => simp [List.foldl_cons, step, ih]


/-- One kernel evaluation over both generated tables (1562 entries, ~3300 names): every entry passes `entryOk`. -/
theorem table_entries_ok : (table ++ table512).all (entryOk slotAllow noCAllow) = true := by decide +kernel

theorem entry_ok {e : Entry} (he : e ∈ table ++ table512) :
    cOk noCAllow e = true ∧ slotsOk slotAllow e = true ∧ slotsSorted e.slots = true := by
  have h := List.all_eq_true.mp table_entries_ok e he
  simp only [entryOk, Bool.and_eq_true] at h
  exact ⟨h.1.1, h.1.2, h.2⟩

theorem testBit_and_true {a b i : Nat} (h : (a &&& b).testBit i = true) : a.testBit i = true ∧ b.testBit i = true := by
  rw [Nat.testBit_and, Bool.and_eq_true] at h; exact h


theorem mem_of_find {tbl : List Entry} {p : FnName} {e : Entry} (h : find? tbl p = some e) : e ∈ tbl :=
  List.mem_of_find?_eq_some h


end DispatchLemmas
