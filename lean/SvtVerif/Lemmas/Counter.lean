/-
  C04 (part B) — proofs for `Model/Counter.lean`: with the counter block atomic (mutex / single collector),
  for every order in which the N segment tasks finish, the picture is posted to the next stage exactly
  once, by the task that finishes last, and only when all N tasks have finished.
-/
import SvtVerif.Model.Counter

namespace Counter

/-! ## Small list facts (pigeonhole) -/

/-- Pigeonhole: a duplicate-free list whose elements all occur in `l2` is not longer than `l2`. -/
theorem length_le_of_nodup_subset :
    ∀ (l1 l2 : List Nat), l1.Nodup → (∀ x, x ∈ l1 → x ∈ l2) → l1.length ≤ l2.length
  | [], _, _, _ => Nat.zero_le _
  | a :: t, l2, hnd, hsub => by
    have hnd' := List.nodup_cons.1 hnd
    have ha : a ∈ l2 := hsub a (List.mem_cons.2 (Or.inl rfl))
    have ih := length_le_of_nodup_subset t (l2.erase a) hnd'.2 (fun x hx => by
      have hne : x ≠ a := fun e => hnd'.1 (e ▸ hx)
      exact (List.mem_erase_of_ne hne).2 (hsub x (List.mem_cons.2 (Or.inr hx))))
    have hlen := List.length_erase_of_mem ha
    have hpos : 0 < l2.length := List.length_pos_of_mem ha
    simp only [List.length_cons]
    omega

/-! ## Step characterisation -/

theorem step_eq_some {N : Nat} {s s' : State} {t : Nat} (h : step N s t = some s') :
    t < N ∧ t ∉ s.finished ∧ s' = finish N s t := by
  unfold step at h
  by_cases hc : t < N ∧ t ∉ s.finished
  · rw [if_pos hc] at h
    exact ⟨hc.1, hc.2, (Option.some.inj h).symm⟩
  · rw [if_neg hc] at h
    cases h

theorem step_eq_none {N : Nat} {s : State} {t : Nat} :
    step N s t = none ↔ ¬ (t < N ∧ t ∉ s.finished) := by
  unfold step
  by_cases hc : t < N ∧ t ∉ s.finished
  · rw [if_pos hc]
    exact ⟨fun h => (by cases h), fun h => absurd hc h⟩
  · rw [if_neg hc]
    exact ⟨fun _ => hc, fun _ => rfl⟩

/-! ## Bookkeeping invariants -/

/-- The counter counts exactly the tasks that have run their block; no task runs it twice; only the
`N` tasks of the grid run it. -/
structure Inv (N : Nat) (s : State) : Prop where
  count_eq : s.count = s.finished.length
  nodup : s.finished.Nodup
  lt : ∀ t, t ∈ s.finished → t < N

theorem inv_of_reachable {N : Nat} {s : State} (h : Reachable N s) : Inv N s := by
  induction h with
  | init => exact ⟨rfl, List.nodup_nil, fun t ht => by cases ht⟩
  | step _ hs ih =>
    obtain ⟨hlt, hnm, rfl⟩ := step_eq_some hs
    refine ⟨?_, ?_, ?_⟩
    · show _ + 1 = (_ :: _).length
      rw [List.length_cons, ih.count_eq]
    · exact List.nodup_cons.2 ⟨hnm, ih.nodup⟩
    · intro x hx
      rcases List.mem_cons.1 hx with rfl | hx
      · exact hlt
      · exact ih.lt x hx

/-- C: `count` equals the number of segment tasks that have executed `count++`. -/
theorem count_eq_length {N : Nat} {s : State} (h : Reachable N s) : s.count = s.finished.length :=
  (inv_of_reachable h).count_eq

/-- C: no segment task executes the counter block twice. -/
theorem finished_nodup {N : Nat} {s : State} (h : Reachable N s) : s.finished.Nodup :=
  (inv_of_reachable h).nodup

/-- C: the counter never exceeds the segment total (`tot_seg_searched_cdef <= cdef_segments_total_count`
etc.), so the `==` test cannot be jumped over. -/
theorem count_le {N : Nat} {s : State} (h : Reachable N s) : s.count ≤ N := by
  have hi := inv_of_reachable h
  have := length_le_of_nodup_subset s.finished (List.range N) hi.nodup
    (fun x hx => List.mem_range.2 (hi.lt x hx))
  rw [List.length_range] at this
  rw [hi.count_eq]
  exact this

/-! ## Exactly one fire, by the last finisher -/

/-- Closed form of `fires` in every reachable state: empty until the counter reaches `N`, then the single
most recently finished task. -/
theorem fires_eq {N : Nat} {s : State} (h : Reachable N s) :
    s.fires = if 0 < N ∧ s.count = N then s.finished.take 1 else [] := by
  induction h with
  | init =>
    show ([] : List Nat) = if 0 < N ∧ 0 = N then _ else []
    rw [if_neg (show ¬ (0 < N ∧ 0 = N) by omega)]
  | @step s s' t hr hs ih =>
    have hle : s'.count ≤ N := count_le (Reachable.step hr hs)
    obtain ⟨hlt, _, rfl⟩ := step_eq_some hs
    have hle' : s.count + 1 ≤ N := hle
    have hN : 0 < N := by omega
    show (if s.count + 1 = N then s.fires ++ [t] else s.fires)
        = if 0 < N ∧ s.count + 1 = N then List.take 1 (t :: s.finished) else []
    by_cases hc : s.count + 1 = N
    · rw [if_pos hc, if_pos ⟨hN, hc⟩, ih, if_neg (show ¬ (0 < N ∧ s.count = N) by omega)]
      simp
    · rw [if_neg hc, if_neg (show ¬ (0 < N ∧ s.count + 1 = N) by omega), ih,
        if_neg (show ¬ (0 < N ∧ s.count = N) by omega)]

/-- **last_one_fires_once.**  C: for every order in which the segment tasks of a picture finish, the
`if (count == N)` branch (post the picture to the next stage) is taken at most once; it has been taken
exactly when the counter equals `N`; and the task that took it is the one that finished last (head of
`finished`). -/
theorem last_one_fires_once {N : Nat} {s : State} (hN : 0 < N) (h : Reachable N s) :
    s.fires.length ≤ 1 ∧ (s.fires.length = 1 ↔ s.count = N) ∧
      (∀ t, t ∈ s.fires → s.finished.head? = some t ∧ s.fires = [t]) := by
  have hf := fires_eq h
  have hinv := inv_of_reachable h
  by_cases hc : s.count = N
  · rw [if_pos ⟨hN, hc⟩] at hf
    cases hfin : s.finished with
    | nil =>
      have hce := hinv.count_eq
      rw [hfin] at hce
      simp at hce
      omega
    | cons a l =>
      rw [hfin] at hf
      have hf' : s.fires = [a] := by simpa using hf
      rw [hf']
      refine ⟨by simp, by simp [hc], ?_⟩
      intro t ht
      have hta : t = a := by simpa using ht
      subst hta
      simp
  · rw [if_neg (show ¬ (0 < N ∧ s.count = N) by omega)] at hf
    rw [hf]
    refine ⟨by simp, ⟨fun h1 => (by simp at h1), fun h1 => absurd h1 hc⟩, ?_⟩
    intro t ht
    cases ht

/-- C: with an empty grid (`N = 0`) nothing ever fires (degenerate case, for completeness). -/
theorem no_fire_of_zero {s : State} (h : Reachable 0 s) : s.fires = [] := by
  have hf := fires_eq h
  rw [if_neg (show ¬ (0 < 0 ∧ s.count = 0) by omega)] at hf
  exact hf

/-! ## Completion -/

/-- **counter_complete.**  C: when every segment task has run its counter block (no `finish` enabled any
more), the counter equals the total and the picture has been posted exactly once. -/
theorem counter_complete {N : Nat} {s : State} (h : Reachable N s) (hT : Terminal N s) :
    s.count = N ∧ (0 < N → s.fires.length = 1) := by
  have hi := inv_of_reachable h
  have hall : ∀ x, x ∈ List.range N → x ∈ s.finished := by
    intro x hx
    have hxN := List.mem_range.1 hx
    have hn := step_eq_none.1 (hT x)
    apply Classical.byContradiction
    intro hnm
    exact hn ⟨hxN, hnm⟩
  have hge := length_le_of_nodup_subset (List.range N) s.finished List.nodup_range hall
  rw [List.length_range] at hge
  have hle := count_le h
  have hcnt : s.count = N := by
    have := hi.count_eq
    omega
  exact ⟨hcnt, fun hN => ((last_one_fires_once hN h).2.1).2 hcnt⟩

/-! ## Orders -/

theorem reachable_run {N : Nat} : ∀ (o : List Nat) {s s' : State},
    Reachable N s → run N s o = some s' → Reachable N s'
  | [], s, s', hr, h => by
    have : s = s' := Option.some.inj h
    exact this ▸ hr
  | t :: ts, s, s', hr, h => by
    cases hst : step N s t with
    | none => simp only [run, hst] at h; cases h
    | some s1 =>
      simp only [run, hst] at h
      exact reachable_run ts (Reachable.step hr hst) h

/-- Every duplicate-free order of grid tasks that have not yet finished can be executed, and it leaves
`finished` = the order reversed (newest first) in front of what was there. -/
theorem run_total {N : Nat} : ∀ (o : List Nat) (s : State),
    o.Nodup → (∀ t, t ∈ o → t < N) → (∀ t, t ∈ o → t ∉ s.finished) →
    ∃ s', run N s o = some s' ∧ s'.finished = o.reverse ++ s.finished
  | [], s, _, _, _ => ⟨s, rfl, by simp⟩
  | t :: ts, s, hnd, hlt, hfr => by
    have hnd' := List.nodup_cons.1 hnd
    have ht : t < N ∧ t ∉ s.finished :=
      ⟨hlt t (List.mem_cons.2 (Or.inl rfl)), hfr t (List.mem_cons.2 (Or.inl rfl))⟩
    have hst : step N s t = some (finish N s t) := by
      unfold step
      rw [if_pos ht]
    obtain ⟨s', hrun, hfin⟩ := run_total ts (finish N s t) hnd'.2
      (fun x hx => hlt x (List.mem_cons.2 (Or.inr hx)))
      (fun x hx hmem => by
        rcases List.mem_cons.1 hmem with e | hmem
        · exact hnd'.1 (e ▸ hx)
        · exact hfr x (List.mem_cons.2 (Or.inr hx)) hmem)
    refine ⟨s', ?_, ?_⟩
    · simp only [run, hst]
      exact hrun
    · rw [hfin]
      show ts.reverse ++ (t :: s.finished) = (t :: ts).reverse ++ s.finished
      simp

/-- C: every complete order (each of the `N` tasks exactly once) runs to a terminal state with
`count = N` and, for `0 < N`, exactly one post — done by the last task of the order. -/
theorem complete_order_runs {N : Nat} {o : List Nat} (hnd : o.Nodup) (hmem : ∀ t, t ∈ o ↔ t < N) :
    ∃ s, run N init o = some s ∧ Terminal N s ∧ s.count = N ∧
      (0 < N → s.fires.length = 1 ∧ ∀ t, t ∈ s.fires → o.getLast? = some t) := by
  obtain ⟨s, hrun, hfin⟩ := run_total (N := N) o init hnd (fun t ht => (hmem t).1 ht)
    (fun t _ hm => by cases hm)
  have hfin' : s.finished = o.reverse := by
    rw [hfin]
    show o.reverse ++ [] = o.reverse
    simp
  have hT : Terminal N s := by
    intro t
    apply step_eq_none.2
    intro hc
    apply hc.2
    rw [hfin']
    exact List.mem_reverse.2 ((hmem t).2 hc.1)
  have hr : Reachable N s := reachable_run o Reachable.init hrun
  have hcc := counter_complete hr hT
  refine ⟨s, hrun, hT, hcc.1, fun hN => ⟨hcc.2 hN, fun t ht => ?_⟩⟩
  have := ((last_one_fires_once hN hr).2.2 t ht).1
  rw [hfin', List.head?_reverse] at this
  exact this

/-- **counter_commutes.**  C: order-independence — whatever order the worker threads finish the segments
in, once all are done the counter value and the number of posts are the same. -/
theorem counter_commutes {N : Nat} {o1 o2 : List Nat} {s1 s2 : State}
    (h1 : run N init o1 = some s1) (h2 : run N init o2 = some s2)
    (t1 : Terminal N s1) (t2 : Terminal N s2) :
    s1.count = s2.count ∧ s1.fires.length = s2.fires.length := by
  have r1 : Reachable N s1 := reachable_run o1 Reachable.init h1
  have r2 : Reachable N s2 := reachable_run o2 Reachable.init h2
  have c1 := counter_complete r1 t1
  have c2 := counter_complete r2 t2
  refine ⟨c1.1.trans c2.1.symm, ?_⟩
  by_cases hN : 0 < N
  · rw [c1.2 hN, c2.2 hN]
  · have hN0 : N = 0 := by omega
    subst hN0
    rw [no_fire_of_zero r1, no_fire_of_zero r2]

/-! ## Non-vacuity (executable) -/

example : run 3 init [2, 0, 1] = some { finished := [1, 0, 2], count := 3, fires := [1] } := by decide
example : run 3 init [1, 2, 0] = some { finished := [0, 2, 1], count := 3, fires := [0] } := by decide
example : run 3 init [2, 0] = some { finished := [0, 2], count := 2, fires := [] } := by decide
/-- A task cannot run its block twice, and tasks outside the grid are not enabled. -/
example : run 3 init [0, 0] = none := by decide
example : run 3 init [3] = none := by decide
example : step 3 { finished := [1, 0, 2], count := 3, fires := [1] } 0 = none := by decide

end Counter
