/-
  C14 helper lemmas: exactness of the guard criterion, lifting of "every path balanced" to "no mutex is ever
  left held / no call ever blocks on a leftover mutex" for arbitrary call sequences.
-/
import SvtVerif.Model.ApiProto

namespace ApiProto

/-! ### guard criterion = NULL semantics -/

theorem pathGuarded_iff (evs : List PEv) :
    pathGuarded evs = true ↔ ∀ l, runNullEvs evs ≠ .nullAccess l := by
  induction evs with
  | nil => simp [pathGuarded, runNullEvs]
  | cons e r ih =>
    cases e with
    | chkNonNull => simp [pathGuarded, runNullEvs]
    | chkNull => simpa [pathGuarded, runNullEvs] using ih
    | deref l => simp [pathGuarded, runNullEvs]
    | escape l => simp [pathGuarded, runNullEvs]

theorem not_pathGuarded_witness (evs : List PEv) (h : pathGuarded evs = false) :
    ∃ l, runNullEvs evs = .nullAccess l := by
  induction evs with
  | nil => simp [pathGuarded] at h
  | cons e r ih =>
    cases e with
    | chkNonNull => simp [pathGuarded] at h
    | chkNull => simpa [pathGuarded, runNullEvs] using ih (by simpa [pathGuarded] using h)
    | deref l => exact ⟨l, rfl⟩
    | escape l => exact ⟨l, rfl⟩

/-- A guarded entry: whatever path a call with a NULL argument takes, the pointer is never accessed. -/
theorem entryGuarded_sound (e : GuardEntry) (h : entryGuarded e = true) :
    ∀ p ∈ e.paths, ∀ l, runNullEvs p.evs ≠ .nullAccess l := by
  intro p hp
  have := List.all_eq_true.mp h p hp
  exact (pathGuarded_iff p.evs).mp this

theorem all_false_witness {α : Type} (l : List α) (f : α → Bool) (h : l.all f = false) : ∃ x ∈ l, f x = false := by
  induction l with
  | nil => simp at h
  | cons x xs ih =>
    cases hx : f x with
    | false => exact ⟨x, List.mem_cons_self .., hx⟩
    | true =>
      have : xs.all f = false := by simpa [List.all_cons, hx] using h
      obtain ⟨y, hy, hfy⟩ := ih this
      exact ⟨y, List.mem_cons_of_mem _ hy, hfy⟩

/-- An unguarded entry has a concrete path on which the NULL argument is accessed (the criterion is exact). -/
theorem entryGuarded_complete (e : GuardEntry) (h : entryGuarded e = false) :
    ∃ p ∈ e.paths, ∃ l, runNullEvs p.evs = .nullAccess l := by
  obtain ⟨p, hp, hpg⟩ := all_false_witness e.paths (fun p => pathGuarded p.evs) h
  exact ⟨p, hp, not_pathGuarded_witness p.evs hpg⟩

/-! ### balanced paths compose -/

theorem runCalls_balanced (ps : List LockPath) (h : ∀ p ∈ ps, pathBalanced p = true) :
    runCalls [] ps = .done [] := by
  induction ps with
  | nil => rfl
  | cons p ps ih =>
    have hp : runLocks [] p.evs = .done [] := by
      have := h p (List.mem_cons_self ..)
      simpa [pathBalanced] using this
    simp only [runCalls, hp]
    exact ih (fun q hq => h q (List.mem_cons_of_mem _ hq))

theorem findLocks_balanced (T : Tables) (hT : allBalanced T = true) (fn : String) :
    ∀ p ∈ findLocks T fn, pathBalanced p = true := by
  intro p hp
  unfold findLocks at hp
  split at hp
  · rename_i e he
    have hmem : e ∈ T.locks := List.mem_of_find?_eq_some he
    have := List.all_eq_true.mp hT e hmem
    exact List.all_eq_true.mp this p hp
  · simp at hp

/-- With every table path balanced, a call made while nothing is held neither blocks nor leaves anything held. -/
theorem lockEffect_balanced (T : Tables) (hT : allBalanced T = true) (fn hp : String) (codes : List (Option Nat)) :
    lockEffect T fn hp codes [] = .inr [] := by
  unfold lockEffect
  simp only
  split
  · rfl
  · generalize hc : (findLocks T fn).filter (fun p => codes.contains p.ret && !p.nulls.contains hp) = cands
    have hb : ∀ p ∈ cands, runLocks [] p.evs = .done [] := by
      intro p hpm
      rw [← hc] at hpm
      have := findLocks_balanced T hT fn p ((List.mem_filter.mp hpm).1)
      simpa [pathBalanced] using this
    clear hc
    induction cands with
    | nil => rfl
    | cons p ps ih =>
      simp only [List.foldl_cons, hb p (List.mem_cons_self ..)]
      simpa using ih (fun q hq => hb q (List.mem_cons_of_mem _ hq))

theorem toRes_ne_blocked (r : PRes) (m : String) : r.toRes ≠ .blocked m := by
  cases r <;> simp [PRes.toRes]

/-- The held-mutex set stays empty across any call when the tables are balanced, and the call is not predicted to block. -/
theorem step_held_nil (T : Tables) (hT : allBalanced T = true) (s : St) (o : Op) (hs : s.held = []) :
    (step T s o).2.held = [] ∧ ∀ m, (step T s o).1 ≠ .blocked m := by
  have hlk : lockResult T s o = .inr [] := by
    unfold lockResult
    rw [hs]
    split
    · exact lockEffect_balanced T hT _ _ _
    · rfl
  unfold step
  split
  · exact ⟨hs, by intro m h; cases h⟩
  · split
    · exact ⟨hs, fun m => toRes_ne_blocked _ m⟩
    · rw [hlk]
      refine ⟨?_, fun m => toRes_ne_blocked _ m⟩
      simp

theorem runFrom_held_nil (T : Tables) (hT : allBalanced T = true) (ops : List Op) (s : St) (hs : s.held = []) :
    (runFrom T s ops).2.held = [] ∧ ∀ m, Res.blocked m ∉ (runFrom T s ops).1 := by
  induction ops generalizing s with
  | nil => exact ⟨hs, by simp [runFrom]⟩
  | cons o os ih =>
    have ⟨h1, h2⟩ := step_held_nil T hT s o hs
    unfold runFrom
    simp only
    split
    · have ⟨i1, i2⟩ := ih (step T s o).2 h1
      refine ⟨i1, ?_⟩
      intro m hm
      rcases List.mem_cons.mp hm with h | h
      · exact h2 m h.symm
      · exact i2 m h
    · refine ⟨h1, ?_⟩
      intro m hm
      rcases List.mem_cons.mp hm with h | h
      · exact h2 m h.symm
      · simp at h

end ApiProto

namespace ApiProto

/-! ### Boolean checkers used with `decide` on the generated tables, and their meaning -/

def isGuardedIn (T : Tables) (pr : String × String) : Bool :=
  match findGuard T pr.1 pr.2 with
  | some e => entryGuarded e
  | none => false

def hasWitnessIn (T : Tables) (pr : String × String) : Bool :=
  match findGuard T pr.1 pr.2 with
  | some e => !entryGuarded e
  | none => false

theorem isGuardedIn_sound (T : Tables) (pr : String × String) (h : isGuardedIn T pr = true) :
    ∃ e, findGuard T pr.1 pr.2 = some e ∧ ∀ p ∈ e.paths, ∀ l, runNullEvs p.evs ≠ .nullAccess l := by
  unfold isGuardedIn at h
  split at h
  · rename_i e he
    exact ⟨e, he, entryGuarded_sound e h⟩
  · cases h

theorem hasWitnessIn_sound (T : Tables) (pr : String × String) (h : hasWitnessIn T pr = true) :
    ∃ e, findGuard T pr.1 pr.2 = some e ∧ ∃ p ∈ e.paths, ∃ l, runNullEvs p.evs = .nullAccess l := by
  unfold hasWitnessIn at h
  split at h
  · rename_i e he
    exact ⟨e, he, entryGuarded_complete e (by simpa using h)⟩
  · cases h

def NullClass.isUnguarded : NullClass → Bool
  | .unguarded _ => true
  | _ => false

/-- What the automaton predicts for a call made without a handle agrees with the table: an error code only where every
    NULL path returns that (non-zero) code, `undef (null fn ptr)` only where `ptr` of `fn` has a dereferencing path. -/
def nullHandlePredictionOk (T : Tables) (o : Op) : Bool :=
  match (step T {} o).1 with
  | .err c => nullClass T (encFn o) (if o.isDec then DEC_H else ENC_H) == .ret c && c != 0
  | .undef (.null fn ptr) => fn == encFn o && (nullClass T fn ptr).isUnguarded
  | _ => false

theorem runFrom_length (T : Tables) (ops : List Op) (s : St) : (runFrom T s ops).1.length = ops.length := by
  induction ops generalizing s with
  | nil => rfl
  | cons o os ih =>
    unfold runFrom
    simp only
    split
    · simp [ih]
    · simp

/-- The lock table of svt_av1_enc_set_parameter as it was before commit e6b9284 (finding F3): the path on which
    verify_settings rejects returns EB_ErrorBadParameter with `config_mutex` still held. -/
def leakyTables (T : Tables) : Tables :=
  { guards := T.guards,
    locks := [{ fn := "svt_av1_enc_set_parameter", paths := [
      ⟨[], some EB_ErrorBadParameter, ["svt_enc_component"]⟩,
      ⟨[.lock "config_mutex"], some EB_ErrorBadParameter, []⟩,
      ⟨[.lock "config_mutex", .unlock "config_mutex"], none, []⟩] }] }

/-- States used to state `reject_then_accept`. -/
def stHandle : St := { enc := { phase := .handle } }
def stRejected : St := { enc := { phase := .handle, cfg := .rejected, touched := true } }
def stConfigured : St := { enc := { phase := .handle, cfg := .accepted, touched := true } }

theorem runFrom_rejects (T : Tables)
    (hr : step T stRejected (.setParam .invalid) = (.err EB_ErrorBadParameter, stRejected))
    (hv : step T stRejected (.setParam .valid) = (.ok, stConfigured)) (n : Nat) :
    runFrom T stRejected (List.replicate n (.setParam .invalid) ++ [.setParam .valid]) =
      (List.replicate n (.err EB_ErrorBadParameter) ++ [.ok], stConfigured) := by
  induction n with
  | zero => simp [runFrom, hv, Res.continues]
  | succ k ih => simp [List.replicate_succ, runFrom, hr, Res.continues, ih]

end ApiProto
