/-
  C24 — lemmas about the segment tables built by `enc_dec_segments_init` and the segment SB loop.
-/
import SvtVerif.Model.Segments
import SvtVerif.Lemmas.Segments
import SvtVerif.Lemmas.SegmentsArith
import Mathlib.Tactic.Linarith
import Mathlib.Tactic.Ring
import Mathlib.Data.List.Basic
import Mathlib.Data.List.Perm.Basic
import Mathlib.Data.List.Count
import Mathlib.Data.List.Sort

namespace Seg

/-! ## Milestone 1 (a): array primitives -/

theorem size_amod (a : Array Nat) (i : Nat) (f : Nat → Nat) : (amod a i f).size = a.size := by
  simp [amod, size_aset]

theorem aget_amod (a : Array Nat) (i : Nat) (f : Nat → Nat) (j : Nat) :
    aget (amod a i f) j = if i = j ∧ i < a.size then f (aget a i) else aget a j := by
  simp [amod, aget_aset]

/-! ## Milestone 1 (b): counting folds -/

theorem size_foldl_amod {α : Type} (l : List α) (f : α → Nat) (g : α → Nat → Nat) (a0 : Array Nat) :
    (l.foldl (fun a p => amod a (f p) (g p)) a0).size = a0.size := by
  induction l generalizing a0 with
  | nil => rfl
  | cons p l ih => simp only [List.foldl_cons]; rw [ih, size_amod]

theorem add_one_mod_add (a c m : Nat) : ((a + 1) % m + c) % m = (a + (c + 1)) % m := by
  rw [Nat.add_mod, Nat.mod_mod, ← Nat.add_mod]; congr 1; omega

/-- Generic counting fold modulo `m`: each element of `l` increments slot `f p`. -/
theorem aget_foldl_count_mod {α : Type} (m : Nat) (l : List α) (f : α → Nat) (a0 : Array Nat) (i : Nat)
    (hi : i < a0.size) (h0 : aget a0 i < m) :
    aget (l.foldl (fun a p => amod a (f p) (fun v => (v + 1) % m)) a0) i
      = (aget a0 i + l.countP (fun p => f p = i)) % m := by
  induction l generalizing a0 with
  | nil => simp [Nat.mod_eq_of_lt h0]
  | cons p l ih =>
    have hm : 0 < m := by omega
    simp only [List.foldl_cons]
    rw [ih _ (by rw [size_amod]; exact hi)]
    · rw [aget_amod, List.countP_cons]
      by_cases hp : f p = i
      · subst hp
        simp only [hi, and_self, if_true, decide_true]
        exact add_one_mod_add _ _ _
      · simp [hp]
    · rw [aget_amod]
      split
      · exact Nat.mod_lt _ hm
      · exact h0

/-- Milestone 1 (b), `uint16_t` instance (`valid_sb_count_array`). -/
theorem aget_foldl_count_u16 {α : Type} (l : List α) (f : α → Nat) (a0 : Array Nat) (i : Nat)
    (hi : i < a0.size) (h0 : aget a0 i < 65536) :
    aget (l.foldl (fun a p => amod a (f p) (fun v => u16 (v + 1))) a0) i
      = u16 (aget a0 i + l.countP (fun p => f p = i)) :=
  aget_foldl_count_mod 65536 l f a0 i hi h0

theorem size_foldl_count_u16 {α : Type} (l : List α) (f : α → Nat) (a0 : Array Nat) :
    (l.foldl (fun a p => amod a (f p) (fun v => u16 (v + 1))) a0).size = a0.size :=
  size_foldl_amod l f (fun _ v => u16 (v + 1)) a0

/-! ## Milestone 1 (c): first-occurrence folds -/

theorem aget_foldl_first_gen {α : Type} (l : List α) (f k : α → Nat) (a0 : Array Nat) (i : Nat)
    (hi : i < a0.size) (hk : ∀ p ∈ l, k p < 65535) :
    aget (l.foldl (fun a p => amod a (f p) (fun v => if v == 65535 then u16 (k p) else v)) a0) i
      = if aget a0 i = 65535 then
          (match l.find? (fun p => f p = i) with | some p => u16 (k p) | none => 65535)
        else aget a0 i := by
  induction l generalizing a0 with
  | nil => simp
  | cons p l ih =>
    simp only [List.foldl_cons]
    rw [ih _ (by rw [size_amod]; exact hi) (fun q hq => hk q (List.mem_cons_of_mem _ hq))]
    rw [aget_amod, List.find?_cons]
    have hkp : k p < 65535 := hk p List.mem_cons_self
    have hu : u16 (k p) = k p := by unfold u16; omega
    by_cases hp : f p = i
    · subst hp
      simp only [hi, and_self, if_true, decide_true, beq_iff_eq]
      by_cases h1 : aget a0 (f p) = 65535
      · simp only [h1, if_true, hu]
        rw [if_neg (by omega)]
      · simp [h1]
    · simp [hp]

theorem aget_foldl_first {α : Type} (l : List α) (f k : α → Nat) (n i : Nat)
    (hi : i < n) (hk : ∀ p ∈ l, k p < 65535) :
    aget (l.foldl (fun a p => amod a (f p) (fun v => if v == 65535 then u16 (k p) else v))
        (Array.replicate n 65535)) i
      = match l.find? (fun p => f p = i) with | some p => u16 (k p) | none => 65535 := by
  rw [aget_foldl_first_gen l f k _ i (by simpa using hi) hk, aget_replicate, if_pos hi, if_pos rfl]

theorem size_foldl_first {α : Type} (l : List α) (f k : α → Nat) (a0 : Array Nat) :
    (l.foldl (fun a p => amod a (f p) (fun v => if v == 65535 then u16 (k p) else v)) a0).size
      = a0.size :=
  size_foldl_amod l f (fun p v => if v == 65535 then u16 (k p) else v) a0

/-! ## `allSbs` -/

theorem mem_allSbs (W H : Nat) (p : Nat × Nat) : p ∈ allSbs W H ↔ p.1 < W ∧ p.2 < H := by
  obtain ⟨x, y⟩ := p
  simp only [allSbs, List.mem_flatMap, List.mem_range, List.mem_map, Prod.mk.injEq]
  constructor
  · rintro ⟨y', hy, x', hx, rfl, rfl⟩; exact ⟨hx, hy⟩
  · rintro ⟨hx, hy⟩; exact ⟨y, hy, x, hx, rfl, rfl⟩

theorem length_allSbs (W H : Nat) : (allSbs W H).length = W * H := by
  simp [allSbs, List.length_flatMap, Nat.mul_comm]

/-- raster order: `y` major, `x` minor -/
def rasterLt (p q : Nat × Nat) : Prop := p.2 < q.2 ∨ (p.2 = q.2 ∧ p.1 < q.1)

theorem pairwise_allSbs (W H : Nat) : (allSbs W H).Pairwise rasterLt := by
  unfold allSbs
  rw [List.pairwise_flatMap]
  constructor
  · intro y _
    rw [List.pairwise_map]
    exact List.Pairwise.imp (fun h => Or.inr ⟨rfl, h⟩) List.pairwise_lt_range
  · refine List.Pairwise.imp ?_ List.pairwise_lt_range
    intro y1 y2 h p hp q hq
    simp only [List.mem_map] at hp hq
    obtain ⟨_, _, rfl⟩ := hp
    obtain ⟨_, _, rfl⟩ := hq
    exact Or.inl h

theorem nodup_allSbs (W H : Nat) : (allSbs W H).Nodup := by
  refine List.Pairwise.imp ?_ (pairwise_allSbs W H)
  intro p q h e
  subst e
  unfold rasterLt at h
  omega

/-! ## consequences for `initSeg` -/

theorem initSeg_sbRowCount (W H C R MC MR : Nat) : (initSeg W H C R MC MR).sbRowCount = H := rfl

theorem initSeg_sbBandCount (W H C R MC MR : Nat) :
    (initSeg W H C R MC MR).sbBandCount = bandTotalCount H W := rfl

theorem initSeg_segRowCount (W H C R MC MR : Nat) :
    (initSeg W H C R MC MR).segRowCount
      = (if W = 1 then 1
         else if (if R < H then R else H) < MR then (if R < H then R else H) else MR) := rfl

theorem initSeg_segBandCount (W H C R MC MR : Nat) :
    (initSeg W H C R MC MR).segBandCount
      = bandTotalCount (initSeg W H C R MC MR).segRowCount (if C < W then C else W) := rfl

theorem initSeg_segTtlCount (W H C R MC MR : Nat) :
    (initSeg W H C R MC MR).segTtlCount
      = u32 ((initSeg W H C R MC MR).segRowCount * (initSeg W H C R MC MR).segBandCount) := rfl

/-- the segment-index function `init` applies to every SB, in terms of the resulting control block -/
def segOf (g : SegCtl) (p : Nat × Nat) : Nat :=
  sbSeg g.segBandCount g.sbBandCount g.segRowCount g.sbRowCount p

theorem initSeg_validSb_eq (W H C R MC MR : Nat) :
    (initSeg W H C R MC MR).validSb
      = (allSbs W H).foldl (fun a p => amod a (segOf (initSeg W H C R MC MR) p) (fun v => u16 (v + 1)))
          (Array.replicate (initSeg W H C R MC MR).segTtlCount 0) := rfl

theorem initSeg_xStart_eq (W H C R MC MR : Nat) :
    (initSeg W H C R MC MR).xStart
      = (allSbs W H).foldl (fun a p => amod a (segOf (initSeg W H C R MC MR) p)
            (fun v => if v == 65535 then u16 p.1 else v))
          (Array.replicate (initSeg W H C R MC MR).segTtlCount 65535) := rfl

theorem initSeg_yStart_eq (W H C R MC MR : Nat) :
    (initSeg W H C R MC MR).yStart
      = (allSbs W H).foldl (fun a p => amod a (segOf (initSeg W H C R MC MR) p)
            (fun v => if v == 65535 then u16 p.2 else v))
          (Array.replicate (initSeg W H C R MC MR).segTtlCount 65535) := rfl

theorem initSeg_validSb_size (W H C R MC MR : Nat) :
    (initSeg W H C R MC MR).validSb.size = (initSeg W H C R MC MR).segTtlCount := by
  rw [initSeg_validSb_eq, size_foldl_amod]; simp

theorem initSeg_xStart_size (W H C R MC MR : Nat) :
    (initSeg W H C R MC MR).xStart.size = (initSeg W H C R MC MR).segTtlCount := by
  rw [initSeg_xStart_eq, size_foldl_amod]; simp

theorem initSeg_yStart_size (W H C R MC MR : Nat) :
    (initSeg W H C R MC MR).yStart.size = (initSeg W H C R MC MR).segTtlCount := by
  rw [initSeg_yStart_eq, size_foldl_amod]; simp

/-- `valid_sb_count_array[i]` = number of SBs whose segment index is `i` (as `uint16_t`). -/
theorem initSeg_validSb (W H C R MC MR i : Nat) (hi : i < (initSeg W H C R MC MR).segTtlCount) :
    aget (initSeg W H C R MC MR).validSb i
      = u16 ((allSbs W H).countP (fun p => segOf (initSeg W H C R MC MR) p = i)) := by
  rw [initSeg_validSb_eq, aget_foldl_count_u16 _ _ _ _ (by simpa using hi) (by rw [aget_replicate]; split <;> omega)]
  rw [aget_replicate, if_pos hi, Nat.zero_add]

/-- `x_start_array[i]` = x of the first SB (raster order) with segment index `i`, `0xFFFF` if none. -/
theorem initSeg_xStart (W H C R MC MR i : Nat) (hW : W ≤ 65535)
    (hi : i < (initSeg W H C R MC MR).segTtlCount) :
    aget (initSeg W H C R MC MR).xStart i
      = match (allSbs W H).find? (fun p => segOf (initSeg W H C R MC MR) p = i) with
        | some p => p.1 | none => 65535 := by
  rw [initSeg_xStart_eq]
  refine (aget_foldl_first (allSbs W H) _ (fun p => p.1) _ _ hi
    (fun p hp => by have := ((mem_allSbs W H p).1 hp).1; omega)).trans ?_
  have hm : ∀ p, (allSbs W H).find? (fun p => segOf (initSeg W H C R MC MR) p = i) = some p → u16 p.1 = p.1 := by
    intro p hp
    have := ((mem_allSbs W H p).1 (List.mem_of_find?_eq_some hp)).1
    unfold u16; omega
  revert hm
  generalize (allSbs W H).find? (fun p => segOf (initSeg W H C R MC MR) p = i) = o
  intro hm
  cases o with
  | none => rfl
  | some p => exact hm p rfl

/-- `y_start_array[i]` = y of the first SB (raster order) with segment index `i`, `0xFFFF` if none. -/
theorem initSeg_yStart (W H C R MC MR i : Nat) (hH : H ≤ 65535)
    (hi : i < (initSeg W H C R MC MR).segTtlCount) :
    aget (initSeg W H C R MC MR).yStart i
      = match (allSbs W H).find? (fun p => segOf (initSeg W H C R MC MR) p = i) with
        | some p => p.2 | none => 65535 := by
  rw [initSeg_yStart_eq]
  refine (aget_foldl_first (allSbs W H) _ (fun p => p.2) _ _ hi
    (fun p hp => by have := ((mem_allSbs W H p).1 hp).2; omega)).trans ?_
  have hm : ∀ p, (allSbs W H).find? (fun p => segOf (initSeg W H C R MC MR) p = i) = some p → u16 p.2 = p.2 := by
    intro p hp
    have := ((mem_allSbs W H p).1 (List.mem_of_find?_eq_some hp)).2
    unfold u16; omega
  revert hm
  generalize (allSbs W H).find? (fun p => segOf (initSeg W H C R MC MR) p = i) = o
  intro hm
  cases o with
  | none => rfl
  | some p => exact hm p rfl

/-! ## Milestone 2: the dependency fold -/

/-- one fold step that performs up to two conditional increments (mod `m`) -/
def twoInc {α : Type} (m : Nat) (c1 c2 : α → Prop) [DecidablePred c1] [DecidablePred c2]
    (f1 f2 : α → Nat) (a : Array Nat) (e : α) : Array Nat :=
  let a1 := if c1 e then amod a (f1 e) (fun v => (v + 1) % m) else a
  if c2 e then amod a1 (f2 e) (fun v => (v + 1) % m) else a1

theorem size_twoInc {α : Type} (m : Nat) (c1 c2 : α → Prop) [DecidablePred c1] [DecidablePred c2]
    (f1 f2 : α → Nat) (a : Array Nat) (e : α) : (twoInc m c1 c2 f1 f2 a e).size = a.size := by
  unfold twoInc
  by_cases h1 : c1 e <;> by_cases h2 : c2 e <;> simp [h1, h2, size_amod]

theorem size_foldl_twoInc {α : Type} (m : Nat) (c1 c2 : α → Prop) [DecidablePred c1] [DecidablePred c2]
    (f1 f2 : α → Nat) (l : List α) (a0 : Array Nat) :
    (l.foldl (twoInc m c1 c2 f1 f2) a0).size = a0.size := by
  induction l generalizing a0 with
  | nil => rfl
  | cons p l ih => simp only [List.foldl_cons]; rw [ih, size_twoInc]

theorem aget_condInc (m : Nat) (c : Prop) [Decidable c] (a : Array Nat) (j i : Nat)
    (hi : i < a.size) (h0 : aget a i < m) :
    aget (if c then amod a j (fun v => (v + 1) % m) else a) i
      = (aget a i + if c ∧ j = i then 1 else 0) % m := by
  by_cases hc : c
  · by_cases hj : j = i
    · subst hj; simp [hc, aget_amod, hi]
    · simp [hc, hj, aget_amod, Nat.mod_eq_of_lt h0]
  · simp [hc, Nat.mod_eq_of_lt h0]

theorem aget_twoInc {α : Type} (m : Nat) (c1 c2 : α → Prop) [DecidablePred c1] [DecidablePred c2]
    (f1 f2 : α → Nat) (a : Array Nat) (e : α) (i : Nat) (hi : i < a.size) (h0 : aget a i < m) :
    aget (twoInc m c1 c2 f1 f2 a e) i
      = (aget a i + (if c1 e ∧ f1 e = i then 1 else 0) + (if c2 e ∧ f2 e = i then 1 else 0)) % m := by
  have hm : 0 < m := by omega
  unfold twoInc
  simp only []
  rw [aget_condInc m (c2 e) _ (f2 e) i (by split <;> simp [size_amod, hi])
        (by rw [aget_condInc m (c1 e) a (f1 e) i hi h0]; exact Nat.mod_lt _ hm),
      aget_condInc m (c1 e) a (f1 e) i hi h0]
  rw [Nat.add_mod, Nat.mod_mod, ← Nat.add_mod]

/-- Generic dependency-count fold: the slot `i` ends up with the number of elements that fire
    their first increment on `i` plus the number that fire their second increment on `i` (mod `m`). -/
theorem aget_foldl_twoInc {α : Type} (m : Nat) (c1 c2 : α → Prop) [DecidablePred c1] [DecidablePred c2]
    (f1 f2 : α → Nat) (l : List α) (a0 : Array Nat) (i : Nat) (hi : i < a0.size) (h0 : aget a0 i < m) :
    aget (l.foldl (twoInc m c1 c2 f1 f2) a0) i
      = (aget a0 i + l.countP (fun e => c1 e ∧ f1 e = i) + l.countP (fun e => c2 e ∧ f2 e = i)) % m := by
  have hm : 0 < m := by omega
  induction l generalizing a0 with
  | nil => simp [Nat.mod_eq_of_lt h0]
  | cons p l ih =>
    simp only [List.foldl_cons]
    rw [ih _ (by rw [size_twoInc]; exact hi) (by rw [aget_twoInc m c1 c2 f1 f2 a0 p i hi h0]; exact Nat.mod_lt _ hm)]
    rw [aget_twoInc m c1 c2 f1 f2 a0 p i hi h0, List.countP_cons, List.countP_cons]
    simp only [decide_eq_true_eq]
    rw [Nat.add_assoc (_ % m), Nat.mod_add_mod]
    congr 1
    omega

/-- the `(row, segment_index)` pairs visited by the dependency loop (lines 146-151), in order -/
def depPairs (rows : Array SegRow) (r2 : Nat) : List (Nat × Nat) :=
  (List.range r2).flatMap fun r => (rowSegs rows r).map fun s => (r, s)

/-- right-neighbour increment condition (lines 152-155) -/
def depC1 (valid : Array Nat) (rows : Array SegRow) (e : Nat × Nat) : Prop :=
  aget valid e.2 ≠ 0 ∧ e.2 < rowEnd rows e.1
/-- bottom-left increment condition (lines 152, 158-161) -/
def depC2 (valid : Array Nat) (rows : Array SegRow) (segRow B : Nat) (e : Nat × Nat) : Prop :=
  aget valid e.2 ≠ 0 ∧ e.1 < sub32 segRow 1 ∧ u32 (e.2 + B) ≥ rowStart rows (e.1 + 1)

instance (valid rows) : DecidablePred (depC1 valid rows) := fun e => by unfold depC1; infer_instance
instance (valid rows segRow B) : DecidablePred (depC2 valid rows segRow B) :=
  fun e => by unfold depC2; infer_instance

theorem depBody_eq_twoInc (valid : Array Nat) (rows : Array SegRow) (segRow B row : Nat)
    (d : Array Nat) (seg : Nat) :
    depBody valid rows segRow B row d seg
      = twoInc 256 (depC1 valid rows) (depC2 valid rows segRow B)
          (fun e => u32 (e.2 + 1)) (fun e => u32 (e.2 + B)) d (row, seg) := by
  unfold depBody twoInc depC1 depC2 u8
  by_cases hv : aget valid seg ≠ 0
  · simp only [hv, if_true, true_and, not_false_eq_true, ne_eq]
  · simp only [hv, if_false, false_and]

theorem dep_fold_eq_pairs (valid : Array Nat) (rows : Array SegRow) (r2 B : Nat) (a0 : Array Nat) :
    (List.range r2).foldl (fun d r => (rowSegs rows r).foldl (depBody valid rows r2 B r) d) a0
      = (depPairs rows r2).foldl
          (twoInc 256 (depC1 valid rows) (depC2 valid rows r2 B)
            (fun e => u32 (e.2 + 1)) (fun e => u32 (e.2 + B))) a0 := by
  unfold depPairs
  rw [List.foldl_flatMap]
  congr 1
  funext d r
  rw [List.foldl_map]
  congr 1
  funext d s
  exact depBody_eq_twoInc valid rows r2 B r d s

theorem initSeg_dep_eq (W H C R MC MR : Nat) :
    (initSeg W H C R MC MR).dep
      = (List.range (initSeg W H C R MC MR).segRowCount).foldl
          (fun d r => (rowSegs (initSeg W H C R MC MR).rows r).foldl
            (depBody (initSeg W H C R MC MR).validSb (initSeg W H C R MC MR).rows
              (initSeg W H C R MC MR).segRowCount (initSeg W H C R MC MR).segBandCount r) d)
          (Array.replicate (initSeg W H C R MC MR).segTtlCount 0) := rfl

theorem initSeg_dep_size (W H C R MC MR : Nat) :
    (initSeg W H C R MC MR).dep.size = (initSeg W H C R MC MR).segTtlCount := by
  rw [initSeg_dep_eq, dep_fold_eq_pairs, size_foldl_twoInc]; simp

/-- Milestone 2: `dependency_map[t]` = (number of visited `(row, s)` with a right edge `s+1 = t`)
    + (number with a bottom-left edge `s+B = t`), as `uint8_t`. -/
theorem initSeg_dep (W H C R MC MR t : Nat) (ht : t < (initSeg W H C R MC MR).segTtlCount) :
    let g := initSeg W H C R MC MR
    aget g.dep t
      = u8 ((depPairs g.rows g.segRowCount).countP
              (fun e => depC1 g.validSb g.rows e ∧ u32 (e.2 + 1) = t)
          + (depPairs g.rows g.segRowCount).countP
              (fun e => depC2 g.validSb g.rows g.segRowCount g.segBandCount e
                ∧ u32 (e.2 + g.segBandCount) = t)) := by
  intro g
  show aget (initSeg W H C R MC MR).dep t = _
  rw [initSeg_dep_eq, dep_fold_eq_pairs,
    aget_foldl_twoInc 256 _ _ _ _ _ _ t (by simpa using ht) (by rw [aget_replicate]; split <;> omega)]
  rw [aget_replicate, if_pos ht, Nat.zero_add]
  rfl

/-! ## Milestone 3: the SB loop -/

/-- the SBs `(x, y), (x+1, y), …` (`n` of them) of one SB row -/
def rowIv (x n y : Nat) : List (Nat × Nat) := (List.range' x n).map fun x => (x, y)

theorem rowIv_succ (x n y : Nat) : rowIv x (n + 1) y = (x, y) :: rowIv (x + 1) n y := by
  simp [rowIv, List.range'_succ]

theorem length_rowIv (x n y : Nat) : (rowIv x n y).length = n := by simp [rowIv]

theorem mem_rowIv (x n y : Nat) (p : Nat × Nat) : p ∈ rowIv x n y ↔ p.2 = y ∧ x ≤ p.1 ∧ p.1 < x + n := by
  obtain ⟨a, b⟩ := p
  simp only [rowIv, List.mem_map, List.mem_range'_1, Prod.mk.injEq]
  constructor
  · rintro ⟨x', hx, rfl, rfl⟩; exact ⟨rfl, hx⟩
  · rintro ⟨rfl, hx⟩; exact ⟨a, hx, rfl, rfl⟩

/-- The inner loop emits the maximal run `x, x+1, …` allowed by the three bounds. -/
theorem sbInner_spec (W bs iEnd y : Nat) (hy : W + y < 4294967296) (hE : iEnd < 4294967296) :
    ∀ (fuel x i : Nat) (acc : List (Nat × Nat)), W - x ≤ fuel →
      sbInner W bs iEnd y fuel x i acc
        = ((rowIv x (min (min W (bs - y) - x) (iEnd - i)) y).reverse ++ acc,
           i + min (min W (bs - y) - x) (iEnd - i)) := by
  intro fuel
  induction fuel with
  | zero =>
    intro x i acc hf
    have : min (min W (bs - y) - x) (iEnd - i) = 0 := by omega
    simp [sbInner, this, rowIv]
  | succ fuel ih =>
    intro x i acc hf
    unfold sbInner
    by_cases hc : x < W ∧ u32 (x + y) < bs ∧ i < iEnd
    · rw [if_pos hc]
      obtain ⟨h1, h2, h3⟩ := hc
      have e1 : u32 (x + y) = x + y := by unfold u32; omega
      rw [e1] at h2
      have e2 : u32 (x + 1) = x + 1 := by unfold u32; omega
      have e3 : u32 (i + 1) = i + 1 := by unfold u32; omega
      rw [e2, e3, ih (x + 1) (i + 1) _ (by omega)]
      have e4 : min (min W (bs - y) - x) (iEnd - i)
          = min (min W (bs - y) - (x + 1)) (iEnd - (i + 1)) + 1 := by omega
      rw [e4, rowIv_succ]
      simp only [List.reverse_cons, List.append_assoc, List.singleton_append, Prod.mk.injEq, true_and]
      omega
    · rw [if_neg hc]
      have : min (min W (bs - y) - x) (iEnd - i) = 0 := by
        by_cases h1 : x < W
        · by_cases h3 : i < iEnd
          · have e1 : u32 (x + y) = x + y := by unfold u32; omega
            rw [e1] at hc
            omega
          · omega
        · omega
      simp [this, rowIv]

/-- the SBs of rows `y, …, y+n-1`, where row `y` holds `x ∈ [lo - y, min W (hi - y))` -/
def rowsL (W lo hi : Nat) : Nat → Nat → List (Nat × Nat)
  | _, 0 => []
  | y, n + 1 => rowIv (lo - y) (min W (hi - y) - (lo - y)) y ++ rowsL W lo hi (y + 1) n

theorem mem_rowsL (W lo hi : Nat) (n y : Nat) (p : Nat × Nat) :
    p ∈ rowsL W lo hi y n ↔ y ≤ p.2 ∧ p.2 < y + n ∧ lo ≤ p.1 + p.2 ∧ p.1 < W ∧ p.1 + p.2 < hi := by
  induction n generalizing y with
  | zero => simp only [rowsL, List.not_mem_nil, false_iff]; omega
  | succ n ih =>
    simp only [rowsL, List.mem_append, ih, mem_rowIv]
    omega

theorem pairwise_rowIv (x n y : Nat) : (rowIv x n y).Pairwise rasterLt := by
  unfold rowIv
  rw [List.pairwise_map]
  exact List.Pairwise.imp (fun h => Or.inr ⟨rfl, h⟩) (List.pairwise_lt_range')

theorem pairwise_rowsL (W lo hi : Nat) (n y : Nat) : (rowsL W lo hi y n).Pairwise rasterLt := by
  induction n generalizing y with
  | zero => simp [rowsL]
  | succ n ih =>
    simp only [rowsL, List.pairwise_append]
    refine ⟨pairwise_rowIv _ _ _, ih _, ?_⟩
    intro p hp q hq
    rw [mem_rowIv] at hp
    rw [mem_rowsL] at hq
    left; omega

/-- The outer loop, started on row `y` with `x_start = lo - y` and exactly the SBs of rows
    `[y, ye)` left to emit, emits exactly those (in raster order) and terminates normally. -/
theorem sbOuter_spec (W lo hi iEnd ye : Nat) (hy : W + ye < 4294967296) (hE : iEnd < 4294967296) :
    ∀ (fuel y xs i : Nat) (acc : List (Nat × Nat)), y ≤ ye → ye - y + 1 ≤ fuel → xs = lo - y →
      i + (rowsL W lo hi y (ye - y)).length = iEnd →
      sbOuter W hi iEnd fuel y xs i acc = ((rowsL W lo hi y (ye - y)).reverse ++ acc, false) := by
  intro fuel
  induction fuel with
  | zero => intro y xs i acc _ hf; omega
  | succ fuel ih =>
    intro y xs i acc hye hf hxs hlen
    subst hxs
    unfold sbOuter
    by_cases hlt : i < iEnd
    · rw [if_pos hlt]
      have hpos : 0 < ye - y := by
        rcases Nat.eq_zero_or_pos (ye - y) with h | h
        · rw [h] at hlen; simp [rowsL] at hlen; omega
        · exact h
      obtain ⟨k, hk⟩ : ∃ k, ye - y = k + 1 := ⟨ye - y - 1, by omega⟩
      have hk' : ye - (y + 1) = k := by omega
      rw [hk] at hlen ⊢
      simp only [rowsL, List.length_append, length_rowIv] at hlen
      rw [sbInner_spec W hi iEnd y (by omega) hE W _ i acc (by omega)]
      have en : min (min W (hi - y) - (lo - y)) (iEnd - i) = min W (hi - y) - (lo - y) := by
        omega
      simp only [en]
      have hf0 : fuel ≠ 0 := by omega
      rw [if_neg hf0]
      have ey : u32 (y + 1) = y + 1 := by unfold u32; omega
      rw [ey, ih (y + 1) _ _ _ (by omega) (by omega) (by split <;> omega)
        (by rw [hk']; omega)]
      rw [hk']
      simp only [rowsL, List.reverse_append, List.append_assoc]
    · rw [if_neg hlt]
      have : (rowsL W lo hi y (ye - y)).length = 0 := by omega
      rw [List.length_eq_zero_iff.1 this]
      rfl

/-! ### ceiling division and the geometry of one segment -/

/-- `ceil (a / d)` -/
def cdiv (a d : Nat) : Nat := (a + d - 1) / d

theorem cdiv_le_iff {d : Nat} (hd : 0 < d) (a n : Nat) : cdiv a d ≤ n ↔ a ≤ n * d := by
  unfold cdiv
  rw [← Nat.lt_succ_iff, Nat.div_lt_iff_lt_mul hd, Nat.succ_mul]
  omega

theorem lt_cdiv_iff {d : Nat} (hd : 0 < d) (a n : Nat) : n < cdiv a d ↔ n * d < a := by
  have := cdiv_le_iff hd a n
  omega

theorem mulDiv_eq_iff {d t : Nat} (hd : 0 < d) (ht : 0 < t) (n q : Nat) :
    n * d / t = q ↔ cdiv (q * t) d ≤ n ∧ n < cdiv ((q + 1) * t) d := by
  rw [cdiv_le_iff hd, lt_cdiv_iff hd]
  have h1 := Nat.le_div_iff_mul_le ht (x := q) (y := n * d)
  have h2 := Nat.div_lt_iff_lt_mul ht (x := n * d) (y := q + 1)
  omega

/-- Closed form of `SEGMENT_INDEX(ROW_INDEX(y), BAND_INDEX(x, y))` for an SB inside the picture,
    with the no-wrap bounds made explicit. -/
theorem sbSeg_closed {B T r2 H x y : Nat} (hH : 0 < H) (hT : 0 < T) (hr20 : 0 < r2) (hB0 : 0 < B)
    (hy : y < H) (hxy : x + y < T) (hr2 : r2 ≤ 4096) (hH' : H ≤ 4096) (hT' : T ≤ 8192) (hB : B ≤ 8192)
    (httl : r2 * B < 65536) :
    sbSeg B T r2 H (x, y) = (y * r2 / H) * B + (x + y) * B / T
      ∧ y * r2 / H < r2 ∧ (x + y) * B / T < B := by
  have e1 : y * r2 ≤ 4096 * 4096 := Nat.mul_le_mul (by omega) hr2
  have e2 : (x + y) * B ≤ 8192 * 8192 := Nat.mul_le_mul (by omega) hB
  have hrow : y * r2 / H < r2 := by
    rw [Nat.div_lt_iff_lt_mul hH]
    rw [Nat.mul_comm r2 H]
    exact Nat.mul_lt_mul_of_lt_of_le hy (Nat.le_refl _) (by omega)
  have hband : (x + y) * B / T < B := by
    rw [Nat.div_lt_iff_lt_mul hT, Nat.mul_comm B T]
    exact Nat.mul_lt_mul_of_lt_of_le hxy (Nat.le_refl _) hB0
  have e3 : (y * r2 / H) * B + B ≤ r2 * B := by
    have : (y * r2 / H + 1) * B ≤ r2 * B := Nat.mul_le_mul_right _ hrow
    rw [Nat.add_mul, Nat.one_mul] at this
    exact this
  refine ⟨?_, hrow, hband⟩
  unfold sbSeg segmentIndex rowIndex bandIndex
  simp only []
  rw [u32_of_lt (n := y * r2) (by omega), u32_of_lt (n := x + y) (by omega),
    u32_of_lt (n := (x + y) * B) (by omega), u32_of_lt (n := y * r2 / H * B) (by omega),
    u32_of_lt (by omega)]

theorem segIndex_eq_iff {B row band s : Nat} (hband : band < B) :
    row * B + band = s ↔ row = s / B ∧ band = s % B := by
  have hB : 0 < B := by omega
  have := Nat.div_mod_unique (b := B) (a := s) (d := row) (c := band) hB
  rw [Nat.mul_comm B row, Nat.add_comm band] at this
  constructor
  · intro h; have := this.2 ⟨h, hband⟩; omega
  · rintro ⟨h1, h2⟩; exact (this.1 ⟨h1.symm, h2.symm⟩).1

/-- **Geometry of a segment.**  SB `(x, y)` of the picture belongs to segment `s = r*B + b` iff
    `y` is in the SB-row interval of segment row `r` and `x + y` is in the diagonal interval of band `b`. -/
theorem sbSeg_eq_iff {B T r2 H x y s : Nat} (hH : 0 < H) (hT : 0 < T) (hr20 : 0 < r2) (hB0 : 0 < B)
    (hy : y < H) (hxy : x + y < T) (hr2 : r2 ≤ 4096) (hH' : H ≤ 4096) (hT' : T ≤ 8192) (hB : B ≤ 8192)
    (httl : r2 * B < 65536) :
    sbSeg B T r2 H (x, y) = s ↔
      cdiv (s / B * H) r2 ≤ y ∧ y < cdiv ((s / B + 1) * H) r2 ∧
      cdiv (s % B * T) B ≤ x + y ∧ x + y < cdiv ((s % B + 1) * T) B := by
  obtain ⟨e, hrow, hband⟩ := sbSeg_closed (B := B) (x := x) hH hT hr20 hB0 hy hxy hr2 hH' hT' hB httl
  rw [e, segIndex_eq_iff hband]
  have h1 := mulDiv_eq_iff hr20 hH y (s / B)
  have h2 := mulDiv_eq_iff hB0 hT (x + y) (s % B)
  constructor
  · rintro ⟨a, b⟩; exact ⟨(h1.1 a).1, (h1.1 a).2, (h2.1 b).1, (h2.1 b).2⟩
  · rintro ⟨a, b, c, d⟩; exact ⟨h1.2 ⟨a, b⟩, h2.2 ⟨c, d⟩⟩

theorem sub32_of_le {a b : Nat} (hb : b ≤ a) (ha : a < 4294967296) : sub32 a b = a - b := by
  unfold sub32 u32; omega

theorem segSbs_def (g : SegCtl) (W seg : Nat) :
    segSbs g W seg =
      let xs := aget g.xStart seg
      let ys := aget g.yStart seg
      let sbStart := u32 (u32 (ys * W) + xs)
      let cnt := aget g.validSb seg
      let rowIdx := seg / g.segBandCount
      let bandIdx := sub32 seg (u32 (rowIdx * g.segBandCount))
      let bandSize := u32 (u32 (u32 (g.sbBandCount * u32 (bandIdx + 1)) + g.segBandCount) + 4294967295) / g.segBandCount
      let res := sbOuter W bandSize (u32 (sbStart + cnt)) (g.sbRowCount + 2) ys xs sbStart []
      (res.1.reverse, res.2) := by
  unfold segSbs
  rfl

/-- `segment_band_size` (line 4413) is `ceil (T * (b+1) / B)` with `b = seg % B`. -/
theorem bandSize_eq {B T s : Nat} (hB0 : 0 < B) (hB : B ≤ 8192) (hT : T ≤ 8192) (hs : s < 65536) :
    u32 (u32 (u32 (T * u32 (sub32 s (u32 (s / B * B)) + 1)) + B) + 4294967295) / B
      = cdiv ((s % B + 1) * T) B := by
  have h1 : s / B * B ≤ s := Nat.div_mul_le_self s B
  have h2 : s % B = s - s / B * B := by
    have := Nat.div_add_mod' s B; omega
  have h3 : s % B < B := Nat.mod_lt _ hB0
  rw [u32_of_lt (n := s / B * B) (by omega), sub32_of_le h1 (by omega), ← h2,
    u32_of_lt (n := s % B + 1) (by omega)]
  have h4 : T * (s % B + 1) ≤ 8192 * 8192 := Nat.mul_le_mul hT (by omega)
  rw [u32_of_lt (n := T * (s % B + 1)) (by omega), u32_of_lt (n := T * (s % B + 1) + B) (by omega)]
  have h5 : u32 (T * (s % B + 1) + B + 4294967295) = T * (s % B + 1) + B - 1 := by
    unfold u32; omega
  rw [h5, Nat.mul_comm T]
  rfl

instance : Std.Irrefl rasterLt := ⟨fun p h => by unfold rasterLt at h; omega⟩
instance : Std.Antisymm rasterLt := ⟨fun p q h1 h2 => by unfold rasterLt at h1 h2; omega⟩

theorem head_le_of_pairwise {p0 p : Nat × Nat} {l : List (Nat × Nat)}
    (h : (p0 :: l).Pairwise rasterLt) (hp : p ∈ p0 :: l) : p = p0 ∨ rasterLt p0 p := by
  rw [List.pairwise_cons] at h
  rcases List.mem_cons.1 hp with e | e
  · exact Or.inl e
  · exact Or.inr (h.1 p e)

/-- **The segment SB loop emits exactly the SBs of the segment** (abstract over the tables):
    if `xs, ys` are the coordinates of the first SB (raster order) of segment `s` and `cnt` is the
    number of its SBs, the loop started there emits the segment's SBs in raster order and stops. -/
theorem sbOuter_segment (W H B T r2 s xs ys cnt : Nat) (F : List (Nat × Nat))
    (hW1 : 1 ≤ W) (hW : W ≤ 4096) (hH1 : 1 ≤ H) (hH : H ≤ 4096) (hT : T = H + W - 1)
    (hB0 : 0 < B) (hB : B ≤ 8192) (hr20 : 0 < r2) (hr2 : r2 ≤ H)
    (httl : r2 * B < 65536) (hs : s < r2 * B) (hWH : W * H < 65536)
    (hF : F = (allSbs W H).filter (fun p => sbSeg B T r2 H p = s))
    (hx : xs = match F.head? with | some p => p.1 | none => 65535)
    (hy : ys = match F.head? with | some p => p.2 | none => 65535)
    (hc : cnt = F.length) :
    sbOuter W (cdiv ((s % B + 1) * T) B) (u32 (u32 (u32 (ys * W) + xs) + cnt)) (H + 2) ys xs
        (u32 (u32 (ys * W) + xs)) [] = (F.reverse, false) := by
  have hT0 : 0 < T := by omega
  have hmem : ∀ p : Nat × Nat, p ∈ F ↔ p.1 < W ∧ p.2 < H ∧
      cdiv (s / B * H) r2 ≤ p.2 ∧ p.2 < cdiv ((s / B + 1) * H) r2 ∧
      cdiv (s % B * T) B ≤ p.1 + p.2 ∧ p.1 + p.2 < cdiv ((s % B + 1) * T) B := by
    intro p
    obtain ⟨x, y⟩ := p
    rw [hF, List.mem_filter, mem_allSbs]
    simp only [decide_eq_true_eq]
    constructor
    · rintro ⟨⟨h1, h2⟩, h⟩
      exact ⟨h1, h2, (sbSeg_eq_iff (by omega) hT0 hr20 hB0 h2 (by omega) (by omega) hH (by omega) hB httl).1 h⟩
    · rintro ⟨h1, h2, h⟩
      exact ⟨⟨h1, h2⟩, (sbSeg_eq_iff (by omega) hT0 hr20 hB0 h2 (by omega) (by omega) hH (by omega) hB httl).2 h⟩
  have hpw : F.Pairwise rasterLt := by rw [hF]; exact (pairwise_allSbs W H).filter _
  have hr : s / B < r2 := by rw [Nat.div_lt_iff_lt_mul hB0]; exact hs
  have hyB : cdiv ((s / B + 1) * H) r2 ≤ H := by
    rw [cdiv_le_iff hr20, Nat.mul_comm H r2]
    exact Nat.mul_le_mul_right _ hr
  have hlenF : F.length ≤ W * H := by
    rw [hF, ← length_allSbs]; exact List.length_filter_le _ _
  cases hFc : F with
  | nil =>
    rw [hFc] at hx hy hc
    simp only [List.head?_nil, List.length_nil] at hx hy hc
    subst hx hy hc
    have : u32 (u32 (u32 (65535 * W) + 65535) + 0) = u32 (u32 (65535 * W) + 65535) := by
      unfold u32; omega
    rw [this]
    unfold sbOuter
    simp
  | cons p0 rest =>
    obtain ⟨x0, y0⟩ := p0
    rw [hFc] at hx hy
    simp only [List.head?_cons] at hx hy
    subst hx hy
    rw [← hFc]
    have hp0 := (hmem (xs, ys)).1 (by rw [hFc]; exact List.mem_cons_self)
    simp only at hp0
    obtain ⟨b1, b2, b3, b4, b5, b6⟩ := hp0
    have hhead : ∀ p ∈ F, ys ≤ p.2 ∧ (p.2 = ys → xs ≤ p.1) := by
      intro p hp
      rw [hFc] at hp hpw
      rcases head_le_of_pairwise hpw hp with e | e
      · subst e; simp
      · unfold rasterLt at e; simp only at e; omega
    have hx0 : xs = cdiv (s % B * T) B - ys := by
      have hin : (cdiv (s % B * T) B - ys, ys) ∈ F := by
        rw [hmem]; simp only; omega
      have := (hhead _ hin).2 rfl
      simp only at this
      omega
    have hEq : F = rowsL W (cdiv (s % B * T) B) (cdiv ((s % B + 1) * T) B) ys
        (cdiv ((s / B + 1) * H) r2 - ys) := by
      refine hpw.eq_of_mem_iff (pairwise_rowsL _ _ _ _ _) (fun p => ?_)
      rw [mem_rowsL]
      constructor
      · intro hp
        have h1 := (hhead p hp).1
        rw [hmem] at hp
        omega
      · intro hp
        rw [hmem]
        omega
    have e1 : ys * W ≤ 4096 * 4096 := Nat.mul_le_mul (by omega) hW
    rw [u32_of_lt (n := ys * W) (by omega), u32_of_lt (n := ys * W + xs) (by omega),
      u32_of_lt (n := ys * W + xs + cnt) (by omega)]
    rw [sbOuter_spec W (cdiv (s % B * T) B) (cdiv ((s % B + 1) * T) B) (ys * W + xs + cnt)
      (cdiv ((s / B + 1) * H) r2) (by omega) (by omega) (H + 2) ys xs (ys * W + xs) []
      (by omega) (by omega) hx0 (by rw [← hEq]; omega)]
    rw [← hEq, List.append_nil]

/-- Assembling `segSbs` from its tables: the loop output for segment `s` is the raster-ordered list
    of SBs whose segment index is `s`, provided the three table entries are what `init` is meant to store. -/
theorem segSbs_of_tables (g : SegCtl) (W s : Nat)
    (hW1 : 1 ≤ W) (hW : W ≤ 4096) (hH1 : 1 ≤ g.sbRowCount) (hH : g.sbRowCount ≤ 4096)
    (hT : g.sbBandCount = g.sbRowCount + W - 1)
    (hB0 : 0 < g.segBandCount) (hB : g.segBandCount ≤ 8192)
    (hr20 : 0 < g.segRowCount) (hr2 : g.segRowCount ≤ g.sbRowCount)
    (httl : g.segRowCount * g.segBandCount < 65536) (hs : s < g.segRowCount * g.segBandCount)
    (hWH : W * g.sbRowCount < 65536)
    (hx : aget g.xStart s = match ((allSbs W g.sbRowCount).filter (fun p => segOf g p = s)).head? with
        | some p => p.1 | none => 65535)
    (hy : aget g.yStart s = match ((allSbs W g.sbRowCount).filter (fun p => segOf g p = s)).head? with
        | some p => p.2 | none => 65535)
    (hc : aget g.validSb s = ((allSbs W g.sbRowCount).filter (fun p => segOf g p = s)).length) :
    segSbs g W s = ((allSbs W g.sbRowCount).filter (fun p => segOf g p = s), false) := by
  rw [segSbs_def]
  simp only []
  rw [bandSize_eq hB0 hB (by omega) (by omega)]
  rw [sbOuter_segment W g.sbRowCount g.segBandCount g.sbBandCount g.segRowCount s _ _ _
    ((allSbs W g.sbRowCount).filter (fun p => segOf g p = s))
    hW1 hW hH1 hH hT hB0 hB hr20 hr2 httl hs hWH rfl hx hy hc]
  simp

theorem perm_flatMap_filter_lt {α : Type} (l : List α) (f : α → Nat) (n : Nat) :
    ((List.range n).flatMap fun s => l.filter (fun p => f p = s)).Perm (l.filter (fun p => f p < n)) := by
  induction n with
  | zero => simp
  | succ n ih =>
    rw [List.range_succ, List.flatMap_append]
    simp only [List.flatMap_cons, List.flatMap_nil, List.append_nil]
    have h := List.filter_append_perm (fun p => decide (f p < n)) (l.filter (fun p => f p < n + 1))
    rw [List.filter_filter, List.filter_filter] at h
    have e1 : l.filter (fun a => decide (f a < n) && decide (f a < n + 1)) = l.filter (fun p => f p < n) := by
      apply List.filter_congr; intro p _
      by_cases h1 : f p < n <;> simp [h1]
      omega
    have e2 : l.filter (fun a => (!decide (f a < n)) && decide (f a < n + 1)) = l.filter (fun p => f p = n) := by
      apply List.filter_congr; intro p _
      by_cases h1 : f p < n <;> by_cases h2 : f p = n <;> simp [h1, h2]
      all_goals omega
    rw [e1, e2] at h
    exact (List.Perm.append_right _ ih).trans h

/-- Grouping a list by a key with values `< n` and concatenating the groups is a permutation. -/
theorem perm_flatMap_filter {α : Type} (l : List α) (f : α → Nat) (n : Nat) (h : ∀ p ∈ l, f p < n) :
    ((List.range n).flatMap fun s => l.filter (fun p => f p = s)).Perm l := by
  have := perm_flatMap_filter_lt l f n
  rwa [List.filter_eq_self.2 (by intro p hp; simpa using h p hp)] at this

section
variable {W H C R MC MR : Nat}

/-- the scalar facts about `initSeg` needed by the cover theorem -/
theorem initSeg_scalars (hW1 : 1 ≤ W) (hW : W ≤ 4096) (hH1 : 1 ≤ H) (hH : H ≤ 4096)
    (hC : 1 ≤ C) (hR : 1 ≤ R) (hMR : 1 ≤ MR) :
    let g := initSeg W H C R MC MR
    g.sbRowCount = H ∧ g.sbBandCount = H + W - 1 ∧ 0 < g.segRowCount ∧ g.segRowCount ≤ H ∧
      0 < g.segBandCount ∧ g.segBandCount ≤ 8192 := by
  intro g
  have h1 : g.segRowCount = effR W H R MR := initSeg_segRowCount_min W H C R MC MR
  have h2 : g.segBandCount = segB (effR W H R MR) (min C W) :=
    initSeg_segBandCount_closed hW1 hW hH hC MC
  have h3 : g.sbBandCount = sbT W H := initSeg_sbBandCount_closed hW1 hW hH MC
  have hE1 := effR_pos (W := W) hH1 hR hMR
  have hE2 := effR_le_H (W := W) (R := R) (MR := MR) hH1
  refine ⟨rfl, ?_, ?_, ?_, ?_, ?_⟩
  · rw [h3]; unfold sbT; rfl
  · omega
  · omega
  · rw [h2]; unfold segB; omega
  · rw [h2]; unfold segB; omega

/-- **C24 seg_cover, per segment.**  For the tables built by `enc_dec_segments_init`, the SB loop of
    `mode_decision_kernel` run on segment `s` visits exactly the SBs whose segment index is `s`,
    in raster order, and terminates (no runaway `y`). -/
theorem segSbs_initSeg (hW1 : 1 ≤ W) (hW : W ≤ 4096) (hH1 : 1 ≤ H) (hH : H ≤ 4096)
    (hC : 1 ≤ C) (hR : 1 ≤ R) (hMR : 1 ≤ MR)
    (hN : (initSeg W H C R MC MR).segRowCount * (initSeg W H C R MC MR).segBandCount < 65536)
    (hWH : W * H < 65536) {s : Nat} (hs : s < (initSeg W H C R MC MR).segTtlCount) :
    segSbs (initSeg W H C R MC MR) W s
      = ((allSbs W H).filter (fun p => segOf (initSeg W H C R MC MR) p = s), false) := by
  obtain ⟨g1, g2, g3, g4, g5, g6⟩ := initSeg_scalars (MC := MC) hW1 hW hH1 hH hC hR hMR
  have httl : (initSeg W H C R MC MR).segTtlCount
      = (initSeg W H C R MC MR).segRowCount * (initSeg W H C R MC MR).segBandCount := by
    rw [initSeg_segTtlCount, u32_of_lt (by omega)]
  have hlen : ((allSbs W H).filter (fun p => segOf (initSeg W H C R MC MR) p = s)).length ≤ W * H := by
    rw [← length_allSbs]; exact List.length_filter_le _ _
  have := segSbs_of_tables (initSeg W H C R MC MR) W s hW1 hW (by rw [g1]; exact hH1) (by rw [g1]; exact hH)
    (by rw [g1]; exact g2) g5 g6 g3 (by rw [g1]; exact g4) hN (by rw [← httl]; exact hs)
    (by rw [g1]; exact hWH)
    (by rw [g1, List.head?_filter]; exact initSeg_xStart W H C R MC MR s (by omega) hs)
    (by rw [g1, List.head?_filter]; exact initSeg_yStart W H C R MC MR s (by omega) hs)
    (by rw [g1, initSeg_validSb W H C R MC MR s hs, List.countP_eq_length_filter]
        exact u16_of_lt (by omega))
  rw [g1] at this
  exact this

/-- every SB's segment index is `< segment_ttl_count` -/
theorem segOf_initSeg_lt (hW1 : 1 ≤ W) (hW : W ≤ 4096) (hH1 : 1 ≤ H) (hH : H ≤ 4096)
    (hC : 1 ≤ C) (hR : 1 ≤ R) (hMR : 1 ≤ MR)
    (hN : (initSeg W H C R MC MR).segRowCount * (initSeg W H C R MC MR).segBandCount < 65536)
    {p : Nat × Nat} (hp : p ∈ allSbs W H) :
    segOf (initSeg W H C R MC MR) p < (initSeg W H C R MC MR).segTtlCount := by
  obtain ⟨g1, g2, g3, g4, g5, g6⟩ := initSeg_scalars (MC := MC) hW1 hW hH1 hH hC hR hMR
  have httl : (initSeg W H C R MC MR).segTtlCount
      = (initSeg W H C R MC MR).segRowCount * (initSeg W H C R MC MR).segBandCount := by
    rw [initSeg_segTtlCount, u32_of_lt (by omega)]
  obtain ⟨x, y⟩ := p
  rw [mem_allSbs] at hp
  simp only at hp
  unfold segOf
  rw [g1]
  obtain ⟨e, hrow, hband⟩ := sbSeg_closed (B := (initSeg W H C R MC MR).segBandCount)
    (T := (initSeg W H C R MC MR).sbBandCount) (r2 := (initSeg W H C R MC MR).segRowCount)
    (H := H) (x := x) (y := y) (by omega) (by omega) g3 g5 hp.2 (by omega) (by omega) hH (by omega) g6 hN
  rw [e, httl]
  exact row_band_lt hrow hband

/-- **C24 seg_cover.**  Running the SB loop over all segments visits every SB of the picture exactly once. -/
theorem seg_cover (hW1 : 1 ≤ W) (hW : W ≤ 4096) (hH1 : 1 ≤ H) (hH : H ≤ 4096)
    (hC : 1 ≤ C) (hR : 1 ≤ R) (hMR : 1 ≤ MR)
    (hN : (initSeg W H C R MC MR).segRowCount * (initSeg W H C R MC MR).segBandCount < 65536)
    (hWH : W * H < 65536) :
    ((List.range (initSeg W H C R MC MR).segTtlCount).flatMap
        fun s => (segSbs (initSeg W H C R MC MR) W s).1).Perm (allSbs W H) := by
  have e : (List.range (initSeg W H C R MC MR).segTtlCount).flatMap
        (fun s => (segSbs (initSeg W H C R MC MR) W s).1)
      = (List.range (initSeg W H C R MC MR).segTtlCount).flatMap
        (fun s => (allSbs W H).filter (fun p => segOf (initSeg W H C R MC MR) p = s)) := by
    apply List.flatMap_congr
    intro s hs
    rw [segSbs_initSeg hW1 hW hH1 hH hC hR hMR hN hWH (List.mem_range.1 hs)]
  rw [e]
  exact perm_flatMap_filter _ _ _ (fun p hp => segOf_initSeg_lt hW1 hW hH1 hH hC hR hMR hN hp)

/-- no segment's loop runs away -/
theorem seg_no_runaway (hW1 : 1 ≤ W) (hW : W ≤ 4096) (hH1 : 1 ≤ H) (hH : H ≤ 4096)
    (hC : 1 ≤ C) (hR : 1 ≤ R) (hMR : 1 ≤ MR)
    (hN : (initSeg W H C R MC MR).segRowCount * (initSeg W H C R MC MR).segBandCount < 65536)
    (hWH : W * H < 65536) {s : Nat} (hs : s < (initSeg W H C R MC MR).segTtlCount) :
    (segSbs (initSeg W H C R MC MR) W s).2 = false := by
  rw [segSbs_initSeg hW1 hW hH1 hH hC hR hMR hN hWH hs]

end

end Seg
