/-
  C07a / K3 — `svt_picture_average_kernel_sse2_intrin` = `svt_picture_average_kernel_c`:
  row specification, C side, 16/8/4-byte chunks, the column loop with its `& 8` / `& 4` tails, the row loops.
-/
import SvtVerif.Lemmas.SimdAResid

namespace Simd

/-! ### specification -/

/-- the `n` averages of one row (with the C expression `avgC`) -/
def rowAvg (s0 : Mem 8) (a0 : Nat) (s1 : Mem 8) (a1 n : Nat) : List (BitVec 8) :=
  (List.range n).map fun i => avgC (s0 (a0 + i)) (s1 (a1 + i))

/-- `n` rows of width `w`, stored top to bottom -/
def avgRows (s0 : Mem 8) (st0 : Nat) (s1 : Mem 8) (st1 ds w : Nat) : Nat → Nat → Nat → Nat → Mem 8 → Mem 8
  | 0, _, _, _, dst => dst
  | n + 1, a0, a1, da, dst =>
    avgRows s0 st0 s1 st1 ds w n (a0 + st0) (a1 + st1) (da + ds) (storeL dst da (rowAvg s0 a0 s1 a1 w))

theorem rowAvg_length (s0 : Mem 8) (a0 : Nat) (s1 : Mem 8) (a1 n : Nat) : (rowAvg s0 a0 s1 a1 n).length = n := by
  simp [rowAvg]

theorem rowAvg_add (s0 : Mem 8) (a0 : Nat) (s1 : Mem 8) (a1 n k : Nat) :
    rowAvg s0 a0 s1 a1 (n + k) = rowAvg s0 a0 s1 a1 n ++ rowAvg s0 (a0 + n) s1 (a1 + n) k := by
  simp [rowAvg, List.range_add, Nat.add_assoc]

/-! ### C side -/

theorem avg_c_cols_eq (s0 : Mem 8) (a0 : Nat) (s1 : Mem 8) (a1 da w : Nat) :
    ∀ (fuel x : Nat) (dst : Mem 8), w - x ≤ fuel →
      avg_c_cols s0 a0 s1 a1 da w fuel x dst = storeL dst (da + x) (rowAvg s0 (a0 + x) s1 (a1 + x) (w - x)) := by
  intro fuel
  induction fuel with
  | zero =>
    intro x dst h
    have : w - x = 0 := by omega
    simp [avg_c_cols, this, rowAvg, storeL_nil]
  | succ f ih =>
    intro x dst h
    unfold avg_c_cols
    by_cases hc : x < w
    · simp only [hc, if_true]
      rw [ih (x + 1) _ (by omega), store1_eq_storeL]
      have e : w - x = 1 + (w - (x + 1)) := by omega
      have e0 : da + (x + 1) = da + x + [avgC (s0 (a0 + x)) (s1 (a1 + x))].length := by simp; omega
      rw [e, rowAvg_add, storeL_append' _ _ _ _ _ e0]
      have e1 : a0 + x + 1 = a0 + (x + 1) := by omega
      have e2 : a1 + x + 1 = a1 + (x + 1) := by omega
      simp [rowAvg, e1, e2]
    · have : w - x = 0 := by omega
      simp [hc, this, rowAvg, storeL_nil]

theorem avg_c_rows_eq (s0 : Mem 8) (st0 : Nat) (s1 : Mem 8) (st1 ds w h : Nat) :
    ∀ (fuel y a0 a1 da : Nat) (dst : Mem 8), h - y ≤ fuel →
      avg_c_rows s0 st0 s1 st1 ds w h fuel y a0 a1 da dst = avgRows s0 st0 s1 st1 ds w (h - y) a0 a1 da dst := by
  intro fuel
  induction fuel with
  | zero =>
    intro y a0 a1 da dst hf
    have : h - y = 0 := by omega
    simp [avg_c_rows, this, avgRows]
  | succ f ih =>
    intro y a0 a1 da dst hf
    unfold avg_c_rows
    by_cases hr : y < h
    · simp only [hr, if_true]
      rw [ih (y + 1) _ _ _ _ (by omega), avg_c_cols_eq s0 a0 s1 a1 da w w 0 dst (by omega)]
      have e : h - y = (h - (y + 1)) + 1 := by omega
      rw [e]
      simp [avgRows]
    · have : h - y = 0 := by omega
      simp [hr, this, avgRows]

/-- the C reference writes exactly the `h` rows of averages, top to bottom -/
theorem avg_c_eq (s0 : Mem 8) (st0 a0 : Nat) (s1 : Mem 8) (st1 a1 : Nat) (dst : Mem 8) (ds da w h : Nat) :
    avg_c s0 st0 a0 s1 st1 a1 dst ds da w h = avgRows s0 st0 s1 st1 ds w h a0 a1 da dst := by
  unfold avg_c
  rw [avg_c_rows_eq _ _ _ _ _ _ _ _ _ _ _ _ _ (by omega)]
  simp

/-! ### SSE2: one 16 / 8 / 4 byte chunk -/

theorem chunk16 (s0 : Mem 8) (a0 : Nat) (s1 : Mem 8) (a1 : Nat) (dst : Mem 8) (da : Nat) :
    storeBytes dst da (avg_epu8 (loadBytes s0 a0 16 16) (loadBytes s1 a1 16 16)) 16 = storeL dst da (rowAvg s0 a0 s1 a1 16) := by
  simp [storeBytes, avg_epu8, map2_8, loadBytes, loadL, range16, zeroReg0, rowAvg, avg8_eq_avgC]

theorem chunk8 (s0 : Mem 8) (a0 : Nat) (s1 : Mem 8) (a1 : Nat) (dst : Mem 8) (da : Nat) :
    storeBytes dst da (avg_epu8 (loadBytes s0 a0 8 16) (loadBytes s1 a1 8 16)) 8 = storeL dst da (rowAvg s0 a0 s1 a1 8) := by
  simp [storeBytes, avg_epu8, map2_8, loadBytes, loadL, range8, zeroReg8, rowAvg, avg8_eq_avgC]

theorem chunk4 (s0 : Mem 8) (a0 : Nat) (s1 : Mem 8) (a1 : Nat) (dst : Mem 8) (da : Nat) :
    storeBytes dst da (avg_epu8 (loadBytes s0 a0 4 16) (loadBytes s1 a1 4 16)) 4 = storeL dst da (rowAvg s0 a0 s1 a1 4) := by
  simp [storeBytes, avg_epu8, map2_8, loadBytes, loadL, range4, zeroReg12, rowAvg, avg8_eq_avgC]

/-! ### SSE2: the 16-byte column loop and the tails -/

theorem avg_sse2_cols16_eq (s0 : Mem 8) (a0 : Nat) (s1 : Mem 8) (a1 da w : Nat) :
    ∀ (fuel y : Nat) (dst : Mem 8), (w - y) / 16 ≤ fuel →
      avg_sse2_cols16 s0 a0 s1 a1 da w fuel y dst =
        (y + 16 * ((w - y) / 16), storeL dst (da + y) (rowAvg s0 (a0 + y) s1 (a1 + y) (16 * ((w - y) / 16)))) := by
  intro fuel
  induction fuel with
  | zero =>
    intro y dst h
    have : (w - y) / 16 = 0 := by omega
    simp [avg_sse2_cols16, this, rowAvg, storeL_nil]
  | succ f ih =>
    intro y dst h
    unfold avg_sse2_cols16
    by_cases hc : y + 15 < w
    · simp only [hc, if_true]
      have hq : (w - y) / 16 = (w - (y + 16)) / 16 + 1 := by omega
      rw [ih (y + 16) _ (by omega), chunk16, hq]
      have e : 16 * ((w - (y + 16)) / 16 + 1) = 16 + 16 * ((w - (y + 16)) / 16) := by omega
      have e0 : da + (y + 16) = da + y + (rowAvg s0 (a0 + y) s1 (a1 + y) 16).length := by
        rw [rowAvg_length]; omega
      rw [e, rowAvg_add, storeL_append' _ _ _ _ _ e0]
      have e1 : a0 + y + 16 = a0 + (y + 16) := by omega
      have e2 : a1 + y + 16 = a1 + (y + 16) := by omega
      have e3 : y + 16 + 16 * ((w - (y + 16)) / 16) = y + (16 + 16 * ((w - (y + 16)) / 16)) := by omega
      rw [e1, e2, e3]
    · have : (w - y) / 16 = 0 := by omega
      simp [hc, this, rowAvg, storeL_nil]

theorem land_mod16 (w c : Nat) (hc : 15 &&& c = c) : w &&& c = (w % 16) &&& c := by
  have h : w % 16 = w &&& (2 ^ 4 - 1) := (Nat.and_two_pow_sub_one_eq_mod w 4).symm
  rw [h, Nat.and_assoc]
  have : (2 ^ 4 - 1) &&& c = c := hc
  rw [this]

/-- one row of the `area_width >= 16` path (also correct for any multiple of 4) = the row of averages -/
theorem avg_sse2_row16_eq (s0 : Mem 8) (a0 : Nat) (s1 : Mem 8) (a1 da w : Nat) (dst : Mem 8) (hw : w % 4 = 0) :
    avg_sse2_row16 s0 a0 s1 a1 da w dst = storeL dst da (rowAvg s0 a0 s1 a1 w) := by
  unfold avg_sse2_row16
  rw [avg_sse2_cols16_eq s0 a0 s1 a1 da w w 0 dst (by omega)]
  have h8 := land_mod16 w 8 (by decide)
  have h4 := land_mod16 w 4 (by decide)
  have hr : w % 16 = 0 ∨ w % 16 = 4 ∨ w % 16 = 8 ∨ w % 16 = 12 := by omega
  simp only [Nat.sub_zero, Nat.add_zero, Nat.zero_add]
  rcases hr with hr | hr | hr | hr
  · have e8 : w &&& 8 = 0 := by rw [h8, hr]; decide
    have e4 : w &&& 4 = 0 := by rw [h4, hr]; decide
    have ew : 16 * (w / 16) = w := by omega
    simp [e8, e4, ew]
  · have e8 : w &&& 8 = 0 := by rw [h8, hr]; decide
    have e4 : w &&& 4 = 4 := by rw [h4, hr]; decide
    have ew : w = 16 * (w / 16) + 4 := by omega
    simp only [e8, e4, ne_eq, not_true_eq_false, if_false, chunk4]
    simp only [show ¬ ((4 : Nat) = 0) by decide, not_false_eq_true, if_true]
    rw [storeL_append' _ _ _ _ _ (by rw [rowAvg_length])]
    conv => rhs; rw [ew, rowAvg_add]
  · have e8 : w &&& 8 = 8 := by rw [h8, hr]; decide
    have e4 : w &&& 4 = 0 := by rw [h4, hr]; decide
    have ew : w = 16 * (w / 16) + 8 := by omega
    simp only [e8, e4, ne_eq, not_true_eq_false, if_false, chunk8]
    simp only [show ¬ ((8 : Nat) = 0) by decide, not_false_eq_true, if_true]
    rw [storeL_append' _ _ _ _ _ (by rw [rowAvg_length])]
    conv => rhs; rw [ew, rowAvg_add]
  · have e8 : w &&& 8 = 8 := by rw [h8, hr]; decide
    have e4 : w &&& 4 = 4 := by rw [h4, hr]; decide
    have ew : w = 16 * (w / 16) + 8 + 4 := by omega
    simp only [e8, e4, chunk8, chunk4]
    simp only [ne_eq, show ¬ ((8 : Nat) = 0) by decide, show ¬ ((4 : Nat) = 0) by decide, not_false_eq_true, if_true]
    rw [storeL_append' _ _ _ _ _ (by simp only [rowAvg_length] <;> omega),
      storeL_append' _ _ _ _ _ (by simp only [rowAvg_length] <;> omega)]
    conv => rhs; rw [ew, rowAvg_add, rowAvg_add]
    simp [List.append_assoc]

/-! ### SSE2: row loops -/

theorem avg_sse2_rows16_eq (s0 : Mem 8) (st0 : Nat) (s1 : Mem 8) (st1 ds w h : Nat) (hw : w % 4 = 0) :
    ∀ (fuel x a0 a1 da : Nat) (dst : Mem 8), h - x ≤ fuel →
      avg_sse2_rows16 s0 st0 s1 st1 ds w h fuel x a0 a1 da dst = avgRows s0 st0 s1 st1 ds w (h - x) a0 a1 da dst := by
  intro fuel
  induction fuel with
  | zero =>
    intro x a0 a1 da dst hf
    have : h - x = 0 := by omega
    simp [avg_sse2_rows16, this, avgRows]
  | succ f ih =>
    intro x a0 a1 da dst hf
    unfold avg_sse2_rows16
    by_cases hr : x < h
    · simp only [hr, if_true]
      rw [ih (x + 1) _ _ _ _ (by omega), avg_sse2_row16_eq _ _ _ _ _ _ _ hw]
      have e : h - x = (h - (x + 1)) + 1 := by omega
      rw [e]
      simp [avgRows]
    · have : h - x = 0 := by omega
      simp [hr, this, avgRows]

/-- the two-rows-per-iteration loops (`area_width == 4`: nbytes = 4, `area_width == 8`: nbytes = 8) -/
theorem avg_sse2_rows2_eq (nbytes : Nat) (s0 : Mem 8) (st0 : Nat) (s1 : Mem 8) (st1 ds h : Nat)
    (hchunk : ∀ (a0 a1 da : Nat) (dst : Mem 8),
      storeBytes dst da (avg_epu8 (loadBytes s0 a0 nbytes 16) (loadBytes s1 a1 nbytes 16)) nbytes
        = storeL dst da (rowAvg s0 a0 s1 a1 nbytes)) :
    ∀ (n fuel y a0 a1 da : Nat) (dst : Mem 8), h - y = 2 * n → n ≤ fuel →
      avg_sse2_rows2 nbytes s0 st0 s1 st1 ds h fuel y a0 a1 da dst = avgRows s0 st0 s1 st1 ds nbytes (2 * n) a0 a1 da dst := by
  intro n
  induction n with
  | zero =>
    intro fuel y a0 a1 da dst hy hf
    have hc : ¬ y < h := by omega
    cases fuel with
    | zero => simp [avg_sse2_rows2, avgRows]
    | succ f => simp [avg_sse2_rows2, hc, avgRows]
  | succ m ih =>
    intro fuel y a0 a1 da dst hy hf
    obtain ⟨f, rfl⟩ : ∃ f, fuel = f + 1 := ⟨fuel - 1, by omega⟩
    have hc : y < h := by omega
    unfold avg_sse2_rows2
    simp only [hc, if_true]
    rw [ih f (y + 2) _ _ _ _ (by omega) (by omega), hchunk, hchunk]
    have e : 2 * (m + 1) = 2 * m + 1 + 1 := by omega
    have e0 : a0 + st0 * 2 = a0 + st0 + st0 := by omega
    have e1 : a1 + st1 * 2 = a1 + st1 + st1 := by omega
    have e2 : da + ds * 2 = da + ds + ds := by omega
    rw [e, e0, e1, e2]
    simp only [avgRows]

/-! ### K4: one-line average -/

theorem avgC2_eq (x y : BitVec 8) : avgC2 x y = avgC x y := by
  simp [avgC2, avgC, Nat.shiftRight_eq_div_pow]

theorem avg1_c_loop_eq (s0 : Mem 8) (a0 : Nat) (s1 : Mem 8) (a1 da w : Nat) :
    ∀ (fuel x : Nat) (dst : Mem 8), w - x ≤ fuel →
      avg1_c_loop s0 a0 s1 a1 da w fuel x dst = storeL dst (da + x) (rowAvg s0 (a0 + x) s1 (a1 + x) (w - x)) := by
  intro fuel
  induction fuel with
  | zero =>
    intro x dst h
    have : w - x = 0 := by omega
    simp [avg1_c_loop, this, rowAvg, storeL_nil]
  | succ f ih =>
    intro x dst h
    unfold avg1_c_loop
    by_cases hc : x < w
    · simp only [hc, if_true]
      rw [ih (x + 1) _ (by omega), store1_eq_storeL]
      have e : w - x = 1 + (w - (x + 1)) := by omega
      have e0 : da + (x + 1) = da + x + [avgC2 (s0 (a0 + x)) (s1 (a1 + x))].length := by simp; omega
      rw [e, rowAvg_add, storeL_append' _ _ _ _ _ e0]
      have e1 : a0 + x + 1 = a0 + (x + 1) := by omega
      have e2 : a1 + x + 1 = a1 + (x + 1) := by omega
      simp [rowAvg, e1, e2, avgC2_eq]
    · have : w - x = 0 := by omega
      simp [hc, this, rowAvg, storeL_nil]

theorem avg1_c_eq (s0 : Mem 8) (a0 : Nat) (s1 : Mem 8) (a1 : Nat) (dst : Mem 8) (da w : Nat) :
    avg1_c s0 a0 s1 a1 dst da w = storeL dst da (rowAvg s0 a0 s1 a1 w) := by
  unfold avg1_c
  rw [avg1_c_loop_eq _ _ _ _ _ _ _ _ _ (by omega)]
  simp

theorem avg1_sse2_32 (s0 : Mem 8) (a0 : Nat) (s1 : Mem 8) (a1 : Nat) (dst : Mem 8) (da : Nat) :
    avg1_sse2 s0 a0 s1 a1 dst da 32 = storeL dst da (rowAvg s0 a0 s1 a1 32) := by
  have e : (32 : Nat) = 16 + 16 := rfl
  simp only [avg1_sse2, show (32 : Nat) > 16 by omega, if_true, chunk16]
  rw [storeL_append' _ _ _ _ _ (by rw [rowAvg_length])]
  conv => rhs; rw [e, rowAvg_add]

theorem avg1_sse2_64 (s0 : Mem 8) (a0 : Nat) (s1 : Mem 8) (a1 : Nat) (dst : Mem 8) (da : Nat) :
    avg1_sse2 s0 a0 s1 a1 dst da 64 = storeL dst da (rowAvg s0 a0 s1 a1 64) := by
  have e : (64 : Nat) = 16 + 16 + 16 + 16 := rfl
  simp only [avg1_sse2, show (64 : Nat) > 16 by omega, show ¬ ((64 : Nat) = 32) by omega, if_true, if_false, chunk16]
  rw [storeL_append' _ _ _ _ _ (by simp only [rowAvg_length] <;> omega),
    storeL_append' _ _ _ _ _ (by simp only [List.length_append, rowAvg_length] <;> omega),
    storeL_append' _ _ _ _ _ (by simp only [List.length_append, rowAvg_length] <;> omega)]
  conv => rhs; rw [e, rowAvg_add, rowAvg_add, rowAvg_add]
  simp [List.append_assoc]

theorem avg1_sse2_12 (s0 : Mem 8) (a0 : Nat) (s1 : Mem 8) (a1 : Nat) (dst : Mem 8) (da : Nat) :
    avg1_sse2 s0 a0 s1 a1 dst da 12 = storeL dst da (rowAvg s0 a0 s1 a1 12) := by
  have e : (12 : Nat) = 8 + 4 := rfl
  simp only [avg1_sse2, show ¬ ((12 : Nat) > 16) by omega, show ¬ ((12 : Nat) = 16) by omega,
    show ¬ ((12 : Nat) = 4) by omega, show ¬ ((12 : Nat) = 8) by omega, if_false, chunk8, chunk4]
  rw [storeL_append' _ _ _ _ _ (by rw [rowAvg_length])]
  conv => rhs; rw [e, rowAvg_add]

end Simd
