/-
  Lemmas for `Model/MiniGop.lean` (C03, pre-assignment buffer): conservation of pictures, stated with `List.count`
  (so that the order inside mini-GOPs, which the model leaves arbitrary, does not matter).
-/
import SvtVerif.Model.MiniGop
import Mathlib.Tactic.Linarith

namespace MiniGop

/-- Pictures that have left the buffer or are parked in `prev_delayed_intra`. -/
def out (s : St) : List Pic := s.sent ++ s.delayed.toList

theorem sendOne_fields (delay : Pic → Bool) (s : St) (p : Pic) :
    (sendOne delay s p).buf = s.buf ∧ (sendOne delay s p).intraCt = s.intraCt ∧ (sendOne delay s p).eosFlag = s.eosFlag := by
  unfold sendOne; split <;> simp

/-- A group without delayed pictures is appended to `sent`; `prev_delayed_intra` is untouched. -/
theorem fold_sendOne_nodelay (delay : Pic → Bool) (g : List Pic) (s : St) (h : ∀ q ∈ g, delay q = false) :
    g.foldl (sendOne delay) s = { s with sent := s.sent ++ g } := by
  induction g generalizing s with
  | nil => simp
  | cons q g ih =>
    have hq : delay q = false := h q (List.mem_cons_self)
    rw [List.foldl_cons, ih _ (fun x hx => h x (List.mem_cons_of_mem _ hx))]
    simp [sendOne, hq, List.append_assoc]

/-- A group with at most one delayed picture, entered with `prev_delayed_intra = NULL`: nothing is lost. -/
theorem fold_sendOne_count (delay : Pic → Bool) (g : List Pic) (s : St) (hd : s.delayed = none)
    (h1 : (g.filter delay).length ≤ 1) (x : Pic) :
    (out (g.foldl (sendOne delay) s)).count x = s.sent.count x + g.count x ∧
    ((g.filter delay) = [] → (g.foldl (sendOne delay) s).delayed = none) ∧
    (g.foldl (sendOne delay) s).buf = s.buf := by
  induction g generalizing s with
  | nil => simp [out, hd]
  | cons q g ih =>
    rw [List.foldl_cons]
    by_cases hq : delay q = true
    · have hg : ∀ y ∈ g, delay y = false := by
        intro y hy
        by_contra hc
        have hc' : delay y = true := by simpa using hc
        have : 2 ≤ ((q :: g).filter delay).length := by
          rw [List.filter_cons_of_pos hq, List.length_cons]
          have : 0 < (g.filter delay).length := List.length_pos_of_mem (List.mem_filter.2 ⟨hy, hc'⟩)
          omega
        omega
      rw [fold_sendOne_nodelay delay g _ hg]
      refine ⟨?_, ?_, ?_⟩
      · simp only [out, sendOne, hq, if_true, Option.toList_some, List.count_append, List.count_cons, List.count_nil]
        omega
      · intro hnil; rw [List.filter_cons_of_pos hq] at hnil; exact absurd hnil (by simp)
      · simp [sendOne, hq]
    · have hq' : delay q = false := by simpa using hq
      have h1' : (g.filter delay).length ≤ 1 := by
        rw [List.filter_cons_of_neg (by simpa using hq')] at h1; exact h1
      have hs : (sendOne delay s q) = { s with sent := s.sent ++ [q] } := by simp [sendOne, hq']
      obtain ⟨c, dn, bf⟩ := ih (sendOne delay s q) (by rw [hs]; exact hd) h1'
      refine ⟨?_, ?_, ?_⟩
      · rw [c, hs]; simp only [List.count_append, List.count_cons, List.count_nil]; omega
      · intro hnil; rw [List.filter_cons_of_neg (by simpa using hq')] at hnil; exact dn hnil
      · rw [bf, hs]

/-- A picture that `is_delayed_intra` could delay: intra and not the EOS picture. -/
def cand (p : Pic) : Bool := p.intra && !p.eos

theorem filter_length_le_of_imp (p q : Pic → Bool) (l : List Pic) (h : ∀ a, p a = true → q a = true) :
    (l.filter p).length ≤ (l.filter q).length := by
  induction l with
  | nil => simp
  | cons a l ih =>
    by_cases hp : p a = true
    · rw [List.filter_cons_of_pos hp, List.filter_cons_of_pos (h a hp)]; simp only [List.length_cons]; omega
    · rw [List.filter_cons_of_neg hp]
      by_cases hq : q a = true
      · rw [List.filter_cons_of_pos hq]; simp only [List.length_cons]; omega
      · rw [List.filter_cons_of_neg hq]; exact ih

/-- One mini-GOP (l.5570-5585) with at most one candidate picture: conservation; afterwards `prev_delayed_intra` is set only
    if the group contained a candidate. -/
theorem sendGroup_count (delay : Nat → Pic → Bool) (hdelay : ∀ n p, delay n p = true → cand p = true)
    (s : St) (g : List Pic) (h1 : (g.filter cand).length ≤ 1) (x : Pic) :
    (out (sendGroup delay s g)).count x = (out s).count x + g.count x ∧
    ((g.filter cand) = [] → (sendGroup delay s g).delayed = none) ∧
    (sendGroup delay s g).buf = s.buf := by
  have h1' : (g.filter (delay g.length)).length ≤ 1 :=
    le_trans (filter_length_le_of_imp _ _ g (hdelay g.length)) h1
  have hnil : (g.filter cand) = [] → (g.filter (delay g.length)) = [] := by
    intro h
    apply List.eq_nil_of_length_eq_zero
    have := filter_length_le_of_imp _ _ g (hdelay g.length)
    rw [h] at this; simpa using this
  unfold sendGroup
  cases hd : s.delayed with
  | none =>
    obtain ⟨c, dn, bf⟩ := fold_sendOne_count (delay g.length) g s hd h1' x
    refine ⟨?_, fun h => dn (hnil h), bf⟩
    rw [c]; simp [out, hd]
  | some q =>
    obtain ⟨c, dn, bf⟩ := fold_sendOne_count (delay g.length) g { s with delayed := none, sent := s.sent ++ [q] } rfl h1' x
    refine ⟨?_, fun h => dn (hnil h), bf⟩
    rw [c]; simp only [out, hd, Option.toList_some, List.count_append]

/-- All mini-GOPs of one release, with at most one candidate picture in total. -/
theorem fold_sendGroup_count (delay : Nat → Pic → Bool) (hdelay : ∀ n p, delay n p = true → cand p = true)
    (G : List (List Pic)) (s : St)
    (h1 : (G.flatten.filter cand).length ≤ 1) (x : Pic) :
    (out (G.foldl (sendGroup delay) s)).count x = (out s).count x + G.flatten.count x ∧
    ((G.flatten.filter cand) = [] → G ≠ [] → (G.foldl (sendGroup delay) s).delayed = none) ∧
    (G.foldl (sendGroup delay) s).buf = s.buf := by
  induction G generalizing s with
  | nil => simp
  | cons g G ih =>
    rw [List.foldl_cons]
    have hsplit : ((g :: G).flatten.filter cand).length = (g.filter cand).length + (G.flatten.filter cand).length := by
      simp [List.flatten_cons, List.filter_append]
    obtain ⟨c1, d1, b1⟩ := sendGroup_count delay hdelay s g (by omega) x
    obtain ⟨c2, d2, b2⟩ := ih (sendGroup delay s g) (by omega)
    refine ⟨?_, ?_, ?_⟩
    · rw [c2, c1]; simp only [List.flatten_cons, List.count_append]; omega
    · intro hnil _
      have hg : g.filter cand = [] := by
        have : (g.filter cand).length = 0 := by
          have := congrArg List.length hnil; rw [hsplit, List.length_nil] at this; omega
        exact List.eq_nil_of_length_eq_zero this
      have hG : G.flatten.filter cand = [] := by
        have : (G.flatten.filter cand).length = 0 := by
          have := congrArg List.length hnil; rw [hsplit, List.length_nil] at this; omega
        exact List.eq_nil_of_length_eq_zero this
      cases G with
      | nil => simpa using d1 hg
      | cons g' G' => exact d2 hG (by simp)
    · rw [b2, b1]

/-- The invariant between two pictures: nothing lost, the buffer holds no intra and no EOS picture, the counters are reset. -/
structure Inv (s : St) (seen : List Pic) : Prop where
  cons  : ∀ x, (out s).count x + s.buf.count x = seen.count x
  clean : ∀ q ∈ s.buf, q.intra = false ∧ q.eos = false
  ic    : s.intraCt = 0
  ef    : s.eosFlag = false

theorem inv_init : Inv init [] := ⟨by intro x; simp [out, init], by intro q hq; simp [init] at hq, rfl, rfl⟩

theorem step_inv (levels : Nat) (lowDelay : Bool) (delay : Nat → Pic → Bool) (split : List Pic → List (List Pic))
    (hsplit : ∀ b, ((split b).flatten).Perm b)
    (hdelay : ∀ n p, delay n p = true → cand p = true)
    (s : St) (seen : List Pic) (p : Pic) (h : Inv s seen) :
    Inv (step levels lowDelay delay split s p) (seen ++ [p]) ∧
    (p.eos = true → (step levels lowDelay delay split s p).buf = [] ∧ (step levels lowDelay delay split s p).delayed = none) := by
  have hbufnc : ∀ q ∈ s.buf, cand q = false := by
    intro q hq; simp [cand, (h.clean q hq).1]
  -- at most one candidate among the released pictures: only `p` can be one
  have hfil : ((split (s.buf ++ [p])).flatten.filter cand).length ≤ 1 := by
    have hp := (hsplit (s.buf ++ [p])).filter cand
    rw [hp.length_eq, List.filter_append, List.filter_eq_nil_iff.2 (by intro q hq; simpa using hbufnc q hq)]
    simp only [List.nil_append]
    exact le_trans (List.length_filter_le _ _) (by simp)
  have hstep : step levels lowDelay delay split s p =
      if releaseNow levels lowDelay (s.buf ++ [p]).length (if p.intra then 1 else 0) p.eos then
        { ((split (s.buf ++ [p])).foldl (sendGroup delay)
            { s with buf := s.buf ++ [p], intraCt := (if p.intra then 1 else 0), eosFlag := p.eos }) with
          buf := [], intraCt := 0, eosFlag := false }
      else { s with buf := s.buf ++ [p], intraCt := (if p.intra then 1 else 0), eosFlag := p.eos } := by
    unfold step
    simp only [h.ic, h.ef, Bool.false_or, Nat.zero_add]
  rw [hstep]
  by_cases hrel : releaseNow levels lowDelay (s.buf ++ [p]).length (if p.intra then 1 else 0) p.eos = true
  · -- release
    rw [if_pos hrel]
    have F := fun x => fold_sendGroup_count delay hdelay (split (s.buf ++ [p]))
      { s with buf := s.buf ++ [p], intraCt := (if p.intra then 1 else 0), eosFlag := p.eos } hfil x
    refine ⟨⟨?_, ?_, rfl, rfl⟩, ?_⟩
    · intro x
      have hc := (F x).1
      have hperm := (hsplit (s.buf ++ [p])).count_eq x
      have hcons := h.cons x
      simp only [out, List.count_append, List.count_nil, Nat.add_zero] at hc hcons ⊢
      rw [hperm] at hc
      simp only [List.count_append] at hc
      omega
    · intro q hq; simp at hq
    · intro he
      refine ⟨rfl, ?_⟩
      have hnc : cand p = false := by simp [cand, he]
      have hnil : (split (s.buf ++ [p])).flatten.filter cand = [] := by
        apply List.eq_nil_of_length_eq_zero
        have hp := (hsplit (s.buf ++ [p])).filter cand
        rw [hp.length_eq, List.filter_append, List.filter_eq_nil_iff.2 (by intro q hq; simpa using hbufnc q hq)]
        simp [hnc]
      have hne : split (s.buf ++ [p]) ≠ [] := by
        intro hE
        have := (hsplit (s.buf ++ [p])).length_eq
        rw [hE] at this; simp at this
      exact (F p).2.1 hnil hne
  · -- no release: `p` is neither intra nor EOS
    rw [if_neg hrel]
    have hpi : p.intra = false := by
      by_contra hc
      have hc' : p.intra = true := by simpa using hc
      exact hrel (by simp [releaseNow, hc'])
    have hpe : p.eos = false := by
      by_contra hc
      have hc' : p.eos = true := by simpa using hc
      exact hrel (by simp [releaseNow, hc'])
    refine ⟨⟨?_, ?_, ?_, ?_⟩, ?_⟩
    · intro x
      have hcons := h.cons x
      simp only [out, List.count_append] at hcons ⊢
      omega
    · intro q hq
      rcases List.mem_append.1 hq with hq | hq
      · exact h.clean q hq
      · have : q = p := by simpa using hq
        subst this; exact ⟨hpi, hpe⟩
    · simp [hpi]
    · exact hpe
    · intro he; rw [hpe] at he; exact absurd he (by decide)

theorem run_inv (levels : Nat) (lowDelay : Bool) (delay : Nat → Pic → Bool) (split : List Pic → List (List Pic))
    (hsplit : ∀ b, ((split b).flatten).Perm b)
    (hdelay : ∀ n p, delay n p = true → cand p = true)
    (ps : List Pic) (s : St) (seen : List Pic) (h : Inv s seen) :
    Inv (ps.foldl (step levels lowDelay delay split) s) (seen ++ ps) := by
  induction ps generalizing s seen with
  | nil => simpa using h
  | cons p ps ih =>
    rw [List.foldl_cons]
    have := ih _ _ (step_inv levels lowDelay delay split hsplit hdelay s seen p h).1
    simpa [List.append_assoc] using this

/-- The transcribed `is_delayed_intra` only ever delays an intra picture that does not carry the EOS flag. -/
theorem isDelayedIntra_cand (P : Int) (period : Nat) (n : Nat) (p : Pic) (h : isDelayedIntra P period n p = true) :
    cand p = true := by
  unfold isDelayedIntra at h
  unfold cand Pic.intra
  by_cases hi : (p.idr || p.cra) = true
  · rw [if_pos hi] at h
    by_cases he : (P == 0 || p.eos) = true
    · rw [if_pos he] at h; exact absurd h (by decide)
    · have : p.eos = false := by
        cases hpe : p.eos with
        | false => rfl
        | true => simp [hpe] at he
      simp [hi, this]
  · rw [if_neg hi] at h; exact absurd h (by decide)

end MiniGop
