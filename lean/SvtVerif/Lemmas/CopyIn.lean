/-
  Lemmas for the copy-in model (C21): pointwise closed forms (`rd`) of the primitive operations and of every
  loop of copy_frame_buffer / pad_input_picture / generate_padding, by induction over the iteration count.
-/
import SvtVerif.Model.CopyIn

namespace CopyIn
set_option linter.unusedSimpArgs false
set_option linter.unusedVariables false

/-! ### cells -/

theorem size_wr (b : Buf) (i v : Nat) : (wr b i v).size = b.size := by simp [wr]

theorem rd_wr (b : Buf) (i v j : Nat) : rd (wr b i v) j = if i = j ∧ i < b.size then v else rd b j := by
  unfold rd wr
  simp only [Array.getD_eq_getD_getElem?, Array.getElem?_setIfInBounds]
  by_cases h : i = j
  · subst h
    by_cases h2 : i < b.size
    · simp [h2]
    · simp [h2]
  · simp [h]

theorem rd_oob (b : Buf) (i : Nat) (h : b.size ≤ i) : rd b i = 0 := by
  unfold rd; simp [Array.getD_eq_getD_getElem?, Array.getElem?_eq_none h]

/-- two buffers are equal when they have the same size and the same cells -/
theorem buf_ext (a b : Buf) (hs : a.size = b.size) (h : ∀ j, j < a.size → rd a j = rd b j) : a = b := by
  apply Array.ext hs
  intro i h1 h2
  have := h i h1
  unfold rd at this
  simpa [Array.getD_eq_getD_getElem?, Array.getElem?_eq_getElem h1, Array.getElem?_eq_getElem h2] using this

/-! ### memset / memcpy -/

theorem size_memsetA (b : Buf) (off v n : Nat) : (memsetA b off v n).size = b.size := by
  induction n generalizing b off with
  | zero => rfl
  | succ n ih => simp [memsetA, ih, size_wr]

theorem rd_memsetA (b : Buf) (off v n j : Nat) :
    rd (memsetA b off v n) j = if off ≤ j ∧ j < off + n ∧ j < b.size then v else rd b j := by
  induction n generalizing b off with
  | zero => simp [memsetA]; omega
  | succ n ih =>
    simp only [memsetA, ih, size_wr, rd_wr]
    by_cases h1 : off + 1 ≤ j ∧ j < off + 1 + n ∧ j < b.size
    · have : off ≤ j ∧ j < off + (n + 1) ∧ j < b.size := by omega
      simp [h1, this]
    · by_cases h2 : off = j ∧ off < b.size
      · have : off ≤ j ∧ j < off + (n + 1) ∧ j < b.size := by omega
        simp [h1, h2, this]
      · have : ¬ (off ≤ j ∧ j < off + (n + 1) ∧ j < b.size) := by omega
        simp [h1, h2, this]

theorem size_memcpyA (b : Buf) (d : Nat) (s : Buf) (so n : Nat) : (memcpyA b d s so n).size = b.size := by
  induction n generalizing b d so with
  | zero => rfl
  | succ n ih => simp [memcpyA, ih, size_wr]

theorem rd_memcpyA (b : Buf) (d : Nat) (s : Buf) (so n j : Nat) :
    rd (memcpyA b d s so n) j = if d ≤ j ∧ j < d + n ∧ j < b.size then rd s (so + (j - d)) else rd b j := by
  induction n generalizing b d so with
  | zero => simp [memcpyA]; omega
  | succ n ih =>
    simp only [memcpyA, ih, size_wr, rd_wr]
    by_cases h1 : d + 1 ≤ j ∧ j < d + 1 + n ∧ j < b.size
    · have h3 : d ≤ j ∧ j < d + (n + 1) ∧ j < b.size := by omega
      have h4 : so + 1 + (j - (d + 1)) = so + (j - d) := by omega
      simp [h1, h3, h4]
    · by_cases h2 : d = j ∧ d < b.size
      · have h3 : d ≤ j ∧ j < d + (n + 1) ∧ j < b.size := by omega
        obtain ⟨h2a, h2b⟩ := h2
        subst h2a
        have h5 : ¬ (d + 1 ≤ d ∧ d < d + 1 + n ∧ d < b.size) := by omega
        simp [h5, h2b]
        intro h; omega
      · have h3 : ¬ (d ≤ j ∧ j < d + (n + 1) ∧ j < b.size) := by omega
        simp [h1, h2, h3]

/-! ### `Mem` primitives: data projections -/

namespace Mem
@[simp] theorem memsetCell_buf (m : Mem) (off cell n : Nat) :
    (m.memsetCell off cell n).buf = memsetA m.buf off (rd m.buf cell) n := rfl
@[simp] theorem memcpyFrom_buf (m : Mem) (d : Nat) (s : Buf) (so n : Nat) :
    (m.memcpyFrom d s so n).buf = memcpyA m.buf d s so n := rfl
@[simp] theorem memcpySelf_buf (m : Mem) (d so n : Nat) :
    (m.memcpySelf d so n).buf = memcpyA m.buf d m.buf so n := rfl
@[simp] theorem storeFrom_buf (m : Mem) (i : Nat) (s : Buf) (si : Nat) (f : Nat → Nat) :
    (m.storeFrom i s si f).buf = wr m.buf i (f (rd s si)) := rfl
@[simp] theorem memsetCell_ok (m : Mem) (off cell n : Nat) :
    (m.memsetCell off cell n).ok = (m.ok && decide (cell < m.buf.size) && inb m.buf.size off n) := rfl
@[simp] theorem memcpyFrom_ok (m : Mem) (d : Nat) (s : Buf) (so n : Nat) :
    (m.memcpyFrom d s so n).ok = (m.ok && inb m.buf.size d n && inb s.size so n) := rfl
@[simp] theorem memcpySelf_ok (m : Mem) (d so n : Nat) :
    (m.memcpySelf d so n).ok = (m.ok && inb m.buf.size d n && inb m.buf.size so n && (n == 0 || decide (d + n ≤ so ∨ so + n ≤ d))) := rfl
@[simp] theorem storeFrom_ok (m : Mem) (i : Nat) (s : Buf) (si : Nat) (f : Nat → Nat) :
    (m.storeFrom i s si f).ok = (m.ok && decide (i < m.buf.size) && decide (si < s.size)) := rfl
end Mem

theorem succ_mul' (i s : Nat) : (i + 1) * s = s + i * s := by rw [Nat.succ_mul]; omega

/-! ### copyRows -/

theorem copyRows_size (m : Mem) (src : Buf) (d0 s0 dS sS n : Nat) :
    (copyRows m src d0 s0 dS sS n).buf.size = m.buf.size := by
  induction n generalizing m d0 s0 with
  | zero => rfl
  | succ n ih => simp [copyRows, ih, size_memcpyA]

/-- cells outside every copied row range keep their value -/
theorem copyRows_frame (m : Mem) (src : Buf) (d0 s0 dS sS n j : Nat)
    (hj : ∀ i, i < n → j < d0 + i * dS ∨ d0 + i * dS + sS ≤ j) :
    rd (copyRows m src d0 s0 dS sS n).buf j = rd m.buf j := by
  induction n generalizing m d0 s0 with
  | zero => rfl
  | succ n ih =>
    simp only [copyRows]
    rw [ih]
    · have h0 := hj 0 (by omega)
      simp only [Mem.memcpyFrom_buf, rd_memcpyA]
      have : ¬ (d0 ≤ j ∧ j < d0 + sS ∧ j < m.buf.size) := by omega
      simp [this]
    · intro i hi
      have := hj (i + 1) (by omega)
      rw [succ_mul'] at this
      omega

/-- the first `min srcStride dstStride` cells of every copied row hold the source row (later rows only write
    further down) -/
theorem copyRows_val (m : Mem) (src : Buf) (d0 s0 dS sS n i x : Nat)
    (hi : i < n) (hx : x < sS) (hxS : x < dS) (hin : d0 + i * dS + x < m.buf.size) :
    rd (copyRows m src d0 s0 dS sS n).buf (d0 + i * dS + x) = rd src (s0 + i * sS + x) := by
  induction n generalizing m d0 s0 i with
  | zero => omega
  | succ n ih =>
    simp only [copyRows]
    cases i with
    | zero =>
      rw [copyRows_frame]
      · simp only [Mem.memcpyFrom_buf, rd_memcpyA]
        have : d0 ≤ d0 + 0 * dS + x ∧ d0 + 0 * dS + x < d0 + sS ∧ d0 + 0 * dS + x < m.buf.size := by omega
        simp only [this, and_self, ↓reduceIte]
        congr 1; omega
      · intro i' _; left
        have : 0 ≤ i' * dS := Nat.zero_le _
        omega
    | succ i' =>
      have e1 : d0 + (i' + 1) * dS + x = (d0 + dS) + i' * dS + x := by rw [succ_mul']; omega
      have e2 : s0 + (i' + 1) * sS + x = (s0 + sS) + i' * sS + x := by rw [succ_mul']; omega
      rw [e1, e2]
      apply ih
      · omega
      · simp only [Mem.memcpyFrom_buf, size_memcpyA]; omega

theorem row_sep (i y S : Nat) (h : i < y) : i * S + S ≤ y * S := by
  have := Nat.mul_le_mul_right S (show i + 1 ≤ y from h)
  rw [succ_mul'] at this; omega

/-! ### pad_input_picture: right loop -/

theorem padRightLoop_size (m : Mem) (t0 S w pr n : Nat) :
    (padRightLoop m t0 S w pr n).buf.size = m.buf.size := by
  induction n generalizing m t0 with
  | zero => rfl
  | succ n ih => simp [padRightLoop, ih, size_memsetA]

theorem padRightLoop_frame (m : Mem) (t0 S w pr n j : Nat)
    (hj : ∀ i, i < n → j < t0 + i * S + w ∨ t0 + i * S + w + pr ≤ j) :
    rd (padRightLoop m t0 S w pr n).buf j = rd m.buf j := by
  induction n generalizing m t0 with
  | zero => rfl
  | succ n ih =>
    simp only [padRightLoop]
    rw [ih]
    · have h0 := hj 0 (by omega)
      simp only [Mem.memsetCell_buf, rd_memsetA]
      have : ¬ (t0 + w ≤ j ∧ j < t0 + w + pr ∧ j < m.buf.size) := by omega
      simp [this]
    · intro i hi
      have := hj (i + 1) (by omega)
      rw [succ_mul'] at this
      omega

theorem padRightLoop_val (m : Mem) (t0 S w pr n i x : Nat) (hw : 1 ≤ w) (hS : w + pr ≤ S)
    (hi : i < n) (hx : x < pr) (hin : t0 + i * S + w + x < m.buf.size) :
    rd (padRightLoop m t0 S w pr n).buf (t0 + i * S + w + x) = rd m.buf (t0 + i * S + w - 1) := by
  induction n generalizing m t0 i with
  | zero => omega
  | succ n ih =>
    simp only [padRightLoop]
    cases i with
    | zero =>
      rw [padRightLoop_frame]
      · simp only [Mem.memsetCell_buf, rd_memsetA]
        have : t0 + w ≤ t0 + 0 * S + w + x ∧ t0 + 0 * S + w + x < t0 + w + pr ∧ t0 + 0 * S + w + x < m.buf.size := by omega
        simp only [this, and_self, ↓reduceIte]
        congr 1; omega
      · intro i' _; left
        have : 0 ≤ i' * S := Nat.zero_le _
        omega
    | succ i' =>
      have e1 : t0 + (i' + 1) * S + w + x = (t0 + S) + i' * S + w + x := by rw [succ_mul']; omega
      have e2 : t0 + (i' + 1) * S + w - 1 = (t0 + S) + i' * S + w - 1 := by rw [succ_mul']; omega
      rw [e1, e2, ih]
      · simp only [Mem.memsetCell_buf, rd_memsetA]
        have : ¬ (t0 + w ≤ t0 + S + i' * S + w - 1 ∧ t0 + S + i' * S + w - 1 < t0 + w + pr ∧ t0 + S + i' * S + w - 1 < m.buf.size) := by omega
        simp [this]
      · omega
      · simp only [Mem.memsetCell_buf, size_memsetA]; omega

/-! ### pad_input_picture: bottom loop -/

theorem padBottomLoop_size (m : Mem) (t0 t1 S n v : Nat) :
    (padBottomLoop m t0 t1 S n v).buf.size = m.buf.size := by
  induction v generalizing m t1 with
  | zero => rfl
  | succ v ih => simp [padBottomLoop, ih, size_memcpyA]

theorem padBottomLoop_frame (m : Mem) (t0 t1 S n v j : Nat)
    (hj : ∀ k, 1 ≤ k → k ≤ v → j < t1 + k * S ∨ t1 + k * S + n ≤ j) :
    rd (padBottomLoop m t0 t1 S n v).buf j = rd m.buf j := by
  induction v generalizing m t1 with
  | zero => rfl
  | succ v ih =>
    simp only [padBottomLoop]
    rw [ih]
    · have h0 := hj 1 (by omega) (by omega)
      simp only [Mem.memcpySelf_buf, rd_memcpyA]
      have : ¬ (t1 + S ≤ j ∧ j < t1 + S + n ∧ j < m.buf.size) := by omega
      simp [this]
    · intro k hk1 hk2
      have := hj (k + 1) (by omega) (by omega)
      rw [succ_mul'] at this
      omega

theorem padBottomLoop_val (m : Mem) (t0 t1 S n v k x : Nat) (hn : n ≤ S) (ht : t0 + n ≤ t1 + S)
    (hk1 : 1 ≤ k) (hk2 : k ≤ v) (hx : x < n) (hin : t1 + k * S + x < m.buf.size) :
    rd (padBottomLoop m t0 t1 S n v).buf (t1 + k * S + x) = rd m.buf (t0 + x) := by
  induction v generalizing m t1 k with
  | zero => omega
  | succ v ih =>
    simp only [padBottomLoop]
    by_cases hk : k = 1
    · subst hk
      rw [padBottomLoop_frame]
      · simp only [Mem.memcpySelf_buf, rd_memcpyA]
        have : t1 + S ≤ t1 + 1 * S + x ∧ t1 + 1 * S + x < t1 + S + n ∧ t1 + 1 * S + x < m.buf.size := by omega
        simp only [this, and_self, ↓reduceIte]
        congr 1; omega
      · intro k' hk'1 _; left
        have := row_sep 0 k' S (by omega)
        omega
    · obtain ⟨k', rfl⟩ : ∃ k', k = k' + 1 := ⟨k - 1, by omega⟩
      have e1 : t1 + (k' + 1) * S + x = (t1 + S) + k' * S + x := by rw [succ_mul']; omega
      rw [e1, ih]
      · simp only [Mem.memcpySelf_buf, rd_memcpyA]
        have : ¬ (t1 + S ≤ t0 + x ∧ t0 + x < t1 + S + n ∧ t0 + x < m.buf.size) := by omega
        simp [this]
      · omega
      · omega
      · omega
      · simp only [Mem.memcpySelf_buf, size_memcpyA]; omega

/-! ### generate_padding: horizontal loop -/

theorem genPadH_size (m : Mem) (t0 S w pw n : Nat) : (genPadH m t0 S w pw n).buf.size = m.buf.size := by
  induction n generalizing m t0 with
  | zero => rfl
  | succ n ih => simp [genPadH, ih, size_memsetA]

/-- one iteration of the horizontal loop, pointwise -/
theorem genPadH_step (m : Mem) (t0 w pw j : Nat) (hw : 1 ≤ w) (hp : pw ≤ t0) :
    rd ((m.memsetCell (t0 - pw) t0 pw).memsetCell (t0 + w) (t0 + w - 1) pw).buf j =
      if t0 + w ≤ j ∧ j < t0 + w + pw ∧ j < m.buf.size then rd m.buf (t0 + w - 1)
      else if t0 - pw ≤ j ∧ j < t0 ∧ j < m.buf.size then rd m.buf t0 else rd m.buf j := by
  simp only [Mem.memsetCell_buf, rd_memsetA, size_memsetA]
  have a0 : ¬ (t0 - pw ≤ t0 + w - 1 ∧ t0 + w - 1 < t0 - pw + pw ∧ t0 + w - 1 < m.buf.size) := by omega
  rw [if_neg a0]
  by_cases h1 : t0 + w ≤ j ∧ j < t0 + w + pw ∧ j < m.buf.size
  · rw [if_pos h1, if_pos h1]
  · rw [if_neg h1, if_neg h1]
    by_cases h2 : t0 - pw ≤ j ∧ j < t0 ∧ j < m.buf.size
    · have : t0 - pw ≤ j ∧ j < t0 - pw + pw ∧ j < m.buf.size := by omega
      rw [if_pos h2, if_pos this]
    · have : ¬ (t0 - pw ≤ j ∧ j < t0 - pw + pw ∧ j < m.buf.size) := by omega
      rw [if_neg h2, if_neg this]

theorem genPadH_step_size (m : Mem) (t0 w pw : Nat) :
    ((m.memsetCell (t0 - pw) t0 pw).memsetCell (t0 + w) (t0 + w - 1) pw).buf.size = m.buf.size := by
  simp only [Mem.memsetCell_buf, size_memsetA]

theorem genPadH_frame (m : Mem) (t0 S w pw n j : Nat) (hw : 1 ≤ w) (hp : pw ≤ t0)
    (hj : ∀ i, i < n → (j < t0 + i * S - pw ∨ t0 + i * S ≤ j) ∧ (j < t0 + i * S + w ∨ t0 + i * S + w + pw ≤ j)) :
    rd (genPadH m t0 S w pw n).buf j = rd m.buf j := by
  induction n generalizing m t0 with
  | zero => rfl
  | succ n ih =>
    simp only [genPadH]
    rw [ih]
    · have h0 := hj 0 (by omega)
      rw [genPadH_step m t0 w pw j hw hp]
      have a1 : ¬ (t0 + w ≤ j ∧ j < t0 + w + pw ∧ j < m.buf.size) := by omega
      have a2 : ¬ (t0 - pw ≤ j ∧ j < t0 ∧ j < m.buf.size) := by omega
      rw [if_neg a1, if_neg a2]
    · omega
    · intro i hi
      have := hj (i + 1) (by omega)
      rw [succ_mul'] at this
      have e : t0 + S + i * S = t0 + (S + i * S) := by omega
      rw [e]; exact this

theorem genPadH_valL (m : Mem) (t0 S w pw n i x : Nat) (hw : 1 ≤ w) (hp : pw ≤ t0) (hS : w + 2 * pw ≤ S)
    (hi : i < n) (hx : x < pw) (hin : t0 + i * S < m.buf.size) :
    rd (genPadH m t0 S w pw n).buf (t0 + i * S - pw + x) = rd m.buf (t0 + i * S) := by
  induction n generalizing m t0 i with
  | zero => omega
  | succ n ih =>
    simp only [genPadH]
    cases i with
    | zero =>
      rw [genPadH_frame _ _ _ _ _ _ _ hw (by omega)]
      · rw [genPadH_step m t0 w pw _ hw hp]
        have a1 : ¬ (t0 + w ≤ t0 + 0 * S - pw + x ∧ t0 + 0 * S - pw + x < t0 + w + pw ∧ t0 + 0 * S - pw + x < m.buf.size) := by omega
        have a2 : t0 - pw ≤ t0 + 0 * S - pw + x ∧ t0 + 0 * S - pw + x < t0 ∧ t0 + 0 * S - pw + x < m.buf.size := by omega
        rw [if_neg a1, if_pos a2]
        congr 1; omega
      · intro i' _
        have : 0 ≤ i' * S := Nat.zero_le _
        constructor <;> (left; omega)
    | succ i' =>
      have e1 : t0 + (i' + 1) * S - pw + x = (t0 + S) + i' * S - pw + x := by rw [succ_mul']; omega
      have e2 : t0 + (i' + 1) * S = (t0 + S) + i' * S := by rw [succ_mul']; omega
      rw [e1, e2, ih]
      · rw [genPadH_step m t0 w pw _ hw hp]
        have a1 : ¬ (t0 + w ≤ t0 + S + i' * S ∧ t0 + S + i' * S < t0 + w + pw ∧ t0 + S + i' * S < m.buf.size) := by omega
        have a2 : ¬ (t0 - pw ≤ t0 + S + i' * S ∧ t0 + S + i' * S < t0 ∧ t0 + S + i' * S < m.buf.size) := by omega
        rw [if_neg a1, if_neg a2]
      · omega
      · omega
      · rw [genPadH_step_size]; omega

theorem genPadH_valR (m : Mem) (t0 S w pw n i x : Nat) (hw : 1 ≤ w) (hp : pw ≤ t0) (hS : w + 2 * pw ≤ S)
    (hi : i < n) (hx : x < pw) (hin : t0 + i * S + w + x < m.buf.size) :
    rd (genPadH m t0 S w pw n).buf (t0 + i * S + w + x) = rd m.buf (t0 + i * S + w - 1) := by
  induction n generalizing m t0 i with
  | zero => omega
  | succ n ih =>
    simp only [genPadH]
    cases i with
    | zero =>
      rw [genPadH_frame _ _ _ _ _ _ _ hw (by omega)]
      · rw [genPadH_step m t0 w pw _ hw hp]
        have a1 : t0 + w ≤ t0 + 0 * S + w + x ∧ t0 + 0 * S + w + x < t0 + w + pw ∧ t0 + 0 * S + w + x < m.buf.size := by omega
        rw [if_pos a1]
        congr 1; omega
      · intro i' _
        have : 0 ≤ i' * S := Nat.zero_le _
        constructor <;> (left; omega)
    | succ i' =>
      have e1 : t0 + (i' + 1) * S + w + x = (t0 + S) + i' * S + w + x := by rw [succ_mul']; omega
      have e2 : t0 + (i' + 1) * S + w - 1 = (t0 + S) + i' * S + w - 1 := by rw [succ_mul']; omega
      rw [e1, e2, ih]
      · rw [genPadH_step m t0 w pw _ hw hp]
        have a1 : ¬ (t0 + w ≤ t0 + S + i' * S + w - 1 ∧ t0 + S + i' * S + w - 1 < t0 + w + pw ∧ t0 + S + i' * S + w - 1 < m.buf.size) := by omega
        have a2 : ¬ (t0 - pw ≤ t0 + S + i' * S + w - 1 ∧ t0 + S + i' * S + w - 1 < t0 ∧ t0 + S + i' * S + w - 1 < m.buf.size) := by omega
        rw [if_neg a1, if_neg a2]
      · omega
      · omega
      · rw [genPadH_step_size]; omega

/-! ### generate_padding: vertical loop -/

theorem genPadV_size (m : Mem) (t0 t1 t2 t3 S v : Nat) : (genPadV m t0 t1 t2 t3 S v).buf.size = m.buf.size := by
  induction v generalizing m t2 t3 with
  | zero => rfl
  | succ v ih => simp [genPadV, ih, size_memcpyA]

/-- one iteration of the vertical loop, pointwise -/
theorem genPadV_step (m : Mem) (t0 t1 t2 t3 S j : Nat) (h2 : S ≤ t2) (h20 : t2 ≤ t0) (h01 : t0 ≤ t1) (h13 : t1 ≤ t3) :
    rd ((m.memcpySelf (t2 - S) t0 S).memcpySelf (t3 + S) t1 S).buf j =
      if t3 + S ≤ j ∧ j < t3 + S + S ∧ j < m.buf.size then rd m.buf (t1 + (j - (t3 + S)))
      else if t2 - S ≤ j ∧ j < t2 ∧ j < m.buf.size then rd m.buf (t0 + (j - (t2 - S))) else rd m.buf j := by
  simp only [Mem.memcpySelf_buf, rd_memcpyA, size_memcpyA]
  by_cases c1 : t3 + S ≤ j ∧ j < t3 + S + S ∧ j < m.buf.size
  · rw [if_pos c1, if_pos c1]
    have : ¬ (t2 - S ≤ t1 + (j - (t3 + S)) ∧ t1 + (j - (t3 + S)) < t2 - S + S ∧ t1 + (j - (t3 + S)) < m.buf.size) := by omega
    rw [if_neg this]
  · rw [if_neg c1, if_neg c1]
    by_cases c2 : t2 - S ≤ j ∧ j < t2 ∧ j < m.buf.size
    · have : t2 - S ≤ j ∧ j < t2 - S + S ∧ j < m.buf.size := by omega
      rw [if_pos c2, if_pos this]
    · have : ¬ (t2 - S ≤ j ∧ j < t2 - S + S ∧ j < m.buf.size) := by omega
      rw [if_neg c2, if_neg this]

theorem genPadV_step_size (m : Mem) (t0 t1 t2 t3 S : Nat) :
    ((m.memcpySelf (t2 - S) t0 S).memcpySelf (t3 + S) t1 S).buf.size = m.buf.size := by
  simp only [Mem.memcpySelf_buf, size_memcpyA]

theorem sub_succ_mul (t k S : Nat) : t - (k + 1) * S = (t - S) - k * S := by
  rw [succ_mul', Nat.sub_add_eq]

theorem genPadV_frame (m : Mem) (t0 t1 t2 t3 S v j : Nat) (hv : v * S ≤ t2) (h20 : t2 ≤ t0) (h01 : t0 ≤ t1) (h13 : t1 ≤ t3)
    (hj : ∀ k, 1 ≤ k → k ≤ v → (j < t2 - k * S ∨ t2 - k * S + S ≤ j) ∧ (j < t3 + k * S ∨ t3 + k * S + S ≤ j)) :
    rd (genPadV m t0 t1 t2 t3 S v).buf j = rd m.buf j := by
  induction v generalizing m t2 t3 with
  | zero => rfl
  | succ v ih =>
    simp only [genPadV]
    rw [succ_mul'] at hv
    rw [ih]
    · have h1 := hj 1 (by omega) (by omega)
      rw [genPadV_step m t0 t1 t2 t3 S j (by omega) h20 h01 h13]
      have a1 : ¬ (t3 + S ≤ j ∧ j < t3 + S + S ∧ j < m.buf.size) := by omega
      have a2 : ¬ (t2 - S ≤ j ∧ j < t2 ∧ j < m.buf.size) := by omega
      rw [if_neg a1, if_neg a2]
    · omega
    · omega
    · omega
    · intro k hk1 hk2
      have := hj (k + 1) (by omega) (by omega)
      rw [sub_succ_mul, succ_mul'] at this
      have e : t3 + S + k * S = t3 + (S + k * S) := by omega
      rw [e]; exact this

theorem genPadV_valT (m : Mem) (t0 t1 t2 t3 S v k x : Nat) (hv : v * S ≤ t2) (h20 : t2 ≤ t0) (h01 : t0 ≤ t1) (h13 : t1 ≤ t3)
    (hk1 : 1 ≤ k) (hk2 : k ≤ v) (hx : x < S) (hin : t0 + x < m.buf.size) :
    rd (genPadV m t0 t1 t2 t3 S v).buf (t2 - k * S + x) = rd m.buf (t0 + x) := by
  induction v generalizing m t2 t3 k with
  | zero => omega
  | succ v ih =>
    simp only [genPadV]
    have hv' := hv
    rw [succ_mul'] at hv'
    by_cases hk : k = 1
    · subst hk
      rw [genPadV_frame _ _ _ _ _ _ _ _ (by omega) (by omega) h01 (by omega)]
      · rw [genPadV_step m t0 t1 t2 t3 S _ (by omega) h20 h01 h13]
        have a1 : ¬ (t3 + S ≤ t2 - 1 * S + x ∧ t2 - 1 * S + x < t3 + S + S ∧ t2 - 1 * S + x < m.buf.size) := by omega
        have a2 : t2 - S ≤ t2 - 1 * S + x ∧ t2 - 1 * S + x < t2 ∧ t2 - 1 * S + x < m.buf.size := by omega
        rw [if_neg a1, if_pos a2]
        congr 1; omega
      · intro k' hk'1 hk'2
        have := row_sep 0 k' S (by omega)
        have := Nat.mul_le_mul_right S hk'2
        constructor
        · right; omega
        · left; omega
    · obtain ⟨k', rfl⟩ : ∃ k', k = k' + 1 := ⟨k - 1, by omega⟩
      rw [sub_succ_mul, ih]
      · rw [genPadV_step m t0 t1 t2 t3 S _ (by omega) h20 h01 h13]
        have a1 : ¬ (t3 + S ≤ t0 + x ∧ t0 + x < t3 + S + S ∧ t0 + x < m.buf.size) := by omega
        have a2 : ¬ (t2 - S ≤ t0 + x ∧ t0 + x < t2 ∧ t0 + x < m.buf.size) := by omega
        rw [if_neg a1, if_neg a2]
      · omega
      · omega
      · omega
      · omega
      · omega
      · rw [genPadV_step_size]; omega

theorem genPadV_valB (m : Mem) (t0 t1 t2 t3 S v k x : Nat) (hv : v * S ≤ t2) (h20 : t2 ≤ t0) (h01 : t0 ≤ t1) (h13 : t1 ≤ t3)
    (hk1 : 1 ≤ k) (hk2 : k ≤ v) (hx : x < S) (hin : t3 + k * S + x < m.buf.size) :
    rd (genPadV m t0 t1 t2 t3 S v).buf (t3 + k * S + x) = rd m.buf (t1 + x) := by
  induction v generalizing m t2 t3 k with
  | zero => omega
  | succ v ih =>
    simp only [genPadV]
    have hv' := hv
    rw [succ_mul'] at hv'
    by_cases hk : k = 1
    · subst hk
      rw [genPadV_frame _ _ _ _ _ _ _ _ (by omega) (by omega) h01 (by omega)]
      · rw [genPadV_step m t0 t1 t2 t3 S _ (by omega) h20 h01 h13]
        have a1 : t3 + S ≤ t3 + 1 * S + x ∧ t3 + 1 * S + x < t3 + S + S ∧ t3 + 1 * S + x < m.buf.size := by omega
        rw [if_pos a1]
        congr 1; omega
      · intro k' hk'1 hk'2
        have := row_sep 0 k' S (by omega)
        constructor
        · right; omega
        · left; omega
    · obtain ⟨k', rfl⟩ : ∃ k', k = k' + 1 := ⟨k - 1, by omega⟩
      have e1 : t3 + (k' + 1) * S + x = (t3 + S) + k' * S + x := by rw [succ_mul']; omega
      rw [e1, ih]
      · rw [genPadV_step m t0 t1 t2 t3 S _ (by omega) h20 h01 h13]
        have a1 : ¬ (t3 + S ≤ t1 + x ∧ t1 + x < t3 + S + S ∧ t1 + x < m.buf.size) := by omega
        have a2 : ¬ (t2 - S ≤ t1 + x ∧ t1 + x < t2 ∧ t1 + x < m.buf.size) := by omega
        rw [if_neg a1, if_neg a2]
      · omega
      · omega
      · omega
      · omega
      · omega
      · rw [genPadV_step_size]; omega

/-! ### stages of one plane: what is known about the buffer after each loop
    `P` = offset of the plane origin, `Q = P - ox` = start of the origin's row, `f x y` = visible sample. -/

theorem stage_copy (m : Mem) (src : Buf) (P S ss w h : Nat) (hws : w ≤ ss) (hwS : w ≤ S)
    (hin : ∀ y x, y < h → x < w → P + y * S + x < m.buf.size) :
    ∀ y x, y < h → x < w → rd (copyRows m src P 0 S ss h).buf (P + y * S + x) = vis src ss x y := by
  intro y x hy hx
  rw [copyRows_val m src P 0 S ss h y x hy (by omega) (by omega) (hin y x hy hx)]
  unfold vis; congr 1; omega

theorem stage_padRight (m : Mem) (f : Nat → Nat → Nat) (P S w h pr : Nat) (hw : 1 ≤ w) (hS : w + pr ≤ S)
    (hin : ∀ y x, y < h → x < w + pr → P + y * S + x < m.buf.size)
    (h0 : ∀ y x, y < h → x < w → rd m.buf (P + y * S + x) = f x y) :
    ∀ y x, y < h → x < w + pr → rd (padRightLoop m P S w pr h).buf (P + y * S + x) = f (min x (w - 1)) y := by
  intro y x hy hx
  by_cases hxw : x < w
  · rw [padRightLoop_frame]
    · rw [h0 y x hy hxw]; congr 1; omega
    · intro i hi
      rcases Nat.lt_trichotomy i y with h1 | h1 | h1
      · have := row_sep i y S h1; right; omega
      · subst h1; left; omega
      · have := row_sep y i S h1; left; omega
  · obtain ⟨x', rfl⟩ : ∃ x', x = w + x' := ⟨x - w, by omega⟩
    have e : P + y * S + (w + x') = P + y * S + w + x' := by omega
    have hb := hin y (w + x') hy hx
    rw [e, padRightLoop_val m P S w pr h y x' hw hS hy (by omega) (by omega)]
    have e2 : P + y * S + w - 1 = P + y * S + (w - 1) := by omega
    rw [e2, h0 y (w - 1) hy (by omega)]; congr 1; omega

theorem stage_padBottom (m : Mem) (f : Nat → Nat → Nat) (P S n h pb : Nat) (hh : 1 ≤ h) (hS : n ≤ S)
    (hin : ∀ y x, y < h + pb → x < n → P + y * S + x < m.buf.size)
    (h0 : ∀ y x, y < h → x < n → rd m.buf (P + y * S + x) = f x y) :
    ∀ y x, y < h + pb → x < n →
      rd (padBottomLoop m (P + (h - 1) * S) (P + (h - 1) * S) S n pb).buf (P + y * S + x) = f x (min y (h - 1)) := by
  intro y x hy hx
  obtain ⟨h', rfl⟩ : ∃ h', h = h' + 1 := ⟨h - 1, by omega⟩
  simp only [Nat.add_sub_cancel]
  by_cases hyl : y < h' + 1
  · rw [padBottomLoop_frame]
    · rw [h0 y x hyl hx]; congr 1; omega
    · intro k hk1 hk2
      left
      have e : P + h' * S + k * S = P + (h' + k) * S := by rw [Nat.add_mul]; omega
      rw [e]
      have := row_sep y (h' + k) S (by omega)
      omega
  · obtain ⟨k, rfl⟩ : ∃ k, y = h' + k := ⟨y - h', by omega⟩
    have e : P + (h' + k) * S + x = P + h' * S + k * S + x := by rw [Nat.add_mul]; omega
    have hb := hin (h' + k) x hy hx
    rw [e, padBottomLoop_val m (P + h' * S) (P + h' * S) S n pb k x hS (by omega) (by omega) (by omega) hx
      (by rw [← e]; omega)]
    rw [h0 h' x (by omega) hx]; congr 1; omega

/-- pad_input_picture as a whole (both `if`s) -/
theorem stage_padInput (m : Mem) (f : Nat → Nat → Nat) (P S w h pr pb : Nat) (hw : 1 ≤ w) (hh : 1 ≤ h) (hS : w + pr ≤ S)
    (hin : ∀ y x, y < h + pb → x < w + pr → P + y * S + x < m.buf.size)
    (h0 : ∀ y x, y < h → x < w → rd m.buf (P + y * S + x) = f x y) :
    ∀ y x, y < h + pb → x < w + pr →
      rd (padInputPicture m P S w h pr pb).buf (P + y * S + x) = f (min x (w - 1)) (min y (h - 1)) := by
  -- after the right loop (or nothing when pad_right = 0)
  have h1 : ∀ y x, y < h → x < w + pr →
      rd (if (pr != 0) = true then padRightLoop m P S w pr h else m).buf (P + y * S + x) = f (min x (w - 1)) y := by
    by_cases hpr : pr = 0
    · subst hpr
      intro y x hy hx
      simp only [bne_self_eq_false, Bool.false_eq_true, ↓reduceIte]
      rw [h0 y x hy (by omega)]; congr 1; omega
    · have : (pr != 0) = true := by simp [hpr]
      simp only [this, ↓reduceIte]
      exact stage_padRight m f P S w h pr hw hS (fun y x hy hx => hin y x (by omega) hx) h0
  have hsz1 : (if (pr != 0) = true then padRightLoop m P S w pr h else m).buf.size = m.buf.size := by
    split
    · exact padRightLoop_size ..
    · rfl
  unfold padInputPicture
  by_cases hpb : pb = 0
  · subst hpb
    intro y x hy hx
    simp only [bne_self_eq_false, Bool.false_eq_true, ↓reduceIte]
    rw [h1 y x (by omega) hx]; congr 1; omega
  · have : (pb != 0) = true := by simp [hpb]
    simp only [this, ↓reduceIte]
    intro y x hy hx
    exact stage_padBottom _ (fun x y => f (min x (w - 1)) y) P S (w + pr) h pb hh hS (by rw [hsz1]; exact hin) h1 y x hy hx

theorem padInputPicture_size (m : Mem) (P S w h pr pb : Nat) : (padInputPicture m P S w h pr pb).buf.size = m.buf.size := by
  unfold padInputPicture
  split <;> split <;> simp [padBottomLoop_size, padRightLoop_size]

theorem stage_genPadH (m : Mem) (f : Nat → Nat → Nat) (Q S w8 ox n : Nat) (hw : 1 ≤ w8) (hS : S = ox + w8 + ox)
    (hin : Q + n * S ≤ m.buf.size)
    (h0 : ∀ y x, y < n → x < w8 → rd m.buf (Q + ox + y * S + x) = f x y) :
    ∀ y c, y < n → c < S →
      rd (genPadH m (Q + ox) S w8 ox n).buf (Q + y * S + c) = f (clampTo ox w8 c) y := by
  intro y c hy hc
  have hyn := row_sep y n S hy
  unfold clampTo
  by_cases c1 : c < ox
  · -- left border
    have e : Q + y * S + c = Q + ox + y * S - ox + c := by omega
    rw [e, genPadH_valL m (Q + ox) S w8 ox n y c hw (by omega) (by omega) hy c1 (by omega)]
    rw [if_pos c1]
    have := h0 y 0 hy (by omega)
    rw [Nat.add_zero] at this
    rw [this]
  · rw [if_neg c1]
    by_cases c2 : c < ox + w8
    · -- inside: untouched
      obtain ⟨x, rfl⟩ : ∃ x, c = ox + x := ⟨c - ox, by omega⟩
      rw [genPadH_frame _ _ _ _ _ _ _ hw (by omega)]
      · have e : Q + y * S + (ox + x) = Q + ox + y * S + x := by omega
        rw [e, h0 y x hy (by omega)]; congr 1; omega
      · intro i hi
        rcases Nat.lt_trichotomy i y with h1 | h1 | h1
        · have := row_sep i y S h1; constructor <;> (right; omega)
        · subst h1; constructor
          · right; omega
          · left; omega
        · have := row_sep y i S h1; constructor <;> (left; omega)
    · -- right border
      obtain ⟨x, rfl⟩ : ∃ x, c = ox + w8 + x := ⟨c - (ox + w8), by omega⟩
      have e : Q + y * S + (ox + w8 + x) = Q + ox + y * S + w8 + x := by omega
      rw [e, genPadH_valR m (Q + ox) S w8 ox n y x hw (by omega) (by omega) hy (by omega) (by omega)]
      have e2 : Q + ox + y * S + w8 - 1 = Q + ox + y * S + (w8 - 1) := by omega
      rw [e2, h0 y (w8 - 1) hy (by omega)]; congr 1; omega

theorem stage_genPadV (m : Mem) (g : Nat → Nat → Nat) (S oy h8 : Nat) (hh : 1 ≤ h8)
    (hin : (oy + h8 + oy) * S ≤ m.buf.size)
    (h0 : ∀ y c, y < h8 → c < S → rd m.buf (oy * S + y * S + c) = g c y) :
    ∀ r c, r < oy + h8 + oy → c < S →
      rd (genPadV m (oy * S) ((oy + h8 - 1) * S) (oy * S) ((oy + h8 - 1) * S) S oy).buf (r * S + c) = g c (clampTo oy h8 r) := by
  intro r c hr hc
  obtain ⟨h', rfl⟩ : ∃ h', h8 = h' + 1 := ⟨h8 - 1, by omega⟩
  have e0 : oy + (h' + 1) - 1 = oy + h' := by omega
  rw [e0]
  have hrn := row_sep r (oy + (h' + 1) + oy) S hr
  have hA : (oy + h') * S = oy * S + h' * S := Nat.add_mul ..
  have hle : oy * S ≤ (oy + h') * S := by omega
  have hB : (oy + (h' + 1) + oy) * S = oy * S + h' * S + S + oy * S := by
    rw [Nat.add_mul, Nat.add_mul, succ_mul']; omega
  unfold clampTo
  by_cases c1 : r < oy
  · -- top border: copy of row oy
    rw [if_pos c1]
    obtain ⟨k, hk⟩ : ∃ k, oy = r + k := ⟨oy - r, by omega⟩
    have e : r * S + c = oy * S - k * S + c := by rw [hk, Nat.add_mul]; omega
    have hkS : k * S ≤ oy * S := Nat.mul_le_mul_right S (by omega)
    rw [e, genPadV_valT m (oy * S) ((oy + h') * S) (oy * S) ((oy + h') * S) S oy k c (Nat.le_refl _) (Nat.le_refl _) hle
      (Nat.le_refl _) (by omega) (by omega) hc (by omega)]
    have := h0 0 c (by omega) hc
    rw [Nat.zero_mul, Nat.add_zero] at this
    exact this
  · rw [if_neg c1]
    by_cases c2 : r < oy + (h' + 1)
    · -- picture rows: untouched
      obtain ⟨y, rfl⟩ : ∃ y, r = oy + y := ⟨r - oy, by omega⟩
      rw [genPadV_frame m (oy * S) ((oy + h') * S) (oy * S) ((oy + h') * S) S oy _ (Nat.le_refl _) (Nat.le_refl _) hle (Nat.le_refl _)]
      · have e : (oy + y) * S + c = oy * S + y * S + c := by rw [Nat.add_mul]
        rw [e, h0 y c (by omega) hc]; congr 1; omega
      · intro k hk1 hk2
        have e : (oy + y) * S = oy * S + y * S := Nat.add_mul ..
        have hkS : k * S ≤ oy * S := Nat.mul_le_mul_right S hk2
        have h1S := row_sep 0 k S (by omega)
        have hyS : y * S ≤ h' * S := Nat.mul_le_mul_right S (by omega)
        constructor
        · right; omega
        · left; omega
    · -- bottom border: copy of the last picture row
      obtain ⟨k, hk⟩ : ∃ k, r = oy + h' + k := ⟨r - (oy + h'), by omega⟩
      have e : r * S + c = (oy + h') * S + k * S + c := by rw [hk, Nat.add_mul]
      rw [e, genPadV_valB m (oy * S) ((oy + h') * S) (oy * S) ((oy + h') * S) S oy k c (Nat.le_refl _) (Nat.le_refl _) hle
        (Nat.le_refl _) (by omega) (by omega) hc (by rw [← e]; omega)]
      rw [hA, h0 h' c (by omega) hc]; congr 1; omega

/-! ### cells beyond the last row a loop touches keep their value -/

theorem padInputPicture_frame (m : Mem) (P S w h pr pb j : Nat) (hh : 1 ≤ h) (hS : w + pr ≤ S)
    (hj : P + (h + pb - 1) * S + w + pr ≤ j) :
    rd (padInputPicture m P S w h pr pb).buf j = rd m.buf j := by
  obtain ⟨h', rfl⟩ : ∃ h', h = h' + 1 := ⟨h - 1, by omega⟩
  have e0 : h' + 1 + pb - 1 = h' + pb := by omega
  rw [e0, Nat.add_mul] at hj
  unfold padInputPicture
  have h1 : rd (if (pr != 0) = true then padRightLoop m P S w pr (h' + 1) else m).buf j = rd m.buf j := by
    split
    · apply padRightLoop_frame
      intro i hi
      have := Nat.mul_le_mul_right S (show i ≤ h' by omega)
      right; omega
    · rfl
  by_cases hpb : pb = 0
  · subst hpb
    simp only [bne_self_eq_false, Bool.false_eq_true, ↓reduceIte]
    exact h1
  · have : (pb != 0) = true := by simp [hpb]
    simp only [this, ↓reduceIte]
    rw [padBottomLoop_frame, h1]
    intro k hk1 hk2
    have := Nat.mul_le_mul_right S hk2
    simp only [Nat.add_sub_cancel]
    right; omega

theorem generatePadding_size (m : Mem) (S w h pw ph : Nat) : (generatePadding m 0 S w h pw ph).buf.size = m.buf.size := by
  simp only [generatePadding, genPadV_size, genPadH_size]

theorem generatePadding_frame (m : Mem) (S w8 h8 ox oy j : Nat) (hw : 1 ≤ w8) (hh : 1 ≤ h8) (hS : S = ox + w8 + ox)
    (hj : (oy + h8 + oy) * S ≤ j) :
    rd (generatePadding m 0 S w8 h8 ox oy).buf j = rd m.buf j := by
  obtain ⟨h', rfl⟩ : ∃ h', h8 = h' + 1 := ⟨h8 - 1, by omega⟩
  have hB : (oy + (h' + 1) + oy) * S = oy * S + h' * S + S + oy * S := by
    rw [Nat.add_mul, Nat.add_mul, succ_mul']; omega
  have hA : (oy + h') * S = oy * S + h' * S := Nat.add_mul ..
  simp only [generatePadding, Nat.zero_add]
  have e0 : oy + (h' + 1) - 1 = oy + h' := by omega
  rw [e0, genPadV_frame _ _ _ _ _ _ _ _ (Nat.le_refl _) (Nat.le_refl _) (by omega) (Nat.le_refl _)]
  · rw [genPadH_frame _ _ _ _ _ _ _ hw (by omega)]
    intro i hi
    have := Nat.mul_le_mul_right S (show i ≤ h' by omega)
    constructor <;> (right; omega)
  · intro k hk1 hk2
    have := Nat.mul_le_mul_right S hk2
    constructor <;> (right; omega)

/-! ### one 8-bit plane: closed form of the whole pipeline -/

theorem clamp_min (o n n8 c : Nat) (h : n ≤ n8) : min (clampTo o n8 c) (n - 1) = clampTo o n c := by
  unfold clampTo; split <;> omega

/-- geometry facts shared by the plane theorems -/
theorem cell_in (S oy h8 ox w8 y x sz : Nat) (hS : S = ox + w8 + ox) (hsz : (oy + h8 + oy) * S ≤ sz)
    (hy : y < h8) (hx : x < w8) : oy * S + ox + y * S + x < sz := by
  have := row_sep (oy + y) (oy + h8 + oy) S (by omega)
  rw [Nat.add_mul] at this; omega

theorem pad_stages_spec (m : Mem) (f : Nat → Nat → Nat) (S ox oy w h pr pb : Nat)
    (hw : 1 ≤ w) (hh : 1 ≤ h) (hS : S = ox + (w + pr) + ox)
    (hin : (oy + (h + pb) + oy) * S ≤ m.buf.size)
    (h0 : ∀ y x, y < h → x < w → rd m.buf (oy * S + ox + y * S + x) = f x y) :
    ∀ r c, r < oy + (h + pb) + oy → c < S →
      rd (generatePadding (padInputPicture m (ox + oy * S) S w h pr pb) 0 S (w + pr) (h + pb) ox oy).buf (r * S + c)
        = padSpec f ox oy w h r c := by
  intro r c hr hc
  rw [Nat.add_comm ox (oy * S)]
  have s2 := stage_padInput m f (oy * S + ox) S w h pr pb hw hh (by omega)
    (fun y x hy hx => cell_in S oy (h + pb) ox (w + pr) y x _ hS hin hy hx) h0
  have hsz2 := padInputPicture_size m (oy * S + ox) S w h pr pb
  have hrows : (h + pb) * S ≤ (oy + (h + pb) + oy) * S := Nat.mul_le_mul_right S (by omega)
  have hB : (oy + (h + pb) + oy) * S = oy * S + (h + pb) * S + oy * S := by rw [Nat.add_mul, Nat.add_mul]
  have s3 := stage_genPadH (padInputPicture m (oy * S + ox) S w h pr pb)
    (fun x y => f (min x (w - 1)) (min y (h - 1))) (oy * S) S (w + pr) ox (h + pb) (by omega) hS
    (by rw [hsz2]; omega) s2
  have hsz3 := genPadH_size (padInputPicture m (oy * S + ox) S w h pr pb) (oy * S + ox) S (w + pr) ox (h + pb)
  have s4 := stage_genPadV (genPadH (padInputPicture m (oy * S + ox) S w h pr pb) (oy * S + ox) S (w + pr) ox (h + pb))
    (fun c y => f (min (clampTo ox (w + pr) c) (w - 1)) (min y (h - 1))) S oy (h + pb) (by omega)
    (by rw [hsz3, hsz2]; exact hin) s3 r c hr hc
  simp only [generatePadding, Nat.zero_add]
  rw [Nat.add_comm ox (oy * S)] at *
  rw [s4]
  unfold padSpec
  rw [clamp_min ox w (w + pr) c (by omega), clamp_min oy h (h + pb) r (by omega)]

theorem planeIn8_size (m : Mem) (src : Buf) (S ox oy w h pr pb ss : Nat) :
    (planeIn8 m src S ox oy w h pr pb ss).buf.size = m.buf.size := by
  simp only [planeIn8, generatePadding_size, padInputPicture_size, copyRows_size]

/-- **closed form**: every cell of the padded region is the edge-replicated visible picture -/
theorem planeIn8_spec (m : Mem) (src : Buf) (S ox oy w h pr pb ss : Nat)
    (hw : 1 ≤ w) (hh : 1 ≤ h) (hS : S = ox + (w + pr) + ox) (hws : w ≤ ss)
    (hin : (oy + (h + pb) + oy) * S ≤ m.buf.size) :
    ∀ r c, r < oy + (h + pb) + oy → c < S →
      rd (planeIn8 m src S ox oy w h pr pb ss).buf (r * S + c) = padSpec (vis src ss) ox oy w h r c := by
  unfold planeIn8
  rw [Nat.mul_comm S oy]
  apply pad_stages_spec _ _ S ox oy w h pr pb hw hh hS (by rw [copyRows_size]; exact hin)
  exact stage_copy m src (oy * S + ox) S ss w h hws (by omega)
    (fun y x hy hx => cell_in S oy (h + pb) ox (w + pr) y x _ hS hin (by omega) (by omega))

/-- cells below the regenerated region are untouched as long as the last copied row (all `ss` bytes of it)
    ends inside the region -/
theorem planeIn8_frame (m : Mem) (src : Buf) (S ox oy w h pr pb ss j : Nat)
    (hw : 1 ≤ w) (hh : 1 ≤ h) (hS : S = ox + (w + pr) + ox)
    (hspill : oy * S + ox + (h - 1) * S + ss ≤ (oy + (h + pb) + oy) * S)
    (hj : (oy + (h + pb) + oy) * S ≤ j) :
    rd (planeIn8 m src S ox oy w h pr pb ss).buf j = rd m.buf j := by
  unfold planeIn8
  obtain ⟨h', rfl⟩ : ∃ h', h = h' + 1 := ⟨h - 1, by omega⟩
  simp only [Nat.add_sub_cancel] at hspill
  have hB : (oy + (h' + 1 + pb) + oy) * S = oy * S + h' * S + S + pb * S + oy * S := by
    rw [Nat.add_mul, Nat.add_mul, Nat.add_mul, succ_mul']; omega
  rw [generatePadding_frame _ S (w + pr) (h' + 1 + pb) ox oy j (by omega) (by omega) hS hj]
  rw [padInputPicture_frame _ _ S w (h' + 1) pr pb j (by omega) (by omega)]
  · rw [Nat.mul_comm S oy]
    apply copyRows_frame
    intro i hi
    have := Nat.mul_le_mul_right S (show i ≤ h' by omega)
    right; omega
  · have e0 : h' + 1 + pb - 1 = h' + pb := by omega
    rw [e0, Nat.add_mul]; omega

/-! ### bounds: when does a loop stay inside its allocations (`ok`) -/

theorem inb_iff (size off n : Nat) : inb size off n = true ↔ (n = 0 ∨ off + n ≤ size) := by
  simp [inb]

/-- **exact** bounds condition of the row copy: the last row decides (`n` rows of `sS` cells) -/
theorem copyRows_ok (m : Mem) (src : Buf) (d0 s0 dS sS n : Nat) :
    (copyRows m src d0 s0 dS sS n).ok = true ↔
      m.ok = true ∧ (n = 0 ∨ sS = 0 ∨ (d0 + (n - 1) * dS + sS ≤ m.buf.size ∧ s0 + (n - 1) * sS + sS ≤ src.size)) := by
  induction n generalizing m d0 s0 with
  | zero => simp [copyRows]
  | succ n ih =>
    simp only [copyRows, ih, Mem.memcpyFrom_ok, Mem.memcpyFrom_buf, size_memcpyA, Bool.and_eq_true, inb_iff,
      Nat.add_sub_cancel]
    cases n with
    | zero =>
      constructor
      · rintro ⟨⟨⟨h1, h2⟩, h3⟩, _⟩
        refine ⟨h1, ?_⟩
        omega
      · rintro ⟨h1, h2⟩
        refine ⟨⟨⟨h1, ?_⟩, ?_⟩, ?_⟩ <;> omega
    | succ n' =>
      simp only [Nat.add_sub_cancel, succ_mul']
      have : 0 ≤ n' * dS := Nat.zero_le _
      have : 0 ≤ n' * sS := Nat.zero_le _
      constructor
      · rintro ⟨⟨⟨h1, h2⟩, h3⟩, h4⟩
        refine ⟨h1, ?_⟩
        omega
      · rintro ⟨h1, h2⟩
        refine ⟨⟨⟨h1, ?_⟩, ?_⟩, ?_⟩ <;> omega

theorem padRightLoop_ok (m : Mem) (t0 S w pr n : Nat) (hw : 1 ≤ w)
    (hb : ∀ i, i < n → t0 + i * S + w + pr ≤ m.buf.size) :
    (padRightLoop m t0 S w pr n).ok = m.ok := by
  induction n generalizing m t0 with
  | zero => rfl
  | succ n ih =>
    simp only [padRightLoop]
    rw [ih]
    · have h0 := hb 0 (by omega)
      simp only [Mem.memsetCell_ok]
      have a1 : decide (t0 + w - 1 < m.buf.size) = true := by simp; omega
      have a2 : inb m.buf.size (t0 + w) pr = true := by rw [inb_iff]; omega
      rw [a1, a2]; simp
    · intro i hi
      have := hb (i + 1) (by omega)
      rw [succ_mul'] at this
      simp only [Mem.memsetCell_buf, size_memsetA]; omega

theorem padBottomLoop_ok (m : Mem) (t0 t1 S n v : Nat) (ht : t0 + n ≤ t1 + S) (h0 : t0 + n ≤ m.buf.size)
    (hb : ∀ k, 1 ≤ k → k ≤ v → t1 + k * S + n ≤ m.buf.size) :
    (padBottomLoop m t0 t1 S n v).ok = m.ok := by
  induction v generalizing m t1 with
  | zero => rfl
  | succ v ih =>
    simp only [padBottomLoop]
    rw [ih]
    · have h1 := hb 1 (by omega) (by omega)
      simp only [Mem.memcpySelf_ok]
      have a1 : inb m.buf.size (t1 + S) n = true := by rw [inb_iff]; omega
      have a2 : inb m.buf.size t0 n = true := by rw [inb_iff]; omega
      have a3 : (n == 0 || decide (t1 + S + n ≤ t0 ∨ t0 + n ≤ t1 + S)) = true := by simp; omega
      rw [a1, a2, a3]; simp
    · omega
    · simp only [Mem.memcpySelf_buf, size_memcpyA]; exact h0
    · intro k hk1 hk2
      have := hb (k + 1) (by omega) (by omega)
      rw [succ_mul'] at this
      simp only [Mem.memcpySelf_buf, size_memcpyA]; omega

theorem padInputPicture_ok (m : Mem) (P S w h pr pb : Nat) (hw : 1 ≤ w) (hh : 1 ≤ h) (hS : w + pr ≤ S)
    (hb : P + (h + pb - 1) * S + w + pr ≤ m.buf.size) :
    (padInputPicture m P S w h pr pb).ok = m.ok := by
  obtain ⟨h', rfl⟩ : ∃ h', h = h' + 1 := ⟨h - 1, by omega⟩
  have e0 : h' + 1 + pb - 1 = h' + pb := by omega
  rw [e0, Nat.add_mul] at hb
  have h1 : (if (pr != 0) = true then padRightLoop m P S w pr (h' + 1) else m).ok = m.ok := by
    split
    · apply padRightLoop_ok _ _ _ _ _ _ hw
      intro i hi
      have := Nat.mul_le_mul_right S (show i ≤ h' by omega)
      omega
    · rfl
  have hsz1 : (if (pr != 0) = true then padRightLoop m P S w pr (h' + 1) else m).buf.size = m.buf.size := by
    split
    · exact padRightLoop_size ..
    · rfl
  unfold padInputPicture
  by_cases hpb : pb = 0
  · subst hpb
    simp only [bne_self_eq_false, Bool.false_eq_true, ↓reduceIte]
    exact h1
  · have : (pb != 0) = true := by simp [hpb]
    simp only [this, ↓reduceIte, Nat.add_sub_cancel]
    rw [padBottomLoop_ok, h1]
    · omega
    · rw [hsz1]; omega
    · intro k hk1 hk2
      have := Nat.mul_le_mul_right S hk2
      rw [hsz1]; omega

theorem genPadH_ok (m : Mem) (t0 S w pw n : Nat) (hw : 1 ≤ w) (hp : pw ≤ t0)
    (hb : ∀ i, i < n → t0 + i * S + w + pw ≤ m.buf.size) :
    (genPadH m t0 S w pw n).ok = m.ok := by
  induction n generalizing m t0 with
  | zero => rfl
  | succ n ih =>
    simp only [genPadH]
    rw [ih]
    · have h0 := hb 0 (by omega)
      simp only [Mem.memsetCell_ok, Mem.memsetCell_buf, size_memsetA]
      have a1 : decide (t0 < m.buf.size) = true := by simp; omega
      have a2 : inb m.buf.size (t0 - pw) pw = true := by rw [inb_iff]; omega
      have a3 : decide (t0 + w - 1 < m.buf.size) = true := by simp; omega
      have a4 : inb m.buf.size (t0 + w) pw = true := by rw [inb_iff]; omega
      rw [a1, a2, a3, a4]; simp
    · omega
    · intro i hi
      have := hb (i + 1) (by omega)
      rw [succ_mul'] at this
      rw [genPadH_step_size]; omega

theorem genPadV_ok (m : Mem) (t0 t1 t2 t3 S v : Nat) (hv : v * S ≤ t2) (h20 : t2 ≤ t0) (h01 : t0 ≤ t1) (h13 : t1 ≤ t3)
    (hb : t3 + v * S + S ≤ m.buf.size) :
    (genPadV m t0 t1 t2 t3 S v).ok = m.ok := by
  induction v generalizing m t2 t3 with
  | zero => rfl
  | succ v ih =>
    simp only [genPadV]
    rw [succ_mul'] at hv hb
    have : 0 ≤ v * S := Nat.zero_le _
    rw [ih]
    · simp only [Mem.memcpySelf_ok, Mem.memcpySelf_buf, size_memcpyA]
      have a1 : inb m.buf.size (t2 - S) S = true := by rw [inb_iff]; omega
      have a2 : inb m.buf.size t0 S = true := by rw [inb_iff]; omega
      have a3 : (S == 0 || decide (t2 - S + S ≤ t0 ∨ t0 + S ≤ t2 - S)) = true := by simp; omega
      have a4 : inb m.buf.size (t3 + S) S = true := by rw [inb_iff]; omega
      have a5 : inb m.buf.size t1 S = true := by rw [inb_iff]; omega
      have a6 : (S == 0 || decide (t3 + S + S ≤ t1 ∨ t1 + S ≤ t3 + S)) = true := by simp; omega
      rw [a1, a2, a3, a4, a5, a6]; simp
    · omega
    · omega
    · omega
    · rw [genPadV_step_size]; omega

theorem generatePadding_ok (m : Mem) (S w8 h8 ox oy : Nat) (hw : 1 ≤ w8) (hh : 1 ≤ h8) (hS : S = ox + w8 + ox)
    (hb : (oy + h8 + oy) * S ≤ m.buf.size) :
    (generatePadding m 0 S w8 h8 ox oy).ok = m.ok := by
  obtain ⟨h', rfl⟩ : ∃ h', h8 = h' + 1 := ⟨h8 - 1, by omega⟩
  have hB : (oy + (h' + 1) + oy) * S = oy * S + h' * S + S + oy * S := by
    rw [Nat.add_mul, Nat.add_mul, succ_mul']; omega
  have hA : (oy + h') * S = oy * S + h' * S := Nat.add_mul ..
  simp only [generatePadding, Nat.zero_add]
  have e0 : oy + (h' + 1) - 1 = oy + h' := by omega
  rw [e0, genPadV_ok _ _ _ _ _ _ _ (Nat.le_refl _) (Nat.le_refl _) (by omega) (Nat.le_refl _)]
  · rw [genPadH_ok _ _ _ _ _ _ hw (by omega)]
    intro i hi
    have := Nat.mul_le_mul_right S (show i ≤ h' by omega)
    omega
  · rw [genPadH_size]; omega

/-- **exact** bounds condition of one 8-bit plane: only the row copy can leave the allocations -/
theorem planeIn8_ok (m : Mem) (src : Buf) (S ox oy w h pr pb ss : Nat)
    (hw : 1 ≤ w) (hh : 1 ≤ h) (hS : S = ox + (w + pr) + ox)
    (hin : (oy + (h + pb) + oy) * S ≤ m.buf.size) :
    (planeIn8 m src S ox oy w h pr pb ss).ok = true ↔
      m.ok = true ∧ (ss = 0 ∨ (S * oy + ox + (h - 1) * S + ss ≤ m.buf.size ∧ h * ss ≤ src.size)) := by
  unfold planeIn8
  obtain ⟨h', rfl⟩ : ∃ h', h = h' + 1 := ⟨h - 1, by omega⟩
  have hB : (oy + (h' + 1 + pb) + oy) * S = oy * S + h' * S + S + pb * S + oy * S := by
    rw [Nat.add_mul, Nat.add_mul, Nat.add_mul, succ_mul']; omega
  rw [generatePadding_ok _ S (w + pr) (h' + 1 + pb) ox oy (by omega) (by omega) hS
        (by rw [padInputPicture_size, copyRows_size]; exact hin),
      padInputPicture_ok _ _ S w (h' + 1) pr pb hw (by omega) (by omega)
        (by rw [copyRows_size]
            have e0 : h' + 1 + pb - 1 = h' + pb := by omega
            rw [e0, Nat.add_mul]; omega),
      copyRows_ok]
  simp only [Nat.add_sub_cancel, Nat.zero_add, succ_mul']
  constructor
  · rintro ⟨h1, h2⟩
    refine ⟨h1, ?_⟩
    omega
  · rintro ⟨h1, h2⟩
    refine ⟨h1, ?_⟩
    omega

/-! ### un_pack2d: the two output allocations evolve independently; each is a "store f(in16[..])" double loop -/

def storeCols (m : Mem) (in16 : Buf) (f : Nat → Nat) (inOff inS o s j : Nat) : Nat → Nat → Mem
  | _, 0 => m
  | k, n + 1 => storeCols (m.storeFrom (o + (k + j * s)) in16 (inOff + (k + j * inS)) f) in16 f inOff inS o s j (k + 1) n

def storeRows (m : Mem) (in16 : Buf) (f : Nat → Nat) (inOff inS o s width : Nat) : Nat → Nat → Mem
  | _, 0 => m
  | j, n + 1 => storeRows (storeCols m in16 f inOff inS o s j 0 width) in16 f inOff inS o s width (j + 1) n

theorem unpackCols_eq (in16 : Buf) (inOff inS o8 s8 on sn j k n : Nat) (m8 mn : Mem) :
    unpackCols in16 inOff inS o8 s8 on sn j k n (m8, mn) =
      (storeCols m8 in16 hi8 inOff inS o8 s8 j k n, storeCols mn in16 lo2 inOff inS on sn j k n) := by
  induction n generalizing m8 mn k with
  | zero => rfl
  | succ n ih => simp only [unpackCols, storeCols, ih]; rfl

theorem unpackRows_eq (in16 : Buf) (inOff inS o8 s8 on sn width j n : Nat) (m8 mn : Mem) :
    unpackRows in16 inOff inS o8 s8 on sn width j n (m8, mn) =
      (storeRows m8 in16 hi8 inOff inS o8 s8 width j n, storeRows mn in16 lo2 inOff inS on sn width j n) := by
  induction n generalizing m8 mn j with
  | zero => rfl
  | succ n ih => simp only [unpackRows, storeRows, unpackCols_eq, ih]

theorem storeCols_size (m : Mem) (in16 : Buf) (f : Nat → Nat) (inOff inS o s j k n : Nat) :
    (storeCols m in16 f inOff inS o s j k n).buf.size = m.buf.size := by
  induction n generalizing m k with
  | zero => rfl
  | succ n ih => simp [storeCols, ih, size_wr]

theorem storeCols_frame (m : Mem) (in16 : Buf) (f : Nat → Nat) (inOff inS o s j k n i : Nat)
    (hi : ∀ k', k ≤ k' → k' < k + n → i ≠ o + (k' + j * s)) :
    rd (storeCols m in16 f inOff inS o s j k n).buf i = rd m.buf i := by
  induction n generalizing m k with
  | zero => rfl
  | succ n ih =>
    simp only [storeCols]
    rw [ih]
    · have := hi k (by omega) (by omega)
      simp only [Mem.storeFrom_buf, rd_wr]
      rw [if_neg]; intro h; exact this h.1.symm
    · intro k' h1 h2; exact hi k' (by omega) (by omega)

theorem storeCols_val (m : Mem) (in16 : Buf) (f : Nat → Nat) (inOff inS o s j k n k' : Nat)
    (h1 : k ≤ k') (h2 : k' < k + n) (hin : o + (k' + j * s) < m.buf.size) :
    rd (storeCols m in16 f inOff inS o s j k n).buf (o + (k' + j * s)) = f (rd in16 (inOff + (k' + j * inS))) := by
  induction n generalizing m k with
  | zero => omega
  | succ n ih =>
    simp only [storeCols]
    by_cases hk : k' = k
    · subst hk
      rw [storeCols_frame]
      · simp only [Mem.storeFrom_buf, rd_wr]
        rw [if_pos (And.intro trivial hin)]
      · intro k'' h3 h4; omega
    · apply ih
      · omega
      · omega
      · simp only [Mem.storeFrom_buf, size_wr]; exact hin

theorem storeRows_size (m : Mem) (in16 : Buf) (f : Nat → Nat) (inOff inS o s width j n : Nat) :
    (storeRows m in16 f inOff inS o s width j n).buf.size = m.buf.size := by
  induction n generalizing m j with
  | zero => rfl
  | succ n ih => simp [storeRows, ih, storeCols_size]

theorem storeRows_frame (m : Mem) (in16 : Buf) (f : Nat → Nat) (inOff inS o s width j n i : Nat)
    (hi : ∀ j' k', j ≤ j' → j' < j + n → k' < width → i ≠ o + (k' + j' * s)) :
    rd (storeRows m in16 f inOff inS o s width j n).buf i = rd m.buf i := by
  induction n generalizing m j with
  | zero => rfl
  | succ n ih =>
    simp only [storeRows]
    rw [ih]
    · apply storeCols_frame
      intro k' _ h2; exact hi j k' (by omega) (by omega) (by omega)
    · intro j' k' h1 h2 h3; exact hi j' k' (by omega) (by omega) h3

theorem storeRows_val (m : Mem) (in16 : Buf) (f : Nat → Nat) (inOff inS o s width j n j' k' : Nat) (hws : width ≤ s)
    (h1 : j ≤ j') (h2 : j' < j + n) (hk : k' < width) (hin : o + (k' + j' * s) < m.buf.size) :
    rd (storeRows m in16 f inOff inS o s width j n).buf (o + (k' + j' * s)) = f (rd in16 (inOff + (k' + j' * inS))) := by
  induction n generalizing m j with
  | zero => omega
  | succ n ih =>
    simp only [storeRows]
    by_cases hj : j' = j
    · subst hj
      rw [storeRows_frame]
      · exact storeCols_val m in16 f inOff inS o s j' 0 width k' (by omega) (by omega) hin
      · intro j'' k'' h3 _ h5
        have := row_sep j' j'' s (by omega)
        omega
    · apply ih
      · omega
      · omega
      · rw [storeCols_size]; exact hin

theorem stage_unpack (m : Mem) (src : Buf) (f : Nat → Nat) (P S ss w h : Nat) (hwS : w ≤ S)
    (hin : ∀ y x, y < h → x < w → P + y * S + x < m.buf.size) :
    ∀ y x, y < h → x < w →
      rd (storeRows m src f 0 ss P S w 0 h).buf (P + y * S + x) = f (vis src ss x y) := by
  intro y x hy hx
  have e : P + y * S + x = P + (x + y * S) := by omega
  rw [e, storeRows_val m src f 0 ss P S w 0 h y x hwS (by omega) (by omega) hx (by rw [← e]; exact hin y x hy hx)]
  unfold vis; congr 2; omega

theorem unPack2d_eq (in16 : Buf) (inOff inS : Nat) (m8 : Mem) (o8 s8 : Nat) (mn : Mem) (on sn w h : Nat) :
    unPack2d in16 inOff inS m8 o8 s8 mn on sn w h =
      (storeRows m8 in16 hi8 inOff inS o8 s8 w 0 h, storeRows mn in16 lo2 inOff inS on sn w 0 h) := by
  simp only [unPack2d, unpackRows_eq]

theorem planeIn10_eq (m8 mn : Mem) (src : Buf) (S ox oy w h pr pb ss : Nat) :
    planeIn10 m8 mn src S ox oy w h pr pb ss =
      (generatePadding (padInputPicture (storeRows m8 src hi8 0 ss (S * oy + ox) S w 0 h) (ox + oy * S) S w h pr pb) 0 S (w + pr) (h + pb) ox oy,
       generatePadding (padInputPicture (storeRows mn src lo2 0 ss (S * oy + ox) S w 0 h) (ox + oy * S) S w h pr pb) 0 S (w + pr) (h + pb) ox oy) := by
  simp only [planeIn10, unPack2d_eq]

/-- closed form of one half (8 MSBs with `f = hi8`, 2 LSBs with `f = lo2`) of a 10-bit plane -/
theorem planeIn10_half_spec (m : Mem) (src : Buf) (f : Nat → Nat) (S ox oy w h pr pb ss : Nat)
    (hw : 1 ≤ w) (hh : 1 ≤ h) (hS : S = ox + (w + pr) + ox)
    (hin : (oy + (h + pb) + oy) * S ≤ m.buf.size) :
    ∀ r c, r < oy + (h + pb) + oy → c < S →
      rd (generatePadding (padInputPicture (storeRows m src f 0 ss (S * oy + ox) S w 0 h) (ox + oy * S) S w h pr pb)
            0 S (w + pr) (h + pb) ox oy).buf (r * S + c)
        = padSpec (fun x y => f (vis src ss x y)) ox oy w h r c := by
  rw [Nat.mul_comm S oy]
  apply pad_stages_spec _ _ S ox oy w h pr pb hw hh hS (by rw [storeRows_size]; exact hin)
  exact stage_unpack m src f (oy * S + ox) S ss w h (by omega)
    (fun y x hy hx => cell_in S oy (h + pb) ox (w + pr) y x _ hS hin (by omega) (by omega))

/-- the 10-bit path writes nothing below the regenerated region, whatever the caller's stride -/
theorem planeIn10_half_frame (m : Mem) (src : Buf) (f : Nat → Nat) (S ox oy w h pr pb ss j : Nat)
    (hw : 1 ≤ w) (hh : 1 ≤ h) (hS : S = ox + (w + pr) + ox)
    (hj : (oy + (h + pb) + oy) * S ≤ j) :
    rd (generatePadding (padInputPicture (storeRows m src f 0 ss (S * oy + ox) S w 0 h) (ox + oy * S) S w h pr pb)
          0 S (w + pr) (h + pb) ox oy).buf j = rd m.buf j := by
  obtain ⟨h', rfl⟩ : ∃ h', h = h' + 1 := ⟨h - 1, by omega⟩
  have hB : (oy + (h' + 1 + pb) + oy) * S = oy * S + h' * S + S + pb * S + oy * S := by
    rw [Nat.add_mul, Nat.add_mul, Nat.add_mul, succ_mul']; omega
  rw [generatePadding_frame _ S (w + pr) (h' + 1 + pb) ox oy j (by omega) (by omega) hS hj]
  rw [padInputPicture_frame _ _ S w (h' + 1) pr pb j (by omega) (by omega)]
  · rw [Nat.mul_comm S oy]
    apply storeRows_frame
    intro j' k' _ h2 h3
    have := Nat.mul_le_mul_right S (show j' ≤ h' by omega)
    omega
  · have e0 : h' + 1 + pb - 1 = h' + pb := by omega
    rw [e0, Nat.add_mul]; omega

/-! ### the frame-level transcription, for the descriptors the API builds, is the plane pipeline on each plane -/

theorem padTo8_mod (n : Nat) : (n + padTo8 n) % 8 = 0 := by
  unfold padTo8
  by_cases h : n % 8 = 0
  · simp [h]
  · simp [h]; omega

theorem padTo8_lt (n : Nat) : padTo8 n < 8 := by
  unfold padTo8
  by_cases h : n % 8 = 0
  · simp [h]
  · simp [h]; omega

theorem padTo8_even (n : Nat) (h : n % 2 = 0) : padTo8 n % 2 = 0 := by
  unfold padTo8
  by_cases h8 : n % 8 = 0
  · simp [h8]
  · simp [h8]; omega

theorem u16_id (x : Nat) (h : x < 65536) : u16 x = x := Nat.mod_eq_of_lt h

theorem pipelineIn8_y (w h sb : Nat) (p : Pic) (io : IoFormat) (hw : w + 144 < 65536) (hh : h < 65536) :
    (pipelineIn (apiDesc w h sb 8) p io).y =
      planeIn8 p.y io.luma (w + padTo8 w + 136) 68 68 w h (padTo8 w) (padTo8 h) (u16 io.yStride) := by
  have m1 := padTo8_mod w
  have m2 := padTo8_mod h
  have l1 := padTo8_lt w
  simp only [pipelineIn, padInputPictures, padPictureToMultipleOfMinBlk, copyFrameBuffer, apiDesc, planeIn8,
    m1, m2, beq_self_eq_true, ↓reduceIte, Nat.le_refl, Nat.lt_irrefl, gt_iff_lt, Nat.add_sub_cancel,
    show ¬ (8 < 8) by omega, show (64 + 4 : Nat) = 68 by rfl, Nat.add_assoc, show (68 + 68 : Nat) = 136 by rfl]
  rw [u16_id _ (by omega), u16_id _ hh]

theorem pipelineIn8_cb (w h sb : Nat) (p : Pic) (io : IoFormat) (hw : w + 144 < 65536) (hh : h < 65536)
    (hwe : w % 2 = 0) (hhe : h % 2 = 0) :
    (pipelineIn (apiDesc w h sb 8) p io).cb =
      planeIn8 p.cb io.cb ((w + padTo8 w + 136) / 2) 34 34 (w / 2) (h / 2) (padTo8 w / 2) (padTo8 h / 2) (u16 io.cbStride) := by
  have m1 := padTo8_mod w
  have m2 := padTo8_mod h
  have l1 := padTo8_lt w
  have e1 := padTo8_even w hwe
  have e2 := padTo8_even h hhe
  simp only [pipelineIn, padInputPictures, padPictureToMultipleOfMinBlk, copyFrameBuffer, apiDesc, planeIn8,
    m1, m2, beq_self_eq_true, ↓reduceIte, Nat.le_refl, Nat.lt_irrefl, gt_iff_lt, Nat.add_sub_cancel,
    show ¬ (8 < 8) by omega, show (64 + 4 : Nat) = 68 by rfl, Nat.add_assoc, show (68 + 68 : Nat) = 136 by rfl,
    Nat.shiftRight_eq_div_pow, Nat.pow_one, show (68 / 2 : Nat) = 34 by rfl]
  rw [u16_id _ (by omega), u16_id _ hh]
  have a1 : (w + padTo8 w) / 2 = w / 2 + padTo8 w / 2 := by omega
  have a2 : (h + padTo8 h) / 2 = h / 2 + padTo8 h / 2 := by omega
  rw [a1, a2]

theorem pipelineIn8_cr (w h sb : Nat) (p : Pic) (io : IoFormat) (hw : w + 144 < 65536) (hh : h < 65536)
    (hwe : w % 2 = 0) (hhe : h % 2 = 0) :
    (pipelineIn (apiDesc w h sb 8) p io).cr =
      planeIn8 p.cr io.cr ((w + padTo8 w + 136) / 2) 34 34 (w / 2) (h / 2) (padTo8 w / 2) (padTo8 h / 2) (u16 io.crStride) := by
  have m1 := padTo8_mod w
  have m2 := padTo8_mod h
  have l1 := padTo8_lt w
  have e1 := padTo8_even w hwe
  have e2 := padTo8_even h hhe
  simp only [pipelineIn, padInputPictures, padPictureToMultipleOfMinBlk, copyFrameBuffer, apiDesc, planeIn8,
    m1, m2, beq_self_eq_true, ↓reduceIte, Nat.le_refl, Nat.lt_irrefl, gt_iff_lt, Nat.add_sub_cancel,
    show ¬ (8 < 8) by omega, show (64 + 4 : Nat) = 68 by rfl, Nat.add_assoc, show (68 + 68 : Nat) = 136 by rfl,
    Nat.shiftRight_eq_div_pow, Nat.pow_one, show (68 / 2 : Nat) = 34 by rfl]
  rw [u16_id _ (by omega), u16_id _ hh]
  have a1 : (w + padTo8 w) / 2 = w / 2 + padTo8 w / 2 := by omega
  have a2 : (h + padTo8 h) / 2 = h / 2 + padTo8 h / 2 := by omega
  rw [a1, a2]

theorem pipelineIn10_y (w h sb : Nat) (p : Pic) (io : IoFormat) (hw : w + 144 < 65536) (hh : h < 65536) :
    ((pipelineIn (apiDesc w h sb 10) p io).y, (pipelineIn (apiDesc w h sb 10) p io).incY) =
      planeIn10 p.y p.incY io.luma (w + padTo8 w + 136) 68 68 w h (padTo8 w) (padTo8 h) (u16 io.yStride) := by
  have m1 := padTo8_mod w
  have m2 := padTo8_mod h
  have l1 := padTo8_lt w
  simp only [pipelineIn, padInputPictures, padPictureToMultipleOfMinBlk, copyFrameBuffer, apiDesc, planeIn10,
    m1, m2, beq_self_eq_true, ↓reduceIte, Nat.le_refl, Nat.lt_irrefl, gt_iff_lt, Nat.add_sub_cancel,
    show ¬ (10 ≤ 8) by omega, show (8 < 10) by omega, show (64 + 4 : Nat) = 68 by rfl, Nat.add_assoc,
    show (68 + 68 : Nat) = 136 by rfl]
  rw [u16_id w (by omega), u16_id h hh]

theorem pipelineIn10_cb (w h sb : Nat) (p : Pic) (io : IoFormat) (hw : w + 144 < 65536) (hh : h < 65536)
    (hwe : w % 2 = 0) (hhe : h % 2 = 0) :
    ((pipelineIn (apiDesc w h sb 10) p io).cb, (pipelineIn (apiDesc w h sb 10) p io).incCb) =
      planeIn10 p.cb p.incCb io.cb ((w + padTo8 w + 136) / 2) 34 34 (w / 2) (h / 2) (padTo8 w / 2) (padTo8 h / 2)
        (u16 io.cbStride) := by
  have m1 := padTo8_mod w
  have m2 := padTo8_mod h
  have l1 := padTo8_lt w
  have e1 := padTo8_even w hwe
  have e2 := padTo8_even h hhe
  simp only [pipelineIn, padInputPictures, padPictureToMultipleOfMinBlk, copyFrameBuffer, apiDesc, planeIn10,
    m1, m2, beq_self_eq_true, ↓reduceIte, Nat.le_refl, Nat.lt_irrefl, gt_iff_lt, Nat.add_sub_cancel,
    show ¬ (10 ≤ 8) by omega, show (8 < 10) by omega, show (64 + 4 : Nat) = 68 by rfl, Nat.add_assoc,
    show (68 + 68 : Nat) = 136 by rfl, Nat.shiftRight_eq_div_pow, Nat.pow_one, show (68 / 2 : Nat) = 34 by rfl]
  rw [u16_id w (by omega), u16_id h hh]
  have a1 : (w + padTo8 w) / 2 = w / 2 + padTo8 w / 2 := by omega
  have a2 : (h + padTo8 h) / 2 = h / 2 + padTo8 h / 2 := by omega
  rw [a1, a2]

theorem pipelineIn10_cr (w h sb : Nat) (p : Pic) (io : IoFormat) (hw : w + 144 < 65536) (hh : h < 65536)
    (hwe : w % 2 = 0) (hhe : h % 2 = 0) :
    ((pipelineIn (apiDesc w h sb 10) p io).cr, (pipelineIn (apiDesc w h sb 10) p io).incCr) =
      planeIn10 p.cr p.incCr io.cr ((w + padTo8 w + 136) / 2) 34 34 (w / 2) (h / 2) (padTo8 w / 2) (padTo8 h / 2)
        (u16 io.crStride) := by
  have m1 := padTo8_mod w
  have m2 := padTo8_mod h
  have l1 := padTo8_lt w
  have e1 := padTo8_even w hwe
  have e2 := padTo8_even h hhe
  simp only [pipelineIn, padInputPictures, padPictureToMultipleOfMinBlk, copyFrameBuffer, apiDesc, planeIn10,
    m1, m2, beq_self_eq_true, ↓reduceIte, Nat.le_refl, Nat.lt_irrefl, gt_iff_lt, Nat.add_sub_cancel,
    show ¬ (10 ≤ 8) by omega, show (8 < 10) by omega, show (64 + 4 : Nat) = 68 by rfl, Nat.add_assoc,
    show (68 + 68 : Nat) = 136 by rfl, Nat.shiftRight_eq_div_pow, Nat.pow_one, show (68 / 2 : Nat) = 34 by rfl]
  rw [u16_id w (by omega), u16_id h hh]
  have a1 : (w + padTo8 w) / 2 = w / 2 + padTo8 w / 2 := by omega
  have a2 : (h + padTo8 h) / 2 = h / 2 + padTo8 h / 2 := by omega
  rw [a1, a2]

/-! ### bounds of the un_pack2d loops -/

theorem storeCols_ok (m : Mem) (in16 : Buf) (f : Nat → Nat) (inOff inS o s j k n : Nat) :
    (storeCols m in16 f inOff inS o s j k n).ok = true ↔
      m.ok = true ∧ (n = 0 ∨ (o + (k + n - 1 + j * s) < m.buf.size ∧ inOff + (k + n - 1 + j * inS) < in16.size)) := by
  induction n generalizing m k with
  | zero => simp [storeCols]
  | succ n ih =>
    simp only [storeCols, ih, Mem.storeFrom_ok, Mem.storeFrom_buf, size_wr, Bool.and_eq_true, decide_eq_true_eq]
    constructor
    · rintro ⟨⟨⟨h1, h2⟩, h3⟩, h4⟩
      refine ⟨h1, ?_⟩
      right
      rcases h4 with h4 | h4
      · subst h4; exact ⟨by omega, by omega⟩
      · have e : k + 1 + n - 1 = k + (n + 1) - 1 := by omega
        rw [e] at h4; exact h4
    · rintro ⟨h1, h2⟩
      rcases h2 with h2 | ⟨h2, h3⟩
      · omega
      · refine ⟨⟨⟨h1, by omega⟩, by omega⟩, ?_⟩
        by_cases hn : n = 0
        · left; exact hn
        · right
          have e : k + 1 + n - 1 = k + (n + 1) - 1 := by omega
          rw [e]; exact ⟨h2, h3⟩

theorem storeRows_ok (m : Mem) (in16 : Buf) (f : Nat → Nat) (inOff inS o s width j n : Nat) :
    (storeRows m in16 f inOff inS o s width j n).ok = true ↔
      m.ok = true ∧ (n = 0 ∨ width = 0 ∨
        (o + (width - 1 + (j + n - 1) * s) < m.buf.size ∧ inOff + (width - 1 + (j + n - 1) * inS) < in16.size)) := by
  induction n generalizing m j with
  | zero => simp [storeRows]
  | succ n ih =>
    simp only [storeRows, ih, storeCols_ok, storeCols_size, Nat.zero_add]
    have e1 : j + (n + 1) - 1 = j + n := by omega
    rw [e1]
    cases n with
    | zero =>
      simp only [Nat.add_zero]
      constructor
      · rintro ⟨⟨h1, h2⟩, _⟩
        exact ⟨h1, Or.inr h2⟩
      · rintro ⟨h1, h2⟩
        rcases h2 with h2 | h2
        · omega
        · exact ⟨⟨h1, h2⟩, Or.inl trivial⟩
    | succ n' =>
      have e2 : j + 1 + (n' + 1) - 1 = j + (n' + 1) := by omega
      rw [e2]
      have ms := Nat.mul_le_mul_right s (show j ≤ j + (n' + 1) by omega)
      have mi := Nat.mul_le_mul_right inS (show j ≤ j + (n' + 1) by omega)
      constructor
      · rintro ⟨⟨h1, h2⟩, h3⟩
        refine ⟨h1, ?_⟩
        rcases h3 with h3 | h3 | h3
        · omega
        · exact Or.inr (Or.inl h3)
        · exact Or.inr (Or.inr h3)
      · rintro ⟨h1, h2⟩
        rcases h2 with h2 | h2 | ⟨h2, h3⟩
        · omega
        · exact ⟨⟨h1, Or.inl h2⟩, Or.inr (Or.inl h2)⟩
        · refine ⟨⟨h1, ?_⟩, Or.inr (Or.inr ⟨h2, h3⟩)⟩
          by_cases hw0 : width = 0
          · exact Or.inl hw0
          · right; constructor <;> omega

/-- **exact** bounds condition of one half of a 10-bit plane: the source must hold `(h-1)*ss + w` samples;
    the destination is never left, whatever the stride -/
theorem planeIn10_half_ok (m : Mem) (src : Buf) (f : Nat → Nat) (S ox oy w h pr pb ss : Nat)
    (hw : 1 ≤ w) (hh : 1 ≤ h) (hS : S = ox + (w + pr) + ox)
    (hin : (oy + (h + pb) + oy) * S ≤ m.buf.size) :
    (generatePadding (padInputPicture (storeRows m src f 0 ss (S * oy + ox) S w 0 h) (ox + oy * S) S w h pr pb)
        0 S (w + pr) (h + pb) ox oy).ok = true ↔
      m.ok = true ∧ (h - 1) * ss + w ≤ src.size := by
  obtain ⟨h', rfl⟩ : ∃ h', h = h' + 1 := ⟨h - 1, by omega⟩
  have hB : (oy + (h' + 1 + pb) + oy) * S = oy * S + h' * S + S + pb * S + oy * S := by
    rw [Nat.add_mul, Nat.add_mul, Nat.add_mul, succ_mul']; omega
  rw [generatePadding_ok _ S (w + pr) (h' + 1 + pb) ox oy (by omega) (by omega) hS
        (by rw [padInputPicture_size, storeRows_size]; exact hin),
      padInputPicture_ok _ _ S w (h' + 1) pr pb hw (by omega) (by omega)
        (by rw [storeRows_size]
            have e0 : h' + 1 + pb - 1 = h' + pb := by omega
            rw [e0, Nat.add_mul]; omega),
      storeRows_ok]
  simp only [Nat.add_sub_cancel, Nat.zero_add, Nat.mul_comm S oy]
  constructor
  · rintro ⟨h1, h2⟩
    refine ⟨h1, ?_⟩
    omega
  · rintro ⟨h1, h2⟩
    refine ⟨h1, ?_⟩
    right; right
    omega

end CopyIn
