/- Helper lemmas for C18: facts about the generated table and the wrap/clip primitives. -/
import SvtVerif.Model.QpTail
import SvtVerif.Lemmas.Bits
import Mathlib.Tactic.Linarith

namespace QpTail
open CSem Gen.QTable

/-! ### the generated table (re-checked by `decide` whenever it is regenerated) -/

theorem tbl_length : quantizerToQindex.length = 64 := by decide

theorem tbl_pairwise : quantizerToQindex.Pairwise (· < ·) := by decide

theorem tbl_le_255 : ∀ x ∈ quantizerToQindex, x ≤ 255 := by decide

theorem q2q_nat (i : Nat) (h : i < 64) : q2q (i : Int) = ((quantizerToQindex[i]'(by rw [tbl_length]; exact h) : Nat) : Int) := by
  have hl : i < quantizerToQindex.length := by rw [tbl_length]; exact h
  unfold q2q
  rw [if_neg (by omega)]
  simp [List.getD_eq_getElem?_getD, List.getElem?_eq_getElem hl]

theorem q2q_lt_nat (a b : Nat) (hab : a < b) (hb : b < 64) : q2q (a : Int) < q2q (b : Int) := by
  rw [q2q_nat a (by omega), q2q_nat b hb]
  have := (List.pairwise_iff_getElem.mp tbl_pairwise) a b (by rw [tbl_length]; omega) (by rw [tbl_length]; omega) hab
  exact_mod_cast this

theorem q2q_lt (a b : Int) (ha : 0 ≤ a) (hab : a < b) (hb : b ≤ 63) : q2q a < q2q b := by
  obtain ⟨a', rfl⟩ := Int.eq_ofNat_of_zero_le ha
  obtain ⟨b', rfl⟩ := Int.eq_ofNat_of_zero_le (by omega : 0 ≤ b)
  exact q2q_lt_nat a' b' (by omega) (by omega)

theorem q2q_le (a b : Int) (ha : 0 ≤ a) (hab : a ≤ b) (hb : b ≤ 63) : q2q a ≤ q2q b := by
  rcases Int.lt_or_eq_of_le hab with h | h
  · exact Int.le_of_lt (q2q_lt a b ha h hb)
  · rw [h]

theorem q2q_range (a : Int) (ha : 0 ≤ a) (hb : a ≤ 63) : 0 ≤ q2q a ∧ q2q a ≤ 255 := by
  obtain ⟨a', rfl⟩ := Int.eq_ofNat_of_zero_le ha
  rw [q2q_nat a' (by omega)]
  have := tbl_le_255 _ (List.getElem_mem (show a' < quantizerToQindex.length by rw [tbl_length]; omega))
  constructor <;> omega

/-! ### wraps and clips -/

theorem wrapU8_id (x : Int) (h0 : 0 ≤ x) (h1 : x < 256) : wrapU8 x = x := by
  show x % (2 ^ 8 : Int) = x
  exact Int.emod_eq_of_lt h0 (by simpa using h1)

theorem wrapU32_id (x : Int) (h0 : 0 ≤ x) (h1 : x < 2 ^ 32) : wrapU32 x = x := by
  show x % (2 ^ 32 : Int) = x
  exact Int.emod_eq_of_lt h0 h1

theorem wrapI32_id (x : Int) (h0 : -(2 ^ 31) ≤ x) (h1 : x < 2 ^ 31) : wrapI32 x = x := Bits.wrapS32_id x h0 h1

theorem wrapU8_range (x : Int) : 0 ≤ wrapU8 x ∧ wrapU8 x < 256 := by
  show 0 ≤ x % (2 ^ 8 : Int) ∧ x % (2 ^ 8 : Int) < 256
  constructor
  · exact Int.emod_nonneg _ (by norm_num)
  · have := Int.emod_lt_of_pos x (show (0 : Int) < 2 ^ 8 by norm_num); simpa using this

theorem clip3_bounds (lo hi x : Int) (h : lo ≤ hi) : lo ≤ clip3 lo hi x ∧ clip3 lo hi x ≤ hi := by
  unfold clip3; split_ifs <;> constructor <;> omega

theorem clip3_id (lo hi x : Int) (h0 : lo ≤ x) (h1 : x ≤ hi) : clip3 lo hi x = x := by
  unfold clip3; split_ifs <;> omega

/-- `CLIP3` is the mathematical clamp when `lo ≤ hi`. -/
theorem clip3_eq_max_min (lo hi x : Int) (h : lo ≤ hi) : clip3 lo hi x = max lo (min hi x) := by
  unfold clip3; split_ifs <;> omega

theorem clampQidx_eq (mn mx q : Int) (h0 : 0 ≤ mn) (h1 : mn ≤ mx) (h2 : mx ≤ 63) :
    clampQidx mn mx q = clip3 (q2q mn) (q2q mx) (wrapI32 q) := by
  unfold clampQidx
  have hb := clip3_bounds (q2q mn) (q2q mx) (wrapI32 q) (q2q_le mn mx h0 h1 h2)
  have r1 := q2q_range mn h0 (by omega)
  have r2 := q2q_range mx (by omega) h2
  exact wrapU8_id _ (by omega) (by omega)

theorem clampQidx_bounds (mn mx q : Int) (h0 : 0 ≤ mn) (h1 : mn ≤ mx) (h2 : mx ≤ 63) :
    q2q mn ≤ clampQidx mn mx q ∧ clampQidx mn mx q ≤ q2q mx := by
  rw [clampQidx_eq mn mx q h0 h1 h2]
  exact clip3_bounds _ _ _ (q2q_le mn mx h0 h1 h2)

theorem qpFromQidx_bounds (mn mx b : Int) (h0 : 0 ≤ mn) (h1 : mn ≤ mx) (h2 : mx ≤ 63) :
    mn ≤ qpFromQidx mn mx b ∧ qpFromQidx mn mx b ≤ mx := by
  unfold qpFromQidx
  rw [wrapI32_id mn (by omega) (by omega), wrapI32_id mx (by omega) (by omega)]
  have hb := clip3_bounds mn mx (shr (b + 2) 2) h1
  rw [wrapU8_id _ (by omega) (by omega)]
  exact hb

end QpTail

namespace QpTail
open CSem

theorem u8clip_bounds (mn mx x : Int) (h0 : 0 ≤ mn) (h1 : mn ≤ mx) (h2 : mx ≤ 63) :
    mn ≤ wrapU8 (clip3 mn mx x) ∧ wrapU8 (clip3 mn mx x) ≤ mx := by
  have hb := clip3_bounds mn mx x h1
  rw [wrapU8_id _ (by omega) (by omega)]; exact hb

theorem q2q_u8clip_bounds (mn mx x : Int) (h0 : 0 ≤ mn) (h1 : mn ≤ mx) (h2 : mx ≤ 63) :
    q2q mn ≤ q2q (wrapU8 (clip3 mn mx x)) ∧ q2q (wrapU8 (clip3 mn mx x)) ≤ q2q mx := by
  have hb := u8clip_bounds mn mx x h0 h1 h2
  exact ⟨q2q_le _ _ h0 hb.1 (by omega), q2q_le _ _ (by omega) hb.2 h2⟩

/-- The tail leaves line 7325's unclamped value in place exactly in this case. -/
theorem branch_eq_zero_iff (i : RcIn) : (rcTail i).branch = 0 ↔
    (wrapU32 i.rcMode = 0 ∧ wrapU8 i.fixedOffsets ≠ 1 ∧ ¬(wrapU32 i.qpScaling ≠ 0 ∧ wrapU8 i.onTheFly = 0) ∧
      wrapU8 i.onTheFly ≠ 1) := by
  unfold rcTail
  simp only
  split_ifs <;> simp_all

end QpTail

namespace QpTail
open CSem

/-! ### `picture_qp` and `base_q_idx` determine each other (used by `C18.pictureQp_consistent`) -/

theorem q2q_roundtrip_fin : ∀ n : Fin 64, shr (q2q (n.val : Int) + 2) 2 = if n.val = 63 then 64 else (n.val : Int) := by decide

/-- `(quantizer_to_qindex[p] + 2) >> 2 = p` for `p < 63`, and `64` for `p = 63` (the table ends `…, 249, 255`). -/
theorem q2q_roundtrip (p : Int) (h0 : 0 ≤ p) (h1 : p ≤ 63) : shr (q2q p + 2) 2 = if p = 63 then 64 else p := by
  obtain ⟨n, rfl⟩ := Int.eq_ofNat_of_zero_le h0
  have := q2q_roundtrip_fin ⟨n, by omega⟩
  simp only at this
  rw [this]
  by_cases h : n = 63
  · simp [h]
  · rw [if_neg h, if_neg (by omega)]

/-- …so clamping `(quantizer_to_qindex[p] + 2) >> 2` to `[min, max] ∋ p` gives `p` back. -/
theorem clip_roundtrip (mn mx p : Int) (h0 : 0 ≤ mn) (h1 : mn ≤ p) (h2 : p ≤ mx) (h3 : mx ≤ 63) :
    clip3 mn mx (shr (q2q p + 2) 2) = p := by
  rw [q2q_roundtrip p (by omega) (by omega)]
  unfold clip3
  split_ifs <;> omega

theorem qpFromQidx_eq (mn mx b : Int) (h0 : 0 ≤ mn) (h1 : mn ≤ mx) (h2 : mx ≤ 63) :
    qpFromQidx mn mx b = clip3 mn mx (shr (b + 2) 2) := by
  unfold qpFromQidx
  rw [wrapI32_id mn (by omega) (by omega), wrapI32_id mx (by omega) (by omega)]
  have hb := clip3_bounds mn mx (shr (b + 2) 2) h1
  exact wrapU8_id _ (by omega) (by omega)

theorem u8clip_consistent (mn mx x : Int) (h0 : 0 ≤ mn) (h1 : mn ≤ mx) (h2 : mx ≤ 63) :
    wrapU8 (clip3 mn mx x) = clip3 mn mx (shr (q2q (wrapU8 (clip3 mn mx x)) + 2) 2) := by
  have hb := u8clip_bounds mn mx x h0 h1 h2
  exact (clip_roundtrip mn mx _ h0 hb.1 hb.2 h2).symm

end QpTail
