/-
  C24 — `enc_dec_segments_init` produces a well-formed control block:
  `Seg.WF (initSeg …)` and `Seg.Live (initSeg …)` for every accepted input (`InitOK`), the single-segment
  shape of a one-SB-wide picture, and (as a witness for `sched_stuck`) the stuck control block the code
  produced for such a picture before the clamp of EbEncDecSegments.c:83.
-/
import SvtVerif.Lemmas.SegmentsArith
import SvtVerif.Lemmas.Segments
import Mathlib.Data.List.Basic
import Mathlib.Data.List.Count
import Mathlib.Data.List.Nodup

namespace Seg

/-! ## (5a) every band between `startBand r` and `endBand r` is hit by an SB of segment row `r` -/

/-- discrete intermediate value: a function that rises by at most 1 per step hits every value
    between `f lo` and `f (lo + n)` -/
theorem ivt_step (f : Nat → Nat) (hstep : ∀ s, f (s + 1) ≤ f s + 1) (lo b : Nat) :
    ∀ n, f lo ≤ b → b ≤ f (lo + n) → ∃ k, k ≤ n ∧ f (lo + k) = b := by
  intro n
  induction n with
  | zero => intro h1 h2; exact ⟨0, Nat.le_refl _, by simp at h2 ⊢; omega⟩
  | succ n ih =>
    intro h1 h2
    by_cases h : b ≤ f (lo + n)
    · obtain ⟨k, hk, e⟩ := ih h1 h; exact ⟨k, by omega, e⟩
    · have := hstep (lo + n)
      exact ⟨n + 1, Nat.le_refl _, by rw [← Nat.add_assoc] at h2 ⊢; omega⟩

section
variable {W H Cc Rr : Nat}

theorem bands_contiguous (hC : 1 ≤ Cc) (hCW : Cc ≤ W) (hR : 1 ≤ Rr) (hRH : Rr ≤ H)
    {r b : Nat} (hr : r < Rr) (h1 : startBand W H Cc Rr r ≤ b) (h2 : b ≤ endBand W H Cc Rr r) :
    ∃ x y, x < W ∧ y < H ∧ rowOf Rr H y = r ∧ bandOf (segB Rr Cc) (sbT W H) (x + y) = b := by
  have hW : 1 ≤ W := by omega
  have hH : 1 ≤ H := by omega
  have hlt := y0_lt_succ hR hRH r
  have hle := y0_le_H hR H (show r + 1 ≤ Rr from hr)
  have hn : y0 Rr H r + ((W - 1) + (y0 Rr H (r + 1) - 1) - y0 Rr H r) = (W - 1) + (y0 Rr H (r + 1) - 1) := by
    omega
  obtain ⟨k, hk, e⟩ := ivt_step (bandOf (segB Rr Cc) (sbT W H))
    (bandOf_succ_le (sbT_pos hW hH) (segB_le_sbT hCW hRH)) (y0 Rr H r) b
    ((W - 1) + (y0 Rr H (r + 1) - 1) - y0 Rr H r) h1 (by rw [hn]; exact h2)
  by_cases hs : y0 Rr H r + k ≤ y0 Rr H (r + 1) - 1
  · refine ⟨0, y0 Rr H r + k, by omega, by omega, ?_, by rw [Nat.zero_add]; exact e⟩
    exact (rowOf_eq_iff hR (by omega) r _).2 ⟨by omega, by omega⟩
  · refine ⟨y0 Rr H r + k - (y0 Rr H (r + 1) - 1), y0 Rr H (r + 1) - 1, by omega, by omega, ?_, ?_⟩
    · exact rowOf_y0_succ_pred hR hRH r
    · rw [Nat.sub_add_cancel (by omega)]; exact e

/-- every segment index in `[cst r, cen r]` is the segment of some SB -/
theorem row_segs_nonempty (hC : 1 ≤ Cc) (hCW : Cc ≤ W) (hR : 1 ≤ Rr) (hRH : Rr ≤ H)
    {r s : Nat} (hr : r < Rr) (h1 : cst W H Cc Rr r ≤ s) (h2 : s ≤ cen W H Cc Rr r) :
    ∃ x y, x < W ∧ y < H ∧ cseg W H Cc Rr x y = s := by
  unfold cst at h1; unfold cen at h2
  obtain ⟨x, y, hx, hy, e1, e2⟩ := bands_contiguous (W := W) (H := H) hC hCW hR hRH hr
    (b := s - r * segB Rr Cc) (by omega) (by omega)
  exact ⟨x, y, hx, hy, by unfold cseg; rw [e1, e2]; omega⟩

end

/-! ## generic fold lemmas

  Verbatim copies (in a separate namespace, to avoid name clashes) of the generic array / fold lemmas
  of `Lemmas/SegmentsCover.lean`, which cannot currently be imported together with
  `Lemmas/Segments.lean` (duplicate declarations).  Replace by the import once that is resolved. -/
namespace InitAux

theorem size_amod (a : Array Nat) (i : Nat) (f : Nat → Nat) : (amod a i f).size = a.size := by
  simp [amod, size_aset]

theorem aget_amod (a : Array Nat) (i : Nat) (f : Nat → Nat) (j : Nat) :
    aget (amod a i f) j = if i = j ∧ i < a.size then f (aget a i) else aget a j := by
  simp [amod, aget_aset]

theorem size_foldl_amod {α : Type} (l : List α) (f : α → Nat) (g : α → Nat → Nat) (a0 : Array Nat) :
    (l.foldl (fun a p => amod a (f p) (g p)) a0).size = a0.size := by
  induction l generalizing a0 with
  | nil => rfl
  | cons p l ih => simp only [List.foldl_cons]; rw [ih, size_amod]

theorem add_one_mod_add (a c m : Nat) : ((a + 1) % m + c) % m = (a + (c + 1)) % m := by
  rw [Nat.add_mod, Nat.mod_mod, ← Nat.add_mod]; congr 1; omega

/-- Generic counting fold modulo `m`: each element of `l` increments slot `f p`. -/
theorem aget_foldl_count_mod {α : Type} (m : Nat) (l : List α) (f : α → Nat) (a0 : Array Nat) (i : Nat)
    (hi : i < a0.size) (h0 : aget a0 i < m) :
    aget (l.foldl (fun a p => amod a (f p) (fun v => (v + 1) % m)) a0) i
      = (aget a0 i + l.countP (fun p => f p = i)) % m := by
  induction l generalizing a0 with
  | nil => simp [Nat.mod_eq_of_lt h0]
  | cons p l ih =>
    have hm : 0 < m := by omega
    simp only [List.foldl_cons]
    rw [ih _ (by rw [size_amod]; exact hi)]
    · rw [aget_amod, List.countP_cons]
      by_cases hp : f p = i
      · subst hp
        simp only [hi, and_self, if_true, decide_true]
        exact add_one_mod_add _ _ _
      · simp [hp]
    · rw [aget_amod]
      split
      · exact Nat.mod_lt _ hm
      · exact h0

theorem mem_allSbs (W H : Nat) (p : Nat × Nat) : p ∈ allSbs W H ↔ p.1 < W ∧ p.2 < H := by
  obtain ⟨x, y⟩ := p
  simp only [allSbs, List.mem_flatMap, List.mem_range, List.mem_map, Prod.mk.injEq]
  constructor
  · rintro ⟨y', hy, x', hx, rfl, rfl⟩; exact ⟨hx, hy⟩
  · rintro ⟨hx, hy⟩; exact ⟨y, hy, x, hx, rfl, rfl⟩

theorem length_allSbs (W H : Nat) : (allSbs W H).length = W * H := by
  simp [allSbs, List.length_flatMap, Nat.mul_comm]

/-- one fold step that performs up to two conditional increments (mod `m`) -/
def twoInc {α : Type} (m : Nat) (c1 c2 : α → Prop) [DecidablePred c1] [DecidablePred c2]
    (f1 f2 : α → Nat) (a : Array Nat) (e : α) : Array Nat :=
  let a1 := if c1 e then amod a (f1 e) (fun v => (v + 1) % m) else a
  if c2 e then amod a1 (f2 e) (fun v => (v + 1) % m) else a1

theorem size_twoInc {α : Type} (m : Nat) (c1 c2 : α → Prop) [DecidablePred c1] [DecidablePred c2]
    (f1 f2 : α → Nat) (a : Array Nat) (e : α) : (twoInc m c1 c2 f1 f2 a e).size = a.size := by
  unfold twoInc
  by_cases h1 : c1 e <;> by_cases h2 : c2 e <;> simp [h1, h2, size_amod]

theorem size_foldl_twoInc {α : Type} (m : Nat) (c1 c2 : α → Prop) [DecidablePred c1] [DecidablePred c2]
    (f1 f2 : α → Nat) (l : List α) (a0 : Array Nat) :
    (l.foldl (twoInc m c1 c2 f1 f2) a0).size = a0.size := by
  induction l generalizing a0 with
  | nil => rfl
  | cons p l ih => simp only [List.foldl_cons]; rw [ih, size_twoInc]

theorem aget_condInc (m : Nat) (c : Prop) [Decidable c] (a : Array Nat) (j i : Nat)
    (hi : i < a.size) (h0 : aget a i < m) :
    aget (if c then amod a j (fun v => (v + 1) % m) else a) i
      = (aget a i + if c ∧ j = i then 1 else 0) % m := by
  by_cases hc : c
  · by_cases hj : j = i
    · subst hj; simp [hc, aget_amod, hi]
    · simp [hc, hj, aget_amod, Nat.mod_eq_of_lt h0]
  · simp [hc, Nat.mod_eq_of_lt h0]

theorem aget_twoInc {α : Type} (m : Nat) (c1 c2 : α → Prop) [DecidablePred c1] [DecidablePred c2]
    (f1 f2 : α → Nat) (a : Array Nat) (e : α) (i : Nat) (hi : i < a.size) (h0 : aget a i < m) :
    aget (twoInc m c1 c2 f1 f2 a e) i
      = (aget a i + (if c1 e ∧ f1 e = i then 1 else 0) + (if c2 e ∧ f2 e = i then 1 else 0)) % m := by
  have hm : 0 < m := by omega
  unfold twoInc
  simp only []
  rw [aget_condInc m (c2 e) _ (f2 e) i (by split <;> simp [size_amod, hi])
        (by rw [aget_condInc m (c1 e) a (f1 e) i hi h0]; exact Nat.mod_lt _ hm),
      aget_condInc m (c1 e) a (f1 e) i hi h0]
  rw [Nat.add_mod, Nat.mod_mod, ← Nat.add_mod]

/-- Generic dependency-count fold: the slot `i` ends up with the number of elements that fire
    their first increment on `i` plus the number that fire their second increment on `i` (mod `m`). -/
theorem aget_foldl_twoInc {α : Type} (m : Nat) (c1 c2 : α → Prop) [DecidablePred c1] [DecidablePred c2]
    (f1 f2 : α → Nat) (l : List α) (a0 : Array Nat) (i : Nat) (hi : i < a0.size) (h0 : aget a0 i < m) :
    aget (l.foldl (twoInc m c1 c2 f1 f2) a0) i
      = (aget a0 i + l.countP (fun e => c1 e ∧ f1 e = i) + l.countP (fun e => c2 e ∧ f2 e = i)) % m := by
  have hm : 0 < m := by omega
  induction l generalizing a0 with
  | nil => simp [Nat.mod_eq_of_lt h0]
  | cons p l ih =>
    simp only [List.foldl_cons]
    rw [ih _ (by rw [size_twoInc]; exact hi) (by rw [aget_twoInc m c1 c2 f1 f2 a0 p i hi h0]; exact Nat.mod_lt _ hm)]
    rw [aget_twoInc m c1 c2 f1 f2 a0 p i hi h0, List.countP_cons, List.countP_cons]
    simp only [decide_eq_true_eq]
    rw [Nat.add_assoc (_ % m), Nat.mod_add_mod]
    congr 1
    omega

/-- the `(row, segment_index)` pairs visited by the dependency loop (lines 146-151), in order -/
def depPairs (rows : Array SegRow) (r2 : Nat) : List (Nat × Nat) :=
  (List.range r2).flatMap fun r => (rowSegs rows r).map fun s => (r, s)

/-- right-neighbour increment condition (lines 152-155) -/
def depC1 (valid : Array Nat) (rows : Array SegRow) (e : Nat × Nat) : Prop :=
  aget valid e.2 ≠ 0 ∧ e.2 < rowEnd rows e.1
/-- bottom-left increment condition (lines 152, 158-161) -/
def depC2 (valid : Array Nat) (rows : Array SegRow) (segRow B : Nat) (e : Nat × Nat) : Prop :=
  aget valid e.2 ≠ 0 ∧ e.1 < sub32 segRow 1 ∧ u32 (e.2 + B) ≥ rowStart rows (e.1 + 1)

instance (valid rows) : DecidablePred (depC1 valid rows) := fun e => by unfold depC1; infer_instance
instance (valid rows segRow B) : DecidablePred (depC2 valid rows segRow B) :=
  fun e => by unfold depC2; infer_instance

theorem depBody_eq_twoInc (valid : Array Nat) (rows : Array SegRow) (segRow B row : Nat)
    (d : Array Nat) (seg : Nat) :
    depBody valid rows segRow B row d seg
      = twoInc 256 (depC1 valid rows) (depC2 valid rows segRow B)
          (fun e => u32 (e.2 + 1)) (fun e => u32 (e.2 + B)) d (row, seg) := by
  unfold depBody twoInc depC1 depC2 u8
  by_cases hv : aget valid seg ≠ 0
  · simp only [hv, if_true, true_and, not_false_eq_true, ne_eq]
  · simp only [hv, if_false, false_and]

theorem dep_fold_eq_pairs (valid : Array Nat) (rows : Array SegRow) (r2 B : Nat) (a0 : Array Nat) :
    (List.range r2).foldl (fun d r => (rowSegs rows r).foldl (depBody valid rows r2 B r) d) a0
      = (depPairs rows r2).foldl
          (twoInc 256 (depC1 valid rows) (depC2 valid rows r2 B)
            (fun e => u32 (e.2 + 1)) (fun e => u32 (e.2 + B))) a0 := by
  unfold depPairs
  rw [List.foldl_flatMap]
  congr 1
  funext d r
  rw [List.foldl_map]
  congr 1
  funext d s
  exact depBody_eq_twoInc valid rows r2 B r d s

end InitAux

open InitAux

/-! ## (5c) the dependency fold, for an abstract row table -/

theorem countP_unique {α : Type} [DecidableEq α] (p : α → Prop) [DecidablePred p] (e0 : α) :
    ∀ l : List α, l.Nodup → (∀ e ∈ l, p e → e = e0) →
      l.countP (fun e => decide (p e)) = if e0 ∈ l ∧ p e0 then 1 else 0 := by
  intro l
  induction l with
  | nil => intro _ _; simp
  | cons a l ih =>
    intro hnd hu
    rw [List.nodup_cons] at hnd
    have ih' := ih hnd.2 (fun e he => hu e (List.mem_cons_of_mem _ he))
    rw [List.countP_cons, ih']
    by_cases hpa : p a
    · have ha : a = e0 := hu a List.mem_cons_self hpa
      subst ha
      simp [hpa, hnd.1]
    · by_cases h0 : e0 = a
      · subst h0; simp [hpa]
      · simp [hpa, h0]

theorem row_idx_unique {B a c t : Nat} (h1 : a * B ≤ t) (h2 : t < a * B + B)
    (h3 : c * B ≤ t) (h4 : t < c * B + B) : a = c := by
  rcases Nat.lt_trichotomy a c with h | h | h
  · have := Nat.mul_le_mul_right B (show a + 1 ≤ c from h)
    rw [Nat.add_mul, Nat.one_mul] at this; omega
  · exact h
  · have := Nat.mul_le_mul_right B (show c + 1 ≤ a from h)
    rw [Nat.add_mul, Nat.one_mul] at this; omega

/-- the static facts about a row table that the dependency-fold analysis needs -/
structure RowsOK (rows : Array SegRow) (R B : Nat) : Prop where
  hB : 1 ≤ B
  hR : 1 ≤ R
  hsmall : R * B < 65536
  lo : ∀ r, r < R → r * B ≤ rowStart rows r
  le : ∀ r, r < R → rowStart rows r ≤ rowEnd rows r
  hi : ∀ r, r < R → rowEnd rows r < r * B + B

theorem mem_rowSegs (rows : Array SegRow) (r s : Nat) :
    s ∈ rowSegs rows r ↔ rowStart rows r ≤ s ∧ s ≤ rowEnd rows r := by
  unfold rowSegs
  rw [List.mem_range'_1]; omega

theorem mem_depPairs (rows : Array SegRow) (R : Nat) (e : Nat × Nat) :
    e ∈ depPairs rows R ↔ e.1 < R ∧ rowStart rows e.1 ≤ e.2 ∧ e.2 ≤ rowEnd rows e.1 := by
  obtain ⟨r, s⟩ := e
  simp only [depPairs, List.mem_flatMap, List.mem_range, List.mem_map, Prod.mk.injEq, mem_rowSegs]
  constructor
  · rintro ⟨r', hr', s', hs', rfl, rfl⟩; exact ⟨hr', hs'⟩
  · rintro ⟨hr, hs⟩; exact ⟨r, hr, s, hs, rfl, rfl⟩

theorem nodup_depPairs (rows : Array SegRow) (R : Nat) : (depPairs rows R).Nodup := by
  unfold depPairs
  rw [List.nodup_flatMap]
  constructor
  · intro r _
    refine List.Nodup.map (fun a b h => by simpa using h) ?_
    unfold rowSegs
    exact List.nodup_range'
  · refine List.Pairwise.imp ?_ (List.nodup_iff_pairwise_ne.1 List.nodup_range)
    intro a b hab
    simp only [Function.onFun, List.disjoint_left, List.mem_map]
    rintro e ⟨_, _, rfl⟩ ⟨_, _, h⟩
    simp at h
    exact hab h.1.symm

theorem row_lt_total' {rows : Array SegRow} {R B : Nat} (ok : RowsOK rows R B) {r t : Nat}
    (hr : r < R) (h2 : t ≤ rowEnd rows r) : t < R * B := by
  have b := ok.hi r hr
  have := Nat.mul_le_mul_right B (show r + 1 ≤ R from hr)
  rw [Nat.add_mul, Nat.one_mul] at this
  omega


section
variable {valid : Array Nat} {rows : Array SegRow} {R B : Nat}

/-- number of right edges into `t` (a segment of row `r`): one iff `t` is not the first of its row -/
theorem count_right (ok : RowsOK rows R B)
    (hvalid : ∀ r, r < R → ∀ s, rowStart rows r ≤ s → s ≤ rowEnd rows r → aget valid s ≠ 0)
    {r t : Nat} (hr : r < R) (h1 : rowStart rows r ≤ t) (h2 : t ≤ rowEnd rows r) :
    (depPairs rows R).countP (fun e => depC1 valid rows e ∧ u32 (e.2 + 1) = t)
      = if rowStart rows r < t then 1 else 0 := by
  have hs := ok.hsmall
  have htot := row_lt_total' ok hr h2
  rw [countP_unique _ (r, t - 1) _ (nodup_depPairs rows R)]
  · simp only [mem_depPairs, depC1]
    by_cases hlt : rowStart rows r < t
    · have hv := hvalid r hr (t - 1) (by omega) (by omega)
      have hu : u32 (t - 1 + 1) = t := by unfold u32; omega
      simp [hlt, hr, hv, hu]
      omega
    · rw [if_neg hlt, if_neg]
      rintro ⟨⟨_, h3, _⟩, ⟨_, _⟩, h4⟩
      unfold u32 at h4
      omega
  · rintro ⟨r', s⟩ hmem hp
    rw [mem_depPairs] at hmem
    simp only [depC1] at hp
    obtain ⟨hr', h3, h4⟩ := hmem
    obtain ⟨⟨_, h5⟩, h6⟩ := hp
    simp only at h3 h4 h5 h6
    have htot' := row_lt_total' ok hr' h4
    have h7 : s + 1 = t := by unfold u32 at h6; omega
    have : r' = r := row_idx_unique (B := B) (t := t) (by have := ok.lo r' hr'; omega)
      (by have := ok.hi r' hr'; omega) (by have := ok.lo r hr; omega) (by have := ok.hi r hr; omega)
    subst this
    congr 1
    omega

/-- number of bottom edges into `t` (a segment of row `r`) -/
theorem count_bottom (ok : RowsOK rows R B)
    (hvalid : ∀ r, r < R → ∀ s, rowStart rows r ≤ s → s ≤ rowEnd rows r → aget valid s ≠ 0)
    {r t : Nat} (hr : r < R) (h1 : rowStart rows r ≤ t) (h2 : t ≤ rowEnd rows r) :
    (depPairs rows R).countP (fun e => depC2 valid rows R B e ∧ u32 (e.2 + B) = t)
      = if 1 ≤ r ∧ rowStart rows (r - 1) + B ≤ t ∧ t ≤ rowEnd rows (r - 1) + B then 1 else 0 := by
  have hs := ok.hsmall
  have hB := ok.hB
  have hR := ok.hR
  have htot := row_lt_total' ok hr h2
  have hRB : R ≤ R * B := Nat.le_mul_of_pos_right _ hB
  have hBR : B ≤ R * B := Nat.le_mul_of_pos_left _ hR
  have hlo := ok.lo r hr
  have hhi := ok.hi r hr
  -- any pair with a bottom edge into `t` is `(r - 1, t - B)` with `1 ≤ r`
  have key : ∀ e ∈ depPairs rows R, (depC2 valid rows R B e ∧ u32 (e.2 + B) = t) →
      e.1 + 1 = r ∧ e.2 + B = t := by
    rintro ⟨r', s⟩ hmem hp
    rw [mem_depPairs] at hmem
    simp only [depC2] at hp
    obtain ⟨hr', h3, h4⟩ := hmem
    obtain ⟨_, h6⟩ := hp
    simp only at h3 h4 h6 ⊢
    have htot' := row_lt_total' ok hr' h4
    have h7 : s + B = t := by unfold u32 at h6; omega
    have hlo' := ok.lo r' hr'
    have hhi' := ok.hi r' hr'
    have : r' + 1 = r := row_idx_unique (B := B) (t := t)
      (by rw [Nat.add_mul, Nat.one_mul]; omega) (by rw [Nat.add_mul, Nat.one_mul]; omega)
      (by omega) (by omega)
    exact ⟨this, h7⟩
  rcases Nat.eq_zero_or_pos r with h0 | hpos
  · subst h0
    rw [if_neg (by omega)]
    rw [List.countP_eq_zero]
    intro e he hp
    have := (key e he (of_decide_eq_true hp)).1
    omega
  · obtain ⟨r', rfl⟩ : ∃ r', r = r' + 1 := ⟨r - 1, by omega⟩
    rw [countP_unique _ (r', t - B) _ (nodup_depPairs rows R)]
    · simp only [mem_depPairs, depC2, Nat.add_sub_cancel]
      have hsub : sub32 R 1 = R - 1 := sub32_one hR (by omega)
      by_cases hc : rowStart rows r' + B ≤ t ∧ t ≤ rowEnd rows r' + B
      · have hv := hvalid r' (by omega) (t - B) (by omega) (by omega)
        have hu : u32 (t - B + B) = t := by unfold u32; omega
        have hR' : 1 ≤ r' + 1 ∧ rowStart rows r' + B ≤ t ∧ t ≤ rowEnd rows r' + B := ⟨by omega, hc⟩
        rw [if_pos hR', if_pos]
        refine ⟨⟨by omega, by omega, by omega⟩, ⟨hv, by omega, ?_⟩, hu⟩
        rw [hu]; exact h1
      · have hR' : ¬ (1 ≤ r' + 1 ∧ rowStart rows r' + B ≤ t ∧ t ≤ rowEnd rows r' + B) := by omega
        rw [if_neg hR', if_neg]
        rintro ⟨⟨_, h3, h4⟩, ⟨_, _, _⟩, h5⟩
        unfold u32 at h5
        omega
    · rintro ⟨r'', s⟩ hmem hp
      have := key _ hmem hp
      simp only at this
      congr 1 <;> omega

/-- the dependency fold of `enc_dec_segments_init` (lines 146-165), for any row table satisfying
    `RowsOK` and any `valid` array that is non-zero on every row range -/
theorem dep_fold_spec (ok : RowsOK rows R B)
    (hvalid : ∀ r, r < R → ∀ s, rowStart rows r ≤ s → s ≤ rowEnd rows r → aget valid s ≠ 0)
    (n : Nat) (hn : n = R * B) :
    ((List.range R).foldl (fun d r => (rowSegs rows r).foldl (depBody valid rows R B r) d)
        (Array.replicate n 0)).size = n ∧
    ∀ r, r < R → ∀ t, rowStart rows r ≤ t → t ≤ rowEnd rows r →
      aget ((List.range R).foldl (fun d r => (rowSegs rows r).foldl (depBody valid rows R B r) d)
        (Array.replicate n 0)) t
      = (if rowStart rows r < t then 1 else 0) +
        (if 1 ≤ r ∧ rowStart rows (r - 1) + B ≤ t ∧ t ≤ rowEnd rows (r - 1) + B then 1 else 0) := by
  rw [dep_fold_eq_pairs]
  refine ⟨by rw [size_foldl_twoInc]; simp, ?_⟩
  intro r hr t h1 h2
  have htot := row_lt_total' ok hr h2
  rw [aget_foldl_twoInc 256 _ _ _ _ _ _ t (by simpa [hn] using htot)
    (by rw [aget_replicate]; split <;> omega)]
  rw [aget_replicate, if_pos (by omega), Nat.zero_add, count_right ok hvalid hr h1 h2,
    count_bottom ok hvalid hr h1 h2]
  split <;> split <;> rfl

end

/-! ## (5b)/(5d) `initSeg` is well-formed -/

/-- size hypotheses under which `enc_dec_segments_init` is analysed: picture at most 4096x4096 SBs
    and fewer than 65536 SBs in total (so `valid_sb_count_array` (uint16_t) cannot wrap), at least one
    segment row/column requested, and `segment_ttl_count < 65536` (uint16_t row indices), where
    `effR W H R MR` is the effective segment row count after init's clamps (1 when `W = 1`). -/
structure InitOK (W H C R MR : Nat) : Prop where
  hW1 : 1 ≤ W
  hW : W ≤ 4096
  hH1 : 1 ≤ H
  hH : H ≤ 4096
  hC : 1 ≤ C
  hR : 1 ≤ R
  hMR : 1 ≤ MR
  hWH : W * H < 65536
  hN : effR W H R MR * segB (effR W H R MR) (min C W) < 65536

section
variable {W H C R MR : Nat}

theorem initSeg_validSb_fold (MC : Nat) :
    (initSeg W H C R MC MR).validSb
      = (allSbs W H).foldl (fun a p => amod a
            (sbSeg (initSeg W H C R MC MR).segBandCount (initSeg W H C R MC MR).sbBandCount
              (initSeg W H C R MC MR).segRowCount H p) (fun v => (v + 1) % 65536))
          (Array.replicate (initSeg W H C R MC MR).segTtlCount 0) := rfl

theorem initSeg_dep_fold (MC : Nat) :
    (initSeg W H C R MC MR).dep
      = (List.range (initSeg W H C R MC MR).segRowCount).foldl
          (fun d r => (rowSegs (initSeg W H C R MC MR).rows r).foldl
            (depBody (initSeg W H C R MC MR).validSb (initSeg W H C R MC MR).rows
              (initSeg W H C R MC MR).segRowCount (initSeg W H C R MC MR).segBandCount r) d)
          (Array.replicate (initSeg W H C R MC MR).segTtlCount 0) := rfl

/-- every segment inside a row range contains at least one SB, and its `uint16_t` SB count is non-zero -/
theorem initSeg_valid_ne_zero (ok : InitOK W H C R MR) (MC : Nat) {r s : Nat}
    (hr : r < effR W H R MR)
    (h1 : cst W H (min C W) (effR W H R MR) r ≤ s)
    (h2 : s ≤ cen W H (min C W) (effR W H R MR) r) :
    aget (initSeg W H C R MC MR).validSb s ≠ 0 := by
  obtain ⟨hW1, hW, hH1, hH, hC, hR, hMR, hWH, hN⟩ := ok
  have hCc : 1 ≤ min C W := by omega
  have hCW : min C W ≤ W := by omega
  have hRr : 1 ≤ effR W H R MR := effR_pos hH1 hR hMR
  have hRH : effR W H R MR ≤ H := effR_le_H hH1
  have httl := initSeg_segTtlCount_closed (R := R) (MR := MR) hW1 hW hH hC MC hN
  have hs : s < (initSeg W H C R MC MR).segTtlCount := by
    rw [httl]
    have a := cen_lt (W := W) (H := H) (Cc := min C W) hW1 hCc hRr hRH hr
    have b := Nat.mul_le_mul_right (segB (effR W H R MR) (min C W)) (show r + 1 ≤ _ from hr)
    omega
  rw [initSeg_validSb_fold, aget_foldl_count_mod 65536 _ _ _ s (by simpa using hs)
    (by rw [aget_replicate]; split <;> omega), aget_replicate, if_pos hs, Nat.zero_add]
  obtain ⟨x, y, hx, hy, e⟩ := row_segs_nonempty (W := W) (H := H) hCc hCW hRr hRH hr h1 h2
  have hpos : 0 < (allSbs W H).countP (fun p => sbSeg (initSeg W H C R MC MR).segBandCount
      (initSeg W H C R MC MR).sbBandCount (initSeg W H C R MC MR).segRowCount H p = s) := by
    rw [List.countP_pos_iff]
    refine ⟨(x, y), (mem_allSbs W H _).2 ⟨hx, hy⟩, ?_⟩
    rw [initSeg_segBandCount_raw, initSeg_sbBandCount_raw, initSeg_segRowCount_min,
      initSeg_sbSeg hW1 hW hH hC hR hMR hN hx hy]
    simpa using e
  have hle := List.countP_le_length (p := fun p => decide (sbSeg (initSeg W H C R MC MR).segBandCount
      (initSeg W H C R MC MR).sbBandCount (initSeg W H C R MC MR).segRowCount H p = s)) (l := allSbs W H)
  rw [length_allSbs] at hle
  rw [Nat.mod_eq_of_lt (by omega)]
  omega


/-- (5b) the static facts about the control block, in closed form -/
theorem initSeg_wf_static (ok : InitOK W H C R MR) (MC : Nat) :
    let g := initSeg W H C R MC MR
    g.segRowCount = effR W H R MR ∧
    g.segBandCount = segB (effR W H R MR) (min C W) ∧
    g.sbBandCount = sbT W H ∧
    g.segTtlCount = g.segRowCount * g.segBandCount ∧
    g.rows.size = g.segRowCount ∧
    1 ≤ g.segBandCount ∧ 1 ≤ g.segRowCount ∧ g.segRowCount * g.segBandCount < 65536 ∧
    (∀ r, r < g.segRowCount →
      rowStart g.rows r = cst W H (min C W) (effR W H R MR) r ∧
      rowEnd g.rows r = cen W H (min C W) (effR W H R MR) r ∧
      (g.rows.getD r default).current = rowStart g.rows r) := by
  intro g
  obtain ⟨hW1, hW, hH1, hH, hC, hR, hMR, hWH, hN⟩ := ok
  have eR : g.segRowCount = effR W H R MR := initSeg_segRowCount_min W H C R MC MR
  have eB : g.segBandCount = segB (effR W H R MR) (min C W) :=
    initSeg_segBandCount_closed hW1 hW hH hC MC
  have eT : g.segTtlCount = effR W H R MR * segB (effR W H R MR) (min C W) :=
    initSeg_segTtlCount_closed hW1 hW hH hC MC hN
  refine ⟨eR, eB, initSeg_sbBandCount_closed hW1 hW hH MC, by rw [eT, eR, eB],
    by rw [eR]; exact initSeg_rows_size MC, by rw [eB]; exact segB_pos (by omega) (effR_pos hH1 hR hMR),
    by rw [eR]; exact effR_pos hH1 hR hMR, by rw [eR, eB]; exact hN, ?_⟩
  intro r hr
  rw [eR] at hr
  have e1 := initSeg_rowStart (R := R) (MR := MR) hW1 hW hH1 hH hC MC hN hr
  have e2 := initSeg_rowEnd (R := R) (MR := MR) hW1 hW hH1 hH hC MC hN hr
  have e3 := initSeg_row (R := R) (MR := MR) hW1 hW hH1 hH hC MC hN hr
  refine ⟨e1, e2, ?_⟩
  show ((initSeg W H C R MC MR).rows.getD r default).current = rowStart (initSeg W H C R MC MR).rows r
  rw [e1, e3]

theorem initSeg_rowsOK (ok : InitOK W H C R MR) (MC : Nat) :
    RowsOK (initSeg W H C R MC MR).rows (initSeg W H C R MC MR).segRowCount
      (initSeg W H C R MC MR).segBandCount := by
  obtain ⟨eR, eB, _, _, _, hB, hR', hs, hrow⟩ := initSeg_wf_static ok MC
  obtain ⟨hW1, hW, hH1, hH, hC, hR, hMR, hWH, hN⟩ := ok
  have hCc : 1 ≤ min C W := by omega
  have hRr : 1 ≤ effR W H R MR := effR_pos hH1 hR hMR
  have hRH : effR W H R MR ≤ H := effR_le_H hH1
  refine ⟨hB, hR', hs, ?_, ?_, ?_⟩
  · intro r hr
    rw [(hrow r hr).1, eB]; exact le_cst r
  · intro r hr
    rw [(hrow r hr).1, (hrow r hr).2.1]; exact cst_le_cen hRr hRH r
  · intro r hr
    rw [(hrow r hr).2.1, eB]
    have := cen_lt (W := W) (H := H) (Cc := min C W) hW1 hCc hRr hRH (eR ▸ hr)
    rw [Nat.add_mul, Nat.one_mul] at this
    exact this

/-- (5d) `enc_dec_segments_init` produces a well-formed control block -/
theorem initSeg_wf (ok : InitOK W H C R MR) (MC : Nat) : WF (initSeg W H C R MC MR) := by
  have rok := initSeg_rowsOK ok MC
  obtain ⟨eR, eB, _, eT, hsz, hB, hR', hs, hrow⟩ := initSeg_wf_static ok MC
  have hRr : 1 ≤ effR W H R MR := effR_pos ok.hH1 ok.hR ok.hMR
  have hvalid : ∀ r, r < (initSeg W H C R MC MR).segRowCount → ∀ s,
      rowStart (initSeg W H C R MC MR).rows r ≤ s → s ≤ rowEnd (initSeg W H C R MC MR).rows r →
      aget (initSeg W H C R MC MR).validSb s ≠ 0 := by
    intro r hr s h1 h2
    rw [(hrow r hr).1] at h1
    rw [(hrow r hr).2.1] at h2
    exact initSeg_valid_ne_zero ok MC (eR ▸ hr) h1 h2
  have hdep := dep_fold_spec rok hvalid (initSeg W H C R MC MR).segTtlCount eT
  rw [← initSeg_dep_fold] at hdep
  refine ⟨hB, hR', hs, eT, hsz, by rw [hdep.1, eT], rok.lo, rok.le, ?_, fun r hr => (hrow r hr).2.2,
    ?_, ?_, ?_⟩
  · intro r hr
    have := rok.hi r hr
    rw [Nat.add_mul, Nat.one_mul]; exact this
  · intro r hr
    rw [(hrow r (by omega)).1, (hrow (r + 1) hr).1, eB]
    exact cst_add_le_cst_succ hRr r
  · intro r hr
    rw [(hrow r (by omega)).2.1, (hrow (r + 1) hr).2.1, eB]
    exact cen_add_le_cen_succ hRr r
  · intro r hr t h1 h2
    rw [hdep.2 r hr t h1 h2]
    by_cases hb : botPred (initSeg W H C R MC MR) r t
    · have hb' := hb
      unfold botPred at hb'
      rw [if_pos hb, if_pos hb']
    · have hb' := hb
      unfold botPred at hb'
      rw [if_neg hb, if_neg hb']

/-- (5d) every row after the first is fed by a bottom edge: with at least two SB columns by the geometry
    (`cst_succ_le_cen_add`), and a picture one SB wide has a single segment row (line 83), so there is no
    "row after the first".  (Without the clamp of line 83 this fails for `W = 1`, `Rr ≥ 2`:
    `no_bottom_edge_W1` in SegmentsArith.) -/
theorem initSeg_live (ok : InitOK W H C R MR) (MC : Nat) : Live (initSeg W H C R MC MR) := by
  obtain ⟨eR, eB, _, _, _, _, _, _, hrow⟩ := initSeg_wf_static ok MC
  intro r hr
  rw [(hrow r (by omega)).2.1, (hrow (r + 1) hr).1, eB]
  rcases effR_live ok.hW1 H R MR with h | h
  · exact cst_succ_le_cen_add h (effR_pos ok.hH1 ok.hR ok.hMR) (effR_le_H ok.hH1) r
  · rw [eR] at hr; omega

/-- a picture (tile group) one SB wide is a single segment: one row, one band -/
theorem initSeg_W1 (ok : InitOK 1 H C R MR) (MC : Nat) :
    (initSeg 1 H C R MC MR).segRowCount = 1 ∧ (initSeg 1 H C R MC MR).segBandCount = 1 ∧
    (initSeg 1 H C R MC MR).segTtlCount = 1 := by
  obtain ⟨eR, eB, _, eT, _, _, _, _, _⟩ := initSeg_wf_static ok MC
  have hC := ok.hC
  have e1 : effR 1 H R MR = 1 := effR_W1 H R MR
  have e2 : min C 1 = 1 := by omega
  rw [e1] at eR
  rw [e1, e2] at eB
  refine ⟨eR, by rw [eB]; rfl, ?_⟩
  rw [eT, eR, eB]; rfl

end

/-! non-vacuity: the hypotheses are satisfiable, also for the formerly stuck one-SB-wide grid -/
example : InitOK 5 7 3 4 6 := ⟨by decide, by decide, by decide, by decide, by decide, by decide, by decide,
  by decide, by decide⟩
example : WF (initSeg 5 7 3 4 6 6) := initSeg_wf ⟨by decide, by decide, by decide, by decide, by decide,
  by decide, by decide, by decide, by decide⟩ 6
example : Live (initSeg 1 7 1 4 6 6) := initSeg_live ⟨by decide, by decide, by decide, by decide,
  by decide, by decide, by decide, by decide, by decide⟩ 6

/-- The control block the init code produced BEFORE the clamp of EbEncDecSegments.c:83 for a picture 1 SB wide and
    2 SBs high with 2 segment rows (C = 1, R = 2): band count 2, rows `{0}` and `{3}`, every dependency count 0.
    Used as the witness that the hypotheses of `sched_stuck` are satisfiable (this grid really hung). -/
def preFixW1x2 : SegCtl :=
  { maxRowCount := 2, maxBandCount := 3, maxTotalCount := 6, segBandCount := 2, segRowCount := 2, segTtlCount := 4,
    sbBandCount := 2, sbRowCount := 2, validSb := #[1, 0, 0, 1], xStart := #[0, 65535, 65535, 0],
    yStart := #[0, 65535, 65535, 1], dep := #[0, 0, 0, 0],
    rows := #[{ starting := 0, ending := 0, current := 0 }, { starting := 3, ending := 3, current := 3 }] }

theorem preFixW1x2_wf : WF preFixW1x2 := wf_of_check preFixW1x2 false (by decide)

end Seg
