/-
  C07 part B — loop lemmas for the 32-bit full-distortion kernels: every loop of the models is turned into a fold over
  (row, column-group) indices on the four qword lanes, and every fold into a `Nat` sum.  Core Lean only.
-/
import SvtVerif.Lemmas.SimdB1

namespace Simd

/-! ### finite sums and folds over index ranges -/

/-- `sumN n f = f 0 + f 1 + ... + f (n-1)` -/
def sumN : Nat → (Nat → Nat) → Nat
  | 0, _ => 0
  | n + 1, f => sumN n f + f n

theorem sumN_succ' (n : Nat) (f : Nat → Nat) : sumN (n + 1) f = f 0 + sumN n (fun i => f (i + 1)) := by
  induction n with
  | zero => simp [sumN]
  | succ n ih => rw [sumN, ih, sumN]; omega

theorem sumN_congr {n : Nat} {f g : Nat → Nat} (h : ∀ i, i < n → f i = g i) : sumN n f = sumN n g := by
  induction n with
  | zero => rfl
  | succ n ih => rw [sumN, sumN, ih (fun i hi => h i (by omega)), h n (by omega)]

theorem sumN_add (n : Nat) (f g : Nat → Nat) : sumN n (fun i => f i + g i) = sumN n f + sumN n g := by
  induction n with
  | zero => rfl
  | succ n ih => simp only [sumN, ih]; omega

theorem sumN_mul (n k : Nat) (f : Nat → Nat) : sumN n (fun i => k * f i) = k * sumN n f := by
  induction n with
  | zero => rfl
  | succ n ih => simp only [sumN, ih, Nat.mul_add]

theorem sumN_le {n : Nat} {f g : Nat → Nat} (h : ∀ i, i < n → f i ≤ g i) : sumN n f ≤ sumN n g := by
  induction n with
  | zero => exact Nat.le_refl _
  | succ n ih =>
    have := ih (fun i hi => h i (by omega)); have := h n (by omega)
    simp only [sumN]; omega

theorem sumN_const (n k : Nat) : sumN n (fun _ => k) = n * k := by
  induction n with
  | zero => simp [sumN]
  | succ n ih => simp only [sumN, ih, Nat.add_mul]; omega

/-- a term of a sum is at most the sum -/
theorem le_sumN {n : Nat} (f : Nat → Nat) {i : Nat} (hi : i < n) : f i ≤ sumN n f := by
  induction n with
  | zero => omega
  | succ n ih =>
    simp only [sumN]
    by_cases h : i < n
    · have := ih h; omega
    · have : i = n := by omega
      subst this; omega

/-- split a sum over `4 * n` columns into the four column-lanes `i % 4 = ℓ` -/
theorem sumN_four (n : Nat) (f : Nat → Nat) :
    sumN (4 * n) f = sumN n (fun g => f (4 * g + 0)) + sumN n (fun g => f (4 * g + 1))
      + sumN n (fun g => f (4 * g + 2)) + sumN n (fun g => f (4 * g + 3)) := by
  induction n with
  | zero => rfl
  | succ n ih =>
    have : 4 * (n + 1) = 4 * n + 1 + 1 + 1 + 1 := by omega
    rw [this]
    simp only [sumN, ih, Nat.add_zero, Nat.add_assoc, Nat.reduceAdd, Nat.mul_add, Nat.mul_one]
    omega

/-- forward fold: `foldN op n f a = op (.. (op (op a (f 0)) (f 1)) ..) (f (n-1))` -/
def foldN {α β : Type} (op : α → β → α) : Nat → (Nat → β) → α → α
  | 0, _, a => a
  | n + 1, f, a => foldN op n (fun g => f (g + 1)) (op a (f 0))

/-- fold over rows `j < h` and, inside each row, over `g < n` -/
def fold2 {α β : Type} (op : α → β → α) (h n : Nat) (F : Nat → Nat → β) (a : α) : α :=
  foldN (fun a' row => foldN op n row a') h F a

theorem foldN_shift {α β : Type} (op : α → β → α) (n : Nat) (f f' : Nat → β) (a a' : α)
    (hf : ∀ g, f' g = f (g + 1)) (ha : a' = op a (f 0)) : foldN op n f' a' = foldN op (n + 1) f a := by
  subst ha; rw [foldN, funext hf]

theorem fold2_shift {α β : Type} (op : α → β → α) (h n : Nat) (F F' : Nat → Nat → β) (a a' : α)
    (hF : ∀ j g, F' j g = F (j + 1) g) (ha : a' = foldN op n (F 0) a) :
    fold2 op h n F' a' = fold2 op (h + 1) n F a := by
  subst ha
  have : F' = fun j => F (j + 1) := funext fun j => funext fun g => hF j g
  rw [fold2, fold2, foldN, this]

theorem foldN_add_toNat (n : Nat) (f : Nat → BitVec 64) (a : BitVec 64) :
    (foldN (· + ·) n f a).toNat = (a.toNat + sumN n (fun g => (f g).toNat)) % 2 ^ 64 := by
  induction n generalizing f a with
  | zero => simp [foldN, sumN]; omega
  | succ n ih =>
    rw [foldN, ih, sumN_succ', BitVec.toNat_add]
    omega

theorem fold2_add_toNat (h n : Nat) (F : Nat → Nat → BitVec 64) (a : BitVec 64) :
    (fold2 (· + ·) h n F a).toNat = (a.toNat + sumN h (fun j => sumN n (fun g => (F j g).toNat))) % 2 ^ 64 := by
  unfold fold2
  induction h generalizing F a with
  | zero => simp [foldN, sumN]; omega
  | succ h ih =>
    rw [foldN, ih, sumN_succ', foldN_add_toNat]
    omega

theorem lo32_toNat (q : BitVec 64) : (lo32 q).toNat = q.toNat % 2 ^ 32 := by
  simp [lo32, BitVec.extractLsb'_toNat]

theorem hi32_toNat (q : BitVec 64) : (hi32 q).toNat = q.toNat / 2 ^ 32 := by
  have := q.isLt
  simp only [hi32, BitVec.extractLsb'_toNat, Nat.shiftRight_eq_div_pow]
  omega

theorem append32_toNat (x y : BitVec 32) : (x ++ y).toNat = x.toNat * 2 ^ 32 + y.toNat := by
  rw [BitVec.toNat_append, ← Nat.shiftLeft_add_eq_or_of_lt y.isLt, Nat.shiftLeft_eq]

/-- low dword of the `_mm256_add_epi32` accumulator lane: sum of the low dwords, mod 2^32 — the carry is dropped -/
theorem add32x2_lo (p q : BitVec 64) :
    (add32x2 p q).toNat % 2 ^ 32 = (p.toNat % 2 ^ 32 + q.toNat % 2 ^ 32) % 2 ^ 32 := by
  rw [add32x2, append32_toNat, BitVec.toNat_add, BitVec.toNat_add, lo32_toNat, lo32_toNat]
  omega

/-- high dword: sum of the high dwords, mod 2^32, WITHOUT the carry of the low dwords -/
theorem add32x2_hi (p q : BitVec 64) :
    (add32x2 p q).toNat / 2 ^ 32 = (p.toNat / 2 ^ 32 + q.toNat / 2 ^ 32) % 2 ^ 32 := by
  rw [add32x2, append32_toNat, BitVec.toNat_add, BitVec.toNat_add, hi32_toNat, hi32_toNat]
  omega

theorem foldN_add32x2 (n : Nat) (f : Nat → BitVec 64) (a : BitVec 64) :
    (foldN add32x2 n f a).toNat % 2 ^ 32 = (a.toNat % 2 ^ 32 + sumN n (fun g => (f g).toNat % 2 ^ 32)) % 2 ^ 32 ∧
    (foldN add32x2 n f a).toNat / 2 ^ 32 = (a.toNat / 2 ^ 32 + sumN n (fun g => (f g).toNat / 2 ^ 32)) % 2 ^ 32 := by
  induction n generalizing f a with
  | zero =>
    have := a.isLt
    simp only [foldN, sumN]; omega
  | succ n ih =>
    have h := ih (fun g => f (g + 1)) (add32x2 a (f 0))
    rw [foldN, sumN_succ', sumN_succ', h.1, h.2, add32x2_lo, add32x2_hi]
    omega

theorem fold2_add32x2 (h n : Nat) (F : Nat → Nat → BitVec 64) (a : BitVec 64) :
    (fold2 add32x2 h n F a).toNat % 2 ^ 32
      = (a.toNat % 2 ^ 32 + sumN h (fun j => sumN n (fun g => (F j g).toNat % 2 ^ 32))) % 2 ^ 32 ∧
    (fold2 add32x2 h n F a).toNat / 2 ^ 32
      = (a.toNat / 2 ^ 32 + sumN h (fun j => sumN n (fun g => (F j g).toNat / 2 ^ 32))) % 2 ^ 32 := by
  unfold fold2
  induction h generalizing F a with
  | zero =>
    have := a.isLt
    simp only [foldN, sumN]; omega
  | succ h ih =>
    have h1 := ih (fun g => F (g + 1)) (foldN add32x2 n (F 0) a)
    have h2 := foldN_add32x2 n (F 0) a
    rw [foldN, sumN_succ', sumN_succ', h1.1, h1.2, h2.1, h2.2]
    omega

/-! ### the AVX2 loops on lane level -/

/-- a 256-bit register given by its four qword lanes -/
def L4 (a : Nat → BitVec 64) : Reg := unlanes64 [a 0, a 1, a 2, a 3]

theorem L4_congr {a b : Nat → BitVec 64} (h : ∀ l, a l = b l) : L4 a = L4 b := by rw [funext h]

/-- per-lane product of line 1266-1267: `mul_epi32(x - y, x - y)` -/
def prodV (c r : BitVec 32) : BitVec 64 := mulLo32 (sext64 c - sext64 r) (sext64 c - sext64 r)
/-- per-lane product of line 1264 / 1311: `mul_epi32(x, x)` -/
def sqV (c : BitVec 32) : BitVec 64 := mulLo32 (sext64 c) (sext64 c)

theorem fd32vBody_lanes (coeff recon : Mem 32) (ct rt : Nat) (a b : Nat → BitVec 64) :
    fd32vBody coeff recon ct rt ⟨L4 a, L4 b⟩ =
      ⟨L4 (fun l => add32x2 (a l) (prodV (coeff (ct + l)) (recon (rt + l)))),
       L4 (fun l => b l + sqV (coeff (ct + l)))⟩ := by
  simp only [fd32vBody, L4, cvt_load, mul_epi32_unlanes, add_epi64_unlanes, sub_epi64_unlanes, add_epi32_unlanes,
    List.zipWith_cons_cons, List.zipWith_nil_right, prodV, sqV, Nat.add_zero]

theorem ofNat32_succ_sub_one (n : Nat) : BitVec.ofNat 32 (n + 1) - 1 = BitVec.ofNat 32 n := by
  apply BitVec.eq_of_toNat_eq
  have h1 : (1 : BitVec 32).toNat = 1 := rfl
  simp only [BitVec.toNat_sub, BitVec.toNat_ofNat, h1]
  omega

theorem ofNat32_ne_zero {n : Nat} (h0 : 0 < n) (hn : n < 2 ^ 32) : (BitVec.ofNat 32 n != 0) = true := by
  simp only [bne_iff_ne, ne_eq]
  intro h
  have := congrArg BitVec.toNat h
  have h0 : (0 : BitVec 32).toNat = 0 := rfl
  simp only [BitVec.toNat_ofNat, h0] at this
  omega

theorem ofNat32_toNat_pos {n : Nat} (h0 : 0 < n) (hn : n < 2 ^ 32) : (BitVec.ofNat 32 n).toNat > 0 := by
  simp only [BitVec.toNat_ofNat]; omega

/-- column loop (lines 1257-1271) with `col_count = n + 1` -/
theorem fd32vCols_lanes (coeff recon : Mem 32) (n : Nat) :
    ∀ (fuel ct rt : Nat) (a b : Nat → BitVec 64), n + 1 ≤ fuel → n + 1 < 2 ^ 32 →
    fd32vCols coeff recon fuel (BitVec.ofNat 32 (n + 1)) ct rt ⟨L4 a, L4 b⟩ =
      some ⟨L4 (fun l => foldN add32x2 (n + 1) (fun g => prodV (coeff (ct + 4 * g + l)) (recon (rt + 4 * g + l))) (a l)),
            L4 (fun l => foldN (· + ·) (n + 1) (fun g => sqV (coeff (ct + 4 * g + l))) (b l))⟩ := by
  induction n with
  | zero =>
    intro fuel ct rt a b hf _
    obtain ⟨fuel, rfl⟩ : ∃ k, fuel = k + 1 := ⟨fuel - 1, by omega⟩
    simp only [fd32vCols, fd32vBody_lanes, ofNat32_succ_sub_one, foldN]
    simp
  | succ n ih =>
    intro fuel ct rt a b hf hn
    obtain ⟨fuel, rfl⟩ : ∃ k, fuel = k + 1 := ⟨fuel - 1, by omega⟩
    rw [fd32vCols]
    simp only [fd32vBody_lanes, ofNat32_succ_sub_one]
    rw [if_pos (ofNat32_ne_zero (by omega) (by omega)), ih fuel (ct + 4) (rt + 4) _ _ (by omega) (by omega)]
    refine congrArg some ?_
    refine congr (congrArg Fd32V.mk (L4_congr fun l => ?_)) (L4_congr fun l => ?_)
    · exact foldN_shift _ _ _ _ _ _ (fun g => by congr 2 <;> omega) (by simp)
    · exact foldN_shift _ _ _ _ _ _ (fun g => by congr 2; omega) (by simp)

/-- row loop (lines 1252-1276) with `row_count = h + 1`, `col_count = area_width / 4 = n + 1` -/
theorem fd32vRows_lanes (coeff recon : Mem 32) (cs rs w n : Nat) (hw : w / 4 = n + 1) (hn : n + 1 < 2 ^ 32) (h : Nat) :
    ∀ (fuel cp rp : Nat) (a b : Nat → BitVec 64), h + 1 ≤ fuel → h + 1 < 2 ^ 32 →
    fd32vRows coeff recon cs rs w fuel (BitVec.ofNat 32 (h + 1)) cp rp ⟨L4 a, L4 b⟩ =
      some ⟨L4 (fun l => fold2 add32x2 (h + 1) (n + 1)
                  (fun j g => prodV (coeff (cp + j * cs + 4 * g + l)) (recon (rp + j * rs + 4 * g + l))) (a l)),
            L4 (fun l => fold2 (· + ·) (h + 1) (n + 1) (fun j g => sqV (coeff (cp + j * cs + 4 * g + l))) (b l))⟩ := by
  induction h with
  | zero =>
    intro fuel cp rp a b hf _
    obtain ⟨fuel, rfl⟩ : ∃ k, fuel = k + 1 := ⟨fuel - 1, by omega⟩
    rw [fd32vRows]
    simp only [hw, fd32vCols_lanes coeff recon n (n + 1) cp rp a b (Nat.le_refl _) hn, ofNat32_succ_sub_one]
    simp [fold2, foldN]
  | succ h ih =>
    intro fuel cp rp a b hf hh
    obtain ⟨fuel, rfl⟩ : ∃ k, fuel = k + 1 := ⟨fuel - 1, by omega⟩
    rw [fd32vRows]
    simp only [hw, fd32vCols_lanes coeff recon n (n + 1) cp rp a b (Nat.le_refl _) hn, ofNat32_succ_sub_one]
    rw [if_pos (ofNat32_toNat_pos (by omega) (by omega)), ih fuel (cp + cs) (rp + rs) _ _ (by omega) (by omega)]
    refine congrArg some ?_
    refine congr (congrArg Fd32V.mk (L4_congr fun l => ?_)) (L4_congr fun l => ?_)
    · exact fold2_shift _ _ _ _ _ _ _ (fun j g => by
        have := Nat.add_one_mul j cs; have := Nat.add_one_mul j rs; congr 2 <;> omega) (by simp)
    · exact fold2_shift _ _ _ _ _ _ _ (fun j g => by
        have := Nat.add_one_mul j cs; congr 2; omega) (by simp)

/-! ### cbf_zero AVX2 loops -/

theorem fdzvBody_lanes (coeff : Mem 32) (ct : Nat) (b : Nat → BitVec 64) :
    fdzvBody coeff ct (L4 b) = L4 (fun l => b l + sqV (coeff (ct + l))) := by
  simp only [fdzvBody, L4, cvt_load, mul_epi32_unlanes, add_epi64_unlanes,
    List.zipWith_cons_cons, List.zipWith_nil_right, sqV, Nat.add_zero]

theorem fdzvCols_lanes (coeff : Mem 32) (n : Nat) :
    ∀ (fuel ct : Nat) (b : Nat → BitVec 64), n + 1 ≤ fuel → n + 1 < 2 ^ 32 →
    fdzvCols coeff fuel (BitVec.ofNat 32 (n + 1)) ct (L4 b) =
      some (L4 (fun l => foldN (· + ·) (n + 1) (fun g => sqV (coeff (ct + 4 * g + l))) (b l))) := by
  induction n with
  | zero =>
    intro fuel ct b hf _
    obtain ⟨fuel, rfl⟩ : ∃ k, fuel = k + 1 := ⟨fuel - 1, by omega⟩
    simp only [fdzvCols, fdzvBody_lanes, ofNat32_succ_sub_one, foldN]
    simp
  | succ n ih =>
    intro fuel ct b hf hn
    obtain ⟨fuel, rfl⟩ : ∃ k, fuel = k + 1 := ⟨fuel - 1, by omega⟩
    rw [fdzvCols]
    simp only [fdzvBody_lanes, ofNat32_succ_sub_one]
    rw [if_pos (ofNat32_ne_zero (by omega) (by omega)), ih fuel (ct + 4) _ (by omega) (by omega)]
    refine congrArg some (L4_congr fun l => ?_)
    exact foldN_shift _ _ _ _ _ _ (fun g => by congr 2; omega) (by simp)

theorem fdzvRows_lanes (coeff : Mem 32) (cs w n : Nat) (hw : w / 4 = n + 1) (hn : n + 1 < 2 ^ 32) (h : Nat) :
    ∀ (fuel cp : Nat) (b : Nat → BitVec 64), h + 1 ≤ fuel → h + 1 < 2 ^ 32 →
    fdzvRows coeff cs w fuel (BitVec.ofNat 32 (h + 1)) cp (L4 b) =
      some (L4 (fun l => fold2 (· + ·) (h + 1) (n + 1) (fun j g => sqV (coeff (cp + j * cs + 4 * g + l))) (b l))) := by
  induction h with
  | zero =>
    intro fuel cp b hf _
    obtain ⟨fuel, rfl⟩ : ∃ k, fuel = k + 1 := ⟨fuel - 1, by omega⟩
    rw [fdzvRows]
    simp only [hw, fdzvCols_lanes coeff n (n + 1) cp b (Nat.le_refl _) hn, ofNat32_succ_sub_one]
    simp [fold2, foldN]
  | succ h ih =>
    intro fuel cp b hf hh
    obtain ⟨fuel, rfl⟩ : ∃ k, fuel = k + 1 := ⟨fuel - 1, by omega⟩
    rw [fdzvRows]
    simp only [hw, fdzvCols_lanes coeff n (n + 1) cp b (Nat.le_refl _) hn, ofNat32_succ_sub_one]
    rw [if_pos (ofNat32_toNat_pos (by omega) (by omega)), ih fuel (cp + cs) _ (by omega) (by omega)]
    refine congrArg some (L4_congr fun l => ?_)
    exact fold2_shift _ _ _ _ _ _ _ (fun j g => by
        have := Nat.add_one_mul j cs; congr 2; omega) (by simp)

end Simd
