/-
  C23 — helper lemmas for the System Resource Manager model (`Model/Srm.lean`):
  * `Tr`: the successful atomic steps in normal form (`step_Tr`: every `step … = ok` is one of them),
  * the invariant components (`LocOk`, `I2`, `SemOk`, `RegOk`, `OrderOk`, `ProcOk`) and their preservation
    by every atomic step (hence by every interleaving),
  * the circular-buffer refinement lemmas (`circbuf_*`).
-/
import SvtVerif.Model.Srm

namespace Srm
set_option linter.unusedVariables false
set_option linter.unusedSimpArgs false

/-! ## assignation loop -/

theorem assignN_preserves (P : State → Prop) (sd : Side)
    (hP : ∀ s s', P s → assignStep sd s = some s' → P s') : ∀ n s, P s → P (assignN sd n s) := by
  intro n
  induction n with
  | zero => intro s h; exact h
  | succ n ih =>
    intro s h
    unfold assignN
    split
    · rename_i s' he; exact ih s' (hP s s' h he)
    · exact h

theorem assign_preserves (P : State → Prop) (sd : Side)
    (hP : ∀ s s', P s → assignStep sd s = some s' → P s') (s : State) (h : P s) : P (assign sd s) :=
  assignN_preserves P sd hP _ s h

/-- shape of one loop iteration -/
theorem assignStep_some {sd : Side} {s s' : State} (he : assignStep sd s = some s') :
    ∃ o os p ps, s.objQ sd = o :: os ∧ s.procQ sd = p :: ps ∧
      s' = { s with objQ := upd1 s.objQ sd os, procQ := upd1 s.procQ sd ps,
                    items := upd2 s.items sd p (s.items sd p ++ [o]),
                    sem := upd2 s.sem sd p (s.sem sd p + 1),
                    assigned := upd1 s.assigned sd (s.assigned sd ++ [(p, o)]),
                    loc := upd s.loc o (.fifo sd p) } := by
  unfold assignStep at he
  split at he
  · rename_i o os p ps ho hp
    simp only [Option.some.injEq] at he
    exact ⟨o, os, p, ps, ho, hp, he.symm⟩
  · simp at he

theorem assignStep_none {sd : Side} {s : State} (he : assignStep sd s = none) :
    s.objQ sd = [] ∨ s.procQ sd = [] := by
  unfold assignStep at he
  split at he
  · simp at he
  · rename_i hne
    cases ho : s.objQ sd with
    | nil => exact Or.inl rfl
    | cons o os =>
      cases hp : s.procQ sd with
      | nil => exact Or.inr rfl
      | cons p ps => exact absurd hp (hne o os p ps ho)

/-- The loop runs to its fixpoint, and does not touch the other muxing queue. -/
theorem assignN_fix (sd : Side) : ∀ n s, (s.objQ sd).length ≤ n →
    ((assignN sd n s).objQ sd = [] ∨ (assignN sd n s).procQ sd = []) := by
  intro n
  induction n with
  | zero =>
    intro s h
    left
    simp only [assignN]
    exact List.eq_nil_of_length_eq_zero (by omega)
  | succ n ih =>
    intro s h
    unfold assignN
    split
    · rename_i s' he
      obtain ⟨o, os, p, ps, ho, hp, rfl⟩ := assignStep_some he
      apply ih
      simp only [upd1, ↓reduceIte]
      rw [ho] at h
      simp only [List.length_cons] at h
      omega
    · rename_i he
      exact assignStep_none he

theorem assignN_other (sd d : Side) (hd : d ≠ sd) : ∀ n s,
    (assignN sd n s).objQ d = s.objQ d ∧ (assignN sd n s).procQ d = s.procQ d := by
  intro n
  induction n with
  | zero => intro s; exact ⟨rfl, rfl⟩
  | succ n ih =>
    intro s
    unfold assignN
    split
    · rename_i s' he
      obtain ⟨o, os, p, ps, ho, hp, rfl⟩ := assignStep_some he
      constructor
      · rw [(ih _).1]; simp only [upd1, hd, ↓reduceIte]
      · rw [(ih _).2]; simp only [upd1, hd, ↓reduceIte]
    · exact ⟨rfl, rfl⟩

/-! ## normal form of the atomic steps -/

inductive Tr (s : State) : Op → State → Ret → Prop
  | reg (sd f pq) : f < s.nProc sd → (s.pc sd f = .idle ∨ (sd = .full ∧ s.pc sd f = .nbCall)) →
      pushProc (s.procQ sd) (s.nProc sd) f = some pq →
      Tr s (.reg sd f) (assign sd { s with procQ := upd1 s.procQ sd pq, pc := upd2 s.pc sd f .waiting }) .ok
  | nbReg (f pq) : f < s.nProc .full → s.pc .full f = .idle →
      pushProc (s.procQ .full) (s.nProc .full) f = some pq →
      Tr s (.nbReg f) (assign .full { s with nbUsed := true, procQ := upd1 s.procQ .full pq,
                                             pc := upd2 s.pc .full f .nbPeek }) .ok
  | peekSome (f) : s.pc .full f = .nbPeek → s.quit .full f = false → s.items .full f ≠ [] →
      Tr s (.peek f) { s with pc := upd2 s.pc .full f .nbCall } .nonEmpty
  | peekNone (f) : s.pc .full f = .nbPeek → ¬ (s.quit .full f = false ∧ s.items .full f ≠ []) →
      Tr s (.peek f) { s with pc := upd2 s.pc .full f .idle } .null
  | semWait (sd f) : s.pc sd f = .waiting → s.sem sd f ≠ 0 →
      Tr s (.semWait sd f) { s with sem := upd2 s.sem sd f (s.sem sd f - 1), pc := upd2 s.pc sd f .popping } .ok
  | popShut (f) : s.pc .full f = .popping → s.quit .full f = true →
      Tr s (.pop .full f) { s with pc := upd2 s.pc .full f .idle,
                                   shutRets := upd2 s.shutRets .full f (s.shutRets .full f + 1) } .shutdown
  | popEmpty (f o rest) : s.pc .empty f = .popping → s.items .empty f = o :: rest →
      Tr s (.pop .empty f) { s with items := upd2 s.items .empty f rest, pc := upd2 s.pc .empty f .idle,
                                    taken := upd2 s.taken .empty f (s.taken .empty f ++ [o]),
                                    loc := upd s.loc o .held,
                                    live := upd s.live o 0, relEn := upd s.relEn o true } (.obj o)
  | popFull (f o rest) : s.pc .full f = .popping → s.quit .full f = false → s.items .full f = o :: rest →
      Tr s (.pop .full f) { s with items := upd2 s.items .full f rest, pc := upd2 s.pc .full f .idle,
                                   taken := upd2 s.taken .full f (s.taken .full f ++ [o]),
                                   loc := upd s.loc o .held } (.obj o)
  | post (o) : o < s.nObj → s.nProc .full ≠ 0 → (s.objQ .full).length < s.nObj →
      Tr s (.post o) (assign .full { s with objQ := upd1 s.objQ .full (s.objQ .full ++ [o]),
                                            loc := upd s.loc o (.objQ .full), posted := s.posted ++ [o] }) .ok
  | relPush (o) : o < s.nObj → s.relEn o = true → s.live o ≤ 1 → (s.objQ .empty).length < s.nObj →
      Tr s (.release o) (assign .empty { s with live := upd s.live o released,
                                                objQ := upd1 s.objQ .empty (o :: s.objQ .empty),
                                                loc := upd s.loc o (.objQ .empty) }) .ok
  | relKeep (o) : o < s.nObj → ¬ (s.relEn o = true ∧ s.live o ≤ 1) →
      Tr s (.release o) { s with live := upd s.live o (s.live o - 1) } .ok
  | incLive (o k) : o < s.nObj →
      Tr s (.incLive o k) { s with live := upd s.live o ((s.live o + k) % 4294967296) } .ok
  | setRel (o b) : o < s.nObj → Tr s (.setRel o b) { s with relEn := upd s.relEn o b } .ok
  | shutQuit (f) : f < s.nProc .full →
      Tr s (.shutQuit f) { s with quit := upd2 s.quit .full f true, shutUsed := true,
                                  shutPend := upd2 s.shutPend .full f (s.shutPend .full f + 1) } .ok
  | shutPost (f) : s.shutPend .full f ≠ 0 →
      Tr s (.shutPost f) { s with sem := upd2 s.sem .full f (s.sem .full f + 1),
                                  shutPend := upd2 s.shutPend .full f (s.shutPend .full f - 1),
                                  shutPosts := upd2 s.shutPosts .full f (s.shutPosts .full f + 1) } .ok

theorem register_ok {s s' : State} {sd f pc' r} (h : register s sd f pc' = .ok s' r) :
    ∃ pq, pushProc (s.procQ sd) (s.nProc sd) f = some pq ∧
      s' = assign sd { s with procQ := upd1 s.procQ sd pq, pc := upd2 s.pc sd f pc' } ∧ r = .ok := by
  unfold register at h
  split at h
  · cases h
  · rename_i pq hp
    refine ⟨pq, hp, ?_⟩
    injection h with h1 h2
    exact ⟨h1.symm, h2.symm⟩

/-- Every successful `step` is one of the `Tr` transitions. -/
theorem step_Tr {s s' : State} {op : Op} {r : Ret} (hs : step s op = .ok s' r) : Tr s op s' r := by
  cases op with
  | reg sd f =>
    simp only [step] at hs
    split at hs; · cases hs
    rename_i hf
    split at hs
    · rename_i hpc
      obtain ⟨pq, hp, rfl, rfl⟩ := register_ok hs
      exact Tr.reg sd f pq (by omega) hpc hp
    · cases hs
  | nbReg f =>
    simp only [step] at hs
    split at hs; · cases hs
    rename_i hf
    split at hs
    · rename_i hpc
      obtain ⟨pq, hp, rfl, rfl⟩ := register_ok hs
      exact Tr.nbReg f pq (by omega) hpc hp
    · cases hs
  | peek f =>
    simp only [step] at hs
    split at hs; · cases hs
    rename_i hpc
    have hpc' : s.pc .full f = .nbPeek := by
      cases h : s.pc .full f <;> simp_all
    split at hs
    · rename_i hc
      injection hs with h1 h2; subst h1; subst h2
      exact Tr.peekSome f hpc' hc.1 hc.2
    · rename_i hc
      injection hs with h1 h2; subst h1; subst h2
      exact Tr.peekNone f hpc' hc
  | semWait sd f =>
    simp only [step] at hs
    split at hs; · cases hs
    rename_i hpc
    have hpc' : s.pc sd f = .waiting := by
      cases h : s.pc sd f <;> simp_all
    split at hs; · cases hs
    rename_i hsem
    injection hs with h1 h2; subst h1; subst h2
    exact Tr.semWait sd f hpc' hsem
  | pop sd f =>
    simp only [step] at hs
    split at hs; · cases hs
    rename_i hpc
    have hpc' : s.pc sd f = .popping := by
      cases h : s.pc sd f <;> simp_all
    split at hs
    · rename_i hc
      obtain ⟨rfl, hq⟩ := hc
      injection hs with h1 h2; subst h1; subst h2
      exact Tr.popShut f hpc' hq
    · rename_i hc
      split at hs
      · cases hs
      · rename_i o rest hi
        cases sd with
        | empty =>
          simp only at hs
          injection hs with h1 h2; subst h1; subst h2
          exact Tr.popEmpty f o rest hpc' hi
        | full =>
          simp only at hs
          injection hs with h1 h2; subst h1; subst h2
          have hq : s.quit .full f = false := by
            cases h : s.quit .full f
            · rfl
            · exact absurd ⟨rfl, h⟩ hc
          exact Tr.popFull f o rest hpc' hq hi
  | post o =>
    simp only [step] at hs
    split at hs; · cases hs
    rename_i ho
    split at hs; · cases hs
    rename_i hn
    split at hs; · cases hs
    rename_i hq
    injection hs with h1 h2; subst h1; subst h2
    exact Tr.post o (by omega) hn (by omega)
  | release o =>
    simp only [step] at hs
    have hl : (if s.live o = 0 then 0 else s.live o - 1) = s.live o - 1 := by split <;> omega
    rw [hl] at hs
    by_cases ho : o < s.nObj
    · simp only [ho, not_true_eq_false, ↓reduceIte] at hs
      by_cases hc : s.relEn o = true ∧ s.live o - 1 = 0
      · simp only [hc, and_self, ↓reduceIte] at hs
        by_cases hq : (s.objQ .empty).length < s.nObj
        · simp only [hq, not_true_eq_false, ↓reduceIte] at hs
          injection hs with h1 h2; subst h1; subst h2
          exact Tr.relPush o ho hc.1 (by omega) hq
        · simp only [hq, not_false_eq_true, ↓reduceIte] at hs
          cases hs
      · simp only [hc, ↓reduceIte] at hs
        injection hs with h1 h2; subst h1; subst h2
        refine Tr.relKeep o ho ?_
        intro hh; exact hc ⟨hh.1, by omega⟩
    · simp only [ho, not_false_eq_true, ↓reduceIte] at hs
      cases hs
  | incLive o k =>
    simp only [step] at hs
    split at hs; · cases hs
    rename_i ho
    injection hs with h1 h2; subst h1; subst h2
    exact Tr.incLive o k (by omega)
  | setRel o b =>
    simp only [step] at hs
    split at hs; · cases hs
    rename_i ho
    injection hs with h1 h2; subst h1; subst h2
    exact Tr.setRel o b (by omega)
  | shutQuit f =>
    simp only [step] at hs
    split at hs; · cases hs
    rename_i hf
    injection hs with h1 h2; subst h1; subst h2
    exact Tr.shutQuit f (by omega)
  | shutPost f =>
    simp only [step] at hs
    split at hs; · cases hs
    rename_i hp
    injection hs with h1 h2; subst h1; subst h2
    exact Tr.shutPost f hp

/-! ## Invariant components -/

/-- (I1) conservation: the ghost location of every object is exact, lists have no duplicates. -/
structure LocOk (s : State) : Prop where
  objQ_loc : ∀ sd o, o ∈ s.objQ sd → o < s.nObj ∧ s.loc o = .objQ sd
  fifo_loc : ∀ sd f o, o ∈ s.items sd f → o < s.nObj ∧ s.loc o = .fifo sd f
  objQ_nodup : ∀ sd, (s.objQ sd).Nodup
  fifo_nodup : ∀ sd f, (s.items sd f).Nodup
  loc_objQ : ∀ o sd, o < s.nObj → s.loc o = .objQ sd → o ∈ s.objQ sd
  loc_fifo : ∀ o sd f, o < s.nObj → s.loc o = .fifo sd f → o ∈ s.items sd f

/-- (I2) after every atomic step, no muxing queue has both a waiting object and a waiting process. -/
def I2 (s : State) : Prop := ∀ sd, s.objQ sd = [] ∨ s.procQ sd = []

/-- (I3) semaphore accounting. -/
structure SemOk (s : State) : Prop where
  bal : ∀ sd f, s.sem sd f + (if s.pc sd f = .popping then 1 else 0) + s.shutRets sd f
                  = (s.items sd f).length + s.shutPosts sd f
  noquit : ∀ sd f, s.quit sd f = false → s.shutPosts sd f = 0 ∧ s.shutRets sd f = 0 ∧ s.shutPend sd f = 0
  emptyq : ∀ f, s.quit .empty f = false

/-- (I4a) no lost registration; everything in the process ring / assignment log is a real fifo. -/
structure RegOk (s : State) : Prop where
  waiting : ∀ sd f, s.pc sd f = .waiting → f ∈ s.procQ sd ∨ 0 < s.sem sd f
  bound : ∀ sd f, f ∈ s.procQ sd → f < s.nProc sd
  abound : ∀ sd x, x ∈ s.assigned sd → x.1 < s.nProc sd

/-- (I5) order. -/
structure OrderOk (s : State) : Prop where
  posted : (s.assigned .full).map Prod.snd ++ s.objQ .full = s.posted
  perFifo : ∀ sd f, ((s.assigned sd).filter (fun x => x.1 = f)).map Prod.snd = s.taken sd f ++ s.items sd f

/-- (I4b) on a queue used with blocking calls only and not shut down (always: the empty queue), a fifo is
    registered at most once, and its semaphore is 0 or 1. -/
structure ProcOk (s : State) : Prop where
  nodup : ∀ sd, (sd = .empty ∨ (s.nbUsed = false ∧ s.shutUsed = false)) → (s.procQ sd).Nodup
  inq : ∀ sd f, (sd = .empty ∨ (s.nbUsed = false ∧ s.shutUsed = false)) → f ∈ s.procQ sd →
    s.pc sd f = .waiting ∧ s.sem sd f = 0
  semw : ∀ sd f, (sd = .empty ∨ (s.nbUsed = false ∧ s.shutUsed = false)) →
    (s.pc sd f = .waiting → s.sem sd f ≤ 1) ∧ (s.pc sd f ≠ .waiting → s.sem sd f = 0)
  pend : s.shutUsed = false → ∀ f, s.shutPend .full f = 0

/-! ### preservation by one loop iteration -/

theorem assignStep_LocOk (sd : Side) (s s' : State) (h : LocOk s) (he : assignStep sd s = some s') : LocOk s' := by
  obtain ⟨o, os, p, ps, ho, hp, rfl⟩ := assignStep_some he
  obtain ⟨h1, h2, h3, h4, h5, h6⟩ := h
  have h1s := h1 sd
  have h3s := h3 sd
  rw [ho] at h1s h3s
  constructor <;> simp only [upd, upd1, upd2] <;> grind

theorem assignStep_SemOk (sd : Side) (s s' : State) (h : SemOk s) (he : assignStep sd s = some s') : SemOk s' := by
  obtain ⟨o, os, p, ps, ho, hp, rfl⟩ := assignStep_some he
  obtain ⟨h1, h2, h3⟩ := h
  constructor <;> simp only [upd, upd1, upd2] <;> grind

theorem assignStep_RegOk (sd : Side) (s s' : State) (h : RegOk s) (he : assignStep sd s = some s') : RegOk s' := by
  obtain ⟨o, os, p, ps, ho, hp, rfl⟩ := assignStep_some he
  obtain ⟨h1, h2, h3⟩ := h
  have h1s := h1 sd
  have h2s := h2 sd
  rw [hp] at h1s h2s
  constructor <;> simp only [upd, upd1, upd2] <;> grind

theorem assignStep_OrderOk (sd : Side) (s s' : State) (h : OrderOk s) (he : assignStep sd s = some s') : OrderOk s' := by
  obtain ⟨o, os, p, ps, ho, hp, rfl⟩ := assignStep_some he
  obtain ⟨h1, h2⟩ := h
  constructor
  · simp only [upd1]
    cases sd with
    | empty => simpa using h1
    | full =>
      simp only [↓reduceIte, List.map_append, List.map_cons, List.map_nil, List.append_assoc, List.cons_append, List.nil_append]
      rw [← h1, ho]
  · intro d f
    have := h2 d f
    simp only [upd1, upd2]
    by_cases hd : d = sd
    · subst hd
      by_cases hf : f = p
      · subst hf
        simp only [↓reduceIte, and_self, List.filter_append, List.map_append, this]
        simp
      · simp only [↓reduceIte, hf, and_false, List.filter_append, List.map_append, this]
        have : ¬ p = f := fun h => hf h.symm
        simp [this]
    · simp only [hd, ↓reduceIte, false_and, this]

theorem assignStep_ProcOk (sd : Side) (s s' : State) (h : ProcOk s) (he : assignStep sd s = some s') : ProcOk s' := by
  obtain ⟨o, os, p, ps, ho, hp, rfl⟩ := assignStep_some he
  obtain ⟨h1, h2, h3, h4⟩ := h
  have h1s := h1 sd
  have h2s := h2 sd
  rw [hp] at h1s h2s
  constructor <;> simp only [upd, upd1, upd2] <;> grind

/-! ### preservation by every atomic step -/

theorem Tr_LocOk {s s' : State} {op : Op} {r : Ret} (h : LocOk s) (hw : WellUsed s op) (ht : Tr s op s' r) : LocOk s' := by
  obtain ⟨h1, h2, h3, h4, h5, h6⟩ := h
  cases ht
  case popEmpty f o rest hpc hi =>
    have := h2 .empty f; have := h4 .empty f
    constructor <;> simp only [upd, upd1, upd2] <;> grind
  case popFull f o rest hpc hq hi =>
    have := h2 .full f; have := h4 .full f
    constructor <;> simp only [upd, upd1, upd2] <;> grind
  case reg | nbReg | post | relPush =>
    simp only [WellUsed] at hw
    apply assign_preserves LocOk _ (assignStep_LocOk _)
    constructor <;> simp only [upd, upd1, upd2] <;> grind
  all_goals (constructor <;> simp only [upd, upd1, upd2] <;> grind)

theorem Tr_SemOk {s s' : State} {op : Op} {r : Ret} (h : SemOk s) (ht : Tr s op s' r) : SemOk s' := by
  obtain ⟨h1, h2, h3⟩ := h
  cases ht
  case reg | nbReg | post | relPush =>
    apply assign_preserves SemOk _ (assignStep_SemOk _)
    constructor <;> simp only [upd, upd1, upd2] <;> grind
  case popEmpty f o rest hpc hi =>
    have := h1 .empty f
    constructor <;> simp only [upd, upd1, upd2] <;> grind
  case popFull f o rest hpc hq hi =>
    have := h1 .full f
    constructor <;> simp only [upd, upd1, upd2] <;> grind
  all_goals (constructor <;> simp only [upd, upd1, upd2] <;> grind)

theorem pushProc_some {procQ : List Nat} {n f : Nat} {pq : List Nat} (h : pushProc procQ n f = some pq) :
    pq = f :: procQ ∨ (n = 1 ∧ pq = [f]) := by
  unfold pushProc at h
  split at h
  · left; injection h with h; exact h.symm
  · split at h
    · rename_i hn; right; injection h with h; exact ⟨hn, h.symm⟩
    · cases h

theorem Tr_RegOk {s s' : State} {op : Op} {r : Ret} (h : RegOk s) (ht : Tr s op s' r) : RegOk s' := by
  obtain ⟨h1, h2, h3⟩ := h
  cases ht
  case reg sd f pq hf hpc hp =>
    apply assign_preserves RegOk _ (assignStep_RegOk _)
    rcases pushProc_some hp with rfl | ⟨hn, rfl⟩
    · constructor <;> simp only [upd, upd1, upd2] <;> grind
    · constructor <;> simp only [upd, upd1, upd2] <;> grind
  case nbReg f pq hf hpc hp =>
    apply assign_preserves RegOk _ (assignStep_RegOk _)
    rcases pushProc_some hp with rfl | ⟨hn, rfl⟩
    · constructor <;> simp only [upd, upd1, upd2] <;> grind
    · constructor <;> simp only [upd, upd1, upd2] <;> grind
  case post | relPush =>
    apply assign_preserves RegOk _ (assignStep_RegOk _)
    constructor <;> simp only [upd, upd1, upd2] <;> grind
  all_goals (constructor <;> simp only [upd, upd1, upd2] <;> grind)

theorem Tr_OrderOk {s s' : State} {op : Op} {r : Ret} (h : OrderOk s) (ht : Tr s op s' r) : OrderOk s' := by
  obtain ⟨h1, h2⟩ := h
  cases ht
  case reg | nbReg =>
    apply assign_preserves OrderOk _ (assignStep_OrderOk _)
    exact ⟨h1, h2⟩
  case post o ho hn hq =>
    apply assign_preserves OrderOk _ (assignStep_OrderOk _)
    constructor
    · simp only [upd1, ↓reduceIte, ← h1, List.append_assoc]
    · intro d f
      have := h2 d f
      cases d <;> simpa [upd1] using this
  case relPush o ho hr hl hq =>
    apply assign_preserves OrderOk _ (assignStep_OrderOk _)
    constructor
    · simpa [upd1] using h1
    · intro d f
      have := h2 d f
      cases d <;> simpa [upd1] using this
  case popEmpty f o rest hpc hi =>
    constructor
    · exact h1
    · intro d g
      have := h2 d g
      simp only [upd2]
      by_cases hc : d = Side.empty ∧ g = f
      · obtain ⟨rfl, rfl⟩ := hc
        simp only [and_self, ↓reduceIte, this, hi, List.append_assoc, List.cons_append, List.nil_append]
      · simp only [hc, ↓reduceIte, this]
  case popFull f o rest hpc hq hi =>
    constructor
    · exact h1
    · intro d g
      have := h2 d g
      simp only [upd2]
      by_cases hc : d = Side.full ∧ g = f
      · obtain ⟨rfl, rfl⟩ := hc
        simp only [and_self, ↓reduceIte, this, hi, List.append_assoc, List.cons_append, List.nil_append]
      · simp only [hc, ↓reduceIte, this]
  all_goals exact ⟨h1, h2⟩

theorem Tr_ProcOk {s s' : State} {op : Op} {r : Ret} (h : ProcOk s) (ht : Tr s op s' r) : ProcOk s' := by
  obtain ⟨h1, h2, h3, h4⟩ := h
  cases ht
  case reg sd f pq hf hpc hp =>
    apply assign_preserves ProcOk _ (assignStep_ProcOk _)
    have := h1 sd
    have := h2 sd f
    have := h3 sd f
    rcases pushProc_some hp with rfl | ⟨hn, rfl⟩
    · constructor <;> simp only [upd, upd1, upd2] <;> grind
    · constructor <;> simp only [upd, upd1, upd2] <;> grind
  case nbReg f pq hf hpc hp =>
    apply assign_preserves ProcOk _ (assignStep_ProcOk _)
    have := h1 .empty
    constructor <;> simp only [upd, upd1, upd2] <;> grind
  case post | relPush =>
    apply assign_preserves ProcOk _ (assignStep_ProcOk _)
    constructor <;> simp only [upd, upd1, upd2] <;> grind
  all_goals (constructor <;> simp only [upd, upd1, upd2] <;> grind)

theorem Tr_I2 {s s' : State} {op : Op} {r : Ret} (h : I2 s) (ht : Tr s op s' r) : I2 s' := by
  have key : ∀ sd (s0 : State), (∀ d, d ≠ sd → s0.objQ d = s.objQ d ∧ s0.procQ d = s.procQ d) → I2 (assign sd s0) := by
    intro sd s0 h0 d
    by_cases hd : d = sd
    · subst hd; exact assignN_fix d _ s0 (Nat.le_refl _)
    · have := assignN_other sd d hd (s0.objQ sd).length s0
      unfold assign
      rw [this.1, this.2, (h0 d hd).1, (h0 d hd).2]
      exact h d
  cases ht
  case reg sd f pq hf hpc hp =>
    apply key; intro d hd; simp only [upd1, hd, ↓reduceIte, and_self]
  case nbReg f pq hf hpc hp =>
    apply key; intro d hd; simp only [upd1, hd, ↓reduceIte, and_self]
  case post o ho hn hq =>
    apply key; intro d hd; simp only [upd1, hd, ↓reduceIte, and_self]
  case relPush o ho hr hl hq =>
    apply key; intro d hd; simp only [upd1, hd, ↓reduceIte, and_self]
  all_goals exact h

/-! ## The invariant -/

structure Inv (s : State) : Prop where
  loc : LocOk s
  i2 : I2 s
  sem : SemOk s
  reg : RegOk s
  order : OrderOk s
  proc : ProcOk s

theorem init_Inv (nObj nProd nCons : Nat) : Inv (init nObj nProd nCons) := by
  refine ⟨?_, ?_, ?_, ?_, ?_, ?_⟩
  · constructor
    · intro sd o h; cases sd <;> simp_all [init]
    · intro sd f o h; simp [init] at h
    · intro sd; cases sd <;> simp [init, List.nodup_range]
    · intro sd f; simp [init]
    · intro o sd ho h; cases sd <;> simp_all [init]
    · intro o sd f ho h; simp [init] at h
  · intro sd; right; rfl
  · constructor <;> simp [init]
  · constructor <;> simp [init]
  · constructor
    · simp [init]
    · intro sd f; simp [init]
  · constructor <;> simp [init]

theorem step_Inv {s s' : State} {op : Op} {r : Ret} (h : Inv s) (hw : WellUsed s op)
    (hs : step s op = .ok s' r) : Inv s' :=
  have ht := step_Tr hs
  ⟨Tr_LocOk h.loc hw ht, Tr_I2 h.i2 ht, Tr_SemOk h.sem ht, Tr_RegOk h.reg ht, Tr_OrderOk h.order ht,
   Tr_ProcOk h.proc ht⟩

theorem reachable_Inv {s : State} (h : Reachable s) : Inv s := by
  induction h with
  | init n p c => exact init_Inv n p c
  | step _ hw hs ih => exact step_Inv ih hw hs

/-! ## No undefined behaviour under the caller protocol -/

theorem nodup_bounded_length : ∀ (n : Nat) (l : List Nat), l.Nodup → (∀ x, x ∈ l → x < n) → l.length ≤ n := by
  intro n
  induction n with
  | zero =>
    intro l _ h
    cases l with
    | nil => simp
    | cons a t => exact absurd (h a (by simp)) (by omega)
  | succ n ih =>
    intro l hn h
    have h1 : (l.erase n).Nodup := hn.erase n
    have h2 : ∀ x, x ∈ l.erase n → x < n := by
      intro x hx
      have := (List.Nodup.mem_erase_iff hn).1 hx
      have := h x this.2
      omega
    have := ih _ h1 h2
    have h3 := List.length_erase_le (a := n) (l := l)
    by_cases hm : n ∈ l
    · rw [List.length_erase_of_mem hm] at this; omega
    · rw [List.erase_of_not_mem hm] at this; omega

theorem pushProc_ne_none {procQ : List Nat} {n f : Nat} (h : procQ.length < n ∨ n = 1) : pushProc procQ n f ≠ none := by
  unfold pushProc
  split
  · simp
  · split
    · simp
    · rcases h with h | h <;> omega

def ArgsOk (s : State) : Op → Prop
  | .reg sd f => f < s.nProc sd
  | .nbReg f => f < s.nProc .full
  | .post o => o < s.nObj ∧ s.nProc .full ≠ 0
  | .release o => o < s.nObj
  | .incLive o _ => o < s.nObj
  | .setRel o _ => o < s.nObj
  | .shutQuit f => f < s.nProc .full
  | _ => True

instance (s : State) (op : Op) : Decidable (ArgsOk s op) := by
  cases op <;> unfold ArgsOk <;> infer_instance

/-- result of a step, if it succeeded -/
def Res.ret? : Res → Option Ret
  | .ok _ r => some r
  | _ => none

theorem Res.ret?_some {x : Res} {r : Ret} (h : x.ret? = some r) : ∃ s', x = .ok s' r := by
  cases x with
  | ok s' r' => simp only [Res.ret?, Option.some.injEq] at h; exact ⟨s', by rw [h]⟩
  | blocked => cases h
  | badPc => cases h
  | ub w => cases h

theorem procQ_room {s : State} (h : Inv s) (sd : Side) (f : Nat)
    (hc : sd = .empty ∨ (s.nbUsed = false ∧ s.shutUsed = false)) (hf : f < s.nProc sd)
    (hpc : s.pc sd f ≠ .waiting) : (s.procQ sd).length < s.nProc sd := by
  have hnd := h.proc.nodup sd hc
  have hin := h.proc.inq sd f hc
  have hb := h.reg.bound sd
  have hnot : f ∉ s.procQ sd := fun hm => hpc (hin hm).1
  have : (f :: s.procQ sd).Nodup := List.nodup_cons.2 ⟨hnot, hnd⟩
  have := nodup_bounded_length (s.nProc sd) (f :: s.procQ sd) this (by
    intro x hx
    rcases List.mem_cons.1 hx with rfl | hx
    · exact hf
    · exact hb x hx)
  simp only [List.length_cons] at this
  omega

theorem objQ_room {s : State} (h : Inv s) (sd : Side) (o : Nat) (ho : o < s.nObj) (hl : s.loc o = .held) :
    (s.objQ sd).length < s.nObj := by
  have hnd := h.loc.objQ_nodup sd
  have hin := h.loc.objQ_loc sd
  have hnot : o ∉ s.objQ sd := fun hm => by have := (hin o hm).2; rw [hl] at this; cases this
  have : (o :: s.objQ sd).Nodup := List.nodup_cons.2 ⟨hnot, hnd⟩
  have := nodup_bounded_length s.nObj (o :: s.objQ sd) this (by
    intro x hx
    rcases List.mem_cons.1 hx with rfl | hx
    · exact ho
    · exact (hin x hx).1)
  simp only [List.length_cons] at this
  omega

theorem no_ub {s : State} {op : Op} (h : Inv s) (hw : WellUsed s op) (ha : ArgsOk s op)
    (hc : (s.nbUsed = false ∧ s.shutUsed = false) ∨ s.nProc .full = 1) : ∀ w, step s op ≠ .ub w := by
  intro w
  cases op with
  | reg sd f =>
    simp only [ArgsOk] at ha
    simp only [step, ha, not_true_eq_false, ↓reduceIte]
    split
    · rename_i hpc
      unfold register
      have : pushProc (s.procQ sd) (s.nProc sd) f ≠ none := by
        apply pushProc_ne_none
        cases sd with
        | empty => left; exact procQ_room h .empty f (Or.inl rfl) ha (by rcases hpc with h | h <;> simp_all)
        | full =>
          rcases hc with hc | hc
          · left; exact procQ_room h .full f (Or.inr hc) ha (by rcases hpc with h | h <;> simp_all)
          · right; exact hc
      split
      · rename_i hp; exact absurd hp this
      · simp
    · simp
  | nbReg f =>
    simp only [ArgsOk] at ha
    simp only [step, ha, not_true_eq_false, ↓reduceIte]
    split
    · rename_i hpc
      unfold register
      have : pushProc (s.procQ .full) (s.nProc .full) f ≠ none := by
        apply pushProc_ne_none
        rcases hc with hc | hc
        · left; exact procQ_room h .full f (Or.inr hc) ha (by simp_all)
        · right; exact hc
      split
      · rename_i hp; exact absurd hp this
      · simp
    · simp
  | peek f =>
    simp only [step]
    split; · simp
    split <;> simp
  | semWait sd f =>
    simp only [step]
    split; · simp
    split <;> simp
  | pop sd f =>
    simp only [step]
    split; · simp
    rename_i hpc
    have hpc' : s.pc sd f = .popping := by cases hh : s.pc sd f <;> simp_all
    split; · simp
    rename_i hq
    have hbal := h.sem.bal sd f
    have hnq := h.sem.noquit sd f
    have hq' : s.quit sd f = false := by
      cases sd with
      | empty => exact h.sem.emptyq f
      | full =>
        cases hh : s.quit .full f
        · rfl
        · exact absurd ⟨rfl, hh⟩ hq
    have := hnq hq'
    split
    · rename_i hi
      rw [hi, hpc'] at hbal
      simp at hbal
      omega
    · cases sd <;> simp
  | post o =>
    simp only [ArgsOk] at ha
    simp only [WellUsed] at hw
    have := objQ_room h .full o ha.1 hw
    simp only [step, ha.1, ha.2, this, not_true_eq_false, ↓reduceIte]
    simp
  | release o =>
    simp only [ArgsOk] at ha
    simp only [WellUsed] at hw
    have := objQ_room h .empty o ha hw
    simp only [step, ha, this, not_true_eq_false, ↓reduceIte]
    split <;> (split <;> simp)
  | incLive o k => simp only [ArgsOk] at ha; simp [step, ha]
  | setRel o b => simp only [ArgsOk] at ha; simp [step, ha]
  | shutQuit f => simp only [ArgsOk] at ha; simp [step, ha]
  | shutPost f =>
    simp only [step]
    split <;> simp

/-! ## Runs (for non-vacuity examples) and small facts about `assign` -/

/-- Run atomic steps, checking the caller protocol; `none` if a step is not enabled. -/
def runW (s : State) : List Op → Option State
  | [] => some s
  | op :: ops =>
    if WellUsed s op then
      match step s op with
      | .ok s' _ => runW s' ops
      | _ => none
    else none

theorem runW_reachable : ∀ (ops : List Op) (s s' : State), Reachable s → runW s ops = some s' → Reachable s' := by
  intro ops
  induction ops with
  | nil => intro s s' h hr; simp only [runW, Option.some.injEq] at hr; exact hr ▸ h
  | cons op ops ih =>
    intro s s' h hr
    unfold runW at hr
    split at hr
    · rename_i hw
      split at hr
      · rename_i s1 r hs
        exact ih s1 s' (Reachable.step h hw hs) hr
      · cases hr
    · cases hr

theorem exists_reachable_of_run (n p c : Nat) (ops : List Op) (P : State → Prop) [DecidablePred P]
    (h : (runW (init n p c) ops).map (fun s => decide (P s)) = some true) : ∃ s, Reachable s ∧ P s := by
  cases hr : runW (init n p c) ops with
  | none => rw [hr] at h; cases h
  | some s =>
    rw [hr] at h
    simp only [Option.map_some, Option.some.injEq, decide_eq_true_eq] at h
    exact ⟨s, runW_reachable ops _ s (Reachable.init n p c) hr, h⟩

theorem assign_loc_pool (o : Nat) (s : State)
    (h : s.loc o = .objQ .empty ∨ ∃ p, s.loc o = .fifo .empty p) :
    (assign .empty s).loc o = .objQ .empty ∨ ∃ p, (assign .empty s).loc o = .fifo .empty p := by
  apply assign_preserves (fun s => s.loc o = .objQ .empty ∨ ∃ p, s.loc o = .fifo .empty p) .empty _ s h
  intro s s' h he
  obtain ⟨o', os, p, ps, ho, hp, rfl⟩ := assignStep_some he
  simp only [upd]
  by_cases hc : o = o'
  · right; exact ⟨p, by simp [hc]⟩
  · simpa [hc] using h

/-! ## Circular buffer: the array implementation refines the list -/

namespace CircBuf

/-- array index of the `i`-th queue element (no `%`: `head, i < cap`). -/
def idx (b : CircBuf) (i : Nat) : Nat := if b.head + i < b.cap then b.head + i else b.head + i - b.cap

/-- `Rep b l`: the array of `b` holds the queue `l` (front first) starting at `head`, cyclically, NULL elsewhere. -/
structure Rep (b : CircBuf) (l : List Nat) : Prop where
  len : b.arr.length = b.cap
  pos : 0 < b.cap
  head : b.head < b.cap
  fit : l.length ≤ b.cap
  tail : b.tail = if l.length = b.cap then b.head else idx b l.length
  cells : ∀ i, i < b.cap → (b.arr[idx b i]?).getD 0 = (l[i]?).getD 0
  nz : ∀ x, x ∈ l → x ≠ 0

theorem getD_set (l : List Nat) (i j x : Nat) (hi : i < l.length) :
    ((l.set i x)[j]?).getD 0 = if j = i then x else (l[j]?).getD 0 := by
  simp only [List.getElem?_set]
  by_cases h : i = j
  · subst h; simp [hi]
  · have : ¬ j = i := fun e => h e.symm
    simp [h, this]

theorem rep_new (cap : Nat) (h : 0 < cap) : Rep (new cap) [] := by
  refine ⟨by simp [new], h, h, by simp, ?_, ?_, by simp⟩
  · simp [new, idx, h]
  · intro i hi
    simp only [new, List.getElem?_replicate]
    split <;> simp

theorem rep_isEmpty {b : CircBuf} {l : List Nat} (h : Rep b l) : b.isEmpty = true ↔ l = [] := by
  have hc := h.cells 0 h.pos
  have hh := h.head
  have h0 : idx b 0 = b.head := by simp [idx, hh]
  rw [h0] at hc
  unfold isEmpty
  simp only [List.getD_eq_getElem?_getD]
  cases l with
  | nil =>
    have ht := h.tail
    have hp := h.pos
    simp only [List.length_nil, h0] at ht
    have : b.tail = b.head := by rw [ht]; split <;> rfl
    simp at hc
    simp [hc, this]
  | cons x t =>
    have := h.nz x (by simp)
    simp at hc
    simp [hc, this]

theorem rep_pushBack {b : CircBuf} {l : List Nat} {x : Nat} (h : Rep b l) (hl : l.length < b.cap) (hx : x ≠ 0) :
    Rep (b.pushBack x) (l ++ [x]) := by
  obtain ⟨hlen, hpos, hhead, hfit, htail, hcells, hnz⟩ := h
  have hne : ¬ l.length = b.cap := by omega
  simp only [hne, ↓reduceIte] at htail
  have htl : b.tail < b.cap := by rw [htail]; unfold idx; split <;> omega
  have htail' : b.tail = if b.head + l.length < b.cap then b.head + l.length else b.head + l.length - b.cap := htail
  refine ⟨by simp [pushBack, hlen], hpos, hhead, by simp [pushBack]; omega, ?_, ?_, ?_⟩
  · simp only [pushBack, List.length_append, List.length_cons, List.length_nil, idx, beq_iff_eq]
    rw [htail']
    grind
  · intro i hi
    simp only [pushBack] at hi ⊢
    have hidx : idx { b with arr := b.arr.set b.tail x, tail := if b.tail = b.cap - 1 then 0 else b.tail + 1, count := b.count + 1 } i = idx b i := rfl
    rw [hidx, getD_set _ _ _ _ (by omega)]
    have hci := hcells i hi
    by_cases hil : i = l.length
    · subst hil
      simp [htail]
    · have hne : ¬ idx b i = b.tail := by
        rw [htail']; simp only [idx]; grind
      simp only [hne, ↓reduceIte, hci]
      by_cases hlt : i < l.length
      · simp [List.getElem?_append_left hlt]
      · have h1 : l[i]? = none := List.getElem?_eq_none (by omega)
        have h2 : (l ++ [x])[i]? = none := List.getElem?_eq_none (by simp; omega)
        rw [h1, h2]
  · intro y hy
    rcases List.mem_append.1 hy with hy | hy
    · exact hnz y hy
    · simp at hy; omega

theorem rep_pushFront {b : CircBuf} {l : List Nat} {x : Nat} (h : Rep b l) (hl : l.length < b.cap) (hx : x ≠ 0) :
    Rep (b.pushFront x) (x :: l) := by
  obtain ⟨hlen, hpos, hhead, hfit, htail, hcells, hnz⟩ := h
  have hne : ¬ l.length = b.cap := by omega
  simp only [hne, ↓reduceIte] at htail
  have hh' : (if b.head = 0 then b.cap - 1 else b.head - 1) < b.cap := by grind
  have htail' : b.tail = if b.head + l.length < b.cap then b.head + l.length else b.head + l.length - b.cap := htail
  refine ⟨by simp [pushFront, hlen], hpos, by simpa [pushFront] using hh', by simp [pushFront]; omega, ?_, ?_, ?_⟩
  · simp only [pushFront, List.length_cons, idx, beq_iff_eq]
    rw [htail']
    grind
  · intro i hi
    simp only [pushFront] at hi ⊢
    rw [getD_set _ _ _ _ (by rw [hlen]; exact hh')]
    cases i with
    | zero =>
      have : idx { b with arr := b.arr.set (if b.head = 0 then b.cap - 1 else b.head - 1) x, head := (if b.head = 0 then b.cap - 1 else b.head - 1), count := b.count + 1 } 0 = (if b.head = 0 then b.cap - 1 else b.head - 1) := by
        simp only [idx, Nat.add_zero]; grind
      simp [this]
    | succ j =>
      have hj : j < b.cap := by omega
      have hcj := hcells j hj
      have hidx : idx { b with arr := b.arr.set (if b.head = 0 then b.cap - 1 else b.head - 1) x, head := (if b.head = 0 then b.cap - 1 else b.head - 1), count := b.count + 1 } (j + 1) = idx b j := by
        simp only [idx, beq_iff_eq]; grind
      have hne : ¬ idx b j = (if b.head = 0 then b.cap - 1 else b.head - 1) := by
        simp only [idx, beq_iff_eq]; grind
      rw [hidx]
      simp only [hne, ↓reduceIte, hcj, List.getElem?_cons_succ]
  · intro y hy
    rcases List.mem_cons.1 hy with rfl | hy
    · exact hx
    · exact hnz y hy

theorem rep_popFront {b : CircBuf} {l : List Nat} {x : Nat} (h : Rep b (x :: l)) :
    b.popFront.1 = x ∧ Rep b.popFront.2 l := by
  obtain ⟨hlen, hpos, hhead, hfit, htail, hcells, hnz⟩ := h
  have h0 : idx b 0 = b.head := by simp [idx, hhead]
  have hc0 := hcells 0 hpos
  rw [h0] at hc0
  simp at hc0
  simp only [List.length_cons] at hfit htail
  have hh' : (if b.head = b.cap - 1 then 0 else b.head + 1) < b.cap := by
    grind
  constructor
  · simp [popFront, List.getD_eq_getElem?_getD, hc0]
  · refine ⟨by simp [popFront, hlen], hpos, by simpa [popFront] using hh', by simp [popFront]; omega, ?_, ?_, ?_⟩
    · simp only [popFront, idx, beq_iff_eq]
      rw [htail]; simp only [idx]
      grind
    · intro i hi
      simp only [popFront] at hi ⊢
      rw [getD_set _ _ _ _ (by omega)]
      by_cases hlast : i = b.cap - 1
      · -- the slot just vacated
        have hidx : idx { b with arr := b.arr.set b.head 0, head := (if b.head = b.cap - 1 then 0 else b.head + 1), count := b.count - 1 } i = b.head := by
          simp only [idx, beq_iff_eq]; grind
        rw [hidx]
        have : l[i]? = none := List.getElem?_eq_none (by omega)
        simp [this]
      · have hi1 : i + 1 < b.cap := by omega
        have hc := hcells (i + 1) hi1
        have hidx : idx { b with arr := b.arr.set b.head 0, head := (if b.head = b.cap - 1 then 0 else b.head + 1), count := b.count - 1 } i = idx b (i + 1) := by
          simp only [idx, beq_iff_eq]; grind
        have hne : ¬ idx b (i + 1) = b.head := by
          simp only [idx]; grind
        rw [hidx]
        simp only [hne, ↓reduceIte, hc, List.getElem?_cons_succ]
    · intro y hy; exact hnz y (List.mem_cons_of_mem _ hy)

/-- The double registration of `svt_get_full_object_non_blocking` on a single-consumer resource:
    `push_front` on a *full one-slot* ring overwrites the only slot; the ring still reads as a one-element
    queue (only `current_count`, which nothing reads, is off). -/
theorem rep_pushFront_full_single {b : CircBuf} {x y : Nat} (h : Rep b [y]) (hc : b.cap = 1) (hx : x ≠ 0) :
    Rep (b.pushFront x) [x] := by
  obtain ⟨hlen, hpos, hhead, hfit, htail, hcells, hnz⟩ := h
  have hh : b.head = 0 := by omega
  refine ⟨by simp [pushFront, hlen], hpos, by simp [pushFront, hh, hc], by simp [pushFront, hc], ?_, ?_, ?_⟩
  · simp only [List.length_cons, List.length_nil, hc, hh] at htail
    simp [pushFront, hc, hh, htail]
  · intro i hi
    simp only [pushFront, hc] at hi
    have : i = 0 := by omega
    subst this
    simp only [pushFront, hh, hc]
    rw [getD_set _ _ _ _ (by rw [hlen, hc]; simp)]
    simp [idx]
  · intro z hz; simp at hz; omega

end CircBuf

end Srm
