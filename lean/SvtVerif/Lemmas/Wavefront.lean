/-
  Lemmas about the task-graph model `Model/Wavefront.lean` (C04): invariants, confluence (all interleavings,
  any number of workers), equality with the sequential topological-order program, progress and termination
  for acyclic graphs, and the EncDec-segment instance (guard enforced by the real hand-out protocol: C24).
-/
import SvtVerif.Model.Wavefront
import SvtVerif.Lemmas.Srm
import SvtVerif.Lemmas.SegmentsGlue
import SvtVerif.Lemmas.SegmentsMeasure

namespace Wavefront
set_option linter.unusedVariables false
set_option linter.unusedSimpArgs false

variable {V : Type}

/-! ## shape of the steps -/

theorem step_start {G : Dag V} {s s' : St V} {t : Nat} (h : step G s (.start t) = some s') :
    canStart G s t ∧ s' = { s with started := t :: s.started } := by
  by_cases hc : canStart G s t
  · simp only [step, hc, if_true, Option.some.injEq] at h
    exact ⟨hc, h.symm⟩
  · simp only [step, hc, if_false] at h
    cases h

theorem step_finish {G : Dag V} {s s' : St V} {t : Nat} (h : step G s (.finish t) = some s') :
    canFinish s t ∧ s' = { s with done := t :: s.done, store := upd s.store t (G.body t s.store) } := by
  by_cases hc : canFinish s t
  · simp only [step, hc, if_true, Option.some.injEq] at h
    exact ⟨hc, h.symm⟩
  · simp only [step, hc, if_false] at h
    cases h

theorem upd_same (σ : Nat → V) (t : Nat) (v : V) : upd σ t v t = v := by simp [upd]

theorem upd_other (σ : Nat → V) {t u : Nat} (v : V) (h : u ≠ t) : upd σ t v u = σ u := by simp [upd, h]

/-! ## invariants of every reachable state -/

structure Inv (G : Dag V) (σ0 : Nat → V) (s : St V) : Prop where
  started_lt : ∀ t, t ∈ s.started → t < G.n
  done_sub : ∀ t, t ∈ s.done → t ∈ s.started
  started_nodup : s.started.Nodup
  done_nodup : s.done.Nodup
  guard_done : ∀ t, t ∈ s.started → ∀ d, d ∈ G.guard t → d ∈ s.done
  frame : ∀ t, t ∉ s.done → s.store t = σ0 t

theorem inv_init (G : Dag V) (σ0 : Nat → V) : Inv G σ0 (init σ0) := by
  constructor <;> simp [init]

theorem inv_step {G : Dag V} {σ0 : Nat → V} {s s' : St V} {ev : Ev} (hi : Inv G σ0 s)
    (hs : step G s ev = some s') : Inv G σ0 s' := by
  cases ev with
  | start t =>
    obtain ⟨⟨h1, h2, h3⟩, rfl⟩ := step_start hs
    refine ⟨?_, ?_, ?_, hi.done_nodup, ?_, hi.frame⟩
    · intro u hu
      rcases List.mem_cons.1 hu with rfl | hu
      · exact h1
      · exact hi.started_lt u hu
    · intro u hu; exact List.mem_cons_of_mem _ (hi.done_sub u hu)
    · exact List.nodup_cons.2 ⟨h2, hi.started_nodup⟩
    · intro u hu d hd
      rcases List.mem_cons.1 hu with rfl | hu
      · exact h3 d hd
      · exact hi.guard_done u hu d hd
  | finish t =>
    obtain ⟨⟨h1, h2⟩, rfl⟩ := step_finish hs
    refine ⟨hi.started_lt, ?_, hi.started_nodup, ?_, ?_, ?_⟩
    · intro u hu
      rcases List.mem_cons.1 hu with rfl | hu
      · exact h1
      · exact hi.done_sub u hu
    · exact List.nodup_cons.2 ⟨h2, hi.done_nodup⟩
    · intro u hu d hd; exact List.mem_cons_of_mem _ (hi.guard_done u hu d hd)
    · intro u hu
      have hne : u ≠ t := fun h => hu (by rw [h]; exact List.mem_cons_self)
      have hnd : u ∉ s.done := fun h => hu (List.mem_cons_of_mem _ h)
      show upd s.store t (G.body t s.store) u = σ0 u
      rw [upd_other _ _ hne]; exact hi.frame u hnd

theorem reachable_inv {G : Dag V} {σ0 : Nat → V} {s : St V} (h : Reachable G σ0 s) : Inv G σ0 s := by
  induction h with
  | init => exact inv_init G σ0
  | step _ hs ih => exact inv_step ih hs

/-- every proper ancestor of a task that has been handed out is done -/
theorem anc_done {G : Dag V} {σ0 : Nat → V} {s : St V} (hi : Inv G σ0 s) {d t : Nat} (ha : Anc G d t) :
    t ∈ s.started → d ∈ s.done := by
  induction ha with
  | base hg => intro ht; exact hi.guard_done _ ht _ hg
  | step hg _ ih => intro ht; exact ih (hi.done_sub _ (hi.guard_done _ ht _ hg))

/-- each finished cell holds the body's value on the CURRENT store (cells it read never change afterwards) -/
def FixInv (G : Dag V) (s : St V) : Prop := ∀ t, t ∈ s.done → s.store t = G.body t s.store

theorem fix_step {G : Dag V} {reads : Nat → List Nat} {σ0 : Nat → V} {s s' : St V} {ev : Ev}
    (hf : Footprint G reads) (hi : Inv G σ0 s) (hx : FixInv G s) (hs : step G s ev = some s') : FixInv G s' := by
  cases ev with
  | start t =>
    obtain ⟨_, rfl⟩ := step_start hs
    exact hx
  | finish u =>
    obtain ⟨⟨h1, h2⟩, rfl⟩ := step_finish hs
    -- the new store agrees with the old one on everything a handed-out task reads
    have hsame : ∀ t, t ∈ s.started → G.body t (upd s.store u (G.body u s.store)) = G.body t s.store := by
      intro t ht
      apply hf.2
      intro d hd
      have hdd : d ∈ s.done := anc_done hi (hf.1 t d hd) ht
      have hne : d ≠ u := fun h => h2 (h ▸ hdd)
      exact upd_other _ _ hne
    intro t ht
    show upd s.store u (G.body u s.store) t = G.body t (upd s.store u (G.body u s.store))
    rcases List.mem_cons.1 ht with rfl | ht
    · rw [upd_same, hsame _ h1]
    · have hne : t ≠ u := fun h => h2 (h ▸ ht)
      rw [upd_other _ _ hne, hsame t (hi.done_sub t ht)]
      exact hx t ht

theorem reachable_fix {G : Dag V} {reads : Nat → List Nat} {σ0 : Nat → V} {s : St V} (hf : Footprint G reads)
    (h : Reachable G σ0 s) : FixInv G s := by
  induction h with
  | init => intro t ht; simp [init] at ht
  | step hr hs ih => exact fix_step hf (reachable_inv hr) ih hs

/-- **Agreement.** Two executions (any schedules) agree on the cell of every task both have finished. -/
theorem agree {G : Dag V} {reads : Nat → List Nat} {σ0 : Nat → V} (hf : Footprint G reads) {s1 s2 : St V}
    (h1 : Reachable G σ0 s1) (h2 : Reachable G σ0 s2) :
    ∀ t, t ∈ s1.done → t ∈ s2.done → s1.store t = s2.store t := by
  have i2 := reachable_inv h2
  have x2 := reachable_fix hf h2
  induction h1 with
  | init => intro t ht; simp [init] at ht
  | step hr hs ih =>
    rename_i s s' ev
    have i1 := reachable_inv hr
    cases ev with
    | start t =>
      obtain ⟨_, rfl⟩ := step_start hs
      exact ih
    | finish u =>
      obtain ⟨⟨hu1, hu2⟩, rfl⟩ := step_finish hs
      intro t ht ht2
      show upd s.store u (G.body u s.store) t = s2.store t
      rcases List.mem_cons.1 ht with rfl | ht
      · rw [upd_same, x2 _ ht2]
        apply hf.2
        intro d hd
        have ha := hf.1 _ d hd
        exact ih d (anc_done i1 ha hu1) (anc_done i2 ha (i2.done_sub _ ht2))
      · have hne : t ≠ u := fun h => hu2 (h ▸ ht)
        rw [upd_other _ _ hne]
        exact ih t ht ht2

/-- **Confluence.** All complete executions end in the same store. -/
theorem confluence {G : Dag V} {reads : Nat → List Nat} {σ0 : Nat → V} (hf : Footprint G reads) {s1 s2 : St V}
    (h1 : Reachable G σ0 s1) (h2 : Reachable G σ0 s2) (c1 : Complete G s1) (c2 : Complete G s2) :
    s1.store = s2.store := by
  funext t
  by_cases ht : t < G.n
  · exact agree hf h1 h2 t (c1 t ht) (c2 t ht)
  · have i1 := reachable_inv h1
    have i2 := reachable_inv h2
    rw [i1.frame t (fun hd => ht (i1.started_lt t (i1.done_sub t hd))),
        i2.frame t (fun hd => ht (i2.started_lt t (i2.done_sub t hd)))]

/-! ## the sequential program is one of the executions -/

theorem seq_reachable {G : Dag V} {σ0 : Nat → V} : ∀ (rest pre : List Nat) (σ : Nat → V),
    Reachable G σ0 { started := pre, done := pre, store := σ } → TopoFrom G pre rest →
    Reachable G σ0 { started := rest.reverse ++ pre, done := rest.reverse ++ pre,
                     store := rest.foldl (fun σ t => upd σ t (G.body t σ)) σ }
  | [], pre, σ, hr, _ => by simpa using hr
  | t :: rest, pre, σ, hr, ht => by
    obtain ⟨h1, h2, h3, h4⟩ := ht
    have hs : step G { started := pre, done := pre, store := σ } (.start t) =
        some { started := t :: pre, done := pre, store := σ } := by
      have hc : canStart G { started := pre, done := pre, store := σ } t := ⟨h1, h2, h3⟩
      simp only [step, hc, if_true]
    have hf : step G { started := t :: pre, done := pre, store := σ } (.finish t) =
        some { started := t :: pre, done := t :: pre, store := upd σ t (G.body t σ) } := by
      have hc : canFinish { started := t :: pre, done := pre, store := σ } t := ⟨List.mem_cons_self, h2⟩
      simp only [step, hc, if_true]
    have := seq_reachable rest (t :: pre) _ (Reachable.step (Reachable.step hr hs) hf) h4
    simpa [List.reverse_cons, List.append_assoc] using this

theorem seq_result {G : Dag V} {σ0 : Nat → V} {order : List Nat} (ho : Topo G order) :
    ∃ s, Reachable G σ0 s ∧ Complete G s ∧ s.store = seqStore G σ0 order := by
  have h := seq_reachable (G := G) (σ0 := σ0) order [] σ0 Reachable.init ho.1
  refine ⟨_, h, ?_, rfl⟩
  intro t ht
  show t ∈ order.reverse ++ []
  simpa using ho.2 t ht

/-! ## progress and termination -/

theorem progress {G : Dag V} {σ0 : Nat → V} {s : St V} {rank : Nat → Nat} (ha : Acyclic G rank)
    (hr : Reachable G σ0 s) (hnc : ¬ Complete G s) : ∃ ev s', step G s ev = some s' := by
  have hi := reachable_inv hr
  by_cases hrun : ∃ t, t ∈ s.started ∧ t ∉ s.done
  · obtain ⟨t, h1, h2⟩ := hrun
    have hc : canFinish s t := ⟨h1, h2⟩
    exact ⟨.finish t, { s with done := t :: s.done, store := upd s.store t (G.body t s.store) },
      by simp only [step, hc, if_true]⟩
  · have hsub : ∀ t, t ∈ s.started → t ∈ s.done := by
      intro t ht
      by_contra hn
      exact hrun ⟨t, ht, hn⟩
    by_contra hno
    have hno' : ∀ t, ¬ canStart G s t := by
      intro t hc
      exact hno ⟨.start t, { s with started := t :: s.started }, by simp only [step, hc, if_true]⟩
    have key : ∀ r t, rank t < r → t < G.n → t ∈ s.done := by
      intro r
      induction r with
      | zero => intro t h; omega
      | succ r ih =>
        intro t hrk ht
        by_contra hnd
        apply hno' t
        refine ⟨ht, fun hs => hnd (hsub t hs), fun d hd => ?_⟩
        have := ha t ht d hd
        exact ih d (by omega) this.1
    exact hnc (fun t ht => key (rank t + 1) t (by omega) ht)

theorem run_reachable {G : Dag V} {σ0 : Nat → V} : ∀ (evs : List Ev) (s s' : St V), Reachable G σ0 s →
    run G s evs = some s' → Reachable G σ0 s'
  | [], s, s', hr, h => by
    simp only [run, Option.some.injEq] at h
    exact h ▸ hr
  | ev :: evs, s, s', hr, h => by
    simp only [run] at h
    cases hs : step G s ev with
    | none => rw [hs] at h; cases h
    | some s1 =>
      rw [hs] at h
      exact run_reachable evs s1 s' (Reachable.step hr hs) h

theorem run_length {G : Dag V} : ∀ (evs : List Ev) (s s' : St V), run G s evs = some s' →
    s'.started.length + s'.done.length = s.started.length + s.done.length + evs.length
  | [], s, s', h => by
    simp only [run, Option.some.injEq] at h
    subst h; simp
  | ev :: evs, s, s', h => by
    simp only [run] at h
    cases hs : step G s ev with
    | none => rw [hs] at h; cases h
    | some s1 =>
      rw [hs] at h
      have ih := run_length evs s1 s' h
      cases ev with
      | start t =>
        obtain ⟨_, rfl⟩ := step_start hs
        simp only [List.length_cons] at ih ⊢
        omega
      | finish t =>
        obtain ⟨_, rfl⟩ := step_finish hs
        simp only [List.length_cons] at ih ⊢
        omega

theorem exec_bounded {G : Dag V} {σ0 : Nat → V} {evs : List Ev} {s : St V} (h : run G (init σ0) evs = some s) :
    evs.length ≤ 2 * G.n := by
  have hr := run_reachable evs _ _ (Reachable.init (G := G) (σ0 := σ0)) h
  have hi := reachable_inv hr
  have hl := run_length evs _ _ h
  have a := Srm.nodup_bounded_length G.n s.started hi.started_nodup hi.started_lt
  have b := Srm.nodup_bounded_length G.n s.done hi.done_nodup
    (fun t ht => hi.started_lt t (hi.done_sub t ht))
  simp only [init, List.length_nil] at hl
  omega

/-! ## EncDec segments: the real hand-out protocol enforces `segGuard` (C24) -/

theorem mem_segGuard {g : Seg.SegCtl} {p t : Nat} (h : p ∈ segGuard g t) :
    ∃ r, r < g.segRowCount ∧
      ((Seg.rowStart g.rows r ≤ p ∧ p < Seg.rowEnd g.rows r ∧ t = p + 1) ∨
       (r + 1 < g.segRowCount ∧ Seg.rowStart g.rows r ≤ p ∧ p ≤ Seg.rowEnd g.rows r ∧
        Seg.rowStart g.rows (r + 1) ≤ p + g.segBandCount ∧ t = p + g.segBandCount)) := by
  unfold segGuard at h
  have h2 := (List.mem_filter.1 h).2
  unfold segEdgeB at h2
  obtain ⟨r, hr, hb⟩ := List.any_eq_true.1 h2
  refine ⟨r, List.mem_range.1 hr, ?_⟩
  simp only [Bool.or_eq_true, Bool.and_eq_true, decide_eq_true_eq] at hb
  rcases hb with ⟨⟨a, b⟩, c⟩ | ⟨⟨⟨⟨a, b⟩, c⟩, d⟩, e⟩
  · exact Or.inl ⟨a, b, c⟩
  · exact Or.inr ⟨a, b, c, d, e⟩

/-- In every state the real `assign_enc_dec_segments` can reach (any number of workers, any interleaving), a
    segment that has been handed out (`ph ≥ 1`) has both of its guard segments past their SB loop (`ph ≥ 3`). -/
theorem seg_guard_holds {g : Seg.SegCtl} (hw : Seg.WF g) {st : Seg.ASt} (hr : Seg.Reachable g st) {t d : Nat}
    (hs : 1 ≤ Seg.aget st.ph t) (hd : d ∈ segGuard g t) : 3 ≤ Seg.aget st.ph d := by
  have hi := (Seg.reachable_inv hw hr).1
  obtain ⟨r, hr', h⟩ := mem_segGuard hd
  rcases h with ⟨a, b, rfl⟩ | ⟨a, b, c, e, rfl⟩
  · exact Seg.safe_right hw hi hr' a b hs
  · have := Seg.safe_bottom hw hi a b c e hs
    omega

end Wavefront
