/-
  C24 — glue between the abstract scheduling invariant (Lemmas/Segments.lean), the closed-form geometry
  (Lemmas/SegmentsArith.lean), the characterisation of `initSeg` (Lemmas/SegmentsInit.lean) and the
  SB-loop cover (Lemmas/SegmentsCover.lean).
-/
import SvtVerif.Lemmas.SegmentsInit
import SvtVerif.Lemmas.SegmentsCover

namespace Seg

section abstract
variable {g : SegCtl} {st : ASt}

/-- right edge: once `s+1` is handed out, `s` is past its right block (its SB loop finished before) -/
theorem safe_right (_hw : WF g) (h0 : Inv0 g st) {r s : Nat} (hr : r < g.segRowCount)
    (h1 : rowStart g.rows r ≤ s) (h2 : s < rowEnd g.rows r) (hp : 1 ≤ aget st.ph (s + 1)) :
    3 ≤ aget st.ph s := by
  have hd := h0.started_dep0 r hr (s + 1) (by omega) (by omega) hp
  rw [h0.dep_eq r hr (s + 1) (by omega) (by omega)] at hd
  by_contra hn
  have : rowStart g.rows r < s + 1 ∧ aget st.ph (s + 1 - 1) < 3 := ⟨by omega, by simp; omega⟩
  rw [if_pos this] at hd
  omega

/-- bottom edge: once `s+B` is handed out, the CONTINUE call of `s` has completed -/
theorem safe_bottom (hw : WF g) (h0 : Inv0 g st) {r s : Nat} (hr1 : r + 1 < g.segRowCount)
    (h1 : rowStart g.rows r ≤ s) (h2 : s ≤ rowEnd g.rows r)
    (h3 : rowStart g.rows (r + 1) ≤ s + g.segBandCount) (hp : 1 ≤ aget st.ph (s + g.segBandCount)) :
    aget st.ph s = 4 := by
  have hb2 : s + g.segBandCount ≤ rowEnd g.rows (r + 1) := by have := hw.en_mono r hr1; omega
  have hd := h0.started_dep0 (r + 1) hr1 _ h3 hb2 hp
  rw [h0.dep_eq (r + 1) hr1 _ h3 hb2] at hd
  have hle := h0.ph_le s
  by_contra hn
  have : botPred g (r + 1) (s + g.segBandCount) ∧ aget st.ph (s + g.segBandCount - g.segBandCount) < 4 := by
    refine ⟨⟨by omega, ?_, ?_⟩, ?_⟩ <;> simp <;> omega
  rw [if_pos this] at hd
  omega

end abstract

section concrete
variable {W H C R MR : Nat}

/-- one dependency edge of the closed-form relation `cEdge` (the edges `enc_dec_segments_init` counts):
    the target is handed out only after the source's SB loop finished and its decrement was performed -/
theorem safe_cEdge (ok : InitOK W H C R MR) (MC : Nat) {st : ASt}
    (h0 : Inv0 (initSeg W H C R MC MR) st) {p t : Nat}
    (he : cEdge W H (min C W) (effR W H R MR) p t) (ht : 1 ≤ aget st.ph t) : 3 ≤ aget st.ph p := by
  have hw := initSeg_wf ok MC
  obtain ⟨eR, eB, _, _, _, _, _, _, hrows⟩ := initSeg_wf_static ok MC
  rcases he with ⟨rfl, r, hr, a, b⟩ | ⟨rfl, r, hr1, a, b, c⟩
  · have hr' : r < (initSeg W H C R MC MR).segRowCount := by rw [eR]; exact hr
    obtain ⟨e1, e2, _⟩ := hrows r hr'
    exact safe_right hw h0 hr' (by rw [e1]; exact a) (by rw [e2]; exact b) ht
  · have hr' : r + 1 < (initSeg W H C R MC MR).segRowCount := by rw [eR]; exact hr1
    obtain ⟨e1, e2, _⟩ := hrows r (by omega)
    obtain ⟨e3, _, _⟩ := hrows (r + 1) hr'
    have := safe_bottom hw h0 hr' (s := p) (by rw [e1]; exact a) (by rw [e2]; exact b)
      (by rw [e3, eB]; exact c) (by rw [eB]; exact ht)
    omega

theorem safe_transGen (ok : InitOK W H C R MR) (MC : Nat) {st : ASt}
    (h0 : Inv0 (initSeg W H C R MC MR) st) {p t : Nat}
    (he : Relation.TransGen (cEdge W H (min C W) (effR W H R MR)) p t) (ht : 1 ≤ aget st.ph t) :
    3 ≤ aget st.ph p := by
  induction he using Relation.TransGen.head_induction_on with
  | single h => exact safe_cEdge ok MC h0 h ht
  | head h _ ih => exact safe_cEdge ok MC h0 h (by omega)

end concrete
end Seg
