/- Lemmas for C01 / C08: the encoder-side frame-level machine refines the decoder-side one (AV1 §7.20/§7.21),
   characterisation of the decoder's output list, and the film-grain random-seed rule.  Core Lean only. -/
import SvtVerif.Lemmas.Dpb

namespace Dpb

variable {P S : Type}

/-! ### one decoder step, spelled out -/

/-- A coded frame header (no `show_existing_frame`): slot `j` receives the new picture iff bit `j` of the effective
    `refresh_frame_flags` is set, every other slot is unchanged; the picture is output iff `show_frame`. -/
theorem decStep_coded (R : P → List S → S) (d : State S) (f : Frame P) (h : f.showExisting = none) :
    let s : Slot S := { pic := R f.payload (refsOf d f), frameType := f.frameType, showable := f.showableFrame }
    (∀ j : Fin 8, (decStep R d f).1 j = if (effRefresh f).testBit j.val then s else d j) ∧
    (decStep R d f).2 = if f.showFrame then some s.pic else none := by
  unfold decStep
  rw [h]
  exact ⟨fun _ => rfl, rfl⟩

/-- `show_existing_frame` of a slot that holds a key frame: the frame loading process §7.21 followed by the
    reference update process §7.20 with `refresh_frame_flags = allFrames` leaves the shown frame in all 8 slots. -/
theorem decStep_showExisting_key (R : P → List S → S) (d : State S) (f : Frame P) (i : Fin 8)
    (h : f.showExisting = some i) (hk : (d i).frameType = .key) :
    decStep R d f = (fun _ => d i, some (d i).pic) := by
  unfold decStep
  rw [h]
  simp only [hk, if_true]

/-- `show_existing_frame` of a slot that holds anything but a key frame: the DPB is untouched. -/
theorem decStep_showExisting_nonkey (R : P → List S → S) (d : State S) (f : Frame P) (i : Fin 8)
    (h : f.showExisting = some i) (hk : (d i).frameType ≠ .key) :
    decStep R d f = (d, some (d i).pic) := by
  unfold decStep
  rw [h]
  simp only [hk, if_false]

/-! ### the output list -/

theorem runDec_nil (R : P → List S → S) (d : State S) : runDec R d ([] : List (Frame P)) = (d, []) := rfl

theorem runDec_cons (R : P → List S → S) (d : State S) (f : Frame P) (fs : List (Frame P)) :
    runDec R d (f :: fs) = ((runDec R (decStep R d f).1 fs).1, (decStep R d f).2 :: (runDec R (decStep R d f).1 fs).2) := rfl

theorem runDec_length (R : P → List S → S) (d : State S) (fs : List (Frame P)) :
    (runDec R d fs).2.length = fs.length := by
  induction fs generalizing d with
  | nil => rfl
  | cons f fs ih => simp [runDec_cons, ih]

/-- The `i`-th entry of the per-header output list is what `decStep` yields for the `i`-th header on the DPB left by the
    first `i` headers. -/
theorem runDec_getElem? (R : P → List S → S) (d : State S) (fs : List (Frame P)) (i : Nat) (f : Frame P)
    (h : fs[i]? = some f) :
    (runDec R d fs).2[i]? = some (decStep R (runDec R d (fs.take i)).1 f).2 := by
  induction fs generalizing d i with
  | nil => simp at h
  | cons g gs ih =>
    cases i with
    | zero =>
      simp only [List.getElem?_cons_zero, Option.some.injEq] at h
      subst h
      simp only [runDec_cons, List.getElem?_cons_zero, List.take_zero, runDec_nil]
    | succ k =>
      simp only [List.getElem?_cons_succ] at h
      simp only [runDec_cons, List.getElem?_cons_succ, List.take_succ_cons]
      exact ih _ k h

/-- Which headers produce an output, position by position. -/
theorem runDec_isSome (R : P → List S → S) (d : State S) (fs : List (Frame P)) :
    (runDec R d fs).2.map Option.isSome = fs.map producesOutput := by
  induction fs generalizing d with
  | nil => rfl
  | cons f fs ih => simp [runDec_cons, ih, decStep_output_isSome]

/-! ### every output is a reconstruction -/

theorem decStep_slot_pic (R : P → List S → S) (d : State S) (f : Frame P) (j : Fin 8) :
    (∃ i, ((decStep R d f).1 j).pic = (d i).pic) ∨
      (f.showExisting = none ∧ ((decStep R d f).1 j).pic = R f.payload (refsOf d f)) := by
  unfold decStep
  cases h : f.showExisting with
  | some i =>
    simp only
    split
    · exact Or.inl ⟨i, rfl⟩
    · exact Or.inl ⟨j, rfl⟩
  | none =>
    simp only
    split
    · exact Or.inr ⟨by trivial, rfl⟩
    · exact Or.inl ⟨j, rfl⟩

theorem decStep_out_pic (R : P → List S → S) (d : State S) (f : Frame P) (x : S) (hx : (decStep R d f).2 = some x) :
    (∃ i, x = (d i).pic) ∨ (f.showExisting = none ∧ x = R f.payload (refsOf d f)) := by
  unfold decStep at hx
  cases h : f.showExisting with
  | some i =>
    rw [h] at hx
    simp only at hx
    split at hx <;> (simp only [Option.some.injEq] at hx; exact Or.inl ⟨i, hx.symm⟩)
  | none =>
    rw [h] at hx
    simp only at hx
    split at hx
    · simp only [Option.some.injEq] at hx; exact Or.inr ⟨rfl, hx.symm⟩
    · simp at hx

theorem recons_cons_coded (R : P → List S → S) (d : State S) (f : Frame P) (fs : List (Frame P)) (h : f.showExisting = none) :
    recons R d (f :: fs) = R f.payload (refsOf d f) :: recons R (decStep R d f).1 fs := by
  simp only [recons, h]

theorem recons_cons_existing (R : P → List S → S) (d : State S) (f : Frame P) (fs : List (Frame P)) (i : Fin 8)
    (h : f.showExisting = some i) : recons R d (f :: fs) = recons R (decStep R d f).1 fs := by
  simp only [recons, h]

theorem mem_recons_cons_of_tail (R : P → List S → S) (d : State S) (f : Frame P) (fs : List (Frame P)) (x : S)
    (h : x ∈ recons R (decStep R d f).1 fs) : x ∈ recons R d (f :: fs) := by
  cases hs : f.showExisting with
  | some i => rw [recons_cons_existing R d f fs i hs]; exact h
  | none => rw [recons_cons_coded R d f fs hs]; exact List.mem_cons_of_mem _ h

theorem mem_recons_cons_head (R : P → List S → S) (d : State S) (f : Frame P) (fs : List (Frame P))
    (h : f.showExisting = none) : R f.payload (refsOf d f) ∈ recons R d (f :: fs) := by
  rw [recons_cons_coded R d f fs h]; exact List.mem_cons_self

/-- Every picture the decoder outputs is either a picture the DPB held initially or one of the pictures reconstructed
    while decoding the list. -/
theorem output_mem (R : P → List S → S) (d : State S) (fs : List (Frame P)) (x : S)
    (hx : x ∈ outputs (runDec R d fs).2) : (∃ i, x = (d i).pic) ∨ x ∈ recons R d fs := by
  induction fs generalizing d with
  | nil => simp [runDec_nil, outputs] at hx
  | cons f fs ih =>
    rw [runDec_cons] at hx
    simp only [outputs, List.filterMap_cons] at hx
    cases ho : (decStep R d f).2 with
    | none =>
      rw [ho] at hx
      simp only [id] at hx
      rcases ih (decStep R d f).1 hx with ⟨j, hj⟩ | hr
      · rcases decStep_slot_pic R d f j with ⟨i, hi⟩ | ⟨hs, hp⟩
        · exact Or.inl ⟨i, by rw [hj, hi]⟩
        · right; rw [hj, hp]; exact mem_recons_cons_head R d f fs hs
      · exact Or.inr (mem_recons_cons_of_tail R d f fs x hr)
    | some y =>
      rw [ho] at hx
      simp only [id, List.mem_cons] at hx
      rcases hx with hxy | hx
      · subst hxy
        rcases decStep_out_pic R d f x ho with h1 | ⟨hs, hp⟩
        · exact Or.inl h1
        · right; rw [hp]; exact mem_recons_cons_head R d f fs hs
      · rcases ih (decStep R d f).1 hx with ⟨j, hj⟩ | hr
        · rcases decStep_slot_pic R d f j with ⟨i, hi⟩ | ⟨hs, hp⟩
          · exact Or.inl ⟨i, by rw [hj, hi]⟩
          · right; rw [hj, hp]; exact mem_recons_cons_head R d f fs hs
        · exact Or.inr (mem_recons_cons_of_tail R d f fs x hr)

/-! ### congruence in the reconstruction function -/

/-- `runDec` only ever applies the reconstruction function to the payloads of the frames in the list. -/
theorem runDec_congr (R R' : P → List S → S) (d : State S) (fs : List (Frame P))
    (h : ∀ f ∈ fs, ∀ refs, R f.payload refs = R' f.payload refs) : runDec R d fs = runDec R' d fs := by
  induction fs generalizing d with
  | nil => rfl
  | cons f fs ih =>
    have hstep : decStep R d f = decStep R' d f := by
      unfold decStep
      rw [h f List.mem_cons_self]
    rw [runDec_cons, runDec_cons, hstep, ih _ (fun g hg => h g (List.mem_cons_of_mem _ hg))]

/-! ### encoder machine = decoder machine -/

theorem maskBit_eq_testBit (m j : Nat) : maskBit m j = m.testBit j := by
  unfold maskBit
  rw [Nat.testBit_eq_decide_div_mod_eq, Nat.shiftRight_eq_div_pow]

theorem encRefs_eq (d : State S) (p : EncPic P) : encRefs d p = refsOf d p.toFrame := by
  unfold encRefs refsOf EncPic.toFrame
  cases p.frameType <;> simp

/-- One encoder-side step equals one decoder-side step on the header `toFrame`, for the same reconstruction function,
    provided a displayed key frame carries the full mask (which the header does not transmit: the decoder infers it). -/
theorem encStep_eq_decStep (R : P → List S → S) (d : State S) (p : EncPic P)
    (hkey : p.showExistingLoc = none → p.frameType = .key → p.showFrame = true → p.refreshFrameMask % 256 = 0xFF) :
    encStep R d p = decStep R d p.toFrame := by
  unfold encStep decStep
  cases hs : p.showExistingLoc with
  | some i => simp [EncPic.toFrame, hs]
  | none =>
    have hr : effRefresh p.toFrame = p.refreshFrameMask % 256 := by
      have e1 : p.toFrame.frameType = p.frameType := rfl
      have e2 : p.toFrame.showFrame = p.showFrame := rfl
      have e3 : p.toFrame.refreshFlags = p.refreshFrameMask := rfl
      unfold effRefresh
      rw [e1, e2, e3]
      by_cases hk : p.frameType = .key ∧ p.showFrame = true
      · rw [if_pos hk]
        exact (hkey hs hk.1 hk.2).symm
      · rw [if_neg hk]
    simp only [EncPic.toFrame, hs, encRefs_eq]
    have : ∀ j : Fin 8, maskBit (p.refreshFrameMask % 256) j.val = (effRefresh p.toFrame).testBit j.val := by
      intro j; rw [hr, maskBit_eq_testBit]
    simp only [this]
    rfl

/-! ### film-grain random seed -/

theorem fgSeedNext_ne_zero (s : BitVec 16) : fgSeedNext s ≠ 0#16 := by
  unfold fgSeedNext
  by_cases h : s + 3381#16 = 0#16
  · simp only [h, if_true]; decide
  · simp only [h, if_false]; exact h

theorem fgSeed_ne_zero (n : Nat) : fgSeed n ≠ 0#16 := by
  cases n with
  | zero => decide
  | succ k => exact fgSeedNext_ne_zero _

end Dpb
