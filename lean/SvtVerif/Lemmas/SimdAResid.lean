/-
  C07a / K1 — `svt_residual_kernel8bit_avx2` = `svt_residual_kernel8bit_c`:
  row specification, C side, the do-while loop, the per-width register blocks.
-/
import SvtVerif.Lemmas.SimdA

namespace Simd

/-! ### specification: rows of differences, stored row by row in program order -/

/-- the `n` residuals of one row -/
def rowDiff (inp : Mem 8) (ia : Nat) (pred : Mem 8) (pa n : Nat) : List (BitVec 16) :=
  (List.range n).map fun i => residC (inp (ia + i)) (pred (pa + i))

/-- `n` rows of width `w`, stored top to bottom (each later row overwrites earlier ones where they overlap) -/
def residRows (inp : Mem 8) (is : Nat) (pred : Mem 8) (ps rs w : Nat) : Nat → Nat → Nat → Nat → Mem 16 → Mem 16
  | 0, _, _, _, res => res
  | n + 1, ia, pa, ra, res =>
    residRows inp is pred ps rs w n (ia + is) (pa + ps) (ra + rs) (storeL res ra (rowDiff inp ia pred pa w))

theorem rowDiff_length (inp : Mem 8) (ia : Nat) (pred : Mem 8) (pa n : Nat) : (rowDiff inp ia pred pa n).length = n := by
  simp [rowDiff]

theorem rowDiff_add (inp : Mem 8) (ia : Nat) (pred : Mem 8) (pa n k : Nat) :
    rowDiff inp ia pred pa (n + k) = rowDiff inp ia pred pa n ++ rowDiff inp (ia + n) pred (pa + n) k := by
  simp [rowDiff, List.range_add, Nat.add_assoc]

theorem residRows_add (inp : Mem 8) (is : Nat) (pred : Mem 8) (ps rs w : Nat) (a b : Nat) :
    ∀ (ia pa ra : Nat) (res : Mem 16),
      residRows inp is pred ps rs w (a + b) ia pa ra res =
        residRows inp is pred ps rs w b (ia + a * is) (pa + a * ps) (ra + a * rs) (residRows inp is pred ps rs w a ia pa ra res) := by
  induction a with
  | zero => intro ia pa ra res; simp [residRows]
  | succ a ih =>
    intro ia pa ra res
    have e : a + 1 + b = (a + b) + 1 := by omega
    rw [e]
    simp only [residRows]
    rw [ih]
    have e1 : ia + is + a * is = ia + (a + 1) * is := by rw [Nat.add_mul]; omega
    have e2 : pa + ps + a * ps = pa + (a + 1) * ps := by rw [Nat.add_mul]; omega
    have e3 : ra + rs + a * rs = ra + (a + 1) * rs := by rw [Nat.add_mul]; omega
    rw [e1, e2, e3]

/-! ### C side -/

theorem resid8_c_cols_eq (inp : Mem 8) (ia : Nat) (pred : Mem 8) (pa ra w : Nat) :
    ∀ (fuel col : Nat) (res : Mem 16), w - col ≤ fuel →
      resid8_c_cols inp ia pred pa ra w fuel col res =
        storeL res (ra + col) (rowDiff inp (ia + col) pred (pa + col) (w - col)) := by
  intro fuel
  induction fuel with
  | zero =>
    intro col res h
    have : w - col = 0 := by omega
    simp [resid8_c_cols, this, rowDiff, storeL_nil]
  | succ f ih =>
    intro col res h
    unfold resid8_c_cols
    by_cases hc : col < w
    · simp only [hc, if_true]
      rw [ih (col + 1) _ (by omega), store1_eq_storeL]
      have e : w - col = 1 + (w - (col + 1)) := by omega
      have e0 : ra + (col + 1) = ra + col + [residC (inp (ia + col)) (pred (pa + col))].length := by simp; omega
      rw [e, rowDiff_add, storeL_append' _ _ _ _ _ e0]
      have e1 : ia + col + 1 = ia + (col + 1) := by omega
      have e2 : pa + col + 1 = pa + (col + 1) := by omega
      simp [rowDiff, e1, e2]
    · have : w - col = 0 := by omega
      simp [hc, this, rowDiff, storeL_nil]

theorem resid8_c_rows_eq (inp : Mem 8) (is : Nat) (pred : Mem 8) (ps rs w h : Nat) :
    ∀ (fuel row ia pa ra : Nat) (res : Mem 16), h - row ≤ fuel →
      resid8_c_rows inp is pred ps rs w h fuel row ia pa ra res = residRows inp is pred ps rs w (h - row) ia pa ra res := by
  intro fuel
  induction fuel with
  | zero =>
    intro row ia pa ra res hf
    have : h - row = 0 := by omega
    simp [resid8_c_rows, this, residRows]
  | succ f ih =>
    intro row ia pa ra res hf
    unfold resid8_c_rows
    by_cases hr : row < h
    · simp only [hr, if_true]
      rw [ih (row + 1) _ _ _ _ (by omega), resid8_c_cols_eq inp ia pred pa ra w w 0 res (by omega)]
      have e : h - row = (h - (row + 1)) + 1 := by omega
      rw [e]
      simp [residRows]
    · have : h - row = 0 := by omega
      simp [hr, this, residRows]

/-- the C reference writes exactly the `h` rows of differences, top to bottom -/
theorem resid8_c_eq (inp : Mem 8) (is ia : Nat) (pred : Mem 8) (ps pa : Nat) (res : Mem 16) (rs ra w h : Nat) :
    resid8_c inp is ia pred ps pa res rs ra w h = residRows inp is pred ps rs w h ia pa ra res := by
  unfold resid8_c
  rw [resid8_c_rows_eq _ _ _ _ _ _ _ _ _ _ _ _ _ (by omega)]
  simp

/-! ### the do-while loop -/

theorem doWhileRows_eq (inp : Mem 8) (is : Nat) (pred : Mem 8) (ps rs w k : Nat) (hk : 0 < k)
    (body : Nat → Nat → Nat → Buf 16 → Buf 16)
    (hbody : ∀ ia pa ra res, (body ia pa ra res).get = residRows inp is pred ps rs w k ia pa ra res.get) :
    ∀ (n fuel y ia pa ra : Nat) (res : Buf 16), y = n * k + k → y < 2 ^ 32 → n + 1 ≤ fuel →
      (doWhileRows k is ps rs body fuel y ia pa ra res).get = residRows inp is pred ps rs w y ia pa ra res.get := by
  intro n
  induction n with
  | zero =>
    intro fuel y ia pa ra res hy hlt hf
    obtain ⟨f, rfl⟩ : ∃ f, fuel = f + 1 := ⟨fuel - 1, by omega⟩
    have hy' : y = k := by omega
    subst hy'
    unfold doWhileRows
    have : (y + 2 ^ 32 - y) % 2 ^ 32 = 0 := by omega
    simp [hbody]
  | succ m ih =>
    intro fuel y ia pa ra res hy hlt hf
    obtain ⟨f, rfl⟩ : ∃ f, fuel = f + 1 := ⟨fuel - 1, by omega⟩
    have hmul : (m + 1) * k = m * k + k := Nat.succ_mul m k
    have hy2 : (y + 2 ^ 32 - k) % 2 ^ 32 = m * k + k := by omega
    unfold doWhileRows
    have hne : m * k + k ≠ 0 := by omega
    simp only [hy2, hne, ne_eq, not_false_eq_true, if_true]
    rw [ih f (m * k + k) _ _ _ _ rfl (by omega) (by omega), hbody]
    have e : y = k + (m * k + k) := by omega
    rw [e]
    exact (residRows_add inp is pred ps rs w k (m * k + k) ia pa ra res.get).symm

/-! ### register blocks -/

theorem range4 : List.range 4 = [0, 1, 2, 3] := by decide
theorem range8 : List.range 8 = [0, 1, 2, 3, 4, 5, 6, 7] := by decide
theorem range16 : List.range 16 = [0, 1, 2, 3, 4, 5, 6, 7, 8, 9, 10, 11, 12, 13, 14, 15] := by decide
theorem range32 : List.range 32 = [0, 1, 2, 3, 4, 5, 6, 7, 8, 9, 10, 11, 12, 13, 14, 15,
    16, 17, 18, 19, 20, 21, 22, 23, 24, 25, 26, 27, 28, 29, 30, 31] := by decide
theorem zeroReg0 : zeroReg 0 = [] := rfl
theorem zeroReg8 : zeroReg 8 = [0, 0, 0, 0, 0, 0, 0, 0] := rfl
theorem zeroReg12 : zeroReg 12 = [0, 0, 0, 0, 0, 0, 0, 0, 0, 0, 0, 0] := rfl
theorem zeroReg32 : zeroReg 32 =
    [0, 0, 0, 0, 0, 0, 0, 0, 0, 0, 0, 0, 0, 0, 0, 0, 0, 0, 0, 0, 0, 0, 0, 0, 0, 0, 0, 0, 0, 0, 0, 0] := rfl

/-- `load_u8_4x4_avx2`: rows 0,1 in the low qword of the low half, rows 2,3 in the low qword of the high half -/
theorem load_u8_4x4_eq (m : Mem 8) (a s : Nat) : load_u8_4x4_avx2 m a s =
    [m a, m (a+1), m (a+2), m (a+3), m (a+s), m (a+s+1), m (a+s+2), m (a+s+3), 0, 0, 0, 0, 0, 0, 0, 0,
     m (a+2*s), m (a+2*s+1), m (a+2*s+2), m (a+2*s+3), m (a+3*s), m (a+3*s+1), m (a+3*s+2), m (a+3*s+3), 0, 0, 0, 0, 0, 0, 0, 0] := by
  simp [load_u8_4x4_avx2, loadBytes, loadL, range4, zeroReg12, mm_insert_epi32, loadI32, bytes32_le32, mm256_setr_m128i]

/-- one iteration of `residual_kernel4_avx2` = 4 rows of the specification -/
theorem block4 (inp : Mem 8) (is : Nat) (pred : Mem 8) (ps rs ia pa ra : Nat) (res : Buf 16) :
    (residual_kernel4_body inp is pred ps rs ia pa ra res).get = residRows inp is pred ps rs 4 4 ia pa ra res.get := by
  have e1 : ia + is + is = ia + 2 * is := by omega
  have e2 : pa + ps + ps = pa + 2 * ps := by omega
  have e3 : ra + rs + rs = ra + 2 * rs := by omega
  have e4 : ia + 2 * is + is = ia + 3 * is := by omega
  have e5 : pa + 2 * ps + ps = pa + 3 * ps := by omega
  simp only [residRows, e1, e2, e3, e4, e5]
  simp [residual_kernel4_body, load_u8_4x4_eq, mm256_unpacklo_epi8, mm_unpacklo_epi8, interleave, mm256_setzero_si256, zeroReg32,
    sub_epi16, map2_16, lanes16, mm256_castsi256_si128, mm256_extracti128_si256, store_s16_4x2_sse2, storeU16, storehU16, qword,
    unlanes16, bytes16, le16_bytes16, rowDiff, range4, residC_eq]

/-- `load_u8_8x4_avx2`: rows 0,1 in the low half, rows 2,3 in the high half -/
theorem load_u8_8x4_eq (m : Mem 8) (a s : Nat) : load_u8_8x4_avx2 m a s =
    [m a, m (a+1), m (a+2), m (a+3), m (a+4), m (a+5), m (a+6), m (a+7),
     m (a+s), m (a+s+1), m (a+s+2), m (a+s+3), m (a+s+4), m (a+s+5), m (a+s+6), m (a+s+7),
     m (a+2*s), m (a+2*s+1), m (a+2*s+2), m (a+2*s+3), m (a+2*s+4), m (a+2*s+5), m (a+2*s+6), m (a+2*s+7),
     m (a+3*s), m (a+3*s+1), m (a+3*s+2), m (a+3*s+3), m (a+3*s+4), m (a+3*s+5), m (a+3*s+6), m (a+3*s+7)] := by
  simp [load_u8_8x4_avx2, loadBytes, loadL, range8, zeroReg8, mm_loadh_pd, mm256_setr_m128i]

/-- one iteration of `residual_kernel8_avx2`, stores in PROGRAM order: rows 0, 2, 1, 3 -/
theorem block8_raw (inp : Mem 8) (is : Nat) (pred : Mem 8) (ps rs ia pa ra : Nat) (res : Buf 16) :
    (residual_kernel8_body inp is pred ps rs ia pa ra res).get =
      storeL (storeL (storeL (storeL res.get ra (rowDiff inp ia pred pa 8))
        (ra + 2 * rs) (rowDiff inp (ia + 2 * is) pred (pa + 2 * ps) 8))
        (ra + rs) (rowDiff inp (ia + is) pred (pa + ps) 8))
        (ra + rs + 2 * rs) (rowDiff inp (ia + 3 * is) pred (pa + 3 * ps) 8) := by
  simp [residual_kernel8_body, load_u8_8x4_eq, mm256_unpacklo_epi8, mm_unpacklo_epi8, mm256_unpackhi_epi8, mm_unpackhi_epi8,
    interleave, mm256_setzero_si256, zeroReg32,
    sub_epi16, map2_16, lanes16, mm256_castsi256_si128, mm256_extracti128_si256, storeu_s16_8x2_avx2, storeU16,
    unlanes16, bytes16, le16_bytes16, rowDiff, range8, residC_eq]

/-- one iteration of `residual_kernel8_avx2` = 4 rows of the specification, PROVIDED rows 1 and 2 do not overlap
    (`residual_stride ≥ 8`): the AVX2 code stores row 2 before row 1. -/
theorem block8 (inp : Mem 8) (is : Nat) (pred : Mem 8) (ps rs ia pa ra : Nat) (res : Buf 16) (hrs : 8 ≤ rs) :
    (residual_kernel8_body inp is pred ps rs ia pa ra res).get = residRows inp is pred ps rs 8 4 ia pa ra res.get := by
  have e1 : ia + is + is = ia + 2 * is := by omega
  have e2 : pa + ps + ps = pa + 2 * ps := by omega
  have e3 : ra + rs + rs = ra + 2 * rs := by omega
  have e4 : ia + 2 * is + is = ia + 3 * is := by omega
  have e5 : pa + 2 * ps + ps = pa + 3 * ps := by omega
  have e6 : ra + 2 * rs + rs = ra + rs + 2 * rs := by omega
  simp only [residRows, e1, e2, e3, e4, e5, e6]
  rw [block8_raw]
  congr 1
  apply storeL_comm
  simp only [rowDiff_length]
  omega

/-- `loadu_u8_16x2_avx2`: row 0 in the low half, row 1 in the high half -/
theorem loadu_u8_16x2_eq (m : Mem 8) (a s : Nat) : loadu_u8_16x2_avx2 m a s =
    [m a, m (a+1), m (a+2), m (a+3), m (a+4), m (a+5), m (a+6), m (a+7),
     m (a+8), m (a+9), m (a+10), m (a+11), m (a+12), m (a+13), m (a+14), m (a+15),
     m (a+s), m (a+s+1), m (a+s+2), m (a+s+3), m (a+s+4), m (a+s+5), m (a+s+6), m (a+s+7),
     m (a+s+8), m (a+s+9), m (a+s+10), m (a+s+11), m (a+s+12), m (a+s+13), m (a+s+14), m (a+s+15)] := by
  simp [loadu_u8_16x2_avx2, loadBytes, loadL, range16, zeroReg0, mm256_setr_m128i]

/-- one iteration of `residual_kernel16_avx2` = 2 rows of the specification -/
theorem block16 (inp : Mem 8) (is : Nat) (pred : Mem 8) (ps rs ia pa ra : Nat) (res : Buf 16) :
    (residual_kernel16_body inp is pred ps rs ia pa ra res).get = residRows inp is pred ps rs 16 2 ia pa ra res.get := by
  simp only [residRows]
  simp [residual_kernel16_body, loadu_u8_16x2_eq, mm256_permute4x64_epi64, qword,
    mm256_unpacklo_epi8, mm_unpacklo_epi8, mm256_unpackhi_epi8, mm_unpackhi_epi8,
    interleave, mm256_setzero_si256, zeroReg32,
    sub_epi16, map2_16, lanes16, storeU16,
    unlanes16, bytes16, le16_bytes16, rowDiff, range16, residC_eq]

/-- `residual32_avx2` writes the 32 differences of one row segment -/
theorem resid32_eq (inp : Mem 8) (ia : Nat) (pred : Mem 8) (pa : Nat) (res : Buf 16) (ra : Nat) :
    (residual32_avx2 inp ia pred pa res ra).get = storeL res.get ra (rowDiff inp ia pred pa 32) := by
  have e : (32 : Nat) = 16 + 16 := rfl
  rw [e, rowDiff_add, ← storeL_append' res.get ra (ra + 16) _ _ (by simp [rowDiff_length])]
  simp [residual32_avx2, loadBytes, loadL, range16, range32, zeroReg0, mm256_permute4x64_epi64, qword,
    mm256_unpacklo_epi8, mm_unpacklo_epi8, mm256_unpackhi_epi8, mm_unpackhi_epi8,
    interleave, mm256_setzero_si256, zeroReg32,
    sub_epi16, map2_16, lanes16, storeU16,
    unlanes16, bytes16, le16_bytes16, rowDiff, residC_eq, Nat.add_assoc]

theorem block32 (inp : Mem 8) (is : Nat) (pred : Mem 8) (ps rs ia pa ra : Nat) (res : Buf 16) :
    (residual_kernel32_body inp pred ia pa ra res).get = residRows inp is pred ps rs 32 1 ia pa ra res.get := by
  simp [residRows, residual_kernel32_body, resid32_eq]

theorem block64 (inp : Mem 8) (is : Nat) (pred : Mem 8) (ps rs ia pa ra : Nat) (res : Buf 16) :
    (residual_kernel64_body inp pred ia pa ra res).get = residRows inp is pred ps rs 64 1 ia pa ra res.get := by
  have e : (64 : Nat) = 32 + 32 := rfl
  simp only [residRows, residual_kernel64_body, resid32_eq, Nat.zero_mul, Nat.one_mul, Nat.add_zero]
  rw [e, rowDiff_add, storeL_append' _ _ _ _ _ (by simp [rowDiff_length])]

theorem block128 (inp : Mem 8) (is : Nat) (pred : Mem 8) (ps rs ia pa ra : Nat) (res : Buf 16) :
    (residual_kernel128_body inp pred ia pa ra res).get = residRows inp is pred ps rs 128 1 ia pa ra res.get := by
  have e : (128 : Nat) = 32 + 32 + 32 + 32 := rfl
  simp only [residRows, residual_kernel128_body, resid32_eq, Nat.zero_mul, Nat.one_mul, Nat.add_zero]
  rw [e, rowDiff_add, rowDiff_add, rowDiff_add]
  rw [storeL_append' _ _ _ _ _ (by simp [rowDiff_length]), storeL_append' _ _ _ _ _ (by simp [rowDiff_length]),
    storeL_append' _ _ _ _ _ (by simp [rowDiff_length])]
  simp [List.append_assoc]

end Simd
