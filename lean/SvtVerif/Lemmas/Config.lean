/- One lemma per validation rule: the generated rejecting condition is false exactly when the hand-written
   conjunct of `Spec.ConfigDomain.CodeDomain` holds.  No conjunct refers to generated code any more: the lemmas for the
   derived quantities (intra period, look-ahead, frame rate, HME sums, tiles, manual prediction structure) are real
   equivalence proofs (arithmetic in Lemmas/ConfigArith.lean); some need the C types of the members (`WellTyped`) or
   an earlier conjunct (region counts for the HME sums, the log2 range for the tile product). -/
import SvtVerif.Lemmas.ConfigArith
import Mathlib.Tactic.Linarith
import Mathlib.Tactic.Tauto
import Mathlib.Tactic.NormNum
namespace Lemmas.Config
open Gen.Config CSem Spec.ConfigDomain
set_option linter.unusedSimpArgs false
set_option linter.unusedTactic false
set_option linter.unreachableTactic false

theorem tmod_nonneg_eq (a b : Int) (ha : 0 ≤ a) : a.tmod b = a % b := by
  rw [Int.tmod_eq_emod_of_nonneg ha]

theorem andU64_top (x : Int) : (andU64 x 9223372036854775808 != 0) = decide (9223372036854775808 ≤ x % 18446744073709551616) := by
  unfold andU64
  rw [Bool.eq_iff_iff]
  have hx0 : 0 ≤ x % 18446744073709551616 := Int.emod_nonneg _ (by decide)
  have hx1 : x % 18446744073709551616 < 18446744073709551616 := Int.emod_lt_of_pos _ (by decide)
  have e1 : (BitVec.ofInt 64 9223372036854775808).toNat = 2 ^ 63 := by decide
  have e2 : (BitVec.ofInt 64 x).toNat = (x % 18446744073709551616).toNat := by
    rw [BitVec.toNat_ofInt]; norm_num
  rw [BitVec.toNat_and, e1, e2, Bits.nat_and_two_pow]
  generalize hX : (x % 18446744073709551616).toNat = X
  have hXle : (X : Int) = x % 18446744073709551616 := by rw [← hX]; exact Int.toNat_of_nonneg hx0
  have hXlt : X < 2 ^ 64 := by omega
  simp only [bne_iff_ne, ne_eq, decide_eq_true_eq]
  have : X / 2 ^ 63 % 2 = if 2 ^ 63 ≤ X then 1 else 0 := by split_ifs <;> omega
  rw [this]
  split_ifs with h <;> simp <;> omega

theorem rej0_iff (s : Scs) (c : Cfg) : rej0 s c = false ↔ (c.enc_mode ≤ 8) := by
  simp [rej0]

theorem rej1_iff (s : Scs) (c : Cfg) : rej1 s c = false ↔ (c.ext_block_flag ≤ 1) := by
  simp [rej1]

theorem rej2_iff (s : Scs) (c : Cfg) : rej2 s c = false ↔ (64 ≤ c.source_width % 65536) := by
  simp only [rej2, wrapU]; norm_num

theorem rej3_iff (s : Scs) (c : Cfg) : rej3 s c = false ↔ (64 ≤ c.source_height % 65536) := by
  simp only [rej3, wrapU]; norm_num

theorem rej4_iff (s : Scs) (c : Cfg) : rej4 s c = false ↔ (True) := by
  simp [rej4]

theorem rej5_iff (s : Scs) (c : Cfg) : rej5 s c = false ↔ (¬ (c.source_width % 65536 % 8 ≠ 0 ∧ c.compressed_ten_bit_format = 1)) := by
  have h : (0:Int) ≤ c.source_width % 65536 := Int.emod_nonneg _ (by decide)
  simp [rej5, wrapU, cmod, tmod_nonneg_eq _ _ h]

theorem rej6_iff (s : Scs) (c : Cfg) : rej6 s c = false ↔ (c.source_width % 65536 % 2 = 0) := by
  have h : (0:Int) ≤ c.source_width % 65536 := Int.emod_nonneg _ (by decide)
  simp [rej6, wrapU, cmod, tmod_nonneg_eq _ _ h]

theorem rej7_iff (s : Scs) (c : Cfg) : rej7 s c = false ↔ (c.source_height % 65536 % 2 = 0) := by
  have h : (0:Int) ≤ c.source_height % 65536 := Int.emod_nonneg _ (by decide)
  simp [rej7, wrapU, cmod, tmod_nonneg_eq _ _ h]

theorem rej8_iff (s : Scs) (c : Cfg) : rej8 s c = false ↔ (c.source_width % 65536 ≤ 4096) := by
  simp only [rej8, wrapU]; norm_num

theorem rej9_iff (s : Scs) (c : Cfg) : rej9 s c = false ↔ (c.source_height % 65536 ≤ 2160) := by
  simp only [rej9, wrapU]; norm_num

theorem rej10_iff (s : Scs) (c : Cfg) : rej10 s c = false ↔ (c.qp ≤ 63) := by
  simp [rej10]

theorem rej11_iff (s : Scs) (c : Cfg) : rej11 s c = false ↔ ((if c.enable_manual_pred_struct ≠ 0 then True else c.hierarchical_levels ≤ 5)) := by
  simp only [rej11]; split_ifs <;> simp_all <;> omega

theorem rej12_iff (s : Scs) (c : Cfg) (hc : c.WellTyped) :
    rej12 s c = false ↔ (c.rate_control_mode = 0 → -2 ≤ intraPeriod c ∧ intraPeriod c ≤ 2147483646) := by
  simp only [rej12, gen_frameRate c hc, gen_ip s c hc]
  have e : (CSem.wrapS 32 ((2 : Int) * (CSem.wrapS 32 ((CSem.wrapS 32 ((1 : Int) * 2 ^ ((30 : Int)).toNat)) - (1 : Int))))) = 2147483646 := by decide
  rw [e]
  by_cases h : c.rate_control_mode = 0 <;> simp [h] <;> omega

theorem rej13_iff (s : Scs) (c : Cfg) (hc : c.WellTyped) :
    rej13 s c = false ↔ (1 ≤ c.rate_control_mode → -2 ≤ intraPeriod c ∧ intraPeriod c ≤ 255) := by
  simp only [rej13, gen_frameRate c hc, gen_ip s c hc]
  by_cases h : 1 ≤ c.rate_control_mode <;> simp [h] <;> omega

theorem rej14_iff (s : Scs) (c : Cfg) : rej14 s c = false ↔ (1 ≤ c.intra_refresh_type ∧ c.intra_refresh_type ≤ 2) := by
  simp [rej14] <;> omega

theorem rej15_iff (s : Scs) (c : Cfg) : rej15 s c = false ↔ (c.disable_dlf_flag ≤ 1) := by
  simp [rej15]

theorem rej16_iff (s : Scs) (c : Cfg) : rej16 s c = false ↔ (c.use_default_me_hme ≤ 1) := by
  simp [rej16]

theorem rej17_iff (s : Scs) (c : Cfg) : rej17 s c = false ↔ (c.enable_hme_flag ≤ 1) := by
  simp [rej17]

theorem rej18_iff (s : Scs) (c : Cfg) : rej18 s c = false ↔ (c.enable_hme_level0_flag ≤ 1) := by
  simp [rej18]

theorem rej19_iff (s : Scs) (c : Cfg) : rej19 s c = false ↔ (c.enable_hme_level1_flag ≤ 1) := by
  simp [rej19]

theorem rej20_iff (s : Scs) (c : Cfg) : rej20 s c = false ↔ (c.enable_hme_level2_flag ≤ 1) := by
  simp [rej20]

theorem rej21_iff (s : Scs) (c : Cfg) : rej21 s c = false ↔ (c.search_area_width ≤ 480 ∧ c.search_area_width ≠ 0) := by
  simp [rej21]

theorem rej22_iff (s : Scs) (c : Cfg) : rej22 s c = false ↔ (c.search_area_height ≤ 480 ∧ c.search_area_height ≠ 0) := by
  simp [rej22]

theorem rej23_iff (s : Scs) (c : Cfg) : rej23 s c = false ↔ (c.rate_control_mode ≤ 1 ∨ (c.rc_firstpass_stats_out = 0 ∧ c.rc_twopass_stats_in_buf = 0)) := by
  simp [rej23] <;> omega

theorem rej24_iff (s : Scs) (c : Cfg) : rej24 s c = false ↔ (c.enable_hme_flag ≠ 0 → (c.number_hme_search_region_in_width ≤ 2 ∧ c.number_hme_search_region_in_width ≠ 0)) := by
  simp [rej24] <;> tauto

theorem rej25_iff (s : Scs) (c : Cfg) : rej25 s c = false ↔ (c.enable_hme_flag ≠ 0 → (c.number_hme_search_region_in_height ≤ 2 ∧ c.number_hme_search_region_in_height ≠ 0)) := by
  simp [rej25] <;> tauto

theorem rej26_iff (s : Scs) (c : Cfg) : rej26 s c = false ↔ (c.enable_hme_flag ≠ 0 → (c.hme_level0_total_search_area_height ≤ 480 ∧ c.hme_level0_total_search_area_height ≠ 0)) := by
  simp [rej26] <;> tauto

theorem rej27_iff (s : Scs) (c : Cfg) : rej27 s c = false ↔ (c.enable_hme_flag ≠ 0 → (c.hme_level0_total_search_area_width ≤ 480 ∧ c.hme_level0_total_search_area_width ≠ 0)) := by
  simp [rej27] <;> tauto

theorem rej28_iff (s : Scs) (c : Cfg) (hs : s.WellTyped) (hc : c.WellTyped)
    (h25 : c.enable_hme_flag ≠ 0 → (c.number_hme_search_region_in_height ≤ 2 ∧ c.number_hme_search_region_in_height ≠ 0)) :
    rej28 s c = false ↔ (c.enable_hme_flag ≠ 0 → hmeSum c.number_hme_search_region_in_height c.hme_level0_search_area_in_height_array = c.hme_level0_total_search_area_height) := by
  unfold rej28
  by_cases he : c.enable_hme_flag = 0
  · simp [he]
  · have hn := n12 _ hc.number_hme_search_region_in_height.1 (h25 he)
    rw [hme_rule _ _ _ _ hc.hme_level0_search_area_in_height_array.1 hs.static_config_hme_level0_search_area_in_height_array.1 _ _ hn hn,
      hmeSum_copied_same _ _ hc.hme_level0_search_area_in_height_array.1 hs.static_config_hme_level0_search_area_in_height_array.1 _ hn]
    simp [he]

theorem rej29_iff (s : Scs) (c : Cfg) (hs : s.WellTyped) (hc : c.WellTyped)
    (h24 : c.enable_hme_flag ≠ 0 → (c.number_hme_search_region_in_width ≤ 2 ∧ c.number_hme_search_region_in_width ≠ 0)) :
    rej29 s c = false ↔ (c.enable_hme_flag ≠ 0 → hmeSum c.number_hme_search_region_in_width c.hme_level0_search_area_in_width_array = c.hme_level0_total_search_area_width) := by
  unfold rej29
  by_cases he : c.enable_hme_flag = 0
  · simp [he]
  · have hn := n12 _ hc.number_hme_search_region_in_width.1 (h24 he)
    rw [hme_rule _ _ _ _ hc.hme_level0_search_area_in_width_array.1 hs.static_config_hme_level0_search_area_in_width_array.1 _ _ hn hn,
      hmeSum_copied_same _ _ hc.hme_level0_search_area_in_width_array.1 hs.static_config_hme_level0_search_area_in_width_array.1 _ hn]
    simp [he]

theorem rej30_iff (s : Scs) (c : Cfg) (hs : s.WellTyped) (hc : c.WellTyped)
    (h24 : c.enable_hme_flag ≠ 0 → (c.number_hme_search_region_in_width ≤ 2 ∧ c.number_hme_search_region_in_width ≠ 0)) :
    rej30 s c = false ↔ (c.enable_hme_flag ≠ 0 → 1 ≤ hmeSum c.number_hme_search_region_in_width c.hme_level1_search_area_in_width_array ∧ hmeSum c.number_hme_search_region_in_width c.hme_level1_search_area_in_width_array ≤ 480) := by
  unfold rej30
  by_cases he : c.enable_hme_flag = 0
  · simp [he]
  · have hn := n12 _ hc.number_hme_search_region_in_width.1 (h24 he)
    rw [hme_rule_l12 _ _ _ hc.hme_level1_search_area_in_width_array.1 hs.static_config_hme_level1_search_area_in_width_array.1 _ _ hn hn,
      hmeSum_copied_same _ _ hc.hme_level1_search_area_in_width_array.1 hs.static_config_hme_level1_search_area_in_width_array.1 _ hn]
    simp [he]

theorem rej31_iff (s : Scs) (c : Cfg) (hs : s.WellTyped) (hc : c.WellTyped)
    (h24 : c.enable_hme_flag ≠ 0 → (c.number_hme_search_region_in_width ≤ 2 ∧ c.number_hme_search_region_in_width ≠ 0))
    (h25 : c.enable_hme_flag ≠ 0 → (c.number_hme_search_region_in_height ≤ 2 ∧ c.number_hme_search_region_in_height ≠ 0)) :
    rej31 s c = false ↔ (c.enable_hme_flag ≠ 0 → 1 ≤ hmeSum c.number_hme_search_region_in_width (copied c.number_hme_search_region_in_height c.hme_level1_search_area_in_height_array s.static_config_hme_level1_search_area_in_height_array) ∧ hmeSum c.number_hme_search_region_in_width (copied c.number_hme_search_region_in_height c.hme_level1_search_area_in_height_array s.static_config_hme_level1_search_area_in_height_array) ≤ 480) := by
  unfold rej31
  by_cases he : c.enable_hme_flag = 0
  · simp [he]
  · have hn := n12 _ hc.number_hme_search_region_in_width.1 (h24 he)
    have hm := n12 _ hc.number_hme_search_region_in_height.1 (h25 he)
    rw [hme_rule_l12 _ _ _ hc.hme_level1_search_area_in_height_array.1 hs.static_config_hme_level1_search_area_in_height_array.1 _ _ hn hm]
    simp [he]

theorem rej32_iff (s : Scs) (c : Cfg) (hs : s.WellTyped) (hc : c.WellTyped)
    (h24 : c.enable_hme_flag ≠ 0 → (c.number_hme_search_region_in_width ≤ 2 ∧ c.number_hme_search_region_in_width ≠ 0)) :
    rej32 s c = false ↔ (c.enable_hme_flag ≠ 0 → 1 ≤ hmeSum c.number_hme_search_region_in_width c.hme_level2_search_area_in_width_array ∧ hmeSum c.number_hme_search_region_in_width c.hme_level2_search_area_in_width_array ≤ 480) := by
  unfold rej32
  by_cases he : c.enable_hme_flag = 0
  · simp [he]
  · have hn := n12 _ hc.number_hme_search_region_in_width.1 (h24 he)
    rw [hme_rule_l12 _ _ _ hc.hme_level2_search_area_in_width_array.1 hs.static_config_hme_level2_search_area_in_width_array.1 _ _ hn hn,
      hmeSum_copied_same _ _ hc.hme_level2_search_area_in_width_array.1 hs.static_config_hme_level2_search_area_in_width_array.1 _ hn]
    simp [he]

theorem rej33_iff (s : Scs) (c : Cfg) (hs : s.WellTyped) (hc : c.WellTyped)
    (h24 : c.enable_hme_flag ≠ 0 → (c.number_hme_search_region_in_width ≤ 2 ∧ c.number_hme_search_region_in_width ≠ 0))
    (h25 : c.enable_hme_flag ≠ 0 → (c.number_hme_search_region_in_height ≤ 2 ∧ c.number_hme_search_region_in_height ≠ 0)) :
    rej33 s c = false ↔ (c.enable_hme_flag ≠ 0 → 1 ≤ hmeSum c.number_hme_search_region_in_width (copied c.number_hme_search_region_in_height c.hme_level2_search_area_in_height_array s.static_config_hme_level2_search_area_in_height_array) ∧ hmeSum c.number_hme_search_region_in_width (copied c.number_hme_search_region_in_height c.hme_level2_search_area_in_height_array s.static_config_hme_level2_search_area_in_height_array) ≤ 480) := by
  unfold rej33
  by_cases he : c.enable_hme_flag = 0
  · simp [he]
  · have hn := n12 _ hc.number_hme_search_region_in_width.1 (h24 he)
    have hm := n12 _ hc.number_hme_search_region_in_height.1 (h25 he)
    rw [hme_rule_l12 _ _ _ hc.hme_level2_search_area_in_height_array.1 hs.static_config_hme_level2_search_area_in_height_array.1 _ _ hn hm]
    simp [he]

theorem rej34_iff (s : Scs) (c : Cfg) : rej34 s c = false ↔ (c.profile ≤ 2) := by
  simp [rej34]

theorem rej35_iff (s : Scs) (c : Cfg) (hc : c.WellTyped) : rej35 s c = false ↔ (frameRate c ≤ 15728640) := by
  simp only [rej35, gen_frameRate c hc]
  have e : (CSem.wrapU 32 (CSem.wrapS 32 ((240 : Int) * 2 ^ ((16 : Int)).toNat))) = 15728640 := by decide
  rw [e]; simp

theorem rej36_iff (s : Scs) (c : Cfg) (hc : c.WellTyped) : rej36 s c = false ↔ (frameRate c ≠ 0) := by
  simp only [rej36, gen_frameRate c hc]; simp

theorem rej37_iff (s : Scs) (c : Cfg) : rej37 s c = false ↔ (c.rate_control_mode ≤ 2) := by
  simp [rej37]

theorem rej38_iff (s : Scs) (c : Cfg) (hc : c.WellTyped) :
    rej38 s c = false ↔ ((c.rate_control_mode = 2 ∨ c.rate_control_mode = 3) → 0 ≤ intraPeriod c → lookAhead c = intraPeriod c) := by
  simp only [rej38, gen_frameRate c hc, gen_ip s c hc, gen_la1 s c hc, gen_la2, gen_la s c hc _ rfl]
  have hr := intraPeriod_range c hc
  by_cases h : c.rate_control_mode = 2 ∨ c.rate_control_mode = 3
  · by_cases h0 : 0 ≤ intraPeriod c
    · have e : CSem.wrapU 32 (intraPeriod c) = intraPeriod c := by rw [wrapU32_eq]; apply u32_of_range <;> omega
      rw [e]
      rcases h with h | h <;> simp [h, h0]
    · rcases h with h | h <;> simp [h, h0]
  · simp only [not_or] at h
    simp [h.1, h.2]

theorem rej39_iff (s : Scs) (c : Cfg) (hc : c.WellTyped) :
    rej39 s c = false ↔ (lookAhead c ≤ 120 ∨ lookAhead c = 4294967295) := by
  simp only [rej39, gen_frameRate c hc, gen_ip s c hc, gen_la1 s c hc, gen_la2, gen_la s c hc _ rfl]
  have e : (CSem.wrapU 32 (CSem.wrapS 32 (- (0 : Int) - 1))) = 4294967295 := by decide
  rw [e]
  by_cases h1 : lookAhead c ≤ 120
  · simp [h1]
  · by_cases h2 : lookAhead c = 4294967295 <;> simp [h1, h2]

theorem rej40_iff (s : Scs) (c : Cfg) : rej40 s c = false ↔ (c.tile_rows % 4294967296 ≤ 6 ∧ c.tile_columns % 4294967296 ≤ 6) := by
  simp only [rej40, wrapU]; norm_num

theorem rej41_iff (s : Scs) (c : Cfg) (hc : c.WellTyped)
    (h40 : c.tile_rows % 4294967296 ≤ 6 ∧ c.tile_columns % 4294967296 ≤ 6) :
    rej41 s c = false ↔ (c.tile_columns ≤ 4 ∧ c.tile_rows + c.tile_columns ≤ 7) := by
  have hr := hc.tile_rows
  have hcl := hc.tile_columns
  have r0 : 0 ≤ c.tile_rows ∧ c.tile_rows ≤ 6 := by omega
  have c0 : 0 ≤ c.tile_columns ∧ c.tile_columns ≤ 6 := by omega
  unfold rej41
  generalize c.tile_rows = r at *
  generalize c.tile_columns = k at *
  obtain ⟨r1, r2⟩ := r0
  obtain ⟨k1, k2⟩ := c0
  interval_cases r <;> interval_cases k <;> decide

theorem rej42_iff (s : Scs) (c : Cfg) : rej42 s c = false ↔ (c.unrestricted_motion_vector ≤ 1) := by
  simp [rej42]

theorem rej43_iff (s : Scs) (c : Cfg) : rej43 s c = false ↔ (c.scene_change_detection = 0) := by
  simp [rej43]

theorem rej44_iff (s : Scs) (c : Cfg) : rej44 s c = false ↔ ((if c.rate_control_mode ≠ 0 then c.max_qp_allowed ≤ 63 ∧ c.min_qp_allowed < 63 ∧ c.min_qp_allowed ≤ c.max_qp_allowed else True)) := by
  simp only [rej44]; split_ifs <;> simp_all <;> omega

theorem rej45_iff (s : Scs) (c : Cfg) : rej45 s c = false ↔ (c.stat_report ≤ 1) := by
  simp [rej45]

theorem rej46_iff (s : Scs) (c : Cfg) : rej46 s c = false ↔ (c.high_dynamic_range_input ≤ 1) := by
  simp [rej46]

theorem rej47_iff (s : Scs) (c : Cfg) : rej47 s c = false ↔ (c.screen_content_mode ≤ 2) := by
  simp [rej47]

theorem rej48_iff (s : Scs) (c : Cfg) : rej48 s c = false ↔ (-1 ≤ c.intrabc_mode ∧ c.intrabc_mode ≤ 3) := by
  simp [rej48] <;> omega

theorem rej49_iff (s : Scs) (c : Cfg) : rej49 s c = false ↔ (c.intrabc_mode = -1 ∨ c.screen_content_mode = 1) := by
  simp [rej49] <;> tauto

theorem rej50_iff (s : Scs) (c : Cfg) : rej50 s c = false ↔ (c.enable_adaptive_quantization ≤ 2) := by
  simp [rej50]

theorem rej51_iff (s : Scs) (c : Cfg) : rej51 s c = false ↔ (c.encoder_bit_depth = 8 ∨ c.encoder_bit_depth = 10) := by
  simp [rej51] <;> tauto

theorem rej52_iff (s : Scs) (c : Cfg) : rej52 s c = false ↔ (¬ ((c.profile = 0 ∨ c.profile = 1) ∧ 10 < c.encoder_bit_depth)) := by
  simp [rej52]

theorem rej53_iff (s : Scs) (c : Cfg) : rej53 s c = false ↔ (c.encoder_color_format = 0 ∨ c.encoder_color_format = 1) := by
  simp only [rej53, wrapU]; split_ifs <;> simp_all

theorem rej54_iff (s : Scs) (c : Cfg) : rej54 s c = false ↔ (c.profile = 0 → colorFormat c ≤ 1) := by
  unfold rej54 colorFormat
  have e0 : CSem.wrapU 32 (0 : Int) = 0 := by decide
  have e1 : CSem.wrapU 32 (1 : Int) = 1 := by decide
  rw [e0, e1]
  by_cases h : c.profile = 0 <;> by_cases h2 : c.encoder_color_format = 0 <;> simp [h, h2]

theorem rej55_iff (s : Scs) (c : Cfg) : rej55 s c = false ↔ (c.profile = 1 → colorFormat c = 3) := by
  unfold rej55 colorFormat
  have e0 : CSem.wrapU 32 (0 : Int) = 0 := by decide
  have e1 : CSem.wrapU 32 (1 : Int) = 1 := by decide
  have e3 : CSem.wrapU 32 (3 : Int) = 3 := by decide
  rw [e0, e1, e3]
  by_cases h : c.profile = 1 <;> by_cases h2 : c.encoder_color_format = 0 <;> simp [h, h2]

theorem rej56_iff (s : Scs) (c : Cfg) : rej56 s c = false ↔ (c.profile = 2 ∧ c.encoder_bit_depth ≤ 10 → colorFormat c = 2) := by
  unfold rej56 colorFormat
  have e0 : CSem.wrapU 32 (0 : Int) = 0 := by decide
  have e1 : CSem.wrapU 32 (1 : Int) = 1 := by decide
  have e2 : CSem.wrapU 32 (2 : Int) = 2 := by decide
  rw [e0, e1, e2]
  by_cases h : c.profile = 2 <;> by_cases h2 : c.encoder_color_format = 0 <;> by_cases h3 : c.encoder_bit_depth ≤ 10 <;> simp [h, h2, h3]

theorem rej57_iff (s : Scs) (c : Cfg) : rej57 s c = false ↔ (c.compressed_ten_bit_format = 0) := by
  simp [rej57]

theorem rej58_iff (s : Scs) (c : Cfg) : rej58 s c = false ↔ (c.speed_control_flag ≤ 1) := by
  simp [rej58]

theorem rej59_iff (s : Scs) (c : Cfg) : rej59 s c = false ↔ (c.use_cpu_flags % 18446744073709551616 < 9223372036854775808) := by
  unfold rej59
  have e : (CSem.wrapU 64 (CSem.shlRaw (1 : Int) (CSem.wrapU 64 ((CSem.wrapU 64 ((8 : Int) * (8 : Int))) - (1 : Int))))) = 9223372036854775808 := by decide
  rw [e, andU64_top]; simp

theorem rej60_iff (s : Scs) (c : Cfg) : rej60 s c = false ↔ (c.target_socket = -1 ∨ c.target_socket = 0 ∨ c.target_socket = 1) := by
  simp [rej60] <;> omega

theorem rej61_iff (s : Scs) (c : Cfg) : rej61 s c = false ↔ (c.altref_strength ≤ 6) := by
  simp [rej61]

theorem rej62_iff (s : Scs) (c : Cfg) : rej62 s c = false ↔ (c.altref_nframes ≤ 13) := by
  simp [rej62]

theorem rej63_iff (s : Scs) (c : Cfg) : rej63 s c = false ↔ (c.enable_warped_motion = 0 ∨ c.enable_warped_motion = 1 ∨ c.enable_warped_motion = -1) := by
  simp [rej63] <;> omega

theorem rej64_iff (s : Scs) (c : Cfg) : rej64 s c = false ↔ (c.enable_global_motion = 0 ∨ c.enable_global_motion = 1) := by
  simp [rej64] <;> omega

theorem rej65_iff (s : Scs) (c : Cfg) : rej65 s c = false ↔ (-1 ≤ c.obmc_level ∧ c.obmc_level ≤ 3) := by
  simp [rej65] <;> omega

theorem rej66_iff (s : Scs) (c : Cfg) : rej66 s c = false ↔ (-1 ≤ c.filter_intra_level ∧ c.filter_intra_level ≤ 1) := by
  simp [rej66] <;> omega

theorem rej67_iff (s : Scs) (c : Cfg) : rej67 s c = false ↔ (c.enable_intra_edge_filter = 0 ∨ c.enable_intra_edge_filter = 1 ∨ c.enable_intra_edge_filter = -1) := by
  simp [rej67] <;> omega

theorem rej68_iff (s : Scs) (c : Cfg) : rej68 s c = false ↔ (1 < c.logical_processors ∨ c.pic_based_rate_est = 0 ∨ c.pic_based_rate_est = 1 ∨ c.pic_based_rate_est = -1) := by
  simp only [rej68]; split_ifs <;> simp_all <;> omega

theorem rej69_iff (s : Scs) (c : Cfg) (hc : c.WellTyped) :
    rej69 s c = false ↔ (8 < c.encoder_bit_depth → -1 ≤ c.enable_hbd_mode_decision ∧ c.enable_hbd_mode_decision ≤ 2) := by
  unfold rej69
  have hh := hc.enable_hbd_mode_decision
  by_cases h : 8 < c.encoder_bit_depth
  · have h' : decide (c.encoder_bit_depth > (8 : Int)) = true := by simp; omega
    have e : CSem.wrapS 8 c.enable_hbd_mode_decision = c.enable_hbd_mode_decision := by
      unfold wrapS; rw [BitVec.toInt_ofInt]; apply Int.bmod_eq_of_le <;> omega
    simp only [h', if_true, e]
    simp [h]
    try omega
  · have h' : decide (c.encoder_bit_depth > (8 : Int)) = false := by simp; omega
    simp only [h', Bool.false_eq_true, if_false]
    have e0 : CSem.wrapS 8 (0 : Int) = 0 := by decide
    simp [h, e0]

theorem rej70_iff (s : Scs) (c : Cfg) : rej70 s c = false ↔ (-1 ≤ c.palette_level ∧ c.palette_level ≤ 6) := by
  simp [rej70] <;> omega

theorem rej71_iff (s : Scs) (c : Cfg) : rej71 s c = false ↔ (c.rdoq_level = 0 ∨ c.rdoq_level = 1 ∨ c.rdoq_level = -1) := by
  simp [rej71] <;> omega

theorem rej72_iff (s : Scs) (c : Cfg) : rej72 s c = false ↔ (-1 ≤ c.set_chroma_mode ∧ c.set_chroma_mode ≤ 3) := by
  simp [rej72] <;> omega

theorem rej73_iff (s : Scs) (c : Cfg) : rej73 s c = false ↔ (c.disable_cfl_flag = 0 ∨ c.disable_cfl_flag = 1 ∨ c.disable_cfl_flag = -1) := by
  simp [rej73] <;> omega

theorem rej74_iff (s : Scs) (c : Cfg) : rej74 s c = false ↔ (-1 ≤ c.cdef_level ∧ c.cdef_level ≤ 4) := by
  simp [rej74] <;> omega

theorem rej75_iff (s : Scs) (c : Cfg) : rej75 s c = false ↔ (c.enable_restoration_filtering = 0 ∨ c.enable_restoration_filtering = 1 ∨ c.enable_restoration_filtering = -1) := by
  simp [rej75] <;> omega

theorem rej76_iff (s : Scs) (c : Cfg) : rej76 s c = false ↔ (-1 ≤ c.sg_filter_mode ∧ c.sg_filter_mode ≤ 4) := by
  simp [rej76] <;> omega

theorem rej77_iff (s : Scs) (c : Cfg) : rej77 s c = false ↔ (-1 ≤ c.wn_filter_mode ∧ c.wn_filter_mode ≤ 3) := by
  simp [rej77] <;> omega

theorem rej78_iff (s : Scs) (c : Cfg) : rej78 s c = false ↔ (-1 ≤ c.pred_me ∧ c.pred_me ≤ 5) := by
  simp [rej78] <;> omega

theorem rej79_iff (s : Scs) (c : Cfg) : rej79 s c = false ↔ (-1 ≤ c.bipred_3x3_inject ∧ c.bipred_3x3_inject ≤ 2) := by
  simp [rej79] <;> omega

theorem rej80_iff (s : Scs) (c : Cfg) : rej80 s c = false ↔ (-1 ≤ c.compound_level ∧ c.compound_level ≤ 2) := by
  simp [rej80] <;> omega

theorem rej81_iff (s : Scs) (c : Cfg) : rej81 s c = false ↔ (c.intra_angle_delta = 0 ∨ c.intra_angle_delta = 1 ∨ c.intra_angle_delta = -1) := by
  simp [rej81] <;> omega

theorem rej82_iff (s : Scs) (c : Cfg) : rej82 s c = false ↔ (c.inter_intra_compound = 0 ∨ c.inter_intra_compound = 1 ∨ c.inter_intra_compound = -1) := by
  simp [rej82] <;> omega

theorem rej83_iff (s : Scs) (c : Cfg) : rej83 s c = false ↔ (c.enable_paeth = 0 ∨ c.enable_paeth = 1 ∨ c.enable_paeth = -1) := by
  simp [rej83] <;> omega

theorem rej84_iff (s : Scs) (c : Cfg) : rej84 s c = false ↔ (c.enable_smooth = 0 ∨ c.enable_smooth = 1 ∨ c.enable_smooth = -1) := by
  simp [rej84] <;> omega

theorem rej85_iff (s : Scs) (c : Cfg) : rej85 s c = false ↔ (c.enable_mfmv = 0 ∨ c.enable_mfmv = 1 ∨ c.enable_mfmv = -1) := by
  simp [rej85] <;> omega

theorem rej86_iff (s : Scs) (c : Cfg) : rej86 s c = false ↔ (c.enable_redundant_blk = 0 ∨ c.enable_redundant_blk = 1 ∨ c.enable_redundant_blk = -1) := by
  simp [rej86] <;> omega

theorem rej87_iff (s : Scs) (c : Cfg) : rej87 s c = false ↔ (c.spatial_sse_full_loop_level = 0 ∨ c.spatial_sse_full_loop_level = 1 ∨ c.spatial_sse_full_loop_level = -1) := by
  simp [rej87] <;> omega

theorem rej88_iff (s : Scs) (c : Cfg) : rej88 s c = false ↔ (c.over_bndry_blk = 0 ∨ c.over_bndry_blk = 1 ∨ c.over_bndry_blk = -1) := by
  simp [rej88] <;> omega

theorem rej89_iff (s : Scs) (c : Cfg) : rej89 s c = false ↔ (c.new_nearest_comb_inject = 0 ∨ c.new_nearest_comb_inject = 1 ∨ c.new_nearest_comb_inject = -1) := by
  simp [rej89] <;> omega

theorem rej90_iff (s : Scs) (c : Cfg) : rej90 s c = false ↔ (c.nsq_table = 0 ∨ c.nsq_table = 1 ∨ c.nsq_table = -1) := by
  simp [rej90] <;> omega

theorem rej91_iff (s : Scs) (c : Cfg) : rej91 s c = false ↔ (c.frame_end_cdf_update = 0 ∨ c.frame_end_cdf_update = 1 ∨ c.frame_end_cdf_update = -1) := by
  simp [rej91] <;> omega

theorem rej92_iff (s : Scs) (c : Cfg) (hs : s.WellTyped) (hc : c.WellTyped) :
    rej92 s c = false ↔ (c.enable_manual_pred_struct = 0 ∨ validManualPredStruct c.manual_pred_struct_entry_num c.pred_struct) := by
  unfold rej92
  by_cases he : c.enable_manual_pred_struct = 0
  · have he' : (c.enable_manual_pred_struct != 0) = false := by simp [he]
    simp only [he', Bool.false_eq_true, if_false]
    rw [block92_spec _ (by exact hs.static_config_pred_struct.1) (by exact fun i _ => getD_mem_or _ _ _ hs.static_config_pred_struct.2 default_wt i)]
    simp [he]
  · have he' : (c.enable_manual_pred_struct != 0) = true := by simp [he]
    simp only [he', if_true]
    have hsp := copyPrefixE_spec (CSem.wrapU 64 c.manual_pred_struct_entry_num) c.pred_struct s.static_config_pred_struct
    have hmem := copyPrefixE_mem PredEntry.WellTyped (CSem.wrapU 64 c.manual_pred_struct_entry_num) c.pred_struct s.static_config_pred_struct
      hc.pred_struct.2 hs.static_config_pred_struct.2 default_wt
    rw [block92_spec _ (by show (copyPrefixE _ _ _).length = 32; rw [hsp.1]; exact hs.static_config_pred_struct.1) (by exact fun i _ => getD_mem_or _ _ _ hmem default_wt i)]
    simp only [he, false_or]
    unfold validManualPredStruct
    have hN := hc.manual_pred_struct_entry_num
    by_cases h32 : c.manual_pred_struct_entry_num ≤ 32
    · simp only [h32, true_and]
      by_cases h0 : 0 ≤ c.manual_pred_struct_entry_num
      · have ew : CSem.wrapU 64 c.manual_pred_struct_entry_num = c.manual_pred_struct_entry_num := by
          unfold wrapU; exact Int.emod_eq_of_lt h0 (by omega)
        rw [ew] at hsp ⊢
        constructor
        · intro h i hi
          have := h i hi
          rwa [hsp.2 i hi (by rw [hs.static_config_pred_struct.1]; omega)] at this
        · intro h i hi
          rw [hsp.2 i hi (by rw [hs.static_config_pred_struct.1]; omega)]
          exact h i hi
      · have : c.manual_pred_struct_entry_num.toNat = 0 := by omega
        rw [this]; simp
    · simp [h32]

theorem rej93_iff (s : Scs) (c : Cfg) : rej93 s c = false ↔ (c.superres_mode ≤ 2) := by
  simp [rej93]

theorem rej94_iff (s : Scs) (c : Cfg) : rej94 s c = false ↔ (c.superres_mode ≤ 0 ∨ (c.rc_twopass_stats_in_sz = 0 ∧ c.rc_firstpass_stats_out = 0)) := by
  simp [rej94] <;> omega

theorem rej95_iff (s : Scs) (c : Cfg) : rej95 s c = false ↔ (c.superres_qthres ≤ 63) := by
  simp [rej95]

theorem rej96_iff (s : Scs) (c : Cfg) : rej96 s c = false ↔ (8 ≤ c.superres_kf_denom ∧ c.superres_kf_denom ≤ 16) := by
  simp [rej96] <;> omega

theorem rej97_iff (s : Scs) (c : Cfg) : rej97 s c = false ↔ (8 ≤ c.superres_denom ∧ c.superres_denom ≤ 16) := by
  simp [rej97] <;> omega

end Lemmas.Config
