/-
  C07 part B — comparison of the C and AVX2 full-distortion kernels (proof bodies of the Props/C07b theorems)
  and the cbf_zero kernels.
-/
import SvtVerif.Lemmas.SimdB4

namespace Simd

namespace Blk
/-- `coeff - recon` fits in int32 for every element of the block (then `_mm256_mul_epi32` squares the true difference) -/
def SubFits (b : Blk) : Prop := ∀ j i, j < b.h → i < b.w → -2 ^ 31 ≤ b.d j i ∧ b.d j i < 2 ^ 31
/-- Σ over the elements of column-lane `l` of the LOW dwords of `(coeff - recon)^2` -/
def lo (b : Blk) (l : Nat) : Nat := b.laneSum l fun j i => b.sq j i % 2 ^ 32
/-- Σ over the elements of column-lane `l` of the HIGH dwords of `(coeff - recon)^2` -/
def hi (b : Blk) (l : Nat) : Nat := b.laneSum l fun j i => b.sq j i / 2 ^ 32
/-- in no qword lane does the running 32-bit sum of the low dwords wrap -/
def NoLaneCarry (b : Blk) : Prop := ∀ l, l < 4 → b.lo l < 2 ^ 32
end Blk

theorem prediction_eq (b : Blk) (hd : b.InDomain) : ∃ r, b.runAvx2 = some r ∧ r.2 = b.runC.2 := by
  obtain ⟨r, h1, _, h3⟩ := runAvx2_toNat b hd
  exact ⟨r, h1, BitVec.eq_of_toNat_eq (by rw [h3, (runC_toNat b).2])⟩

theorem laneVal_of_fits (b : Blk) (hd : b.InDomain) (hs : b.SubFits) (l : Nat) (hl : l < 4) :
    b.laneVal l = b.lo l % 2 ^ 32 + 2 ^ 32 * (b.hi l % 2 ^ 32) := by
  have e : ∀ j i, j < b.h → i < b.w → b.sqLow j i = b.sq j i := fun j i hj hi =>
    sqDiffLow_eq_of_fits (hs j i hj hi).1 (hs j i hj hi).2
  rw [Blk.laneVal, Blk.lo, Blk.hi,
    laneSum_congr b l hl hd.2.1 (F := fun j i => b.sqLow j i % 2 ^ 32) (G := fun j i => b.sq j i % 2 ^ 32)
      (fun j i hj hi => by simp only [e j i hj hi]),
    laneSum_congr b l hl hd.2.1 (F := fun j i => b.sqLow j i / 2 ^ 32) (G := fun j i => b.sq j i / 2 ^ 32)
      (fun j i hj hi => by simp only [e j i hj hi])]

/-- both residual results in terms of the per-lane low/high dword sums -/
theorem residual_forms (b : Blk) (hd : b.InDomain) (hs : b.SubFits) :
    ∃ r, b.runAvx2 = some r ∧ r.2 = b.runC.2 ∧
      r.1.toNat = (b.lo 0 % 2 ^ 32 + 2 ^ 32 * (b.hi 0 % 2 ^ 32) + (b.lo 1 % 2 ^ 32 + 2 ^ 32 * (b.hi 1 % 2 ^ 32))
                 + (b.lo 2 % 2 ^ 32 + 2 ^ 32 * (b.hi 2 % 2 ^ 32)) + (b.lo 3 % 2 ^ 32 + 2 ^ 32 * (b.hi 3 % 2 ^ 32))) % 2 ^ 64 ∧
      b.runC.1.toNat = (b.lo 0 + 2 ^ 32 * b.hi 0 + (b.lo 1 + 2 ^ 32 * b.hi 1) + (b.lo 2 + 2 ^ 32 * b.hi 2)
                 + (b.lo 3 + 2 ^ 32 * b.hi 3)) % 2 ^ 64 := by
  obtain ⟨r, h1, h2, h3⟩ := runAvx2_toNat b hd
  refine ⟨r, h1, BitVec.eq_of_toNat_eq (by rw [h3, (runC_toNat b).2]), ?_, ?_⟩
  · rw [h2, laneVal_of_fits b hd hs 0 (by omega), laneVal_of_fits b hd hs 1 (by omega),
      laneVal_of_fits b hd hs 2 (by omega), laneVal_of_fits b hd hs 3 (by omega)]
  · rw [(runC_toNat b).1, blockSum_lanes b hd.2.1, laneSum_split b 0, laneSum_split b 1, laneSum_split b 2,
      laneSum_split b 3]
    rfl

theorem pair_eq {r s : BitVec 64 × BitVec 64} (h1 : r.1.toNat = s.1.toNat) (h2 : r.2 = s.2) : r = s :=
  Prod.ext (BitVec.eq_of_toNat_eq h1) h2

theorem eq_of_noCarry (b : Blk) (hd : b.InDomain) (hs : b.SubFits) (hc : b.NoLaneCarry) : b.runAvx2 = some b.runC := by
  obtain ⟨r, h1, h2, h3, h4⟩ := residual_forms b hd hs
  have c0 := hc 0 (by omega); have c1 := hc 1 (by omega); have c2 := hc 2 (by omega); have c3 := hc 3 (by omega)
  rw [h1]
  refine congrArg some (pair_eq ?_ h2)
  rw [h3, h4]
  omega

theorem lo_le (b : Blk) (hd : b.InDomain) (l : Nat) (hl : l < 4) : b.lo l ≤ b.h * (b.w / 4) * (2 ^ 32 - 1) := by
  have := laneSum_le b l hl hd.2.1 (F := fun j i => b.sq j i % 2 ^ 32) (G := fun _ _ => 2 ^ 32 - 1)
    (fun j i _ _ => by omega)
  rw [laneSum_const, ← Nat.mul_assoc] at this
  exact this

theorem mod_shift {X T : Nat} (h : X % 2 ^ 64 = (X + 2 ^ 32 * T) % 2 ^ 64) : T % 2 ^ 32 = 0 := by omega

theorem carries_zero_aux {N k0 k1 k2 k3 m0 m1 m2 m3 q0 q1 q2 q3 g0 g1 g2 g3 : Nat} (hN : N ≤ 2 ^ 30)
    (b0 : 2 ^ 32 * k0 + m0 ≤ N * (2 ^ 32 - 1)) (b1 : 2 ^ 32 * k1 + m1 ≤ N * (2 ^ 32 - 1))
    (b2 : 2 ^ 32 * k2 + m2 ≤ N * (2 ^ 32 - 1)) (b3 : 2 ^ 32 * k3 + m3 ≤ N * (2 ^ 32 - 1))
    (he : (m0 + 2 ^ 32 * g0 + (m1 + 2 ^ 32 * g1) + (m2 + 2 ^ 32 * g2) + (m3 + 2 ^ 32 * g3)) % 2 ^ 64
        = (2 ^ 32 * k0 + m0 + 2 ^ 32 * (2 ^ 32 * q0 + g0) + (2 ^ 32 * k1 + m1 + 2 ^ 32 * (2 ^ 32 * q1 + g1))
          + (2 ^ 32 * k2 + m2 + 2 ^ 32 * (2 ^ 32 * q2 + g2)) + (2 ^ 32 * k3 + m3 + 2 ^ 32 * (2 ^ 32 * q3 + g3))) % 2 ^ 64) :
    k0 = 0 ∧ k1 = 0 ∧ k2 = 0 ∧ k3 = 0 := by
  have e : 2 ^ 32 * k0 + m0 + 2 ^ 32 * (2 ^ 32 * q0 + g0) + (2 ^ 32 * k1 + m1 + 2 ^ 32 * (2 ^ 32 * q1 + g1))
          + (2 ^ 32 * k2 + m2 + 2 ^ 32 * (2 ^ 32 * q2 + g2)) + (2 ^ 32 * k3 + m3 + 2 ^ 32 * (2 ^ 32 * q3 + g3))
      = (m0 + 2 ^ 32 * g0 + (m1 + 2 ^ 32 * g1) + (m2 + 2 ^ 32 * g2) + (m3 + 2 ^ 32 * g3))
        + 2 ^ 32 * ((k0 + k1 + k2 + k3) + 2 ^ 32 * (q0 + q1 + q2 + q3)) := by omega
  rw [e] at he
  have hs := mod_shift he
  have hK : (k0 + k1 + k2 + k3) % 2 ^ 32 = 0 := by omega
  have c0 : k0 < N ∨ k0 = 0 := by omega
  have c1 : k1 < N ∨ k1 = 0 := by omega
  have c2 : k2 < N ∨ k2 = 0 := by omega
  have c3 : k3 < N ∨ k3 = 0 := by omega
  clear he e hs b0 b1 b2 b3
  omega

theorem split32 (x : Nat) : ∃ k m, m < 2 ^ 32 ∧ x = 2 ^ 32 * k + m := ⟨x / 2 ^ 32, x % 2 ^ 32, by omega, by omega⟩

theorem carries_zero {N l0 l1 l2 l3 h0 h1 h2 h3 : Nat} (hN : N ≤ 2 ^ 30)
    (b0 : l0 ≤ N * (2 ^ 32 - 1)) (b1 : l1 ≤ N * (2 ^ 32 - 1)) (b2 : l2 ≤ N * (2 ^ 32 - 1)) (b3 : l3 ≤ N * (2 ^ 32 - 1))
    (he : (l0 % 2 ^ 32 + 2 ^ 32 * (h0 % 2 ^ 32) + (l1 % 2 ^ 32 + 2 ^ 32 * (h1 % 2 ^ 32))
            + (l2 % 2 ^ 32 + 2 ^ 32 * (h2 % 2 ^ 32)) + (l3 % 2 ^ 32 + 2 ^ 32 * (h3 % 2 ^ 32))) % 2 ^ 64
        = (l0 + 2 ^ 32 * h0 + (l1 + 2 ^ 32 * h1) + (l2 + 2 ^ 32 * h2) + (l3 + 2 ^ 32 * h3)) % 2 ^ 64) :
    l0 < 2 ^ 32 ∧ l1 < 2 ^ 32 ∧ l2 < 2 ^ 32 ∧ l3 < 2 ^ 32 := by
  obtain ⟨k0, m0, hm0, rfl⟩ := split32 l0
  obtain ⟨k1, m1, hm1, rfl⟩ := split32 l1
  obtain ⟨k2, m2, hm2, rfl⟩ := split32 l2
  obtain ⟨k3, m3, hm3, rfl⟩ := split32 l3
  obtain ⟨q0, g0, hg0, rfl⟩ := split32 h0
  obtain ⟨q1, g1, hg1, rfl⟩ := split32 h1
  obtain ⟨q2, g2, hg2, rfl⟩ := split32 h2
  obtain ⟨q3, g3, hg3, rfl⟩ := split32 h3
  simp only [Nat.mul_add_mod, Nat.mod_eq_of_lt hm0, Nat.mod_eq_of_lt hm1, Nat.mod_eq_of_lt hm2, Nat.mod_eq_of_lt hm3,
    Nat.mod_eq_of_lt hg0, Nat.mod_eq_of_lt hg1, Nat.mod_eq_of_lt hg2, Nat.mod_eq_of_lt hg3] at he
  obtain ⟨z0, z1, z2, z3⟩ := carries_zero_aux hN b0 b1 b2 b3 he
  subst z0 z1 z2 z3
  omega

theorem noCarry_of_eq (b : Blk) (hd : b.InDomain) (hs : b.SubFits) (hsize : b.h * (b.w / 4) ≤ 2 ^ 30)
    (he : b.runAvx2 = some b.runC) : b.NoLaneCarry := by
  obtain ⟨r, h1, _, h3, h4⟩ := residual_forms b hd hs
  rw [h1] at he
  have he' : r = b.runC := Option.some.inj he
  rw [he'] at h3
  rw [h3] at h4
  obtain ⟨c0, c1, c2, c3⟩ := carries_zero hsize (lo_le b hd 0 (by omega)) (lo_le b hd 1 (by omega))
    (lo_le b hd 2 (by omega)) (lo_le b hd 3 (by omega)) h4
  intro l hl
  have : l = 0 ∨ l = 1 ∨ l = 2 ∨ l = 3 := by omega
  rcases this with rfl | rfl | rfl | rfl <;> assumption

theorem subFits_of_laneSq (b : Blk) (hd : b.InDomain) (h : ∀ l, l < 4 → b.laneSum l b.sq < 2 ^ 32) : b.SubFits := by
  intro j i hj hi
  have h1 := le_laneSum b hd.2.1 b.sq hj hi
  have h2 := h (i % 4) (by omega)
  exact fits_of_sqDiff_lt (c := b.c j i) (r := b.r j i) (by simp only [Blk.sq] at h1; omega)

theorem eq_of_laneSq (b : Blk) (hd : b.InDomain) (h : ∀ l, l < 4 → b.laneSum l b.sq < 2 ^ 32) :
    b.runAvx2 = some b.runC := by
  refine eq_of_noCarry b hd (subFits_of_laneSq b hd h) ?_
  intro l hl
  have := laneSum_le b l hl hd.2.1 (F := fun j i => b.sq j i % 2 ^ 32) (G := b.sq) (fun j i _ _ => Nat.mod_le _ _)
  have := h l hl
  simp only [Blk.lo]
  omega

theorem eq_of_bound (b : Blk) (hd : b.InDomain) (D : Nat)
    (hD : ∀ j i, j < b.h → i < b.w → (b.d j i).natAbs ≤ D) (hN : b.h * (b.w / 4) * D ^ 2 < 2 ^ 32) :
    b.runAvx2 = some b.runC := by
  refine eq_of_laneSq b hd ?_
  intro l hl
  have := laneSum_le b l hl hd.2.1 (F := b.sq) (G := fun _ _ => D ^ 2)
    (fun j i hj hi => Nat.pow_le_pow_left (hD j i hj hi) 2)
  rw [laneSum_const, ← Nat.mul_assoc] at this
  omega

/-! ### cbf_zero kernels -/

def fdzcStep (coeff : Mem 32) (s : FdzC) (i : Nat) : FdzC :=
  { s with prediction := s.prediction + sqC (coeff (s.coeff + i)) }

theorem fdzcRow_eq (coeff : Mem 32) (w : Nat) (s : FdzC) :
    fdzcRow coeff w s = (List.range w).foldl (fdzcStep coeff) s := rfl

theorem fdzcRow_spec (coeff : Mem 32) (w : Nat) (s : FdzC) :
    (fdzcRow coeff w s).coeff = s.coeff ∧
    (fdzcRow coeff w s).prediction.toNat = (s.prediction.toNat + sumN w fun i => sqCoef (coeff (s.coeff + i))) % 2 ^ 64 := by
  induction w with
  | zero =>
    have h2 := s.prediction.isLt
    simp only [fdzcRow_eq, List.range_zero, List.foldl_nil, sumN, Nat.add_zero]
    refine ⟨trivial, ?_⟩; omega
  | succ w ih =>
    obtain ⟨i1, i4⟩ := ih
    rw [fdzcRow_eq] at i1 i4
    simp only [fdzcRow_eq, List.range_succ, List.foldl_append, List.foldl_cons, List.foldl_nil, sumN]
    simp only [fdzcStep, i1, BitVec.toNat_add, i4, sqC_toNat]
    refine ⟨trivial, ?_⟩; omega

def fdzcRowStep (coeff : Mem 32) (cs w : Nat) (s : FdzC) (_j : Nat) : FdzC :=
  let s := fdzcRow coeff w s
  { s with coeff := s.coeff + cs }

theorem fdzcRows_eq (coeff : Mem 32) (cs w h : Nat) (s : FdzC) :
    fdzcRows coeff cs w h s = (List.range h).foldl (fdzcRowStep coeff cs w) s := rfl

theorem fdzcRows_spec (coeff : Mem 32) (cs w h : Nat) (s : FdzC) :
    (fdzcRows coeff cs w h s).coeff = s.coeff + h * cs ∧
    (fdzcRows coeff cs w h s).prediction.toNat
      = (s.prediction.toNat + sumN h fun j => sumN w fun i => sqCoef (coeff (s.coeff + j * cs + i))) % 2 ^ 64 := by
  induction h with
  | zero =>
    have h2 := s.prediction.isLt
    simp only [fdzcRows_eq, List.range_zero, List.foldl_nil, sumN, Nat.add_zero, Nat.zero_mul]
    refine ⟨trivial, ?_⟩; omega
  | succ h ih =>
    obtain ⟨i1, i4⟩ := ih
    rw [fdzcRows_eq] at i1 i4
    obtain ⟨r1, r4⟩ := fdzcRow_spec coeff w ((List.range h).foldl (fdzcRowStep coeff cs w) s)
    simp only [fdzcRows_eq, List.range_succ, List.foldl_append, List.foldl_cons, List.foldl_nil, sumN]
    simp only [fdzcRowStep, r1, r4, i1, i4, Nat.add_one_mul]
    refine ⟨by omega, ?_⟩; omega

theorem runZC_toNat (b : Blk) :
    b.runZC.1.toNat = b.blockSum b.sqc % 2 ^ 64 ∧ b.runZC.2 = b.runZC.1 := by
  obtain ⟨_, r4⟩ := fdzcRows_spec b.coeff b.cs b.w b.h ⟨0, b.cp⟩
  have e1 : b.runZC.1 = (fdzcRows b.coeff b.cs b.w b.h ⟨0, b.cp⟩).prediction := by
    simp [Blk.runZC, fullDistCbfZero32_c, fullDistCbfZero32_c_mem, store1]
  have e2 : b.runZC.2 = (fdzcRows b.coeff b.cs b.w b.h ⟨0, b.cp⟩).prediction := by
    simp [Blk.runZC, fullDistCbfZero32_c, fullDistCbfZero32_c_mem, store1]
  rw [e1, e2, r4]
  simp [Blk.blockSum, Blk.sqc, Blk.c]

theorem runZAvx2_rows (b : Blk) :
    b.runZAvx2 = (fdzvRows b.coeff b.cs b.w b.h (BitVec.ofNat 32 b.h) b.cp mm256_setzero_si256).map fun sum =>
      let m := storeU64 (fun _ => 0) 0 (hsum sum) 2
      (m 0, m 1) := by
  simp only [Blk.runZAvx2, fullDistCbfZero32_avx2, fullDistCbfZero32_avx2_mem, hsum]
  cases fdzvRows b.coeff b.cs b.w b.h (BitVec.ofNat 32 b.h) b.cp mm256_setzero_si256 <;> rfl

theorem runZAvx2_eq (b : Blk) (hd : b.InDomain) :
    b.runZAvx2 = some ((accB b 0 + accB b 2) + (accB b 1 + accB b 3), (accB b 1 + accB b 3) + (accB b 0 + accB b 2)) := by
  obtain ⟨hw0, hw4, hwlt, hh0, hhlt⟩ := hd
  obtain ⟨n, hn⟩ : ∃ n, b.w / 4 = n + 1 := ⟨b.w / 4 - 1, by omega⟩
  obtain ⟨h', hh'⟩ : ∃ k, b.h = k + 1 := ⟨b.h - 1, by omega⟩
  rw [runZAvx2_rows, zero_eq_L4]
  conv => lhs; rw [hh']
  rw [fdzvRows_lanes b.coeff b.cs b.w n hn (by omega) h' (h' + 1) b.cp _ (Nat.le_refl _) (by omega)]
  simp only [Option.map_some, hsum_L4, storeU64_pair, accB, hh', hn, Blk.c, Nat.add_assoc]

theorem cbfZero_eq (b : Blk) (hd : b.InDomain) : b.runZAvx2 = some b.runZC := by
  rw [runZAvx2_eq b hd]
  obtain ⟨h1, h2⟩ := runZC_toNat b
  refine congrArg some (Prod.ext (BitVec.eq_of_toNat_eq ?_) ?_)
  · simp only [BitVec.toNat_add, accB_toNat, h1, blockSum_lanes b hd.2.1]; omega
  · simp only [h2]
    apply BitVec.eq_of_toNat_eq
    simp only [BitVec.toNat_add, accB_toNat, h1, blockSum_lanes b hd.2.1]; omega

end Simd
