import SvtVerif.Model.ToolGate
import Mathlib.Tactic.Linarith
import Mathlib.Tactic.Ring
import Mathlib.Tactic.NormNum

/-!
Arithmetic lemmas about the "tile info" section of `SvtVerif/Model/ToolGate.lean`:
`tileLog2` is the least exponent, the fuel-bounded `tileStarts` loop equals its closed form, the number of tiles of a
uniform layout lies in (2^(k-1), 2^k], tile widths are positive, bounded by the tile size and sum to the SB count.
-/

namespace ToolGate

/-! ### generic Nat helpers -/

private theorem two_pow_pos' (k : Nat) : 1 ≤ 2 ^ k := Nat.one_le_two_pow

/-- ceil-division lower bound: `n ≤ ceil(n/p) * p`. -/
theorem ceilDiv_mul_ge (n p : Nat) (hp : 1 ≤ p) : n ≤ (n + p - 1) / p * p := by
  have h1 := Nat.div_add_mod (n + p - 1) p
  have h2 := Nat.mod_lt (n + p - 1) (show 0 < p by omega)
  have h3 : (n + p - 1) / p * p = p * ((n + p - 1) / p) := Nat.mul_comm _ _
  generalize (n + p - 1) / p * p = x at *
  generalize p * ((n + p - 1) / p) = y at *
  generalize (n + p - 1) % p = r at *
  omega

/-- ceil-division upper bound: `ceil(n/p) * p < n + p`. -/
theorem ceilDiv_mul_lt (n p : Nat) (hp : 1 ≤ p) : (n + p - 1) / p * p < n + p := by
  have h1 := Nat.div_mul_le_self (n + p - 1) p
  omega

theorem ceilDiv_pos (n p : Nat) (hn : 1 ≤ n) (hp : 1 ≤ p) : 1 ≤ (n + p - 1) / p := by
  rw [Nat.le_div_iff_mul_le (by omega)]
  omega

/-- `ceil(p*m / p) = m`. -/
theorem ceilDiv_mul_self (p m : Nat) (hp : 1 ≤ p) : (p * m + p - 1) / p = m := by
  have e : p * m + p - 1 = (p - 1) + p * m := by omega
  rw [e, Nat.add_mul_div_left _ _ (by omega : 0 < p)]
  have : (p - 1) / p = 0 := Nat.div_eq_of_lt (by omega)
  omega

/-! ### 1, 2: tileLog2 -/

theorem tileLog2Aux_spec (blk t : Nat) (hb : 1 ≤ blk) :
    ∀ (fuel k : Nat), t ≤ fuel + k → (∀ j, j < k → blk * 2 ^ j < t) →
      t ≤ blk * 2 ^ tileLog2Aux blk t fuel k ∧ ∀ j, j < tileLog2Aux blk t fuel k → blk * 2 ^ j < t := by
  intro fuel
  induction fuel with
  | zero =>
    intro k hf hinv
    simp only [tileLog2Aux]
    refine ⟨?_, hinv⟩
    have h1 : k < 2 ^ k := Nat.lt_two_pow_self
    have h2 : 1 * 2 ^ k ≤ blk * 2 ^ k := Nat.mul_le_mul_right _ hb
    omega
  | succ fuel ih =>
    intro k hf hinv
    simp only [tileLog2Aux]
    by_cases hlt : blk * 2 ^ k < t
    · rw [if_pos hlt]
      apply ih (k + 1) (by omega)
      intro j hj
      by_cases hjk : j = k
      · subst hjk; exact hlt
      · exact hinv j (by omega)
    · rw [if_neg hlt]
      exact ⟨by omega, hinv⟩

theorem tileLog2_spec (blk t : Nat) (hb : 1 ≤ blk) :
    t ≤ blk * 2 ^ tileLog2 blk t ∧ ∀ j, j < tileLog2 blk t → blk * 2 ^ j < t := by
  unfold tileLog2
  exact tileLog2Aux_spec blk t hb t 0 (by omega) (by intro j hj; omega)

theorem tileLog2_le_of_le (blk t k : Nat) (hb : 1 ≤ blk) (h : t ≤ blk * 2 ^ k) : tileLog2 blk t ≤ k := by
  by_contra hc
  have := (tileLog2_spec blk t hb).2 k (by omega)
  omega

theorem tileLog2_eq_zero_of_le (blk t : Nat) (h : t ≤ blk) : tileLog2 blk t = 0 := by
  unfold tileLog2
  cases t with
  | zero => rfl
  | succ t =>
    simp only [tileLog2Aux]
    rw [if_neg (by simp only [Nat.pow_zero, Nat.mul_one]; omega)]

/-! ### 3, 4: tileSizeSb -/

theorem tileSizeSb_pos (n k : Nat) (hn : 1 ≤ n) : 1 ≤ tileSizeSb n k :=
  ceilDiv_pos n (2 ^ k) hn (two_pow_pos' k)

theorem tileSizeSb_mul_ge (n k : Nat) : n ≤ tileSizeSb n k * 2 ^ k :=
  ceilDiv_mul_ge n (2 ^ k) (two_pow_pos' k)

theorem tileSizeSb_mul_lt (n k : Nat) : tileSizeSb n k * 2 ^ k < n + 2 ^ k :=
  ceilDiv_mul_lt n (2 ^ k) (two_pow_pos' k)

/-! ### 5, 6: closed form of the tile start loop -/

private theorem ceil_step (m size : Nat) (hs : 1 ≤ size) (hm : 1 ≤ m) :
    (m + size - 1) / size = (m - size + size - 1) / size + 1 := by
  by_cases h : size ≤ m
  · have e : m + size - 1 = (m - size + size - 1) + size := by omega
    rw [e, Nat.add_div_right _ (by omega : 0 < size)]
  · have e1 : m - size + size - 1 = size - 1 := by omega
    rw [e1, Nat.div_eq_of_lt (by omega : size - 1 < size)]
    have h1 : 1 ≤ (m + size - 1) / size := ceilDiv_pos m size hm hs
    have h2 : (m + size - 1) / size < 2 := by
      rw [Nat.div_lt_iff_lt_mul (by omega)]
      omega
    omega

theorem tileStartsAux_eq (n size : Nat) (hs : 1 ≤ size) :
    ∀ (fuel start : Nat), n - start ≤ fuel →
      tileStartsAux n size fuel start
        = (List.range ((n - start + size - 1) / size)).map (fun i => start + i * size) := by
  intro fuel
  induction fuel with
  | zero =>
    intro start hf
    have e : n - start + size - 1 = size - 1 := by omega
    rw [e, Nat.div_eq_of_lt (by omega : size - 1 < size)]
    rfl
  | succ fuel ih =>
    intro start hf
    simp only [tileStartsAux]
    by_cases hlt : start < n
    · rw [if_pos hlt, ih (start + size) (by omega)]
      have e2 : n - (start + size) = n - start - size := by omega
      rw [ceil_step (n - start) size hs (by omega), e2, List.range_succ_eq_map, List.map_cons, List.map_map]
      congr 1
      · simp
      · apply List.map_congr_left
        intro i _
        simp only [Function.comp, Nat.succ_eq_add_one]
        rw [Nat.add_mul]
        omega
    · rw [if_neg hlt]
      have e : n - start + size - 1 = size - 1 := by omega
      rw [e, Nat.div_eq_of_lt (by omega : size - 1 < size)]
      rfl

theorem tileStarts_eq (n k : Nat) (hn : 1 ≤ n) :
    tileStarts n k = (List.range ((n + tileSizeSb n k - 1) / tileSizeSb n k)).map (· * tileSizeSb n k) := by
  unfold tileStarts
  rw [tileStartsAux_eq n (tileSizeSb n k) (tileSizeSb_pos n k hn) n 0 (by omega)]
  simp

theorem tileStarts_length (n k : Nat) (hn : 1 ≤ n) :
    (tileStarts n k).length = (n + tileSizeSb n k - 1) / tileSizeSb n k := by
  rw [tileStarts_eq n k hn]
  simp

/-! ### 7 - 10: the tile count -/

theorem tileCount_le (n k : Nat) (hn : 1 ≤ n) : (tileStarts n k).length ≤ 2 ^ k := by
  rw [tileStarts_length n k hn]
  have hs := tileSizeSb_pos n k hn
  have hge := tileSizeSb_mul_ge n k
  have : (n + tileSizeSb n k - 1) / tileSizeSb n k < 2 ^ k + 1 := by
    rw [Nat.div_lt_iff_lt_mul (by omega)]
    rw [Nat.add_mul, Nat.mul_comm (2 ^ k)]
    omega
  omega

theorem tileCount_pos (n k : Nat) (hn : 1 ≤ n) : 1 ≤ (tileStarts n k).length := by
  rw [tileStarts_length n k hn]
  exact ceilDiv_pos n _ hn (tileSizeSb_pos n k hn)

theorem tileCount_gt (n k : Nat) (hk : 1 ≤ k) (h : 2 ^ (k - 1) < n) : 2 ^ (k - 1) < (tileStarts n k).length := by
  have hn : 1 ≤ n := Nat.lt_of_le_of_lt (Nat.zero_le _) h
  rw [tileStarts_length n k hn]
  have hs := tileSizeSb_pos n k hn
  have hlt := tileSizeSb_mul_lt n k
  have hpow : 2 ^ k = 2 * 2 ^ (k - 1) := by
    obtain ⟨j, rfl⟩ : ∃ j, k = j + 1 := ⟨k - 1, by omega⟩
    rw [Nat.add_sub_cancel, Nat.pow_succ, Nat.mul_comm]
  generalize 2 ^ (k - 1) = p at *
  generalize tileSizeSb n k = s at *
  -- key: p * s < n
  have key : p * s < n := by
    rw [hpow] at hlt
    have e : s * (2 * p) = 2 * (p * s) := by ring
    rw [e] at hlt
    by_cases hc : 2 * p ≤ n
    · omega
    · -- n < 2p, so s = 1
      have hs1 : s < 2 := by
        by_contra hs2
        have : p * 2 ≤ p * s := Nat.mul_le_mul_left p (by omega)
        omega
      have : s = 1 := by omega
      subst this
      omega
  show p + 1 ≤ (n + s - 1) / s
  rw [Nat.le_div_iff_mul_le (by omega)]
  rw [Nat.add_mul]
  omega

theorem tileCount_exact (n k : Nat) (hn : 1 ≤ n) (hd : 2 ^ k ∣ n) : (tileStarts n k).length = 2 ^ k := by
  rw [tileStarts_length n k hn]
  obtain ⟨m, rfl⟩ := hd
  have hp := two_pow_pos' k
  have hm : 1 ≤ m := by
    rcases Nat.eq_zero_or_pos m with h0 | h0
    · subst h0; simp at hn
    · exact h0
  have hsz : tileSizeSb (2 ^ k * m) k = m := by
    unfold tileSizeSb
    exact ceilDiv_mul_self (2 ^ k) m hp
  rw [hsz, Nat.mul_comm]
  exact ceilDiv_mul_self m (2 ^ k) hm

/-! ### 11: tile widths -/

def tileWidths (n k : Nat) : List Nat := (tileStarts n k).map (fun s => min (tileSizeSb n k) (n - s))

theorem tileStartsAux_lt (n size : Nat) :
    ∀ (fuel start : Nat), ∀ s ∈ tileStartsAux n size fuel start, s < n := by
  intro fuel
  induction fuel with
  | zero => intro start s hs; simp [tileStartsAux] at hs
  | succ fuel ih =>
    intro start s hs
    simp only [tileStartsAux] at hs
    by_cases hlt : start < n
    · rw [if_pos hlt] at hs
      rcases List.mem_cons.1 hs with h | h
      · omega
      · exact ih _ s h
    · rw [if_neg hlt] at hs
      simp at hs

theorem tileStarts_lt (n k : Nat) (hn : 1 ≤ n) : ∀ s ∈ tileStarts n k, s < n := by
  have _ := hn
  unfold tileStarts
  exact tileStartsAux_lt n _ n 0

theorem tileWidths_pos (n k : Nat) (hn : 1 ≤ n) : ∀ w ∈ tileWidths n k, 1 ≤ w ∧ w ≤ tileSizeSb n k := by
  intro w hw
  unfold tileWidths at hw
  obtain ⟨s, hs, rfl⟩ := List.mem_map.1 hw
  have h1 := tileStarts_lt n k hn s hs
  have h2 := tileSizeSb_pos n k hn
  omega

theorem tileStartsAux_width_sum (n size : Nat) (hs : 1 ≤ size) :
    ∀ (fuel start : Nat), n - start ≤ fuel →
      ((tileStartsAux n size fuel start).map (fun s => min size (n - s))).sum = n - start := by
  intro fuel
  induction fuel with
  | zero =>
    intro start hf
    simp only [tileStartsAux, List.map_nil, List.sum_nil]
    omega
  | succ fuel ih =>
    intro start hf
    simp only [tileStartsAux]
    by_cases hlt : start < n
    · rw [if_pos hlt, List.map_cons, List.sum_cons, ih (start + size) (by omega)]
      omega
    · rw [if_neg hlt, List.map_nil, List.sum_nil]
      omega

theorem tileWidths_sum (n k : Nat) (hn : 1 ≤ n) : (tileWidths n k).sum = n := by
  unfold tileWidths tileStarts
  rw [tileStartsAux_width_sum n _ (tileSizeSb_pos n k hn) n 0 (by omega)]
  omega

/-! ### 12: the log2 the bitstream carries recovers the requested log2 -/

theorem tileLog2_tileCount (n k : Nat) (hn : 1 ≤ n) (hk : k ≤ tileLog2 1 (min n 64)) :
    tileLog2 1 (tileStarts n k).length = k := by
  have hle : tileLog2 1 (tileStarts n k).length ≤ k :=
    tileLog2_le_of_le 1 _ k (by omega) (by have := tileCount_le n k hn; omega)
  rcases Nat.eq_zero_or_pos k with h0 | hpos
  · omega
  · have hsp := (tileLog2_spec 1 (min n 64) (by omega)).2 (k - 1) (by omega)
    have hgt := tileCount_gt n k hpos (by omega)
    have hc := (tileLog2_spec 1 (tileStarts n k).length (by omega)).1
    by_contra hne
    have hlt : tileLog2 1 (tileStarts n k).length ≤ k - 1 := by omega
    have := Nat.pow_le_pow_right (show 0 < 2 by omega) hlt
    omega

/-! ### 13: clampLog2 -/

theorem clampLog2_le_hi (r lo hi : Nat) : clampLog2 r lo hi ≤ hi := by
  unfold clampLog2; omega

theorem clampLog2_lo_zero (r hi : Nat) : clampLog2 r 0 hi = min r hi := by
  unfold clampLog2; omega

theorem clampLog2_ge_lo (r lo hi : Nat) (h : lo ≤ hi) : lo ≤ clampLog2 r lo hi := by
  unfold clampLog2; omega

/-! ### 14: no forced column split when the picture fits one maximal tile -/

theorem minLog2Cols_zero (miCols miRows log2Sb : Nat)
    (h : (tileLimits miCols miRows log2Sb).sbCols ≤ (tileLimits miCols miRows log2Sb).maxTileWidthSb) :
    (tileLimits miCols miRows log2Sb).minLog2Cols = 0 := by
  simp only [tileLimits] at h ⊢
  exact tileLog2_eq_zero_of_le _ _ h


/-- at least one superblock in a non-empty dimension -/
theorem sbCount_pos (mi l : Nat) (h : 1 ≤ mi) : 1 ≤ sbCount mi l :=
  ceilDiv_pos mi (2 ^ l) h Nat.one_le_two_pow

/-- a request that fits (2^r ≤ m) is below tile_log2(1, m) -/
theorem le_tileLog2_of_pow_le (m r : Nat) (h : 2 ^ r ≤ m) : r ≤ tileLog2 1 m := by
  by_contra hlt
  have hlt' : tileLog2 1 m < r := Nat.lt_of_not_le hlt
  have h1 := (tileLog2_spec 1 m (Nat.le_refl 1)).1
  have h2 : 2 ^ tileLog2 1 m < 2 ^ r := Nat.pow_lt_pow_right (by decide) hlt'
  omega

end ToolGate
