/-
  C07a — lane-level bit-vector facts and `storeL` algebra used by the kernel equivalence proofs.
-/
import SvtVerif.Model.SimdKernelsA

namespace Simd

/-! ### bit-vector lane facts -/

theorem le16_toNat (b0 b1 : BitVec 8) : (le16 b0 b1).toNat = b1.toNat * 256 + b0.toNat := by
  show (b1 ++ b0 : BitVec (8+8)).toNat = _
  rw [BitVec.toNat_append, ← Nat.shiftLeft_add_eq_or_of_lt b0.isLt, Nat.shiftLeft_eq]

theorem le32_toNat (b0 b1 b2 b3 : BitVec 8) :
    (le32 b0 b1 b2 b3).toNat = b3.toNat * 2^24 + b2.toNat * 2^16 + b1.toNat * 2^8 + b0.toNat := by
  show (((b3 ++ b2) ++ b1) ++ b0).toNat = _
  have h0 := b0.isLt
  have h1 := b1.isLt
  have h2 := b2.isLt
  rw [BitVec.toNat_append, BitVec.toNat_append, BitVec.toNat_append,
    ← Nat.shiftLeft_add_eq_or_of_lt h0, ← Nat.shiftLeft_add_eq_or_of_lt h1, ← Nat.shiftLeft_add_eq_or_of_lt h2]
  simp only [Nat.shiftLeft_eq]
  omega

/-- the C expression `(int16_t)a - (int16_t)b` stored to `int16_t` = 16-bit lane subtraction of the bytes unpacked with zero -/
theorem residC_eq (x y : BitVec 8) : residC x y = le16 x 0 - le16 y 0 := by
  apply BitVec.eq_of_toNat_eq
  rw [BitVec.toNat_sub, le16_toNat, le16_toNat]
  simp only [residC, BitVec.toNat_ofInt]
  have hx := x.isLt
  have hy := y.isLt
  have h0 : (0 : BitVec 8).toNat = 0 := rfl
  rw [h0]
  omega

theorem le16_bytes16 (v : BitVec 16) : le16 (v.extractLsb' 0 8) (v.extractLsb' 8 8) = v := by
  apply BitVec.eq_of_toNat_eq
  rw [le16_toNat]
  simp only [BitVec.extractLsb'_toNat, Nat.shiftRight_eq_div_pow]
  have := v.isLt
  omega

theorem bytes32_le32 (b0 b1 b2 b3 : BitVec 8) : bytes32 (le32 b0 b1 b2 b3) = [b0, b1, b2, b3] := by
  have h0 := b0.isLt
  have h1 := b1.isLt
  have h2 := b2.isLt
  have h3 := b3.isLt
  have e := le32_toNat b0 b1 b2 b3
  unfold bytes32
  congr 1
  · apply BitVec.eq_of_toNat_eq
    simp only [BitVec.extractLsb'_toNat, Nat.shiftRight_eq_div_pow, e]; omega
  congr 1
  · apply BitVec.eq_of_toNat_eq
    simp only [BitVec.extractLsb'_toNat, Nat.shiftRight_eq_div_pow, e]; omega
  congr 1
  · apply BitVec.eq_of_toNat_eq
    simp only [BitVec.extractLsb'_toNat, Nat.shiftRight_eq_div_pow, e]; omega
  congr 1
  · apply BitVec.eq_of_toNat_eq
    simp only [BitVec.extractLsb'_toNat, Nat.shiftRight_eq_div_pow, e]; omega

/-- `_mm_avg_epu8` lane = the C expression `(a + b + 1) >> 1` computed in `int` and truncated to `uint8_t` -/
theorem avg8_eq_avgC (x y : BitVec 8) : avg8 x y = avgC x y := by
  apply BitVec.eq_of_toNat_eq
  have hx := x.isLt
  have hy := y.isLt
  have h1 : (1 : BitVec 9).toNat = 1 := rfl
  simp only [avg8, avgC, BitVec.truncate_eq_setWidth, BitVec.toNat_setWidth, BitVec.toNat_ushiftRight,
    BitVec.toNat_add, BitVec.toNat_ofNat, Nat.shiftRight_eq_div_pow, h1]
  omega

theorem lanes16_bytes16_cons (v : BitVec 16) (r : Reg) : lanes16 (bytes16 v ++ r) = v :: lanes16 r := by
  simp [bytes16, lanes16, le16_bytes16]

theorem lanes16_unlanes16 (l : List (BitVec 16)) : lanes16 (unlanes16 l) = l := by
  induction l with
  | nil => simp [unlanes16, lanes16]
  | cons v l ih =>
    have : unlanes16 (v :: l) = bytes16 v ++ unlanes16 l := by simp [unlanes16]
    rw [this, lanes16_bytes16_cons, ih]

/-! ### `storeL` algebra -/

theorem storeL_nil {k : Nat} (m : Mem k) (a : Nat) : storeL m a [] = m := by
  funext x; simp [storeL]; omega

theorem store1_eq_storeL {k : Nat} (m : Mem k) (a : Nat) (v : BitVec k) : store1 m a v = storeL m a [v] := by
  funext x
  simp only [store1, storeL, List.length_cons, List.length_nil]
  by_cases h : x = a
  · subst h; simp
  · have : ¬ (a ≤ x ∧ x < a + (0 + 1)) := by omega
    simp [h, this]

/-- two adjacent stores = one store of the concatenation -/
theorem storeL_append {k : Nat} (m : Mem k) (a : Nat) (xs ys : List (BitVec k)) :
    storeL (storeL m a xs) (a + xs.length) ys = storeL m a (xs ++ ys) := by
  funext x
  simp only [storeL, List.length_append]
  by_cases h1 : a + xs.length ≤ x ∧ x < a + xs.length + ys.length
  · have h2 : a ≤ x ∧ x < a + (xs.length + ys.length) := by omega
    have h3 : xs.length ≤ x - a := by omega
    have h4 : x - a - xs.length = x - (a + xs.length) := by omega
    simp [h1, h2, List.getD_eq_getElem?_getD, List.getElem?_append_right h3, h4]
  · by_cases h2 : a ≤ x ∧ x < a + xs.length
    · have h3 : a ≤ x ∧ x < a + (xs.length + ys.length) := by omega
      have h4 : x - a < xs.length := by omega
      simp [h1, h2, h3, List.getD_eq_getElem?_getD, List.getElem?_append_left h4]
    · have h3 : ¬ (a ≤ x ∧ x < a + (xs.length + ys.length)) := by omega
      simp [h1, h2, h3]

theorem storeL_append' {k : Nat} (m : Mem k) (a b : Nat) (xs ys : List (BitVec k)) (h : b = a + xs.length) :
    storeL (storeL m a xs) b ys = storeL m a (xs ++ ys) := by
  subst h; exact storeL_append m a xs ys

/-- stores to disjoint ranges commute -/
theorem storeL_comm {k : Nat} (m : Mem k) (a b : Nat) (xs ys : List (BitVec k))
    (h : a + xs.length ≤ b ∨ b + ys.length ≤ a) :
    storeL (storeL m a xs) b ys = storeL (storeL m b ys) a xs := by
  funext x
  simp only [storeL]
  by_cases h1 : b ≤ x ∧ x < b + ys.length
  · have h2 : ¬ (a ≤ x ∧ x < a + xs.length) := by omega
    simp [h1, h2]
  · simp [h1]

theorem loadL_length {k : Nat} (m : Mem k) (a n : Nat) : (loadL m a n).length = n := by
  simp [loadL]

end Simd
