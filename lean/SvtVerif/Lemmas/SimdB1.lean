/-
  C07 part B — register-structure lemmas: byte-list registers viewed as 64-bit lanes.
  All 256-bit registers of the modelled kernels are kept in the form `unlanes64 [q0, q1, q2, q3]`; the lemmas below
  push every intrinsic used by the kernels through that form.  Core Lean only.
-/
import SvtVerif.Model.SimdKernelsB

namespace Simd

/-- bit-extensionality for identities between `++` / `extractLsb'` terms -/
macro "bits_tac" : tactic => `(tactic| (
  apply BitVec.eq_of_getLsbD_eq
  intro i hi
  simp only [BitVec.getLsbD_append, BitVec.getLsbD_extractLsb']
  repeat' split
  all_goals (first
    | (exfalso; omega)
    | ((repeat (rewrite [decide_eq_true (by omega)])); simp only [Bool.true_and];
       try (first | rfl | (congr 1; omega))))))

/-- low / high dword of a qword lane -/
def lo32 (q : BitVec 64) : BitVec 32 := q.extractLsb' 0 32
def hi32 (q : BitVec 64) : BitVec 32 := q.extractLsb' 32 32

theorem le32_bytes32 (v : BitVec 32) :
    le32 (v.extractLsb' 0 8) (v.extractLsb' 8 8) (v.extractLsb' 16 8) (v.extractLsb' 24 8) = v := by
  unfold le32; bits_tac

theorem le64_bytes64 (v : BitVec 64) :
    le64 (v.extractLsb' 0 8) (v.extractLsb' 8 8) (v.extractLsb' 16 8) (v.extractLsb' 24 8)
      (v.extractLsb' 32 8) (v.extractLsb' 40 8) (v.extractLsb' 48 8) (v.extractLsb' 56 8) = v := by
  unfold le64; bits_tac

theorem le32_lo (v : BitVec 64) :
    le32 (v.extractLsb' 0 8) (v.extractLsb' 8 8) (v.extractLsb' 16 8) (v.extractLsb' 24 8) = lo32 v := by
  unfold le32 lo32; bits_tac

theorem le32_hi (v : BitVec 64) :
    le32 (v.extractLsb' 32 8) (v.extractLsb' 40 8) (v.extractLsb' 48 8) (v.extractLsb' 56 8) = hi32 v := by
  unfold le32 hi32; bits_tac

theorem lanes64_unlanes64 (l : List (BitVec 64)) : lanes64 (unlanes64 l) = l := by
  induction l with
  | nil => rfl
  | cons v t ih =>
    have : unlanes64 (v :: t) = bytes64 v ++ unlanes64 t := by simp [unlanes64]
    rw [this]
    simp only [bytes64, List.cons_append, List.nil_append, lanes64, le64_bytes64, ih]

theorem lanes32_unlanes32 (l : List (BitVec 32)) : lanes32 (unlanes32 l) = l := by
  induction l with
  | nil => rfl
  | cons v t ih =>
    have : unlanes32 (v :: t) = bytes32 v ++ unlanes32 t := by simp [unlanes32]
    rw [this]
    simp only [bytes32, List.cons_append, List.nil_append, lanes32, le32_bytes32, ih]

/-- the eight dwords of a register given by its qwords: lo, hi, lo, hi, ... -/
theorem lanes32_unlanes64 (l : List (BitVec 64)) :
    lanes32 (unlanes64 l) = l.flatMap fun q => [lo32 q, hi32 q] := by
  induction l with
  | nil => rfl
  | cons v t ih =>
    have : unlanes64 (v :: t) = bytes64 v ++ unlanes64 t := by simp [unlanes64]
    rw [this]
    simp only [bytes64, List.cons_append, List.nil_append, lanes32, le32_lo, le32_hi, ih, List.flatMap_cons]

theorem bytes32_append (a b : BitVec 32) : bytes32 a ++ bytes32 b = bytes64 (b ++ a) := by
  simp only [bytes32, bytes64, List.cons_append, List.nil_append]
  simp only [List.cons.injEq, and_true]
  refine ⟨?_, ?_, ?_, ?_, ?_, ?_, ?_, ?_⟩ <;> bits_tac

/-- dword list (lo, hi, lo, hi, ...) back to qwords -/
theorem unlanes32_pairs (l : List (BitVec 32 × BitVec 32)) :
    unlanes32 (l.flatMap fun p => [p.1, p.2]) = unlanes64 (l.map fun p => p.2 ++ p.1) := by
  induction l with
  | nil => rfl
  | cons v t ih =>
    simp only [unlanes32, unlanes64, List.flatMap_cons, List.map_cons, List.flatMap_append, List.flatMap_nil,
      List.append_nil] at ih ⊢
    rw [ih, ← bytes32_append]

/-- 64-bit-lane operation on registers given by their qwords -/
theorem map2_64_unlanes (f : BitVec 64 → BitVec 64 → BitVec 64) (l1 l2 : List (BitVec 64)) :
    map2_64 f (unlanes64 l1) (unlanes64 l2) = unlanes64 (List.zipWith f l1 l2) := by
  simp only [map2_64, lanes64_unlanes64]

/-- `_mm256_add_epi32` seen on a qword: the two dwords are added separately, no carry from low to high -/
def add32x2 (p q : BitVec 64) : BitVec 64 := (hi32 p + hi32 q) ++ (lo32 p + lo32 q)

theorem zipWith_flatMap_pairs (f : BitVec 32 → BitVec 32 → BitVec 32) (l1 l2 : List (BitVec 64)) :
    List.zipWith f (l1.flatMap fun q => [lo32 q, hi32 q]) (l2.flatMap fun q => [lo32 q, hi32 q]) =
      (List.zipWith (fun p q => (f (lo32 p) (lo32 q), f (hi32 p) (hi32 q))) l1 l2).flatMap fun p => [p.1, p.2] := by
  induction l1 generalizing l2 with
  | nil => simp
  | cons a t ih =>
    cases l2 with
    | nil => simp
    | cons b u =>
      simp only [List.flatMap_cons, List.cons_append, List.nil_append, List.zipWith_cons_cons, ih]

theorem add_epi32_unlanes (l1 l2 : List (BitVec 64)) :
    add_epi32 (unlanes64 l1) (unlanes64 l2) = unlanes64 (List.zipWith add32x2 l1 l2) := by
  simp only [add_epi32, map2_32, lanes32_unlanes64, zipWith_flatMap_pairs, unlanes32_pairs, List.map_zipWith]
  rfl

theorem add_epi64_unlanes (l1 l2 : List (BitVec 64)) :
    add_epi64 (unlanes64 l1) (unlanes64 l2) = unlanes64 (List.zipWith (· + ·) l1 l2) := map2_64_unlanes _ _ _

theorem sub_epi64_unlanes (l1 l2 : List (BitVec 64)) :
    sub_epi64 (unlanes64 l1) (unlanes64 l2) = unlanes64 (List.zipWith (· - ·) l1 l2) := map2_64_unlanes _ _ _

theorem mul_epi32_unlanes (l1 l2 : List (BitVec 64)) :
    mul_epi32 (unlanes64 l1) (unlanes64 l2) = unlanes64 (List.zipWith mulLo32 l1 l2) := map2_64_unlanes _ _ _

/-- lines 1260+1262 (and 1261+1263, 1308+1310): load four int32 and sign-extend them to the four qword lanes -/
theorem cvt_load (m : Mem 32) (p : Nat) :
    mm256_cvtepi32_epi64 (loadU32 m p 4 16) =
      unlanes64 [sext64 (m p), sext64 (m (p + 1)), sext64 (m (p + 2)), sext64 (m (p + 3))] := by
  have h1 : loadU32 m p 4 16 = unlanes32 [m p, m (p + 1), m (p + 2), m (p + 3)] := by
    simp [loadU32, loadL, zeroReg, List.range, List.range.loop]
  have h2 : (unlanes32 [m p, m (p + 1), m (p + 2), m (p + 3)]).take 16 = unlanes32 [m p, m (p + 1), m (p + 2), m (p + 3)] := by
    simp [unlanes32, bytes32]
  rw [h1, mm256_cvtepi32_epi64, h2, lanes32_unlanes32]
  rfl

/-- the horizontal reduction, lines 1278-1282 / 1283-1287 / 1319-1323: both qwords of the result hold the total -/
theorem hsum_unlanes (q0 q1 q2 q3 : BitVec 64) :
    (let sum := unlanes64 [q0, q1, q2, q3]
     let temp1 := mm256_castsi256_si128 sum
     let temp2 := mm256_extracti128_si256 sum 1
     let temp1 := add_epi64 temp1 temp2
     let temp2 := mm_shuffle_epi32 temp1 0x4e
     add_epi64 temp1 temp2) = unlanes64 [(q0 + q2) + (q1 + q3), (q1 + q3) + (q0 + q2)] := by
  have c1 : mm256_castsi256_si128 (unlanes64 [q0, q1, q2, q3]) = unlanes64 [q0, q1] := by
    simp [mm256_castsi256_si128, unlanes64, bytes64]
  have c2 : mm256_extracti128_si256 (unlanes64 [q0, q1, q2, q3]) 1 = unlanes64 [q2, q3] := by
    simp [mm256_extracti128_si256, unlanes64, bytes64]
  have c3 : ∀ a b : BitVec 64, mm_shuffle_epi32 (unlanes64 [a, b]) 0x4e = unlanes64 [b, a] := by
    intro a b
    simp [mm_shuffle_epi32, dword, unlanes64, bytes64]
  simp only [c1, c2, add_epi64_unlanes, List.zipWith_cons_cons, List.zipWith_nil_right, c3]

theorem unpacklo_unlanes (a b c d : BitVec 64) :
    mm_unpacklo_epi64 (unlanes64 [a, b]) (unlanes64 [c, d]) = unlanes64 [a, c] := by
  simp [mm_unpacklo_epi64, qword, unlanes64, bytes64]

theorem storeU64_pair (a b : BitVec 64) :
    (storeU64 (fun _ => 0) 0 (unlanes64 [a, b]) 2) 0 = a ∧ (storeU64 (fun _ => 0) 0 (unlanes64 [a, b]) 2) 1 = b := by
  simp [storeU64, lanes64_unlanes64, storeL]

end Simd
