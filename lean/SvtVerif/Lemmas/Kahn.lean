/-
  C04 / C27 (part A) — the Kahn-network argument, machine-checked over the abstract stage network of
  `Model/Kahn.lean`: for a prefix-monotone network (hypothesis H-kahn / H-footprint, explicit and NOT
  discharged here) the channel histories of every completed run are the same, whatever the thread
  interleaving, the application's pacing of `send_picture` / `get_packet` calls, and the queue capacities.
-/
import SvtVerif.Model.Kahn

namespace Kahn

variable {M : Type} {N : Net M} {s : State M}

/-! ### small list / update facts -/

theorem upd_same {α : Type} (f : Nat → α) (c : Nat) (v : α) : upd f c v c = v := by
  unfold upd; rw [if_pos rfl]

theorem upd_ne {α : Type} (f : Nat → α) {c c' : Nat} (v : α) (h : c' ≠ c) : upd f c v c' = f c' := by
  unfold upd; rw [if_neg h]

theorem seen_prefix_hist (s : State M) (c : Nat) : seen s c <+: s.hist c := List.take_prefix _ _

theorem take_take_succ_of_prefix {l out : List M} {n : Nat} (hp : l <+: out) (hn : n ≤ l.length) :
    (out.take (l.length + 1)).take n = l.take n := by
  obtain ⟨t, rfl⟩ := hp
  rw [List.take_take, Nat.min_eq_left (by omega), List.take_append_of_le_length hn]

theorem take_succ_append_cons (l : List M) (x : M) (t : List M) :
    (l ++ x :: t).take (l.length + 1) = l ++ [x] := by
  induction l with
  | nil => rfl
  | cons a l ih => simp only [List.cons_append, List.length_cons, List.take_succ_cons, ih]

/-- A `write c` step appends exactly one message (the next element of `F c (seen s)`) to `hist c`. -/
theorem write_appends {c : Nat} (h : DataEnabled N s c) :
    ∃ x, (fire N s (.write c)).hist c = s.hist c ++ [x] := by
  obtain ⟨⟨t, ht⟩, hlen⟩ := h
  cases t with
  | nil =>
    rw [← ht, List.append_nil] at hlen
    omega
  | cons x t =>
    refine ⟨x, ?_⟩
    show upd s.hist c ((N.F c (seen s)).take ((s.hist c).length + 1)) c = s.hist c ++ [x]
    rw [upd_same, ← ht, take_succ_append_cons]

/-- A `write` does not change what the stages have seen. -/
theorem seen_write {c : Nat} (hrd : s.rd c ≤ (s.hist c).length) (hp : s.hist c <+: N.F c (seen s)) :
    seen (fire N s (.write c)) = seen s := by
  funext c'
  by_cases h : c' = c
  · rw [h]
    show (upd s.hist c ((N.F c (seen s)).take ((s.hist c).length + 1)) c).take (s.rd c)
      = (s.hist c).take (s.rd c)
    rw [upd_same]
    exact take_take_succ_of_prefix hp hrd
  · show (upd s.hist c ((N.F c (seen s)).take ((s.hist c).length + 1)) c').take (s.rd c')
      = (s.hist c').take (s.rd c')
    rw [upd_ne _ _ h]

/-- A `read` only extends what the stages have seen. -/
theorem seen_read_le (N : Net M) (s : State M) (c : Nat) :
    ∀ c', seen s c' <+: seen (fire N s (.read c)) c' := by
  intro c'
  by_cases h : c' = c
  · rw [h]
    show (s.hist c).take (s.rd c) <+: (s.hist c).take (upd s.rd c (s.rd c + 1) c)
    rw [upd_same]
    exact List.take_prefix_take_left (Nat.le_succ _)
  · show (s.hist c').take (s.rd c') <+: (s.hist c').take (upd s.rd c (s.rd c + 1) c')
    rw [upd_ne _ _ h]
    exact List.prefix_refl _

/-! ### K1: safety invariant -/

structure Inv (N : Net M) (s : State M) : Prop where
  rd_le : ∀ c, s.rd c ≤ (s.hist c).length
  hist_le : ∀ c, s.hist c <+: N.F c (seen s)

theorem inv_init : Inv N (init : State M) :=
  ⟨fun _ => Nat.le_refl _, fun _ => List.nil_prefix⟩

theorem inv_step (hm : N.Monotone) (hinv : Inv N s) {op : Op} (he : Enabled N s op) :
    Inv N (fire N s op) := by
  cases op with
  | write c =>
    obtain ⟨⟨hp, hlen⟩, _⟩ := he
    have hseen := seen_write (hinv.rd_le c) hp
    refine ⟨fun c' => ?_, fun c' => ?_⟩
    · show s.rd c' ≤ (upd s.hist c ((N.F c (seen s)).take ((s.hist c).length + 1)) c').length
      by_cases h : c' = c
      · rw [h, upd_same, List.length_take]
        have := hinv.rd_le c
        omega
      · rw [upd_ne _ _ h]; exact hinv.rd_le c'
    · rw [hseen]
      show upd s.hist c ((N.F c (seen s)).take ((s.hist c).length + 1)) c' <+: N.F c' (seen s)
      by_cases h : c' = c
      · rw [h, upd_same]; exact List.take_prefix _ _
      · rw [upd_ne _ _ h]; exact hinv.hist_le c'
  | read c =>
    have hle := seen_read_le N s c
    refine ⟨fun c' => ?_, fun c' => (hinv.hist_le c').trans (hm c' _ _ hle)⟩
    show upd s.rd c (s.rd c + 1) c' ≤ (s.hist c').length
    by_cases h : c' = c
    · rw [h, upd_same]; exact he
    · rw [upd_ne _ _ h]; exact hinv.rd_le c'

theorem inv_of_reachable (hm : N.Monotone) (hr : Reachable N s) : Inv N s := by
  induction hr with
  | init => exact inv_init
  | step op _ he ih => exact inv_step hm ih he

/-- **K1 (safety).**  In every reachable state (any interleaving, any pacing, any capacities): a consumer
    never reads past what was written; everything written on `c` is a prefix of what `c`'s producer is
    entitled to write given what the stages have consumed so far; hence also a prefix of what it is entitled
    to write given everything written so far.  No stage ever has to retract a message. -/
theorem safety_inv (hm : N.Monotone) (hr : Reachable N s) :
    (∀ c, s.rd c ≤ (s.hist c).length) ∧ (∀ c, s.hist c <+: N.F c (seen s)) ∧
      (∀ c, s.hist c <+: N.F c s.hist) := by
  have hinv := inv_of_reachable hm hr
  exact ⟨hinv.rd_le, hinv.hist_le,
    fun c => (hinv.hist_le c).trans (hm c _ _ (seen_prefix_hist s))⟩

/-! ### K2: every reachable state is below every fixpoint -/

/-- **K2.**  If `H` solves the full-history equations `H c = F c H` (e.g. the histories of a completed
    run), then under every schedule every channel history is always a prefix of `H c`. -/
theorem below_fixpoint (hm : N.Monotone) {H : Hist M} (hH : ∀ c, H c = N.F c H)
    (hr : Reachable N s) : ∀ c, s.hist c <+: H c := by
  induction hr with
  | init => intro c; exact List.nil_prefix
  | @step s' op _ he ih =>
    cases op with
    | write c =>
      intro c'
      show upd s'.hist c ((N.F c (seen s')).take ((s'.hist c).length + 1)) c' <+: H c'
      by_cases h : c' = c
      · rw [h, upd_same, hH c]
        exact (List.take_prefix _ _).trans
          (hm c _ _ (fun c'' => (seen_prefix_hist s' c'').trans (ih c'')))
      · rw [upd_ne _ _ h]; exact ih c'
    | read c => exact ih

/-! ### K3: the result is a function of the network functions (i.e. of the inputs) alone -/

/-- Every state reached by any schedule of a net with the same stage functions (capacities may differ) is
    channel-wise a prefix of the histories of any completed run. -/
theorem prefix_of_result {N₁ N₂ : Net M} (hm : N₁.Monotone) (hF : N₁.F = N₂.F) {s r : State M}
    (hs : Reachable N₁ s) (hc : Complete N₂ r) : ∀ c, s.hist c <+: r.hist c :=
  below_fixpoint hm (H := r.hist) (fun c => by rw [hF]; exact hc c) hs

/-- **K3 (determinism of the encoder network).**  Two completed runs of a prefix-monotone network — reached
    by ANY two schedules (thread interleavings), ANY pacing of the application's send / poll calls, and even
    two DIFFERENT capacity assignments (pool sizes) — have identical message sequences on every channel.  The
    output sequences are a function of the stage functions and the input sequence alone. -/
theorem network_output_deterministic {N₁ N₂ : Net M} (hm : N₁.Monotone) (hF : N₁.F = N₂.F)
    {s₁ s₂ : State M} (h₁ : Reachable N₁ s₁) (h₂ : Reachable N₂ s₂)
    (c₁ : Complete N₁ s₁) (c₂ : Complete N₂ s₂) : s₁.hist = s₂.hist := by
  have hm₂ : N₂.Monotone := by
    intro c h h' hh
    rw [← hF]; exact hm c h h' hh
  funext c
  have p₁ := prefix_of_result hm hF h₁ c₂ c
  have p₂ := prefix_of_result hm₂ hF.symm h₂ c₁ c
  exact p₁.eq_of_length (Nat.le_antisymm p₁.length_le p₂.length_le)

/-! ### K4: quiescent / terminal states are complete -/

theorem seen_eq_hist_of_all_read (h : ∀ c, s.rd c = (s.hist c).length) : seen s = s.hist := by
  funext c
  show (s.hist c).take (s.rd c) = s.hist c
  rw [h c, List.take_length]

/-- **K4.**  A reachable state in which everything written has been read and no producer has more data to
    write is `Complete`. -/
theorem quiescent_complete (hm : N.Monotone) (hr : Reachable N s)
    (hread : ∀ c, s.rd c = (s.hist c).length) (hq : ∀ c, ¬ DataEnabled N s c) : Complete N s := by
  have hinv := inv_of_reachable hm hr
  have hs := seen_eq_hist_of_all_read hread
  intro c
  have hp := hinv.hist_le c
  apply Classical.byContradiction
  intro hne
  apply hq c
  refine ⟨hp, ?_⟩
  have hle := hp.length_le
  rcases Nat.lt_or_ge (s.hist c).length (N.F c (seen s)).length with h | h
  · exact h
  · have e : s.hist c = N.F c (seen s) := hp.eq_of_length (Nat.le_antisymm hle h)
    rw [hs] at e
    exact absurd e hne

/-- **K4' (any fair interleaving ends Complete).**  If every capacity is positive, a reachable state in
    which NO step at all is enabled (a maximal = fair finite run has ended) is `Complete`: all reads being
    disabled means every queue is drained, so no write is blocked by back-pressure, so every write being
    disabled means no producer has data left.  (In this model a consumer takes messages as soon as they are
    available; deadlock-freedom under real finite stage buffers is the subject of `Chain`.) -/
theorem terminal_complete (hm : N.Monotone) (hcap : ∀ c, 0 < N.cap c) (hr : Reachable N s)
    (hstuck : ∀ op, ¬ Enabled N s op) : Complete N s := by
  have hinv := inv_of_reachable hm hr
  have hread : ∀ c, s.rd c = (s.hist c).length := fun c => by
    have h1 := hinv.rd_le c
    have h2 : ¬ s.rd c < (s.hist c).length := hstuck (.read c)
    omega
  refine quiescent_complete hm hr hread (fun c hd => hstuck (.write c) ⟨hd, ?_⟩)
  have := hread c
  have := hcap c
  omega

/-- **C04/C27 headline.**  For a prefix-monotone network with positive capacities, any two maximal runs
    (runs that ended because nothing was enabled any more), under any two schedules and any two capacity
    assignments, end with identical histories on every channel. -/
theorem maximal_runs_agree {N₁ N₂ : Net M} (hm : N₁.Monotone) (hF : N₁.F = N₂.F)
    (hcap₁ : ∀ c, 0 < N₁.cap c) (hcap₂ : ∀ c, 0 < N₂.cap c) {s₁ s₂ : State M}
    (h₁ : Reachable N₁ s₁) (h₂ : Reachable N₂ s₂)
    (t₁ : ∀ op, ¬ Enabled N₁ s₁ op) (t₂ : ∀ op, ¬ Enabled N₂ s₂ op) : s₁.hist = s₂.hist := by
  have hm₂ : N₂.Monotone := by
    intro c h h' hh
    rw [← hF]; exact hm c h h' hh
  exact network_output_deterministic hm hF h₁ h₂ (terminal_complete hm hcap₁ h₁ t₁)
    (terminal_complete hm₂ hcap₂ h₂ t₂)

/-! ### K5: application-facing reading -/

/-- **K5 (output does not depend on how the application paces its calls).**  `ins` = the input channels
    (written by `svt_av1_enc_send_picture`; their `F` is the constant input sequence `inp c`), `outs` = the
    application-facing output channels (read by `svt_av1_enc_get_packet` / `get_recon`).  Two runs of
    networks with the same stage functions and the same input sequences that both completed deliver the same
    message sequence on every output channel — regardless of how `write` steps on `ins` (submission pacing),
    `read` steps on `outs` (polling pattern) and all internal steps (thread scheduling) were interleaved, and
    regardless of the pool sizes `cap`. -/
theorem output_indep_of_polling {N₁ N₂ : Net M} (ins outs : Nat → Prop) (inp : Nat → List M)
    (hm : N₁.Monotone)
    (hin₁ : ∀ c, ins c → ∀ h, N₁.F c h = inp c) (hin₂ : ∀ c, ins c → ∀ h, N₂.F c h = inp c)
    (hstage : ∀ c, ¬ ins c → N₁.F c = N₂.F c)
    {s₁ s₂ : State M} (h₁ : Reachable N₁ s₁) (h₂ : Reachable N₂ s₂)
    (c₁ : Complete N₁ s₁) (c₂ : Complete N₂ s₂) :
    ∀ c, outs c → s₁.hist c = s₂.hist c := by
  have hF : N₁.F = N₂.F := by
    funext c
    by_cases hc : ins c
    · funext h; rw [hin₁ c hc, hin₂ c hc]
    · exact hstage c hc
  intro c _
  rw [network_output_deterministic hm hF h₁ h₂ c₁ c₂]

/-! ### channels that never carry anything -/

theorem hist_nil_of_F_nil {c : Nat} (hF : ∀ h, N.F c h = []) (hr : Reachable N s) : s.hist c = [] := by
  induction hr with
  | init => rfl
  | @step s' op _ he ih =>
    cases op with
    | write c₀ =>
      show upd s'.hist c₀ ((N.F c₀ (seen s')).take ((s'.hist c₀).length + 1)) c = []
      by_cases h : c = c₀
      · rw [← h, upd_same, hF, List.take_nil]
      · rw [upd_ne _ _ h]; exact ih
    | read c₀ => exact ih

/-- For a network with finitely many live channels, completeness on those is completeness. -/
theorem complete_of_below {n : Nat} (hF : ∀ c, n ≤ c → ∀ h, N.F c h = []) (hr : Reachable N s)
    (hb : CompleteBelow N n s) : Complete N s := by
  intro c
  by_cases h : c < n
  · exact hb c h
  · rw [hist_nil_of_F_nil (hF c (by omega)) hr, hF c (by omega)]

/-! ### executable runs -/

section Exec
variable [DecidableEq M]

theorem run_reachable {s s' : State M} {ops : List Op} (hr : Reachable N s)
    (h : run N s ops = some s') : Reachable N s' := by
  induction ops generalizing s with
  | nil => simp only [run, Option.some.injEq] at h; exact h ▸ hr
  | cons op ops ih =>
    simp only [run, step] at h
    by_cases he : Enabled N s op
    · rw [if_pos he] at h; exact ih (Reachable.step op hr he) h
    · rw [if_neg he] at h; exact absurd h (by simp)

theorem run_append (N : Net M) (s : State M) (a b : List Op) :
    run N s (a ++ b) = (run N s a).bind (fun s' => run N s' b) := by
  induction a generalizing s with
  | nil => rfl
  | cons op a ih =>
    simp only [List.cons_append, run]
    cases step N s op with
    | none => rfl
    | some s' => exact ih s'

/-- `Reachable` = "reached by some schedule `ops`". -/
theorem reachable_iff_run : Reachable N s ↔ ∃ ops, run N init ops = some s := by
  constructor
  · intro hr
    induction hr with
    | init => exact ⟨[], rfl⟩
    | @step s' op _ he ih =>
      obtain ⟨ops, h⟩ := ih
      refine ⟨ops ++ [op], ?_⟩
      rw [run_append, h]
      simp only [Option.bind_some, run, step, if_pos he]
  · rintro ⟨ops, h⟩
    exact run_reachable Reachable.init h

/-- K3 phrased over schedules: two schedules `ops₁`, `ops₂` (thread interleaving + application pacing) that
    both run to completion yield the same histories. -/
theorem run_output_deterministic {N₁ N₂ : Net M} (hm : N₁.Monotone) (hF : N₁.F = N₂.F)
    {ops₁ ops₂ : List Op} {s₁ s₂ : State M}
    (h₁ : run N₁ init ops₁ = some s₁) (h₂ : run N₂ init ops₂ = some s₂)
    (c₁ : Complete N₁ s₁) (c₂ : Complete N₂ s₂) : s₁.hist = s₂.hist :=
  network_output_deterministic hm hF (run_reachable Reachable.init h₁)
    (run_reachable Reachable.init h₂) c₁ c₂

theorem exists_of_run_summary {ops : List Op} {n : Nat} {b q : Bool} {hs : List (List M)}
    (h : (run N init ops).map (summary N n) = some (b, q, hs)) :
    ∃ s, Reachable N s ∧ (b = true → CompleteBelow N n s) ∧ (q = true → QuiescentBelow N n s) ∧
      (List.range n).map s.hist = hs := by
  cases hrun : run N init ops with
  | none => rw [hrun] at h; exact absurd h (by simp)
  | some s =>
    rw [hrun] at h
    simp only [Option.map_some, Option.some.injEq, summary, Prod.mk.injEq] at h
    obtain ⟨hb, hq, hh⟩ := h
    refine ⟨s, run_reachable Reachable.init hrun, ?_, ?_, hh⟩
    · intro hbt; rw [hbt] at hb; exact of_decide_eq_true hb
    · intro hqt; rw [hqt] at hq; exact of_decide_eq_true hq

end Exec

/-! ### Non-vacuity: a concrete monotone pipeline -/

theorem scan_prefix {l l' : List Nat} (a : Nat) (h : l <+: l') : scan a l <+: scan a l' := by
  obtain ⟨t, rfl⟩ := h
  induction l generalizing a with
  | nil => exact List.nil_prefix
  | cons x xs ih =>
    simp only [List.cons_append, scan]
    exact List.cons_prefix_cons.2 ⟨rfl, ih _⟩

/-- The concrete pipeline satisfies hypothesis H-kahn. -/
theorem pipe_monotone (inp : List Nat) (cap : Nat) : (pipe inp cap).Monotone := by
  intro c h h' hh
  match c with
  | 0 => exact List.prefix_refl _
  | 1 => exact (hh 0).map _
  | 2 => exact scan_prefix _ (hh 1)
  | n + 3 => exact List.prefix_refl _

theorem pipe_F_ge (inp : List Nat) (cap : Nat) (c : Nat) (hc : 3 ≤ c) (h : Hist Nat) :
    (pipe inp cap).F c h = [] := by
  obtain ⟨n, rfl⟩ : ∃ n, c = n + 3 := ⟨c - 3, by omega⟩
  rfl

def w (c : Nat) : Op := .write c
def r (c : Nat) : Op := .read c

/-- Schedule A: capacity 1, strict lock-step. -/
def schedA : List Op :=
  [w 0, r 0, w 1, r 1, w 2, r 2, w 0, r 0, w 1, r 1, w 2, r 2, w 0, r 0, w 1, r 1, w 2, r 2]
/-- Schedule B: capacity 3, the application submits everything first, each stage runs to completion. -/
def schedB : List Op :=
  [w 0, w 0, w 0, r 0, r 0, r 0, w 1, w 1, w 1, r 1, r 1, r 1, w 2, w 2, w 2, r 2, r 2, r 2]
/-- Schedule C: capacity 2, interleaved, lazy polling of the output. -/
def schedC : List Op :=
  [w 0, w 0, r 0, w 1, r 0, w 1, r 1, w 0, w 2, r 1, w 2, r 2, r 0, w 1, r 1, w 2, r 2, r 2]

theorem pipe_schedA : (run (pipe [1, 2, 3] 1) init schedA).map (summary (pipe [1, 2, 3] 1) 3)
    = some (true, true, [[1, 2, 3], [2, 4, 6], [2, 6, 12]]) := by decide
theorem pipe_schedB : (run (pipe [1, 2, 3] 3) init schedB).map (summary (pipe [1, 2, 3] 3) 3)
    = some (true, true, [[1, 2, 3], [2, 4, 6], [2, 6, 12]]) := by decide
theorem pipe_schedC : (run (pipe [1, 2, 3] 2) init schedC).map (summary (pipe [1, 2, 3] 2) 3)
    = some (true, true, [[1, 2, 3], [2, 4, 6], [2, 6, 12]]) := by decide

/-- Back-pressure: with capacity 1 a second submission before the first was consumed is not enabled. -/
example : (run (pipe [1, 2, 3] 1) init [w 0, w 0]).isSome = false := by decide
/-- A partial run is not complete (and is a channel-wise prefix of the result, cf. `prefix_of_result`). -/
example : (run (pipe [1, 2, 3] 2) init [w 0, w 0, r 0, w 1]).map (summary (pipe [1, 2, 3] 2) 3)
    = some (false, false, [[1, 2], [2], []]) := by decide

/-- Non-vacuity of K3: two different schedules under two different capacities are reachable, complete, and
    (as K3 says they must) agree. -/
theorem pipe_nonvacuous :
    ∃ s₁ s₂, Reachable (pipe [1, 2, 3] 1) s₁ ∧ Reachable (pipe [1, 2, 3] 3) s₂ ∧
      Complete (pipe [1, 2, 3] 1) s₁ ∧ Complete (pipe [1, 2, 3] 3) s₂ ∧ s₁.hist = s₂.hist := by
  obtain ⟨s₁, r₁, b₁, -, -⟩ := exists_of_run_summary pipe_schedA
  obtain ⟨s₂, r₂, b₂, -, -⟩ := exists_of_run_summary pipe_schedB
  have c₁ := complete_of_below (pipe_F_ge _ _) r₁ (b₁ rfl)
  have c₂ := complete_of_below (pipe_F_ge _ _) r₂ (b₂ rfl)
  exact ⟨s₁, s₂, r₁, r₂, c₁, c₂,
    network_output_deterministic (N₁ := pipe [1, 2, 3] 1) (N₂ := pipe [1, 2, 3] 3)
      (pipe_monotone _ _) rfl r₁ r₂ c₁ c₂⟩

/-! ### NEGATIVE: the Monotone hypothesis is needed -/

/-- The emptiness-testing stage is not prefix-monotone. -/
theorem racy_not_monotone : ¬ racy.Monotone := by
  intro hm
  have h := hm 1 (fun _ => []) (fun c => if c = 0 then [5] else []) (fun _ => List.nil_prefix)
  exact absurd h (by decide)

/-- Schedule "input first": the stage sees its input and emits 7; the run ends quiescent and complete. -/
theorem racy_sched1 : (run racy init [w 0, r 0, w 1, r 1]).map (summary racy 2)
    = some (true, true, [[5], [7]]) := by decide
/-- Schedule "stage first": the stage runs before the input arrived and emits 8; the run ends quiescent
    (nothing enabled on the live channels) with a DIFFERENT output. -/
theorem racy_sched2 : (run racy init [w 1, w 0, r 0, r 1]).map (summary racy 2)
    = some (false, true, [[5], [8]]) := by decide

theorem latch_sched1 : (run latch init [w 0, r 0, w 1, r 1]).map (summary latch 2)
    = some (true, true, [[5], [7]]) := by decide
theorem latch_sched2 : (run latch init [w 1, r 1, w 0, r 0]).map (summary latch 2)
    = some (true, true, [[5], [8]]) := by decide

theorem latch_F_ge (c : Nat) (hc : 2 ≤ c) (h : Hist Nat) : latch.F c h = [] := by
  obtain ⟨n, rfl⟩ : ∃ n, c = n + 2 := ⟨c - 2, by omega⟩
  rfl

/-- **The Monotone hypothesis of K3 is necessary**: there is a (non-monotone) network with two schedules
    that both reach `Complete` states with different output on channel 1. -/
theorem monotone_needed :
    ∃ (N : Net Nat) (s₁ s₂ : State Nat), Reachable N s₁ ∧ Reachable N s₂ ∧ Complete N s₁ ∧
      Complete N s₂ ∧ s₁.hist 1 ≠ s₂.hist 1 := by
  obtain ⟨s₁, r₁, b₁, -, e₁⟩ := exists_of_run_summary latch_sched1
  obtain ⟨s₂, r₂, b₂, -, e₂⟩ := exists_of_run_summary latch_sched2
  have c₁ := complete_of_below latch_F_ge r₁ (b₁ rfl)
  have c₂ := complete_of_below latch_F_ge r₂ (b₂ rfl)
  refine ⟨latch, s₁, s₂, r₁, r₂, c₁, c₂, ?_⟩
  have f₁ : [s₁.hist 0, s₁.hist 1] = [[5], [7]] := e₁
  have f₂ : [s₂.hist 0, s₂.hist 1] = [[5], [8]] := e₂
  simp only [List.cons.injEq, and_true] at f₁ f₂
  rw [f₁.2, f₂.2]
  decide

section AxiomCheck
end AxiomCheck

end Kahn
