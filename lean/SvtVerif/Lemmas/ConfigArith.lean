/- Arithmetic behind the formerly code-defined rules of C12: the generated helper terms (effective frame rate, default intra
   period, default/capped look-ahead, HME sums, the manual-prediction-structure loop) equal the hand-written definitions of
   Spec/ConfigDomain.lean. -/
import SvtVerif.Spec.ConfigDomain
import SvtVerif.Lemmas.Bits
import Mathlib.Tactic.Linarith
import Mathlib.Tactic.Tauto
import Mathlib.Tactic.NormNum
import Mathlib.Tactic.IntervalCases
namespace Lemmas.Config
open Gen.Config CSem Spec.ConfigDomain
set_option linter.unusedVariables false
set_option linter.unusedSimpArgs false
set_option linter.unusedTactic false
set_option linter.unreachableTactic false

theorem wrapU32_eq (x : Int) : wrapU 32 x = u32 x := by simp [wrapU, u32]
theorem wrapS32_eq (x : Int) : wrapS 32 x = i32 x := by
  unfold wrapS i32
  rw [BitVec.toInt_ofInt]
  unfold Int.bmod
  norm_num
theorem u32_of_range (x : Int) (h0 : 0 ≤ x) (h1 : x < 4294967296) : u32 x = x := by
  unfold u32; omega
theorem i32_of_range (x : Int) (h0 : -2147483648 ≤ x) (h1 : x < 2147483648) : i32 x = x := by
  unfold i32; split_ifs <;> omega
theorem u32_i32 (x : Int) : u32 (i32 x) = u32 x := by
  unfold u32 i32; split_ifs <;> omega
theorem cdiv_nonneg (a b : Int) (ha : 0 ≤ a) : cdiv a b = a / b := by
  unfold cdiv; exact Int.tdiv_eq_ediv_of_nonneg ha

theorem u32_range (x : Int) : 0 ≤ u32 x ∧ u32 x < 4294967296 := by unfold u32; omega

/-- the generated effective frame rate is the specified one -/
theorem gen_frameRate (c : Cfg) (hc : c.WellTyped) :
    (if ((c.frame_rate_numerator != (0 : Int)) && (c.frame_rate_denominator != (0 : Int))) then (CSem.wrapU 32 ((CSem.wrapU 32 (CSem.cdiv (CSem.wrapU 32 (c.frame_rate_numerator * 2 ^ ((8 : Int)).toNat)) c.frame_rate_denominator)) * 2 ^ ((8 : Int)).toNat)) else c.frame_rate)
      = frameRate c := by
  unfold frameRate
  have hd := hc.frame_rate_denominator
  by_cases h : c.frame_rate_numerator ≠ 0 ∧ c.frame_rate_denominator ≠ 0
  · have h1 : ((c.frame_rate_numerator != (0 : Int)) && (c.frame_rate_denominator != (0 : Int))) = true := by simp [h.1, h.2]
    rw [if_pos h1, if_pos h]
    have e8 : (2 : Int) ^ ((8 : Int)).toNat = 256 := by decide
    rw [e8, wrapU32_eq, wrapU32_eq, wrapU32_eq, cdiv_nonneg _ _ (u32_range _).1]
    congr 2
    apply u32_of_range
    · exact Int.ediv_nonneg (u32_range _).1 hd.1
    · have := (u32_range (c.frame_rate_numerator * 256))
      have hpos : 0 < c.frame_rate_denominator := by omega
      calc u32 (c.frame_rate_numerator * 256) / c.frame_rate_denominator ≤ u32 (c.frame_rate_numerator * 256) :=
            Int.ediv_le_self _ this.1
        _ < 4294967296 := this.2
  · have h1 : ((c.frame_rate_numerator != (0 : Int)) && (c.frame_rate_denominator != (0 : Int))) = false := by
      by_contra hh; simp at hh; exact h ⟨by simpa using hh.1, by simpa using hh.2⟩
    rw [h1, if_neg h]; simp

theorem frameRate_range (c : Cfg) (hc : c.WellTyped) : 0 ≤ frameRate c ∧ frameRate c < 4294967296 := by
  unfold frameRate; split_ifs
  · exact u32_range _
  · have := hc.frame_rate; omega
theorem fpsOf_range (fr : Int) (h : 0 ≤ fr ∧ fr < 4294967296) : 0 ≤ fpsOf fr ∧ fpsOf fr < 65536 := by
  unfold fpsOf; split_ifs <;> omega

theorem gen_fps (fr : Int) : (if (decide (fr < (1000 : Int))) then fr else (CSem.shr fr (16 : Int))) = fpsOf fr := by
  unfold fpsOf shr
  have : (2 : Int) ^ ((16 : Int)).toNat = 65536 := by decide
  rw [this]; by_cases h : fr < 1000 <;> simp [h]

theorem shl1_small (hl : Int) (h0 : 0 ≤ hl) (h : hl ≤ 30) : wrapS 32 (shlRaw 1 hl) = 2 ^ hl.toNat := by
  rw [Bits.shlRaw_wrapS 32 (by decide), Int.one_mul]
  apply Bits.wrapS32_id
  · have : (0:Int) < 2 ^ hl.toNat := by positivity
    omega
  · have : hl.toNat ≤ 30 := by omega
    calc (2:Int) ^ hl.toNat ≤ 2 ^ 30 := by exact_mod_cast Nat.pow_le_pow_right (by decide) this
      _ < 2 ^ 31 := by decide

theorem pow_small (hl : Int) (h0 : 0 ≤ hl) (h : hl ≤ 30) : (1:Int) ≤ 2 ^ hl.toNat ∧ (2:Int) ^ hl.toNat ≤ 1073741824 := by
  constructor
  · have : (0:Int) < 2 ^ hl.toNat := by positivity
    omega
  · have : hl.toNat ≤ 30 := by omega
    calc (2:Int) ^ hl.toNat ≤ 2 ^ 30 := by exact_mod_cast Nat.pow_le_pow_right (by decide) this
      _ = 1073741824 := by decide

/-- clean branch: no `int` operation of compute_default_intra_period wraps when the mini-GOP is at most 2^30 -/
theorem dip_small (fps m rt : Int) (hf : 0 ≤ fps ∧ fps < 65536) (hm : 1 ≤ m ∧ m ≤ 1073741824) :
    (let min_ip : Int := (CSem.wrapS 32 ((CSem.wrapS 32 (CSem.cdiv fps m)) * m))
     let max_ip : Int := (CSem.wrapS 32 ((CSem.wrapS 32 (CSem.cdiv (CSem.wrapS 32 (fps + m)) m)) * m))
     let intra_period : Int := (if (decide ((if (decide ((CSem.wrapS 32 (fps - max_ip)) < (0 : Int))) then (CSem.wrapS 32 (- (CSem.wrapS 32 (fps - max_ip)))) else (CSem.wrapS 32 (fps - max_ip))) > (if (decide ((CSem.wrapS 32 (fps - min_ip)) < (0 : Int))) then (CSem.wrapS 32 (- (CSem.wrapS 32 (fps - min_ip)))) else (CSem.wrapS 32 (fps - min_ip))))) then min_ip else max_ip)
     (if (rt == (1 : Int)) then (CSem.wrapS 32 (intra_period - (1 : Int))) else intra_period))
    = (let lo := fps / m * m
       let hi := lo + m
       (if hi - fps > fps - lo then lo else hi) - (if rt = 1 then 1 else 0)) := by
  have hq0 : 0 ≤ fps / m := Int.ediv_nonneg hf.1 (by omega)
  have hlo1 : fps / m * m ≤ fps := Int.ediv_mul_le _ (by omega)
  have hlo2 : fps < fps / m * m + m := by
    have := Int.lt_ediv_add_one_mul_self fps (show 0 < m by omega)
    linarith
  have hqle : fps / m ≤ fps := Int.ediv_le_self _ hf.1
  have hlo0 : 0 ≤ fps / m * m := Int.mul_nonneg hq0 (by omega)
  have e1 : CSem.cdiv fps m = fps / m := cdiv_nonneg _ _ hf.1
  have e2 : CSem.wrapS 32 (fps / m) = fps / m := Bits.wrapS32_id _ (by omega) (by omega)
  have e3 : CSem.wrapS 32 (fps / m * m) = fps / m * m := Bits.wrapS32_id _ (by omega) (by omega)
  have e4 : CSem.wrapS 32 (fps + m) = fps + m := Bits.wrapS32_id _ (by omega) (by omega)
  have e5 : CSem.cdiv (fps + m) m = fps / m + 1 := by
    rw [cdiv_nonneg _ _ (by omega)]
    have := Int.add_mul_ediv_right fps 1 (show m ≠ 0 by omega)
    rw [Int.one_mul] at this; exact this
  have e6 : CSem.wrapS 32 (fps / m + 1) = fps / m + 1 := Bits.wrapS32_id _ (by omega) (by omega)
  have e7 : (fps / m + 1) * m = fps / m * m + m := by ring
  have e8 : CSem.wrapS 32 (fps / m * m + m) = fps / m * m + m := Bits.wrapS32_id _ (by omega) (by omega)
  simp only [e1, e2, e3, e4, e5, e6, e7, e8]
  generalize fps / m * m = lo at *
  have a1 : CSem.wrapS 32 (fps - (lo + m)) = fps - (lo + m) := Bits.wrapS32_id _ (by omega) (by omega)
  have a2 : CSem.wrapS 32 (fps - lo) = fps - lo := Bits.wrapS32_id _ (by omega) (by omega)
  have a3 : CSem.wrapS 32 (-(fps - (lo + m))) = -(fps - (lo + m)) := Bits.wrapS32_id _ (by omega) (by omega)
  have a4 : CSem.wrapS 32 (-(fps - lo)) = -(fps - lo) := Bits.wrapS32_id _ (by omega) (by omega)
  have a5 : CSem.wrapS 32 (lo - 1) = lo - 1 := Bits.wrapS32_id _ (by omega) (by omega)
  have a6 : CSem.wrapS 32 (lo + m - 1) = lo + m - 1 := Bits.wrapS32_id _ (by omega) (by omega)
  simp only [a1, a2, a3, a4]
  have n1 : decide (fps - (lo + m) < 0) = true := by simp; omega
  have n2 : decide (fps - lo < 0) = false := by simp; omega
  simp only [n1, n2, if_true, Bool.false_eq_true, if_false]
  by_cases hc : lo + m - fps > fps - lo
  · have : decide (-(fps - (lo + m)) > fps - lo) = true := by simp; omega
    simp only [this, if_true, hc, a5]
    by_cases hr : rt = 1 <;> simp [hr]
  · have : decide (-(fps - (lo + m)) > fps - lo) = false := by simp; omega
    simp only [this, Bool.false_eq_true, if_false, hc, a6]
    by_cases hr : rt = 1 <;> simp [hr]

theorem i32_emod_congr (x y : Int) (h : x % 4294967296 = y % 4294967296) : i32 x = i32 y := by
  unfold i32; rw [h]

theorem i32_range (x : Int) : -2147483648 ≤ i32 x ∧ i32 x < 2147483648 := by
  unfold i32; split_ifs <;> omega
theorem i32_idem (x : Int) : i32 (i32 x) = i32 x := i32_of_range _ (i32_range x).1 (i32_range x).2

theorem gen_shl (a hl : Int) : wrapS 32 (shlRaw a hl) = i32 (shl a hl) := by
  rw [Bits.shlRaw_wrapS 32 (by decide), wrapS32_eq]
  unfold shl
  split_ifs with h
  · rfl
  · apply i32_emod_congr
    have d : (4294967296 : Int) ∣ a * 2 ^ hl.toNat := by
      have : (2:Int)^32 ∣ 2 ^ hl.toNat := Bits.two_pow_dvd 32 hl.toNat (by omega)
      exact Int.dvd_trans (by simpa using this) (Int.dvd_mul_left a _)
    rw [Int.emod_eq_zero_of_dvd d]; rfl

theorem gen_dip (s : Scs) (hfr : 0 ≤ s.static_config_frame_rate ∧ s.static_config_frame_rate < 4294967296)
    (hhl : 0 ≤ s.static_config_hierarchical_levels) :
    h_compute_default_intra_period s =
      defaultIntraPeriod s.static_config_frame_rate s.static_config_hierarchical_levels s.static_config_intra_refresh_type := by
  unfold h_compute_default_intra_period defaultIntraPeriod
  have hf := fpsOf_range _ hfr
  have efps : CSem.wrapS 32 (fpsOf s.static_config_frame_rate) = fpsOf s.static_config_frame_rate :=
    Bits.wrapS32_id _ (by omega) (by omega)
  simp only [gen_fps, efps]
  by_cases h : s.static_config_hierarchical_levels ≤ 30
  · rw [if_pos h]
    simp only [shl1_small _ hhl h]
    exact dip_small _ _ _ hf (pow_small _ hhl h)
  · rw [if_neg h]
    simp only [gen_shl]
    simp only [wrapS32_eq, cdiv, decide_eq_true_eq, beq_iff_eq]
    by_cases hr : s.static_config_intra_refresh_type = 1
    · simp only [hr, if_true]
    · simp only [hr, if_false, Int.sub_zero, apply_ite i32, i32_idem]

theorem u32_i32_add (x y : Int) : u32 (i32 x + y) = u32 (x + y) := by
  unfold u32 i32; split_ifs <;> omega

theorem gen_maxcqp (hl : Int) (h0 : 0 ≤ hl) :
    (CSem.wrapU 32 (CSem.wrapS 32 ((CSem.wrapS 32 (CSem.shlRaw (2 : Int) hl)) + (1 : Int)))) = maxCqpLookAhead hl := by
  rw [gen_shl, wrapS32_eq, wrapU32_eq, u32_i32, u32_i32_add]
  unfold shl maxCqpLookAhead
  by_cases h : hl < 31
  · have h32 : hl < 32 := by omega
    rw [if_pos h32, if_pos h]
    have e : (2:Int) * 2 ^ hl.toNat = 2 ^ (hl.toNat + 1) := by rw [Int.pow_succ]; ring
    rw [e]
    have hb : (2:Int) ^ (hl.toNat + 1) ≤ 2147483648 := by
      have : hl.toNat + 1 ≤ 31 := by omega
      calc (2:Int) ^ (hl.toNat + 1) ≤ 2 ^ 31 := by exact_mod_cast Nat.pow_le_pow_right (by decide) this
        _ = 2147483648 := by decide
    have hp : (0:Int) < 2 ^ (hl.toNat + 1) := by positivity
    apply u32_of_range <;> omega
  · rw [if_neg h]
    by_cases h32 : hl < 32
    · have : hl = 31 := by omega
      subst this; decide
    · rw [if_neg h32]; decide

theorem maxcqp_range (hl : Int) : 1 ≤ maxCqpLookAhead hl ∧ maxCqpLookAhead hl ≤ 2147483649 := by
  unfold maxCqpLookAhead
  split_ifs with h
  · have hb : (2:Int) ^ (hl.toNat + 1) ≤ 2147483648 := by
      have : hl.toNat + 1 ≤ 31 := by omega
      calc (2:Int) ^ (hl.toNat + 1) ≤ 2 ^ 31 := by exact_mod_cast Nat.pow_le_pow_right (by decide) this
        _ = 2147483648 := by decide
    have hp : (0:Int) < 2 ^ (hl.toNat + 1) := by positivity
    omega
  · omega

theorem gen_dla (s : Scs) (hhl : 0 ≤ s.static_config_hierarchical_levels)
    (hip : s.static_config_intra_period_length < 4294967296) :
    h_compute_default_look_ahead s = defaultLookAhead s.static_config_rate_control_mode s.static_config_intra_period_length
      s.static_config_enable_tpl_la s.static_config_hierarchical_levels := by
  unfold h_compute_default_look_ahead defaultLookAhead
  simp only []
  by_cases h : s.static_config_rate_control_mode = 0 ∨ s.static_config_intra_period_length < 0
  · have h' : ((s.static_config_rate_control_mode == (0 : Int)) || (decide (s.static_config_intra_period_length < (0 : Int)))) = true := by
      rcases h with h | h <;> simp [h]
    rw [if_pos h', if_pos h]
    by_cases ht : s.static_config_enable_tpl_la = 1
    · simp [ht, wrapU]
    · have ht' : (s.static_config_enable_tpl_la == (1 : Int)) = false := by simp [ht]
      rw [ht', if_neg ht]
      simp only [Bool.false_eq_true, if_false]
      exact gen_maxcqp _ hhl
  · have h' : ((s.static_config_rate_control_mode == (0 : Int)) || (decide (s.static_config_intra_period_length < (0 : Int)))) = false := by
      simp only [not_or] at h; simp [h.1, h.2]
    rw [h', if_neg h]
    simp only [Bool.false_eq_true, if_false]
    rw [wrapU32_eq]; apply u32_of_range <;> omega

theorem gen_cla (s : Scs) (hhl : 0 ≤ s.static_config_hierarchical_levels)
    (hfr : 0 ≤ s.static_config_frame_rate ∧ s.static_config_frame_rate < 4294967296) :
    h_cap_look_ahead_distance s = cappedLookAhead s.static_config_rate_control_mode s.static_config_look_ahead_distance
      s.static_config_frame_rate s.static_config_hierarchical_levels := by
  unfold h_cap_look_ahead_distance cappedLookAhead
  have hf := fpsOf_range _ hfr
  have e1 : (2:Int) ^ ((1 : Int)).toNat = 2 := by decide
  have e2 : CSem.wrapU 32 (fpsOf s.static_config_frame_rate * 2) = fpsOf s.static_config_frame_rate * 2 := by
    rw [wrapU32_eq]; apply u32_of_range <;> omega
  simp only [gen_fps, gen_maxcqp _ hhl, e1, e2]
  simp only [Int.min_def]
  by_cases hr : s.static_config_rate_control_mode = 0
  · simp only [hr]
    simp
    split_ifs <;> omega
  · have : (s.static_config_rate_control_mode == 0) = false := by simp [hr]
    simp only [this, hr]
    simp
    split_ifs <;> omega

theorem gen_ip (s : Scs) (c : Cfg) (hc : c.WellTyped) :
    (if (c.intra_period_length == (-2 : Int)) then (h_compute_default_intra_period { s with static_config_frame_rate := frameRate c, static_config_hierarchical_levels := c.hierarchical_levels, static_config_intra_refresh_type := c.intra_refresh_type }) else c.intra_period_length)
      = intraPeriod c := by
  unfold intraPeriod
  by_cases h : c.intra_period_length = -2
  · have h' : (c.intra_period_length == (-2 : Int)) = true := by simp [h]
    rw [if_pos h', if_pos h]
    exact gen_dip _ (frameRate_range c hc) hc.hierarchical_levels.1
  · have h' : (c.intra_period_length == (-2 : Int)) = false := by simp [h]
    rw [h', if_neg h]; simp


theorem dip_range (fr hl rt : Int) (hfr : 0 ≤ fr ∧ fr < 4294967296) (hhl : 0 ≤ hl) :
    -2147483648 ≤ defaultIntraPeriod fr hl rt ∧ defaultIntraPeriod fr hl rt < 2147483648 := by
  unfold defaultIntraPeriod
  have hf := fpsOf_range _ hfr
  simp only []
  split_ifs with h
  all_goals first
    | exact i32_range _
    | (have hm := pow_small hl hhl h
       have hq0 : 0 ≤ fpsOf fr / 2 ^ hl.toNat := Int.ediv_nonneg hf.1 (by omega)
       have hlo1 : fpsOf fr / 2 ^ hl.toNat * 2 ^ hl.toNat ≤ fpsOf fr := Int.ediv_mul_le _ (by omega)
       have hlo0 : 0 ≤ fpsOf fr / 2 ^ hl.toNat * 2 ^ hl.toNat := Int.mul_nonneg hq0 (by omega)
       omega)

theorem intraPeriod_range (c : Cfg) (hc : c.WellTyped) : -2147483648 ≤ intraPeriod c ∧ intraPeriod c < 2147483648 := by
  unfold intraPeriod; split_ifs
  · exact dip_range _ _ _ (frameRate_range c hc) hc.hierarchical_levels.1
  · have := hc.intra_period_length; omega

/-- the look-ahead distance before the enable_tpl_la override -/
theorem gen_la1 (s : Scs) (c : Cfg) (hc : c.WellTyped) :
    (if (c.look_ahead_distance == (CSem.wrapU 32 (CSem.wrapS 32 (- (0 : Int) - 1)))) then (h_compute_default_look_ahead { s with static_config_enable_tpl_la := c.enable_tpl_la, static_config_hierarchical_levels := c.hierarchical_levels, static_config_intra_period_length := intraPeriod c, static_config_rate_control_mode := c.rate_control_mode }) else (h_cap_look_ahead_distance { s with static_config_frame_rate := frameRate c, static_config_hierarchical_levels := c.hierarchical_levels, static_config_look_ahead_distance := c.look_ahead_distance, static_config_rate_control_mode := c.rate_control_mode }))
    = (if c.look_ahead_distance = 4294967295 then
        defaultLookAhead c.rate_control_mode (intraPeriod c) c.enable_tpl_la c.hierarchical_levels
      else cappedLookAhead c.rate_control_mode c.look_ahead_distance (frameRate c) c.hierarchical_levels) := by
  have e : (CSem.wrapU 32 (CSem.wrapS 32 (- (0 : Int) - 1))) = 4294967295 := by decide
  rw [e]
  by_cases h : c.look_ahead_distance = 4294967295
  · have h' : (c.look_ahead_distance == (4294967295 : Int)) = true := by simp [h]
    rw [if_pos h', if_pos h]
    exact gen_dla _ hc.hierarchical_levels.1 (by have := (intraPeriod_range c hc).2; show intraPeriod c < 4294967296; omega)
  · have h' : (c.look_ahead_distance == (4294967295 : Int)) = false := by simp [h]
    rw [h', if_neg h]
    simp only [Bool.false_eq_true, if_false]
    exact gen_cla _ hc.hierarchical_levels.1 (frameRate_range c hc)

theorem gen_la2 (s : Scs) (c : Cfg) (l : Int) :
    (if ((((c.enable_tpl_la != 0) && (decide (l > (0 : Int)))) && (l != (0 : Int))) && (((c.rate_control_mode == (0 : Int)) || ((h_use_input_stat { s with static_config_rc_twopass_stats_in_sz := c.rc_twopass_stats_in_sz }) != 0)) || ((0 : Int) != 0))) then (0 : Int) else l)
    = (if c.enable_tpl_la ≠ 0 ∧ 0 < l ∧ (c.rate_control_mode = 0 ∨ c.rc_twopass_stats_in_sz ≠ 0) then 0 else l) := by
  have e : ((h_use_input_stat { s with static_config_rc_twopass_stats_in_sz := c.rc_twopass_stats_in_sz }) != 0) = (c.rc_twopass_stats_in_sz != 0) := by
    unfold h_use_input_stat
    by_cases h : c.rc_twopass_stats_in_sz = 0 <;> simp [h, b2i, wrapU]
  rw [e]
  by_cases h1 : c.enable_tpl_la = 0
  · simp [h1]
  · by_cases h2 : 0 < l
    · have h3 : l ≠ 0 := by omega
      by_cases h4 : c.rate_control_mode = 0
      · simp [h1, h2, h3, h4]
      · by_cases h5 : c.rc_twopass_stats_in_sz = 0 <;> simp [h1, h2, h3, h4, h5]
    · simp [h1, h2]

theorem gen_la (s : Scs) (c : Cfg) (hc : c.WellTyped) (l : Int)
    (hl : l = (if c.look_ahead_distance = 4294967295 then
        defaultLookAhead c.rate_control_mode (intraPeriod c) c.enable_tpl_la c.hierarchical_levels
      else cappedLookAhead c.rate_control_mode c.look_ahead_distance (frameRate c) c.hierarchical_levels)) :
    (if c.enable_tpl_la ≠ 0 ∧ 0 < l ∧ (c.rate_control_mode = 0 ∨ c.rc_twopass_stats_in_sz ≠ 0) then 0 else l) = lookAhead c := by
  subst hl; rfl


theorem list2 (l : List Int) (h : l.length = 2) : ∃ a b, l = [a, b] := by
  match l, h with
  | [a, b], _ => exact ⟨a, b, rfl⟩

theorem n12 (n : Int) (h0 : 0 ≤ n) (h : n ≤ 2 ∧ n ≠ 0) : n = 1 ∨ n = 2 := by omega

/-- `verify_hme_dimension` on a two-cell array with 1 or 2 regions -/
theorem hme_dim2 (idx total a b n : Int) (hn : n = 1 ∨ n = 2) :
    (h_verify_hme_dimension idx total [a, b] n != 0) = (hmeSum n [a, b] != total) := by
  rcases hn with rfl | rfl <;>
    simp [h_verify_hme_dimension, hmeSum, List.range_succ, wrapU, u32] <;> split_ifs <;> simp_all

theorem hme_dim2_l12 (idx a b n : Int) (hn : n = 1 ∨ n = 2) :
    (h_verify_hme_dimension_l1_l2 idx [a, b] n != 0) = !(decide (1 ≤ hmeSum n [a, b] ∧ hmeSum n [a, b] ≤ 480)) := by
  rw [Bool.eq_iff_iff]
  rcases hn with rfl | rfl <;>
    simp [h_verify_hme_dimension_l1_l2, hmeSum, List.range_succ, wrapU, u32] <;> omega

theorem copyPrefix2 (src dst : List Int) (hs : src.length = 2) (hd : dst.length = 2) (m : Int) (hm : m = 1 ∨ m = 2) :
    ∃ a b, copyPrefix m src dst = [a, b] ∧ copied m src dst = [a, b] := by
  obtain ⟨a, b, rfl⟩ := list2 src hs
  obtain ⟨x, y, rfl⟩ := list2 dst hd
  rcases hm with rfl | rfl
  · exact ⟨a, y, by simp [copyPrefix, List.range_succ], by simp [copied]⟩
  · exact ⟨a, b, by simp [copyPrefix, List.range_succ], by simp [copied]⟩

theorem hme_rule (idx total : Int) (src dst : List Int) (hs : src.length = 2) (hd : dst.length = 2) (n m : Int)
    (hn : n = 1 ∨ n = 2) (hm : m = 1 ∨ m = 2) :
    (h_verify_hme_dimension idx total (copyPrefix m src dst) n != 0) = (hmeSum n (copied m src dst) != total) := by
  obtain ⟨a, b, h1, h2⟩ := copyPrefix2 src dst hs hd m hm
  rw [h1, h2]; exact hme_dim2 idx total a b n hn

theorem hme_rule_l12 (idx : Int) (src dst : List Int) (hs : src.length = 2) (hd : dst.length = 2) (n m : Int)
    (hn : n = 1 ∨ n = 2) (hm : m = 1 ∨ m = 2) :
    (h_verify_hme_dimension_l1_l2 idx (copyPrefix m src dst) n != 0)
      = !(decide (1 ≤ hmeSum n (copied m src dst) ∧ hmeSum n (copied m src dst) ≤ 480)) := by
  obtain ⟨a, b, h1, h2⟩ := copyPrefix2 src dst hs hd m hm
  rw [h1, h2]; exact hme_dim2_l12 idx a b n hn

/-- summing exactly the cells that were copied does not see the prior contents -/
theorem hmeSum_copied_same (src dst : List Int) (hs : src.length = 2) (hd : dst.length = 2) (n : Int) (hn : n = 1 ∨ n = 2) :
    hmeSum n (copied n src dst) = hmeSum n src := by
  obtain ⟨a, b, rfl⟩ := list2 src hs
  obtain ⟨x, y, rfl⟩ := list2 dst hd
  rcases hn with rfl | rfl <;> simp [hmeSum, copied]


theorem foldl_range_inv {σ : Type} (f : σ → Nat → σ) (P : Nat → σ → Prop) (init : σ) (n : Nat)
    (h0 : P 0 init) (hstep : ∀ k st, k < n → P k st → P (k + 1) (f st k)) :
    P n ((List.range n).foldl f init) := by
  suffices h : ∀ m, m ≤ n → P m ((List.range m).foldl f init) from h n (Nat.le_refl n)
  intro m
  induction m with
  | zero => intro _; simpa using h0
  | succ m ih =>
    intro hm
    rw [List.range_succ, List.foldl_append]
    simpa using hstep m _ (by omega) (ih (by omega))

theorem fold_iff {σ : Type} (F : σ → Nat → σ) (init : σ) (n : Nat) (P : Nat → σ → Prop) (proj : σ → Prop) (R : Prop)
    (h0 : P 0 init) (hstep : ∀ k st, k < n → P k st → P (k + 1) (F st k)) (hfin : ∀ st, P n st → (proj st ↔ R)) :
    proj (List.foldl F init (List.range n)) ↔ R := hfin _ (foldl_range_inv F P init n h0 hstep)

theorem fold_apply {σ : Type} (F : σ → Nat → σ) (init : σ) (n : Nat) (P : Nat → σ → Prop) (G : σ → Prop)
    (h0 : P 0 init) (hstep : ∀ k st, k < n → P k st → P (k + 1) (F st k)) (hfin : ∀ st, P n st → G st) :
    G (List.foldl F init (List.range n)) := hfin _ (foldl_range_inv F P init n h0 hstep)

theorem forall_lt_4 (P : Nat → Prop) : (∀ j, j < 4 → P j) ↔ P 0 ∧ P 1 ∧ P 2 ∧ P 3 := by
  constructor
  · intro h; exact ⟨h 0 (by omega), h 1 (by omega), h 2 (by omega), h 3 (by omega)⟩
  · rintro ⟨h0, h1, h2, h3⟩ j hj
    have : j = 0 ∨ j = 1 ∨ j = 2 ∨ j = 3 := by omega
    rcases this with rfl | rfl | rfl | rfl <;> assumption
theorem forall_lt_3 (P : Nat → Prop) : (∀ j, j < 3 → P j) ↔ P 0 ∧ P 1 ∧ P 2 := by
  constructor
  · intro h; exact ⟨h 0 (by omega), h 1 (by omega), h 2 (by omega)⟩
  · rintro ⟨h0, h1, h2⟩ j hj
    have : j = 0 ∨ j = 1 ∨ j = 2 := by omega
    rcases this with rfl | rfl | rfl <;> assumption
theorem exists_lt_4 (P : Nat → Prop) : (∃ j, j < 4 ∧ P j) ↔ P 0 ∨ P 1 ∨ P 2 ∨ P 3 := by
  constructor
  · rintro ⟨j, hj, h⟩
    have : j = 0 ∨ j = 1 ∨ j = 2 ∨ j = 3 := by omega
    rcases this with rfl | rfl | rfl | rfl <;> simp [h]
  · rintro (h | h | h | h)
    exacts [⟨0, by omega, h⟩, ⟨1, by omega, h⟩, ⟨2, by omega, h⟩, ⟨3, by omega, h⟩]

theorem getD_set_self {α : Type} (l : List α) (i : Nat) (v d : α) (h : i < l.length) : (l.set i v).getD i d = v := by
  simp [List.getD_eq_getElem?_getD, h]

theorem getD_set_ne' {α : Type} (l : List α) (i j : Nat) (v d : α) (h : i ≠ j) : (l.set i v).getD j d = l.getD j d := by
  simp [List.getD_eq_getElem?_getD, List.getElem?_set_ne h]

theorem bad_ne : (CSem.wrapU 32 (-2147479547 : Int)) ≠ 0 := by decide

theorem ite_bad (p : Prop) [Decidable p] (x : Int) : (if p then (CSem.wrapU 32 (-2147479547 : Int)) else x) = 0 ↔ ¬ p ∧ x = 0 := by
  by_cases h : p <;> simp [h, bad_ne]

theorem ite_have (h : Int) (a b : Bool) :
    ((if (!(h != 0) && a && b) = true then (1 : Int) else h) != 0) = ((h != 0) || (a && b)) := by
  by_cases hh : h = 0 <;> cases a <;> cases b <;> simp [hh]

theorem getD_set_zero (l : List Int) (i : Nat) : (l.set i 0).getD i 0 = 0 := by
  by_cases h : i < l.length
  · exact getD_set_self l i 0 0 h
  · rw [List.getD_eq_getElem?_getD, List.getElem?_eq_none (by simp; omega)]; rfl

theorem getD_range (l : List Int) (j : Nat) (lo hi : Int) (h : ∀ v ∈ l, lo ≤ v ∧ v ≤ hi) (h0 : lo ≤ 0 ∧ 0 ≤ hi) :
    lo ≤ l.getD j 0 ∧ l.getD j 0 ≤ hi := by
  rw [List.getD_eq_getElem?_getD]
  by_cases hj : j < l.length
  · rw [List.getElem?_eq_getElem hj]; exact h _ (List.getElem_mem hj)
  · rw [List.getElem?_eq_none (by omega)]; exact h0

theorem entry_final (e : PredEntry) (hwk : e.WellTyped) (k : Nat) (hk32 : k < 32) (N : Int) (hkN : (k : Int) + 1 ≤ N)
    (r hv re re0 : Int)
    (hre0' : re0 = 0 ↔ e.temporal_layer_index < 32 ∧ e.decode_order < 32 ∧ re = 0)
    (q1 : r = 0 ↔ re0 = 0 ∧ ∀ j', j' < 4 → 0 ≤ e.ref_list0.getD j' 0 ∧
                  CSem.wrapS 32 ((k : Int) + 1 - (e.ref_list1.set 3 0).getD j' 0) ≤ N)
    (q2 : (hv != 0) = true ↔ ∃ j', j' < 4 ∧ e.ref_list0.getD j' 0 ≠ 0 ∧
                  0 ≤ CSem.wrapS 32 ((k : Int) + 1 - e.ref_list0.getD j' 0)) :
    ((if (!(hv != 0)) = true then CSem.wrapU 32 (-2147479547 : Int) else r) = 0 ↔ re = 0 ∧ validEntry N k e) := by
  have hl0 : ∀ j, -2147483648 ≤ e.ref_list0.getD j 0 ∧ e.ref_list0.getD j 0 ≤ 2147483647 :=
    fun j => getD_range _ j _ _ hwk.2.2.1.2 (by decide)
  have h13 : (e.ref_list1.set 3 0).getD 3 0 = 0 := getD_set_zero _ _
  have h10 : (e.ref_list1.set 3 0).getD 0 0 = e.ref_list1.getD 0 0 := getD_set_ne' _ _ _ _ _ (by decide)
  have h11 : (e.ref_list1.set 3 0).getD 1 0 = e.ref_list1.getD 1 0 := getD_set_ne' _ _ _ _ _ (by decide)
  have h12 : (e.ref_list1.set 3 0).getD 2 0 = e.ref_list1.getD 2 0 := getD_set_ne' _ _ _ _ _ (by decide)
  have hw : ∀ x : Int, 0 ≤ x → x ≤ 2147483647 → CSem.wrapS 32 ((k : Int) + 1 - x) = (k : Int) + 1 - x :=
    fun x h0 h1 => Bits.wrapS32_id _ (by omega) (by omega)
  have hk3 : CSem.wrapS 32 ((k : Int) + 1 - 0) = (k : Int) + 1 := by rw [hw 0 (by omega) (by omega)]; omega
  have fj : ∀ j, 0 ≤ e.ref_list0.getD j 0 →
      ((e.ref_list0.getD j 0 ≠ 0 ∧ 0 ≤ CSem.wrapS 32 ((k : Int) + 1 - e.ref_list0.getD j 0)) ↔
        (1 ≤ e.ref_list0.getD j 0 ∧ e.ref_list0.getD j 0 ≤ (k : Int) + 1)) := by
    intro j h0; rw [hw _ h0 (hl0 j).2]; omega
  have b2 : (!(hv != 0)) = true ↔ ¬ ((hv != 0) = true) := by cases (hv != 0) <;> simp
  rw [ite_bad, b2, q1, q2, hre0']
  unfold validEntry
  simp only [forall_lt_4, forall_lt_3, exists_lt_4, h13, h10, h11, h12, hk3, ← wrapS32_eq]
  constructor
  · rintro ⟨hx, ⟨ht, hd, hr⟩, ⟨a0, a0'⟩, ⟨a1, a1'⟩, ⟨a2, a2'⟩, ⟨a3, _⟩⟩
    refine ⟨hr, hd, ht, ⟨a0', a1', a2'⟩, ⟨a0, a1, a2, a3⟩, ?_⟩
    rw [fj 0 a0, fj 1 a1, fj 2 a2, fj 3 a3] at hx
    exact not_not.mp hx
  · rintro ⟨hr, hd, ht, ⟨a0', a1', a2'⟩, ⟨a0, a1, a2, a3⟩, hx⟩
    refine ⟨?_, ⟨ht, hd, hr⟩, ⟨a0, a0'⟩, ⟨a1, a1'⟩, ⟨a2, a2'⟩, ⟨a3, hkN⟩⟩
    rw [fj 0 a0, fj 1 a1, fj 2 a2, fj 3 a3]
    exact not_not.mpr hx

theorem block92_spec (t : Scs) (hlen : t.static_config_pred_struct.length = 32)
    (hwt : ∀ i, i < t.static_config_manual_pred_struct_entry_num.toNat → (t.static_config_pred_struct.getD i default).WellTyped) :
    ((h_verify_settings_block92 t).1 != 0) = false ↔
      (t.static_config_enable_manual_pred_struct = 0 ∨
        validManualPredStruct t.static_config_manual_pred_struct_entry_num t.static_config_pred_struct) := by
  unfold h_verify_settings_block92
  by_cases he : t.static_config_enable_manual_pred_struct = 0
  · simp [he]
  · have he' : (t.static_config_enable_manual_pred_struct != 0) = true := by simp [he]
    simp only [he', if_true]
    have e32 : (CSem.wrapS 32 (CSem.shlRaw (1 : Int) (CSem.wrapS 32 ((6 : Int) - (1 : Int))))) = 32 := by decide
    simp only [e32]
    by_cases hn : t.static_config_manual_pred_struct_entry_num > 32
    · have hn' : decide (t.static_config_manual_pred_struct_entry_num > 32) = true := by simp; omega
      simp only [hn', if_true]
      have : ¬ validManualPredStruct t.static_config_manual_pred_struct_entry_num t.static_config_pred_struct := by
        unfold validManualPredStruct; omega
      simp [he, this, bad_ne]
    · have hn' : decide (t.static_config_manual_pred_struct_entry_num > 32) = false := by simp; omega
      simp only [hn', Bool.false_eq_true, if_false]
      refine fold_iff (σ := Scs × Int) _ _ _
        (fun k (st : Scs × Int) => st.1.static_config_manual_pred_struct_entry_num = t.static_config_manual_pred_struct_entry_num ∧
          st.1.static_config_pred_struct.length = 32 ∧
          (∀ j, k ≤ j → st.1.static_config_pred_struct.getD j default = t.static_config_pred_struct.getD j default) ∧
          (st.2 = 0 ↔ ∀ i, i < k → validEntry t.static_config_manual_pred_struct_entry_num i (t.static_config_pred_struct.getD i default)))
        (fun (st : Scs × Int) => (st.2 != 0) = false) _ ?_ ?_ ?_
      · exact ⟨rfl, hlen, fun _ _ => rfl, by simp⟩
      · rintro k ⟨s, re⟩ hk ⟨h1, h2, h3, h4⟩
        dsimp only at h1 h2 h3 h4
        have hk32 : k < 32 := by omega
        have hi : ((0 : Int) + (k : Int)).toNat = k := by omega
        have e3 : (CSem.wrapS 32 ((4 : Int) - (1 : Int))).toNat = 3 := by decide
        have e4 : ((4 : Int) - (0 : Int)).toNat = 4 := by decide
        have eU : CSem.wrapU 32 (32 : Int) = 32 := by decide
        refine ⟨h1, ?_, ?_, ?_⟩
        · simp only [hi, List.length_set]; exact h2
        · intro j hj
          simp only [hi]
          rw [getD_set_ne' _ _ _ _ _ (by omega)]
          exact h3 j (by omega)
        · simp only [hi, e3, e4, eU, getD_set_self _ _ _ _ (show k < s.static_config_pred_struct.length by omega)]
          have hek := h3 k (Nat.le_refl k)
          rw [hek, h1]
          have hwk := hwt k (by omega)
          generalize hE : t.static_config_pred_struct.getD k default = e at *
          generalize t.static_config_manual_pred_struct_entry_num = N at *
          have hK : CSem.wrapS 32 ((0 : Int) + (k : Int) + 1) = (k : Int) + 1 := by
            have := Bits.wrapS32_id ((0 : Int) + (k : Int) + 1) (by omega) (by omega)
            rw [this]; omega
          rw [hK]
          -- the two per-entry range tests
          generalize hre0 : (if decide (e.temporal_layer_index ≥ 32) = true then CSem.wrapU 32 (-2147479547 : Int)
              else if decide (e.decode_order ≥ 32) = true then CSem.wrapU 32 (-2147479547 : Int) else re) = re0
          have hre0' : re0 = 0 ↔ (e.temporal_layer_index < 32 ∧ e.decode_order < 32 ∧ re = 0) := by
            rw [← hre0]; simp only [ite_bad, decide_eq_true_eq]; omega
          -- the loop over the reference lists
          refine fold_apply (σ := Int × Int) _ _ _
            (fun j (st : Int × Int) =>
              (st.1 = 0 ↔ re0 = 0 ∧ ∀ j', j' < j → 0 ≤ e.ref_list0.getD j' 0 ∧
                  CSem.wrapS 32 ((k : Int) + 1 - (e.ref_list1.set 3 0).getD j' 0) ≤ N) ∧
              ((st.2 != 0) = true ↔ ∃ j', j' < j ∧ e.ref_list0.getD j' 0 ≠ 0 ∧
                  0 ≤ CSem.wrapS 32 ((k : Int) + 1 - e.ref_list0.getD j' 0)))
            (fun (X : Int × Int) => (if (!(X.2 != 0)) = true then CSem.wrapU 32 (-2147479547 : Int) else X.1) = 0 ↔
              ∀ i, i < k + 1 → validEntry N i (t.static_config_pred_struct.getD i default)) ?_ ?_ ?_
          · simp
          · rintro j ⟨r, hv⟩ hj ⟨q1, q2⟩
            dsimp only at q1 q2 ⊢
            have hj' : ((0 : Int) + (j : Int)).toNat = j := by omega
            rw [hj']
            constructor
            · simp only [ite_bad, decide_eq_true_eq, q1, Nat.forall_lt_succ_right]
              constructor
              · rintro ⟨a, b, c, d⟩; exact ⟨c, d, by omega, by omega⟩
              · rintro ⟨c, d, a, b⟩; exact ⟨by omega, by omega, c, d⟩
            · rw [ite_have, Bool.or_eq_true, q2, Nat.exists_lt_succ_right]
              simp only [Bool.and_eq_true, bne_iff_ne, ne_eq, decide_eq_true_eq, ge_iff_le]
          · rintro ⟨r, hv⟩ ⟨q1, q2⟩
            dsimp only at q1 q2 ⊢
            rw [Nat.forall_lt_succ_right, ← h4, hE]
            exact entry_final e hwk k hk32 N (by omega) r hv re re0 hre0' q1 q2
      · rintro ⟨s, re⟩ ⟨_, _, _, h4⟩
        dsimp only at h4 ⊢
        have e0 : (t.static_config_manual_pred_struct_entry_num - 0).toNat = t.static_config_manual_pred_struct_entry_num.toNat := by simp
        rw [e0] at h4
        have b : (re != 0) = false ↔ re = 0 := by simp
        rw [b, h4]
        unfold validManualPredStruct
        constructor
        · intro h; exact Or.inr ⟨by omega, h⟩
        · rintro (h | h)
          · exact absurd h he
          · exact h.2

theorem copyPrefixE_spec {α : Type} [Inhabited α] (n : Int) (src dst : List α) :
    (copyPrefixE n src dst).length = dst.length ∧
    (∀ i, i < n.toNat → i < dst.length → (copyPrefixE n src dst).getD i default = src.getD i default) := by
  unfold copyPrefixE
  exact foldl_range_inv (fun d i => d.set i (src.getD i default))
    (fun m d => d.length = dst.length ∧ ∀ i, i < m → i < dst.length → d.getD i default = src.getD i default)
    dst n.toNat ⟨rfl, fun i hi => absurd hi (by omega)⟩
    (by
      rintro k d hk ⟨h1, h2⟩
      refine ⟨by simp [h1], ?_⟩
      intro i hi hil
      by_cases hik : i = k
      · subst hik; exact getD_set_self _ _ _ _ (by omega)
      · rw [getD_set_ne' _ _ _ _ _ (by omega)]; exact h2 i (by omega) hil)

theorem copyPrefixE_mem {α : Type} [Inhabited α] (Q : α → Prop) (n : Int) (src dst : List α)
    (hsrc : ∀ x ∈ src, Q x) (hdst : ∀ x ∈ dst, Q x) (hd : Q default) : ∀ x ∈ copyPrefixE n src dst, Q x := by
  unfold copyPrefixE
  exact foldl_range_inv (fun d i => d.set i (src.getD i default)) (fun _ d => ∀ x ∈ d, Q x) dst n.toNat hdst
    (by
      intro k d _ h x hx
      rcases List.mem_or_eq_of_mem_set hx with h' | h'
      · exact h x h'
      · subst h'
        rw [List.getD_eq_getElem?_getD]
        by_cases hk : k < src.length
        · rw [List.getElem?_eq_getElem hk]; exact hsrc _ (List.getElem_mem hk)
        · rw [List.getElem?_eq_none (by omega)]; exact hd)

theorem getD_mem_or {α : Type} (Q : α → Prop) (l : List α) (d : α) (h : ∀ x ∈ l, Q x) (hd : Q d) (i : Nat) : Q (l.getD i d) := by
  rw [List.getD_eq_getElem?_getD]
  by_cases hk : i < l.length
  · rw [List.getElem?_eq_getElem hk]; exact h _ (List.getElem_mem hk)
  · rw [List.getElem?_eq_none (by omega)]; exact hd

theorem default_wt : (default : PredEntry).WellTyped := by decide


end Lemmas.Config
