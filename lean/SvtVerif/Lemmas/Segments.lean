/-
  C24 — helper lemmas for the abstract scheduling theorem about `Seg.assignStep`
  (the protocol of `assign_enc_dec_segments`), for ANY segment control block that passes the
  structural check `Seg.wfCheck`.
-/
import SvtVerif.Model.Segments
import Mathlib.Tactic.Linarith

namespace Seg

/-! ## arrays -/
theorem size_aset (a : Array Nat) (i v : Nat) : (aset a i v).size = a.size := by
  simp [aset]

theorem aget_aset (a : Array Nat) (i v j : Nat) :
    aget (aset a i v) j = if i = j ∧ i < a.size then v else aget a j := by
  unfold aget aset
  by_cases h : i = j
  · subst h
    by_cases h2 : i < a.size
    · simp [h2]
    · simp [h2]
  · simp [h, Array.getD_eq_getD_getElem?, Array.getElem?_setIfInBounds_ne h]

theorem aget_replicate (n v i : Nat) : aget (Array.replicate n v) i = if i < n then v else 0 := by
  unfold aget
  by_cases h : i < n <;> simp [h, Array.getD_eq_getD_getElem?]

theorem aget_of_size_le (a : Array Nat) (i : Nat) (h : a.size ≤ i) : aget a i = 0 := by
  unfold aget; simp [Array.getD_eq_getD_getElem?, h]

/-! ## static structure -/
section
variable (g : SegCtl)

/-- segment `t` of row `r` has a bottom predecessor `t - B` in row `r - 1` -/
def botPred (r t : Nat) : Prop :=
  1 ≤ r ∧ rowStart g.rows (r - 1) + g.segBandCount ≤ t ∧ t ≤ rowEnd g.rows (r - 1) + g.segBandCount

instance (r t : Nat) : Decidable (botPred g r t) := by unfold botPred; infer_instance

/-- Structural conditions on the control block (Prop form of `wfCheck g false`). -/
structure WF : Prop where
  hB : 1 ≤ g.segBandCount
  hR : 1 ≤ g.segRowCount
  hsmall : g.segRowCount * g.segBandCount < 65536
  httl : g.segTtlCount = g.segRowCount * g.segBandCount
  hrows : g.rows.size = g.segRowCount
  hdep : g.dep.size = g.segRowCount * g.segBandCount
  row_lo : ∀ r, r < g.segRowCount → r * g.segBandCount ≤ rowStart g.rows r
  row_le : ∀ r, r < g.segRowCount → rowStart g.rows r ≤ rowEnd g.rows r
  row_hi : ∀ r, r < g.segRowCount → rowEnd g.rows r < (r + 1) * g.segBandCount
  row_cur : ∀ r, r < g.segRowCount → (g.rows.getD r default).current = rowStart g.rows r
  st_mono : ∀ r, r + 1 < g.segRowCount → rowStart g.rows r + g.segBandCount ≤ rowStart g.rows (r + 1)
  en_mono : ∀ r, r + 1 < g.segRowCount → rowEnd g.rows r + g.segBandCount ≤ rowEnd g.rows (r + 1)
  dep0 : ∀ r, r < g.segRowCount → ∀ t, rowStart g.rows r ≤ t → t ≤ rowEnd g.rows r →
    aget g.dep t = (if rowStart g.rows r < t then 1 else 0) + (if botPred g r t then 1 else 0)

/-- The extra condition needed for completion: the first segment of every row after the first is
    fed by a bottom edge from the row above. -/
def Live : Prop :=
  ∀ r, r + 1 < g.segRowCount → rowStart g.rows (r + 1) ≤ rowEnd g.rows r + g.segBandCount

end

theorem allB_iff (n : Nat) (p : Nat → Bool) : allB n p = true ↔ ∀ i, i < n → p i = true := by
  simp [allB, List.all_eq_true]

theorem wf_of_check (g : SegCtl) (live : Bool) (h : wfCheck g live = true) : WF g := by
  simp only [wfCheck, Bool.and_eq_true, decide_eq_true_eq, allB_iff, List.all_eq_true, Bool.or_eq_true,
    Bool.not_eq_true'] at h
  obtain ⟨⟨⟨⟨⟨⟨⟨⟨h1, h2⟩, h3⟩, h4⟩, h5⟩, h6⟩, h7⟩, h8⟩, h9⟩ := h
  refine ⟨h1, h2, h3, h4, h5, h6, fun r hr => (h7 r hr).1.1.1, fun r hr => (h7 r hr).1.1.2, fun r hr => (h7 r hr).1.2,
    fun r hr => (h7 r hr).2, fun r hr => (h8 r (by omega)).1.1, fun r hr => (h8 r (by omega)).1.2, ?_⟩
  intro r hr t h1 h2
  have := h9 r hr t (by
    unfold rowSegs
    simp only [List.mem_range'_1]
    omega)
  simpa [botPred] using this

theorem live_of_check (g : SegCtl) (h : wfCheck g true = true) : Live g := by
  simp only [wfCheck, Bool.and_eq_true, decide_eq_true_eq, allB_iff, List.all_eq_true, Bool.or_eq_true,
    Bool.not_eq_true'] at h
  obtain ⟨⟨_, h8⟩, _⟩ := h
  intro r hr
  have := (h8 r (by omega)).2
  simpa using this

/-! ## rows are disjoint intervals; the edge tests of `assignStep` in closed form -/
variable {g : SegCtl}

theorem row_div (h : WF g) {r t : Nat} (hr : r < g.segRowCount) (h1 : rowStart g.rows r ≤ t) (h2 : t ≤ rowEnd g.rows r) :
    t / g.segBandCount = r := by
  have a := h.row_lo r hr
  have b := h.row_hi r hr
  have hB := h.hB
  apply Nat.div_eq_of_lt_le
  · omega
  · omega

theorem row_unique (h : WF g) {r r' t : Nat} (hr : r < g.segRowCount) (hr' : r' < g.segRowCount)
    (h1 : rowStart g.rows r ≤ t) (h2 : t ≤ rowEnd g.rows r)
    (h1' : rowStart g.rows r' ≤ t) (h2' : t ≤ rowEnd g.rows r') : r = r' := by
  rw [← row_div h hr h1 h2, ← row_div h hr' h1' h2']

theorem row_lt_total (h : WF g) {r t : Nat} (hr : r < g.segRowCount) (h2 : t ≤ rowEnd g.rows r) :
    t < g.segRowCount * g.segBandCount := by
  have b := h.row_hi r hr
  have : (r + 1) * g.segBandCount ≤ g.segRowCount * g.segBandCount := Nat.mul_le_mul_right _ hr
  omega

theorem u32_small {n : Nat} (h : n < 4294967296) : u32 n = n := Nat.mod_eq_of_lt h
theorem u16_small {n : Nat} (h : n < 65536) : u16 n = n := Nat.mod_eq_of_lt h

theorem sub32_one {n : Nat} (h1 : 1 ≤ n) (h : n < 4294967296) : sub32 n 1 = n - 1 := by
  unfold sub32 u32; omega

theorem hasRight_iff (h : WF g) {r t : Nat} (hr : r < g.segRowCount) (h1 : rowStart g.rows r ≤ t) (h2 : t ≤ rowEnd g.rows r) :
    hasRight g t = true ↔ t < rowEnd g.rows r := by
  simp [hasRight, row_div h hr h1 h2]

theorem hasBottom_iff (h : WF g) {r t : Nat} (hr : r < g.segRowCount) (h1 : rowStart g.rows r ≤ t) (h2 : t ≤ rowEnd g.rows r) :
    hasBottom g t = true ↔ (r + 1 < g.segRowCount ∧ rowStart g.rows (r + 1) ≤ t + g.segBandCount) := by
  have hs := h.hsmall
  have hR := h.hR
  have hB := h.hB
  have hlt := row_lt_total h hr h2
  have : g.segRowCount ≤ g.segRowCount * g.segBandCount := Nat.le_mul_of_pos_right _ hB
  have : g.segBandCount ≤ g.segRowCount * g.segBandCount := Nat.le_mul_of_pos_left _ hR
  simp only [hasBottom, row_div h hr h1 h2, decide_eq_true_eq]
  rw [sub32_one hR (by omega), u32_small (by omega)]
  omega

/-! ## the invariant -/

/-- Safety invariant of the assign protocol (does not need `Live`). -/
structure Inv0 (g : SegCtl) (st : ASt) : Prop where
  err0 : st.err = 0
  sz_dep : st.dep.size = g.segRowCount * g.segBandCount
  sz_ph : st.ph.size = g.segRowCount * g.segBandCount
  sz_cur : st.cur.size = g.segRowCount
  cur_lo : ∀ r, r < g.segRowCount → rowStart g.rows r ≤ aget st.cur r
  cur_hi : ∀ r, r < g.segRowCount → aget st.cur r ≤ rowEnd g.rows r + 1
  ph_started : ∀ r, r < g.segRowCount → ∀ t, rowStart g.rows r ≤ t → t < aget st.cur r → 1 ≤ aget st.ph t
  ph_unstarted : ∀ r, r < g.segRowCount → ∀ t, aget st.cur r ≤ t → t ≤ rowEnd g.rows r → aget st.ph t = 0
  ph_in : ∀ t, 1 ≤ aget st.ph t → ∃ r, r < g.segRowCount ∧ rowStart g.rows r ≤ t ∧ t ≤ rowEnd g.rows r
  ph_le : ∀ t, aget st.ph t ≤ 4
  ph2 : ∀ r, r < g.segRowCount → ∀ t, rowStart g.rows r ≤ t → t ≤ rowEnd g.rows r → aget st.ph t = 2 → t < rowEnd g.rows r
  ph3 : ∀ r, r < g.segRowCount → ∀ t, rowStart g.rows r ≤ t → t ≤ rowEnd g.rows r → aget st.ph t = 3 →
    r + 1 < g.segRowCount ∧ rowStart g.rows (r + 1) ≤ t + g.segBandCount
  dep_eq : ∀ r, r < g.segRowCount → ∀ t, rowStart g.rows r ≤ t → t ≤ rowEnd g.rows r →
    aget st.dep t = (if rowStart g.rows r < t ∧ aget st.ph (t - 1) < 3 then 1 else 0) +
      (if botPred g r t ∧ aget st.ph (t - g.segBandCount) < 4 then 1 else 0)
  started_dep0 : ∀ r, r < g.segRowCount → ∀ t, rowStart g.rows r ≤ t → t ≤ rowEnd g.rows r →
    1 ≤ aget st.ph t → aget st.dep t = 0
  started_pred : ∀ r, r < g.segRowCount → ∀ t, rowStart g.rows r ≤ t → t ≤ rowEnd g.rows r →
    1 ≤ aget st.ph t → (t = rowStart g.rows 0 ∧ r = 0) ∨ rowStart g.rows r < t ∨ botPred g r t
  pool_nodup : st.pool.Nodup
  pool_mdc : Task.mdc ∈ st.pool → st = initASt g
  pool_fb : ∀ r, Task.fb r ∈ st.pool →
    r < g.segRowCount ∧ aget st.cur r ≤ rowEnd g.rows r ∧ aget st.dep (aget st.cur r) = 0 ∧
      botPred g r (aget st.cur r)

/-- Liveness invariant for row `r`: a not-yet-handed-out segment whose count is 0 has a start token. -/
def Ready (g : SegCtl) (st : ASt) (r : Nat) : Prop :=
  Live g → aget st.cur r ≤ rowEnd g.rows r → aget st.dep (aget st.cur r) = 0 →
    Task.fb r ∈ st.pool ∨ Task.mdc ∈ st.pool

def Inv (g : SegCtl) (st : ASt) : Prop := Inv0 g st ∧ ∀ r, r < g.segRowCount → Ready g st r

theorem aget_init_ph (g : SegCtl) (t : Nat) : aget (initASt g).ph t = 0 := by
  simp only [initASt, aget_replicate]; split <;> rfl

theorem aget_aset' {a : Array Nat} {s : Nat} (hs : s < a.size) (v t : Nat) :
    aget (aset a s v) t = if t = s then v else aget a t := by
  rw [aget_aset]
  by_cases h : t = s
  · subst h; simp [hs]
  · have : ¬ s = t := fun e => h e.symm
    simp [h, this]

/-- handing out `cur r'` (view-based): restores the full invariant -/
theorem inv_start (hw : WF g) {st st' : ASt} (h0 : Inv0 g st) {r' : Nat} (hr' : r' < g.segRowCount)
    (hc : aget st.cur r' ≤ rowEnd g.rows r') (hd : aget st.dep (aget st.cur r') = 0)
    (hnf : Task.fb r' ∉ st.pool) (hnm : Task.mdc ∉ st.pool)
    (hpred : (aget st.cur r' = rowStart g.rows 0 ∧ r' = 0) ∨ rowStart g.rows r' < aget st.cur r' ∨ botPred g r' (aget st.cur r'))
    (e_err : st'.err = 0) (e_dep : st'.dep = st.dep) (e_pool : st'.pool = st.pool)
    (e_szph : st'.ph.size = st.ph.size) (e_szcur : st'.cur.size = st.cur.size)
    (e_ph : ∀ t, aget st'.ph t = if t = aget st.cur r' then 1 else aget st.ph t)
    (e_cur : ∀ r, aget st'.cur r = if r = r' then aget st.cur r' + 1 else aget st.cur r)
    (hready : ∀ r, r < g.segRowCount → r ≠ r' → Ready g st r) : Inv g st' := by
  have hlo := h0.cur_lo r' hr'
  have hph0 := h0.ph_unstarted r' hr' _ (Nat.le_refl _) hc
  generalize htc : aget st.cur r' = tc at *
  have hdeq : ∀ r t, (rowStart g.rows r < t ∧ aget st'.ph (t - 1) < 3) ↔ (rowStart g.rows r < t ∧ aget st.ph (t - 1) < 3) := by
    intro r t; rw [e_ph]; split
    · rename_i h; rw [h, hph0]; simp
    · rfl
  have hdeq2 : ∀ r t, (botPred g r t ∧ aget st'.ph (t - g.segBandCount) < 4) ↔ (botPred g r t ∧ aget st.ph (t - g.segBandCount) < 4) := by
    intro r t; rw [e_ph]; split
    · rename_i h; rw [h, hph0]; simp
    · rfl
  refine ⟨⟨e_err, e_dep ▸ h0.sz_dep, e_szph ▸ h0.sz_ph, e_szcur ▸ h0.sz_cur, ?_, ?_, ?_, ?_, ?_, ?_, ?_, ?_, ?_, ?_, ?_,
    e_pool ▸ h0.pool_nodup, ?_, ?_⟩, ?_⟩
  · intro r hr; rw [e_cur]; have := h0.cur_lo r hr; split
    · rename_i h; subst h; omega
    · omega
  · intro r hr; rw [e_cur]; have := h0.cur_hi r hr; split
    · rename_i h; subst h; omega
    · omega
  · -- ph_started
    intro r hr t h1 h2
    rw [e_ph]; rw [e_cur] at h2
    split
    · omega
    · rename_i hne
      split at h2
      · subst_vars; exact h0.ph_started r hr t h1 (by omega)
      · exact h0.ph_started r hr t h1 h2
  · -- ph_unstarted
    intro r hr t h1 h2
    rw [e_ph]; rw [e_cur] at h1
    split at h1
    · subst_vars
      rw [if_neg (by omega)]
      exact h0.ph_unstarted _ hr t (by omega) h2
    · rename_i hne
      have : t ≠ tc := by
        intro e; subst e
        exact hne (row_unique hw hr hr' (by have := h0.cur_lo r hr; omega) h2 hlo hc)
      rw [if_neg this]
      exact h0.ph_unstarted r hr t h1 h2
  · -- ph_in
    intro t ht
    rw [e_ph] at ht
    split at ht
    · subst_vars; exact ⟨r', hr', hlo, hc⟩
    · exact h0.ph_in t ht
  · intro t; rw [e_ph]; have := h0.ph_le t; split <;> omega
  · intro r hr t h1 h2 h3
    rw [e_ph] at h3
    split at h3
    · omega
    · exact h0.ph2 r hr t h1 h2 h3
  · intro r hr t h1 h2 h3
    rw [e_ph] at h3
    split at h3
    · omega
    · exact h0.ph3 r hr t h1 h2 h3
  · intro r hr t h1 h2
    rw [e_dep, h0.dep_eq r hr t h1 h2]
    simp only [hdeq, hdeq2]
  · intro r hr t h1 h2 h3
    rw [e_dep]
    rw [e_ph] at h3
    split at h3
    · subst_vars; exact hd
    · exact h0.started_dep0 r hr t h1 h2 h3
  · intro r hr t h1 h2 h3
    rw [e_ph] at h3
    split at h3
    · rename_i hts
      subst hts
      have := row_unique hw hr hr' h1 h2 hlo hc
      subst this
      exact hpred
    · exact h0.started_pred r hr t h1 h2 h3
  · intro hm; rw [e_pool] at hm; exact absurd hm hnm
  · intro r hf
    rw [e_pool] at hf
    have hne : r ≠ r' := fun e => hnf (e ▸ hf)
    rw [e_cur, if_neg hne, e_dep]
    exact h0.pool_fb r hf
  · intro r hr
    by_cases hrr : r = r'
    · subst hrr
      intro _ hce hde
      exfalso
      rw [e_cur, if_pos rfl] at hce hde
      rw [e_dep, h0.dep_eq r hr _ (by omega) hce] at hde
      have : rowStart g.rows r < tc + 1 ∧ aget st.ph (tc + 1 - 1) < 3 := ⟨by omega, by simp [hph0]⟩
      rw [if_pos this] at hde
      omega
    · have := hready r hr hrr
      unfold Ready at *
      rw [e_cur, if_neg hrr, e_dep, e_pool]
      exact this
/-- posting a feedback task for row `r'` instead of handing out directly -/
theorem inv_token (_hw : WF g) {st : ASt} (h0 : Inv0 g st) {r' : Nat} (hr' : r' < g.segRowCount)
    (hc : aget st.cur r' ≤ rowEnd g.rows r') (hd : aget st.dep (aget st.cur r') = 0)
    (hnf : Task.fb r' ∉ st.pool) (hnm : Task.mdc ∉ st.pool) (hbp : botPred g r' (aget st.cur r'))
    (hready : ∀ r, r < g.segRowCount → r ≠ r' → Ready g st r) :
    Inv g { st with pool := st.pool ++ [Task.fb r'] } := by
  refine ⟨⟨h0.err0, h0.sz_dep, h0.sz_ph, h0.sz_cur, h0.cur_lo, h0.cur_hi, h0.ph_started, h0.ph_unstarted, h0.ph_in,
    h0.ph_le, h0.ph2, h0.ph3, h0.dep_eq, h0.started_dep0, h0.started_pred, ?_, ?_, ?_⟩, ?_⟩
  · show (st.pool ++ [Task.fb r']).Nodup
    rw [List.nodup_append]
    refine ⟨h0.pool_nodup, by simp, ?_⟩
    intro a ha b hb
    simp at hb; subst hb
    intro e; subst e; exact hnf ha
  · intro hm
    have hm' : Task.mdc ∈ st.pool ++ [Task.fb r'] := hm
    simp at hm'
    exact absurd hm' hnm
  · intro r hf
    have hf' : Task.fb r ∈ st.pool ++ [Task.fb r'] := hf
    simp at hf'
    rcases hf' with hf' | hf'
    · exact h0.pool_fb r hf'
    · subst hf'; exact ⟨hr', hc, hd, hbp⟩
  · intro r hr
    by_cases hrr : r = r'
    · subst hrr
      intro _ _ _
      left
      show Task.fb r ∈ st.pool ++ [Task.fb r]
      simp
    · intro hl h1 h2
      rcases hready r hr hrr hl h1 h2 with h | h
      · left; show Task.fb r ∈ st.pool ++ [Task.fb r']; simp [h]
      · right; show Task.mdc ∈ st.pool ++ [Task.fb r']; simp [h]
theorem u8_dec {x : Nat} (h1 : 1 ≤ x) (h2 : x ≤ 255) : u8 (x + 255) = x - 1 := by
  unfold u8; omega

/-- the right-neighbour decrement of the CONTINUE call finishing `s` (phase 2 -> 3/4), before any hand-out -/
theorem inv_decR (hw : WF g) {st st' : ASt} (h0 : Inv0 g st) {s r p : Nat}
    (hr : r < g.segRowCount) (hs1 : rowStart g.rows r ≤ s) (hs2 : s ≤ rowEnd g.rows r)
    (hph : aget st.ph s = 2)
    (hp3 : p = 3 → r + 1 < g.segRowCount ∧ rowStart g.rows (r + 1) ≤ s + g.segBandCount)
    (hp4 : p = 4 → ¬ (r + 1 < g.segRowCount ∧ rowStart g.rows (r + 1) ≤ s + g.segBandCount))
    (hp : p = 3 ∨ p = 4)
    (e_err : st'.err = 0) (e_cur : st'.cur = st.cur) (e_pool : st'.pool = st.pool)
    (e_szph : st'.ph.size = st.ph.size) (e_szdep : st'.dep.size = st.dep.size)
    (e_ph : ∀ t, aget st'.ph t = if t = s then p else aget st.ph t)
    (e_dep : ∀ t, aget st'.dep t = if t = s + 1 then u8 (aget st.dep (s + 1) + 255) else aget st.dep t)
    (hready : ∀ r, r < g.segRowCount → Ready g st r) :
    Inv0 g st' ∧ (∀ r', r' < g.segRowCount → r' ≠ r → Ready g st' r') ∧
    aget st.cur r = s + 1 ∧ s + 1 ≤ rowEnd g.rows r ∧ 1 ≤ aget st.dep (s + 1) ∧ aget st.dep (s + 1) ≤ 2 ∧
    Task.mdc ∉ st.pool ∧
    (aget st'.dep (s + 1) = 0 → Task.fb r ∉ st.pool) ∧
    (aget st'.dep (s + 1) ≠ 0 → Ready g st' r) := by
  have hlt := h0.ph2 r hr s hs1 hs2 hph
  have hdep1 := h0.dep_eq r hr (s + 1) (by omega) (by omega)
  have hph' : aget st.ph (s + 1 - 1) = 2 := by simpa using hph
  rw [if_pos ⟨by omega, by omega⟩] at hdep1
  have hge : 1 ≤ aget st.dep (s + 1) := by omega
  have hle : aget st.dep (s + 1) ≤ 2 := by rw [hdep1]; split <;> omega
  have hd : u8 (aget st.dep (s + 1) + 255) = aget st.dep (s + 1) - 1 := u8_dec hge (by omega)
  -- s + 1 has not been handed out, s has: cur r = s + 1
  have hph1 : aget st.ph (s + 1) = 0 := by
    by_contra hne
    have := h0.started_dep0 r hr (s + 1) (by omega) (by omega) (by omega)
    omega
  have hcur : aget st.cur r = s + 1 := by
    have a : s < aget st.cur r := by
      by_contra hn
      have := h0.ph_unstarted r hr s (by omega) hs2
      omega
    have b : ¬ (s + 1 < aget st.cur r) := by
      intro hn
      have := h0.ph_started r hr (s + 1) (by omega) hn
      omega
    omega
  have hnm : Task.mdc ∉ st.pool := by
    intro hm
    have := h0.pool_mdc hm
    rw [this, aget_init_ph] at hph
    omega
  have hnf : aget st.dep (s + 1) ≠ 0 → Task.fb r ∉ st.pool := by
    intro _ hf
    have := (h0.pool_fb r hf).2.2
    rw [hcur] at this; omega
  -- s is not the bottom predecessor index of s+1, nor its own
  have hBpos := hw.hB
  refine ⟨⟨e_err, e_szdep ▸ h0.sz_dep, e_szph ▸ h0.sz_ph, e_cur ▸ h0.sz_cur, e_cur ▸ h0.cur_lo, e_cur ▸ h0.cur_hi,
    ?_, ?_, ?_, ?_, ?_, ?_, ?_, ?_, ?_, e_pool ▸ h0.pool_nodup, ?_, ?_⟩, ?_, hcur, hlt, hge, hle, hnm, ?_, ?_⟩
  · intro r' hr' t h1 h2
    rw [e_cur] at h2; rw [e_ph]
    have := h0.ph_started r' hr' t h1 h2
    split <;> omega
  · intro r' hr' t h1 h2
    rw [e_cur] at h1; rw [e_ph]
    have := h0.ph_unstarted r' hr' t h1 h2
    split
    · subst_vars; omega
    · exact this
  · intro t ht
    rw [e_ph] at ht
    split at ht
    · subst_vars; exact ⟨r, hr, hs1, hs2⟩
    · exact h0.ph_in t ht
  · intro t; rw [e_ph]; have := h0.ph_le t; split <;> omega
  · intro r' hr' t h1 h2 h3
    rw [e_ph] at h3
    split at h3
    · omega
    · exact h0.ph2 r' hr' t h1 h2 h3
  · intro r' hr' t h1 h2 h3
    rw [e_ph] at h3
    split at h3
    · rename_i hts; subst hts
      have := row_unique hw hr hr' hs1 hs2 h1 h2
      subst this
      rcases hp with hp | hp
      · exact hp3 hp
      · omega
    · exact h0.ph3 r' hr' t h1 h2 h3
  · -- dep_eq
    intro r' hr' t h1 h2
    have e2 : (botPred g r' t ∧ aget st'.ph (t - g.segBandCount) < 4) ↔
        (botPred g r' t ∧ aget st.ph (t - g.segBandCount) < 4) := by
      rw [e_ph]
      by_cases hts : t - g.segBandCount = s
      · simp only [hts, if_true, hph]
        constructor
        · intro ⟨a, b⟩; exact ⟨a, by omega⟩
        · intro ⟨a, _⟩
          refine ⟨a, ?_⟩
          obtain ⟨b1, b2, b3⟩ := a
          have := row_unique hw hr (show r' - 1 < g.segRowCount by omega) hs1 hs2 (by omega) (by omega)
          subst this
          rcases hp with hp | hp
          · omega
          · exfalso; apply hp4 hp
            have : r' - 1 + 1 = r' := by omega
            rw [this]
            exact ⟨hr', by omega⟩
      · simp only [hts, if_false]
    rw [e_dep]
    by_cases hts : t = s + 1
    · subst hts
      have := row_unique hw hr hr' (by omega) (by omega) h1 h2
      subst this
      rw [if_pos rfl, hd, hdep1]
      have e1 : ¬ (rowStart g.rows r < s + 1 ∧ aget st'.ph (s + 1 - 1) < 3) := by
        intro ⟨_, b⟩
        rw [e_ph] at b
        simp at b
        omega
      rw [if_neg e1]
      simp only [e2]
      omega
    · rw [if_neg hts, h0.dep_eq r' hr' t h1 h2]
      have e1 : (rowStart g.rows r' < t ∧ aget st'.ph (t - 1) < 3) ↔ (rowStart g.rows r' < t ∧ aget st.ph (t - 1) < 3) := by
        rw [e_ph]
        by_cases hts' : t - 1 = s
        · constructor
          · intro ⟨a, _⟩; omega
          · intro ⟨a, _⟩; omega
        · simp only [hts', if_false]
      simp only [e1, e2]
  · -- started_dep0
    intro r' hr' t h1 h2 h3
    rw [e_ph] at h3
    have h3' : 1 ≤ aget st.ph t := by
      split at h3
      · subst_vars; omega
      · exact h3
    rw [e_dep]
    split
    · subst_vars; omega
    · exact h0.started_dep0 r' hr' t h1 h2 h3'
  · -- started_pred
    intro r' hr' t h1 h2 h3
    rw [e_ph] at h3
    have h3' : 1 ≤ aget st.ph t := by
      split at h3
      · subst_vars; omega
      · exact h3
    exact h0.started_pred r' hr' t h1 h2 h3'
  · intro hm; rw [e_pool] at hm; exact absurd hm hnm
  · intro r' hf
    rw [e_pool] at hf
    obtain ⟨a, b, c, c'⟩ := h0.pool_fb r' hf
    refine ⟨a, e_cur ▸ b, ?_, e_cur ▸ c'⟩
    rw [e_cur, e_dep]
    split
    · rename_i hts
      have := row_unique hw hr a (by omega) (by omega) (hts ▸ h0.cur_lo r' a) (hts ▸ b)
      subst this
      rw [hcur] at c; omega
    · exact c
  · -- Ready for other rows
    intro r' hr' hne hl hce hde
    rw [e_cur] at hce hde
    rw [e_pool]
    apply hready r' hr' hl hce
    rw [e_dep] at hde
    split at hde
    · rename_i hts
      exfalso; apply hne
      exact (row_unique hw hr hr' (by omega) (by omega) (hts ▸ h0.cur_lo r' hr') (hts ▸ hce)).symm
    · exact hde
  · intro hz
    apply hnf
    rw [e_dep, if_pos rfl, hd] at hz
    omega
  · intro hnz _ hce hde
    rw [e_cur, hcur] at hde
    exact absurd hde hnz
/-- the bottom-left decrement of the CONTINUE call finishing `s` (phase 3 -> 4), before any hand-out -/
theorem inv_decB (hw : WF g) {st st' : ASt} (h0 : Inv0 g st) {s r : Nat}
    (hr : r < g.segRowCount) (hs1 : rowStart g.rows r ≤ s) (hs2 : s ≤ rowEnd g.rows r)
    (hph : aget st.ph s = 3)
    (e_err : st'.err = 0) (e_cur : st'.cur = st.cur) (e_pool : st'.pool = st.pool)
    (e_szph : st'.ph.size = st.ph.size) (e_szdep : st'.dep.size = st.dep.size)
    (e_ph : ∀ t, aget st'.ph t = if t = s then 4 else aget st.ph t)
    (e_dep : ∀ t, aget st'.dep t = if t = s + g.segBandCount then u8 (aget st.dep (s + g.segBandCount) + 255) else aget st.dep t)
    (hready : ∀ r, r < g.segRowCount → Ready g st r) :
    Inv0 g st' ∧ (∀ r', r' < g.segRowCount → r' ≠ r + 1 → Ready g st' r') ∧
    r + 1 < g.segRowCount ∧ rowStart g.rows (r + 1) ≤ s + g.segBandCount ∧ s + g.segBandCount ≤ rowEnd g.rows (r + 1) ∧
    1 ≤ aget st.dep (s + g.segBandCount) ∧ aget st.dep (s + g.segBandCount) ≤ 2 ∧
    Task.mdc ∉ st.pool ∧ botPred g (r + 1) (s + g.segBandCount) ∧
    (aget st'.dep (s + g.segBandCount) = 0 → aget st.cur (r + 1) = s + g.segBandCount ∧ Task.fb (r + 1) ∉ st.pool) ∧
    (aget st'.dep (s + g.segBandCount) ≠ 0 → Ready g st' (r + 1)) := by
  obtain ⟨hr1, hb1⟩ := h0.ph3 r hr s hs1 hs2 hph
  have hb2 : s + g.segBandCount ≤ rowEnd g.rows (r + 1) := by have := hw.en_mono r hr1; omega
  have hBpos := hw.hB
  have hbp : botPred g (r + 1) (s + g.segBandCount) := by
    refine ⟨by omega, ?_, ?_⟩ <;> simp <;> omega
  have hdep1 := h0.dep_eq (r + 1) hr1 (s + g.segBandCount) hb1 hb2
  have hphB : aget st.ph (s + g.segBandCount - g.segBandCount) = 3 := by simpa using hph
  have hc2 : botPred g (r + 1) (s + g.segBandCount) ∧ aget st.ph (s + g.segBandCount - g.segBandCount) < 4 :=
    ⟨hbp, by omega⟩
  rw [if_pos hc2] at hdep1
  have hge : 1 ≤ aget st.dep (s + g.segBandCount) := by omega
  have hle : aget st.dep (s + g.segBandCount) ≤ 2 := by rw [hdep1]; split <;> omega
  have hd : u8 (aget st.dep (s + g.segBandCount) + 255) = aget st.dep (s + g.segBandCount) - 1 := u8_dec hge (by omega)
  have hph1 : aget st.ph (s + g.segBandCount) = 0 := by
    by_contra hne
    have := h0.started_dep0 (r + 1) hr1 (s + g.segBandCount) hb1 hb2 (by omega)
    omega
  have hcur_le : aget st.cur (r + 1) ≤ s + g.segBandCount := by
    by_contra hn
    have := h0.ph_started (r + 1) hr1 (s + g.segBandCount) hb1 (by omega)
    omega
  have hnm : Task.mdc ∉ st.pool := by
    intro hm
    have := h0.pool_mdc hm
    rw [this, aget_init_ph] at hph
    omega
  -- when the count reaches 0 the right predecessor (if any) is past its right block, hence handed out
  have hzero : aget st.dep (s + g.segBandCount) - 1 = 0 → aget st.cur (r + 1) = s + g.segBandCount := by
    intro hz
    by_cases hfirst : rowStart g.rows (r + 1) < s + g.segBandCount
    · have hp : ¬ (rowStart g.rows (r + 1) < s + g.segBandCount ∧ aget st.ph (s + g.segBandCount - 1) < 3) := by
        intro hc; rw [if_pos hc] at hdep1; omega
      have h3 : 3 ≤ aget st.ph (s + g.segBandCount - 1) := by
        by_contra hn; exact hp ⟨hfirst, by omega⟩
      have : s + g.segBandCount - 1 < aget st.cur (r + 1) := by
        by_contra hn
        have := h0.ph_unstarted (r + 1) hr1 (s + g.segBandCount - 1) (by omega) (by omega)
        omega
      omega
    · have := h0.cur_lo (r + 1) hr1; omega
  refine ⟨⟨e_err, e_szdep ▸ h0.sz_dep, e_szph ▸ h0.sz_ph, e_cur ▸ h0.sz_cur, e_cur ▸ h0.cur_lo, e_cur ▸ h0.cur_hi,
    ?_, ?_, ?_, ?_, ?_, ?_, ?_, ?_, ?_, e_pool ▸ h0.pool_nodup, ?_, ?_⟩, ?_, hr1, hb1, hb2, hge, hle, hnm, hbp, ?_, ?_⟩
  · intro r' hr' t h1 h2
    rw [e_cur] at h2; rw [e_ph]
    have := h0.ph_started r' hr' t h1 h2
    split <;> omega
  · intro r' hr' t h1 h2
    rw [e_cur] at h1; rw [e_ph]
    have := h0.ph_unstarted r' hr' t h1 h2
    split
    · subst_vars; omega
    · exact this
  · intro t ht
    rw [e_ph] at ht
    split at ht
    · subst_vars; exact ⟨r, hr, hs1, hs2⟩
    · exact h0.ph_in t ht
  · intro t; rw [e_ph]; have := h0.ph_le t; split <;> omega
  · intro r' hr' t h1 h2 h3
    rw [e_ph] at h3
    split at h3
    · omega
    · exact h0.ph2 r' hr' t h1 h2 h3
  · intro r' hr' t h1 h2 h3
    rw [e_ph] at h3
    split at h3
    · omega
    · exact h0.ph3 r' hr' t h1 h2 h3
  · -- dep_eq
    intro r' hr' t h1 h2
    have e1 : (rowStart g.rows r' < t ∧ aget st'.ph (t - 1) < 3) ↔ (rowStart g.rows r' < t ∧ aget st.ph (t - 1) < 3) := by
      rw [e_ph]
      by_cases hts' : t - 1 = s
      · simp only [hts', if_true, hph]
        constructor
        · intro ⟨_, b⟩; omega
        · intro ⟨_, b⟩; omega
      · simp only [hts', if_false]
    rw [e_dep]
    by_cases hts : t = s + g.segBandCount
    · subst hts
      have := row_unique hw hr1 hr' hb1 hb2 h1 h2
      subst this
      rw [if_pos rfl, hd, hdep1]
      have e2 : ¬ (botPred g (r + 1) (s + g.segBandCount) ∧ aget st'.ph (s + g.segBandCount - g.segBandCount) < 4) := by
        intro ⟨_, b⟩
        rw [e_ph] at b
        simp at b
      rw [if_neg e2]
      simp only [e1]
      omega
    · rw [if_neg hts, h0.dep_eq r' hr' t h1 h2]
      have e2 : (botPred g r' t ∧ aget st'.ph (t - g.segBandCount) < 4) ↔
          (botPred g r' t ∧ aget st.ph (t - g.segBandCount) < 4) := by
        rw [e_ph]
        by_cases hts' : t - g.segBandCount = s
        · constructor
          · intro ⟨a, _⟩; obtain ⟨_, b2, _⟩ := a; omega
          · intro ⟨a, _⟩; obtain ⟨_, b2, _⟩ := a; omega
        · simp only [hts', if_false]
      simp only [e1, e2]
  · -- started_dep0
    intro r' hr' t h1 h2 h3
    rw [e_ph] at h3
    have h3' : 1 ≤ aget st.ph t := by
      split at h3
      · subst_vars; omega
      · exact h3
    rw [e_dep]
    split
    · subst_vars; omega
    · exact h0.started_dep0 r' hr' t h1 h2 h3'
  · -- started_pred
    intro r' hr' t h1 h2 h3
    rw [e_ph] at h3
    have h3' : 1 ≤ aget st.ph t := by
      split at h3
      · subst_vars; omega
      · exact h3
    exact h0.started_pred r' hr' t h1 h2 h3'
  · intro hm; rw [e_pool] at hm; exact absurd hm hnm
  · intro r' hf
    rw [e_pool] at hf
    obtain ⟨a, b, c, c'⟩ := h0.pool_fb r' hf
    refine ⟨a, e_cur ▸ b, ?_, e_cur ▸ c'⟩
    rw [e_cur, e_dep]
    split
    · rename_i hts
      rw [hts] at c; omega
    · exact c
  · -- Ready for other rows
    intro r' hr' hne hl hce hde
    rw [e_cur] at hce hde
    rw [e_pool]
    apply hready r' hr' hl hce
    rw [e_dep] at hde
    split at hde
    · rename_i hts
      exfalso; apply hne
      exact (row_unique hw hr1 hr' hb1 hb2 (hts ▸ h0.cur_lo r' hr') (hts ▸ hce)).symm
    · exact hde
  · intro hz
    rw [e_dep, if_pos rfl, hd] at hz
    have hc := hzero hz
    refine ⟨hc, ?_⟩
    intro hf
    have := (h0.pool_fb _ hf).2.2
    rw [hc] at this; omega
  · intro hnz hl hce hde
    rw [e_cur] at hce hde
    rw [e_pool]
    by_cases hc : aget st.cur (r + 1) = s + g.segBandCount
    · rw [hc] at hde; exact absurd hde hnz
    · rw [e_dep, if_neg hc] at hde
      exact hready (r + 1) hr1 hl hce hde
theorem aget_map_current (rows : Array SegRow) (r : Nat) (hr : r < rows.size) :
    aget (rows.map (·.current)) r = (rows.getD r default).current := by
  unfold aget
  simp [Array.getD_eq_getD_getElem?, hr]

theorem aget_map_starting (rows : Array SegRow) (r : Nat) (hr : r < rows.size) :
    aget (rows.map (·.starting)) r = rowStart rows r := by
  unfold aget rowStart
  simp [Array.getD_eq_getD_getElem?, hr]

theorem aget_init_cur (hw : WF g) {r : Nat} (hr : r < g.segRowCount) : aget (initASt g).cur r = rowStart g.rows r := by
  simp only [initASt]
  rw [aget_map_current _ _ (by rw [hw.hrows]; exact hr), hw.row_cur r hr]

theorem inv_init (hw : WF g) : Inv g (initASt g) := by
  have hph := aget_init_ph g
  refine ⟨⟨rfl, hw.hdep, ?_, ?_, ?_, ?_, ?_, ?_, ?_, ?_, ?_, ?_, ?_, ?_, ?_, ?_, fun _ => rfl, ?_⟩, ?_⟩
  · simp [initASt, hw.httl]
  · simp [initASt, hw.hrows]
  · intro r hr; rw [aget_init_cur hw hr]
  · intro r hr; rw [aget_init_cur hw hr]; have := hw.row_le r hr; omega
  · intro r hr t h1 h2; rw [aget_init_cur hw hr] at h2; omega
  · intro r hr t _ _; exact hph t
  · intro t ht; rw [hph] at ht; omega
  · intro t; rw [hph]; omega
  · intro r hr t _ _ h; rw [hph] at h; omega
  · intro r hr t _ _ h; rw [hph] at h; omega
  · intro r hr t h1 h2
    show aget g.dep t = _
    rw [hw.dep0 r hr t h1 h2]
    simp [hph]
  · intro r hr t _ _ h; rw [hph] at h; omega
  · intro r hr t _ _ h; rw [hph] at h; omega
  · simp [initASt]
  · intro r hf; simp [initASt] at hf
  · intro r hr _ _ _; right; simp [initASt]
theorem startRowCurrent_view {st : ASt} {r tc : Nat} (htc : aget st.cur r = tc) (h1 : tc < st.ph.size)
    (h2 : aget st.ph tc = 0) (h3 : tc + 1 < 65536) :
    (startRowCurrent st r).err = st.err ∧ (startRowCurrent st r).dep = st.dep ∧
    (startRowCurrent st r).pool = st.pool ∧ (startRowCurrent st r).selfA = st.selfA ∧
    (startRowCurrent st r).ph = aset st.ph tc 1 ∧
    (startRowCurrent st r).cur = aset st.cur r (tc + 1) := by
  unfold startRowCurrent startSeg
  simp only [htc]
  rw [if_pos ⟨h1, h2⟩, u16_small h3]
  exact ⟨rfl, rfl, rfl, rfl, rfl, rfl⟩

theorem inv_right (hw : WF g) {st st' : ASt} (hi : Inv g st) {s : Nat} (h : assignStep g st (.right s) = some st') :
    Inv g st' := by
  obtain ⟨h0, hready⟩ := hi
  simp only [assignStep] at h
  split at h
  · cases h
  rename_i hc
  have hc1 : s < st.ph.size ∧ aget st.ph s = 2 := by
    by_contra hn; exact hc (Or.inr hn)
  obtain ⟨hs, hph⟩ := hc1
  obtain ⟨r, hr, hs1, hs2⟩ := h0.ph_in s (by omega)
  have hdiv := row_div hw hr hs1 hs2
  have hBt := hasBottom_iff hw hr hs1 hs2
  have hlt := h0.ph2 r hr s hs1 hs2 hph
  have htot := row_lt_total hw hr (show s + 1 ≤ rowEnd g.rows r by omega)
  have hsmall := hw.hsmall
  have hu : u32 (s + 1) = s + 1 := u32_small (by omega)
  rw [hu, hdiv] at h
  have hsz : s + 1 < st.dep.size := by rw [h0.sz_dep]; exact htot
  rw [if_neg (by omega)] at h
  -- the phase value
  have hp : ∃ p, (if hasBottom g s then 3 else 4) = p ∧ (p = 3 ∨ p = 4) ∧
      (p = 3 → r + 1 < g.segRowCount ∧ rowStart g.rows (r + 1) ≤ s + g.segBandCount) ∧
      (p = 4 → ¬ (r + 1 < g.segRowCount ∧ rowStart g.rows (r + 1) ≤ s + g.segBandCount)) := by
    refine ⟨_, rfl, ?_⟩
    by_cases b : hasBottom g s = true <;> simp [b] <;> simp_all
  obtain ⟨p, hpe, hp34, hp3, hp4⟩ := hp
  rw [hpe] at h
  generalize hd : u8 (aget st.dep (s + 1) + 255) = d at h
  -- the intermediate state: decrement + phase advance
  let stA : ASt := { st with dep := aset st.dep (s + 1) d, ph := aset st.ph s p }
  have hA := inv_decR hw (st' := stA) h0 hr hs1 hs2 hph hp3 hp4 hp34 h0.err0 rfl rfl (size_aset _ _ _) (size_aset _ _ _)
    (aget_aset' hs p) (by intro t; rw [hd]; exact aget_aset' hsz d t) hready
  obtain ⟨hA0, hAready, hcur, hle, _, _, hnm, hz, hnz⟩ := hA
  have hdA : aget stA.dep (s + 1) = d := by
    show aget (aset st.dep (s + 1) d) (s + 1) = d
    rw [aget_aset' hsz]; simp
  by_cases hd0 : d = 0
  · -- hand out s + 1
    rw [if_pos hd0, if_pos hd0] at h
    have hph1 : aget st.ph (s + 1) = 0 := h0.ph_unstarted r hr (s + 1) (by omega) hle
    have hv := startRowCurrent_view (st := { st with dep := aset st.dep (s + 1) d }) (r := r) hcur
      (by rw [h0.sz_ph]; exact htot) hph1 (by omega)
    obtain ⟨v1, v2, v3, v4, v5, v6⟩ := hv
    injection h with h
    subst h
    refine inv_start hw (st := stA) hA0 hr (by show aget st.cur r ≤ _; omega) (by show aget stA.dep (aget st.cur r) = 0; rw [hcur, hdA, hd0])
      (hz (by rw [hdA, hd0])) hnm (Or.inr (Or.inl (by show rowStart g.rows r < aget st.cur r; omega))) ?_ ?_ ?_ ?_ ?_ ?_ ?_ hAready
    · show (startRowCurrent _ r).err = 0
      rw [v1]; exact h0.err0
    · show (startRowCurrent _ r).dep = _
      rw [v2]
    · show (startRowCurrent _ r).pool = _
      rw [v3]
    · show (aset (startRowCurrent _ r).ph s p).size = (aset st.ph s p).size
      rw [size_aset, size_aset, v5, size_aset]
    · show (startRowCurrent _ r).cur.size = st.cur.size
      rw [v6, size_aset]
    · intro t
      show aget (aset (startRowCurrent _ r).ph s p) t = if t = aget st.cur r then 1 else aget (aset st.ph s p) t
      rw [v5, hcur, aget_aset' (by rw [size_aset]; exact hs), aget_aset' (by rw [h0.sz_ph]; exact htot), aget_aset' hs]
      by_cases e1 : t = s <;> by_cases e2 : t = s + 1 <;> simp [e1, e2]
    · intro r'
      show aget (startRowCurrent _ r).cur r' = if r' = r then aget st.cur r + 1 else aget st.cur r'
      rw [v6, hcur, aget_aset' (by rw [h0.sz_cur]; exact hr)]
  · rw [if_neg hd0, if_neg hd0] at h
    injection h with h
    subst h
    have hB := inv_decR hw (st' := { st with dep := aset st.dep (s + 1) d, ph := aset st.ph s p, selfA := aset st.selfA s 0 })
      h0 hr hs1 hs2 hph hp3 hp4 hp34 h0.err0 rfl rfl (size_aset _ _ _) (size_aset _ _ _)
      (aget_aset' hs p) (by intro t; rw [hd]; exact aget_aset' hsz d t) hready
    obtain ⟨hB0, hBready, _, _, _, _, _, _, hBnz⟩ := hB
    refine ⟨hB0, ?_⟩
    intro r' hr'
    by_cases e : r' = r
    · subst e
      apply hBnz
      show aget (aset st.dep (s + 1) d) (s + 1) ≠ 0
      rw [aget_aset' hsz]; simpa using hd0
    · exact hBready r' hr' e
theorem inv_bottom (hw : WF g) {st st' : ASt} (hi : Inv g st) {s : Nat} (h : assignStep g st (.bottom s) = some st') :
    Inv g st' := by
  obtain ⟨h0, hready⟩ := hi
  simp only [assignStep] at h
  split at h
  · cases h
  rename_i hc
  have hc1 : s < st.ph.size ∧ aget st.ph s = 3 := by
    by_contra hn; exact hc (Or.inr hn)
  obtain ⟨hs, hph⟩ := hc1
  obtain ⟨r, hr, hs1, hs2⟩ := h0.ph_in s (by omega)
  have hdiv := row_div hw hr hs1 hs2
  obtain ⟨hr1, hb1⟩ := h0.ph3 r hr s hs1 hs2 hph
  have hb2 : s + g.segBandCount ≤ rowEnd g.rows (r + 1) := by have := hw.en_mono r hr1; omega
  have htot := row_lt_total hw hr1 hb2
  have hsmall := hw.hsmall
  have hu : u32 (s + g.segBandCount) = s + g.segBandCount := u32_small (by omega)
  rw [hu, hdiv] at h
  have hsz : s + g.segBandCount < st.dep.size := by rw [h0.sz_dep]; exact htot
  rw [if_neg (by omega)] at h
  generalize hd : u8 (aget st.dep (s + g.segBandCount) + 255) = d at h
  let stA : ASt := { st with dep := aset st.dep (s + g.segBandCount) d, ph := aset st.ph s 4 }
  have hA := inv_decB hw (st' := stA) h0 hr hs1 hs2 hph h0.err0 rfl rfl (size_aset _ _ _) (size_aset _ _ _)
    (aget_aset' hs 4) (by intro t; rw [hd]; exact aget_aset' hsz d t) hready
  obtain ⟨hA0, hAready, _, _, _, _, _, hnm, hbp, hz, hnz⟩ := hA
  have hdA : aget stA.dep (s + g.segBandCount) = d := by
    show aget (aset st.dep (s + g.segBandCount) d) (s + g.segBandCount) = d
    rw [aget_aset' hsz]; simp
  by_cases hd0 : d = 0
  · rw [if_pos hd0] at h
    obtain ⟨hcur, hnf⟩ := hz (by rw [hdA, hd0])
    by_cases hself : aget st.selfA s = 1
    · rw [if_pos hself] at h
      injection h with h
      subst h
      exact inv_token hw (st := stA) hA0 hr1 (by show aget st.cur (r + 1) ≤ _; omega)
        (by show aget stA.dep (aget st.cur (r + 1)) = 0; rw [hcur, hdA, hd0]) hnf hnm
        (by show botPred g (r + 1) (aget st.cur (r + 1)); rw [hcur]; exact hbp) hAready
    · rw [if_neg hself] at h
      have hph1 : aget st.ph (s + g.segBandCount) = 0 :=
        h0.ph_unstarted (r + 1) hr1 (s + g.segBandCount) (by omega) hb2
      have hv := startRowCurrent_view (st := { st with dep := aset st.dep (s + g.segBandCount) d }) (r := r + 1) hcur
        (by rw [h0.sz_ph]; exact htot) hph1 (by omega)
      obtain ⟨v1, v2, v3, v4, v5, v6⟩ := hv
      injection h with h
      subst h
      refine inv_start hw (st := stA) hA0 hr1 (by show aget st.cur (r + 1) ≤ _; omega)
        (by show aget stA.dep (aget st.cur (r + 1)) = 0; rw [hcur, hdA, hd0]) hnf hnm
        (Or.inr (Or.inr (by show botPred g (r + 1) (aget st.cur (r + 1)); rw [hcur]; exact hbp))) ?_ ?_ ?_ ?_ ?_ ?_ ?_ hAready
      · show (startRowCurrent _ (r + 1)).err = 0
        rw [v1]; exact h0.err0
      · show (startRowCurrent _ (r + 1)).dep = _
        rw [v2]
      · show (startRowCurrent _ (r + 1)).pool = _
        rw [v3]
      · show (aset (startRowCurrent _ (r + 1)).ph s 4).size = (aset st.ph s 4).size
        rw [size_aset, size_aset, v5, size_aset]
      · show (startRowCurrent _ (r + 1)).cur.size = st.cur.size
        rw [v6, size_aset]
      · intro t
        show aget (aset (startRowCurrent _ (r + 1)).ph s 4) t = if t = aget st.cur (r + 1) then 1 else aget (aset st.ph s 4) t
        rw [v5, hcur, aget_aset' (by rw [size_aset]; exact hs), aget_aset' (by rw [h0.sz_ph]; exact htot), aget_aset' hs]
        have hBpos := hw.hB
        by_cases e1 : t = s <;> by_cases e2 : t = s + g.segBandCount <;> simp [e1, e2] <;> omega
      · intro r'
        show aget (startRowCurrent _ (r + 1)).cur r' = if r' = r + 1 then aget st.cur (r + 1) + 1 else aget st.cur r'
        rw [v6, hcur, aget_aset' (by rw [h0.sz_cur]; exact hr1)]
  · rw [if_neg hd0] at h
    injection h with h
    subst h
    refine ⟨hA0, ?_⟩
    intro r' hr'
    by_cases e : r' = r + 1
    · subst e
      apply hnz
      rw [hdA]; exact hd0
    · exact hAready r' hr' e
theorem mem_eraseIdx_of_ne {α} {l : List α} {k : Nat} {a b : α} (hb : b ∈ l) (hk : l[k]? = some a) (hne : b ≠ a) :
    b ∈ l.eraseIdx k := by
  rw [List.mem_eraseIdx_iff_getElem?]
  obtain ⟨i, hi⟩ := List.getElem?_of_mem hb
  refine ⟨i, ?_, hi⟩
  intro e; subst e
  rw [hk] at hi; injection hi with hi; exact hne hi.symm

theorem not_mem_eraseIdx_of_nodup {α} {l : List α} {k : Nat} {a : α} (hn : l.Nodup) (hk : l[k]? = some a) :
    a ∉ l.eraseIdx k := by
  rw [List.mem_eraseIdx_iff_getElem?]
  intro ⟨i, hik, hi⟩
  apply hik
  have hil : i < l.length := by
    by_contra hn'; rw [List.getElem?_eq_none (by omega)] at hi; cases hi
  exact (List.getElem?_inj hil hn).1 (hi.trans hk.symm)

theorem mem_of_mem_eraseIdx' {α} {l : List α} {k : Nat} {b : α} (h : b ∈ l.eraseIdx k) : b ∈ l := by
  rw [List.mem_eraseIdx_iff_getElem?] at h
  obtain ⟨i, _, hi⟩ := h
  exact List.mem_of_getElem? hi

theorem inv_take (hw : WF g) {st st' : ASt} (hi : Inv g st) {k : Nat} (h : assignStep g st (.take k) = some st') :
    Inv g st' := by
  obtain ⟨h0, hready⟩ := hi
  simp only [assignStep] at h
  split at h
  · cases h
  split at h
  · cases h
  · -- MDC_INPUT: the state is the initial one
    rename_i hk
    have hm : Task.mdc ∈ st.pool := List.mem_of_getElem? hk
    have hst := h0.pool_mdc hm
    subst hst
    have hk0 : k = 0 := by
      have : k < 1 := by
        by_contra hn
        have hk' : ([Task.mdc] : List Task)[k]? = some Task.mdc := hk
        rw [List.getElem?_eq_none (by simp; omega)] at hk'; cases hk'
      omega
    subst hk0
    have hR := hw.hR
    have hB := hw.hB
    have hcur0 : aget (g.rows.map (·.starting)) 0 = rowStart g.rows 0 :=
      aget_map_starting _ _ (by rw [hw.hrows]; exact hR)
    have hle0 := hw.row_le 0 hR
    have htot := row_lt_total hw hR hle0
    have hsmall := hw.hsmall
    let stA : ASt := { dep := (initASt g).dep, cur := g.rows.map (·.starting), ph := (initASt g).ph, selfA := (initASt g).selfA, pool := [], err := (initASt g).err }
    have hph := aget_init_ph g
    have hcurA : ∀ r, r < g.segRowCount → aget stA.cur r = rowStart g.rows r := fun r hr =>
      aget_map_starting _ _ (by rw [hw.hrows]; exact hr)
    have hA0 : Inv0 g stA := by
      refine ⟨rfl, hw.hdep, h0.sz_ph, ?_, ?_, ?_, ?_, ?_, ?_, ?_, ?_, ?_, ?_, ?_, ?_, ?_, ?_, ?_⟩
      · show (g.rows.map (·.starting)).size = _
        simp [hw.hrows]
      · intro r hr; rw [hcurA r hr]
      · intro r hr; rw [hcurA r hr]; have := hw.row_le r hr; omega
      · intro r hr t h1 h2; rw [hcurA r hr] at h2; omega
      · intro r hr t _ _; exact hph t
      · intro t ht; have := hph t; change 1 ≤ aget (initASt g).ph t at ht; omega
      · intro t; exact (hph t).le.trans (by omega)
      · intro r hr t _ _ h; have := hph t; change aget (initASt g).ph t = 2 at h; omega
      · intro r hr t _ _ h; have := hph t; change aget (initASt g).ph t = 3 at h; omega
      · exact h0.dep_eq
      · intro r hr t _ _ h; have := hph t; change 1 ≤ aget (initASt g).ph t at h; omega
      · intro r hr t _ _ h; have := hph t; change 1 ≤ aget (initASt g).ph t at h; omega
      · exact List.nodup_nil
      · intro hm'; cases hm'
      · intro r hf; cases hf
    have hdep00 : aget stA.dep (aget stA.cur 0) = 0 := by
      rw [hcurA 0 hR]
      show aget g.dep _ = 0
      rw [hw.dep0 0 hR _ (Nat.le_refl _) hle0]
      simp [botPred]
    have hAready : ∀ r, r < g.segRowCount → r ≠ 0 → Ready g stA r := by
      intro r hr hne hl hce hde
      exfalso
      rw [hcurA r hr] at hde
      change aget g.dep _ = 0 at hde
      rw [hw.dep0 r hr _ (Nat.le_refl _) (hw.row_le r hr)] at hde
      have h1 := hw.st_mono (r - 1) (by omega)
      have h2 := hl (r - 1) (by omega)
      have e : r - 1 + 1 = r := by omega
      rw [e] at h1 h2
      have : botPred g r (rowStart g.rows r) := ⟨by omega, h1, h2⟩
      rw [if_pos this] at hde
      omega
    have hv := startRowCurrent_view (st := { dep := (initASt g).dep, cur := g.rows.map (·.starting), ph := (initASt g).ph, selfA := (initASt g).selfA, pool := (initASt g).pool.eraseIdx 0, err := (initASt g).err })
      (r := 0) hcur0 (by show rowStart g.rows 0 < (initASt g).ph.size; rw [h0.sz_ph]; exact htot) (hph _) (by omega)
    obtain ⟨v1, v2, v3, v4, v5, v6⟩ := hv
    injection h with h
    subst h
    refine inv_start hw (st := stA) hA0 hR (by rw [hcurA 0 hR]; exact hle0) hdep00 (by intro hf; cases hf) (by intro hf; cases hf)
      (Or.inl ⟨hcurA 0 hR, rfl⟩) ?_ ?_ ?_ ?_ ?_ ?_ ?_ hAready
    · rw [v1]; rfl
    · rw [v2]
    · rw [v3]; rfl
    · rw [v5, size_aset]
    · rw [v6, size_aset]
    · intro t
      rw [v5, hcurA 0 hR, aget_aset' (by show rowStart g.rows 0 < (initASt g).ph.size; rw [h0.sz_ph]; exact htot)]
    · intro r'
      rw [v6, hcurA 0 hR, aget_aset' (by show 0 < (g.rows.map (·.starting)).size; simp [hw.hrows]; exact hR)]
  · -- ENCDEC_INPUT (feedback task)
    rename_i r hk
    have hf : Task.fb r ∈ st.pool := List.mem_of_getElem? hk
    obtain ⟨hr, hce, hde, hbpf⟩ := h0.pool_fb r hf
    have hnm : Task.mdc ∉ st.pool := by
      intro hm
      have hst := h0.pool_mdc hm
      rw [hst] at hf
      simp [initASt] at hf
    have hlo := h0.cur_lo r hr
    have htot := row_lt_total hw hr hce
    have hsmall := hw.hsmall
    let stA : ASt := { st with pool := st.pool.eraseIdx k }
    have hA0 : Inv0 g stA := by
      refine ⟨h0.err0, h0.sz_dep, h0.sz_ph, h0.sz_cur, h0.cur_lo, h0.cur_hi, h0.ph_started, h0.ph_unstarted, h0.ph_in,
        h0.ph_le, h0.ph2, h0.ph3, h0.dep_eq, h0.started_dep0, h0.started_pred, ?_, ?_, ?_⟩
      · exact h0.pool_nodup.sublist (List.eraseIdx_sublist _ _)
      · intro hm; exact absurd (mem_of_mem_eraseIdx' hm) hnm
      · intro r' hf'; exact h0.pool_fb r' (mem_of_mem_eraseIdx' hf')
    have hAready : ∀ r', r' < g.segRowCount → r' ≠ r → Ready g stA r' := by
      intro r' hr' hne hl h1 h2
      rcases hready r' hr' hl h1 h2 with h | h
      · left; exact mem_eraseIdx_of_ne h hk (by intro e; injection e with e; exact hne e)
      · exact absurd h hnm
    have hph1 := h0.ph_unstarted r hr _ (Nat.le_refl _) hce
    have hv := startRowCurrent_view (st := { st with pool := st.pool.eraseIdx k }) (r := r) rfl
      (by show aget st.cur r < st.ph.size; rw [h0.sz_ph]; exact htot) hph1 (by show aget st.cur r + 1 < 65536; omega)
    obtain ⟨v1, v2, v3, v4, v5, v6⟩ := hv
    injection h with h
    subst h
    refine inv_start hw (st := stA) hA0 hr hce hde (not_mem_eraseIdx_of_nodup h0.pool_nodup hk)
      (fun hm => hnm (mem_of_mem_eraseIdx' hm)) (Or.inr (Or.inr hbpf)) ?_ ?_ ?_ ?_ ?_ ?_ ?_ hAready
    · rw [v1]; exact h0.err0
    · rw [v2]
    · rw [v3]
    · rw [v5, size_aset]
    · rw [v6, size_aset]
    · intro t
      rw [v5, aget_aset' (by show aget st.cur r < st.ph.size; rw [h0.sz_ph]; exact htot)]
    · intro r'
      rw [v6, aget_aset' (by show r < st.cur.size; rw [h0.sz_cur]; exact hr)]
theorem inv_fin (hw : WF g) {st st' : ASt} (hi' : Inv g st) {s : Nat} (h : assignStep g st (.fin s) = some st') :
    Inv g st' := by
  obtain ⟨hi, hready⟩ := hi'
  simp only [assignStep] at h
  split at h
  · cases h
  rename_i hc
  have hc1 : s < st.ph.size ∧ aget st.ph s = 1 := by
    by_contra hn; exact hc (Or.inr hn)
  obtain ⟨hs, hph⟩ := hc1
  obtain ⟨r, hr, hs1, hs2⟩ := hi.ph_in s (by omega)
  have hR := hasRight_iff hw hr hs1 hs2
  have hBt := hasBottom_iff hw hr hs1 hs2
  injection h with h
  subst h
  have hp : ∃ p, (if hasRight g s then 2 else if hasBottom g s then 3 else 4) = p ∧ 2 ≤ p ∧ p ≤ 4 ∧
      (p = 2 → s < rowEnd g.rows r) ∧ (p ≠ 2 → ¬ s < rowEnd g.rows r) ∧
      (p = 3 → r + 1 < g.segRowCount ∧ rowStart g.rows (r + 1) ≤ s + g.segBandCount) ∧
      (p = 4 → ¬ (r + 1 < g.segRowCount ∧ rowStart g.rows (r + 1) ≤ s + g.segBandCount)) := by
    refine ⟨_, rfl, ?_⟩
    by_cases a : hasRight g s = true <;> by_cases b : hasBottom g s = true <;> simp [a, b] <;> simp_all
  obtain ⟨p, hpe, hp2, hp4, hpa, hpb, hpc, hpd⟩ := hp
  rw [hpe]
  have hne := aget_aset' hs p
  refine ⟨⟨hi.err0, hi.sz_dep, (size_aset _ _ _).trans hi.sz_ph, hi.sz_cur, hi.cur_lo, hi.cur_hi,
    ?_, ?_, ?_, ?_, ?_, ?_, ?_, ?_, ?_, hi.pool_nodup, ?_, ?_⟩, ?_⟩
  all_goals try simp only [hne]
  · -- ph_started
    intro r' hr' t h1 h2
    have := hi.ph_started r' hr' t h1 h2
    split <;> omega
  · -- ph_unstarted
    intro r' hr' t h1 h2
    have := hi.ph_unstarted r' hr' t h1 h2
    split
    · subst_vars; omega
    · exact this
  · -- ph_in
    intro t ht
    by_cases hts : t = s
    · subst hts; exact ⟨r, hr, hs1, hs2⟩
    · simp only [hts, if_false] at ht; exact hi.ph_in t ht
  · -- ph_le
    intro t
    have := hi.ph_le t
    split <;> omega
  · -- ph2
    intro r' hr' t h1 h2 h3
    by_cases hts : t = s
    · subst hts
      have := row_unique hw hr hr' hs1 hs2 h1 h2
      subst this
      simp at h3; exact hpa h3
    · simp only [hts, if_false] at h3; exact hi.ph2 r' hr' t h1 h2 h3
  · -- ph3
    intro r' hr' t h1 h2 h3
    by_cases hts : t = s
    · subst hts
      have := row_unique hw hr hr' hs1 hs2 h1 h2
      subst this
      simp at h3; exact hpc h3
    · simp only [hts, if_false] at h3; exact hi.ph3 r' hr' t h1 h2 h3
  · -- dep_eq
    intro r' hr' t h1 h2
    rw [hi.dep_eq r' hr' t h1 h2]
    have e1 : (rowStart g.rows r' < t ∧ (if t - 1 = s then p else aget st.ph (t - 1)) < 3) ↔
        (rowStart g.rows r' < t ∧ aget st.ph (t - 1) < 3) := by
      by_cases hts : t - 1 = s
      · simp only [hts, if_true, hph]
        constructor
        · intro ⟨a, b⟩; exact ⟨a, by omega⟩
        · intro ⟨a, _⟩
          have := row_unique hw hr hr' hs1 hs2 (by omega) (by omega)
          subst this
          refine ⟨a, ?_⟩
          by_cases hp' : p = 2
          · omega
          · have := hpb hp'; omega
      · simp only [hts, if_false]
    have e2 : (botPred g r' t ∧ (if t - g.segBandCount = s then p else aget st.ph (t - g.segBandCount)) < 4) ↔
        (botPred g r' t ∧ aget st.ph (t - g.segBandCount) < 4) := by
      by_cases hts : t - g.segBandCount = s
      · simp only [hts, if_true, hph]
        constructor
        · intro ⟨a, b⟩; exact ⟨a, by omega⟩
        · intro ⟨a, _⟩
          refine ⟨a, ?_⟩
          obtain ⟨b1, b2, b3⟩ := a
          have := row_unique hw hr (show r' - 1 < g.segRowCount by omega) hs1 hs2 (by omega) (by omega)
          subst this
          by_cases hp' : p = 4
          · have := hpd hp'
            exfalso; apply this
            have : r' - 1 + 1 = r' := by omega
            rw [this]
            exact ⟨hr', by omega⟩
          · omega
      · simp only [hts, if_false]
    simp only [e1, e2]
  · -- started_dep0
    intro r' hr' t h1 h2 h3
    apply hi.started_dep0 r' hr' t h1 h2
    by_cases hts : t = s
    · subst hts; omega
    · simpa only [hts, if_false] using h3
  · -- started_pred
    intro r' hr' t h1 h2 h3
    apply hi.started_pred r' hr' t h1 h2
    by_cases hts : t = s
    · subst hts; omega
    · simpa only [hts, if_false] using h3
  · -- pool_mdc
    intro hm
    have := hi.pool_mdc hm
    rw [this, aget_init_ph] at hph
    omega
  · exact hi.pool_fb
  · exact hready

theorem inv_step (hw : WF g) {st st' : ASt} (hi : Inv g st) {op : Op} (h : assignStep g st op = some st') :
    Inv g st' := by
  cases op with
  | take k => exact inv_take hw hi h
  | fin s => exact inv_fin hw hi h
  | right s => exact inv_right hw hi h
  | bottom s => exact inv_bottom hw hi h

/-- states reachable from the initial state (one MDC task in the pool) by any sequence of atomic steps of any
    number of workers -/
inductive Reachable (g : SegCtl) : ASt → Prop where
  | init : Reachable g (initASt g)
  | step {st st' : ASt} {op : Op} : Reachable g st → assignStep g st op = some st' → Reachable g st'

theorem reachable_inv (hw : WF g) {st : ASt} (h : Reachable g st) : Inv g st := by
  induction h with
  | init => exact inv_init hw
  | step _ hs ih => exact inv_step hw ih hs

/-- no atomic step is enabled: every worker is waiting for a task and the task pool is empty -/
def Terminal (g : SegCtl) (st : ASt) : Prop := ∀ op, assignStep g st op = none

theorem terminal_pool (_hw : WF g) {st : ASt} (hi : Inv g st) (ht : Terminal g st) : st.pool = [] := by
  cases hp : st.pool with
  | nil => rfl
  | cons a l =>
    exfalso
    have := ht (.take 0)
    simp only [assignStep, hi.1.err0, hp] at this
    cases a <;> simp at this

theorem terminal_ph (hw : WF g) {st : ASt} (hi : Inv g st) (ht : Terminal g st) (t : Nat) :
    aget st.ph t = 0 ∨ aget st.ph t = 4 := by
  have hle := hi.1.ph_le t
  by_contra hn
  have h1 : 1 ≤ aget st.ph t := by omega
  obtain ⟨r, hr, a, b⟩ := hi.1.ph_in t h1
  have hsz : t < st.ph.size := by rw [hi.1.sz_ph]; exact row_lt_total hw hr b
  have h123 : aget st.ph t = 1 ∨ aget st.ph t = 2 ∨ aget st.ph t = 3 := by omega
  rcases h123 with h | h | h
  · have := ht (.fin t)
    simp [assignStep, hi.1.err0, hsz, h] at this
  · have := ht (.right t)
    simp only [assignStep, hi.1.err0, hsz, h] at this
    simp at this
    split at this <;> simp at this
  · have := ht (.bottom t)
    simp only [assignStep, hi.1.err0, hsz, h] at this
    simp at this
    split at this <;> simp at this

theorem terminal_rows (hw : WF g) (hl : Live g) {st : ASt} (hi : Inv g st) (ht : Terminal g st) :
    ∀ r, r < g.segRowCount → aget st.cur r = rowEnd g.rows r + 1 := by
  have hpool := terminal_pool hw hi ht
  intro r
  induction r using Nat.strong_induction_on with
  | _ r ih =>
    intro hr
    have hhi := hi.1.cur_hi r hr
    have hlo := hi.1.cur_lo r hr
    by_contra hne
    have hce : aget st.cur r ≤ rowEnd g.rows r := by omega
    have hd := hi.1.dep_eq r hr _ hlo hce
    have h1 : ¬ (rowStart g.rows r < aget st.cur r ∧ aget st.ph (aget st.cur r - 1) < 3) := by
      intro ⟨a, b⟩
      have := hi.1.ph_started r hr (aget st.cur r - 1) (by omega) (by omega)
      rcases terminal_ph hw hi ht (aget st.cur r - 1) with h | h <;> omega
    have h2 : ¬ (botPred g r (aget st.cur r) ∧ aget st.ph (aget st.cur r - g.segBandCount) < 4) := by
      intro ⟨⟨a1, a2, a3⟩, b⟩
      have hc := ih (r - 1) (by omega) (by omega)
      have := hi.1.ph_started (r - 1) (by omega) (aget st.cur r - g.segBandCount) (by omega) (by omega)
      rcases terminal_ph hw hi ht (aget st.cur r - g.segBandCount) with h | h <;> omega
    rw [if_neg h1, if_neg h2] at hd
    rcases hi.2 r hr hl hce hd with h | h <;> rw [hpool] at h <;> cases h

/-- **Completion**: in a terminal reachable state every segment of every row has been handed out and its
    CONTINUE call has returned. -/
theorem terminal_done (hw : WF g) (hl : Live g) {st : ASt} (hi : Inv g st) (ht : Terminal g st) :
    ∀ r, r < g.segRowCount → ∀ t, rowStart g.rows r ≤ t → t ≤ rowEnd g.rows r → aget st.ph t = 4 := by
  intro r hr t h1 h2
  have hc := terminal_rows hw hl hi ht r hr
  have := hi.1.ph_started r hr t h1 (by omega)
  rcases terminal_ph hw hi ht t with h | h <;> omega

/-- A row whose first segment has no predecessor at all (other than row 0) is never handed out. -/
theorem orphan_never_starts (hw : WF g) {r : Nat} (hr1 : r + 1 < g.segRowCount)
    (hgap : rowEnd g.rows r + g.segBandCount < rowStart g.rows (r + 1)) {st : ASt} (h : Reachable g st) :
    aget st.ph (rowStart g.rows (r + 1)) = 0 := by
  have hi := (reachable_inv hw h).1
  by_contra hne
  have := hi.started_pred (r + 1) hr1 _ (Nat.le_refl _) (hw.row_le _ hr1) (by omega)
  rcases this with ⟨_, h0⟩ | h1 | ⟨_, _, h3⟩
  · omega
  · omega
  · simp at h3; omega

end Seg
