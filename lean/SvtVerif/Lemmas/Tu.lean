/-
  Helper lemmas for the temporal-unit structure theorem (C02).
-/
import SvtVerif.Model.Tu
import Mathlib.Tactic.Linarith

namespace TuLemmas
open Obu Tu

/-- Reading the three leading fields back from the first header byte. -/
theorem first_byte_fields : ∀ (ft : Fin 4) (sf : Bool) (low : Fin 16),
    let b := (ft.val * 32 + (if sf then 16 else 0) + low.val).toUInt8.toNat
    (b >>> 7 == 1) = false ∧ (b >>> 5) &&& 3 = ft.val ∧ ((b >>> 4) &&& 1 == 1) = sf := by decide

theorem show_existing_byte : ∀ (idx : Fin 8),
    ((128 + idx.val * 16 + 8).toUInt8.toNat >>> 7 == 1) = true := by decide

theorem frameObu_fields (e : Entry) :
    obuShowExisting (frameObu e) = false ∧ obuFrameType (frameObu e) = e.frameType % 4 ∧
      obuShowFrame (frameObu e) = e.showFrame := by
  have h := first_byte_fields ⟨e.frameType % 4, Nat.mod_lt _ (by decide)⟩ e.showFrame
    ⟨e.hdrLow % 16, Nat.mod_lt _ (by decide)⟩
  simpa [obuShowExisting, obuFrameType, obuShowFrame, firstByte, frameObu, frameFirstByte] using h

theorem showExistingObu_fields (e : Entry) : obuShowExisting (showExistingObu e) = true := by
  have h := show_existing_byte ⟨e.showExistingIdx % 8, Nat.mod_lt _ (by decide)⟩
  simpa [obuShowExisting, firstByte, showExistingObu] using h

/-- Metadata OBUs keep `ok`, the count and `seqSeen`. -/
theorem scan_metadata (mds : List (List UInt8)) (s : Scan) :
    ((mds.map mdObu).foldl scanStep s).ok = s.ok ∧
    ((mds.map mdObu).foldl scanStep s).nDisplayed = s.nDisplayed ∧
    ((mds.map mdObu).foldl scanStep s).seqSeen = s.seqSeen := by
  induction mds generalizing s with
  | nil => simp
  | cons m ms ih =>
    simp only [List.map_cons, List.foldl_cons]
    have hstep : scanStep s (mdObu m) = { s with lastDisplayed := false } := by
      simp [scanStep, mdObu, OBU_METADATA, OBU_SEQUENCE_HEADER]
    rw [hstep]
    exact ih _

/-- Scanning the output buffer of one picture. -/
theorem scan_entry (e : Entry) (s : Scan) :
    ((entryObus e).foldl scanStep s).ok = s.ok ∧
    ((entryObus e).foldl scanStep s).nDisplayed = s.nDisplayed + (if e.showFrame then 1 else 0) ∧
    ((entryObus e).foldl scanStep s).lastDisplayed = e.showFrame := by
  obtain ⟨f1, f2, f3⟩ := frameObu_fields e
  have hframe : ∀ t : Scan, scanStep t (frameObu e) =
      { seqSeen := false, nDisplayed := t.nDisplayed + (if e.showFrame then 1 else 0),
        lastDisplayed := e.showFrame, ok := t.ok && (e.frameType % 4 != 0 || t.seqSeen) } := by
    intro t
    have ht : (frameObu e).obuType = OBU_FRAME := rfl
    simp [scanStep, ht, OBU_FRAME, OBU_SEQUENCE_HEADER, OBU_METADATA, f1, f2, f3]
  by_cases hk : e.frameType % 4 = 0
  · -- key frame: the sequence header comes first
    have hseq : scanStep s (seqObu e) = { s with seqSeen := true, lastDisplayed := false } := by
      simp [scanStep, seqObu]
    simp only [entryObus, hk, if_true, List.cons_append, List.nil_append, List.foldl_cons, List.foldl_append,
      List.foldl_nil, hseq, hframe]
    obtain ⟨m1, m2, m3⟩ := scan_metadata e.metadata { s with seqSeen := true, lastDisplayed := false }
    simp [m1, m2, m3]
  · simp only [entryObus, hk, if_false, List.nil_append, List.foldl_cons, List.foldl_append,
      List.foldl_nil, hframe]
    obtain ⟨m1, m2, _⟩ := scan_metadata e.metadata s
    simp [m1, m2, hk]

/-- Scanning a run of non-shown pictures. -/
theorem scan_hidden (pre : List Entry) (hpre : ∀ e ∈ pre, e.showFrame = false) (s : Scan) :
    ((pre.flatMap entryObus).foldl scanStep s).ok = s.ok ∧
    ((pre.flatMap entryObus).foldl scanStep s).nDisplayed = s.nDisplayed := by
  induction pre generalizing s with
  | nil => simp
  | cons e es ih =>
    simp only [List.flatMap_cons, List.foldl_append]
    obtain ⟨h1, h2, _⟩ := scan_entry e s
    have he : e.showFrame = false := hpre e (by simp)
    obtain ⟨i1, i2⟩ := ih (fun x hx => hpre x (by simp [hx])) ((entryObus e).foldl scanStep s)
    simp only [he, Bool.false_eq_true, if_false, Nat.add_zero] at h2
    exact ⟨by rw [i1, h1], by rw [i2, h2]⟩

/-- Shape of what `count_frames_in_next_tu` selects. -/
theorem countGo_shape (slots : List (Option Entry)) : ∀ (i n : Nat), countGo slots i = n → n ≠ 0 → n < i + slots.length →
    ∃ pre l, slots.take (n - i) = (pre ++ [l]).map some ∧ (∀ e ∈ pre, e.showFrame = false) ∧ l.showFrame = true ∧
      n = i + pre.length + 1 := by
  induction slots with
  | nil => intro i n h _ hlt; simp [countGo] at h; simp at hlt; omega
  | cons s rest ih =>
    intro i n h hn hlt
    cases s with
    | none => simp [countGo] at h; omega
    | some e =>
      simp only [countGo] at h
      by_cases hs : e.showFrame = true
      · simp only [hs, if_true] at h
        refine ⟨[], e, ?_, by simp, hs, by simp; omega⟩
        subst h
        simp
      · simp only [hs, Bool.false_eq_true, if_false] at h
        have hsf : e.showFrame = false := by simpa using hs
        simp only [List.length_cons] at hlt
        obtain ⟨pre, l, h1, h2, h3, h4⟩ := ih (i + 1) n h hn (by omega)
        refine ⟨e :: pre, l, ?_, ?_, h3, by simp; omega⟩
        · have : n - i = (n - (i + 1)) + 1 := by omega
          rw [this, List.take_succ_cons, h1]; simp
        · intro x hx
          rcases List.mem_cons.mp hx with rfl | hx
          · exact hsf
          · exact h2 x hx

end TuLemmas
