/-
  Helper lemmas for the OBU framing sites (C02): soundness of the linear normal form, the buffer layout produced by
  the reserve – move – encode sequence, and what `Site.consistent` implies for every header / payload size.
-/
import SvtVerif.Model.ObuSite
import SvtVerif.Lemmas.Obu
import Mathlib.Tactic.Linarith
import Mathlib.Tactic.Ring

namespace ObuSiteLemmas
open Leb128 Obu ObuSite ObuLemmas

/-! ### normal forms -/

theorem lin_add_eval (a b : Lin) (h p : Nat) : (a.add b).eval h p = a.eval h p + b.eval h p := by
  simp only [Lin.add, Lin.eval]; ring

theorem lin_sub_eval (a b : Lin) (h p : Nat) : (a.sub b).eval h p = a.eval h p - b.eval h p := by
  simp only [Lin.sub, Lin.eval]; ring

theorem ulebSum_append (h p : Nat) (a b : List Lin) : ulebSum h p (a ++ b) = ulebSum h p a + ulebSum h p b := by
  induction a with
  | nil => simp [ulebSum]
  | cons x xs ih => simp only [List.cons_append, ulebSum, ih]; ring

/-- The normal form has the value of the expression, for every header and payload size. -/
theorem norm_sound (e : SzExpr) : ∀ n, norm e = some n → ∀ h p, e.eval h p = n.eval h p := by
  induction e with
  | hdr => intro n hn h p; simp only [norm, Option.some.injEq] at hn; subst hn; simp [SzExpr.eval, LinU.eval, Lin.eval, ulebSum]
  | payload => intro n hn h p; simp only [norm, Option.some.injEq] at hn; subst hn; simp [SzExpr.eval, LinU.eval, Lin.eval, ulebSum]
  | lit k => intro n hn h p; simp only [norm, Option.some.injEq] at hn; subst hn; simp [SzExpr.eval, LinU.eval, Lin.eval, ulebSum]
  | other s => intro n hn; simp [norm] at hn
  | add a b iha ihb =>
    intro n hn h p
    simp only [norm] at hn
    split at hn
    · rename_i x y hx hy
      simp only [Option.some.injEq] at hn; subst hn
      simp only [SzExpr.eval, iha x hx h p, ihb y hy h p, LinU.eval, lin_add_eval, ulebSum_append]; ring
    · simp at hn
  | sub a b iha ihb =>
    intro n hn h p
    simp only [norm] at hn
    split at hn
    · rename_i x l hx hy
      simp only [Option.some.injEq] at hn; subst hn
      simp only [SzExpr.eval, iha x hx h p, ihb _ hy h p, LinU.eval, lin_sub_eval, ulebSum]; ring
    · simp at hn
  | ulebLen a iha =>
    intro n hn h p
    simp only [norm] at hn
    split at hn
    · rename_i l hx
      simp only [Option.some.injEq] at hn; subst hn
      simp only [SzExpr.eval, iha _ hx h p, LinU.eval, Lin.eval, ulebSum]; simp
    · simp at hn

theorem formP_eval (h p : Nat) : formP.eval h p = p := by simp [formP, LinU.eval, Lin.eval, ulebSum]
theorem formH_eval (h p : Nat) : formH.eval h p = h := by simp [formH, LinU.eval, Lin.eval, ulebSum]
theorem formLit_eval (k h p : Nat) : (formLit k).eval h p = k := by simp [formLit, LinU.eval, Lin.eval, ulebSum]
theorem formDst_eval (h p : Nat) : formDst.eval h p = ((h + sizeInBytes p : Nat) : Int) := by
  simp [formDst, LinU.eval, Lin.eval, ulebSum]
theorem formTotal_eval (h p : Nat) : formTotal.eval h p = ((h + p + sizeInBytes p : Nat) : Int) := by
  simp [formTotal, LinU.eval, Lin.eval, ulebSum]

/-! ### buffers -/

theorem sizeGo_le_fuel (fuel v : Nat) : sizeGo fuel v ≤ fuel + 1 := by
  induction fuel generalizing v with
  | zero => simp [sizeGo]
  | succ f ih => simp only [sizeGo]; split; · omega
                 · have := ih (v >>> 7); omega

theorem sizeInBytes_le_slack (v : Nat) : sizeInBytes v ≤ slack := by
  have := sizeGo_le_fuel 10 v; simp only [sizeInBytes, slack]; omega

theorem writeAt_length (buf bs : List UInt8) (off : Nat) (h : off + bs.length ≤ buf.length) :
    (writeAt buf off bs).length = buf.length := by
  simp only [writeAt, List.length_append, List.length_take, List.length_drop]; omega

/-- The buffer after steps 3 and 4, cut at `total`, when `L` bytes are reserved, `L` bytes are written and the
    move copies the payload plus `e` bytes of what lies behind it. -/
theorem layout_core (hdr payload enc : List UInt8) (L e : Nat) (hLe : L + e ≤ slack) (henc : enc.length = L) :
    (writeAt (memmove (hdr ++ payload ++ List.replicate slack 0) (hdr.length + L) hdr.length (payload.length + e))
        hdr.length enc).take (hdr.length + payload.length + L) = hdr ++ enc ++ payload := by
  -- name the pieces
  have hZ : (List.replicate slack (0 : UInt8)).length = slack := List.length_replicate
  generalize hZdef : List.replicate slack (0 : UInt8) = Z at hZ
  -- source chunk: payload ++ first e bytes of Z
  have hchunk : ((hdr ++ payload ++ Z).drop hdr.length).take (payload.length + e) = payload ++ Z.take e := by
    rw [List.append_assoc, List.drop_left, List.take_append, List.take_of_length_le (Nat.le_add_right _ _),
      Nat.add_sub_cancel_left]
  -- prefix kept by the move
  have hpre : (hdr ++ payload ++ Z).take (hdr.length + L) = hdr ++ (payload ++ Z).take L := by
    rw [List.append_assoc, List.take_append, List.take_of_length_le (Nat.le_add_right _ _),
      Nat.add_sub_cancel_left]
  have hXlen : ((payload ++ Z).take L).length = L := by
    simp only [List.length_take, List.length_append, hZ]; omega
  have hElen : (Z.take e).length = e := by simp only [List.length_take, hZ]; omega
  simp only [memmove, hchunk, writeAt, hpre]
  -- after the move: hdr ++ X ++ payload ++ E ++ R
  generalize hR : (hdr ++ payload ++ Z).drop (hdr.length + L + (payload ++ Z.take e).length) = R
  generalize hX : (payload ++ Z).take L = X at hXlen
  generalize hE : Z.take e = E at hElen
  have h1 : (hdr ++ X ++ (payload ++ E) ++ R).take hdr.length = hdr := by
    rw [List.append_assoc, List.append_assoc]; exact List.take_left' rfl
  have h2 : (hdr ++ X ++ (payload ++ E) ++ R).drop (hdr.length + enc.length) = payload ++ E ++ R := by
    rw [List.append_assoc (hdr ++ X)]
    apply List.drop_left'
    simp only [List.length_append, hXlen, henc]
  rw [h1, h2]
  have h3 : hdr ++ enc ++ (payload ++ E ++ R) = (hdr ++ enc ++ payload) ++ (E ++ R) := by
    simp only [List.append_assoc]
  rw [h3]
  apply List.take_left'
  simp only [List.length_append, henc]; omega

/-- Length of the kept bytes: `total`, whatever is reserved (as long as everything stays inside the buffer). -/
theorem layout_length (hdr payload enc : List UInt8) (L e : Nat) (hLe : L + e ≤ slack) (henc : enc.length ≤ slack) :
    ((writeAt (memmove (hdr ++ payload ++ List.replicate slack 0) (hdr.length + L) hdr.length (payload.length + e))
        hdr.length enc).take (hdr.length + payload.length + L)).length = hdr.length + payload.length + L := by
  have hb : (hdr ++ payload ++ List.replicate slack (0 : UInt8)).length = hdr.length + payload.length + slack := by
    simp only [List.length_append, List.length_replicate]
  have hchunk : (((hdr ++ payload ++ List.replicate slack (0 : UInt8)).drop hdr.length).take (payload.length + e)).length
      = payload.length + e := by
    simp only [List.length_take, List.length_drop, hb]; omega
  have hm : (memmove (hdr ++ payload ++ List.replicate slack 0) (hdr.length + L) hdr.length (payload.length + e)).length
      = hdr.length + payload.length + slack := by
    rw [memmove, writeAt_length _ _ _ (by rw [hchunk, hb]; omega), hb]
  rw [List.length_take, writeAt_length _ _ _ (by rw [hm]; omega), hm]
  omega

/-! ### what `consistent` gives -/

/-- Semantic content of the check for a moving site, for every header and payload size. -/
theorem consistent_moving (s : Site) (r : SzExpr) (hr : s.reserved = some r) (hc : s.consistent = true) (h p : Nat) :
    s.avail = 4 ∧ s.encodeAt.eval h p = h ∧ r.eval h p = p ∧ s.encoded.eval h p = p ∧ s.moveSrc.eval h p = h ∧
    s.moveSize.eval h p = p ∧ s.moveDst.eval h p = ((h + sizeInBytes p : Nat) : Int) ∧
    s.total.eval h p = ((h + p + sizeInBytes p : Nat) : Int) := by
  simp only [Site.consistent, hr, Bool.and_eq_true, decide_eq_true_eq] at hc
  obtain ⟨⟨⟨⟨⟨⟨⟨c1, c2⟩, c3⟩, c4⟩, c5⟩, c6⟩, c7⟩, c8⟩ := hc
  refine ⟨c1, ?_, ?_, ?_, ?_, ?_, ?_, ?_⟩
  · rw [norm_sound _ _ c2, formH_eval]
  · rw [norm_sound _ _ c3, formP_eval]
  · rw [norm_sound _ _ c4, formP_eval]
  · rw [norm_sound _ _ c5, formH_eval]
  · rw [norm_sound _ _ c6, formP_eval]
  · rw [norm_sound _ _ c7, formDst_eval]
  · rw [norm_sound _ _ c8, formTotal_eval]

theorem ulebEncode_ok (n : Nat) (hn : n < 2 ^ 28) : ulebEncode n 4 = some (encodeBytes (sizeInBytes n) n) := by
  have h4 := sizeInBytes_le_4 n hn
  have hmax : ¬ n > kMaximumLeb128Value := by
    have : (2 : Nat) ^ 28 ≤ kMaximumLeb128Value := by simp [kMaximumLeb128Value]
    omega
  simp [ulebEncode, hmax, kMaximumLeb128Size]
  omega

/-- A consistent moving site lays out `hdr ++ leb128(|payload|) ++ payload`, for every header and every payload
    below 2^28 bytes. -/
theorem layout_consistent (s : Site) (hres : s.reserved.isSome = true) (hc : s.consistent = true)
    (hdr payload : List UInt8) (hp : payload.length < 2 ^ 28) :
    layoutSite s hdr payload =
      hdr ++ encodeBytes (sizeInBytes payload.length) payload.length ++ payload := by
  obtain ⟨r, hr⟩ := Option.isSome_iff_exists.mp hres
  obtain ⟨c1, c2, _, c4, c5, c6, c7, c8⟩ := consistent_moving s r hr hc hdr.length payload.length
  simp only [layoutSite, hr, c1, c2, c4, c5, c6, c7, c8, Int.toNat_natCast, ulebEncode_ok _ hp]
  have := layout_core hdr payload (encodeBytes (sizeInBytes payload.length) payload.length)
    (sizeInBytes payload.length) 0 (by have := sizeInBytes_le_slack payload.length; omega) (encodeBytes_length _ _)
  simpa using this

/-- A consistent non-moving site (nothing behind the header) lays out `hdr ++ [0]`. -/
theorem layout_consistent_empty (s : Site) (hres : s.reserved = none) (hc : s.consistent = true)
    (hdr : List UInt8) (k : Nat) (hk : s.hdrSize = some k) (hlen : hdr.length = k) :
    layoutSite s hdr [] = hdr ++ [0] := by
  simp only [Site.consistent, hres, hk, Bool.and_eq_true, decide_eq_true_eq] at hc
  obtain ⟨⟨⟨c1, c2⟩, c3⟩, c4⟩ := hc
  have e2 := norm_sound _ _ c2 hdr.length 0
  have e3 := norm_sound _ _ c3 hdr.length 0
  have e4 := norm_sound _ _ c4 hdr.length 0
  rw [formH_eval] at e2; rw [formLit_eval] at e3 e4
  have henc : ulebEncode 0 4 = some [0] := by decide
  simp only [layoutSite, hres, c1, List.length_nil, e2, e3, e4, Int.toNat_natCast, henc, writeAt, List.append_nil]
  rw [List.take_left' rfl]
  have h1 : hdr ++ [0] ++ List.drop (hdr.length + [(0 : UInt8)].length) (hdr ++ List.replicate slack 0)
      = (hdr ++ [0]) ++ List.drop (hdr.length + 1) (hdr ++ List.replicate slack 0) := by simp
  rw [h1]
  apply List.take_left'
  simp [hlen]

/-! ### the mismatched shape -/

theorem mismatched_eval (h p : Nat) :
    mismatchedSite.moveDst.eval h p = ((h + sizeInBytes (h + p) : Nat) : Int) ∧
    mismatchedSite.moveSrc.eval h p = h ∧ mismatchedSite.moveSize.eval h p = ((p + h : Nat) : Int) ∧
    mismatchedSite.encoded.eval h p = p ∧ mismatchedSite.encodeAt.eval h p = h ∧
    mismatchedSite.total.eval h p = ((h + p + sizeInBytes (h + p) : Nat) : Int) := by
  simp only [mismatchedSite, SzExpr.eval]
  refine ⟨?_, trivial, ?_, trivial, trivial, ?_⟩
  · have : ((h : Int) + p).toNat = h + p := by omega
    rw [this]; push_cast; ring
  · push_cast; ring
  · have : ((h : Int) + p).toNat = h + p := by omega
    rw [this]; push_cast; ring

end ObuSiteLemmas
