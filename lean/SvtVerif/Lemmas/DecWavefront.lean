/-
  C09 — helper lemmas for one row wavefront (`DecWf.step`): list-as-array lemmas, the counter encodings of the
  four stages, the structural invariant `Inv` and its preservation.
-/
import SvtVerif.Model.DecWavefront

namespace DecWf

/-! ## lists as arrays -/
theorem length_lset {α : Type} (l : List α) (i : Nat) (v : α) : (lset l i v).length = l.length := by
  simp [lset]

theorem lget_lset {α : Type} [Inhabited α] (l : List α) (i j : Nat) (v : α) :
    lget (lset l i v) j = if i = j ∧ i < l.length then v else lget l j := by
  unfold lget lset
  by_cases h : i = j
  · subst h
    by_cases h2 : i < l.length
    · simp [h2, List.getD_eq_getElem?_getD]
    · simp [h2, List.getD_eq_getElem?_getD]
  · simp [h, List.getD_eq_getElem?_getD, List.getElem?_set_ne h]

theorem lget_lset_self {α : Type} [Inhabited α] (l : List α) (i : Nat) (v : α) (h : i < l.length) :
    lget (lset l i v) i = v := by
  rw [lget_lset]; simp [h]

theorem lget_lset_ne {α : Type} [Inhabited α] (l : List α) (i j : Nat) (v : α) (h : i ≠ j) :
    lget (lset l i v) j = lget l j := by
  rw [lget_lset]; simp [h]

theorem lget_replicate {α : Type} [Inhabited α] (n i : Nat) (v : α) :
    lget (List.replicate n v) i = if i < n then v else default := by
  unfold lget
  by_cases h : i < n <;> simp [h, List.getD_eq_getElem?_getD]

theorem lget_of_le {α : Type} [Inhabited α] (l : List α) (i : Nat) (h : l.length ≤ i) : lget l i = default := by
  unfold lget; simp [List.getD_eq_getElem?_getD, h]

/-- sum of `f` over a list -/
def sumf {α : Type} (f : α → Nat) (l : List α) : Nat := (l.map f).sum

theorem sumf_lset {α : Type} [Inhabited α] (f : α → Nat) (l : List α) (i : Nat) (v : α) (h : i < l.length) :
    sumf f (lset l i v) + f (lget l i) = sumf f l + f v := by
  induction l generalizing i with
  | nil => simp at h
  | cons a t ih =>
    cases i with
    | zero => simp [sumf, lset, lget]; omega
    | succ k =>
      have hk : k < t.length := by simpa using h
      have := ih k hk
      simp [sumf, lset, lget] at this ⊢
      omega

theorem sumf_replicate {α : Type} (f : α → Nat) (n : Nat) (v : α) : sumf f (List.replicate n v) = n * f v := by
  induction n with
  | zero => simp [sumf]
  | succ k ih =>
    have : sumf f (List.replicate (k + 1) v) = f v + sumf f (List.replicate k v) := by
      simp [sumf, List.replicate_succ]
    rw [this, ih, Nat.succ_mul]; omega

theorem sumf_zero {α : Type} [Inhabited α] (f : α → Nat) (l : List α) (h : sumf f l = 0) (i : Nat)
    (hi : i < l.length) : f (lget l i) = 0 := by
  induction l generalizing i with
  | nil => simp at hi
  | cons a t ih =>
    simp [sumf] at h
    cases i with
    | zero => simp [lget]; omega
    | succ k =>
      have hk : k < t.length := by simpa using hi
      have := ih (by simp [sumf]; omega) k hk
      simpa [lget] using this

theorem sumf_pos {α : Type} [Inhabited α] (f : α → Nat) (l : List α) (i : Nat) (hi : i < l.length)
    (h : 0 < f (lget l i)) : 0 < sumf f l := by
  rcases Nat.eq_zero_or_pos (sumf f l) with h0 | h0
  · have := sumf_zero f l h0 i hi; omega
  · exact h0

/-! ## derived quantities -/

/-- the number of columns the row loop walks: `W` if the body is enabled, else 0 -/
def Wb (s : Stage) : Nat := if s.en = true ∧ 0 < s.W then s.W else 0

/-- columns whose processing has finished (counter stored) -/
def cnt (s : Stage) : Ph → Nat
  | .unpicked => 0
  | .gate => 0
  | .at j => j
  | .busy j => j
  | .tail => Wb s
  | .fin => Wb s

/-- columns whose processing has started -/
def beg (s : Stage) : Ph → Nat
  | .unpicked => 0
  | .gate => 0
  | .at j => j
  | .busy j => j + 1
  | .tail => Wb s
  | .fin => Wb s

/-- the worker holding the row is inside the row (between pick and the map store) -/
def hold : Ph → Nat
  | .unpicked => 0
  | .fin => 0
  | _ => 1

/-- counter value when `d` columns of the row are finished -/
def enc (s : Stage) (d : Nat) : Int := if d = 0 then initCtr s.kind else pubVal s (d - 1)

theorem cnt_le_beg (s : Stage) (p : Ph) : cnt s p ≤ beg s p := by
  cases p <;> simp [cnt, beg]

/-- soundness of a stage's spin test: leaving the spin of column `j` implies that the previous row has finished
    columns `0 .. min (j+1) (W-1)` (left-above, above and right-above neighbour) -/
def PassSound (s : Stage) : Prop :=
  ∀ j d, j < s.W → d ≤ s.W → pass s j (enc s d) = true → min (j + 2) s.W ≤ d

/-- liveness of the spin test: a finished previous row lets every column through -/
def PassLive (s : Stage) : Prop := ∀ j, j < s.W → pass s j (enc s s.W) = true

theorem passSound_recon (s : Stage) (h : s.kind = Kind.recon) : PassSound s := by
  intro j d hj hd hp
  simp only [pass, h, enc, initCtr, pubVal] at hp
  by_cases h0 : d = 0
  · simp [h0] at hp; omega
  · simp [h0] at hp; omega

theorem passSound_lf (s : Stage) (h : s.kind = Kind.lf) : PassSound s := by
  intro j d hj hd hp
  simp only [pass, h, enc, initCtr, pubVal] at hp
  by_cases h0 : d = 0
  · simp [h0] at hp; omega
  · simp [h0] at hp; omega

theorem passSound_lr (s : Stage) (h : s.kind = Kind.lr) : PassSound s := by
  intro j d hj hd hp
  simp only [pass, h, enc, initCtr, pubVal, nsync] at hp
  by_cases h0 : d = 0
  · simp [h0] at hp; split at hp <;> omega
  · simp [h0] at hp; split at hp <;> omega

/-- CDEF (after commit c7d082d): the unsigned counter holds the number of finished columns -/
theorem passSound_cdef (s : Stage) (h : s.kind = Kind.cdef) : PassSound s := by
  intro j d hj hd hp
  simp only [pass, h, enc, initCtr, pubVal, nsync] at hp
  by_cases h0 : d = 0
  · simp [h0] at hp
  · simp [h0] at hp; first | omega | (split at hp <;> omega)

theorem passLive_all (s : Stage) : PassLive s := by
  intro j hj
  have hW : s.W ≠ 0 := by omega
  cases hk : s.kind <;> simp only [pass, hk, enc, initCtr, pubVal, nsync, hW, if_false]
  · simp; omega
  · simp; omega
  · simp; split <;> omega
  · simp; split <;> omega

/-! ## reachability -/

inductive Reach (s : Stage) : WSt → Prop
  | init : Reach s (initW s)
  | step {st st' : WSt} {g : Nat → Bool} {op : Op} : Reach s st → step s g st op = some st' → Reach s st'

/-- structural invariant (no hypothesis on the spin test) -/
structure Inv (s : Stage) (st : WSt) : Prop where
  len_ph : st.ph.length = s.H
  len_ctr : st.ctr.length = s.H
  next_le : st.next ≤ s.H
  picked : ∀ r, r < s.H → (r < st.next ↔ lget st.ph r ≠ Ph.unpicked)
  col_lt : ∀ r j, r < s.H → (lget st.ph r = Ph.at j ∨ lget st.ph r = Ph.busy j) → j < s.W ∧ s.en = true
  ctr_ok : ∀ r, r < s.H → lget st.ctr r = enc s (cnt s (lget st.ph r))
  log_iff : ∀ r j, (r, j) ∈ st.log ↔ r < s.H ∧ j < beg s (lget st.ph r)
  workers : st.idle + st.chk + st.out + sumf hold st.ph = s.n
  out_next : 0 < st.out → st.next = s.H

theorem Wb_le (s : Stage) : Wb s ≤ s.W := by unfold Wb; split <;> omega

theorem inv_init (s : Stage) : Inv s (initW s) := by
  refine ⟨by simp [initW], by simp [initW], by simp [initW], ?_, ?_, ?_, ?_, ?_, ?_⟩
  · intro r hr; simp [initW, lget_replicate, hr]
  · intro r j hr h; simp [initW, lget_replicate, hr] at h
  · intro r hr; simp [initW, lget_replicate, hr, cnt, enc]
  · intro r j; simp [initW, lget_replicate]; intro hr; split <;> simp [beg]
  · simp [initW, sumf_replicate, hold]
  · simp [initW]

theorem lt_of_lget_ne {α : Type} [Inhabited α] (l : List α) (i : Nat) (h : lget l i ≠ default) : i < l.length := by
  rcases Nat.lt_or_ge i l.length with h1 | h1
  · exact h1
  · exact absurd (lget_of_le l i h1) h

theorem ph_lt {s : Stage} {st : WSt} (hi : Inv s st) {r : Nat} (h : lget st.ph r ≠ Ph.unpicked) : r < s.H := by
  rw [← hi.len_ph]; exact lt_of_lget_ne _ _ h

theorem ph_next_unpicked {s : Stage} {st : WSt} (hi : Inv s st) (h : st.next < s.H) :
    lget st.ph st.next = Ph.unpicked := by
  apply Decidable.byContradiction
  intro hn
  have := (hi.picked st.next h).2 hn
  omega

theorem Wb_eq {s : Stage} (h1 : s.en = true) (h2 : 0 < s.W) : Wb s = s.W := by simp [Wb, h1, h2]

theorem Wb_zero {s : Stage} (h : ¬ (s.en = true ∧ 0 < s.W)) : Wb s = 0 := by simp [Wb, h]

/-- the effect of replacing the phase of row `r` on a pointwise fact -/
theorem lget_ph_cases (l : List Ph) (r r' : Nat) (p : Ph) (hr : r < l.length) :
    (r' = r ∧ lget (lset l r p) r' = p) ∨ (r' ≠ r ∧ lget (lset l r p) r' = lget l r') := by
  by_cases h : r' = r
  · subst h; exact Or.inl ⟨rfl, lget_lset_self l r' p hr⟩
  · exact Or.inr ⟨h, lget_lset_ne l r r' p (fun e => h e.symm)⟩

theorem inv_pick_row {s : Stage} {st : WSt} (hi : Inv s st) (h1 : st.idle ≠ 0) (h2 : st.next ≠ s.H) :
    Inv s { st with idle := st.idle - 1, next := st.next + 1, ph := lset st.ph st.next Ph.gate } := by
  have hlt : st.next < s.H := by have := hi.next_le; omega
  have hl : st.next < st.ph.length := by rw [hi.len_ph]; exact hlt
  have hu := ph_next_unpicked hi hlt
  refine ⟨by simp [length_lset, hi.len_ph], hi.len_ctr, by simp; omega, ?_, ?_, ?_, ?_, ?_, ?_⟩
  · intro r hr
    rcases lget_ph_cases st.ph st.next r Ph.gate hl with ⟨e, h⟩ | ⟨e, h⟩
    · simp only [h]; simp [e]
    · simp only [h]; have := hi.picked r hr; constructor
      · intro hh; exact this.1 (by omega)
      · intro hh; have := this.2 hh; omega
  · intro r j hr h
    rcases lget_ph_cases st.ph st.next r Ph.gate hl with ⟨e, h'⟩ | ⟨e, h'⟩
    · simp only [h'] at h; simp at h
    · simp only [h'] at h; exact hi.col_lt r j hr h
  · intro r hr
    rcases lget_ph_cases st.ph st.next r Ph.gate hl with ⟨e, h'⟩ | ⟨e, h'⟩
    · simp only [h']; have := hi.ctr_ok r hr; rw [e, hu] at this; rw [e]; simpa [cnt] using this
    · simp only [h']; exact hi.ctr_ok r hr
  · intro r j
    rcases lget_ph_cases st.ph st.next r Ph.gate hl with ⟨e, h'⟩ | ⟨e, h'⟩
    · simp only [h']; have := hi.log_iff r j; rw [e, hu] at this; rw [e]; simpa [beg] using this
    · simp only [h']; exact hi.log_iff r j
  · have := sumf_lset hold st.ph st.next Ph.gate hl
    rw [hu] at this
    simp only [hold] at this
    have hw := hi.workers
    simp only
    omega
  · intro h; have := hi.out_next h; omega

theorem inv_enter {s : Stage} {st : WSt} (hi : Inv s st) {r : Nat} (hg : lget st.ph r = Ph.gate) :
    Inv s { st with ph := lset st.ph r (if s.en = true ∧ 0 < s.W then Ph.at 0 else Ph.tail) } := by
  have hr : r < s.H := ph_lt hi (by rw [hg]; simp)
  have hl : r < st.ph.length := by rw [hi.len_ph]; exact hr
  refine ⟨by simp [length_lset, hi.len_ph], hi.len_ctr, hi.next_le, ?_, ?_, ?_, ?_, ?_, hi.out_next⟩
  · intro r' hr'
    rcases lget_ph_cases st.ph r r' (if s.en = true ∧ 0 < s.W then Ph.at 0 else Ph.tail) hl with ⟨e, h⟩ | ⟨e, h⟩
    · simp only [h]; have := hi.picked r hr; rw [hg] at this; rw [e]
      constructor
      · intro _; split <;> simp
      · intro _; exact this.2 (by simp)
    · simp only [h]; exact hi.picked r' hr'
  · intro r' j hr' h
    rcases lget_ph_cases st.ph r r' (if s.en = true ∧ 0 < s.W then Ph.at 0 else Ph.tail) hl with ⟨e, h'⟩ | ⟨e, h'⟩
    · simp only [h'] at h
      split at h
      · rename_i hc; rcases h with h | h
        · injection h with h; subst h; exact ⟨hc.2, hc.1⟩
        · simp at h
      · simp at h
    · simp only [h'] at h; exact hi.col_lt r' j hr' h
  · intro r' hr'
    rcases lget_ph_cases st.ph r r' (if s.en = true ∧ 0 < s.W then Ph.at 0 else Ph.tail) hl with ⟨e, h'⟩ | ⟨e, h'⟩
    · simp only [h']; have := hi.ctr_ok r hr; rw [hg] at this; rw [e, this]
      split
      · simp [cnt]
      · rename_i hc; simp [cnt, Wb_zero hc]
    · simp only [h']; exact hi.ctr_ok r' hr'
  · intro r' j
    rcases lget_ph_cases st.ph r r' (if s.en = true ∧ 0 < s.W then Ph.at 0 else Ph.tail) hl with ⟨e, h'⟩ | ⟨e, h'⟩
    · simp only [h']; have := hi.log_iff r j; rw [hg] at this; rw [e, this]
      split
      · simp [beg]
      · rename_i hc; simp [beg, Wb_zero hc]
    · simp only [h']; exact hi.log_iff r' j
  · have hp1 : hold (if s.en = true ∧ 0 < s.W then Ph.at 0 else Ph.tail) = 1 := by split <;> rfl
    have := sumf_lset hold st.ph r (if s.en = true ∧ 0 < s.W then Ph.at 0 else Ph.tail) hl
    rw [hg, hp1] at this
    have hw := hi.workers
    simp only [hold] at this
    simp only
    omega

theorem inv_dec {s : Stage} {st : WSt} (hi : Inv s st) {r j : Nat} (hg : lget st.ph r = Ph.at j) :
    Inv s { st with ph := lset st.ph r (Ph.busy j), log := (r, j) :: st.log } := by
  have hr : r < s.H := ph_lt hi (by rw [hg]; simp)
  have hl : r < st.ph.length := by rw [hi.len_ph]; exact hr
  refine ⟨by simp [length_lset, hi.len_ph], hi.len_ctr, hi.next_le, ?_, ?_, ?_, ?_, ?_, hi.out_next⟩
  · intro r' hr'
    rcases lget_ph_cases st.ph r r' (Ph.busy j) hl with ⟨e, h⟩ | ⟨e, h⟩
    · simp only [h]; have := hi.picked r hr; rw [hg] at this; rw [e]
      constructor
      · intro _; simp
      · intro _; exact this.2 (by simp)
    · simp only [h]; exact hi.picked r' hr'
  · intro r' j' hr' h
    rcases lget_ph_cases st.ph r r' (Ph.busy j) hl with ⟨e, h'⟩ | ⟨e, h'⟩
    · simp only [h'] at h
      rcases h with h | h
      · simp at h
      · injection h with h; subst h; exact hi.col_lt r j hr (Or.inl hg)
    · simp only [h'] at h; exact hi.col_lt r' j' hr' h
  · intro r' hr'
    rcases lget_ph_cases st.ph r r' (Ph.busy j) hl with ⟨e, h'⟩ | ⟨e, h'⟩
    · simp only [h']; have := hi.ctr_ok r hr; rw [hg] at this; rw [e, this]; simp [cnt]
    · simp only [h']; exact hi.ctr_ok r' hr'
  · intro r' j'
    rcases lget_ph_cases st.ph r r' (Ph.busy j) hl with ⟨e, h'⟩ | ⟨e, h'⟩
    · simp only [h']; have := hi.log_iff r j'; rw [hg] at this; subst e
      simp only [List.mem_cons, Prod.mk.injEq, true_and, this, beg]
      constructor
      · rintro (h | ⟨h1, h2⟩)
        · subst h; exact ⟨hr, by omega⟩
        · exact ⟨h1, by omega⟩
      · rintro ⟨h1, h2⟩
        by_cases hj : j' = j
        · exact Or.inl hj
        · exact Or.inr ⟨h1, by omega⟩
    · simp only [h']
      simp only [List.mem_cons, Prod.mk.injEq, e, false_and, false_or]
      exact hi.log_iff r' j'
  · have := sumf_lset hold st.ph r (Ph.busy j) hl
    rw [hg] at this
    have hw := hi.workers
    simp only [hold] at this
    simp only
    omega

theorem inv_pub {s : Stage} {st : WSt} (hi : Inv s st) {r j : Nat} (hg : lget st.ph r = Ph.busy j) :
    Inv s { st with ctr := lset st.ctr r (pubVal s j),
                    ph := lset st.ph r (if j + 1 < s.W then Ph.at (j + 1) else Ph.tail) } := by
  have hr : r < s.H := ph_lt hi (by rw [hg]; simp)
  have hl : r < st.ph.length := by rw [hi.len_ph]; exact hr
  have hlc : r < st.ctr.length := by rw [hi.len_ctr]; exact hr
  obtain ⟨hjW, hen⟩ := hi.col_lt r j hr (Or.inr hg)
  have hWb : Wb s = s.W := Wb_eq hen (by omega)
  refine ⟨by simp [length_lset, hi.len_ph], by simp [length_lset, hi.len_ctr], hi.next_le, ?_, ?_, ?_, ?_, ?_,
    hi.out_next⟩
  · intro r' hr'
    rcases lget_ph_cases st.ph r r' (if j + 1 < s.W then Ph.at (j + 1) else Ph.tail) hl with ⟨e, h⟩ | ⟨e, h⟩
    · simp only [h]; have := hi.picked r hr; rw [hg] at this; rw [e]
      constructor
      · intro _; split <;> simp
      · intro _; exact this.2 (by simp)
    · simp only [h]; exact hi.picked r' hr'
  · intro r' j' hr' h
    rcases lget_ph_cases st.ph r r' (if j + 1 < s.W then Ph.at (j + 1) else Ph.tail) hl with ⟨e, h'⟩ | ⟨e, h'⟩
    · simp only [h'] at h
      split at h
      · rename_i hc; rcases h with h | h
        · injection h with h; subst h; exact ⟨hc, hen⟩
        · simp at h
      · simp at h
    · simp only [h'] at h; exact hi.col_lt r' j' hr' h
  · intro r' hr'
    rcases lget_ph_cases st.ph r r' (if j + 1 < s.W then Ph.at (j + 1) else Ph.tail) hl with ⟨e, h'⟩ | ⟨e, h'⟩
    · simp only [h']; rw [e, lget_lset_self _ _ _ hlc]
      split
      · simp [cnt, enc]
      · rename_i hc
        have : s.W = j + 1 := by omega
        simp [cnt, enc, hWb, this]
    · simp only [h']; rw [lget_lset_ne _ _ _ _ (fun e' => e e'.symm)]; exact hi.ctr_ok r' hr'
  · intro r' j'
    rcases lget_ph_cases st.ph r r' (if j + 1 < s.W then Ph.at (j + 1) else Ph.tail) hl with ⟨e, h'⟩ | ⟨e, h'⟩
    · simp only [h']; have := hi.log_iff r j'; rw [hg] at this; rw [e, this]
      split
      · simp [beg]
      · rename_i hc
        have : s.W = j + 1 := by omega
        simp [beg, hWb, this]
    · simp only [h']; exact hi.log_iff r' j'
  · have hp1 : hold (if j + 1 < s.W then Ph.at (j + 1) else Ph.tail) = 1 := by split <;> rfl
    have := sumf_lset hold st.ph r (if j + 1 < s.W then Ph.at (j + 1) else Ph.tail) hl
    rw [hg, hp1] at this
    have hw := hi.workers
    simp only [hold] at this
    simp only
    omega

theorem inv_fin {s : Stage} {st : WSt} (hi : Inv s st) {r : Nat} (hg : lget st.ph r = Ph.tail) (a b : Nat)
    (hab : a + b = st.idle + st.chk + 1) :
    Inv s { st with ph := lset st.ph r Ph.fin, idle := a, chk := b } := by
  have hr : r < s.H := ph_lt hi (by rw [hg]; simp)
  have hl : r < st.ph.length := by rw [hi.len_ph]; exact hr
  refine ⟨by simp [length_lset, hi.len_ph], hi.len_ctr, hi.next_le, ?_, ?_, ?_, ?_, ?_, hi.out_next⟩
  · intro r' hr'
    rcases lget_ph_cases st.ph r r' Ph.fin hl with ⟨e, h⟩ | ⟨e, h⟩
    · simp only [h]; have := hi.picked r hr; rw [hg] at this; rw [e]
      constructor
      · intro _; simp
      · intro _; exact this.2 (by simp)
    · simp only [h]; exact hi.picked r' hr'
  · intro r' j' hr' h
    rcases lget_ph_cases st.ph r r' Ph.fin hl with ⟨e, h'⟩ | ⟨e, h'⟩
    · simp only [h'] at h; simp at h
    · simp only [h'] at h; exact hi.col_lt r' j' hr' h
  · intro r' hr'
    rcases lget_ph_cases st.ph r r' Ph.fin hl with ⟨e, h'⟩ | ⟨e, h'⟩
    · simp only [h']; have := hi.ctr_ok r hr; rw [hg] at this; rw [e, this]; simp [cnt]
    · simp only [h']; exact hi.ctr_ok r' hr'
  · intro r' j'
    rcases lget_ph_cases st.ph r r' Ph.fin hl with ⟨e, h'⟩ | ⟨e, h'⟩
    · simp only [h']; have := hi.log_iff r j'; rw [hg] at this; rw [e, this]; simp [beg]
    · simp only [h']; exact hi.log_iff r' j'
  · have := sumf_lset hold st.ph r Ph.fin hl
    rw [hg] at this
    have hw := hi.workers
    simp only [hold] at this
    simp only
    omega

theorem inv_step {s : Stage} {st st' : WSt} {g : Nat → Bool} {op : Op} (hi : Inv s st)
    (h : step s g st op = some st') : Inv s st' := by
  cases op with
  | pick =>
    simp only [step] at h
    split at h
    · simp at h
    · rename_i h1
      split at h
      · rename_i h2; injection h with h; subst h; exact inv_pick_row hi h1 h2
      · rename_i h2
        have hn : st.next = s.H := by simpa using h2
        have hw := hi.workers
        split at h <;> (injection h with h; subst h)
        · exact ⟨hi.len_ph, hi.len_ctr, hi.next_le, hi.picked, hi.col_lt, hi.ctr_ok, hi.log_iff, by simp only; omega,
            hi.out_next⟩
        · exact ⟨hi.len_ph, hi.len_ctr, hi.next_le, hi.picked, hi.col_lt, hi.ctr_ok, hi.log_iff, by simp only; omega,
            fun _ => hn⟩
  | enter r =>
    simp only [step] at h
    split at h
    · rename_i hc; injection h with h; subst h; exact inv_enter hi hc.1
    · simp at h
  | dec r =>
    simp only [step] at h
    split at h
    · rename_i j hg
      split at h
      · injection h with h; subst h; exact inv_dec hi hg
      · simp at h
    · simp at h
  | pub r =>
    simp only [step] at h
    split at h
    · rename_i j hg; injection h with h; subst h; exact inv_pub hi hg
    · simp at h
  | fin r =>
    simp only [step] at h
    split at h
    · rename_i hg
      split at h <;> (injection h with h; subst h)
      · exact inv_fin hi hg st.idle (st.chk + 1) (by omega)
      · exact inv_fin hi hg (st.idle + 1) st.chk (by omega)
    · simp at h
  | chk =>
    simp only [step] at h
    have hw := hi.workers
    split at h
    · simp at h
    · rename_i h1
      split at h <;> (injection h with h; subst h)
      · rename_i hn
        exact ⟨hi.len_ph, hi.len_ctr, hi.next_le, hi.picked, hi.col_lt, hi.ctr_ok, hi.log_iff, by simp only; omega,
          fun _ => hn⟩
      · exact ⟨hi.len_ph, hi.len_ctr, hi.next_le, hi.picked, hi.col_lt, hi.ctr_ok, hi.log_iff, by simp only; omega,
          hi.out_next⟩

theorem reach_inv {s : Stage} {st : WSt} (h : Reach s st) : Inv s st := by
  induction h with
  | init => exact inv_init s
  | step _ hs ih => exact inv_step ih hs

end DecWf
