/-
  C24 — termination measure for the assign protocol: every atomic step of `Seg.assignStep` (from a state
  satisfying the invariant) strictly increases the sum of the per-segment phases, which is bounded by
  `4 * R * B`.  Hence every execution from a reachable state has at most `4 * R * B` steps.
-/
import SvtVerif.Lemmas.Segments

namespace Seg

/-! ## sums over `List.range` -/

/-- the measure: sum of the phases of the first `n` segments -/
def phSum (st : ASt) (n : Nat) : Nat := ((List.range n).map (fun t => aget st.ph t)).sum

theorem sum_range_succ' (f : Nat → Nat) (n : Nat) :
    ((List.range (n + 1)).map f).sum = ((List.range n).map f).sum + f n := by
  rw [List.range_succ, List.map_append, List.sum_append]
  simp

theorem sum_le_of_le {f f' : Nat → Nat} (hle : ∀ t, f t ≤ f' t) (n : Nat) :
    ((List.range n).map f).sum ≤ ((List.range n).map f').sum := by
  induction n with
  | zero => simp
  | succ n ih =>
    rw [sum_range_succ', sum_range_succ']
    have := hle n
    omega

theorem sum_lt_of_le_of_lt {f f' : Nat → Nat} (hle : ∀ t, f t ≤ f' t) {n t0 : Nat} (ht : t0 < n)
    (hlt : f t0 < f' t0) : ((List.range n).map f).sum < ((List.range n).map f').sum := by
  induction n with
  | zero => omega
  | succ n ih =>
    rw [sum_range_succ', sum_range_succ']
    by_cases e : t0 = n
    · subst e
      have := sum_le_of_le hle t0
      omega
    · have := ih (by omega)
      have := hle n
      omega

theorem sum_le_const {f : Nat → Nat} {c : Nat} (hle : ∀ t, f t ≤ c) (n : Nat) :
    ((List.range n).map f).sum ≤ c * n := by
  induction n with
  | zero => simp
  | succ n ih =>
    rw [sum_range_succ', Nat.mul_succ]
    have := hle n
    omega

variable {g : SegCtl}

/-! ## the effect of each op on the phases -/

theorem step_ph_fin (_hw : WF g) {st st' : ASt} (hi' : Inv g st) {s : Nat} (h : assignStep g st (.fin s) = some st') :
    (∀ t, aget st.ph t ≤ aget st'.ph t) ∧
    ∃ t, t < g.segRowCount * g.segBandCount ∧ aget st.ph t < aget st'.ph t := by
  obtain ⟨hi, hready⟩ := hi'
  simp only [assignStep] at h
  split at h
  · cases h
  rename_i hc
  have hc1 : s < st.ph.size ∧ aget st.ph s = 1 := by
    by_contra hn; exact hc (Or.inr hn)
  obtain ⟨hs, hph⟩ := hc1
  injection h with h
  subst h
  have hp : ∃ p, (if hasRight g s then 2 else if hasBottom g s then 3 else 4) = p ∧ 2 ≤ p := by
    refine ⟨_, rfl, ?_⟩
    split
    · omega
    · split <;> omega
  obtain ⟨p, hpe, hp2⟩ := hp
  rw [hpe]
  have hne := aget_aset' hs p
  refine ⟨fun t => ?_, s, by rw [← hi.sz_ph]; exact hs, ?_⟩
  · show aget st.ph t ≤ aget (aset st.ph s p) t
    rw [hne]
    split
    · subst_vars; omega
    · exact Nat.le_refl _
  · show aget st.ph s < aget (aset st.ph s p) s
    rw [hne, if_pos rfl]
    omega

theorem step_ph_right (hw : WF g) {st st' : ASt} (hi : Inv g st) {s : Nat} (h : assignStep g st (.right s) = some st') :
    (∀ t, aget st.ph t ≤ aget st'.ph t) ∧
    ∃ t, t < g.segRowCount * g.segBandCount ∧ aget st.ph t < aget st'.ph t := by
  obtain ⟨h0, hready⟩ := hi
  simp only [assignStep] at h
  split at h
  · cases h
  rename_i hc
  have hc1 : s < st.ph.size ∧ aget st.ph s = 2 := by
    by_contra hn; exact hc (Or.inr hn)
  obtain ⟨hs, hph⟩ := hc1
  obtain ⟨r, hr, hs1, hs2⟩ := h0.ph_in s (by omega)
  have hdiv := row_div hw hr hs1 hs2
  have hBt := hasBottom_iff hw hr hs1 hs2
  have hlt := h0.ph2 r hr s hs1 hs2 hph
  have htot := row_lt_total hw hr (show s + 1 ≤ rowEnd g.rows r by omega)
  have hsmall := hw.hsmall
  have hu : u32 (s + 1) = s + 1 := u32_small (by omega)
  rw [hu, hdiv] at h
  have hsz : s + 1 < st.dep.size := by rw [h0.sz_dep]; exact htot
  rw [if_neg (by omega)] at h
  -- the phase value
  have hp : ∃ p, (if hasBottom g s then 3 else 4) = p ∧ (p = 3 ∨ p = 4) ∧
      (p = 3 → r + 1 < g.segRowCount ∧ rowStart g.rows (r + 1) ≤ s + g.segBandCount) ∧
      (p = 4 → ¬ (r + 1 < g.segRowCount ∧ rowStart g.rows (r + 1) ≤ s + g.segBandCount)) := by
    refine ⟨_, rfl, ?_⟩
    by_cases b : hasBottom g s = true <;> simp [b] <;> simp_all
  obtain ⟨p, hpe, hp34, hp3, hp4⟩ := hp
  rw [hpe] at h
  generalize hd : u8 (aget st.dep (s + 1) + 255) = d at h
  let stA : ASt := { st with dep := aset st.dep (s + 1) d, ph := aset st.ph s p }
  have hA := inv_decR hw (st' := stA) h0 hr hs1 hs2 hph hp3 hp4 hp34 h0.err0 rfl rfl (size_aset _ _ _) (size_aset _ _ _)
    (aget_aset' hs p) (by intro t; rw [hd]; exact aget_aset' hsz d t) hready
  obtain ⟨hA0, hAready, hcur, hle, _, _, hnm, hz, hnz⟩ := hA
  have hsR : s < g.segRowCount * g.segBandCount := by omega
  by_cases hd0 : d = 0
  · rw [if_pos hd0, if_pos hd0] at h
    have hph1 : aget st.ph (s + 1) = 0 := h0.ph_unstarted r hr (s + 1) (by omega) hle
    have hv := startRowCurrent_view (st := { st with dep := aset st.dep (s + 1) d }) (r := r) hcur
      (by rw [h0.sz_ph]; exact htot) hph1 (by omega)
    obtain ⟨v1, v2, v3, v4, v5, v6⟩ := hv
    injection h with h
    subst h
    have key : ∀ t, aget (aset (startRowCurrent { st with dep := aset st.dep (s + 1) d } r).ph s p) t =
        if t = s then p else if t = s + 1 then 1 else aget st.ph t := by
      intro t
      rw [v5, aget_aset' (by rw [size_aset]; exact hs), aget_aset' (by rw [h0.sz_ph]; exact htot)]
    refine ⟨fun t => ?_, s, hsR, ?_⟩
    · show aget st.ph t ≤ aget (aset (startRowCurrent { st with dep := aset st.dep (s + 1) d } r).ph s p) t
      rw [key]
      split
      · subst_vars; omega
      · split
        · subst_vars; omega
        · exact Nat.le_refl _
    · show aget st.ph s < aget (aset (startRowCurrent { st with dep := aset st.dep (s + 1) d } r).ph s p) s
      rw [key, if_pos rfl]
      omega
  · rw [if_neg hd0, if_neg hd0] at h
    injection h with h
    subst h
    have key := aget_aset' hs p
    refine ⟨fun t => ?_, s, hsR, ?_⟩
    · show aget st.ph t ≤ aget (aset st.ph s p) t
      rw [key]
      split
      · subst_vars; omega
      · exact Nat.le_refl _
    · show aget st.ph s < aget (aset st.ph s p) s
      rw [key, if_pos rfl]
      omega

theorem step_ph_bottom (hw : WF g) {st st' : ASt} (hi : Inv g st) {s : Nat} (h : assignStep g st (.bottom s) = some st') :
    (∀ t, aget st.ph t ≤ aget st'.ph t) ∧
    ∃ t, t < g.segRowCount * g.segBandCount ∧ aget st.ph t < aget st'.ph t := by
  obtain ⟨h0, hready⟩ := hi
  simp only [assignStep] at h
  split at h
  · cases h
  rename_i hc
  have hc1 : s < st.ph.size ∧ aget st.ph s = 3 := by
    by_contra hn; exact hc (Or.inr hn)
  obtain ⟨hs, hph⟩ := hc1
  obtain ⟨r, hr, hs1, hs2⟩ := h0.ph_in s (by omega)
  have hdiv := row_div hw hr hs1 hs2
  obtain ⟨hr1, hb1⟩ := h0.ph3 r hr s hs1 hs2 hph
  have hb2 : s + g.segBandCount ≤ rowEnd g.rows (r + 1) := by have := hw.en_mono r hr1; omega
  have htot := row_lt_total hw hr1 hb2
  have hsmall := hw.hsmall
  have hu : u32 (s + g.segBandCount) = s + g.segBandCount := u32_small (by omega)
  rw [hu, hdiv] at h
  have hsz : s + g.segBandCount < st.dep.size := by rw [h0.sz_dep]; exact htot
  rw [if_neg (by omega)] at h
  generalize hd : u8 (aget st.dep (s + g.segBandCount) + 255) = d at h
  let stA : ASt := { st with dep := aset st.dep (s + g.segBandCount) d, ph := aset st.ph s 4 }
  have hA := inv_decB hw (st' := stA) h0 hr hs1 hs2 hph h0.err0 rfl rfl (size_aset _ _ _) (size_aset _ _ _)
    (aget_aset' hs 4) (by intro t; rw [hd]; exact aget_aset' hsz d t) hready
  obtain ⟨hA0, hAready, _, _, _, _, _, hnm, _, hz, hnz⟩ := hA
  have hdA : aget stA.dep (s + g.segBandCount) = d := by
    show aget (aset st.dep (s + g.segBandCount) d) (s + g.segBandCount) = d
    rw [aget_aset' hsz]; simp
  have hsR : s < g.segRowCount * g.segBandCount := by rw [← h0.sz_ph]; exact hs
  have key0 := aget_aset' hs 4
  have simple : (∀ t, aget st.ph t ≤ aget (aset st.ph s 4) t) ∧
      ∃ t, t < g.segRowCount * g.segBandCount ∧ aget st.ph t < aget (aset st.ph s 4) t := by
    refine ⟨fun t => ?_, s, hsR, ?_⟩
    · rw [key0]
      split
      · subst_vars; omega
      · exact Nat.le_refl _
    · rw [key0, if_pos rfl]
      omega
  by_cases hd0 : d = 0
  · rw [if_pos hd0] at h
    obtain ⟨hcur, hnf⟩ := hz (by rw [hdA, hd0])
    by_cases hself : aget st.selfA s = 1
    · rw [if_pos hself] at h
      injection h with h
      subst h
      exact simple
    · rw [if_neg hself] at h
      have hph1 : aget st.ph (s + g.segBandCount) = 0 :=
        h0.ph_unstarted (r + 1) hr1 (s + g.segBandCount) (by omega) hb2
      have hv := startRowCurrent_view (st := { st with dep := aset st.dep (s + g.segBandCount) d }) (r := r + 1) hcur
        (by rw [h0.sz_ph]; exact htot) hph1 (by omega)
      obtain ⟨v1, v2, v3, v4, v5, v6⟩ := hv
      injection h with h
      subst h
      have key : ∀ t, aget (aset (startRowCurrent { st with dep := aset st.dep (s + g.segBandCount) d } (r + 1)).ph s 4) t =
          if t = s then 4 else if t = s + g.segBandCount then 1 else aget st.ph t := by
        intro t
        rw [v5, aget_aset' (by rw [size_aset]; exact hs), aget_aset' (by rw [h0.sz_ph]; exact htot)]
      refine ⟨fun t => ?_, s, hsR, ?_⟩
      · show aget st.ph t ≤ aget (aset (startRowCurrent { st with dep := aset st.dep (s + g.segBandCount) d } (r + 1)).ph s 4) t
        rw [key]
        split
        · subst_vars; omega
        · split
          · subst_vars; omega
          · exact Nat.le_refl _
      · show aget st.ph s < aget (aset (startRowCurrent { st with dep := aset st.dep (s + g.segBandCount) d } (r + 1)).ph s 4) s
        rw [key, if_pos rfl]
        omega
  · rw [if_neg hd0] at h
    injection h with h
    subst h
    exact simple

theorem step_ph_take (hw : WF g) {st st' : ASt} (hi : Inv g st) {k : Nat} (h : assignStep g st (.take k) = some st') :
    (∀ t, aget st.ph t ≤ aget st'.ph t) ∧
    ∃ t, t < g.segRowCount * g.segBandCount ∧ aget st.ph t < aget st'.ph t := by
  obtain ⟨h0, hready⟩ := hi
  simp only [assignStep] at h
  split at h
  · cases h
  split at h
  · cases h
  · -- MDC_INPUT: the state is the initial one
    rename_i hk
    have hm : Task.mdc ∈ st.pool := List.mem_of_getElem? hk
    have hst := h0.pool_mdc hm
    subst hst
    have hR := hw.hR
    have hB := hw.hB
    have hcur0 : aget (g.rows.map (·.starting)) 0 = rowStart g.rows 0 :=
      aget_map_starting _ _ (by rw [hw.hrows]; exact hR)
    have hle0 := hw.row_le 0 hR
    have htot := row_lt_total hw hR hle0
    have hsmall := hw.hsmall
    have hph := aget_init_ph g
    have hv := startRowCurrent_view (st := { dep := (initASt g).dep, cur := g.rows.map (·.starting), ph := (initASt g).ph, selfA := (initASt g).selfA, pool := (initASt g).pool.eraseIdx k, err := (initASt g).err })
      (r := 0) hcur0 (by show rowStart g.rows 0 < (initASt g).ph.size; rw [h0.sz_ph]; exact htot) (hph _) (by omega)
    obtain ⟨v1, v2, v3, v4, v5, v6⟩ := hv
    injection h with h
    subst h
    have hsz : rowStart g.rows 0 < (initASt g).ph.size := by rw [h0.sz_ph]; exact htot
    refine ⟨fun t => ?_, rowStart g.rows 0, htot, ?_⟩
    · rw [hph]; exact Nat.zero_le _
    · rw [v5, aget_aset' hsz, if_pos rfl, hph]
      omega
  · -- ENCDEC_INPUT (feedback task)
    rename_i r hk
    have hf : Task.fb r ∈ st.pool := List.mem_of_getElem? hk
    obtain ⟨hr, hce, hde⟩ := h0.pool_fb r hf
    have hlo := h0.cur_lo r hr
    have htot := row_lt_total hw hr hce
    have hsmall := hw.hsmall
    have hph1 := h0.ph_unstarted r hr _ (Nat.le_refl _) hce
    have hsz : aget st.cur r < st.ph.size := by rw [h0.sz_ph]; exact htot
    have hv := startRowCurrent_view (st := { st with pool := st.pool.eraseIdx k }) (r := r) rfl
      (by show aget st.cur r < st.ph.size; exact hsz) hph1 (by show aget st.cur r + 1 < 65536; omega)
    obtain ⟨v1, v2, v3, v4, v5, v6⟩ := hv
    injection h with h
    subst h
    refine ⟨fun t => ?_, aget st.cur r, htot, ?_⟩
    · rw [v5]
      show aget st.ph t ≤ aget (aset st.ph (aget st.cur r) 1) t
      rw [aget_aset' hsz]
      split
      · subst_vars; omega
      · exact Nat.le_refl _
    · rw [v5]
      show aget st.ph (aget st.cur r) < aget (aset st.ph (aget st.cur r) 1) (aget st.cur r)
      rw [aget_aset' hsz, if_pos rfl]
      omega

theorem step_ph (hw : WF g) {st st' : ASt} (hi : Inv g st) {op : Op} (h : assignStep g st op = some st') :
    (∀ t, aget st.ph t ≤ aget st'.ph t) ∧
    ∃ t, t < g.segRowCount * g.segBandCount ∧ aget st.ph t < aget st'.ph t := by
  cases op with
  | take k => exact step_ph_take hw hi h
  | fin s => exact step_ph_fin hw hi h
  | right s => exact step_ph_right hw hi h
  | bottom s => exact step_ph_bottom hw hi h

/-! ## the measure -/

/-- no step ever lowers a phase -/
theorem step_ph_mono (hw : WF g) {st st' : ASt} (hi : Inv g st) {op : Op} (h : assignStep g st op = some st') :
    ∀ t, aget st.ph t ≤ aget st'.ph t := (step_ph hw hi h).1

/-- every step raises the phase of some segment of the picture -/
theorem step_ph_strict (hw : WF g) {st st' : ASt} (hi : Inv g st) {op : Op} (h : assignStep g st op = some st') :
    ∃ t, t < g.segRowCount * g.segBandCount ∧ aget st.ph t < aget st'.ph t := (step_ph hw hi h).2

/-- every step strictly increases the measure -/
theorem step_measure (hw : WF g) {st st' : ASt} (hi : Inv g st) {op : Op} (h : assignStep g st op = some st') :
    phSum st (g.segRowCount * g.segBandCount) < phSum st' (g.segRowCount * g.segBandCount) := by
  obtain ⟨t, ht, hlt⟩ := step_ph_strict hw hi h
  exact sum_lt_of_le_of_lt (f := fun t => aget st.ph t) (f' := fun t => aget st'.ph t) (step_ph_mono hw hi h) ht hlt

/-- the measure is bounded -/
theorem measure_bound (_hw : WF g) {st : ASt} (hi : Inv g st) :
    phSum st (g.segRowCount * g.segBandCount) ≤ 4 * (g.segRowCount * g.segBandCount) :=
  sum_le_const (f := fun t => aget st.ph t) hi.1.ph_le _

/-! ## executions are finite -/

/-- `Steps g st k st'`: `st'` is reached from `st` by exactly `k` atomic steps -/
inductive Steps (g : SegCtl) : ASt → Nat → ASt → Prop where
  | refl (st : ASt) : Steps g st 0 st
  | step {st st' st'' : ASt} {k : Nat} {op : Op} :
      assignStep g st op = some st' → Steps g st' k st'' → Steps g st (k + 1) st''

theorem steps_measure (hw : WF g) {st st' : ASt} {k : Nat} (hi : Inv g st) (h : Steps g st k st') :
    Inv g st' ∧ phSum st (g.segRowCount * g.segBandCount) + k ≤ phSum st' (g.segRowCount * g.segBandCount) := by
  induction h with
  | refl st => exact ⟨hi, Nat.le_refl _⟩
  | step hs _ ih =>
    obtain ⟨hi', hle⟩ := ih (inv_step hw hi hs)
    have := step_measure hw hi hs
    exact ⟨hi', by omega⟩

/-- any chain of steps from a state satisfying the invariant has length at most `4 * R * B` -/
theorem steps_bounded_inv (hw : WF g) {st st' : ASt} {k : Nat} (hi : Inv g st) (h : Steps g st k st') :
    k ≤ 4 * (g.segRowCount * g.segBandCount) := by
  obtain ⟨hi', hle⟩ := steps_measure hw hi h
  have := measure_bound hw hi'
  omega

/-- any chain of steps from a reachable state has length at most `4 * R * B`: every execution is finite -/
theorem steps_bounded (hw : WF g) {st st' : ASt} {k : Nat} (hr : Reachable g st) (h : Steps g st k st') :
    k ≤ 4 * (g.segRowCount * g.segBandCount) :=
  steps_bounded_inv hw (reachable_inv hw hr) h

/-- the endpoint of a chain from a reachable state is reachable -/
theorem steps_reachable {st st' : ASt} {k : Nat} (hr : Reachable g st) (h : Steps g st k st') : Reachable g st' := by
  induction h with
  | refl st => exact hr
  | step hs _ ih => exact ih (Reachable.step hr hs)

end Seg
