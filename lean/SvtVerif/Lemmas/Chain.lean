/-
  C27 (part B) — the linear chain with bounded pools never deadlocks when the application drains the output
  after each submission (`pool_sufficient_partial`), for ALL chain lengths, pool sizes, stage demands and
  picture counts.  `_partial`: the statement is about the ABSTRACT chain of `Model/Chain.lean`; that the real
  encoder's resource graph is such a chain (no object of pool `i` is held across a blocking wait for an object
  of a pool `j ≤ i`) is the explicit hypothesis H-chain of C27, not discharged here.
-/
import SvtVerif.Model.Chain
import Mathlib.Tactic.SplitIfs

namespace Chain

variable {P : Params} {s : State}

/-! ### finite sums -/

theorem sumTo_congr {f g : Nat → Nat} {n : Nat} (h : ∀ i, i < n → f i = g i) :
    sumTo f n = sumTo g n := by
  induction n with
  | zero => rfl
  | succ n ih =>
    simp only [sumTo]
    rw [ih (fun i hi => h i (by omega)), h n (by omega)]

theorem sumTo_zero {f : Nat → Nat} {n : Nat} (h : ∀ i, i < n → f i = 0) : sumTo f n = 0 := by
  induction n with
  | zero => rfl
  | succ n ih =>
    simp only [sumTo]
    rw [ih (fun i hi => h i (by omega)), h n (by omega)]

/-- Adding `d` at one index `i < n` adds `d` to the sum. -/
theorem sumTo_bump {f g : Nat → Nat} {n i d : Nat} (hi : i < n) (hne : ∀ j, j ≠ i → g j = f j)
    (hg : g i = f i + d) : sumTo g n = sumTo f n + d := by
  induction n with
  | zero => omega
  | succ n ih =>
    simp only [sumTo]
    by_cases hin : i = n
    · have h1 : sumTo g n = sumTo f n := sumTo_congr (fun j hj => hne j (by omega))
      have h2 : g n = f n + d := hin ▸ hg
      omega
    · have h1 := ih (by omega)
      have h2 : g n = f n := hne n (by omega)
      omega

/-- Removing one unit at index `i < n`. -/
theorem sumTo_drop {f g : Nat → Nat} {n i : Nat} (hi : i < n) (hpos : 0 < f i)
    (hg : ∀ j, g j = if j = i then f j - 1 else f j) : sumTo g n + 1 = sumTo f n := by
  have := sumTo_bump (f := g) (g := f) (n := n) (i := i) (d := 1) hi
    (fun j hj => by rw [hg, if_neg hj]) (by rw [hg, if_pos rfl]; omega)
  omega

/-- Moving one unit from index `i` to index `i+1` keeps the sum. -/
theorem sumTo_move {f g : Nat → Nat} {n i : Nat} (hi : i + 1 < n) (hpos : 0 < f i)
    (hg : ∀ j, g j = if j = i then f j - 1 else if j = i + 1 then f j + 1 else f j) :
    sumTo g n = sumTo f n := by
  have e1 : sumTo (fun j => if j = i then f j - 1 else f j) n + 1 = sumTo f n :=
    sumTo_drop (by omega) hpos (fun j => rfl)
  have e2 : sumTo g n = sumTo (fun j => if j = i then f j - 1 else f j) n + 1 := by
    apply sumTo_bump (i := i + 1) hi
    · intro j hj
      show g j = if j = i then f j - 1 else f j
      rw [hg]
      by_cases h1 : j = i
      · rw [if_pos h1, if_pos h1]
      · rw [if_neg h1, if_neg hj, if_neg h1]
    · show g (i + 1) = (if i + 1 = i then f (i + 1) - 1 else f (i + 1)) + 1
      rw [hg, if_neg (show ¬ i + 1 = i by omega), if_pos rfl, if_neg (show ¬ i + 1 = i by omega)]
  omega

/-! ### occupancy after each step -/

theorem occ_lt {i : Nat} (hi : i < P.m) : occ P s i = s.q i + s.held i := by
  unfold occ; rw [if_pos hi]

theorem occ_m : occ P s P.m = s.q P.m := by
  unfold occ; rw [if_neg (Nat.lt_irrefl _)]

theorem occ_init (i : Nat) : occ P init i = 0 := by
  unfold occ init; split <;> rfl

theorem emit_held_pos (hw : P.WF) {i : Nat} (h : Enabled P s (.emit i)) : 0 < s.held i := by
  obtain ⟨hi, -, hh⟩ := h
  rcases hh with hh | ⟨-, hh⟩
  · have := hw.k_pos i hi; omega
  · exact hh

theorem occ_send (j : Nat) :
    occ P (fire P s .send) j = if j = 0 then occ P s j + 1 else occ P s j := by
  simp only [occ, fire, upd]
  split_ifs <;> subst_vars <;> omega

theorem occ_consume {i : Nat} (h : Enabled P s (.consume i)) (j : Nat) :
    occ P (fire P s (.consume i)) j = occ P s j := by
  obtain ⟨hi, hq, -⟩ := h
  simp only [occ, fire, upd]
  split_ifs <;> subst_vars <;> omega

theorem occ_emit (hw : P.WF) {i : Nat} (h : Enabled P s (.emit i)) (j : Nat) :
    occ P (fire P s (.emit i)) j =
      if j = i then occ P s j - 1 else if j = i + 1 then occ P s j + 1 else occ P s j := by
  have hpos := emit_held_pos hw h
  obtain ⟨hi, -, -⟩ := h
  simp only [occ, fire, upd]
  split_ifs <;> subst_vars <;> omega

theorem occ_take (j : Nat) :
    occ P (fire P s .take) j = if j = P.m then occ P s j - 1 else occ P s j := by
  simp only [occ, fire, upd]
  split_ifs <;> subst_vars <;> omega

theorem occ_drained : occ P (fire P s .drained) = occ P s := rfl

/-! ### the inductive invariant -/

/-- Conservation and pool bounds, in terms of pool occupancies. -/
structure Inv (P : Params) (s : State) : Prop where
  held_le : ∀ i, i < P.m → s.held i ≤ P.k i
  occ_le : ∀ i, i ≤ P.m → occ P s i ≤ P.pool i
  sent_le : s.sent ≤ P.N
  cons : s.sent = s.delivered + sumTo (occ P s) (P.m + 1)

theorem inv_init : Inv P init := by
  refine ⟨fun _ _ => Nat.zero_le _, fun i _ => ?_, Nat.zero_le _, ?_⟩
  · rw [occ_init]; exact Nat.zero_le _
  · show 0 = 0 + sumTo (occ P init) (P.m + 1)
    rw [sumTo_zero (fun i _ => occ_init i)]

theorem inv_step (hw : P.WF) (hinv : Inv P s) {op : Op} (he : Enabled P s op) :
    Inv P (fire P s op) := by
  cases op with
  | send =>
    obtain ⟨_, hlt, hroom⟩ := he
    refine ⟨fun i hi => hinv.held_le i hi, fun i hi => ?_, ?_, ?_⟩
    · rw [occ_send]
      split_ifs with h0
      · subst h0; omega
      · exact hinv.occ_le i hi
    · show s.sent + 1 ≤ P.N; omega
    · show s.sent + 1 = s.delivered + sumTo (occ P (fire P s .send)) (P.m + 1)
      have := sumTo_bump (f := occ P s) (g := occ P (fire P s .send)) (n := P.m + 1) (i := 0) (d := 1)
        (by omega) (fun j hj => by rw [occ_send, if_neg hj]) (by rw [occ_send, if_pos rfl])
      have := hinv.cons
      omega
  | consume i =>
    have hocc : ∀ j, occ P (fire P s (.consume i)) j = occ P s j := occ_consume he
    obtain ⟨hi, hq, hh⟩ := he
    refine ⟨fun j hj => ?_, fun j hj => ?_, hinv.sent_le, ?_⟩
    · show upd s.held i (s.held i + 1) j ≤ P.k j
      unfold upd
      split_ifs with h
      · subst h; omega
      · exact hinv.held_le j hj
    · rw [hocc]; exact hinv.occ_le j hj
    · show s.sent = s.delivered + sumTo (occ P (fire P s (.consume i))) (P.m + 1)
      rw [sumTo_congr (fun j _ => hocc j)]; exact hinv.cons
  | emit i =>
    have hocc := occ_emit hw he
    have hpos := emit_held_pos hw he
    obtain ⟨hi, hroom, -⟩ := he
    refine ⟨fun j hj => ?_, fun j hj => ?_, hinv.sent_le, ?_⟩
    · show upd s.held i (s.held i - 1) j ≤ P.k j
      unfold upd
      split_ifs with h
      · have := hinv.held_le i hi; subst h; omega
      · exact hinv.held_le j hj
    · rw [hocc]
      split_ifs with h1 h2
      · have := hinv.occ_le j hj; omega
      · subst h2; omega
      · exact hinv.occ_le j hj
    · show s.sent = s.delivered + sumTo (occ P (fire P s (.emit i))) (P.m + 1)
      have h1 : 0 < occ P s i := by rw [occ_lt hi]; omega
      rw [sumTo_move (f := occ P s) (i := i) (by omega) h1 hocc]; exact hinv.cons
  | take =>
    obtain ⟨_, hq⟩ := he
    refine ⟨fun j hj => hinv.held_le j hj, fun j hj => ?_, hinv.sent_le, ?_⟩
    · rw [occ_take]
      have := hinv.occ_le j hj
      split_ifs <;> omega
    · show s.sent = s.delivered + 1 + sumTo (occ P (fire P s .take)) (P.m + 1)
      have := sumTo_drop (f := occ P s) (g := occ P (fire P s .take)) (n := P.m + 1) (i := P.m)
        (by omega) (by rw [occ_m]; exact hq) (fun j => occ_take j)
      have := hinv.cons
      omega
  | drained =>
    exact ⟨hinv.held_le, hinv.occ_le, hinv.sent_le, hinv.cons⟩

theorem inv_of_reachable (hw : P.WF) (hr : Reachable P s) : Inv P s := by
  induction hr with
  | init => exact inv_init
  | step op _ he ih => exact inv_step hw ih he

theorem sumTo_occ (n : Nat) (hn : n ≤ P.m) :
    sumTo (occ P s) n = sumTo s.q n + sumTo s.held n := by
  induction n with
  | zero => rfl
  | succ n ih =>
    simp only [sumTo]
    rw [ih (by omega), occ_lt (show n < P.m by omega)]
    omega

/-- **Conservation and pool bounds.**  In every reachable state of the chain (any interleaving of the stage
    threads and the application), every submitted picture is either delivered, queued in some channel, or
    held by some stage; no stage holds more than its demand `k i`; no pool is over-committed. -/
theorem chain_conservation (hw : P.WF) (hr : Reachable P s) :
    s.sent = s.delivered + sumTo s.q (P.m + 1) + sumTo s.held P.m ∧
    (∀ i, i < P.m → s.held i ≤ P.k i) ∧ (∀ i, i ≤ P.m → occ P s i ≤ P.pool i) := by
  have hinv := inv_of_reachable hw hr
  refine ⟨?_, hinv.held_le, hinv.occ_le⟩
  have h1 := hinv.cons
  have h2 : sumTo (occ P s) (P.m + 1) = sumTo (occ P s) P.m + occ P s P.m := rfl
  have h3 := sumTo_occ (P := P) (s := s) P.m (Nat.le_refl _)
  have h4 : sumTo s.q (P.m + 1) = sumTo s.q P.m + s.q P.m := rfl
  have h5 := occ_m (P := P) (s := s)
  omega

/-- **Room invariant.**  Whenever the draining application is about to submit the next picture, some pool of
    the chain has a free object (the application returned from `get_packet` with "empty", so the output pool
    is not full; every later `emit` frees a slot of the emitting stage's input pool). -/
theorem chain_room_inv (hw : P.WF) (hd : P.appDrains = true) (hr : Reachable P s) :
    s.app = .sending → ∃ i, i ≤ P.m ∧ occ P s i < P.pool i := by
  induction hr with
  | init =>
    intro _
    refine ⟨0, Nat.zero_le _, ?_⟩
    rw [occ_init]
    by_cases hm : 0 < P.m
    · have := hw.k_pos 0 hm; have := hw.k_le_pool 0 hm; omega
    · have h0 : P.m = 0 := by omega
      have := hw.out_pos; rw [h0] at this; omega
  | @step s' op hr' he ih =>
    have hinv := inv_of_reachable hw hr'
    cases op with
    | send => intro h; simp [fire, hd] at h
    | consume i =>
      intro h
      obtain ⟨j, hj, hlt⟩ := ih h
      exact ⟨j, hj, by rw [occ_consume he]; exact hlt⟩
    | emit i =>
      intro _
      have hpos := emit_held_pos hw he
      have hi : i < P.m := he.1
      refine ⟨i, by omega, ?_⟩
      rw [occ_emit hw he, if_pos rfl]
      have := hinv.occ_le i (by omega)
      have := occ_lt (P := P) (s := s') hi
      omega
    | take =>
      intro _
      have hq : 0 < s'.q P.m := he.2
      refine ⟨P.m, Nat.le_refl _, ?_⟩
      rw [occ_take, if_pos rfl]
      have := hinv.occ_le P.m (Nat.le_refl _)
      have := occ_m (P := P) (s := s')
      omega
    | drained =>
      intro _
      have hq : s'.q P.m = 0 := he.2.1
      refine ⟨P.m, Nat.le_refl _, ?_⟩
      rw [occ_drained, occ_m]
      have := hw.out_pos
      omega

/-- **No deadlock when the application drains after each submission.**  In the abstract chain with bounded
    pools (`1 ≤ k i ≤ pool i`, `1 ≤ pool m`), for every chain length, pool sizes, demands and picture count
    and under every interleaving: a reachable state in which NO step is enabled (no stage can consume or emit,
    `send_picture` would block or has nothing left to send, `get_packet` has nothing to return) has delivered
    all `N` pictures.  So the pool sizes are sufficient whenever each stage's demand fits in its own input
    pool; no cross-stage sizing condition is needed. -/
theorem pool_sufficient_partial (hw : P.WF) (hd : P.appDrains = true) (hr : Reachable P s)
    (hs : Stuck P s) : s.delivered = P.N := by
  have hinv := inv_of_reachable hw hr
  have hroom := chain_room_inv hw hd hr
  -- Step 1: everything has been submitted.
  have hsent : s.sent = P.N := by
    apply Classical.byContradiction
    intro hne
    have hlt : s.sent < P.N := by have := hinv.sent_le; omega
    cases happ : s.app with
    | draining =>
      by_cases hq : 0 < s.q P.m
      · exact hs .take ⟨Or.inl happ, hq⟩
      · exact hs .drained ⟨happ, by omega, hlt⟩
    | sending =>
      obtain ⟨i, him, hri⟩ := hroom happ
      have hfull : ∀ i, i ≤ P.m → occ P s i = P.pool i := by
        intro i
        induction i with
        | zero =>
          intro _
          have h0 := hinv.occ_le 0 (Nat.zero_le _)
          have h1 : ¬ occ P s 0 < P.pool 0 := fun h => hs .send ⟨happ, hlt, h⟩
          omega
        | succ i ih =>
          intro hi
          have hi' : i < P.m := by omega
          have hocc := ih (by omega)
          have hocci := occ_lt (P := P) (s := s) hi'
          have hk := hinv.held_le i hi'
          have hkp := hw.k_le_pool i hi'
          have hheld : s.held i = P.k i := by
            apply Classical.byContradiction
            intro hne2
            have hq0 : s.q i = 0 := by
              apply Classical.byContradiction
              intro hq
              exact hs (.consume i) ⟨hi', by omega, by omega⟩
            omega
          have h1 : ¬ occ P s (i + 1) < P.pool (i + 1) :=
            fun h => hs (.emit i) ⟨hi', h, Or.inl hheld⟩
          have h2 := hinv.occ_le (i + 1) hi
          omega
      have := hfull i him
      omega
  -- Step 2: walk back from the output: every pool has room and every queue is empty.
  have hqm : s.q P.m = 0 := by
    apply Classical.byContradiction
    intro h
    exact hs .take ⟨Or.inr hsent, by omega⟩
  have hback : ∀ d i, i + d = P.m → occ P s i < P.pool i ∧ s.q i = 0 := by
    intro d
    induction d with
    | zero =>
      intro i hi
      have him : i = P.m := by omega
      rw [him, occ_m, hqm]
      exact ⟨by have := hw.out_pos; omega, rfl⟩
    | succ d ih =>
      intro i hi
      have hi' : i < P.m := by omega
      have hnext := (ih (i + 1) (by omega)).1
      have hne : ¬ (s.held i = P.k i ∨ (Flush P s i ∧ 0 < s.held i)) :=
        fun h => hs (.emit i) ⟨hi', hnext, h⟩
      have hne1 : s.held i ≠ P.k i := fun h => hne (Or.inl h)
      have hk := hinv.held_le i hi'
      have hq0 : s.q i = 0 := by
        apply Classical.byContradiction
        intro hq
        exact hs (.consume i) ⟨hi', by omega, by omega⟩
      have hkp := hw.k_le_pool i hi'
      rw [occ_lt hi']
      exact ⟨by omega, hq0⟩
  -- Step 3: walk forward with the end-of-stream flush: no stage holds anything.
  have hfwd : ∀ i, i ≤ P.m → ∀ j, j < i → (s.q j = 0 ∧ s.held j = 0) := by
    intro i
    induction i with
    | zero => intro _ j hj; omega
    | succ i ih =>
      intro hi j hj
      have hprev := ih (by omega)
      by_cases hji : j < i
      · exact hprev j hji
      · have e : j = i := by omega
        rw [e]
        have hq := (hback (P.m - i) i (by omega)).2
        have hnext := (hback (P.m - (i + 1)) (i + 1) (by omega)).1
        refine ⟨hq, ?_⟩
        apply Classical.byContradiction
        intro hh
        exact hs (.emit i) ⟨by omega, hnext, Or.inr ⟨⟨hsent, hq, hprev⟩, by omega⟩⟩
  -- Step 4: conservation.
  have hz : ∀ i, i < P.m + 1 → occ P s i = 0 := by
    intro i hi
    by_cases him : i < P.m
    · have := hfwd P.m (Nat.le_refl _) i him
      rw [occ_lt him]; omega
    · have e : i = P.m := by omega
      rw [e, occ_m]; exact hqm
  have := hinv.cons
  rw [sumTo_zero hz] at this
  omega

/-! ### executable runs and examples -/

theorem stuck_of_stuckB (h : StuckB P s) : Stuck P s := by
  obtain ⟨h1, h2, h3, h4⟩ := h
  intro op
  cases op with
  | send => exact h1
  | take => exact h2
  | drained => exact h3
  | consume i => intro he; exact (h4 i he.1).1 he
  | emit i => intro he; exact (h4 i he.1).2 he

theorem run_reachable {s s' : State} {ops : List Op} (hr : Reachable P s)
    (h : run P s ops = some s') : Reachable P s' := by
  induction ops generalizing s with
  | nil => simp only [run, Option.some.injEq] at h; exact h ▸ hr
  | cons op ops ih =>
    simp only [run, step] at h
    split_ifs at h with he
    exact ih (Reachable.step op hr he) h

/-- The 1-stage chain with all pools of size 1 and 3 pictures, application draining after each send. -/
def ex1 (drains : Bool) : Params := ⟨1, fun _ => 1, fun _ => 1, 3, drains⟩

theorem ex1_wf (b : Bool) : (ex1 b).WF :=
  ⟨fun _ _ => Nat.le_refl _, fun _ _ => Nat.le_refl _, Nat.le_refl _⟩

/-- Non-vacuity: with draining, the schedule send/consume/emit/take/drained ×3 delivers all 3 pictures and
    ends in a state where nothing is enabled. -/
example :
    (run (ex1 true) init
      [.send, .consume 0, .emit 0, .take, .drained,
       .send, .consume 0, .emit 0, .take, .drained,
       .send, .consume 0, .emit 0, .take]).map (summary (ex1 true)) = some (3, 3, true) := by
  decide

/-- A different interleaving (the application polls "empty" before the stage ran) reaches the same end
    (a `send` attempted while pool 0 is still occupied is simply not enabled: back-pressure). -/
example :
    (run (ex1 true) init
      [.send, .drained, .consume 0, .emit 0, .send, .consume 0, .take, .emit 0, .take, .drained,
       .send, .consume 0, .emit 0, .take]).map (summary (ex1 true)) = some (3, 3, true) := by
  decide

/-- A 2-stage chain with a look-ahead stage (`k 0 = 2`) also completes (flush at end of stream). -/
example :
    (run ⟨2, fun _ => 2, fun i => if i = 0 then 2 else 1, 3, true⟩ init
      [.send, .consume 0, .drained, .send, .consume 0, .emit 0, .consume 1, .emit 1, .take, .drained,
       .send, .consume 0, .emit 0, .consume 1, .emit 1, .take,
       .emit 0, .consume 1, .emit 1, .take]).map
        (summary ⟨2, fun _ => 2, fun i => if i = 0 then 2 else 1, 3, true⟩) = some (3, 3, true) := by
  decide

/-- NEGATIVE: without draining (`appDrains = false`, the application only polls after the last picture) the
    same chain with `N = 3 >` total capacity `2` gets stuck with nothing delivered. -/
example :
    (run (ex1 false) init [.send, .consume 0, .emit 0, .send, .consume 0]).map (summary (ex1 false))
      = some (2, 0, true) := by
  decide

/-- **The draining hypothesis of `pool_sufficient_partial` is necessary**: there is a well-formed chain and a
    reachable state of the non-draining application in which no step is enabled and not everything has been
    delivered. -/
theorem no_drain_deadlocks :
    ∃ (P : Params) (s : State), P.WF ∧ Reachable P s ∧ Stuck P s ∧ s.delivered < P.N := by
  have h : (run (ex1 false) init [.send, .consume 0, .emit 0, .send, .consume 0]).map
      (summary (ex1 false)) = some (2, 0, true) := by decide
  cases hrun : run (ex1 false) init [.send, .consume 0, .emit 0, .send, .consume 0] with
  | none => rw [hrun] at h; exact absurd h (by simp)
  | some s =>
    rw [hrun] at h
    simp only [Option.map_some, Option.some.injEq, summary, Prod.mk.injEq, decide_eq_true_eq] at h
    refine ⟨ex1 false, s, ex1_wf _, run_reachable Reachable.init hrun, stuck_of_stuckB h.2.2, ?_⟩
    rw [h.2.1]; decide


/-! ### termination: a strictly decreasing measure -/

theorem upd_same (f : Nat → Nat) (i v : Nat) : upd f i v i = v := by
  unfold upd; rw [if_pos rfl]

theorem upd_ne (f : Nat → Nat) {i j : Nat} (v : Nat) (h : j ≠ i) : upd f i v j = f j := by
  unfold upd; rw [if_neg h]

theorem mul_succ_split {a b : Nat} (K : Nat) (h : a = b + 1) : b * K + K = a * K := by
  subst h; rw [Nat.succ_mul]

theorem wsum_inc (f w : Nat → Nat) {n i : Nat} (hi : i < n) :
    sumTo (fun j => upd f i (f i + 1) j * w j) n = sumTo (fun j => f j * w j) n + w i := by
  apply sumTo_bump hi
  · intro j hj
    show upd f i (f i + 1) j * w j = f j * w j
    rw [upd_ne _ _ hj]
  · show upd f i (f i + 1) i * w i = f i * w i + w i
    rw [upd_same, Nat.succ_mul]

theorem wsum_dec (f w : Nat → Nat) {n i : Nat} (hi : i < n) (hpos : 0 < f i) :
    sumTo (fun j => upd f i (f i - 1) j * w j) n + w i = sumTo (fun j => f j * w j) n := by
  have := sumTo_bump (f := fun j => upd f i (f i - 1) j * w j) (g := fun j => f j * w j)
    (d := w i) hi
    (fun j hj => by
      show f j * w j = upd f i (f i - 1) j * w j
      rw [upd_ne _ _ hj])
    (by
      show f i * w i = upd f i (f i - 1) i * w i + w i
      rw [upd_same]
      exact (mul_succ_split (w i) (by omega)).symm)
  omega

/-- Every step strictly decreases `weight`. -/
theorem measure_decreases (hw : P.WF) {op : Op} (he : Enabled P s op) :
    weight P (fire P s op) < weight P s := by
  have hS : App.sending.w = 0 := rfl
  have hD : App.draining.w = 1 := rfl
  cases op with
  | send =>
    obtain ⟨happ, hlt, _⟩ := he
    have h1 := mul_succ_split (a := P.N - s.sent) (b := P.N - (s.sent + 1)) (2 * P.m + 4) (by omega)
    have h2 := wsum_inc s.q (fun j => 2 * (P.m - j) + 2) (n := P.m + 1) (i := 0) (by omega)
    have h3 : (if P.appDrains then App.draining else App.sending).w ≤ 1 := by
      cases P.appDrains <;> decide
    show (P.N - (s.sent + 1)) * (2 * P.m + 4)
        + sumTo (fun j => upd s.q 0 (s.q 0 + 1) j * (2 * (P.m - j) + 2)) (P.m + 1)
        + sumTo (fun j => s.held j * (2 * (P.m - j) + 1)) P.m
        + (if P.appDrains then App.draining else App.sending).w
      < (P.N - s.sent) * (2 * P.m + 4)
        + sumTo (fun j => s.q j * (2 * (P.m - j) + 2)) (P.m + 1)
        + sumTo (fun j => s.held j * (2 * (P.m - j) + 1)) P.m + s.app.w
    rw [happ]
    omega
  | consume i =>
    obtain ⟨hi, hq, _⟩ := he
    have h2 := wsum_dec s.q (fun j => 2 * (P.m - j) + 2) (n := P.m + 1) (i := i) (by omega) hq
    have h3 := wsum_inc s.held (fun j => 2 * (P.m - j) + 1) (n := P.m) (i := i) hi
    show (P.N - s.sent) * (2 * P.m + 4)
        + sumTo (fun j => upd s.q i (s.q i - 1) j * (2 * (P.m - j) + 2)) (P.m + 1)
        + sumTo (fun j => upd s.held i (s.held i + 1) j * (2 * (P.m - j) + 1)) P.m + s.app.w
      < (P.N - s.sent) * (2 * P.m + 4)
        + sumTo (fun j => s.q j * (2 * (P.m - j) + 2)) (P.m + 1)
        + sumTo (fun j => s.held j * (2 * (P.m - j) + 1)) P.m + s.app.w
    omega
  | emit i =>
    have hpos := emit_held_pos hw he
    obtain ⟨hi, _, _⟩ := he
    have h2 := wsum_inc s.q (fun j => 2 * (P.m - j) + 2) (n := P.m + 1) (i := i + 1) (by omega)
    have h3 := wsum_dec s.held (fun j => 2 * (P.m - j) + 1) (n := P.m) (i := i) hi hpos
    show (P.N - s.sent) * (2 * P.m + 4)
        + sumTo (fun j => upd s.q (i + 1) (s.q (i + 1) + 1) j * (2 * (P.m - j) + 2)) (P.m + 1)
        + sumTo (fun j => upd s.held i (s.held i - 1) j * (2 * (P.m - j) + 1)) P.m + s.app.w
      < (P.N - s.sent) * (2 * P.m + 4)
        + sumTo (fun j => s.q j * (2 * (P.m - j) + 2)) (P.m + 1)
        + sumTo (fun j => s.held j * (2 * (P.m - j) + 1)) P.m + s.app.w
    omega
  | take =>
    obtain ⟨_, hq⟩ := he
    have h2 := wsum_dec s.q (fun j => 2 * (P.m - j) + 2) (n := P.m + 1) (i := P.m) (by omega) hq
    show (P.N - s.sent) * (2 * P.m + 4)
        + sumTo (fun j => upd s.q P.m (s.q P.m - 1) j * (2 * (P.m - j) + 2)) (P.m + 1)
        + sumTo (fun j => s.held j * (2 * (P.m - j) + 1)) P.m + s.app.w
      < (P.N - s.sent) * (2 * P.m + 4)
        + sumTo (fun j => s.q j * (2 * (P.m - j) + 2)) (P.m + 1)
        + sumTo (fun j => s.held j * (2 * (P.m - j) + 1)) P.m + s.app.w
    omega
  | drained =>
    obtain ⟨happ, _, _⟩ := he
    show (P.N - s.sent) * (2 * P.m + 4)
        + sumTo (fun j => s.q j * (2 * (P.m - j) + 2)) (P.m + 1)
        + sumTo (fun j => s.held j * (2 * (P.m - j) + 1)) P.m + App.sending.w
      < (P.N - s.sent) * (2 * P.m + 4)
        + sumTo (fun j => s.q j * (2 * (P.m - j) + 2)) (P.m + 1)
        + sumTo (fun j => s.held j * (2 * (P.m - j) + 1)) P.m + s.app.w
    rw [happ]
    omega

theorem weight_init : weight P init = P.N * (2 * P.m + 4) := by
  show (P.N - 0) * (2 * P.m + 4) + sumTo (fun j => 0 * (2 * (P.m - j) + 2)) (P.m + 1)
    + sumTo (fun j => 0 * (2 * (P.m - j) + 1)) P.m + 0 = P.N * (2 * P.m + 4)
  rw [sumTo_zero (fun i _ => Nat.zero_mul _), sumTo_zero (fun i _ => Nat.zero_mul _)]
  simp

/-- **Termination.**  Every execution of the chain (any interleaving, with or without draining) from state
    `s` has at most `weight P s` steps. -/
theorem chain_terminates (hw : P.WF) {s s' : State} {ops : List Op} (h : run P s ops = some s') :
    ops.length + weight P s' ≤ weight P s := by
  induction ops generalizing s with
  | nil => simp only [run, Option.some.injEq] at h; subst h; simp
  | cons op ops ih =>
    simp only [run, step] at h
    split_ifs at h with he
    have h1 := ih h
    have h2 := measure_decreases hw he
    simp only [List.length_cons]
    omega

/-- Every schedule from the initial state has at most `N * (2m+4)` steps: each picture makes at most
    `2m+4` moves.  Together with `pool_sufficient_partial`: every maximal execution of the draining
    application is finite and ends with all `N` pictures delivered. -/
theorem chain_run_length_le (hw : P.WF) {s' : State} {ops : List Op} (h : run P init ops = some s') :
    ops.length ≤ P.N * (2 * P.m + 4) := by
  have := chain_terminates hw h
  rw [weight_init] at this
  omega

section AxiomCheck
end AxiomCheck

end Chain
