/-
  Lemmas/Unwind.lean — the invariant behind C16/C15 over `Model/Unwind.lean`.

  `Ext T c f st f' st'` : running (part of) the constructor of class `c` took members `f`, state `st` to `f'`, `st'`
     - without a crash,
     - the heap grew exactly by the ids of the new members (`L`), all fresh,
     - everything added is released by class `c`'s destructor, completely (`remain` unchanged) and without a
       nested NULL dereference (`nestedCrash` unchanged).
  `runScript_spec` proves `Ext` for every script of every class of a good set (induction over the script:
  `sub` = nested constructor, `next` = rest of this constructor); `newBody_spec` is the `EB_NEW` step.
-/
import SvtVerif.Model.Unwind

namespace Unwind
set_option linter.unusedVariables false

/-! ### small list facts -/

theorem filter_drop_prefix (A H : List Nat) (id : Nat) (hH : ∀ x ∈ H, x < id) (hA : ∀ x ∈ A, id ≤ x) :
    (A ++ id :: H).filter (fun x => !(id :: A.filter (fun y => !([] : List Nat).contains y)).contains x) = H := by
  have hfa : A.filter (fun y => !([] : List Nat).contains y) = A := by
    apply List.filter_eq_self.mpr; intro a _; simp
  rw [hfa, List.filter_append]
  have h1 : A.filter (fun x => !(id :: A).contains x) = [] := by
    apply List.filter_eq_nil_iff.mpr; intro a ha; simp [ha]
  have h2 : (id :: H).filter (fun x => !(id :: A).contains x) = H := by
    rw [List.filter_cons]; simp only [List.contains_cons, BEq.rfl, Bool.true_or, Bool.not_true]
    apply List.filter_eq_self.mpr
    intro a ha
    have h3 := hH a ha
    have h4 : (a == id) = false := by simp; omega
    have h5 : a ∉ A := fun h => by have := hA a h; omega
    simp [h4, h5]
  rw [h1, h2]; rfl

/-! ### frame predicates -/

def Fresh (st : St) : Prop := ∀ x ∈ st.heap, x < st.nextId

structure Ext (T : Table) (c : Nat) (f : Forest) (st : St) (f' : Forest) (st' : St) : Prop where
  crashed : st'.crashed = st.crashed
  nextId : st.nextId ≤ st'.nextId
  cnt : st.cnt ≤ st'.cnt
  heap : ∃ L, f'.ids = L ++ f.ids ∧ st'.heap = L ++ st.heap ∧ (∀ x ∈ L, st.nextId ≤ x ∧ x < st'.nextId) ∧ L.Nodup
  remain : remain T c f' = remain T c f
  nested : nestedCrash T c f' = nestedCrash T c f

/-- the run returned success: no counted primitive failed on the way -/
structure OkRun (fail : Nat → Bool) (st st' : St) : Prop where
  fired : st'.fired = st.fired
  nofail : ∀ n, st.cnt ≤ n → n < st'.cnt → fail n = false

theorem Ext.refl (T : Table) (c : Nat) (f : Forest) (st : St) : Ext T c f st f st :=
  ⟨rfl, Nat.le_refl _, Nat.le_refl _, ⟨[], by simp, by simp, by simp, List.nodup_nil⟩, rfl, rfl⟩

theorem Ext.trans {T : Table} {c : Nat} {f f' f'' : Forest} {st st' st'' : St}
    (h1 : Ext T c f st f' st') (h2 : Ext T c f' st' f'' st'') : Ext T c f st f'' st'' := by
  obtain ⟨L1, a1, b1, c1, d1⟩ := h1.heap
  obtain ⟨L2, a2, b2, c2, d2⟩ := h2.heap
  refine ⟨h2.crashed.trans h1.crashed, Nat.le_trans h1.nextId h2.nextId, Nat.le_trans h1.cnt h2.cnt,
    ⟨L2 ++ L1, by rw [a2, a1, List.append_assoc], by rw [b2, b1, List.append_assoc], ?_, ?_⟩,
    h2.remain.trans h1.remain, h2.nested.trans h1.nested⟩
  · intro x hx
    rcases List.mem_append.mp hx with h | h
    · have := c2 x h; have := h1.nextId; omega
    · have := c1 x h; have := h2.nextId; omega
  · refine List.nodup_append.mpr ⟨d2, d1, ?_⟩
    intro x hx y hy hxy
    have := c2 x hx; have := c1 y hy; omega

theorem OkRun.refl (fail : Nat → Bool) (st : St) : OkRun fail st st :=
  ⟨rfl, fun n h1 h2 => by omega⟩

theorem OkRun.trans {fail : Nat → Bool} {st st' st'' : St} (hc : st.cnt ≤ st'.cnt)
    (h1 : OkRun fail st st') (h2 : OkRun fail st' st'') : OkRun fail st st'' := by
  refine ⟨h2.fired.trans h1.fired, fun n a b => ?_⟩
  by_cases h : n < st'.cnt
  · exact h1.nofail n a h
  · exact h2.nofail n (by omega) b

theorem Fresh.ext {T : Table} {c : Nat} {f f' : Forest} {st st' : St} (hf : Fresh st)
    (h : Ext T c f st f' st') : Fresh st' := by
  obtain ⟨L, _, b, cL, _⟩ := h.heap
  intro x hx
  rw [b] at hx
  rcases List.mem_append.mp hx with h1 | h1
  · exact (cL x h1).2
  · have := hf x h1; have := h.nextId; omega

theorem Fresh.push {st : St} (hf : Fresh st) : Fresh st.push := by
  intro x hx
  simp only [St.push, List.mem_cons] at hx
  rcases hx with h | h
  · simp [St.push, h]
  · have := hf x h; simp [St.push]; omega

/-! ### single steps -/

theorem Ext.tick (T : Table) (c : Nat) (f : Forest) (st : St) (b : Bool) : Ext T c f st f (st.tick b) :=
  ⟨rfl, Nat.le_refl _, by simp [St.tick], ⟨[], by simp, by simp [St.tick], by simp, List.nodup_nil⟩, rfl, rfl⟩

theorem Ext.alloc (T : Table) (c m : Nat) (f : Forest) (st : St) (hr : (T.cls c).releases m = true) :
    Ext T c f st (.node m st.nextId none .nil f) st.push := by
  refine ⟨rfl, by simp [St.push], by simp [St.push], ⟨[st.nextId], by simp [Forest.ids], by simp [St.push], ?_, by simp⟩, ?_, ?_⟩
  · intro x hx; simp at hx; subst hx; simp [St.push]
  · simp [Unwind.remain, hr]
  · simp [Unwind.nestedCrash]

theorem OkRun.tick (fail : Nat → Bool) (st : St) (h : fail st.cnt = false) : OkRun fail st (st.tick false) := by
  refine ⟨by simp [St.tick], fun n a b => ?_⟩
  simp [St.tick] at b
  have : n = st.cnt := by omega
  subst this; exact h

theorem OkRun.push (fail : Nat → Bool) (st : St) (h : fail st.cnt = false) : OkRun fail st st.push := by
  refine ⟨by simp [St.push], fun n a b => ?_⟩
  simp [St.push] at b
  have : n = st.cnt := by omega
  subst this; exact h

/-! ### facts about good classes -/

theorem needsMissing_of_nullTol {cd : ClassDef} (h : cd.nullTol = true) (f : Forest) :
    needsMissing cd f = false := by
  unfold needsMissing
  unfold ClassDef.nullTol at h
  rw [List.all_eq_true] at h
  apply Bool.eq_false_iff.mpr
  intro hh
  rw [List.any_eq_true] at hh
  obtain ⟨r, hr, hr2⟩ := hh
  have := h r hr
  rw [List.isEmpty_iff] at this
  rw [this] at hr2
  simp at hr2

theorem created_mem_pre {cd : ClassDef} {e : Ev} {m : Nat} (he : e ∈ cd.pre) (hs : e.slot? = some m) :
    m ∈ cd.created := by
  unfold ClassDef.created
  exact List.mem_filterMap.mpr ⟨e, List.mem_append_left _ he, hs⟩

theorem created_mem_post {cd : ClassDef} {e : Ev} {m : Nat} (he : e ∈ cd.post) (hs : e.slot? = some m) :
    m ∈ cd.created := by
  unfold ClassDef.created
  exact List.mem_filterMap.mpr ⟨e, List.mem_append_right _ he, hs⟩

theorem releases_of_covered {cd : ClassDef} (h : cd.covered = true) {m : Nat} (hm : m ∈ cd.created) :
    cd.releases m = true := by
  unfold ClassDef.covered at h
  exact (List.all_eq_true.mp h) m hm

/-! ### the part before the dctor assignment -/

theorem runPre_spec (T : Table) (fail : Nat → Bool) (c : Nat) :
    ∀ (es : List Ev) (f : Forest) (st : St),
      (∀ e ∈ es, ∀ m, e.slot? = some m → (T.cls c).releases m = true) →
      Ext T c f st (runPre fail es f st).f (runPre fail es f st).st ∧
      ((runPre fail es f st).ok = true → OkRun fail st (runPre fail es f st).st) ∧
      (preOK es = true → (runPre fail es f st).ok = false →
          (runPre fail es f st).f = f ∧ (runPre fail es f st).st.heap = st.heap) := by
  intro es
  induction es with
  | nil => intro f st _; exact ⟨Ext.refl .., fun _ => OkRun.refl .., fun _ h => by simp [runPre] at h⟩
  | cons e es ih =>
    intro f st hrel
    have hrel' : ∀ e' ∈ es, ∀ m, e'.slot? = some m → (T.cls c).releases m = true :=
      fun e' he' => hrel e' (List.mem_cons_of_mem _ he')
    cases e with
    | alloc m k =>
      by_cases hf : fail st.cnt = true
      · simp only [runPre, hf, if_true]
        exact ⟨Ext.tick .., fun h => by simp at h, fun _ _ => by simp [St.tick]⟩
      · simp only [runPre, hf, Bool.false_eq_true, if_false]
        have hm := hrel (.alloc m k) (List.mem_cons_self) m rfl
        obtain ⟨a, b, cc⟩ := ih (.node m st.nextId none .nil f) st.push hrel'
        refine ⟨(Ext.alloc T c m f st hm).trans a, fun h => ?_, fun hp hk => ?_⟩
        · exact OkRun.trans (by simp [St.push]) (OkRun.push fail st (by simpa using hf)) (b h)
        · -- preOK (alloc :: es) means es = []
          simp only [preOK, List.isEmpty_iff] at hp
          subst hp
          simp [runPre] at hk
    | new m d =>
      by_cases hf : fail st.cnt = true
      · simp only [runPre, hf, if_true]
        exact ⟨Ext.tick .., fun h => by simp at h, fun hp _ => by simp [preOK] at hp⟩
      · simp only [runPre, hf, Bool.false_eq_true, if_false]
        obtain ⟨a, b, cc⟩ := ih f (st.tick false) hrel'
        refine ⟨(Ext.tick T c f st false).trans a, fun h => ?_, fun hp _ => by simp [preOK] at hp⟩
        exact OkRun.trans (by simp [St.tick]) (OkRun.tick fail st (by simpa using hf)) (b h)
    | call =>
      by_cases hf : fail st.cnt = true
      · simp only [runPre, hf, if_true]
        exact ⟨Ext.tick .., fun h => by simp at h, fun _ _ => by simp [St.tick]⟩
      · simp only [runPre, hf, Bool.false_eq_true, if_false]
        obtain ⟨a, b, cc⟩ := ih f (st.tick false) hrel'
        refine ⟨(Ext.tick T c f st false).trans a, fun h => ?_, fun hp hk => ?_⟩
        · exact OkRun.trans (by simp [St.tick]) (OkRun.tick fail st (by simpa using hf)) (b h)
        · have := cc (by simpa [preOK] using hp) hk
          exact ⟨this.1, by rw [this.2]; simp [St.tick]⟩
    | failRet =>
      simp only [runPre]
      exact ⟨Ext.refl .., fun h => by simp at h, fun _ _ => by simp⟩

/-- a class that creates nothing adds no member before the dctor assignment -/
theorem runPre_nocreate (fail : Nat → Bool) :
    ∀ (es : List Ev) (f : Forest) (st : St), es.filterMap Ev.slot? = [] → (runPre fail es f st).f = f := by
  intro es
  induction es with
  | nil => intro f st _; rfl
  | cons e es ih =>
    intro f st h
    cases e with
    | alloc m k => simp [Ev.slot?] at h
    | new m d => simp [Ev.slot?] at h
    | call =>
      have h' : es.filterMap Ev.slot? = [] := by simpa [Ev.slot?] using h
      by_cases hf : fail st.cnt = true
      · simp [runPre, hf]
      · simp only [runPre, hf, Bool.false_eq_true, if_false]; exact ih _ _ h'
    | failRet => simp [runPre]


/-! ### good sets -/

/-- `S` is a good set of `T` (Prop form of `goodSet T S = true`) -/
structure GoodSet (T : Table) (S : List Nat) : Prop where
  good : ∀ c ∈ S, (T.cls c).good = true
  closed : ∀ c ∈ S, ∀ d ∈ (T.cls c).news, d ∈ S

theorem goodSet_iff (T : Table) (S : List Nat) : goodSet T S = true → GoodSet T S := by
  intro h
  unfold goodSet at h
  rw [List.all_eq_true] at h
  constructor
  · intro c hc; have := h c hc; simp only [Bool.and_eq_true] at this; exact this.1
  · intro c hc d hd
    have := h c hc; simp only [Bool.and_eq_true] at this
    have h2 := (List.all_eq_true.mp this.2) d hd
    simpa using h2

theorem good_parts {cd : ClassDef} (h : cd.good = true) :
    (preOK cd.pre = true ∧ (cd.created = [] ∨ cd.hasDctor = true)) ∧ cd.covered = true ∧ cd.nullTol = true := by
  unfold ClassDef.good ClassDef.dctorFirst at h
  simp only [Bool.and_eq_true, Bool.or_eq_true, List.isEmpty_iff] at h
  exact ⟨⟨h.1.1.1, h.1.1.2⟩, h.1.2, h.2⟩

theorem news_mem {cd : ClassDef} {i m d : Nat} (h : cd.post[i]? = some (.new m d)) : d ∈ cd.news := by
  unfold ClassDef.news
  exact List.mem_filterMap.mpr ⟨.new m d, List.mem_of_getElem? h, rfl⟩

/-! ### what a completed / failed `EB_NEW` leaves behind -/

/-- facts about a member object `ck` (of class `d`, allocation `id`) that was constructed on top of heap
    `id :: H`, ending in state `st3` -/
structure ChildOk (T : Table) (fail : Nat → Bool) (d id : Nat) (st1 : St) (ck : Forest) (st3 : St) : Prop where
  heap : st3.heap = ck.ids ++ st1.heap
  bounds : ∀ x ∈ ck.ids, st1.nextId ≤ x ∧ x < st3.nextId
  nodup : ck.ids.Nodup
  crashed : st3.crashed = st1.crashed
  nextId : st1.nextId ≤ st3.nextId
  cnt : st1.cnt ≤ st3.cnt
  kept : (if (T.cls d).hasDctor then remain T d ck else ck.ids) = []
  nocrash : crashes T d ck = false
  okrun : OkRun fail st1 st3

structure ChildFail (st1 st3 : St) (H : List Nat) : Prop where
  heap : st3.heap = H
  crashed : st3.crashed = st1.crashed
  nextId : st1.nextId ≤ st3.nextId
  cnt : st1.cnt ≤ st3.cnt

/-- the specification a scripted run has to meet (this is the induction hypothesis of `runScript_spec`) -/
def RunSpec (T : Table) (fail : Nat → Bool) (d : Nat) (run : Forest → St → Out) : Prop :=
  ∀ (pk : Forest) (s : St), Fresh s →
    Ext T d pk s (run pk s).f (run pk s).st ∧
    ((run pk s).ok = true → OkRun fail s (run pk s).st) ∧
    ((T.cls d).created = [] → (run pk s).f = pk)

theorem deleteObj_clean (T : Table) (d id : Nat) (dset : Bool) (ck : Forest) (st : St) (H : List Nat)
    (hheap : st.heap = ck.ids ++ id :: H) (hH : ∀ x ∈ H, x < id) (hck : ∀ x ∈ ck.ids, id ≤ x)
    (hkept : (if dset then remain T d ck else ck.ids) = []) (hcr : dset = true → crashes T d ck = false) :
    (deleteObj T d id dset ck st).heap = H ∧ (deleteObj T d id dset ck st).crashed = st.crashed ∧
    (deleteObj T d id dset ck st).nextId = st.nextId ∧ (deleteObj T d id dset ck st).cnt = st.cnt := by
  unfold deleteObj
  simp only [hkept, hheap]
  refine ⟨filter_drop_prefix ck.ids H id hH hck, ?_, by simp, by simp⟩
  cases dset with
  | false => simp
  | true => simp [hcr rfl]

theorem newBody_spec (T : Table) (fail : Nat → Bool) (S : List Nat) (hS : GoodSet T S) (d : Nat) (hd : d ∈ S)
    (run : Forest → St → Out) (hrun : RunSpec T fail d run)
    (id : Nat) (st1 : St) (H : List Nat) (hheap : st1.heap = id :: H) (hH : ∀ x ∈ H, x < id)
    (hid : id < st1.nextId) :
    match newBody T fail d id run st1 with
    | (some ck, st3) => ChildOk T fail d id st1 ck st3
    | (none, st3) => ChildFail st1 st3 H := by
  obtain ⟨⟨hpre, hdc⟩, hcov, hnt⟩ := good_parts (hS.good d hd)
  have hrelpre : ∀ e ∈ (T.cls d).pre, ∀ m, e.slot? = some m → (T.cls d).releases m = true :=
    fun e he m hm => releases_of_covered hcov (created_mem_pre he hm)
  obtain ⟨pe, pok, pfail⟩ := runPre_spec T fail d (T.cls d).pre .nil st1 hrelpre
  have hfresh1 : Fresh st1 := by
    intro x hx; rw [hheap] at hx
    rcases List.mem_cons.mp hx with h | h
    · omega
    · have := hH x h; omega
  unfold newBody
  simp only
  by_cases hp : (runPre fail (T.cls d).pre .nil st1).ok = true
  · simp only [hp, if_true]
    obtain ⟨re, rok, rnc⟩ := hrun (runPre fail (T.cls d).pre .nil st1).f (runPre fail (T.cls d).pre .nil st1).st
      (hfresh1.ext pe)
    have ext := pe.trans re
    obtain ⟨L, hL1, hL2, hL3, hL4⟩ := ext.heap
    simp only [Forest.ids, List.append_nil] at hL1
    have hrem : remain T d (run (runPre fail (T.cls d).pre .nil st1).f (runPre fail (T.cls d).pre .nil st1).st).f = [] := by
      rw [ext.remain]; rfl
    have hnest : nestedCrash T d (run (runPre fail (T.cls d).pre .nil st1).f (runPre fail (T.cls d).pre .nil st1).st).f = false := by
      rw [ext.nested]; rfl
    have hnocrash : crashes T d (run (runPre fail (T.cls d).pre .nil st1).f (runPre fail (T.cls d).pre .nil st1).st).f = false := by
      unfold crashes; rw [needsMissing_of_nullTol hnt, hnest]; rfl
    -- members exist only if the class has a destructor
    have hkept : (if (T.cls d).hasDctor then
          remain T d (run (runPre fail (T.cls d).pre .nil st1).f (runPre fail (T.cls d).pre .nil st1).st).f
        else (run (runPre fail (T.cls d).pre .nil st1).f (runPre fail (T.cls d).pre .nil st1).st).f.ids) = [] := by
      cases hh : (T.cls d).hasDctor with
      | true => simpa using hrem
      | false =>
        rcases hdc with hc | hc
        · have h1 : (T.cls d).pre.filterMap Ev.slot? = [] := by
            have : ((T.cls d).pre ++ (T.cls d).post).filterMap Ev.slot? = [] := hc
            rw [List.filterMap_append] at this
            exact (List.append_eq_nil_iff.mp this).1
          have h2 := runPre_nocreate fail (T.cls d).pre .nil st1 h1
          have h3 := rnc hc
          rw [h3, h2]; rfl
        · rw [hh] at hc; cases hc
    by_cases hr : (run (runPre fail (T.cls d).pre .nil st1).f (runPre fail (T.cls d).pre .nil st1).st).ok = true
    · simp only [hr, if_true]
      refine ⟨by rw [hL2, hL1], ?_, by rw [hL1]; exact hL4, ext.crashed, ext.nextId, ext.cnt, hkept, hnocrash, ?_⟩
      · intro x hx; rw [hL1] at hx; exact hL3 x hx
      · exact OkRun.trans pe.cnt (pok hp) (rok hr)
    · simp only [hr, Bool.false_eq_true, if_false]
      have hh : (run (runPre fail (T.cls d).pre .nil st1).f (runPre fail (T.cls d).pre .nil st1).st).st.heap =
          (run (runPre fail (T.cls d).pre .nil st1).f (runPre fail (T.cls d).pre .nil st1).st).f.ids ++ id :: H := by
        rw [hL2, hL1, hheap]
      have hb : ∀ x ∈ (run (runPre fail (T.cls d).pre .nil st1).f (runPre fail (T.cls d).pre .nil st1).st).f.ids, id ≤ x := by
        intro x hx; rw [hL1] at hx; have := (hL3 x hx).1; omega
      obtain ⟨a, b, c, e⟩ := deleteObj_clean T d id (T.cls d).hasDctor _ _ H hh hH hb hkept (fun _ => hnocrash)
      exact ⟨a, b.trans ext.crashed, by rw [c]; exact ext.nextId, by rw [e]; exact ext.cnt⟩
  · simp only [hp, Bool.false_eq_true, if_false]
    have hp' : (runPre fail (T.cls d).pre .nil st1).ok = false := by simpa using hp
    obtain ⟨hf, hh⟩ := pfail hpre hp'
    have hh' : (runPre fail (T.cls d).pre .nil st1).st.heap = (runPre fail (T.cls d).pre .nil st1).f.ids ++ id :: H := by
      rw [hh, hf, hheap]; simp [Forest.ids]
    obtain ⟨a, b, c, e⟩ := deleteObj_clean T d id false _ _ H hh' hH (by rw [hf]; simp [Forest.ids])
      (by rw [hf]; simp [Forest.ids]) (fun h => by cases h)
    exact ⟨a, b.trans pe.crashed, by rw [c]; exact pe.nextId, by rw [e]; exact pe.cnt⟩

/-- a constructed member object is released completely by its owner's destructor -/
theorem Ext.obj (T : Table) (fail : Nat → Bool) (c m d : Nat) (f ck : Forest) (st st3 : St)
    (hr : (T.cls c).releases m = true) (hfresh : Fresh st)
    (hc : ChildOk T fail d st.nextId st.push ck st3) :
    Ext T c f st (.node m st.nextId (some (d, (T.cls d).hasDctor)) ck f) st3 := by
  refine ⟨hc.crashed, ?_, ?_, ⟨ck.ids ++ [st.nextId], by simp [Forest.ids], ?_, ?_, ?_⟩, ?_, ?_⟩
  · have := hc.nextId; simp [St.push] at this; omega
  · have := hc.cnt; simp [St.push] at this; omega
  · rw [hc.heap]; simp [St.push]
  · intro x hx
    rcases List.mem_append.mp hx with h | h
    · have := hc.bounds x h; simp [St.push] at this; omega
    · simp at h; subst h; have := hc.nextId; simp [St.push] at this; omega
  · refine List.nodup_append.mpr ⟨hc.nodup, by simp, ?_⟩
    intro x hx y hy hxy
    simp at hy; subst hy
    have := hc.bounds x hx; simp [St.push] at this; omega
  · have hk := hc.kept
    simp only [Unwind.remain, hr, if_true]
    cases hh : (T.cls d).hasDctor with
    | true => rw [hh] at hk; simp at hk; simp [hk]
    | false => rw [hh] at hk; simp at hk; simp [hk]
  · simp only [Unwind.nestedCrash, hr, Bool.true_and]
    cases hh : (T.cls d).hasDctor with
    | true =>
      have := hc.nocrash
      unfold crashes at this
      simp [this]
    | false => simp

/-! ### the scripted part: induction over the script -/

theorem runScript_spec (T : Table) (fail : Nat → Bool) (S : List Nat) (hS : GoodSet T S) :
    ∀ (script : Script) (c : Nat), c ∈ S → ∀ (f : Forest) (st : St), Fresh st →
      Ext T c f st (runScript T fail c script f st).f (runScript T fail c script f st).st ∧
      ((runScript T fail c script f st).ok = true → OkRun fail st (runScript T fail c script f st).st) ∧
      ((T.cls c).created = [] → (runScript T fail c script f st).f = f) := by
  intro script
  induction script with
  | stop => intro c _ f st _; exact ⟨Ext.refl .., fun _ => OkRun.refl .., fun _ => rfl⟩
  | ev i sub next ihsub ihnext =>
    intro c hc f st hfresh
    obtain ⟨_, hcov, _⟩ := good_parts (hS.good c hc)
    unfold runScript
    split
    · exact ⟨Ext.refl .., fun _ => OkRun.refl .., fun _ => rfl⟩
    · -- alloc
      rename_i m k hev
      have hmem : m ∈ (T.cls c).created := created_mem_post (List.mem_of_getElem? hev) rfl
      have hr := releases_of_covered hcov hmem
      by_cases hf : fail st.cnt = true
      · simp only [hf, if_true]
        exact ⟨Ext.tick .., fun h => by simp at h, fun _ => trivial⟩
      · simp only [hf, Bool.false_eq_true, if_false]
        obtain ⟨a, b, cc⟩ := ihnext c hc (.node m st.nextId none .nil f) st.push hfresh.push
        refine ⟨(Ext.alloc T c m f st hr).trans a, fun h => ?_, fun h => ?_⟩
        · exact OkRun.trans (by simp [St.push]) (OkRun.push fail st (by simpa using hf)) (b h)
        · rw [h] at hmem; cases hmem
    · -- call
      by_cases hf : fail st.cnt = true
      · simp only [hf, if_true]
        exact ⟨Ext.tick .., fun h => by simp at h, fun _ => trivial⟩
      · simp only [hf, Bool.false_eq_true, if_false]
        have hfr : Fresh (st.tick false) := by intro x hx; exact hfresh x hx
        obtain ⟨a, b, cc⟩ := ihnext c hc f (st.tick false) hfr
        refine ⟨(Ext.tick T c f st false).trans a, fun h => ?_, cc⟩
        exact OkRun.trans (by simp [St.tick]) (OkRun.tick fail st (by simpa using hf)) (b h)
    · -- failRet
      exact ⟨Ext.refl .., fun h => by simp at h, fun _ => rfl⟩
    · -- new
      rename_i m d hev
      have hmem : m ∈ (T.cls c).created := created_mem_post (List.mem_of_getElem? hev) rfl
      have hr := releases_of_covered hcov hmem
      have hd : d ∈ S := hS.closed c hc d (news_mem hev)
      by_cases hf : fail st.cnt = true
      · simp only [hf, if_true]
        exact ⟨Ext.tick .., fun h => by simp at h, fun _ => trivial⟩
      · simp only [hf, Bool.false_eq_true, if_false]
        have hrun : RunSpec T fail d (fun pk s => runScript T fail d sub pk s) :=
          fun pk s hs => ihsub d hd pk s hs
        have hnb := newBody_spec T fail S hS d hd _ hrun st.nextId st.push st.heap (by simp [St.push])
          (fun x hx => hfresh x hx) (by simp [St.push])
        split
        · -- nested constructor succeeded
          rename_i ck st3 hres
          rw [hres] at hnb
          have hnb : ChildOk T fail d st.nextId st.push ck st3 := hnb
          have e1 := Ext.obj T fail c m d f ck st st3 hr hfresh hnb
          have hfr3 : Fresh st3 := hfresh.ext e1
          obtain ⟨a, b, cc⟩ := ihnext c hc (.node m st.nextId (some (d, (T.cls d).hasDctor)) ck f) st3 hfr3
          refine ⟨e1.trans a, fun h => ?_, fun h => ?_⟩
          · have o1 : OkRun fail st st.push := OkRun.push fail st (by simpa using hf)
            have o2 : OkRun fail st st3 := OkRun.trans (by simp [St.push]) o1 hnb.okrun
            exact OkRun.trans e1.cnt o2 (b h)
          · rw [h] at hmem; cases hmem
        · -- nested constructor failed: the object was deleted, the heap is as before
          rename_i st3 hres
          rw [hres] at hnb
          have hnb : ChildFail st.push st3 st.heap := hnb
          refine ⟨⟨hnb.crashed, ?_, ?_, ⟨[], by simp, by simp [hnb.heap], by simp, List.nodup_nil⟩, rfl, rfl⟩,
            fun h => by simp at h, fun _ => rfl⟩
          · have := hnb.nextId; simp [St.push] at this; show st.nextId ≤ st3.nextId; omega
          · have := hnb.cnt; simp [St.push] at this; show st.cnt ≤ st3.cnt; omega


/-! ### the whole `EB_NEW(root, ..)` -/

/-- what `construct` guarantees for a class of a good set, for every failure pattern and every script -/
structure ConstructSpec (T : Table) (fail : Nat → Bool) (r : Result) : Prop where
  nocrash : r.st.crashed = false
  err_clean : r.ok = false → r.st.heap = [] ∧ r.root = .nil
  ok_owned : r.ok = true → r.st.heap = r.root.ids ∧ r.root.ids.Nodup
  ok_teardown : r.ok = true → (destroy T r).heap = [] ∧ (destroy T r).crashed = false
  ok_nofail : r.ok = true → r.st.fired = false ∧ ∀ n, n < r.st.cnt → fail n = false

theorem construct_spec (T : Table) (fail : Nat → Bool) (S : List Nat) (hS : GoodSet T S) (c : Nat) (hc : c ∈ S)
    (script : Script) : ConstructSpec T fail (construct T fail c script) := by
  unfold construct
  by_cases hf : fail St.init.cnt = true
  · simp only [hf, if_true]
    exact ⟨rfl, fun _ => ⟨rfl, rfl⟩, fun h => by simp at h, fun h => by simp at h, fun h => by simp at h⟩
  · simp only [hf, Bool.false_eq_true, if_false]
    have hrun : RunSpec T fail c (fun pk s => runScript T fail c script pk s) :=
      fun pk s hs => runScript_spec T fail S hS script c hc pk s hs
    have hnb := newBody_spec T fail S hS c hc _ hrun St.init.nextId St.init.push [] (by simp [St.push, St.init])
      (by simp) (by simp [St.push])
    split
    · rename_i ck st3 hres
      rw [hres] at hnb
      have hnb : ChildOk T fail c St.init.nextId St.init.push ck st3 := hnb
      have hheap : st3.heap = ck.ids ++ [0] := by rw [hnb.heap]; simp [St.push, St.init]
      refine ⟨by rw [hnb.crashed]; rfl, fun h => by simp at h, fun _ => ?_, fun _ => ?_, fun _ => ?_⟩
      · refine ⟨by simp [Forest.ids, hheap, St.init], ?_⟩
        simp only [Forest.ids, St.init, List.append_nil]
        refine List.nodup_append.mpr ⟨hnb.nodup, by simp, ?_⟩
        intro x hx y hy hxy
        simp at hy; subst hy
        have := hnb.bounds x hx; simp [St.push, St.init] at this; omega
      · have hb : ∀ x ∈ ck.ids, 0 ≤ x := fun _ _ => Nat.zero_le _
        obtain ⟨a, b, _, _⟩ := deleteObj_clean T c 0 (T.cls c).hasDctor ck st3 [] (by rw [hheap]) (by simp) hb
          hnb.kept (fun _ => hnb.nocrash)
        simp only [destroy, St.init]
        exact ⟨a, by rw [b, hnb.crashed]; rfl⟩
      · have o1 : OkRun fail St.init St.init.push := OkRun.push fail St.init (by simpa using hf)
        have o2 : OkRun fail St.init st3 := OkRun.trans (by simp [St.push]) o1 hnb.okrun
        exact ⟨by rw [o2.fired]; rfl, fun n hn => o2.nofail n (Nat.zero_le _) hn⟩
    · rename_i st3 hres
      rw [hres] at hnb
      have hnb : ChildFail St.init.push st3 [] := hnb
      exact ⟨by rw [hnb.crashed]; rfl, fun _ => ⟨hnb.heap, rfl⟩, fun h => by simp at h, fun h => by simp at h,
        fun h => by simp at h⟩


/-- what `findWitness` returns is a bad outcome of the straight-line run -/
theorem findWitness_sound (T : Table) (depth c k : Nat) (h : findWitness T depth c = some k) :
    badOutcome T (if k = 0 then noFail else failAt (k - 1)) c (straight T depth c) = true := by
  unfold findWitness at h
  dsimp only at h
  have := List.find?_some h
  simpa using this

end Unwind
